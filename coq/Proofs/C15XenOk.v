(* C15 - the Xen construction checker ok_C15x holds on the model (checker-on-model theorem). *)
From VM Require Import Prelude.MachInt Prelude.Outcome Prelude.Tok Impl.MmapBuild Impl.Xen Spec.C15 Suite.C15
  Proofs.C15 Proofs.C15ModelOk Proofs.C17.

Definition eprot (c : case15x) : N := match cx_prot c with Some p => p | None => N.lor PROT_READ PROT_WRITE end.
Definition eflags (c : case15x) : N := match cx_flags c with Some f => f | None => N.lor MAP_NORESERVE MAP_SHARED end.
Definition fixed_x (c : case15x) : bool := match cx_flags c with Some f => hasbit f 16 | None => false end.
Definition range_e (c : case15x) : xrange :=
  {| x_size := cx_size c; x_file := match cx_file c with Some (_, s) => Some s | None => None end;
     x_prot := Some (eprot c); x_flags := Some (eflags c); x_addr := cx_addr c; x_mflags := cx_mflags c;
     x_mdata := cx_mdata c |}.

Lemma xfr_form m o c :
  xen_from_range m o (range_of c) =
  if fixed_x c then Val (Err MapFixed, [])
  else
    let* (u, l) := xen_new m o (range_e c) in
    match u with
    | Err e => Val (Err e, l)
    | Ok (f, k, mp) =>
        Val (Ok {| xr_size := cx_size c; xr_prot := eprot c; xr_flags := eflags c;
                   xr_file := match cx_file c with Some (_, s) => Some s | None => None end;
                   xr_mflags := f; xr_mdata := cx_mdata c; xr_kind := k; xr_base := cx_addr c;
                   xr_mapped := mp |}, l)
    end.
Proof.
  unfold xen_from_range, range_of, range_e, fixed_x, eprot, eflags, hasbit.
  cbn [x_flags x_prot x_size x_file x_addr x_mflags x_mdata].
  destruct (cx_flags c) as [fl|]; destruct (cx_prot c) as [p|]; change MAP_FIXED with 16;
    try (destruct (negb (N.land fl 16 =? 0)); [reflexivity|]);
    match goal with |- context [xen_new m o ?r'] => destruct (xen_new m o r') as [[[[[f k] mp]|e] l]| |] end;
    reflexivity.
Qed.

(* ------------------------------------------------------------------ the checker, read semantically *)
Lemma okx_err c o : ox_res o <> 0 -> In (ox_res o) (reasons_x c) -> ox_d2 o = 0 -> ox_live o = 0 ->
  ok_C15x c o = true.
Proof.
  intros R I D L. unfold ok_C15x. destruct (reasons_x c) as [|r rs] eqn:E; [destruct I|].
  apply mem_iff in I. rewrite I, D, L. destruct (N.eqb_spec (ox_res o) 0); [contradiction|]. reflexivity.
Qed.

Lemma okx_refused c o :
  ((ox_probe o =? 0) || (((cx_mflags c =? 1) || (cx_mflags c =? 2)) && negb (cx_ioctl c))) = true ->
  ox_res o = 5 -> ox_d2 o = 0 -> ox_live o = 0 -> ok_C15x c o = true.
Proof.
  intros P R D L. unfold ok_C15x. rewrite P, R, D, L.
  destruct (reasons_x c); [reflexivity|]. cbn [negb andb]. rewrite orb_true_r. reflexivity.
Qed.

Lemma okx_accept c o : reasons_x c = [] ->
  ((ox_probe o =? 0) || (((cx_mflags c =? 1) || (cx_mflags c =? 2)) && negb (cx_ioctl c))) = false ->
  ox_res o = 0 -> ox_size o = cx_size c -> ox_prot o = eprot c -> ox_flags o = eflags c ->
  match cx_file c with
  | Some (_, s) => ox_hasfile o = true /\ ox_start o = s /\ ox_samefd o = true
  | None => ox_hasfile o = false end ->
  ox_xflags o = cx_mflags c -> ox_xdata o = cx_mdata c -> ox_d2 o = 0 -> ox_live o = 0 ->
  ok_C15x c o = true.
Proof.
  intros E P R S Pr Fl Fi XF XD D L. unfold ok_C15x. rewrite E, P, R, S, XF, XD, D, L.
  assert (X1 : match cx_prot c with Some p => ox_prot o =? p | None => true end = true).
  { rewrite Pr. unfold eprot. destruct (cx_prot c); [apply N.eqb_refl|reflexivity]. }
  assert (X2 : match cx_flags c with Some f => ox_flags o =? f | None => true end = true).
  { rewrite Fl. unfold eflags. destruct (cx_flags c); [apply N.eqb_refl|reflexivity]. }
  assert (X3 : match cx_file c with
               | Some (_, start) => ox_hasfile o && (ox_start o =? start) && ox_samefd o
               | None => negb (ox_hasfile o) end = true).
  { destruct (cx_file c) as [[fl s]|]; cbn iota beta in Fi; [destruct Fi as [F1 [F2 F3]]; rewrite F1, F2, F3, N.eqb_refl|rewrite Fi]; reflexivity. }
  rewrite X1, X2, X3, !N.eqb_refl. reflexivity.
Qed.

Lemma xen_type_ok_accepted w : w < 2 ^ 32 -> xen_type_ok w = accepted w.
Proof.
  intros H. pose proof (xen_flags_valid_iff_lemma w H) as A.
  unfold xen_type_ok. apply eq_true_iff_eq. rewrite mem_iff, A. cbn [In]. intuition.
Qed.

(* ------------------------------------------------------------------ dispatch of MmapXen::new *)
Lemma xnew_invalid m o r : accepted (x_mflags r) = false -> xen_new m o r = Val (Err MmapFlags, []).
Proof.
  unfold accepted, xen_new. destruct (from_bits (x_mflags r)) as [f|]; [|reflexivity].
  intros ->. reflexivity.
Qed.
Lemma xnew_0 m o r : x_mflags r = 0 ->
  xen_new m o r = (let* (u, l) := xunix_new o r in
                   Val (match u with Ok mp => Ok (0, XUnix, mp) | Err e => Err e end, l)).
Proof. intros E. unfold xen_new. rewrite E. reflexivity. Qed.
Lemma xnew_1 m o r : x_mflags r = 1 ->
  xen_new m o r = (let* (u, l) := xforeign_new m o r in
                   Val (match u with Ok mp => Ok (1, XForeign, mp) | Err e => Err e end, l)).
Proof. intros E. unfold xen_new. rewrite E. reflexivity. Qed.
Lemma xnew_2 m o r : x_mflags r = 2 ->
  xen_new m o r = (let* (u, l) := xgrant_new m o r 2 in
                   Val (match u with Ok mp => Ok (2, XGrant, mp) | Err e => Err e end, l)).
Proof. intros E. unfold xen_new. rewrite E. reflexivity. Qed.
Lemma xnew_10 m o r : x_mflags r = 10 ->
  xen_new m o r = (let* (u, l) := xgrant_new m o r 10 in
                   Val (match u with Ok mp => Ok (10, XGrant, mp) | Err e => Err e end, l)).
Proof. intros E. unfold xen_new. rewrite E. reflexivity. Qed.

(* ------------------------------------------------------------------ what the model observes *)
Definition obs_of_x (c : case15x) (probe : N) (r : res xregion) (l : list ev) : obs15x :=
  let pos := match cx_file c with Some _ => if has_rewind l then 0 else 7 | None => 0 end in
  match r with
  | Err e => obs_err_x probe (berr_code e) pos (Z.to_N (foot (cx_page c) l)) (flat_map enc_xev l)
                       (N.of_nat (length (live_after [] l)))
  | Ok g =>
      match xen_drop (cx_mode c) (os_of_x c probe) g with
      | Val ld =>
        {| ox_probe := probe; ox_res := 0; ox_size := xr_size g; ox_prot := xr_prot g;
           ox_flags := xr_flags g;
           ox_hasfile := match xr_file g with Some _ => true | None => false end;
           ox_start := match xr_file g with Some s => s | None => 0 end;
           ox_samefd := match xr_file g with Some _ => true | None => false end;
           ox_xflags := xr_mflags g; ox_xdata := xr_mdata g;
           ox_ptrnull := match xr_mapped g with None => true | Some _ => false end;
           ox_pos := pos; ox_d1 := Z.to_N (foot (cx_page c) l);
           ox_d2 := Z.to_N (foot (cx_page c) (l ++ ld));
           ox_evs := flat_map enc_xev (l ++ ld);
           ox_live := N.of_nat (length (live_after [] (l ++ ld))) |}
      | _ => obs_err_x probe 99 pos 0 [] 0
      end
  end.

Lemma run_obs c probe r l : construct_x c (os_of_x c probe) = Val (r, l) -> run_C15x c probe = obs_of_x c probe r l.
Proof. intros E. unfold run_C15x, obs_of_x. rewrite E. reflexivity. Qed.

Definition base_part (c : case15x) : list N :=
  match cx_base c with Some b => if W64 <=? b + cx_size c then [6] else [] | None => [] end.

Lemma foot_app p a b : foot p (a ++ b) = (foot p a + foot p b)%Z.
Proof.
  induction a as [|e a IH]; cbn [app foot]; [reflexivity|].
  destruct e as [| |s pp f fi off [|]|s|cc ok|gg cc i ok|i cc]; rewrite ?IH; lia.
Qed.

(* once the back end has produced its mapping: the guest base test, then (for the observation) drop *)
Lemma finish_ok c probe k mp l ld :
  let g := {| xr_size := cx_size c; xr_prot := eprot c; xr_flags := eflags c;
              xr_file := match cx_file c with Some (_, s) => Some s | None => None end;
              xr_mflags := cx_mflags c; xr_mdata := cx_mdata c; xr_kind := k; xr_base := cx_addr c;
              xr_mapped := mp |} in
  reasons_x c = base_part c ->
  ((probe =? 0) || (((cx_mflags c =? 1) || (cx_mflags c =? 2)) && negb (cx_ioctl c))) = false ->
  xen_drop (cx_mode c) (os_of_x c probe) g = Val ld ->
  foot (cx_page c) (l ++ ld) = 0%Z -> live_after [] (l ++ ld) = [] ->
  exists r l', (match cx_base c with
                | None => Val (Ok g, l)
                | Some b => let* (r2, l2) := xen_guest_region_new (cx_mode c) (os_of_x c probe) g b in Val (r2, l ++ l2)
                end) = Val (r, l') /\
  ok_C15x c (obs_of_x c probe r l') = true.
Proof.
  intros g RS OS DR FT LV. unfold base_part in RS.
  destruct (cx_base c) as [b|] eqn:Hb.
  - unfold xen_guest_region_new. cbn [xr_size g]. unfold checked_add.
    destruct (N.ltb_spec (b + cx_size c) W64) as [L|L].
    + cbn [bind]. rewrite app_nil_r. eexists. eexists. split; [reflexivity|].
      destruct (N.leb_spec W64 (b + cx_size c)); [lia|].
      unfold obs_of_x. rewrite DR.
      apply okx_accept; cbn [ox_probe ox_res ox_size ox_prot ox_flags ox_hasfile ox_start ox_samefd ox_xflags ox_xdata ox_d2 ox_live xr_size xr_prot xr_flags xr_file xr_mflags xr_mdata g]; auto.
      * destruct (cx_file c) as [[? ?]|]; auto.
      * rewrite FT. reflexivity.
      * rewrite LV. reflexivity.
    + rewrite DR. cbn [bind]. eexists. eexists. split; [reflexivity|].
      destruct (N.leb_spec W64 (b + cx_size c)); [|lia].
      unfold obs_of_x. apply okx_err; cbn [ox_res ox_d2 ox_live obs_err_x berr_code].
      * discriminate.
      * rewrite RS. left. reflexivity.
      * rewrite FT. reflexivity.
      * rewrite LV. reflexivity.
  - eexists. eexists. split; [reflexivity|].
    unfold obs_of_x. rewrite DR.
    apply okx_accept; cbn [ox_probe ox_res ox_size ox_prot ox_flags ox_hasfile ox_start ox_samefd ox_xflags ox_xdata ox_d2 ox_live xr_size xr_prot xr_flags xr_file xr_mflags xr_mdata g]; auto.
    + destruct (cx_file c) as [[? ?]|]; auto.
    + rewrite FT. reflexivity.
    + rewrite LV. reflexivity.
Qed.

(* a failing back end: nothing mapped, nothing live *)
Lemma finish_err c probe e l : 
  berr_code e <> 0 -> foot (cx_page c) l = 0%Z -> live_after [] l = [] ->
  (In (berr_code e) (reasons_x c) \/
   (berr_code e = 5 /\ ((probe =? 0) || (((cx_mflags c =? 1) || (cx_mflags c =? 2)) && negb (cx_ioctl c))) = true)) ->
  ok_C15x c (obs_of_x c probe (Err e) l) = true.
Proof.
  intros NZ FT LV [I|[E5 OS]]; unfold obs_of_x.
  - apply okx_err; cbn [ox_res ox_d2 ox_live obs_err_x]; auto; [rewrite FT|rewrite LV]; reflexivity.
  - apply okx_refused; cbn [ox_probe ox_res ox_d2 ox_live obs_err_x]; auto; [rewrite FT|rewrite LV]; reflexivity.
Qed.

Definition known_leak (c : case15x) (probe : N) : Prop :=
  cx_mflags c = 2 /\ probe = 0 /\ cx_ioctl c = true /\ 0 < cx_size c /\ fixed_x c = false /\
  match cx_file c with Some (_, 0) => True | _ => False end.

Definition wf15x (c : case15x) (probe : N) : Prop :=
  0 < cx_page c /\ cx_mflags c < 2 ^ 32 /\
  ((cx_mflags c = 1 \/ cx_mflags c = 2) ->
     cx_size c + cx_page c < W64 /\ cx_size c + cx_page c <= 4294967296 * cx_page c) /\
  (probe = 0 \/ probe = 1 \/ probe = 2) /\
  (cx_mflags c = 10 -> probe = 2) /\
  (probe = 2 -> fixed_x c = true \/ xen_type_ok (cx_mflags c) = false \/ cx_mflags c = 10 \/
                ((cx_mflags c = 1 \/ cx_mflags c = 2) /\ match cx_file c with Some (_, 0) => False | _ => True end)) /\
  (cx_size c = 0 -> (cx_mflags c = 1 \/ cx_mflags c = 2) -> probe <> 1).

Lemma construct_form c o :
  construct_x c o =
  if fixed_x c then Val (Err MapFixed, [])
  else
    let* (u, l) := xen_new (cx_mode c) o (range_e c) in
    match u with
    | Err e => Val (Err e, l)
    | Ok (f, k, mp) =>
        let g := {| xr_size := cx_size c; xr_prot := eprot c; xr_flags := eflags c;
                    xr_file := match cx_file c with Some (_, s) => Some s | None => None end;
                    xr_mflags := f; xr_mdata := cx_mdata c; xr_kind := k; xr_base := cx_addr c;
                    xr_mapped := mp |} in
        match cx_base c with
        | None => Val (Ok g, l)
        | Some b => let* (r2, l2) := xen_guest_region_new (cx_mode c) o g b in Val (r2, l ++ l2)
        end
    end.
Proof.
  unfold construct_x. rewrite xfr_form. destruct (fixed_x c); [reflexivity|].
  destruct (xen_new (cx_mode c) o (range_e c)) as [[[[[f k] mp]|e] l]| |]; reflexivity.
Qed.

Lemma reasons_split c : fixed_x c = false ->
  reasons_x c =
  (if xen_type_ok (cx_mflags c) then
     if cx_mflags c =? 0 then
       match cx_file c with
       | Some (flen, start) =>
           if W64 <=? start + cx_size c then [1] else if flen <? start + cx_size c then [4] else []
       | None => [] end
     else
       match cx_file c with
       | None => [7]
       | Some (_, start) => if start =? 0 then [] else [1; 7]
       end
   else [9]) ++ base_part c.
Proof.
  unfold fixed_x, reasons_x, base_part. destruct (cx_flags c) as [f|]; [intros ->|intros _]; reflexivity.
Qed.

Lemma C15x_model_ok_lemma : forall c probe, wf15x c probe -> ~ known_leak c probe ->
  ok_C15x c (run_C15x c probe) = true.
Proof.
  intros c probe [Hps [H32 [HSZ [PV [P10 [P2 PZ]]]]]] NK.
  remember (os_of_x c probe) as o eqn:Ho.
  assert (OF : os_filesize o = match cx_file c with Some (flen, _) => flen | None => 0 end) by (rewrite Ho; reflexivity).
  assert (OM : os_mmap_ok o = (probe =? 1)) by (rewrite Ho; reflexivity).
  assert (OI : os_ioctl_ok o = cx_ioctl c) by (rewrite Ho; reflexivity).
  assert (OP : os_page o = cx_page c) by (rewrite Ho; reflexivity).
  assert (RO : forall r l, construct_x c o = Val (r, l) -> run_C15x c probe = obs_of_x c probe r l).
  { intros r l E. apply run_obs. rewrite <- Ho. exact E. }
  pose proof (construct_form c o) as CF.
  destruct (fixed_x c) eqn:FX.
  - (* MAP_FIXED *)
    rewrite (RO _ _ CF). apply finish_err; try reflexivity; [discriminate|].
    left. cbn [berr_code]. unfold reasons_x. unfold fixed_x in FX. destruct (cx_flags c) as [f|]; [|discriminate].
    rewrite FX. left. reflexivity.
  - pose proof (reasons_split c FX) as RS.
    rewrite (xen_type_ok_accepted _ H32) in RS.
    destruct (accepted (cx_mflags c)) eqn:AC.
    2:{ (* unknown / contradictory flag word *)
      rewrite (xnew_invalid (cx_mode c) o (range_e c) AC) in CF. cbn [bind] in CF.
      rewrite (RO _ _ CF). apply finish_err; try reflexivity; [discriminate|].
      left. rewrite RS. left. reflexivity. }
    apply (xen_flags_valid_iff_lemma _ H32) in AC.
    destruct AC as [K|[K|[K|K]]].
    + (* plain unix mapping *)
      rewrite K in RS. change (0 =? 0) with true in RS. cbn iota in RS.
      rewrite (xnew_0 (cx_mode c) o (range_e c) K) in CF. unfold xunix_new in CF.
      cbn [range_e x_file x_flags x_prot x_size ok_or] in CF.
      assert (PR : (probe =? 1) = false -> probe = 0).
      { intros E1. destruct PV as [-> | [-> | ->]]; [reflexivity|discriminate|].
        destruct (P2 eq_refl) as [X|[X|[X|[[X|X] _]]]]; try congruence.
        rewrite (xen_type_ok_accepted _ H32), K in X. discriminate. }
      assert (OSF : probe = 1 -> ((probe =? 0) || (((cx_mflags c =? 1) || (cx_mflags c =? 2)) && negb (cx_ioctl c))) = false).
      { intros ->. rewrite K. reflexivity. }
      assert (OST : probe = 0 -> ((probe =? 0) || (((cx_mflags c =? 1) || (cx_mflags c =? 2)) && negb (cx_ioctl c))) = true).
      { intros ->. reflexivity. }
      destruct (cx_file c) as [[fl s]|] eqn:Hf.
      * unfold check_file_offset, checked_add in CF.
        destruct (N.ltb_spec (s + cx_size c) W64) as [L|L].
        -- destruct (N.leb_spec W64 (s + cx_size c)) as [L'|L']; [lia|].
           lazy iota beta in OF. rewrite OF in CF.
           destruct (N.ltb_spec fl (s + cx_size c)) as [E|E].
           ++ cbn [bind] in CF. rewrite (RO _ _ CF). apply finish_err; try reflexivity; [discriminate|].
              left. rewrite RS. left. reflexivity.
           ++ unfold mmap_unix in CF. rewrite OM in CF.
              destruct (probe =? 1) eqn:P1.
              ** apply N.eqb_eq in P1. cbn [bind app] in CF.
                 destruct (finish_ok c probe XUnix (Some (cx_size c, 0))
                             [EvSeekEnd; EvRewind; EvMmap (cx_size c) (eprot c) (eflags c) true s true]
                             [EvMunmap (cx_size c)]) as [r [l' [EE OK]]].
                 --- rewrite RS. reflexivity.
                 --- exact (OSF P1).
                 --- reflexivity.
                 --- cbn [app foot]. lia.
                 --- reflexivity.
                 --- rewrite K, Hf in EE. lazy iota beta in EE. rewrite <- Ho in EE. cbn [app] in EE. rewrite EE in CF.
                     rewrite (RO _ _ CF). exact OK.
              ** cbn [bind app] in CF. rewrite (RO _ _ CF). apply finish_err; try reflexivity; [discriminate|].
                 right. split; [reflexivity|]. exact (OST (PR eq_refl)).
        -- destruct (N.leb_spec W64 (s + cx_size c)) as [L'|L']; [|lia].
           cbn [bind] in CF. rewrite (RO _ _ CF). apply finish_err; try reflexivity; [discriminate|].
           left. rewrite RS. left. reflexivity.
      * unfold mmap_unix in CF. rewrite OM in CF.
        destruct (probe =? 1) eqn:P1.
        -- apply N.eqb_eq in P1. cbn [bind app] in CF.
           destruct (finish_ok c probe XUnix (Some (cx_size c, 0))
                       [EvMmap (cx_size c) (eprot c) (eflags c) false 0 true]
                       [EvMunmap (cx_size c)]) as [r [l' [EE OK]]].
           ++ rewrite RS. reflexivity.
           ++ exact (OSF P1).
           ++ reflexivity.
           ++ cbn [app foot]. lia.
           ++ reflexivity.
           ++ rewrite K, Hf in EE. lazy iota beta in EE. rewrite <- Ho in EE. cbn [app] in EE. rewrite EE in CF.
              rewrite (RO _ _ CF). exact OK.
        -- cbn [bind app] in CF. rewrite (RO _ _ CF). apply finish_err; try reflexivity; [discriminate|].
           right. split; [reflexivity|]. exact (OST (PR eq_refl)).
    + (* foreign *)
      rewrite K in RS. change (1 =? 0) with false in RS. cbn iota in RS.
      rewrite (xnew_1 (cx_mode c) o (range_e c) K) in CF. unfold xforeign_new in CF.
      cbn [range_e x_file x_flags x_prot x_size x_addr ok_or] in CF.
      destruct (HSZ (or_introl K)) as [SZ1 SZ2].
      assert (PR : (probe =? 1) = false -> match cx_file c with Some (_, 0) => True | _ => False end -> probe = 0).
      { intros E1 FZ. destruct PV as [-> | [-> | ->]]; [reflexivity|discriminate|].
        destruct (P2 eq_refl) as [X|[X|[X|[_ X]]]]; try congruence.
        - rewrite (xen_type_ok_accepted _ H32), K in X. discriminate.
        - destruct (cx_file c) as [[? [|?]]|]; contradiction. }
      destruct (cx_file c) as [[fl s]|] eqn:Hf.
      * unfold validate_file in CF. destruct (N.eqb_spec s 0) as [S0|S0]; cbn [negb] in CF.
        -- subst s. rewrite OP in CF.
           destruct (pages_spec (cx_mode c) (cx_page c) (cx_size c) Hps SZ1) as [num [PG [PA PB]]].
           rewrite PG in CF. cbn [bind] in CF.
           unfold mmap_unix in CF. rewrite OM in CF.
           destruct (probe =? 1) eqn:P1.
           ++ apply N.eqb_eq in P1. unfold pdiv in CF. destruct (N.eqb_spec (cx_page c) 0) as [Z|_]; [lia|].
              cbn [bind] in CF. rewrite OI in CF.
              destruct (cx_ioctl c) eqn:IO.
              ** cbn [bind app] in CF.
                 destruct (finish_ok c probe XForeign (Some (cx_page c * num, 0))
                             [EvMmap (cx_page c * num) (eprot c) (N.lor (eflags c) MAP_SHARED) true 0 true;
                              EvIoctlForeign num true]
                             [EvMunmap (cx_page c * num)]) as [r [l' [EE OK]]].
                 --- rewrite RS. reflexivity.
                 --- rewrite K, P1, IO. reflexivity.
                 --- reflexivity.
                 --- cbn [app foot]. lia.
                 --- reflexivity.
                 --- rewrite K, Hf in EE. lazy iota beta in EE. rewrite <- Ho in EE. cbn [app] in EE. rewrite EE in CF.
                     rewrite (RO _ _ CF). exact OK.
              ** cbn [bind app] in CF. rewrite (RO _ _ CF). apply finish_err; [discriminate| |reflexivity|].
                 --- cbn [foot]. lia.
                 --- right. split; [reflexivity|]. rewrite K, IO. cbn. apply orb_true_r.
           ++ cbn [bind app] in CF. rewrite (RO _ _ CF). apply finish_err; try reflexivity; [discriminate|].
              right. split; [reflexivity|]. rewrite (PR eq_refl I). reflexivity.
        -- cbn [bind] in CF. rewrite (RO _ _ CF). apply finish_err; try reflexivity; [discriminate|].
           left. rewrite RS. destruct (N.eqb_spec s 0); [contradiction|]. left. reflexivity.
      * cbn [validate_file bind] in CF. rewrite (RO _ _ CF). apply finish_err; try reflexivity; [discriminate|].
        left. rewrite RS. left. reflexivity.
    + (* grant, mapped in advance *)
      rewrite K in RS. change (2 =? 0) with false in RS. cbn iota in RS.
      rewrite (xnew_2 (cx_mode c) o (range_e c) K) in CF. unfold xgrant_new in CF.
      cbn [range_e x_file x_flags x_prot x_size x_addr ok_or] in CF.
      destruct (HSZ (or_intror K)) as [SZ1 SZ2].
      assert (PR : (probe =? 1) = false -> match cx_file c with Some (_, 0) => True | _ => False end -> probe = 0).
      { intros E1 FZ. destruct PV as [-> | [-> | ->]]; [reflexivity|discriminate|].
        destruct (P2 eq_refl) as [X|[X|[X|[_ X]]]]; try congruence.
        - rewrite (xen_type_ok_accepted _ H32), K in X. discriminate.
        - destruct (cx_file c) as [[? [|?]]|]; contradiction. }
      destruct (cx_file c) as [[fl s]|] eqn:Hf.
      * unfold validate_file in CF. destruct (N.eqb_spec s 0) as [S0|S0]; cbn [negb] in CF.
        -- subst s. change (mmap_in_advance 2) with true in CF. cbn iota in CF.
           unfold mmap_range in CF. rewrite OP in CF.
           destruct (pages_spec (cx_mode c) (cx_page c) (cx_size c) Hps SZ1) as [num [PG [PA PB]]].
           rewrite PG in CF. cbn [bind] in CF.
           unfold grant_ref, pdiv in CF. destruct (N.eqb_spec (cx_page c) 0) as [Z|_]; [lia|].
           cbn [bind] in CF. rewrite OI in CF.
           assert (N32 : num < 4294967296) by nia.
           rewrite (N.mod_small num) in CF by exact N32.
           remember (cx_addr c mod 9223372036854775808 / cx_page c mod 4294967296) as q.
           destruct (cx_ioctl c) eqn:IO; cbn [andb] in CF.
           ++ destruct (N.ltb_spec 0 num) as [NP|NP].
              ** unfold mmap_unix in CF. rewrite OM in CF.
                 destruct (probe =? 1) eqn:P1.
                 --- apply N.eqb_eq in P1. cbn [bind app] in CF.
                     destruct (finish_ok c probe XGrant (Some (cx_page c * num, dev_index (cx_page c) q))
                                 [EvIoctlMap q num (dev_index (cx_page c) q) true;
                                  EvMmap (cx_page c * num) (eprot c) (eflags c) true (dev_index (cx_page c) q) true]
                                 [EvMunmap (cx_page c * num); EvIoctlUnmap (dev_index (cx_page c) q) num]) as [r [l' [EE OK]]].
                     +++ rewrite RS. reflexivity.
                     +++ rewrite K, P1, IO. reflexivity.
                     +++ unfold xen_drop, unmap_range. cbn [xr_mapped xr_kind xr_size os_of_x os_page].
                         rewrite PG. cbn [bind]. rewrite (N.mod_small num) by exact N32. reflexivity.
                     +++ cbn [app foot]. lia.
                     +++ cbn. rewrite !N.eqb_refl. reflexivity.
                     +++ rewrite K, Hf in EE. lazy iota beta in EE. rewrite <- Ho in EE. cbn [app] in EE. rewrite EE in CF.
                         rewrite (RO _ _ CF). exact OK.
                 --- (* the known leak: the mmap is refused after the map ioctl was accepted *)
                     exfalso. apply NK. unfold known_leak. rewrite Hf.
                     repeat split; try assumption; [exact (PR eq_refl I)|nia].
              ** (* zero grants: refused by the device; the kernel would refuse the empty mmap as well *)
                 cbn [bind] in CF. rewrite (RO _ _ CF). apply finish_err; try reflexivity; [discriminate|].
                 right. split; [reflexivity|].
                 assert (SZ0 : cx_size c = 0) by nia.
                 assert (P0 : probe = 0).
                 { destruct (probe =? 1) eqn:P1; [apply N.eqb_eq in P1; exfalso; exact (PZ SZ0 (or_intror K) P1)|].
                   exact (PR eq_refl I). }
                 rewrite P0. reflexivity.
           ++ cbn [bind] in CF. rewrite (RO _ _ CF). apply finish_err; try reflexivity; [discriminate|].
              right. split; [reflexivity|]. rewrite K, IO. cbn. apply orb_true_r.
        -- cbn [bind] in CF. rewrite (RO _ _ CF). apply finish_err; try reflexivity; [discriminate|].
           left. rewrite RS. destruct (N.eqb_spec s 0); [contradiction|]. left. reflexivity.
      * cbn [validate_file bind] in CF. rewrite (RO _ _ CF). apply finish_err; try reflexivity; [discriminate|].
        left. rewrite RS. left. reflexivity.
    + (* grant mapped on demand: no OS call at all *)
      rewrite K in RS. change (10 =? 0) with false in RS. cbn iota in RS.
      rewrite (xnew_10 (cx_mode c) o (range_e c) K) in CF. unfold xgrant_new in CF.
      cbn [range_e x_file x_flags x_prot ok_or] in CF.
      assert (PR : probe = 2) by (apply P10; exact K).
      destruct (cx_file c) as [[fl s]|] eqn:Hf.
      * unfold validate_file in CF. destruct (N.eqb_spec s 0) as [S0|S0]; cbn [negb] in CF.
        -- change (mmap_in_advance 10) with false in CF. cbn [bind] in CF.
           destruct (finish_ok c probe XGrant None [] [] ) as [r [l' [E OK]]].
           ++ rewrite RS. reflexivity.
           ++ rewrite K, PR. reflexivity.
           ++ reflexivity.
           ++ reflexivity.
           ++ reflexivity.
           ++ rewrite K, Hf in E. lazy iota beta in E. rewrite <- Ho in E. rewrite E in CF. rewrite (RO _ _ CF). exact OK.
        -- cbn [bind] in CF. rewrite (RO _ _ CF). apply finish_err; try reflexivity; [discriminate|].
           left. rewrite RS. left. reflexivity.
      * cbn [validate_file bind] in CF. rewrite (RO _ _ CF). apply finish_err; try reflexivity; [discriminate|].
        left. rewrite RS. left. reflexivity.
Qed.
