(* C18 - lemmas (all proofs of the property package live here).
   Sections: VolMem at zero length; ZST / empty-array copies; stream adapters and stream forms at
   count 0 (slice, region, guest); Guest.v empty-buffer forms; Dirty.v effects of zero-length
   operations; the composed model run_C18 against ok_C18. *)
From VM Require Import Prelude.MachInt Prelude.Outcome Prelude.Tok Prelude.C1314List Spec.C18 Suite.C18.
From VM Require Impl.VolMem Impl.Guest Impl.Dirty Impl.Io Impl.IoGuest.
From VM Require Proofs.C04 Impl.Address.


(* ---------- VolMem at zero *)
Lemma takeN_dropN h : forall a, VolMem.takeN a h ++ VolMem.dropN a h = h.
Proof. intros a. rewrite C04.takeN_firstn, C04.dropN_skipn. apply firstn_skipn. Qed.
Lemma h_write_nil h a : VolMem.h_write h a [] = h.
Proof. unfold VolMem.h_write. cbn [app VolMem.len length N.of_nat]. rewrite N.add_0_r. apply takeN_dropN. Qed.
Lemma takeN_0 l : VolMem.takeN 0 l = [].
Proof. destruct l; reflexivity. Qed.
Lemma dropN_0 l : VolMem.dropN 0 l = l.
Proof. destruct l; reflexivity. Qed.
Lemma h_read_0 h a : VolMem.h_read h a 0 = [].
Proof. unfold VolMem.h_read. apply takeN_0. Qed.

Lemma vs_write_empty hb h s addr : VolMem.vs_write hb h s [] addr = (h, VolMem.Ok 0).
Proof. reflexivity. Qed.
Lemma vs_read_empty hb h s addr : VolMem.vs_read hb h s [] addr = ([], VolMem.Ok 0).
Proof. reflexivity. Qed.
Lemma vs_write_slice_empty hb h s addr : VolMem.vs_write_slice hb h s [] addr = (h, VolMem.Ok tt).
Proof. reflexivity. Qed.
Lemma vs_read_slice_empty hb h s addr : VolMem.vs_read_slice hb h s [] addr = ([], VolMem.Ok tt).
Proof. reflexivity. Qed.
Lemma as_slice_zst t v : VolMem.ty_size t = 0 -> VolMem.as_slice t v = [].
Proof. intros H. unfold VolMem.as_slice. rewrite H. cbn. destruct (VolMem.ty_be t); reflexivity. Qed.
Lemma vs_write_obj_zst hb h s t v addr : VolMem.ty_size t = 0 -> VolMem.vs_write_obj hb h s t v addr = (h, VolMem.Ok tt).
Proof. intros H. unfold VolMem.vs_write_obj. rewrite as_slice_zst by exact H. reflexivity. Qed.
Lemma vs_read_obj_zst hb h s t addr : VolMem.ty_size t = 0 -> VolMem.vs_read_obj hb h s t addr = VolMem.Ok 0.
Proof. intros H. unfold VolMem.vs_read_obj. rewrite H. cbn. unfold VolMem.from_bytes. destruct (VolMem.ty_be t); reflexivity. Qed.


Lemma vs_copy_to_zst m h s t buf : VolMem.ty_size t = 0 -> VolMem.vs_copy_to m h s t buf = Val (buf, VolMem.len buf).
Proof. intros H. unfold VolMem.vs_copy_to. rewrite H. reflexivity. Qed.
Lemma vs_copy_from_zst m h s t buf : VolMem.ty_size t = 0 -> VolMem.vs_copy_from m h s t buf = Val h.
Proof. intros H. unfold VolMem.vs_copy_from. rewrite H. reflexivity. Qed.

Lemma from_bytes_nil t : VolMem.from_bytes t [] = 0.
Proof. unfold VolMem.from_bytes. destruct (VolMem.ty_be t); reflexivity. Qed.
Lemma va_write_loop_zst t : VolMem.ty_size t = 0 -> forall vals h p, VolMem.va_write_loop h t p vals = h.
Proof.
  intros H vals. induction vals as [|v r IH]; intros h p; cbn [VolMem.va_write_loop]; [reflexivity|].
  rewrite as_slice_zst by exact H. rewrite h_write_nil. apply IH.
Qed.
Lemma pmul_zero_r m s a : pmul m s a 0 = Val 0.
Proof. unfold pmul. rewrite N.mul_0_r. reflexivity. Qed.
Lemma pmul_zero_l m s a : pmul m s 0 a = Val 0.
Proof. unfold pmul. rewrite N.mul_0_l. reflexivity. Qed.

(* element copies of an array of zero-sized elements: no panic, heap untouched; copy_to reports
   min(buffer length, array length) elements *)
Lemma va_copy_from_zst m h a t buf : VolMem.ty_size t = 0 -> VolMem.va_copy_from m h a t buf = Val h.
Proof.
  intros H. unfold VolMem.va_copy_from. rewrite H. cbn [N.eqb]. replace (0 =? 1) with false by reflexivity.
  rewrite pmul_zero_r. cbn [bind]. rewrite va_write_loop_zst by exact H. reflexivity.
Qed.
Lemma va_copy_to_zst m h a t buf : VolMem.ty_size t = 0 ->
  exists b', VolMem.va_copy_to m h a t buf = Val (b', N.min (VolMem.len buf) (VolMem.va_nelem a)).
Proof.
  intros H. unfold VolMem.va_copy_to. rewrite H. replace (0 =? 1) with false by reflexivity.
  rewrite pmul_zero_r. cbn [bind]. eexists. reflexivity.
Qed.
(* arrays of n = 0 elements of any size *)
Lemma va_copy_from_n0 m h p t buf : VolMem.va_copy_from m h {| VolMem.va_addr := p; VolMem.va_nelem := 0 |} t buf = Val h.
Proof.
  unfold VolMem.va_copy_from. cbn [VolMem.va_nelem VolMem.va_addr].
  destruct (VolMem.ty_size t =? 1).
  - unfold VolMem.va_to_slice. cbn [VolMem.va_nelem VolMem.va_addr]. rewrite pmul_zero_l. cbn [bind VolMem.vs_size].
    rewrite N.min_0_r. unfold VolMem.copy_to_volatile_slice. cbn [fst VolMem.vs_addr]. rewrite takeN_0, h_write_nil. reflexivity.
  - rewrite pmul_zero_l. cbn [bind]. rewrite takeN_0. reflexivity.
Qed.
Lemma va_copy_to_n0 m h p t buf : VolMem.va_copy_to m h {| VolMem.va_addr := p; VolMem.va_nelem := 0 |} t buf = Val (buf, 0).
Proof.
  unfold VolMem.va_copy_to. cbn [VolMem.va_nelem VolMem.va_addr].
  destruct (VolMem.ty_size t =? 1).
  - unfold VolMem.va_to_slice. cbn [VolMem.va_nelem VolMem.va_addr]. rewrite pmul_zero_l. cbn [bind VolMem.vs_size].
    rewrite N.min_0_r. unfold VolMem.copy_from_volatile_slice. rewrite h_read_0, dropN_0. reflexivity.
  - rewrite pmul_zero_l. cbn [bind]. rewrite N.min_0_r. cbn [N.to_nat VolMem.va_read_loop app]. rewrite dropN_0. reflexivity.
Qed.
Lemma vr_store_zst h a t v : VolMem.ty_size t = 0 -> VolMem.vr_store h a t v = h.
Proof. intros H. unfold VolMem.vr_store. rewrite as_slice_zst by exact H. apply h_write_nil. Qed.
Lemma vs_copy_vs_empty h s d : VolMem.vs_size s = 0 \/ VolMem.vs_size d = 0 -> VolMem.vs_copy_to_volatile_slice h s d = h.
Proof.
  intros H. unfold VolMem.vs_copy_to_volatile_slice.
  replace (N.min (VolMem.vs_size s) (VolMem.vs_size d)) with 0 by (destruct H as [H|H]; rewrite H; lia).
  rewrite h_read_0. apply h_write_nil.
Qed.
(* geometry *)
Lemma get_slice_cases (s : VolMem.vslice) off cnt : off + cnt < W64 ->
  VolMem.vs_get_slice s off cnt =
    if VolMem.vs_size s <? off + cnt then VolMem.Err VolMem.EOutOfBounds
    else VolMem.Ok {| VolMem.vs_addr := VolMem.vs_addr s + off; VolMem.vs_size := cnt |}.
Proof.
  intros H. unfold VolMem.vs_get_slice, VolMem.vs_subslice, VolMem.compute_end_offset, VolMem.compute_offset, checked_add.
  destruct (N.ltb_spec (off + cnt) W64); [|lia]. destruct (VolMem.vs_size s <? off + cnt); reflexivity.
Qed.
Lemma get_ref_zero (s : VolMem.vslice) : VolMem.vs_get_ref s 0 0 = Val (VolMem.Ok (VolMem.vs_addr s + 0)).
Proof.
  unfold VolMem.vs_get_ref. rewrite get_slice_cases by (rewrite W64_val; lia).
  replace (VolMem.vs_size s <? 0 + 0) with false by (symmetry; apply N.ltb_ge; lia). reflexivity.
Qed.
Lemma get_array_ref_zero (s : VolMem.vslice) esz n : VolMem.vs_size s = n * esz -> n <= 64 -> esz <= 8 ->
  VolMem.vs_get_array_ref s esz 0 n = Val (VolMem.Ok {| VolMem.va_addr := VolMem.vs_addr s + 0; VolMem.va_nelem := n |}).
Proof.
  intros Hs Hn He. unfold VolMem.vs_get_array_ref.
  assert (Hm : n * esz <= 512) by nia.
  destruct (N.leb_spec n ISZ_MAX) as [_|Hx]; [|unfold ISZ_MAX in Hx; lia].
  destruct (N.leb_spec (n * esz) ISZ_MAX) as [_|Hx]; [|unfold ISZ_MAX in Hx; lia].
  rewrite get_slice_cases by (rewrite W64_val; lia). rewrite N.add_0_l, Hs, N.ltb_irrefl.
  cbn [bind passert VolMem.vs_size]. rewrite N.eqb_refl. reflexivity.
Qed.


Lemma mem_write_nil m off : mem_write m off [] = m.
Proof. unfold mem_write. rewrite nlen_nil, N.add_0_r. cbn [app]. apply ntake_ndrop. Qed.
Lemma set_pos_same st : Io.set_pos st (Io.s_pos st + 0) = st.
Proof. destruct st. unfold Io.set_pos. cbn. rewrite N.add_0_r. reflexivity. Qed.

(* a stream's position and length are u64 / usize values *)
Definition st_wf (st : Io.sstate) : Prop := Io.s_pos st < W64 /\ nlen (Io.s_data st) < W64.

Lemma padd_zero md s a : a < W64 -> padd md s a 0 = Val a.
Proof. intros H. rewrite <- (N.add_0_r a) at 2. apply padd_Val. lia. Qed.

Section Calls.
Variables (md : mode) (st : Io.sstate) (m : list N) (v : Io.vslice).
Hypothesis Hv : Io.vs_len v = 0.
Hypothesis Hst : st_wf st.

Lemma slice_read_zero : Io.slice_read_volatile st m v = Val ((st, m), Io.Ok 0).
Proof.
  unfold Io.slice_read_volatile. rewrite Hv. rewrite N.min_0_l. unfold Io.copy_to_volatile_slice.
  rewrite ntake_0, mem_write_nil. cbn [passert bind]. replace (0 <=? nlen (Io.slice_rem st)) with true by (symmetry; apply N.leb_le; lia).
  cbn [bind]. rewrite set_pos_same. reflexivity.
Qed.
Lemma cursor_read_zero : Io.cursor_read_volatile md st m v = Val ((st, m), Io.Ok 0).
Proof.
  unfold Io.cursor_read_volatile.
  replace (N.min (Io.s_pos st) (nlen (Io.s_data st)) <=? nlen (Io.s_data st)) with true by (symmetry; apply N.leb_le; lia).
  cbn [passert bind].
  set (st' := {| Io.s_data := _; Io.s_pos := 0; Io.s_out := [] |}).
  assert (E : Io.slice_read_volatile st' m v = Val ((st', m), Io.Ok 0)).
  { unfold Io.slice_read_volatile. rewrite Hv, N.min_0_l. unfold Io.copy_to_volatile_slice.
    rewrite ntake_0, mem_write_nil. replace (0 <=? nlen (Io.slice_rem st')) with true by (symmetry; apply N.leb_le; lia).
    cbn [passert bind]. rewrite set_pos_same. reflexivity. }
  rewrite E. cbn [bind]. rewrite padd_zero by apply Hst. cbn [bind].
  replace (Io.set_pos st (Io.s_pos st)) with st by (destruct st; reflexivity). reflexivity.
Qed.
Lemma fd_read_zero : Io.read_volatile_raw_fd Io.file_read st m v = Val ((st, m), Io.Ok 0).
Proof.
  unfold Io.read_volatile_raw_fd, Io.file_read. rewrite Hv, ntake_0, nlen_nil, mem_write_nil, set_pos_same. reflexivity.
Qed.
Lemma mslice_write_zero : Io.mslice_write_volatile st m v = Val ((st, m), Io.Ok 0).
Proof.
  unfold Io.mslice_write_volatile. rewrite Hv, N.min_0_l. unfold Io.copy_from_volatile_slice, mem_read. rewrite ntake_0.
  replace (0 <=? nlen (Io.slice_rem st)) with true by (symmetry; apply N.leb_le; lia). cbn [passert bind].
  rewrite mem_write_nil, N.add_0_r. destruct st; reflexivity.
Qed.
Lemma vec_write_zero : Io.vec_write_volatile md st m v = Val ((st, m), Io.Ok 0).
Proof.
  unfold Io.vec_write_volatile. rewrite Hv. unfold Io.copy_from_volatile_slice, mem_read. rewrite ntake_0.
  rewrite N.eqb_refl. cbn [passert bind]. rewrite padd_zero by apply Hst. cbn [bind]. rewrite app_nil_r.
  destruct st; reflexivity.
Qed.
Lemma fd_write_zero : Io.write_volatile_raw_fd Io.file_write st m v = Val ((st, m), Io.Ok 0).
Proof.
  unfold Io.write_volatile_raw_fd, Io.file_write, mem_read. rewrite Hv, ntake_0, nlen_nil. reflexivity.
Qed.
End Calls.

Lemma call_zero (rd : bool) md sk st m v : Io.vs_len v = 0 -> st_wf st ->
  (if rd then rcall md sk else wcall md sk) st m v = Val ((st, m), Io.Ok 0).
Proof.
  intros Hv Hst. destruct rd; unfold rcall, wcall.
  - destruct sk as [|[p|p|]]; auto using slice_read_zero, cursor_read_zero, fd_read_zero.
  - destruct sk as [|[p|p|]]; auto using mslice_write_zero, vec_write_zero, fd_write_zero.
Qed.

(* stream forms on a slice: count 0 at any offset <= len is Ok(0) / Ok(()), stream and memory untouched *)
Lemma s_upto_zero rd md sk self addr st m : st_wf st -> addr <= Io.vs_len self -> Io.vs_addr self + addr < W64 ->
  s_upto rd md sk self addr st m 0 = Val ((st, m), Io.Ok 0).
Proof.
  intros Hst Ha Ho. unfold s_upto, IoGuest.vs_upto, Io.vs_offset, checked_add, checked_sub.
  destruct (N.ltb_spec (Io.vs_addr self + addr) W64); [|lia].
  destruct (N.leb_spec addr (Io.vs_len self)); [|lia].
  unfold Io.vs_subslice, checked_add. cbn [Io.vs_len Io.vs_addr Io.vs_off]. rewrite N.min_0_r.
  replace (0 + 0 <? W64) with true by reflexivity.
  replace (Io.vs_len self - addr <? 0 + 0) with false by (symmetry; apply N.ltb_ge; lia).
  unfold FUEL. cbn [Io.retry_eintr]. rewrite call_zero by (auto; reflexivity). reflexivity.
Qed.
(* ... and beyond the end it is an error (characterisation, not judged by the property) *)
Lemma s_upto_beyond rd md sk self addr st m : Io.vs_len self < addr ->
  exists e, s_upto rd md sk self addr st m 0 = Val ((st, m), Io.Err e).
Proof.
  intros Ha. unfold s_upto, IoGuest.vs_upto, Io.vs_offset, checked_add, checked_sub.
  destruct (Io.vs_addr self + addr <? W64); [|eexists; reflexivity].
  destruct (N.leb_spec addr (Io.vs_len self)); [lia|]. eexists; reflexivity.
Qed.

Lemma exact_zero (rd : bool) md sk st m sl : Io.vs_len sl = 0 -> Io.vs_addr sl < W64 -> st_wf st ->
  (if rd then rexact md sk st m sl else wexact md sk st m sl) = Val ((st, m), Io.Ok tt).
Proof.
  intros Hv Ho Hst.
  assert (D : forall ze call, Io.exact_volatile ze FUEL call st m sl = Val ((st, m), Io.Ok tt)).
  { intros ze call. unfold Io.exact_volatile, Io.vs_offset, checked_add, checked_sub. rewrite N.add_0_r.
    destruct (N.ltb_spec (Io.vs_addr sl) W64); [|lia]. replace (0 <=? Io.vs_len sl) with true by (symmetry; apply N.leb_le; lia).
    unfold FUEL. cbn [Io.exact_loop Io.vs_len]. rewrite N.sub_0_r, Hv. reflexivity. }
  destruct rd; unfold rexact, wexact.
  - destruct sk as [|[p|p|]]; try apply D.
    + unfold Io.slice_read_exact_volatile. rewrite Hv.
      replace (nlen (Io.slice_rem st) <? 0) with false by (symmetry; apply N.ltb_ge; lia).
      rewrite slice_read_zero by auto. reflexivity.
    + unfold Io.cursor_read_exact_volatile.
      replace (N.min (Io.s_pos st) (nlen (Io.s_data st)) <=? nlen (Io.s_data st)) with true by (symmetry; apply N.leb_le; lia).
      cbn [passert bind]. unfold Io.slice_read_exact_volatile. rewrite Hv.
      match goal with |- context [nlen (Io.slice_rem ?s) <? 0] =>
        replace (nlen (Io.slice_rem s) <? 0) with false by (symmetry; apply N.ltb_ge; lia) end.
      match goal with |- context [Io.slice_read_volatile ?s m sl] =>
        assert (E : Io.slice_read_volatile s m sl = Val ((s, m), Io.Ok 0)) end.
      { apply slice_read_zero; exact Hv. }
      rewrite E. cbn [bind]. rewrite padd_zero by apply Hst. cbn [bind].
      replace (Io.set_pos st (Io.s_pos st)) with st by (destruct st; reflexivity). reflexivity.
  - destruct sk as [|[p|p|]]; try apply D.
    unfold Io.mslice_write_all_volatile. rewrite mslice_write_zero by auto. cbn [bind]. rewrite Hv. reflexivity.
Qed.
Lemma s_exact_zero rd md sk self addr st m : st_wf st -> addr <= Io.vs_len self -> Io.vs_addr self + addr < W64 ->
  s_exact rd md sk self addr st m 0 = Val ((st, m), Io.Ok tt).
Proof.
  intros Hst Ha Ho. unfold s_exact, Io.vs_subslice, checked_add. rewrite N.add_0_r.
  destruct (N.ltb_spec addr W64); [|lia].
  destruct (N.ltb_spec (Io.vs_len self) addr); [lia|].
  apply exact_zero; auto.
Qed.
Lemma s_exact_beyond rd md sk self addr st m : Io.vs_len self < addr ->
  exists e, s_exact rd md sk self addr st m 0 = Val ((st, m), Io.Err e).
Proof.
  intros Ha. unfold s_exact, Io.vs_subslice, checked_add. rewrite N.add_0_r.
  destruct (addr <? W64); [|eexists; reflexivity].
  destruct (N.ltb_spec (Io.vs_len self) addr); [|lia]. eexists; reflexivity.
Qed.


(* ---------- guest level streams *)
Definition host_ok (r : IoGuest.region) : Prop := IoGuest.HBASE + IoGuest.g_moff r + IoGuest.g_len r < W64.

Lemma to_region_addr_contains r a : IoGuest.contains r a = true ->
  IoGuest.to_region_addr r a = Some (a - IoGuest.g_start r) /\ a - IoGuest.g_start r < IoGuest.g_len r.
Proof.
  unfold IoGuest.contains, IoGuest.to_region_addr, checked_sub. intros H. apply andb_true_iff in H. destruct H as [H1 H2].
  rewrite H1, H2. split; [reflexivity|]. apply N.ltb_lt. exact H2.
Qed.

Lemma g_upto_zero (rd : bool) md sk L addr st m :
  st_wf st -> Forall host_ok L ->
  g_upto rd md sk L addr st m 0 =
    match IoGuest.find_region L addr with
    | Some _ => Val ((st, m), IoGuest.GOk 0)
    | None => Val ((st, m), IoGuest.GErr IoGuest.GInvalidGuestAddress) end.
Proof.
  intros Hst HL. unfold g_upto. cbn [IoGuest.try_access].
  destruct (IoGuest.find_region L addr) as [r|] eqn:F; [|reflexivity].
  unfold IoGuest.find_region in F. apply find_some in F. destruct F as [Hin Hc].
  destruct (to_region_addr_contains r addr Hc) as [E Hlt]. rewrite E.
  rewrite psub_Val by lia. cbn [bind]. rewrite psub_Val by lia. cbn [bind]. rewrite N.sub_0_r, N.min_0_r.
  rewrite Forall_forall in HL. specialize (HL r Hin). unfold host_ok in HL.
  destruct rd.
  - rewrite s_upto_zero; [|exact Hst| cbn [IoGuest.region_slice Io.vs_len]; lia | cbn [IoGuest.region_slice Io.vs_addr]; lia].
    reflexivity.
  - rewrite s_exact_zero; [|exact Hst| cbn [IoGuest.region_slice Io.vs_len]; lia | cbn [IoGuest.region_slice Io.vs_addr]; lia].
    reflexivity.
Qed.

(* ---------- Guest.v at zero: for EVERY find_region implementation, layout and address *)
Section G.
Variable find : Guest.layout -> N -> option nat.
Variable md : mode.
Lemma gm_write_empty M a : Guest.gm_write find md M [] a = Val (M, inl 0).
Proof. reflexivity. Qed.
Lemma gm_read_empty M a : Guest.gm_read find md M [] a = Val ([], inl 0).
Proof. reflexivity. Qed.
Lemma gm_write_slice_empty M a : Guest.gm_write_slice find md M [] a = Val (M, inl tt).
Proof. reflexivity. Qed.
Lemma gm_read_slice_empty M a : Guest.gm_read_slice find md M [] a = Val ([], inl tt).
Proof. reflexivity. Qed.
Lemma gm_write_obj_empty M a : Guest.gm_write_obj find md M [] a = Val (M, inl tt).
Proof. reflexivity. Qed.
Lemma gm_read_obj_zst M a : Guest.gm_read_obj find md M 0 a = Val (inl []).
Proof. reflexivity. Qed.
End G.
Lemma reg_write_empty r off : Guest.reg_write r [] off = (r, inl 0).
Proof. reflexivity. Qed.
Lemma reg_read_empty r off : Guest.reg_read r 0 off = inl [].
Proof. reflexivity. Qed.

(* ---------- Dirty.v: zero-length operations produce no effect or effects of mark length 0 *)
Definition mlen0 (e : Dirty.eff) : Prop := Dirty.e_mlen e = 0 /\ Dirty.e_wn e = 0.

Lemma mark_zero ps d off v : Dirty.mark ps d off 0 v = d.
Proof. reflexivity. Qed.
Lemma upd_nth_id {A} (f : A -> A) : (forall x, f x = x) -> forall l i, Dirty.upd_nth l i f = l.
Proof.
  intros Hf l. induction l as [|x t IH]; intros [|j]; cbn [Dirty.upd_nth]; try reflexivity.
  - rewrite Hf. reflexivity.
  - rewrite IH. reflexivity.
Qed.
Lemma apply_eff_zero rs e : Dirty.e_mlen e = 0 -> Dirty.apply_eff rs e = rs.
Proof.
  intros H. unfold Dirty.apply_eff. apply upd_nth_id. intros r. rewrite H, mark_zero.
  destruct r as [a b c [|] d]; reflexivity.
Qed.
Lemma apply_effs_zero es : Forall mlen0 es -> forall rs, Dirty.apply_effs rs es = rs.
Proof.
  unfold Dirty.apply_effs. induction 1 as [|e es He _ IH]; intros rs; cbn [fold_left]; [reflexivity|].
  rewrite apply_eff_zero by apply He. apply IH.
Qed.

Lemma weff_zero ri a rel : mlen0 (Dirty.weff ri a rel 0).
Proof. split; reflexivity. Qed.

(* the slice-level operations of the property, on ANY slice accessor *)
Inductive zero_sop : Dirty.sop -> Prop :=
| Z_write a : zero_sop (Dirty.OWrite 0 a) | Z_write_slice a : zero_sop (Dirty.OWriteSlice 0 a)
| Z_read a : zero_sop (Dirty.ORead 0 a) | Z_read_slice a : zero_sop (Dirty.OReadSlice 0 a)
| Z_copy_from k : zero_sop (Dirty.OCopyFrom 0 k) | Z_copy_to k : zero_sop (Dirty.OCopyTo 0 k)
| Z_read_from a k : zero_sop (Dirty.OReadFrom 0 a k) | Z_read_exact a k : zero_sop (Dirty.OReadExactFrom 0 a k)
| Z_read_fd a k : zero_sop (Dirty.OReadFromFd 0 a k false)
| Z_write_to a : zero_sop (Dirty.OWriteTo 0 a) | Z_write_all a : zero_sop (Dirty.OWriteAllTo 0 a).

Lemma sop_zero ri hm a o : Dirty.a_kind a = Dirty.KSlice -> zero_sop o ->
  Forall mlen0 (Dirty.o_effs (Dirty.run_sop ri hm a o)).
Proof.
  intros K Z. unfold Dirty.run_sop. rewrite K. destruct Z; cbn [N.eqb]; try (constructor; fail).
  - destruct (checked_sub (Dirty.a_len a) a0); cbn; [|constructor].
    rewrite N.min_0_r, N.min_0_l. repeat constructor.
  - destruct (checked_add a0 0); cbn; [|constructor].
    destruct (Dirty.a_len a <? n); cbn; [constructor|].
    replace (k <? 0) with false by (symmetry; apply N.ltb_ge; lia). repeat constructor.
  - destruct (checked_sub (Dirty.a_len a) a0); cbn; [|constructor].
    rewrite N.min_0_r, N.min_0_l. repeat constructor.
  - destruct (checked_sub (Dirty.a_len a) a0); cbn; constructor.
  - destruct (checked_add a0 0); cbn; [|constructor]. destruct (Dirty.a_len a <? n); cbn; constructor.
Qed.
(* typed reference to a zero-sized object; arrays of zero-sized elements or of no elements *)
Lemma ref_zero ri hm a o : Dirty.a_kind a = Dirty.KRef -> Dirty.a_len a = 0 ->
  Forall mlen0 (Dirty.o_effs (Dirty.run_sop ri hm a o)).
Proof.
  intros K L. unfold Dirty.run_sop. rewrite K. destruct o; cbn; try constructor.
  - rewrite L. apply weff_zero. - constructor.
Qed.
Lemma arr_zero ri hm a esz n k (o : Dirty.sop) : Dirty.a_kind a = Dirty.KArr esz n -> Dirty.a_len a = n * esz ->
  esz = 0 \/ n = 0 -> o = Dirty.OArrCopyFrom k \/ o = Dirty.OArrCopyTo k ->
  Forall mlen0 (Dirty.o_effs (Dirty.run_sop ri hm a o)).
Proof.
  intros K L Z [O|O]; subst o; unfold Dirty.run_sop; rewrite K.
  - destruct (esz =? 1) eqn:E1.
    + apply N.eqb_eq in E1. destruct Z as [Z|Z]; [lia|]. subst. rewrite L. cbn. rewrite N.min_0_r. repeat constructor.
    + cbn. constructor; [|constructor]. destruct Z as [Z|Z]; subst.
      * rewrite N.mul_0_r. apply weff_zero.
      * rewrite N.min_0_r. rewrite N.mul_0_l. apply weff_zero.
  - destruct (esz =? 1); cbn; constructor.
Qed.
(* guest level *)
Lemma gop_zero hm rs a k (o : Dirty.gop) :
  o = Dirty.GWrite 0 a \/ o = Dirty.GWriteSlice 0 a \/ o = Dirty.GRead 0 a \/ o = Dirty.GReadFrom 0 a k ->
  Dirty.o_effs (Dirty.run_gop hm rs o) = [].
Proof.
  intros [O|[O|[O|O]]]; subst o; cbn; try reflexivity.
  rewrite N.min_0_l. destruct (Dirty.find_idx rs a 0); reflexivity.
Qed.

(* ------------------------------------------------------------------ packaged statements *)
Lemma zero_len_slice_lemma hb h s addr t v : VolMem.ty_size t = 0 ->
  VolMem.vs_write hb h s [] addr = (h, VolMem.Ok 0) /\
  VolMem.vs_read hb h s [] addr = ([], VolMem.Ok 0) /\
  VolMem.vs_write_slice hb h s [] addr = (h, VolMem.Ok tt) /\
  VolMem.vs_read_slice hb h s [] addr = ([], VolMem.Ok tt) /\
  VolMem.vs_write_obj hb h s t v addr = (h, VolMem.Ok tt) /\
  VolMem.vs_read_obj hb h s t addr = VolMem.Ok 0.
Proof.
  intros H. repeat split; auto using vs_write_empty, vs_read_empty, vs_write_slice_empty, vs_read_slice_empty,
    vs_write_obj_zst, vs_read_obj_zst.
Qed.
Lemma zero_len_slice_marks_lemma ri hm a addr rs : Dirty.a_kind a = Dirty.KSlice ->
  let effs o := Dirty.o_effs (Dirty.run_sop ri hm a o) in
  effs (Dirty.OWrite 0 addr) = [] /\ effs (Dirty.OWriteSlice 0 addr) = [] /\
  effs (Dirty.ORead 0 addr) = [] /\ effs (Dirty.OReadSlice 0 addr) = [] /\
  (forall o, zero_sop o -> Dirty.apply_effs rs (effs o) = rs).
Proof.
  intros K effs. unfold effs, Dirty.run_sop. rewrite K. repeat split; try reflexivity.
  intros o Z. apply apply_effs_zero. pose proof (sop_zero ri hm a o K Z) as F. unfold Dirty.run_sop in F. rewrite K in F. exact F.
Qed.
Lemma as_volatile_slice_ok r : VolMem.mr_size r < W64 ->
  VolMem.mr_as_volatile_slice r = Val {| VolMem.vs_addr := VolMem.mr_addr r + 0; VolMem.vs_size := VolMem.mr_size r |}.
Proof.
  intros H. unfold VolMem.mr_as_volatile_slice, VolMem.mr_get_slice, VolMem.compute_end_offset, VolMem.compute_offset, checked_add.
  rewrite N.add_0_l. destruct (N.ltb_spec (VolMem.mr_size r) W64); [|lia]. rewrite N.ltb_irrefl. reflexivity.
Qed.
(* region level: GuestRegionMmap's Bytes impl = the same calls on as_volatile_slice().unwrap(), errors mapped *)
Lemma zero_len_region_lemma hb h r addr t v : VolMem.mr_size r < W64 -> VolMem.ty_size t = 0 ->
  exists s, VolMem.mr_as_volatile_slice r = Val s /\ VolMem.vs_size s = VolMem.mr_size r /\
    VolMem.gm_res (snd (VolMem.vs_write hb h s [] addr)) = VolMem.Ok 0 /\ fst (VolMem.vs_write hb h s [] addr) = h /\
    VolMem.gm_res (snd (VolMem.vs_read hb h s [] addr)) = VolMem.Ok 0 /\
    VolMem.gm_res (snd (VolMem.vs_write_slice hb h s [] addr)) = VolMem.Ok tt /\ fst (VolMem.vs_write_slice hb h s [] addr) = h /\
    VolMem.gm_res (snd (VolMem.vs_read_slice hb h s [] addr)) = VolMem.Ok tt /\
    VolMem.gm_res (snd (VolMem.vs_write_obj hb h s t v addr)) = VolMem.Ok tt /\ fst (VolMem.vs_write_obj hb h s t v addr) = h /\
    VolMem.gm_res (VolMem.vs_read_obj hb h s t addr) = VolMem.Ok 0 /\
    (forall g off, Guest.reg_write g [] off = (g, inl 0) /\ Guest.reg_read g 0 off = inl []).
Proof.
  intros Hr Ht. eexists. split; [apply as_volatile_slice_ok; exact Hr|].
  rewrite vs_write_obj_zst, vs_read_obj_zst by exact Ht. cbn. repeat split; reflexivity.
Qed.
Lemma zero_len_guest_lemma find md M addr :
  Guest.gm_write find md M [] addr = Val (M, inl 0) /\
  Guest.gm_read find md M [] addr = Val ([], inl 0) /\
  Guest.gm_write_slice find md M [] addr = Val (M, inl tt) /\
  Guest.gm_read_slice find md M [] addr = Val ([], inl tt) /\
  Guest.gm_write_obj find md M [] addr = Val (M, inl tt) /\
  Guest.gm_read_obj find md M 0 addr = Val (inl []).
Proof. repeat split; reflexivity. Qed.
Lemma zero_len_guest_marks_lemma hm rs addr :
  Dirty.run_gop hm rs (Dirty.GWrite 0 addr) = Dirty.done 0 [] /\
  Dirty.run_gop hm rs (Dirty.GWriteSlice 0 addr) = Dirty.done 0 [] /\
  Dirty.run_gop hm rs (Dirty.GRead 0 addr) = Dirty.done 0 [].
Proof. repeat split; reflexivity. Qed.

Lemma zst_copy_noop_lemma m h t buf : VolMem.ty_size t = 0 ->
  (forall s, VolMem.vs_copy_to m h s t buf = Val (buf, VolMem.len buf) /\ VolMem.vs_copy_from m h s t buf = Val h) /\
  (forall a, (exists b', VolMem.va_copy_to m h a t buf = Val (b', N.min (VolMem.len buf) (VolMem.va_nelem a))) /\
             VolMem.va_copy_from m h a t buf = Val h) /\
  (forall a v, VolMem.vr_store h a t v = h).
Proof.
  intros H. repeat split; auto using vs_copy_to_zst, vs_copy_from_zst, va_copy_to_zst, va_copy_from_zst, vr_store_zst.
Qed.
Lemma empty_array_copy_noop_lemma m h p t buf :
  VolMem.va_copy_to m h {| VolMem.va_addr := p; VolMem.va_nelem := 0 |} t buf = Val (buf, 0) /\
  VolMem.va_copy_from m h {| VolMem.va_addr := p; VolMem.va_nelem := 0 |} t buf = Val h.
Proof. split; [apply va_copy_to_n0|apply va_copy_from_n0]. Qed.
Lemma zst_copy_marks_lemma ri hm a rs k :
  (Dirty.a_kind a = Dirty.KSlice ->
     Dirty.run_sop ri hm a (Dirty.OCopyFrom 0 k) = Dirty.done 0 [] /\ Dirty.run_sop ri hm a (Dirty.OCopyTo 0 k) = Dirty.done k []) /\
  (forall esz n o, Dirty.a_kind a = Dirty.KArr esz n -> Dirty.a_len a = n * esz -> esz = 0 \/ n = 0 ->
     o = Dirty.OArrCopyFrom k \/ o = Dirty.OArrCopyTo k ->
     Dirty.apply_effs rs (Dirty.o_effs (Dirty.run_sop ri hm a o)) = rs) /\
  (forall o, Dirty.a_kind a = Dirty.KRef -> Dirty.a_len a = 0 ->
     Dirty.apply_effs rs (Dirty.o_effs (Dirty.run_sop ri hm a o)) = rs).
Proof.
  split; [|split].
  - intros K. unfold Dirty.run_sop. rewrite K. split; reflexivity.
  - intros esz n o K L Z O. apply apply_effs_zero. eapply arr_zero; eauto.
  - intros o K L. apply apply_effs_zero. apply ref_zero; auto.
Qed.

Lemma zero_count_stream_slice_lemma (rd : bool) md sk self addr st m :
  st_wf st -> Io.vs_addr self + addr < W64 ->
  (addr <= Io.vs_len self ->
     s_upto rd md sk self addr st m 0 = Val ((st, m), Io.Ok 0) /\
     s_exact rd md sk self addr st m 0 = Val ((st, m), Io.Ok tt)) /\
  (Io.vs_len self < addr ->
     (exists e, s_upto rd md sk self addr st m 0 = Val ((st, m), Io.Err e)) /\
     (exists e, s_exact rd md sk self addr st m 0 = Val ((st, m), Io.Err e))).
Proof.
  intros Hst Ho. split; intros Ha.
  - split; [apply s_upto_zero|apply s_exact_zero]; auto.
  - split; [apply s_upto_beyond|apply s_exact_beyond]; auto.
Qed.
Lemma zero_count_stream_guest_lemma (rd : bool) md sk L addr st m :
  st_wf st -> Forall host_ok L ->
  ((exists r, In r L /\ IoGuest.contains r addr = true) ->
     g_upto rd md sk L addr st m 0 = Val ((st, m), IoGuest.GOk 0) /\
     IoGuest.gm_exact_of (g_upto rd md sk L addr st m 0) 0 = Val ((st, m), IoGuest.GOk tt)) /\
  ((forall r, In r L -> IoGuest.contains r addr = false) ->
     g_upto rd md sk L addr st m 0 = Val ((st, m), IoGuest.GErr IoGuest.GInvalidGuestAddress)).
Proof.
  intros Hst HL. rewrite g_upto_zero by auto. split.
  - intros [r [Hin Hc]]. destruct (IoGuest.find_region L addr) eqn:F; [split; reflexivity|].
    unfold IoGuest.find_region in F. pose proof (find_none _ _ F r Hin) as X. cbn in X. congruence.
  - intros Hn. destruct (IoGuest.find_region L addr) as [r|] eqn:F; [|reflexivity].
    unfold IoGuest.find_region in F. apply find_some in F. destruct F as [Hin Hc]. rewrite (Hn r Hin) in Hc. discriminate.
Qed.


(* ------------------------------------------------------------------ the composed model run_C18 *)

(* ------------------------------------------------------------------ run_effs: only zero-length marks *)
Definition is_sub (d : Dirty.dop) : Prop := match d with Dirty.DSub _ _ => True | _ => False end.

Lemma derive_chain_app ds1 : forall a ds2,
  Dirty.derive_chain a (ds1 ++ ds2) =
  match Dirty.derive_chain a ds1 with Some a' => Dirty.derive_chain a' ds2 | None => None end.
Proof.
  induction ds1 as [|d r IH]; intros a ds2; cbn [app Dirty.derive_chain]; [reflexivity|].
  destruct (Dirty.derive a d); [apply IH|reflexivity].
Qed.
Lemma d_sub_kind a o c k a' : Dirty.d_sub a o c k = Some a' -> Dirty.a_kind a' = k /\ Dirty.a_len a' = c.
Proof.
  unfold Dirty.d_sub. destruct (checked_add o c); [|discriminate]. destruct (Dirty.a_len a <? n); [discriminate|].
  intros H; inversion H; subst; split; reflexivity.
Qed.
Lemma sub_chain_kind ds : Forall is_sub ds -> forall a a', Dirty.a_kind a = Dirty.KSlice ->
  Dirty.derive_chain a ds = Some a' -> Dirty.a_kind a' = Dirty.KSlice.
Proof.
  induction 1 as [|d r Hd _ IH]; intros a a' K H; cbn [Dirty.derive_chain] in H.
  - inversion H; subst; exact K.
  - destruct d; try contradiction. unfold Dirty.derive in H. rewrite K in H.
    destruct (Dirty.d_sub a o c Dirty.KSlice) as [x|] eqn:E; [|discriminate].
    apply d_sub_kind in E. apply (IH x a'); [apply E|exact H].
Qed.
Lemma sub_chain_last_len pre x nb : Forall is_sub pre -> forall a a', Dirty.a_kind a = Dirty.KSlice ->
  Dirty.derive_chain a (pre ++ [Dirty.DSub x nb]) = Some a' -> Dirty.a_len a' = nb.
Proof.
  intros Hp a a' K H. rewrite derive_chain_app in H.
  destruct (Dirty.derive_chain a pre) as [b|] eqn:E; [|discriminate].
  pose proof (sub_chain_kind pre Hp a b K E) as Kb. cbn [Dirty.derive_chain] in H. unfold Dirty.derive in H. rewrite Kb in H.
  destruct (Dirty.d_sub b x nb Dirty.KSlice) as [y|] eqn:E2; [|discriminate]. inversion H; subst.
  apply d_sub_kind in E2. apply E2.
Qed.

Lemma sop_effs_zero rs ri ch o : Forall is_sub ch -> zero_sop o -> Forall mlen0 (sop_effs rs ri ch o).
Proof.
  intros Hc Z. unfold sop_effs. destruct (nth_error rs ri) as [r|]; [|constructor].
  destruct (Dirty.derive_chain (Dirty.root r) ch) as [a|] eqn:E; [|constructor].
  apply sop_zero; [|exact Z]. exact (sub_chain_kind ch Hc (Dirty.root r) a eq_refl E).
Qed.
Lemma sop_effs_ref rs ri ch o : Forall is_sub ch -> Forall mlen0 (sop_effs rs ri (ch ++ [Dirty.DGetRef 0 0]) o).
Proof.
  intros Hc. unfold sop_effs. destruct (nth_error rs ri) as [r|]; [|constructor].
  rewrite derive_chain_app. destruct (Dirty.derive_chain (Dirty.root r) ch) as [a|] eqn:E; [|constructor].
  pose proof (sub_chain_kind ch Hc (Dirty.root r) a eq_refl E) as K. cbn [Dirty.derive_chain]. unfold Dirty.derive. rewrite K.
  destruct (Dirty.d_sub a 0 0 Dirty.KRef) as [x|] eqn:E2; [|constructor]. apply d_sub_kind in E2.
  apply ref_zero; apply E2.
Qed.
Lemma sop_effs_arr rs ri ch esz n k (o : Dirty.sop) : Forall is_sub ch -> esz = 0 \/ n = 0 ->
  o = Dirty.OArrCopyFrom k \/ o = Dirty.OArrCopyTo k ->
  Forall mlen0 (sop_effs rs ri (ch ++ [Dirty.DGetArr 0 esz n]) o).
Proof.
  intros Hc Z O. unfold sop_effs. destruct (nth_error rs ri) as [r|]; [|constructor].
  rewrite derive_chain_app. destruct (Dirty.derive_chain (Dirty.root r) ch) as [a|] eqn:E; [|constructor].
  pose proof (sub_chain_kind ch Hc (Dirty.root r) a eq_refl E) as K. cbn [Dirty.derive_chain]. unfold Dirty.derive. rewrite K.
  destruct ((ISZ_MAX <? n) || (ISZ_MAX <? n * esz)); [constructor|].
  destruct (Dirty.d_sub a 0 (n * esz) (Dirty.KArr esz n)) as [x|] eqn:E2; [|constructor]. apply d_sub_kind in E2.
  eapply arr_zero; try apply E2; eauto.
Qed.
Lemma copy_vs_effs_zero rs ri chd other :
  (other = 0 \/ exists pre x, chd = pre ++ [Dirty.DSub x 0] /\ Forall is_sub pre) ->
  Forall mlen0 (copy_vs_effs rs ri chd other).
Proof.
  intros H. unfold copy_vs_effs. destruct (nth_error rs ri) as [r|]; [|constructor].
  destruct (Dirty.derive_chain (Dirty.root r) chd) as [d|] eqn:E; [|constructor].
  constructor; [|constructor]. destruct H as [H|[pre [x [Hc Hp]]]].
  - subst. rewrite N.min_0_l. apply weff_zero.
  - subst chd. rewrite (sub_chain_last_len pre x 0 Hp (Dirty.root r) d eq_refl E), N.min_0_r. apply weff_zero.
Qed.

Lemma params_arr c : params_ok c = true -> (c_op c = ZArrCopyTo \/ c_op c = ZArrCopyFrom) -> c_esz c = 0 \/ c_n c = 0.
Proof.
  unfold params_ok. intros H [Hop|Hop]; rewrite Hop in H; apply orb_true_iff in H; destruct H as [H|H].
  1,3: left; apply andb_true_iff in H; destruct H as [H _]; apply N.eqb_eq; exact H.
  all: right; apply andb_true_iff in H; destruct H as [H _]; apply andb_true_iff in H; destruct H as [H _]; apply N.eqb_eq; exact H.
Qed.

Lemma acc_effs_zero c rs ri pre x wlen : params_ok c = true -> Forall is_sub pre ->
  Forall mlen0 (acc_effs c rs ri (pre ++ [Dirty.DSub x (nbytes18 c)]) wlen).
Proof.
  intros P Hp.
  assert (Hs : Forall is_sub (pre ++ [Dirty.DSub x (nbytes18 c)])).
  { apply Forall_app. split; [exact Hp|repeat constructor]. }
  unfold acc_effs. destruct (c_op c) eqn:Op; try constructor.
  - apply sop_effs_zero; [exact Hs|constructor].
  - apply sop_effs_zero; [exact Hs|constructor].
  - eapply sop_effs_arr; [exact Hs|apply params_arr; auto|right; reflexivity].
  - eapply sop_effs_arr; [exact Hs|apply params_arr; auto|left; reflexivity].
  - apply sop_effs_ref; exact Hs.
  - apply sop_effs_ref; exact Hs.
  - apply copy_vs_effs_zero. right. exists pre, x. unfold nbytes18. rewrite Op. split; [reflexivity|exact Hp].
  - apply copy_vs_effs_zero. left. reflexivity.
Qed.

Lemma chain0_sub c : Forall is_sub (chain0 c).
Proof. unfold chain0. destruct (c_layer c); repeat constructor. Qed.

Lemma run_effs_zero c : params_ok c = true -> Forall mlen0 (run_effs c).
Proof.
  intros P. unfold run_effs. destruct (c_layer c) eqn:L.
  1,2: destruct (c_op c) eqn:Hop;
       try (apply sop_effs_zero; [apply chain0_sub|constructor]);
       try (destruct (c_sk c =? 2); first [apply sop_effs_zero; [apply chain0_sub|constructor] | constructor]);
       try (apply acc_effs_zero; [exact P|apply chain0_sub]).
  destruct (c_op c) eqn:Hop;
    try (rewrite (gop_zero 0 (dregs c) (c_addr c) (c_k c)) by (first [left; reflexivity | right; left; reflexivity | right; right; left; reflexivity | right; right; right; reflexivity]); constructor); try constructor;
    try (destruct (Dirty.find_idx (dregs c) (c_addr c) 0) as [[i r]|]; [|constructor];
         apply (acc_effs_zero c (dregs c) i [] _ _ P); constructor).
Qed.


Lemma true_from_false l : Forall (fun b => b = false) l -> forall i, true_from i l = [].
Proof. induction 1 as [|b r Hb _ IH]; intros i; cbn [true_from]; [reflexivity|]. rewrite Hb. apply IH. Qed.
Lemma dregs_clean c : Forall (fun b => b = false) (flat_map Dirty.r_dirty (dregs c)).
Proof.
  unfold dregs. induction (c_regs c) as [|p t IH]; cbn [map flat_map]; [constructor|].
  apply Forall_app. split; [|exact IH]. cbn [Dirty.r_dirty]. apply Forall_forall. intros x Hx. apply repeat_spec in Hx. exact Hx.
Qed.
Lemma model_no_marks c : params_ok c = true -> o_dirty (run_C18 c) = [].
Proof.
  intros P. unfold run_C18. cbn [o_dirty]. rewrite apply_effs_zero by (apply run_effs_zero; exact P).
  unfold dirty_idx. apply true_from_false. apply dregs_clean.
Qed.
Lemma diff_from_refl l : forall i, diff_from i l l = [].
Proof. induction l as [|x r IH]; intros i; cbn [diff_from]; [reflexivity|]. rewrite N.eqb_refl. apply IH. Qed.

Definition mem_ok (c : case18) (r : mres) : Prop :=
  m_heap r = heap0 (c_regs c) /\ m_ext r = 0 /\ m_class r <> 2 /\
  (must_succeed c = true -> m_class r = 0 /\ (count_stated c = true -> m_count r = 0)).

Lemma wf_params c : wf_case c = true -> params_ok c = true.
Proof. unfold wf_case. intros H. repeat (apply andb_true_iff in H; destruct H as [H ?]). assumption. Qed.

Lemma ok_of_mem_ok c : wf_case c = true -> mem_ok c (run_mem c) -> ok_C18 c (run_C18 c) = true.
Proof.
  intros W [Hh [He [Hc Hs]]]. unfold ok_C18. rewrite (model_no_marks c (wf_params c W)).
  unfold run_C18. cbn [o_class o_changed o_ext o_count]. rewrite Hh, diff_from_refl, He. cbn [is_nil N.eqb andb].
  replace (m_class (run_mem c) =? 2) with false by (symmetry; apply N.eqb_neq; exact Hc). cbn [negb andb].
  destruct (must_succeed c); [|reflexivity]. destruct (Hs eq_refl) as [H0 Hn]. rewrite H0. cbn [N.eqb andb].
  destruct (count_stated c); [|reflexivity]. rewrite (Hn eq_refl). reflexivity.
Qed.

Lemma mem_ok_r_ok c h : h = heap0 (c_regs c) -> mem_ok c (r_ok 0 0 h).
Proof. intros E. subst. repeat split; cbn; try reflexivity. discriminate. Qed.
Lemma mem_ok_r_err c code h : h = heap0 (c_regs c) -> must_succeed c = false -> mem_ok c (r_err code h).
Proof. intros E M. subst. repeat split; cbn; try reflexivity; try discriminate; rewrite M in *; discriminate. Qed.

(* group 1: empty buffer / zero-sized object at slice and region level *)
Lemma run_mem_bytes_sr c : is_bytes_op (c_op c) = true -> c_layer c <> LGuest ->
  run_mem c = r_ok 0 0 (heap0 (c_regs c)).
Proof.
  intros B L. unfold run_mem. rewrite B. destruct (c_layer c); [| |congruence];
    unfold run_bytes_sr; destruct (c_op c); try discriminate; reflexivity.
Qed.
(* group 2: ... at guest level *)
Lemma repeat_add {A} (x : A) a b : repeat x (a + b) = repeat x a ++ repeat x b.
Proof. induction a as [|a IH]; cbn; [reflexivity|]. rewrite IH. reflexivity. Qed.
Lemma gflat_gmem regs : (forall p, In p regs -> True) -> gflat (gmem regs) = heap0 regs.
Proof.
  intros _. unfold gflat, gmem, heap0, total. induction regs as [|p t IH]; cbn [map flat_map fold_right]; [reflexivity|].
  cbn [Guest.rbytes]. rewrite IH, N2Nat.inj_add, repeat_add. reflexivity.
Qed.
Lemma run_mem_bytes_g c : is_bytes_op (c_op c) = true -> c_layer c = LGuest ->
  run_mem c = r_ok 0 0 (heap0 (c_regs c)).
Proof.
  intros B L. unfold run_mem. rewrite B, L. unfold run_bytes_g.
  rewrite <- (gflat_gmem (c_regs c)) by auto.
  destruct (c_op c); try discriminate; reflexivity.
Qed.


(* group 3: zero-count stream forms at slice and region level *)
Lemma regs_ok_bounds regs : forall lo, regs_ok lo regs = true ->
  total regs <= 65536 * N.of_nat (length regs) /\ forall i, snd (nth i regs (0, 0)) <= 65536 /\ moff regs i <= total regs.
Proof.
  induction regs as [|[st sz] t IH]; intros lo H.
  - split; [cbn; lia|]. intros [|i]; cbn; lia.
  - cbn [regs_ok] in H. repeat (apply andb_true_iff in H; destruct H as [H ?]).
    destruct (IH _ H0) as [T B]. apply N.leb_le in H2. split.
    + cbn [total fold_right length snd] in *. unfold total in T. lia.
    + intros [|i]; cbn [nth snd moff total fold_right]; [unfold total; lia|].
      destruct (B i) as [B1 B2]. unfold total in *. lia.
Qed.
Lemma st_wf_stream0 rd c : c_k c <= 64 -> st_wf (stream0 rd c).
Proof.
  intros K. unfold st_wf, stream0. cbn [Io.s_pos Io.s_data]. split; [rewrite W64_val; lia|].
  assert (E : nlen (repeat SRC (N.to_nat (c_k c))) = c_k c) by (unfold nlen; rewrite repeat_length; lia).
  destruct rd; [rewrite E, W64_val; lia|]. destruct (c_sk c =? 0); [rewrite E|rewrite nlen_nil]; rewrite W64_val; lia.
Qed.
Lemma st_same_refl st : st_same st st = true.
Proof. unfold st_same. rewrite N.eqb_refl. cbn [andb]. apply andb_true_iff. split; apply list_eqb_eq; reflexivity. Qed.
Lemma ext_of_refl st : ext_of st st = 0.
Proof. unfold ext_of. rewrite st_same_refl. reflexivity. Qed.

Lemma s_upto_shape (rd : bool) md sk self addr st m : st_wf st ->
  exists r, s_upto rd md sk self addr st m 0 = Val ((st, m), r) /\ (r = Io.Ok 0 \/ exists e, r = Io.Err e) /\
            (addr <= Io.vs_len self -> Io.vs_addr self + addr < W64 -> r = Io.Ok 0).
Proof.
  intros Hst. destruct (N.ltb_spec (Io.vs_addr self + addr) W64) as [Ho|Ho].
  - destruct (N.le_gt_cases addr (Io.vs_len self)) as [Ha|Ha].
    + exists (Io.Ok 0). split; [apply s_upto_zero; auto|]. split; [left; reflexivity|auto].
    + destruct (s_upto_beyond rd md sk self addr st m Ha) as [e E]. exists (Io.Err e). split; [exact E|]. split; [right; eexists; reflexivity|lia].
  - exists (Io.Err Io.VOverflow). split; [|split; [right; eexists; reflexivity|lia]].
    unfold s_upto, IoGuest.vs_upto, Io.vs_offset, checked_add. destruct (N.ltb_spec (Io.vs_addr self + addr) W64); [lia|reflexivity].
Qed.
Lemma s_exact_shape (rd : bool) md sk self addr st m : st_wf st -> addr < W64 ->
  exists r, s_exact rd md sk self addr st m 0 = Val ((st, m), r) /\ (r = Io.Ok tt \/ exists e, r = Io.Err e) /\
            (addr <= Io.vs_len self -> Io.vs_addr self + addr < W64 -> r = Io.Ok tt).
Proof.
  intros Hst Hw. destruct (N.le_gt_cases addr (Io.vs_len self)) as [Ha|Ha].
  - destruct (N.ltb_spec (Io.vs_addr self + addr) W64) as [Ho|Ho].
    + exists (Io.Ok tt). split; [apply s_exact_zero; auto|]. split; [left; reflexivity|auto].
    + (* the slice exists, its host address does not fit: the default loop's offset(0) reports Overflow or the override succeeds *)
      unfold s_exact, Io.vs_subslice, checked_add. rewrite N.add_0_r.
      destruct (N.ltb_spec addr W64); [|lia]. destruct (N.ltb_spec (Io.vs_len self) addr); [lia|].
      set (sl := {| Io.vs_addr := _; Io.vs_off := _; Io.vs_len := 0 |}).
      assert (D : forall ze call, Io.exact_volatile ze FUEL call st m sl = Val ((st, m), Io.Err Io.VOverflow)).
      { intros ze call. unfold Io.exact_volatile, Io.vs_offset, checked_add. rewrite N.add_0_r.
        destruct (N.ltb_spec (Io.vs_addr sl) W64) as [X|X]; [cbn [sl Io.vs_addr] in X; lia|reflexivity]. }
      assert (Hv : Io.vs_len sl = 0) by reflexivity.
      destruct rd; unfold rexact, wexact; destruct sk as [|[p|p|]];
        try (eexists; split; [apply D|split; [right; eexists; reflexivity|lia]]).
      * exists (Io.Ok tt). split; [|split; [left; reflexivity|lia]].
        unfold Io.slice_read_exact_volatile. rewrite Hv.
        replace (nlen (Io.slice_rem st) <? 0) with false by (symmetry; apply N.ltb_ge; lia).
        rewrite slice_read_zero by auto. reflexivity.
      * exists (Io.Ok tt). split; [|split; [left; reflexivity|lia]].
        pose proof (exact_zero true md 1 st m {| Io.vs_addr := 0; Io.vs_off := Io.vs_off sl; Io.vs_len := 0 |} eq_refl) as X.
        cbn [Io.vs_addr] in X. specialize (X ltac:(rewrite W64_val; lia) Hst).
        unfold rexact in X. unfold Io.cursor_read_exact_volatile, Io.slice_read_exact_volatile, Io.slice_read_volatile, Io.copy_to_volatile_slice in *.
        cbn [Io.vs_len Io.vs_off] in *. exact X.
      * exists (Io.Ok tt). split; [|split; [left; reflexivity|lia]].
        unfold Io.mslice_write_all_volatile. rewrite mslice_write_zero by auto. reflexivity.
  - destruct (s_exact_beyond rd md sk self addr st m Ha) as [e E]. exists (Io.Err e). split; [exact E|]. split; [right; eexists; reflexivity|lia].
Qed.


Lemma wf_case_inv c : wf_case c = true ->
  (length (c_regs c) <= 4)%nat /\ regs_ok 0 (c_regs c) = true /\
  (match c_layer c with
   | LSlice => c_sub_off c + c_sub_len c <= snd (reg_at c)
   | LRegion => c_sub_off c = 0 /\ c_sub_len c = snd (reg_at c)
   | LGuest => True end) /\
  c_addr c < W64 /\ c_n c <= 64 /\ c_k c <= 64 /\ params_ok c = true.
Proof.
  unfold wf_case. intros H.
  apply andb_true_iff in H; destruct H as [H H12]. apply andb_true_iff in H; destruct H as [H H11].
  apply andb_true_iff in H; destruct H as [H H10]. apply andb_true_iff in H; destruct H as [H H9].
  apply andb_true_iff in H; destruct H as [H H8]. apply andb_true_iff in H; destruct H as [H H7].
  apply andb_true_iff in H; destruct H as [H H6]. apply andb_true_iff in H; destruct H as [H H5].
  apply andb_true_iff in H; destruct H as [H H4].
  repeat split; auto.
  - apply Nat.leb_le. exact H4.
  - destruct (c_layer c); [apply N.leb_le; exact H7| |exact I].
    apply andb_true_iff in H7. destruct H7 as [X Y]. split; apply N.eqb_eq; assumption.
  - apply N.ltb_lt. exact H8.
  - apply N.leb_le. exact H10.
  - apply N.leb_le. exact H11.
Qed.

Lemma cslice_bounds c : wf_case c = true -> c_layer c <> LGuest ->
  VolMem.vs_addr (cslice c) + VolMem.vs_size (cslice c) <= 5 * 65536 /\
  VolMem.vs_size (cslice c) = match c_layer c with LSlice => c_sub_len c | _ => snd (reg_at c) end.
Proof.
  intros W L. destruct (wf_case_inv c W) as [H4 [Hr [Hl _]]].
  destruct (regs_ok_bounds _ _ Hr) as [T B]. destruct (B (c_ri c)) as [B1 B2].
  assert (T' : total (c_regs c) <= 4 * 65536) by lia.
  unfold cslice, reg_at in *. destruct (c_layer c); [| |congruence]; cbn [VolMem.vs_addr VolMem.vs_size]; split; try reflexivity; lia.
Qed.

Lemma must_stream c : is_stream_op (c_op c) = true -> c_layer c <> LGuest -> must_succeed c = true ->
  c_addr c < match c_layer c with LSlice => c_sub_len c | _ => snd (reg_at c) end.
Proof.
  intros S L M. unfold must_succeed in M.
  assert (V : valid_addr c = true) by (destruct (c_op c); try discriminate; exact M).
  unfold valid_addr, reg_at in *. destruct (c_layer c); [| |congruence];
    apply andb_true_iff in V; destruct V as [V _]; apply N.ltb_lt; exact V.
Qed.

Lemma run_mem_stream_sr c : wf_case c = true -> is_stream_op (c_op c) = true -> c_layer c <> LGuest ->
  mem_ok c (run_mem c).
Proof.
  intros W S L. destruct (wf_case_inv c W) as [_ [_ [_ [Ha [_ [Hk _]]]]]].
  destruct (cslice_bounds c W L) as [Bd Sz].
  unfold run_mem. replace (is_bytes_op (c_op c)) with false by (destruct (c_op c); try discriminate; reflexivity).
  rewrite S. unfold run_stream. cbv zeta.
  set (rd := is_read_stream (c_op c)). set (st0 := stream0 rd c). set (h := heap0 (c_regs c)).
  assert (Hst : st_wf st0) by (apply st_wf_stream0; exact Hk).
  assert (Good : must_succeed c = true ->
            c_addr c <= Io.vs_len (to_io (cslice c)) /\ Io.vs_addr (to_io (cslice c)) + c_addr c < W64).
  { intros M. pose proof (must_stream c S L M) as X. unfold to_io. cbn [Io.vs_len Io.vs_addr].
    unfold HB, IoGuest.HBASE. change (2 ^ 40) with 1099511627776. rewrite W64_val. rewrite Sz. lia. }
  assert (Lay : match c_layer c with LGuest => False | _ => True end) by (destruct (c_layer c); auto).
  destruct (c_layer c) eqn:EL; [| |contradiction].
  all: destruct (is_exact (c_op c)).
  all: match goal with
       | |- context [s_exact] =>
           destruct (s_exact_shape rd (c_mode c) (c_sk c) (to_io (cslice c)) (c_addr c) st0 h Hst Ha) as [r [E [Sh G]]]
       | |- context [s_upto] =>
           destruct (s_upto_shape rd (c_mode c) (c_sk c) (to_io (cslice c)) (c_addr c) st0 h Hst) as [r [E [Sh G]]]
       end.
  all: rewrite E; cbn [bind of_outcome snd fst].
  all: destruct Sh as [Sh|[e Sh]]; subst r; [rewrite ext_of_refl; apply mem_ok_r_ok; reflexivity|].
  all: apply mem_ok_r_err; [reflexivity|]; destruct (must_succeed c) eqn:M; [|reflexivity];
       destruct (Good eq_refl) as [G1 G2]; specialize (G G1 G2); discriminate.
Qed.


(* group 4: zero-count stream forms at guest level *)
Lemma ioregs_host_ok regs : forall off, off + total regs <= 5 * 65536 -> Forall host_ok (ioregs regs off).
Proof.
  induction regs as [|p t IH]; intros off H; cbn [ioregs]; constructor.
  - unfold host_ok. cbn [IoGuest.g_moff IoGuest.g_len]. unfold IoGuest.HBASE. change (2 ^ 40) with 1099511627776.
    rewrite W64_val. cbn [total fold_right] in H. unfold total in H. lia.
  - apply IH. cbn [total fold_right] in H. unfold total in *. lia.
Qed.
Lemma contains_eq st sz a : (st <=? a) && (a - st <? sz) = (st <=? a) && (a <? st + sz).
Proof.
  destruct (N.leb_spec st a); cbn [andb]; [|reflexivity].
  destruct (N.ltb_spec (a - st) sz), (N.ltb_spec a (st + sz)); try reflexivity; lia.
Qed.
Lemma find_region_ioregs regs a : forall off,
  match region_of regs a with
  | Some _ => exists r, IoGuest.find_region (ioregs regs off) a = Some r
  | None => IoGuest.find_region (ioregs regs off) a = None end.
Proof.
  unfold region_of, IoGuest.find_region. induction regs as [|p t IH]; intros off; cbn [ioregs find]; [reflexivity|].
  unfold IoGuest.contains at 1 3. cbn [IoGuest.g_start IoGuest.g_len]. rewrite contains_eq.
  destruct ((fst p <=? a) && (a <? fst p + snd p)); [eexists; reflexivity|]. apply IH.
Qed.

Lemma run_mem_stream_g c : wf_case c = true -> is_stream_op (c_op c) = true -> c_layer c = LGuest ->
  mem_ok c (run_mem c).
Proof.
  intros W S L. destruct (wf_case_inv c W) as [H4 [Hr [_ [Ha [_ [Hk _]]]]]].
  unfold run_mem. replace (is_bytes_op (c_op c)) with false by (destruct (c_op c); try discriminate; reflexivity).
  rewrite S. unfold run_stream. cbv zeta. rewrite L.
  set (rd := is_read_stream (c_op c)). set (st0 := stream0 rd c). set (h := heap0 (c_regs c)).
  assert (Hst : st_wf st0) by (apply st_wf_stream0; exact Hk).
  assert (HL : Forall host_ok (ioregs (c_regs c) 0)).
  { apply ioregs_host_ok. destruct (regs_ok_bounds _ _ Hr) as [T _]. lia. }
  rewrite (g_upto_zero rd (c_mode c) (c_sk c) _ (c_addr c) st0 h Hst HL).
  pose proof (find_region_ioregs (c_regs c) (c_addr c) 0) as F.
  destruct (region_of (c_regs c) (c_addr c)) as [p|] eqn:R.
  - destruct F as [r F]. rewrite F.
    destruct (is_exact (c_op c)); cbn [IoGuest.gm_exact_of omap bind of_outcome snd fst]; try rewrite N.eqb_refl;
      rewrite ext_of_refl; apply mem_ok_r_ok; reflexivity.
  - rewrite F.
    assert (M : must_succeed c = false).
    { unfold must_succeed, valid_addr. rewrite L, R. destruct (c_op c); try discriminate; reflexivity. }
    destruct (is_exact (c_op c)); cbn [IoGuest.gm_exact_of omap bind of_outcome snd fst];
      apply mem_ok_r_err; [reflexivity|exact M|reflexivity|exact M].
Qed.

(* group 5: accessor-shaped entry points (ZST copies, empty arrays, refs, slice-to-slice copies):
   the layer's get_slice, then the accessor *)
Lemma mem_ok_ok c n h : h = heap0 (c_regs c) -> (count_stated c = true -> n = 0) -> mem_ok c (r_ok n 0 h).
Proof. intros E Hn. subst. repeat split; cbn; try reflexivity; [discriminate|exact Hn]. Qed.

Lemma shape_gmem regs : Guest.shape (gmem regs) = regs.
Proof.
  unfold Guest.shape, gmem. rewrite map_map. rewrite <- (map_id regs) at 2. apply map_ext. intros [st sz].
  unfold Guest.rlen, Guest.lenN. cbn [Guest.rstart Guest.rbytes fst snd]. rewrite repeat_length, N2Nat.id. reflexivity.
Qed.
Lemma to_region_addr_eq st ln a :
  Guest.r_to_region_addr st ln a = if (st <=? a) && (a <? st + ln) then Some (a - st) else None.
Proof.
  rewrite <- contains_eq. unfold Guest.r_to_region_addr, Address.a_checked_offset_from, checked_sub, Guest.r_check_address,
    Guest.r_address_in_range.
  destruct (st <=? a); cbn [andb]; reflexivity.
Qed.
Lemma find_idx_region_of regs a : forall k,
  match region_of regs a with
  | Some p => exists j, Guest.find_idx regs a k = Some (k + j)%nat /\ nth j regs (0, 0) = p /\
                        (fst p <=? a) && (a <? fst p + snd p) = true
  | None => Guest.find_idx regs a k = None end.
Proof.
  unfold region_of. induction regs as [|p t IH]; intros k; cbn [find Guest.find_idx]; [reflexivity|].
  rewrite to_region_addr_eq. destruct ((fst p <=? a) && (a <? fst p + snd p)) eqn:E.
  - exists O. rewrite Nat.add_0_r. repeat split. exact E.
  - specialize (IH (S k)). destruct (find _ t) as [q|].
    + destruct IH as [j [H1 [H2 H3]]]. exists (S j). rewrite H1. split; [f_equal; lia|]. split; assumption.
    + exact IH.
Qed.

Lemma get_sl_shape c : wf_case c = true ->
  exists g, get_sl c = Val g /\
    match g with inl (_, sl) => VolMem.vs_size sl = nbytes18 c | inr _ => valid_addr c = false end.
Proof.
  intros W. destruct (wf_case_inv c W) as [H4 [Hr [Hl [Ha _]]]].
  destruct (regs_ok_bounds _ _ Hr) as [T B].
  assert (SR : forall sz (s : VolMem.vslice), VolMem.vs_size s = sz -> sz <= 65536 ->
            match VolMem.vs_get_slice s (c_addr c) (nbytes18 c) with
            | VolMem.Ok sl => VolMem.vs_size sl = nbytes18 c
            | VolMem.Err _ => (c_addr c <? sz) && (c_addr c + nbytes18 c <=? sz) = false end).
  { intros sz s Hs Hsz. unfold VolMem.vs_get_slice, VolMem.vs_subslice, VolMem.compute_end_offset, VolMem.compute_offset, checked_add.
    rewrite Hs. destruct (N.ltb_spec (c_addr c + nbytes18 c) W64) as [X|X].
    - destruct (N.ltb_spec sz (c_addr c + nbytes18 c)) as [Y|Y]; [|reflexivity].
      destruct (N.leb_spec (c_addr c + nbytes18 c) sz); [lia|]. apply andb_false_r.
    - destruct (N.leb_spec (c_addr c + nbytes18 c) sz) as [Y|Y]; [|apply andb_false_r].
      destruct (N.ltb_spec (c_addr c) sz) as [Z|Z]; [|reflexivity].
      exfalso. rewrite W64_val in X. lia. }
  unfold get_sl, valid_addr. destruct (c_layer c) eqn:L.
  - eexists. split; [reflexivity|]. specialize (SR (c_sub_len c) (cslice c)).
    assert (Hs : VolMem.vs_size (cslice c) = c_sub_len c) by (unfold cslice; rewrite L; reflexivity).
    assert (Hb : c_sub_len c <= 65536).
    { unfold reg_at in Hl. destruct (B (c_ri c)) as [B1 _]. lia. }
    specialize (SR Hs Hb).
    destruct (VolMem.vs_get_slice (cslice c) (c_addr c) (nbytes18 c)); exact SR.
  - eexists. split; [reflexivity|].
    set (s := {| VolMem.vs_addr := moff (c_regs c) (c_ri c); VolMem.vs_size := snd (reg_at c) |}).
    assert (Hb : snd (reg_at c) <= 65536) by (unfold reg_at; destruct (B (c_ri c)) as [B1 _]; exact B1).
    specialize (SR (snd (reg_at c)) s eq_refl Hb).
    change (VolMem.mr_get_slice _ (c_addr c) (nbytes18 c)) with (VolMem.vs_get_slice s (c_addr c) (nbytes18 c)).
    destruct (VolMem.vs_get_slice s (c_addr c) (nbytes18 c)); cbn [VolMem.gm_res]; exact SR.
  - unfold Guest.gm_get_slice, Guest.gm_to_region_addr, Guest.find_lin. rewrite shape_gmem.
    pose proof (find_idx_region_of (c_regs c) (c_addr c) O) as F.
    destruct (region_of (c_regs c) (c_addr c)) as [[st sz]|] eqn:R.
    + destruct F as [j [F1 [F2 F3]]]. rewrite F1. cbn [Nat.add]. unfold Guest.dreg. rewrite F2. cbn [fst snd] in *.
      rewrite to_region_addr_eq, F3. cbn [bind]. rewrite F2. cbn [snd]. apply andb_true_iff in F3. destruct F3 as [F3 F4].
      apply N.leb_le in F3. apply N.ltb_lt in F4.
      assert (Hsz : sz <= 65536) by (destruct (B j) as [B1 _]; rewrite F2 in B1; exact B1).
      unfold Guest.reg_get_slice, checked_add.
      assert (Hnb : nbytes18 c < 2 ^ 32).
      { destruct (wf_case_inv c W) as [_ [_ [_ [_ [Hn [_ P]]]]]]. change (2 ^ 32) with 4294967296.
        unfold nbytes18. destruct (c_op c) eqn:Op; try lia.
        - unfold params_ok in P. rewrite Op in P. apply orb_true_iff in P. destruct P as [P|P].
          + apply andb_true_iff in P. destruct P as [P _]. apply N.eqb_eq in P. rewrite P. lia.
          + apply andb_true_iff in P. destruct P as [P _]. apply andb_true_iff in P. destruct P as [P _].
            apply N.eqb_eq in P. rewrite P. lia.
        - unfold params_ok in P. rewrite Op in P. apply orb_true_iff in P. destruct P as [P|P].
          + apply andb_true_iff in P. destruct P as [P _]. apply N.eqb_eq in P. rewrite P. lia.
          + apply andb_true_iff in P. destruct P as [P _]. apply andb_true_iff in P. destruct P as [P _].
            apply N.eqb_eq in P. rewrite P. lia. }
      change (2 ^ 32) with 4294967296 in Hnb.
      destruct (N.ltb_spec (c_addr c - st + nbytes18 c) W64) as [X|X]; [|rewrite W64_val in X; lia].
      destruct (N.ltb_spec sz (c_addr c - st + nbytes18 c)) as [Y|Y].
      * eexists. split; [reflexivity|]. cbn beta iota. apply N.leb_gt. lia.
      * eexists. split; [reflexivity|]. reflexivity.
    + rewrite F. cbn [bind]. eexists. split; [reflexivity|]. reflexivity.
Qed.

Lemma skipn_repeat {A} (x : A) : forall n k, skipn n (repeat x k) = repeat x (k - n).
Proof. induction n as [|n IH]; intros [|k]; cbn [skipn repeat Nat.sub]; try reflexivity. apply IH. Qed.
Lemma va_read_loop_zst h t : VolMem.ty_size t = 0 -> forall k p, VolMem.va_read_loop h t p k = repeat 0 k.
Proof.
  intros H k. induction k as [|k IH]; intros p; cbn [VolMem.va_read_loop repeat]; [reflexivity|].
  rewrite H, h_read_0, from_bytes_nil, IH. reflexivity.
Qed.
Lemma va_copy_to_zst_zeros m h a t k : VolMem.ty_size t = 0 ->
  exists n, VolMem.va_copy_to m h a t (repeat 0 k) = Val (repeat 0 k, n).
Proof.
  intros H. unfold VolMem.va_copy_to. rewrite H. replace (0 =? 1) with false by reflexivity.
  rewrite pmul_zero_r. cbn [bind]. eexists. f_equal. f_equal.
  rewrite va_read_loop_zst by exact H. rewrite C04.dropN_skipn, skipn_repeat, <- repeat_app. f_equal.
  unfold VolMem.len. rewrite repeat_length. lia.
Qed.

Lemma params_esz c : params_ok c = true -> (c_op c = ZArrCopyTo \/ c_op c = ZArrCopyFrom) -> c_esz c <= 8.
Proof.
  unfold params_ok. intros H [Hop|Hop]; rewrite Hop in H; apply orb_true_iff in H; destruct H as [H|H].
  1,3: apply andb_true_iff in H; destruct H as [H _]; apply N.eqb_eq in H; lia.
  all: apply andb_true_iff in H; destruct H as [_ H]; repeat (apply orb_true_iff in H; destruct H as [H|H]);
       apply N.eqb_eq in H; lia.
Qed.

Lemma run_mem_acc c : wf_case c = true -> is_bytes_op (c_op c) = false -> is_stream_op (c_op c) = false ->
  mem_ok c (run_mem c).
Proof.
  intros W Bf Sf. destruct (wf_case_inv c W) as [_ [_ [_ [_ [Hn [_ P]]]]]].
  unfold run_mem. rewrite Bf, Sf. unfold run_acc. cbv zeta.
  destruct (get_sl_shape c W) as [g [G Sh]]. rewrite G. cbn [bind].
  set (h := heap0 (c_regs c)). set (buf := repeat 0 (N.to_nat (c_k c))).
  destruct g as [[i sl]|code].
  2:{ cbn [of_outcome]. apply mem_ok_r_err; [reflexivity|]. unfold must_succeed.
      destruct (c_op c); try discriminate; exact Sh. }
  destruct (c_op c) eqn:Op; try discriminate.
  - (* copy_to::<[T;0]> *)
    rewrite (vs_copy_to_zst (c_mode c) h sl ZT buf eq_refl). cbn [bind of_outcome fst snd].
    replace (list_eqb buf buf) with true by (symmetry; apply list_eqb_eq; reflexivity).
    apply mem_ok_ok; [reflexivity|]. unfold count_stated. rewrite Op. discriminate.
  - rewrite (vs_copy_from_zst (c_mode c) h sl ZT buf eq_refl). cbn [bind of_outcome]. apply mem_ok_r_ok. reflexivity.
  - (* array copy_to *)
    unfold nbytes18 in Sh. rewrite Op in Sh.
    rewrite (get_array_ref_zero sl (c_esz c) (c_n c) Sh Hn (params_esz c P (or_introl Op))). cbn [bind].
    destruct (params_arr c P (or_introl Op)) as [Z|Z].
    + destruct (va_copy_to_zst_zeros (c_mode c) h {| VolMem.va_addr := VolMem.vs_addr sl + 0; VolMem.va_nelem := c_n c |}
                  (ety c) (N.to_nat (c_k c)) Z) as [n E].
      fold buf in E. rewrite E. cbn [bind of_outcome fst snd].
      replace (list_eqb buf buf) with true by (symmetry; apply list_eqb_eq; reflexivity).
      apply mem_ok_ok; [reflexivity|]. unfold count_stated. rewrite Op. discriminate.
    + rewrite Z, va_copy_to_n0. cbn [bind of_outcome fst snd].
      replace (list_eqb buf buf) with true by (symmetry; apply list_eqb_eq; reflexivity).
      apply mem_ok_r_ok. reflexivity.
  - (* array copy_from *)
    unfold nbytes18 in Sh. rewrite Op in Sh.
    rewrite (get_array_ref_zero sl (c_esz c) (c_n c) Sh Hn (params_esz c P (or_intror Op))). cbn [bind].
    destruct (params_arr c P (or_intror Op)) as [Z|Z].
    + rewrite (va_copy_from_zst (c_mode c) h _ (ety c) buf Z). cbn [bind of_outcome]. apply mem_ok_r_ok. reflexivity.
    + rewrite Z, va_copy_from_n0. cbn [bind of_outcome]. apply mem_ok_r_ok. reflexivity.
  - rewrite get_ref_zero. cbn [bind of_outcome]. rewrite (vr_store_zst h _ ZT 0 eq_refl). apply mem_ok_r_ok. reflexivity.
  - rewrite get_ref_zero. cbn [bind of_outcome]. apply mem_ok_r_ok. reflexivity.
  - cbn [of_outcome]. unfold nbytes18 in Sh. rewrite Op in Sh.
    rewrite vs_copy_vs_empty by (right; exact Sh). apply mem_ok_r_ok. reflexivity.
  - cbn [of_outcome]. unfold nbytes18 in Sh. rewrite Op in Sh.
    rewrite vs_copy_vs_empty by (left; exact Sh). apply mem_ok_r_ok. reflexivity.
Qed.

(* the entry points for which the full checker verdict of the composed model is proved *)
Definition covered18 (c : case18) : bool :=
  is_bytes_op (c_op c) || (is_stream_op (c_op c) && match c_layer c with LGuest => false | _ => true end).
Lemma model_ok_partial_lemma c : wf_case c = true -> covered18 c = true -> ok_C18 c (run_C18 c) = true.
Proof.
  intros W C. apply ok_of_mem_ok; [exact W|]. unfold covered18 in C. apply orb_true_iff in C. destruct C as [B|S].
  - destruct (c_layer c) eqn:L.
    + rewrite run_mem_bytes_sr by (auto; congruence). apply mem_ok_r_ok. reflexivity.
    + rewrite run_mem_bytes_sr by (auto; congruence). apply mem_ok_r_ok. reflexivity.
    + rewrite run_mem_bytes_g by auto. apply mem_ok_r_ok. reflexivity.
  - apply andb_true_iff in S. destruct S as [S L]. apply run_mem_stream_sr; auto. destruct (c_layer c); congruence.
Qed.
(* the full statement: every entry point, every layer *)
Lemma model_ok_lemma c : wf_case c = true -> ok_C18 c (run_C18 c) = true.
Proof.
  intros W. destruct (covered18 c) eqn:C; [apply model_ok_partial_lemma; assumption|].
  apply ok_of_mem_ok; [exact W|]. unfold covered18 in C. apply orb_false_iff in C. destruct C as [Bf C].
  destruct (is_stream_op (c_op c)) eqn:S.
  - destruct (c_layer c) eqn:L; try discriminate. apply run_mem_stream_g; assumption.
  - apply run_mem_acc; assumption.
Qed.
Lemma model_no_marks_lemma c : wf_case c = true -> o_dirty (run_C18 c) = [].
Proof. intros W. apply model_no_marks. apply wf_params. exact W. Qed.

(* suite C18huge: the model of the zero-sized branches meets its checker for every count *)
Lemma C18huge_model_ok_lemma : forall op k, ok_C18huge op k (run_C18huge op k) = true.
Proof.
  intros op k. unfold ok_C18huge, run_C18huge. destruct (op =? 10); rewrite ?N.eqb_refl; reflexivity.
Qed.

(* ------------------------------------------------------------------ suite C18arr: the ARRAY forms on zero-sized elements.
   The Dirty.v functions at element size 0 meet the checker for EVERY page size, region size, offset, element count
   (0 .. usize::MAX), index and buffer length: never a panic class, no byte written, no page marked, and Ok whenever the
   array exists at an offset inside the region (and, for copy_to_volatile_slice, the destination slice exists). *)
Lemma arr_region_clean ps size : Forall (fun b => b = false) (flat_map Dirty.r_dirty [arr_region ps size]).
Proof.
  cbn [flat_map arr_region Dirty.r_dirty]. rewrite app_nil_r. apply Forall_forall. intros b Hb.
  apply repeat_spec in Hb. exact Hb.
Qed.

Lemma mark_len0 ps d off v : Dirty.mark ps d off 0 v = d.
Proof. unfold Dirty.mark. rewrite N.eqb_refl. reflexivity. Qed.

Lemma arr_get ps size off n :
  Dirty.derive (Dirty.root (arr_region ps size)) (Dirty.DGetArr off 0 n) =
  if (ISZ_MAX <? n) then None else
  match checked_add off 0 with
  | None => None
  | Some e => if size <? e then None
              else Some {| Dirty.a_off := 0 + off; Dirty.a_len := 0; Dirty.a_bm := Dirty.bm_at 0 off; Dirty.a_kind := Dirty.KArr 0 n |}
  end.
Proof.
  unfold Dirty.derive; cbn [Dirty.a_kind Dirty.root]. rewrite N.mul_0_r.
  assert (Z0 : (ISZ_MAX <? 0) = false) by (apply N.ltb_ge; apply N.le_0_l). rewrite Z0, orb_false_r.
  destruct (ISZ_MAX <? n); [reflexivity|]. unfold Dirty.d_sub; cbn [Dirty.a_len Dirty.a_off Dirty.a_bm Dirty.root arr_region Dirty.r_size].
  reflexivity.
Qed.

Lemma checked_add_0_r off : off < W64 -> checked_add off 0 = Some off.
Proof.
  intros H. unfold checked_add. rewrite N.add_0_r. destruct (N.ltb_spec off W64) as [L|L]; [reflexivity|lia].
Qed.

Lemma apply_eff_len0 ps size e : Dirty.e_mlen e = 0 -> Dirty.apply_eff [arr_region ps size] e = [arr_region ps size].
Proof.
  intros H. unfold Dirty.apply_eff. destruct (Dirty.e_r e) as [|j]; cbn [Dirty.upd_nth]; [|reflexivity].
  cbn [Dirty.r_tracked arr_region]. rewrite H, mark_len0. reflexivity.
Qed.

Lemma arr_dirty_clean ps size : dirty_idx [arr_region ps size] = [].
Proof. unfold dirty_idx. apply true_from_false. apply arr_region_clean. Qed.

Lemma ok_arr_err size off n op i k :
  ((off <? size) && (n <=? ISZ_MAX) && (if op =? 0 then i + k <=? size else true)) = false ->
  ok_C18arr size off n op i k 1 [] [] = true.
Proof. intros H. unfold ok_C18arr. rewrite H. reflexivity. Qed.
Lemma ok_arr_ok size off n op i k : ok_C18arr size off n op i k 0 [] [] = true.
Proof.
  unfold ok_C18arr.
  destruct ((off <? size) && (n <=? ISZ_MAX) && (if op =? 0 then i + k <=? size else true)); reflexivity.
Qed.

Lemma arr_refused ps size off n op i k : op <= 6 ->
  Dirty.derive (Dirty.root (arr_region ps size)) (Dirty.DGetArr off 0 n) = None ->
  run_C18arr ps size off n op i k = (1, 0, [], []).
Proof.
  intros Hop G. pose proof (arr_dirty_clean ps size) as Hclean. unfold run_C18arr, arr_step, arr_len_chain.
  assert (Hop' : op = 0 \/ op = 1 \/ op = 2 \/ op = 3 \/ op = 4 \/ op = 5 \/ op = 6) by lia.
  destruct Hop' as [->|[->|[->|[->|[->|[->| ->]]]]]].
  - cbn [Dirty.run_step]. unfold Dirty.run_copy. cbn [nth_error Dirty.derive_chain]. rewrite G.
    cbn [Dirty.o_ok Dirty.o_count Dirty.o_effs Dirty.fail Dirty.apply_effs fold_left flat_map]. rewrite Hclean. reflexivity.
  - cbn [Dirty.run_step nth_error Dirty.derive_chain]. rewrite G.
    cbn [Dirty.o_ok Dirty.o_count Dirty.o_effs Dirty.fail flat_map]. rewrite Hclean. reflexivity.
  - cbn [Dirty.run_step nth_error Dirty.derive_chain]. rewrite G.
    cbn [Dirty.o_ok Dirty.o_count Dirty.o_effs Dirty.fail flat_map]. rewrite Hclean. reflexivity.
  - cbn [Dirty.run_step nth_error Dirty.derive_chain]. rewrite G.
    cbn [Dirty.o_ok Dirty.o_count Dirty.o_effs Dirty.fail flat_map]. rewrite Hclean. reflexivity.
  - cbn [Dirty.run_step nth_error Dirty.derive_chain]. rewrite G.
    cbn [Dirty.o_ok Dirty.o_count Dirty.o_effs Dirty.fail flat_map]. rewrite Hclean. reflexivity.
  - change (5 =? 5) with true. cbn [Dirty.derive_chain]. rewrite G. rewrite Hclean. reflexivity.
  - change (6 =? 5) with false. cbn [Dirty.derive_chain]. rewrite G. rewrite Hclean. reflexivity.
Qed.

Lemma C18arr_model_ok_lemma : forall ps size off n zsel op i k,
  wf_C18arr ps size off n zsel op i k = true ->
  let '(cl, cnt, ch, d) := run_C18arr ps size off n op i k in ok_C18arr size off n op i k cl ch d = true.
Proof.
  intros ps size off n zsel op i k Hwf. unfold wf_C18arr in Hwf.
  repeat (apply andb_true_iff in Hwf; destruct Hwf as [Hwf ?]).
  match goal with H : (if (op =? 1) || (op =? 2) then _ else _) = true |- _ => clear H end.
  match goal with H : (if (3 <=? op) && (op <=? 5) then _ else _) = true |- _ => rename H into Hi end.
  assert (Hoff : off < W64) by (apply N.ltb_lt; assumption).
  assert (Hsz : size <= 1048576) by (apply N.leb_le; assumption).
  assert (Hop : op <= 6) by (apply N.leb_le; assumption).
  pose proof (arr_dirty_clean ps size) as Hclean.
  (* the array itself *)
  pose proof (arr_get ps size off n) as G. rewrite (checked_add_0_r off Hoff) in G.
  destruct (N.ltb_spec ISZ_MAX n) as [Hn|Hn].
  { (* TooBig: every form is refused *)
    rewrite (arr_refused ps size off n op i k Hop G). apply ok_arr_err.
    assert (E : (n <=? ISZ_MAX) = false) by (apply N.leb_gt; exact Hn). rewrite E, andb_false_r. reflexivity. }
  destruct (N.ltb_spec size off) as [Ho|Ho].
  { rewrite (arr_refused ps size off n op i k Hop G). apply ok_arr_err.
    assert (E : (off <? size) = false) by (apply N.ltb_ge; lia). rewrite E. reflexivity. }
  unfold run_C18arr.
  (* the array exists: a zero-byte accessor at [off] *)
  set (a := {| Dirty.a_off := 0 + off; Dirty.a_len := 0; Dirty.a_bm := Dirty.bm_at 0 off; Dirty.a_kind := Dirty.KArr 0 n |}) in G.
  unfold arr_step, arr_len_chain.
  assert (Hop' : op = 0 \/ op = 1 \/ op = 2 \/ op = 3 \/ op = 4 \/ op = 5 \/ op = 6) by lia.
  destruct Hop' as [->|[->|[->|[->|[->|[->| ->]]]]]];
    try change (5 =? 5) with true; try change (6 =? 5) with false;
    cbn [Dirty.run_step nth_error Dirty.derive_chain]; try unfold Dirty.run_copy; cbn [nth_error Dirty.derive_chain];
    rewrite G.
  - (* copy_to_volatile_slice *)
    destruct (Dirty.d_sub (Dirty.root (arr_region ps size)) i k Dirty.KSlice) as [d|] eqn:D.
    + cbn [Dirty.a_kind a Dirty.a_len Dirty.a_off]. unfold Dirty.ranges_overlap. cbn [N.ltb N.compare andb].
      rewrite andb_false_r. cbn [Dirty.o_ok Dirty.o_count Dirty.o_effs Dirty.done Dirty.apply_effs fold_left flat_map Dirty.weff Dirty.e_wn].
      rewrite N.min_0_l. cbn [N.ltb N.compare app].
      rewrite apply_eff_len0 by reflexivity. rewrite Hclean. apply ok_arr_ok.
    + cbn [Dirty.o_ok Dirty.o_count Dirty.o_effs Dirty.fail Dirty.apply_effs fold_left flat_map]. rewrite Hclean.
      apply ok_arr_err. cbn [N.eqb].
      unfold Dirty.d_sub in D. cbn [Dirty.a_len Dirty.root arr_region Dirty.r_size] in D.
      destruct (N.leb_spec (i + k) size) as [L|L]; [|rewrite andb_false_r; reflexivity].
      exfalso. unfold checked_add in D. destruct (N.ltb_spec (i + k) W64) as [L2|L2]; [|rewrite W64_val in L2; lia].
      destruct (N.ltb_spec size (i + k)); [lia|discriminate].
  - (* copy_to *)
    unfold Dirty.run_sop; cbn [Dirty.a_kind a]; change (0 =? 1) with false; cbv beta iota. cbn [Dirty.o_ok Dirty.o_count Dirty.o_effs Dirty.done Dirty.apply_effs fold_left flat_map].
    rewrite Hclean. apply ok_arr_ok.
  - (* copy_from *)
    unfold Dirty.run_sop; cbn [Dirty.a_kind a]; change (0 =? 1) with false; cbv beta iota. cbn [Dirty.o_ok Dirty.o_count Dirty.o_effs Dirty.done Dirty.apply_effs fold_left flat_map Dirty.weff Dirty.e_wn].
    rewrite N.mul_0_r. cbn [N.ltb N.compare app]. rewrite apply_eff_len0 by (cbn [Dirty.e_mlen]; reflexivity).
    rewrite Hclean. apply ok_arr_ok.
  - (* store *)
    change ((i <? n) = true) in Hi. unfold Dirty.run_sop; cbn [Dirty.a_kind a]. rewrite Hi.
    cbn [Dirty.o_ok Dirty.o_count Dirty.o_effs Dirty.done Dirty.apply_effs fold_left flat_map Dirty.e_wn N.ltb N.compare app].
    rewrite apply_eff_len0 by reflexivity. rewrite Hclean. apply ok_arr_ok.
  - (* load *)
    change ((i <? n) = true) in Hi. unfold Dirty.run_sop; cbn [Dirty.a_kind a]. rewrite Hi.
    cbn [Dirty.o_ok Dirty.o_count Dirty.o_effs Dirty.done Dirty.apply_effs fold_left flat_map].
    rewrite Hclean. apply ok_arr_ok.
  - (* ref_at(i).to_slice() *)
    change ((i <? n) = true) in Hi. unfold Dirty.derive at 1. cbn [Dirty.a_kind a]. rewrite Hi.
    cbn [Dirty.derive Dirty.a_kind]. rewrite Hclean. apply ok_arr_ok.
  - (* to_slice() *)
    cbn [Dirty.derive Dirty.a_kind a]. rewrite Hclean. apply ok_arr_ok.
Qed.
