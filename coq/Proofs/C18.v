(* C18 - lemmas (all proofs of the property package live here). *)
From VM Require Import Prelude.MachInt Prelude.Outcome Prelude.Tok Prelude.C1314List Spec.C18 Suite.C18.
From VM Require Impl.VolMem Impl.Guest Impl.Dirty Impl.Io Impl.IoGuest.

Lemma vs_write_empty hb h s addr : VolMem.vs_write hb h s [] addr = (h, VolMem.Ok 0).
Proof. reflexivity. Qed.
