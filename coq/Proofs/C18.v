(* C18 - lemmas (all proofs of the property package live here).
   Sections: VolMem at zero length; ZST / empty-array copies; stream adapters and stream forms at
   count 0 (slice, region, guest); Guest.v empty-buffer forms; Dirty.v effects of zero-length
   operations; the composed model run_C18 against ok_C18. *)
From VM Require Import Prelude.MachInt Prelude.Outcome Prelude.Tok Prelude.C1314List Spec.C18 Suite.C18.
From VM Require Impl.VolMem Impl.Guest Impl.Dirty Impl.Io Impl.IoGuest.
From VM Require Proofs.C04.


(* ---------- VolMem at zero *)
Lemma takeN_dropN h : forall a, VolMem.takeN a h ++ VolMem.dropN a h = h.
Proof. intros a. rewrite C04.takeN_firstn, C04.dropN_skipn. apply firstn_skipn. Qed.
Lemma h_write_nil h a : VolMem.h_write h a [] = h.
Proof. unfold VolMem.h_write. cbn [app VolMem.len length N.of_nat]. rewrite N.add_0_r. apply takeN_dropN. Qed.
Lemma takeN_0 l : VolMem.takeN 0 l = [].
Proof. destruct l; reflexivity. Qed.
Lemma dropN_0 l : VolMem.dropN 0 l = l.
Proof. destruct l; reflexivity. Qed.
Lemma h_read_0 h a : VolMem.h_read h a 0 = [].
Proof. unfold VolMem.h_read. apply takeN_0. Qed.

Lemma vs_write_empty hb h s addr : VolMem.vs_write hb h s [] addr = (h, VolMem.Ok 0).
Proof. reflexivity. Qed.
Lemma vs_read_empty hb h s addr : VolMem.vs_read hb h s [] addr = ([], VolMem.Ok 0).
Proof. reflexivity. Qed.
Lemma vs_write_slice_empty hb h s addr : VolMem.vs_write_slice hb h s [] addr = (h, VolMem.Ok tt).
Proof. reflexivity. Qed.
Lemma vs_read_slice_empty hb h s addr : VolMem.vs_read_slice hb h s [] addr = ([], VolMem.Ok tt).
Proof. reflexivity. Qed.
Lemma as_slice_zst t v : VolMem.ty_size t = 0 -> VolMem.as_slice t v = [].
Proof. intros H. unfold VolMem.as_slice. rewrite H. cbn. destruct (VolMem.ty_be t); reflexivity. Qed.
Lemma vs_write_obj_zst hb h s t v addr : VolMem.ty_size t = 0 -> VolMem.vs_write_obj hb h s t v addr = (h, VolMem.Ok tt).
Proof. intros H. unfold VolMem.vs_write_obj. rewrite as_slice_zst by exact H. reflexivity. Qed.
Lemma vs_read_obj_zst hb h s t addr : VolMem.ty_size t = 0 -> VolMem.vs_read_obj hb h s t addr = VolMem.Ok 0.
Proof. intros H. unfold VolMem.vs_read_obj. rewrite H. cbn. unfold VolMem.from_bytes. destruct (VolMem.ty_be t); reflexivity. Qed.


Lemma vs_copy_to_zst m h s t buf : VolMem.ty_size t = 0 -> VolMem.vs_copy_to m h s t buf = Val (buf, VolMem.len buf).
Proof. intros H. unfold VolMem.vs_copy_to. rewrite H. reflexivity. Qed.
Lemma vs_copy_from_zst m h s t buf : VolMem.ty_size t = 0 -> VolMem.vs_copy_from m h s t buf = Val h.
Proof. intros H. unfold VolMem.vs_copy_from. rewrite H. reflexivity. Qed.

Lemma from_bytes_nil t : VolMem.from_bytes t [] = 0.
Proof. unfold VolMem.from_bytes. destruct (VolMem.ty_be t); reflexivity. Qed.
Lemma va_write_loop_zst t : VolMem.ty_size t = 0 -> forall vals h p, VolMem.va_write_loop h t p vals = h.
Proof.
  intros H vals. induction vals as [|v r IH]; intros h p; cbn [VolMem.va_write_loop]; [reflexivity|].
  rewrite as_slice_zst by exact H. rewrite h_write_nil. apply IH.
Qed.
Lemma pmul_zero_r m s a : pmul m s a 0 = Val 0.
Proof. unfold pmul. rewrite N.mul_0_r. reflexivity. Qed.
Lemma pmul_zero_l m s a : pmul m s 0 a = Val 0.
Proof. unfold pmul. rewrite N.mul_0_l. reflexivity. Qed.

(* element copies of an array of zero-sized elements: no panic, heap untouched; copy_to reports
   min(buffer length, array length) elements *)
Lemma va_copy_from_zst m h a t buf : VolMem.ty_size t = 0 -> VolMem.va_copy_from m h a t buf = Val h.
Proof.
  intros H. unfold VolMem.va_copy_from. rewrite H. cbn [N.eqb]. replace (0 =? 1) with false by reflexivity.
  rewrite pmul_zero_r. cbn [bind]. rewrite va_write_loop_zst by exact H. reflexivity.
Qed.
Lemma va_copy_to_zst m h a t buf : VolMem.ty_size t = 0 ->
  exists b', VolMem.va_copy_to m h a t buf = Val (b', N.min (VolMem.len buf) (VolMem.va_nelem a)).
Proof.
  intros H. unfold VolMem.va_copy_to. rewrite H. replace (0 =? 1) with false by reflexivity.
  rewrite pmul_zero_r. cbn [bind]. eexists. reflexivity.
Qed.
(* arrays of n = 0 elements of any size *)
Lemma va_copy_from_n0 m h p t buf : VolMem.va_copy_from m h {| VolMem.va_addr := p; VolMem.va_nelem := 0 |} t buf = Val h.
Proof.
  unfold VolMem.va_copy_from. cbn [VolMem.va_nelem VolMem.va_addr].
  destruct (VolMem.ty_size t =? 1).
  - unfold VolMem.va_to_slice. cbn [VolMem.va_nelem VolMem.va_addr]. rewrite pmul_zero_l. cbn [bind VolMem.vs_size].
    rewrite N.min_0_r. unfold VolMem.copy_to_volatile_slice. cbn [fst VolMem.vs_addr]. rewrite takeN_0, h_write_nil. reflexivity.
  - rewrite pmul_zero_l. cbn [bind]. rewrite takeN_0. reflexivity.
Qed.
Lemma va_copy_to_n0 m h p t buf : VolMem.va_copy_to m h {| VolMem.va_addr := p; VolMem.va_nelem := 0 |} t buf = Val (buf, 0).
Proof.
  unfold VolMem.va_copy_to. cbn [VolMem.va_nelem VolMem.va_addr].
  destruct (VolMem.ty_size t =? 1).
  - unfold VolMem.va_to_slice. cbn [VolMem.va_nelem VolMem.va_addr]. rewrite pmul_zero_l. cbn [bind VolMem.vs_size].
    rewrite N.min_0_r. unfold VolMem.copy_from_volatile_slice. rewrite h_read_0, dropN_0. reflexivity.
  - rewrite pmul_zero_l. cbn [bind]. rewrite N.min_0_r. cbn [N.to_nat VolMem.va_read_loop app]. rewrite dropN_0. reflexivity.
Qed.
Lemma vr_store_zst h a t v : VolMem.ty_size t = 0 -> VolMem.vr_store h a t v = h.
Proof. intros H. unfold VolMem.vr_store. rewrite as_slice_zst by exact H. apply h_write_nil. Qed.
Lemma vs_copy_vs_empty h s d : VolMem.vs_size s = 0 \/ VolMem.vs_size d = 0 -> VolMem.vs_copy_to_volatile_slice h s d = h.
Proof.
  intros H. unfold VolMem.vs_copy_to_volatile_slice.
  replace (N.min (VolMem.vs_size s) (VolMem.vs_size d)) with 0 by (destruct H as [H|H]; rewrite H; lia).
  rewrite h_read_0. apply h_write_nil.
Qed.
(* geometry *)
Lemma get_slice_cases (s : VolMem.vslice) off cnt : off + cnt < W64 ->
  VolMem.vs_get_slice s off cnt =
    if VolMem.vs_size s <? off + cnt then VolMem.Err VolMem.EOutOfBounds
    else VolMem.Ok {| VolMem.vs_addr := VolMem.vs_addr s + off; VolMem.vs_size := cnt |}.
Proof.
  intros H. unfold VolMem.vs_get_slice, VolMem.vs_subslice, VolMem.compute_end_offset, VolMem.compute_offset, checked_add.
  destruct (N.ltb_spec (off + cnt) W64); [|lia]. destruct (VolMem.vs_size s <? off + cnt); reflexivity.
Qed.
Lemma get_ref_zero (s : VolMem.vslice) : VolMem.vs_get_ref s 0 0 = Val (VolMem.Ok (VolMem.vs_addr s + 0)).
Proof.
  unfold VolMem.vs_get_ref. rewrite get_slice_cases by (rewrite W64_val; lia).
  replace (VolMem.vs_size s <? 0 + 0) with false by (symmetry; apply N.ltb_ge; lia). reflexivity.
Qed.
Lemma get_array_ref_zero (s : VolMem.vslice) esz n : VolMem.vs_size s = n * esz -> n <= 64 -> esz <= 8 ->
  VolMem.vs_get_array_ref s esz 0 n = Val (VolMem.Ok {| VolMem.va_addr := VolMem.vs_addr s + 0; VolMem.va_nelem := n |}).
Proof.
  intros Hs Hn He. unfold VolMem.vs_get_array_ref.
  assert (Hm : n * esz <= 512) by nia.
  destruct (N.leb_spec n ISZ_MAX) as [_|Hx]; [|unfold ISZ_MAX in Hx; lia].
  destruct (N.leb_spec (n * esz) ISZ_MAX) as [_|Hx]; [|unfold ISZ_MAX in Hx; lia].
  rewrite get_slice_cases by (rewrite W64_val; lia). rewrite N.add_0_l, Hs, N.ltb_irrefl.
  cbn [bind passert VolMem.vs_size]. rewrite N.eqb_refl. reflexivity.
Qed.


Lemma mem_write_nil m off : mem_write m off [] = m.
Proof. unfold mem_write. rewrite nlen_nil, N.add_0_r. cbn [app]. apply ntake_ndrop. Qed.
Lemma set_pos_same st : Io.set_pos st (Io.s_pos st + 0) = st.
Proof. destruct st. unfold Io.set_pos. cbn. rewrite N.add_0_r. reflexivity. Qed.

(* a stream's position and length are u64 / usize values *)
Definition st_wf (st : Io.sstate) : Prop := Io.s_pos st < W64 /\ nlen (Io.s_data st) < W64.

Lemma padd_zero md s a : a < W64 -> padd md s a 0 = Val a.
Proof. intros H. rewrite <- (N.add_0_r a) at 2. apply padd_Val. lia. Qed.

Section Calls.
Variables (md : mode) (st : Io.sstate) (m : list N) (v : Io.vslice).
Hypothesis Hv : Io.vs_len v = 0.
Hypothesis Hst : st_wf st.

Lemma slice_read_zero : Io.slice_read_volatile st m v = Val ((st, m), Io.Ok 0).
Proof.
  unfold Io.slice_read_volatile. rewrite Hv. rewrite N.min_0_l. unfold Io.copy_to_volatile_slice.
  rewrite ntake_0, mem_write_nil. cbn [passert bind]. replace (0 <=? nlen (Io.slice_rem st)) with true by (symmetry; apply N.leb_le; lia).
  cbn [bind]. rewrite set_pos_same. reflexivity.
Qed.
Lemma cursor_read_zero : Io.cursor_read_volatile md st m v = Val ((st, m), Io.Ok 0).
Proof.
  unfold Io.cursor_read_volatile.
  replace (N.min (Io.s_pos st) (nlen (Io.s_data st)) <=? nlen (Io.s_data st)) with true by (symmetry; apply N.leb_le; lia).
  cbn [passert bind].
  set (st' := {| Io.s_data := _; Io.s_pos := 0; Io.s_out := [] |}).
  assert (E : Io.slice_read_volatile st' m v = Val ((st', m), Io.Ok 0)).
  { unfold Io.slice_read_volatile. rewrite Hv, N.min_0_l. unfold Io.copy_to_volatile_slice.
    rewrite ntake_0, mem_write_nil. replace (0 <=? nlen (Io.slice_rem st')) with true by (symmetry; apply N.leb_le; lia).
    cbn [passert bind]. rewrite set_pos_same. reflexivity. }
  rewrite E. cbn [bind]. rewrite padd_zero by apply Hst. cbn [bind].
  replace (Io.set_pos st (Io.s_pos st)) with st by (destruct st; reflexivity). reflexivity.
Qed.
Lemma fd_read_zero : Io.read_volatile_raw_fd Io.file_read st m v = Val ((st, m), Io.Ok 0).
Proof.
  unfold Io.read_volatile_raw_fd, Io.file_read. rewrite Hv, ntake_0, nlen_nil, mem_write_nil, set_pos_same. reflexivity.
Qed.
Lemma mslice_write_zero : Io.mslice_write_volatile st m v = Val ((st, m), Io.Ok 0).
Proof.
  unfold Io.mslice_write_volatile. rewrite Hv, N.min_0_l. unfold Io.copy_from_volatile_slice, mem_read. rewrite ntake_0.
  replace (0 <=? nlen (Io.slice_rem st)) with true by (symmetry; apply N.leb_le; lia). cbn [passert bind].
  rewrite mem_write_nil, N.add_0_r. destruct st; reflexivity.
Qed.
Lemma vec_write_zero : Io.vec_write_volatile md st m v = Val ((st, m), Io.Ok 0).
Proof.
  unfold Io.vec_write_volatile. rewrite Hv. unfold Io.copy_from_volatile_slice, mem_read. rewrite ntake_0.
  rewrite N.eqb_refl. cbn [passert bind]. rewrite padd_zero by apply Hst. cbn [bind]. rewrite app_nil_r.
  destruct st; reflexivity.
Qed.
Lemma fd_write_zero : Io.write_volatile_raw_fd Io.file_write st m v = Val ((st, m), Io.Ok 0).
Proof.
  unfold Io.write_volatile_raw_fd, Io.file_write, mem_read. rewrite Hv, ntake_0, nlen_nil. reflexivity.
Qed.
End Calls.

Lemma call_zero (rd : bool) md sk st m v : Io.vs_len v = 0 -> st_wf st ->
  (if rd then rcall md sk else wcall md sk) st m v = Val ((st, m), Io.Ok 0).
Proof.
  intros Hv Hst. destruct rd; unfold rcall, wcall.
  - destruct sk as [|[p|p|]]; auto using slice_read_zero, cursor_read_zero, fd_read_zero.
  - destruct sk as [|[p|p|]]; auto using mslice_write_zero, vec_write_zero, fd_write_zero.
Qed.

(* stream forms on a slice: count 0 at any offset <= len is Ok(0) / Ok(()), stream and memory untouched *)
Lemma s_upto_zero rd md sk self addr st m : st_wf st -> addr <= Io.vs_len self -> Io.vs_addr self + addr < W64 ->
  s_upto rd md sk self addr st m 0 = Val ((st, m), Io.Ok 0).
Proof.
  intros Hst Ha Ho. unfold s_upto, IoGuest.vs_upto, Io.vs_offset, checked_add, checked_sub.
  destruct (N.ltb_spec (Io.vs_addr self + addr) W64); [|lia].
  destruct (N.leb_spec addr (Io.vs_len self)); [|lia].
  unfold Io.vs_subslice, checked_add. cbn [Io.vs_len Io.vs_addr Io.vs_off]. rewrite N.min_0_r.
  replace (0 + 0 <? W64) with true by reflexivity.
  replace (Io.vs_len self - addr <? 0 + 0) with false by (symmetry; apply N.ltb_ge; lia).
  unfold FUEL. cbn [Io.retry_eintr]. rewrite call_zero by (auto; reflexivity). reflexivity.
Qed.
(* ... and beyond the end it is an error (characterisation, not judged by the property) *)
Lemma s_upto_beyond rd md sk self addr st m : Io.vs_len self < addr ->
  exists e, s_upto rd md sk self addr st m 0 = Val ((st, m), Io.Err e).
Proof.
  intros Ha. unfold s_upto, IoGuest.vs_upto, Io.vs_offset, checked_add, checked_sub.
  destruct (Io.vs_addr self + addr <? W64); [|eexists; reflexivity].
  destruct (N.leb_spec addr (Io.vs_len self)); [lia|]. eexists; reflexivity.
Qed.

Lemma exact_zero (rd : bool) md sk st m sl : Io.vs_len sl = 0 -> Io.vs_addr sl < W64 -> st_wf st ->
  (if rd then rexact md sk st m sl else wexact md sk st m sl) = Val ((st, m), Io.Ok tt).
Proof.
  intros Hv Ho Hst.
  assert (D : forall ze call, Io.exact_volatile ze FUEL call st m sl = Val ((st, m), Io.Ok tt)).
  { intros ze call. unfold Io.exact_volatile, Io.vs_offset, checked_add, checked_sub. rewrite N.add_0_r.
    destruct (N.ltb_spec (Io.vs_addr sl) W64); [|lia]. replace (0 <=? Io.vs_len sl) with true by (symmetry; apply N.leb_le; lia).
    unfold FUEL. cbn [Io.exact_loop Io.vs_len]. rewrite N.sub_0_r, Hv. reflexivity. }
  destruct rd; unfold rexact, wexact.
  - destruct sk as [|[p|p|]]; try apply D.
    + unfold Io.slice_read_exact_volatile. rewrite Hv.
      replace (nlen (Io.slice_rem st) <? 0) with false by (symmetry; apply N.ltb_ge; lia).
      rewrite slice_read_zero by auto. reflexivity.
    + unfold Io.cursor_read_exact_volatile.
      replace (N.min (Io.s_pos st) (nlen (Io.s_data st)) <=? nlen (Io.s_data st)) with true by (symmetry; apply N.leb_le; lia).
      cbn [passert bind]. unfold Io.slice_read_exact_volatile. rewrite Hv.
      match goal with |- context [nlen (Io.slice_rem ?s) <? 0] =>
        replace (nlen (Io.slice_rem s) <? 0) with false by (symmetry; apply N.ltb_ge; lia) end.
      match goal with |- context [Io.slice_read_volatile ?s m sl] =>
        assert (E : Io.slice_read_volatile s m sl = Val ((s, m), Io.Ok 0)) end.
      { apply slice_read_zero; exact Hv. }
      rewrite E. cbn [bind]. rewrite padd_zero by apply Hst. cbn [bind].
      replace (Io.set_pos st (Io.s_pos st)) with st by (destruct st; reflexivity). reflexivity.
  - destruct sk as [|[p|p|]]; try apply D.
    unfold Io.mslice_write_all_volatile. rewrite mslice_write_zero by auto. cbn [bind]. rewrite Hv. reflexivity.
Qed.
Lemma s_exact_zero rd md sk self addr st m : st_wf st -> addr <= Io.vs_len self -> Io.vs_addr self + addr < W64 ->
  s_exact rd md sk self addr st m 0 = Val ((st, m), Io.Ok tt).
Proof.
  intros Hst Ha Ho. unfold s_exact, Io.vs_subslice, checked_add. rewrite N.add_0_r.
  destruct (N.ltb_spec addr W64); [|lia].
  destruct (N.ltb_spec (Io.vs_len self) addr); [lia|].
  apply exact_zero; auto.
Qed.
Lemma s_exact_beyond rd md sk self addr st m : Io.vs_len self < addr ->
  exists e, s_exact rd md sk self addr st m 0 = Val ((st, m), Io.Err e).
Proof.
  intros Ha. unfold s_exact, Io.vs_subslice, checked_add. rewrite N.add_0_r.
  destruct (addr <? W64); [|eexists; reflexivity].
  destruct (N.ltb_spec (Io.vs_len self) addr); [|lia]. eexists; reflexivity.
Qed.


(* ---------- guest level streams *)
Definition host_ok (r : IoGuest.region) : Prop := IoGuest.HBASE + IoGuest.g_moff r + IoGuest.g_len r < W64.

Lemma to_region_addr_contains r a : IoGuest.contains r a = true ->
  IoGuest.to_region_addr r a = Some (a - IoGuest.g_start r) /\ a - IoGuest.g_start r < IoGuest.g_len r.
Proof.
  unfold IoGuest.contains, IoGuest.to_region_addr, checked_sub. intros H. apply andb_true_iff in H. destruct H as [H1 H2].
  rewrite H1, H2. split; [reflexivity|]. apply N.ltb_lt. exact H2.
Qed.

Lemma g_upto_zero (rd : bool) md sk L addr st m :
  st_wf st -> Forall host_ok L ->
  g_upto rd md sk L addr st m 0 =
    match IoGuest.find_region L addr with
    | Some _ => Val ((st, m), IoGuest.GOk 0)
    | None => Val ((st, m), IoGuest.GErr IoGuest.GInvalidGuestAddress) end.
Proof.
  intros Hst HL. unfold g_upto. cbn [IoGuest.try_access].
  destruct (IoGuest.find_region L addr) as [r|] eqn:F; [|reflexivity].
  unfold IoGuest.find_region in F. apply find_some in F. destruct F as [Hin Hc].
  destruct (to_region_addr_contains r addr Hc) as [E Hlt]. rewrite E.
  rewrite psub_Val by lia. cbn [bind]. rewrite psub_Val by lia. cbn [bind]. rewrite N.sub_0_r, N.min_0_r.
  rewrite Forall_forall in HL. specialize (HL r Hin). unfold host_ok in HL.
  destruct rd.
  - rewrite s_upto_zero; [|exact Hst| cbn [IoGuest.region_slice Io.vs_len]; lia | cbn [IoGuest.region_slice Io.vs_addr]; lia].
    reflexivity.
  - rewrite s_exact_zero; [|exact Hst| cbn [IoGuest.region_slice Io.vs_len]; lia | cbn [IoGuest.region_slice Io.vs_addr]; lia].
    reflexivity.
Qed.

(* ---------- Guest.v at zero: for EVERY find_region implementation, layout and address *)
Section G.
Variable find : Guest.layout -> N -> option nat.
Variable md : mode.
Lemma gm_write_empty M a : Guest.gm_write find md M [] a = Val (M, inl 0).
Proof. reflexivity. Qed.
Lemma gm_read_empty M a : Guest.gm_read find md M [] a = Val ([], inl 0).
Proof. reflexivity. Qed.
Lemma gm_write_slice_empty M a : Guest.gm_write_slice find md M [] a = Val (M, inl tt).
Proof. reflexivity. Qed.
Lemma gm_read_slice_empty M a : Guest.gm_read_slice find md M [] a = Val ([], inl tt).
Proof. reflexivity. Qed.
Lemma gm_write_obj_empty M a : Guest.gm_write_obj find md M [] a = Val (M, inl tt).
Proof. reflexivity. Qed.
Lemma gm_read_obj_zst M a : Guest.gm_read_obj find md M 0 a = Val (inl []).
Proof. reflexivity. Qed.
End G.
Lemma reg_write_empty r off : Guest.reg_write r [] off = (r, inl 0).
Proof. reflexivity. Qed.
Lemma reg_read_empty r off : Guest.reg_read r 0 off = inl [].
Proof. reflexivity. Qed.

(* ---------- Dirty.v: zero-length operations produce no effect or effects of mark length 0 *)
Definition mlen0 (e : Dirty.eff) : Prop := Dirty.e_mlen e = 0 /\ Dirty.e_wn e = 0.

Lemma mark_zero ps d off v : Dirty.mark ps d off 0 v = d.
Proof. reflexivity. Qed.
Lemma upd_nth_id {A} (f : A -> A) : (forall x, f x = x) -> forall l i, Dirty.upd_nth l i f = l.
Proof.
  intros Hf l. induction l as [|x t IH]; intros [|j]; cbn [Dirty.upd_nth]; try reflexivity.
  - rewrite Hf. reflexivity.
  - rewrite IH. reflexivity.
Qed.
Lemma apply_eff_zero rs e : Dirty.e_mlen e = 0 -> Dirty.apply_eff rs e = rs.
Proof.
  intros H. unfold Dirty.apply_eff. apply upd_nth_id. intros r. rewrite H, mark_zero.
  destruct r as [a b c [|] d]; reflexivity.
Qed.
Lemma apply_effs_zero es : Forall mlen0 es -> forall rs, Dirty.apply_effs rs es = rs.
Proof.
  unfold Dirty.apply_effs. induction 1 as [|e es He _ IH]; intros rs; cbn [fold_left]; [reflexivity|].
  rewrite apply_eff_zero by apply He. apply IH.
Qed.

Lemma weff_zero ri a rel : mlen0 (Dirty.weff ri a rel 0).
Proof. split; reflexivity. Qed.

(* the slice-level operations of the property, on ANY slice accessor *)
Inductive zero_sop : Dirty.sop -> Prop :=
| Z_write a : zero_sop (Dirty.OWrite 0 a) | Z_write_slice a : zero_sop (Dirty.OWriteSlice 0 a)
| Z_read a : zero_sop (Dirty.ORead 0 a) | Z_read_slice a : zero_sop (Dirty.OReadSlice 0 a)
| Z_copy_from k : zero_sop (Dirty.OCopyFrom 0 k) | Z_copy_to k : zero_sop (Dirty.OCopyTo 0 k)
| Z_read_from a k : zero_sop (Dirty.OReadFrom 0 a k) | Z_read_exact a k : zero_sop (Dirty.OReadExactFrom 0 a k)
| Z_read_fd a k : zero_sop (Dirty.OReadFromFd 0 a k false)
| Z_write_to a : zero_sop (Dirty.OWriteTo 0 a) | Z_write_all a : zero_sop (Dirty.OWriteAllTo 0 a).

Lemma sop_zero ri hm a o : Dirty.a_kind a = Dirty.KSlice -> zero_sop o ->
  Forall mlen0 (Dirty.o_effs (Dirty.run_sop ri hm a o)).
Proof.
  intros K Z. unfold Dirty.run_sop. rewrite K. destruct Z; cbn [N.eqb]; try (constructor; fail).
  - destruct (checked_sub (Dirty.a_len a) a0); cbn; [|constructor].
    rewrite N.min_0_r, N.min_0_l. repeat constructor.
  - destruct (checked_add a0 0); cbn; [|constructor].
    destruct (Dirty.a_len a <? n); cbn; [constructor|].
    replace (k <? 0) with false by (symmetry; apply N.ltb_ge; lia). repeat constructor.
  - destruct (checked_sub (Dirty.a_len a) a0); cbn; [|constructor].
    rewrite N.min_0_r, N.min_0_l. repeat constructor.
  - destruct (checked_sub (Dirty.a_len a) a0); cbn; constructor.
  - destruct (checked_add a0 0); cbn; [|constructor]. destruct (Dirty.a_len a <? n); cbn; constructor.
Qed.
(* typed reference to a zero-sized object; arrays of zero-sized elements or of no elements *)
Lemma ref_zero ri hm a o : Dirty.a_kind a = Dirty.KRef -> Dirty.a_len a = 0 ->
  Forall mlen0 (Dirty.o_effs (Dirty.run_sop ri hm a o)).
Proof.
  intros K L. unfold Dirty.run_sop. rewrite K. destruct o; cbn; try constructor.
  - rewrite L. apply weff_zero. - constructor.
Qed.
Lemma arr_zero ri hm a esz n k (o : Dirty.sop) : Dirty.a_kind a = Dirty.KArr esz n -> Dirty.a_len a = n * esz ->
  esz = 0 \/ n = 0 -> o = Dirty.OArrCopyFrom k \/ o = Dirty.OArrCopyTo k ->
  Forall mlen0 (Dirty.o_effs (Dirty.run_sop ri hm a o)).
Proof.
  intros K L Z [O|O]; subst o; unfold Dirty.run_sop; rewrite K.
  - destruct (esz =? 1) eqn:E1.
    + apply N.eqb_eq in E1. destruct Z as [Z|Z]; [lia|]. subst. rewrite L. cbn. rewrite N.min_0_r. repeat constructor.
    + cbn. constructor; [|constructor]. destruct Z as [Z|Z]; subst.
      * rewrite N.mul_0_r. apply weff_zero.
      * rewrite N.min_0_r. rewrite N.mul_0_l. apply weff_zero.
  - destruct (esz =? 1); cbn; constructor.
Qed.
(* guest level *)
Lemma gop_zero hm rs a k (o : Dirty.gop) :
  o = Dirty.GWrite 0 a \/ o = Dirty.GWriteSlice 0 a \/ o = Dirty.GRead 0 a \/ o = Dirty.GReadFrom 0 a k ->
  Dirty.o_effs (Dirty.run_gop hm rs o) = [].
Proof.
  intros [O|[O|[O|O]]]; subst o; cbn; try reflexivity.
  rewrite N.min_0_l. destruct (Dirty.find_idx rs a 0); reflexivity.
Qed.

(* ------------------------------------------------------------------ packaged statements *)
Lemma zero_len_slice_lemma hb h s addr t v : VolMem.ty_size t = 0 ->
  VolMem.vs_write hb h s [] addr = (h, VolMem.Ok 0) /\
  VolMem.vs_read hb h s [] addr = ([], VolMem.Ok 0) /\
  VolMem.vs_write_slice hb h s [] addr = (h, VolMem.Ok tt) /\
  VolMem.vs_read_slice hb h s [] addr = ([], VolMem.Ok tt) /\
  VolMem.vs_write_obj hb h s t v addr = (h, VolMem.Ok tt) /\
  VolMem.vs_read_obj hb h s t addr = VolMem.Ok 0.
Proof.
  intros H. repeat split; auto using vs_write_empty, vs_read_empty, vs_write_slice_empty, vs_read_slice_empty,
    vs_write_obj_zst, vs_read_obj_zst.
Qed.
Lemma zero_len_slice_marks_lemma ri hm a addr rs : Dirty.a_kind a = Dirty.KSlice ->
  let effs o := Dirty.o_effs (Dirty.run_sop ri hm a o) in
  effs (Dirty.OWrite 0 addr) = [] /\ effs (Dirty.OWriteSlice 0 addr) = [] /\
  effs (Dirty.ORead 0 addr) = [] /\ effs (Dirty.OReadSlice 0 addr) = [] /\
  (forall o, zero_sop o -> Dirty.apply_effs rs (effs o) = rs).
Proof.
  intros K effs. unfold effs, Dirty.run_sop. rewrite K. repeat split; try reflexivity.
  intros o Z. apply apply_effs_zero. pose proof (sop_zero ri hm a o K Z) as F. unfold Dirty.run_sop in F. rewrite K in F. exact F.
Qed.
Lemma as_volatile_slice_ok r : VolMem.mr_size r < W64 ->
  VolMem.mr_as_volatile_slice r = Val {| VolMem.vs_addr := VolMem.mr_addr r + 0; VolMem.vs_size := VolMem.mr_size r |}.
Proof.
  intros H. unfold VolMem.mr_as_volatile_slice, VolMem.mr_get_slice, VolMem.compute_end_offset, VolMem.compute_offset, checked_add.
  rewrite N.add_0_l. destruct (N.ltb_spec (VolMem.mr_size r) W64); [|lia]. rewrite N.ltb_irrefl. reflexivity.
Qed.
(* region level: GuestRegionMmap's Bytes impl = the same calls on as_volatile_slice().unwrap(), errors mapped *)
Lemma zero_len_region_lemma hb h r addr t v : VolMem.mr_size r < W64 -> VolMem.ty_size t = 0 ->
  exists s, VolMem.mr_as_volatile_slice r = Val s /\ VolMem.vs_size s = VolMem.mr_size r /\
    VolMem.gm_res (snd (VolMem.vs_write hb h s [] addr)) = VolMem.Ok 0 /\ fst (VolMem.vs_write hb h s [] addr) = h /\
    VolMem.gm_res (snd (VolMem.vs_read hb h s [] addr)) = VolMem.Ok 0 /\
    VolMem.gm_res (snd (VolMem.vs_write_slice hb h s [] addr)) = VolMem.Ok tt /\ fst (VolMem.vs_write_slice hb h s [] addr) = h /\
    VolMem.gm_res (snd (VolMem.vs_read_slice hb h s [] addr)) = VolMem.Ok tt /\
    VolMem.gm_res (snd (VolMem.vs_write_obj hb h s t v addr)) = VolMem.Ok tt /\ fst (VolMem.vs_write_obj hb h s t v addr) = h /\
    VolMem.gm_res (VolMem.vs_read_obj hb h s t addr) = VolMem.Ok 0 /\
    (forall g off, Guest.reg_write g [] off = (g, inl 0) /\ Guest.reg_read g 0 off = inl []).
Proof.
  intros Hr Ht. eexists. split; [apply as_volatile_slice_ok; exact Hr|].
  rewrite vs_write_obj_zst, vs_read_obj_zst by exact Ht. cbn. repeat split; reflexivity.
Qed.
Lemma zero_len_guest_lemma find md M addr :
  Guest.gm_write find md M [] addr = Val (M, inl 0) /\
  Guest.gm_read find md M [] addr = Val ([], inl 0) /\
  Guest.gm_write_slice find md M [] addr = Val (M, inl tt) /\
  Guest.gm_read_slice find md M [] addr = Val ([], inl tt) /\
  Guest.gm_write_obj find md M [] addr = Val (M, inl tt) /\
  Guest.gm_read_obj find md M 0 addr = Val (inl []).
Proof. repeat split; reflexivity. Qed.
Lemma zero_len_guest_marks_lemma hm rs addr :
  Dirty.run_gop hm rs (Dirty.GWrite 0 addr) = Dirty.done 0 [] /\
  Dirty.run_gop hm rs (Dirty.GWriteSlice 0 addr) = Dirty.done 0 [] /\
  Dirty.run_gop hm rs (Dirty.GRead 0 addr) = Dirty.done 0 [].
Proof. repeat split; reflexivity. Qed.

Lemma zst_copy_noop_lemma m h t buf : VolMem.ty_size t = 0 ->
  (forall s, VolMem.vs_copy_to m h s t buf = Val (buf, VolMem.len buf) /\ VolMem.vs_copy_from m h s t buf = Val h) /\
  (forall a, (exists b', VolMem.va_copy_to m h a t buf = Val (b', N.min (VolMem.len buf) (VolMem.va_nelem a))) /\
             VolMem.va_copy_from m h a t buf = Val h) /\
  (forall a v, VolMem.vr_store h a t v = h).
Proof.
  intros H. repeat split; auto using vs_copy_to_zst, vs_copy_from_zst, va_copy_to_zst, va_copy_from_zst, vr_store_zst.
Qed.
Lemma empty_array_copy_noop_lemma m h p t buf :
  VolMem.va_copy_to m h {| VolMem.va_addr := p; VolMem.va_nelem := 0 |} t buf = Val (buf, 0) /\
  VolMem.va_copy_from m h {| VolMem.va_addr := p; VolMem.va_nelem := 0 |} t buf = Val h.
Proof. split; [apply va_copy_to_n0|apply va_copy_from_n0]. Qed.
Lemma zst_copy_marks_lemma ri hm a rs k :
  (Dirty.a_kind a = Dirty.KSlice ->
     Dirty.run_sop ri hm a (Dirty.OCopyFrom 0 k) = Dirty.done 0 [] /\ Dirty.run_sop ri hm a (Dirty.OCopyTo 0 k) = Dirty.done k []) /\
  (forall esz n o, Dirty.a_kind a = Dirty.KArr esz n -> Dirty.a_len a = n * esz -> esz = 0 \/ n = 0 ->
     o = Dirty.OArrCopyFrom k \/ o = Dirty.OArrCopyTo k ->
     Dirty.apply_effs rs (Dirty.o_effs (Dirty.run_sop ri hm a o)) = rs) /\
  (forall o, Dirty.a_kind a = Dirty.KRef -> Dirty.a_len a = 0 ->
     Dirty.apply_effs rs (Dirty.o_effs (Dirty.run_sop ri hm a o)) = rs).
Proof.
  split; [|split].
  - intros K. unfold Dirty.run_sop. rewrite K. split; reflexivity.
  - intros esz n o K L Z O. apply apply_effs_zero. eapply arr_zero; eauto.
  - intros o K L. apply apply_effs_zero. apply ref_zero; auto.
Qed.

Lemma zero_count_stream_slice_lemma (rd : bool) md sk self addr st m :
  st_wf st -> Io.vs_addr self + addr < W64 ->
  (addr <= Io.vs_len self ->
     s_upto rd md sk self addr st m 0 = Val ((st, m), Io.Ok 0) /\
     s_exact rd md sk self addr st m 0 = Val ((st, m), Io.Ok tt)) /\
  (Io.vs_len self < addr ->
     (exists e, s_upto rd md sk self addr st m 0 = Val ((st, m), Io.Err e)) /\
     (exists e, s_exact rd md sk self addr st m 0 = Val ((st, m), Io.Err e))).
Proof.
  intros Hst Ho. split; intros Ha.
  - split; [apply s_upto_zero|apply s_exact_zero]; auto.
  - split; [apply s_upto_beyond|apply s_exact_beyond]; auto.
Qed.
Lemma zero_count_stream_guest_lemma (rd : bool) md sk L addr st m :
  st_wf st -> Forall host_ok L ->
  ((exists r, In r L /\ IoGuest.contains r addr = true) ->
     g_upto rd md sk L addr st m 0 = Val ((st, m), IoGuest.GOk 0) /\
     IoGuest.gm_exact_of (g_upto rd md sk L addr st m 0) 0 = Val ((st, m), IoGuest.GOk tt)) /\
  ((forall r, In r L -> IoGuest.contains r addr = false) ->
     g_upto rd md sk L addr st m 0 = Val ((st, m), IoGuest.GErr IoGuest.GInvalidGuestAddress)).
Proof.
  intros Hst HL. rewrite g_upto_zero by auto. split.
  - intros [r [Hin Hc]]. destruct (IoGuest.find_region L addr) eqn:F; [split; reflexivity|].
    unfold IoGuest.find_region in F. pose proof (find_none _ _ F r Hin) as X. cbn in X. congruence.
  - intros Hn. destruct (IoGuest.find_region L addr) as [r|] eqn:F; [|reflexivity].
    unfold IoGuest.find_region in F. apply find_some in F. destruct F as [Hin Hc]. rewrite (Hn r Hin) in Hc. discriminate.
Qed.
