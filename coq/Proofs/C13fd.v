(* C13fd proofs: C13 on scripted REAL descriptors (scripts of ANY length).
     A. the scripted oracle over the suite's base oracles: case analysis of one call, boundedness,
     B. std's provided loops terminate on every script and never report EINTR,
     C. the default exact loops against the scripted oracle = std's loops (instances of the oracle-generic
        theorems of Proofs/C13.v), hard errors are reported,
     D. one step: direct route and VolatileSlice route, agreement with std, the byte-queue invariant,
     E. histories (induction over the operation list), the checker on the model. *)
From VM Require Import Prelude.MachInt Prelude.Outcome Prelude.Tok Prelude.C1314List Impl.Io Impl.Std Impl.IoGuest Spec.C13 Suite.C13 Spec.C13fd Suite.C13fd Proofs.C13.

(* ------------------------------------------------------------------ A. one call of the scripted oracle *)
Lemma scr_read_cases k f len : exists st' r, scr_read (os_read_of k) f len = (scr_next f st', r) /\
  ((r = OsRErr EInterrupted /\ st' = f_st f /\ exists t, f_script f = FEintr :: t)
   \/ (r = OsRErr EOther /\ head_eintr (f_script f) = false)
   \/ (exists bs, r = OsData bs /\ nlen bs <= len /\ head_eintr (f_script f) = false)).
Proof.
  unfold scr_read. destruct (f_script f) as [|[|j| | |] t] eqn:Es.
  - destruct (os_read_cases k (f_st f) len) as (f' & r & -> & Hr). exists f', r. split; [reflexivity|].
    destruct Hr as [->|(bs & -> & Hl)]; [right; left; auto|right; right; eauto].
  - destruct (os_read_cases k (f_st f) len) as (f' & r & -> & Hr). exists f', r. split; [reflexivity|].
    destruct Hr as [->|(bs & -> & Hl)]; [right; left; auto|right; right; eauto].
  - destruct (os_read_cases k (f_st f) (N.min j len)) as (f' & r & -> & Hr). exists f', r. split; [reflexivity|].
    destruct Hr as [->|(bs & -> & Hl)]; [right; left; auto|right; right].
    exists bs. split; [reflexivity|]. split; [lia|reflexivity].
  - eexists _, _. split; [reflexivity|]. right; right. exists []. split; [reflexivity|]. split; [cbn; lia|reflexivity].
  - eexists _, _. split; [reflexivity|]. left. split; [reflexivity|]. split; [reflexivity|]. eauto.
  - eexists _, _. split; [reflexivity|]. right; left. auto.
Qed.

Lemma scr_write_cases k f d : exists st' r, scr_write (os_write_of k) f d = (scr_next f st', r) /\
  ((r = OsWErr EInterrupted /\ st' = f_st f /\ exists t, f_script f = FEintr :: t)
   \/ (r = OsWErr EOther /\ head_eintr (f_script f) = false)
   \/ (exists n, r = OsCount n /\ n <= nlen d /\ head_eintr (f_script f) = false)).
Proof.
  unfold scr_write. destruct (f_script f) as [|[|j| | |] t] eqn:Es.
  - destruct (os_write_count k (f_st f) d) as (f' & n & -> & Hl). exists f', (OsCount n). split; [reflexivity|].
    right; right. eauto.
  - destruct (os_write_count k (f_st f) d) as (f' & n & -> & Hl). exists f', (OsCount n). split; [reflexivity|].
    right; right. eauto.
  - destruct (os_write_count k (f_st f) (ntake (N.min j (nlen d)) d)) as (f' & n & -> & Hl).
    exists f', (OsCount n). split; [reflexivity|]. right; right.
    exists n. split; [reflexivity|]. split; [|reflexivity]. rewrite nlen_ntake in Hl. lia.
  - eexists _, _. split; [reflexivity|]. right; right. exists 0. split; [reflexivity|]. split; [lia|reflexivity].
  - eexists _, _. split; [reflexivity|]. left. split; [reflexivity|]. split; [reflexivity|]. eauto.
  - eexists _, _. split; [reflexivity|]. right; left. auto.
Qed.

Lemma scr_read_bounded k : forall f len f' bs, scr_read (os_read_of k) f len = (f', OsData bs) -> nlen bs <= len.
Proof.
  intros f len f' bs H.
  destruct (scr_read_cases k f len) as (st' & r & E & [(-> & _)|[(-> & _)|(b1 & -> & Hl & _)]]); rewrite E in H;
    inversion H; subst. exact Hl.
Qed.
Lemma scr_write_bounded k : forall f d f' n, scr_write (os_write_of k) f d = (f', OsCount n) -> n <= nlen d.
Proof.
  intros f d f' n H.
  destruct (scr_write_cases k f d) as (st' & r & E & [(-> & _)|[(-> & _)|(n1 & -> & Hl & _)]]); rewrite E in H;
    inversion H; subst. exact Hl.
Qed.

Lemma scr_oracle_bounded_lemma : forall k,
  (forall f len f' bs, scr_read (os_read_of k) f len = (f', OsData bs) -> nlen bs <= len)
  /\ (forall f d f' n, scr_write (os_write_of k) f d = (f', OsCount n) -> n <= nlen d).
Proof. intros k. split; [apply scr_read_bounded|apply scr_write_bounded]. Qed.

(* ------------------------------------------------------------------ B. std's loops on a scripted descriptor *)
Lemma length_tl {A} (l : list A) : (length (tl l) <= length l)%nat.
Proof. destruct l; cbn [tl length]; lia. Qed.

(* measure: bytes still wanted + script elements left.  EINTR consumes a script element, a data answer of
   more than 0 bytes reduces the request, everything else stops the loop. *)
Lemma std_read_exact_scr_terminates k : forall fuel f want acc,
  (N.to_nat want + length (f_script f) < fuel)%nat ->
  exists of out r, std_fd_read_exact (scr_read (os_read_of k)) fuel f want acc = Val (of, out, r).
Proof.
  induction fuel as [|n IH]; intros f want acc Hf; [lia|]. cbn [std_fd_read_exact].
  destruct (N.eqb_spec want 0); [eauto|].
  destruct (scr_read_cases k f want) as (st' & r & -> & [(-> & _ & t & Et)|[(-> & _)|(bs & -> & Hl & _)]]).
  - apply IH. unfold scr_next. cbn [f_script]. rewrite Et in *. cbn [tl length] in *. lia.
  - eauto.
  - destruct (N.eqb_spec (nlen bs) 0); [eauto|]. apply IH. unfold scr_next. cbn [f_script].
    pose proof (length_tl (f_script f)). lia.
Qed.
Lemma std_write_all_scr_terminates k : forall fuel f d,
  (N.to_nat (nlen d) + length (f_script f) < fuel)%nat ->
  exists of r, std_fd_write_all (scr_write (os_write_of k)) fuel f d = Val (of, r).
Proof.
  induction fuel as [|n IH]; intros f d Hf; [lia|]. cbn [std_fd_write_all].
  destruct (N.eqb_spec (nlen d) 0); [eauto|].
  destruct (scr_write_cases k f d) as (st' & r & -> & [(-> & _ & t & Et)|[(-> & _)|(cnt & -> & Hl & _)]]).
  - apply IH. unfold scr_next. cbn [f_script]. rewrite Et in *. cbn [tl length] in *. lia.
  - eauto.
  - destruct (N.eqb_spec cnt 0); [eauto|]. apply IH. unfold scr_next. cbn [f_script].
    pose proof (length_tl (f_script f)). rewrite nlen_ndrop. lia.
Qed.

(* std's read_exact / write_all never report EINTR, whatever the oracle *)
Lemma std_read_exact_no_eintr {F} (os_read : F -> N -> F * os_rres) : forall fuel f want acc of out r,
  std_fd_read_exact os_read fuel f want acc = Val (of, out, r) -> r <> Err (VIo EInterrupted).
Proof.
  induction fuel as [|n IH]; intros f want acc of out r H; [discriminate|]. cbn [std_fd_read_exact] in H.
  destruct (want =? 0); [inversion H; discriminate|].
  destruct (os_read f want) as [f' [bs|e]].
  - destruct (nlen bs =? 0); [inversion H; discriminate|]. eapply IH; exact H.
  - destruct e; try (inversion H; discriminate). eapply IH; exact H.
Qed.
Lemma std_write_all_no_eintr {F} (os_write : F -> list N -> F * os_wres) : forall fuel f d of r,
  std_fd_write_all os_write fuel f d = Val (of, r) -> r <> Err (VIo EInterrupted).
Proof.
  induction fuel as [|n IH]; intros f d of r H; [discriminate|]. cbn [std_fd_write_all] in H.
  destruct (nlen d =? 0); [inversion H; discriminate|].
  destruct (os_write f d) as [f' [cnt|e]].
  - destruct (cnt =? 0); [inversion H; discriminate|]. eapply IH; exact H.
  - destruct e; try (inversion H; discriminate). eapply IH; exact H.
Qed.

(* ------------------------------------------------------------------ C. the exact forms = std's loops *)
Lemma scripted_read_exact_eq_std_lemma : forall k st sc b, buf_ok b ->
  exists of out r f' b',
    std_fd_read_exact (scr_read (os_read_of k)) (std_fuel (nlen b) sc) (sfd0 st sc) (nlen b) [] = Val (of, out, r)
    /\ read_exact_volatile (fuel_scr b sc) (read_volatile_raw_fd (scr_read (os_read_of k))) (sfd0 st sc) (arena b) (win b)
       = Val ((f', arena b'), r)
    /\ nlen b' = nlen b /\ (r = Ok tt -> of = Some f' /\ out = b') /\ (r <> Ok tt -> of = None)
    /\ r <> Err (VIo EInterrupted).
Proof.
  intros k st sc b Hb.
  destruct (std_read_exact_scr_terminates k (std_fuel (nlen b) sc) (sfd0 st sc) (nlen b) [])
    as (of & out & r & Hstd).
  { unfold std_fuel, sfd0. cbn [f_script]. lia. }
  destruct (default_read_exact_eq_std_lemma sfd (scr_read (os_read_of k)) (scr_read_bounded k)
              (std_fuel (nlen b) sc) (sfd0 st sc) b of out r Hb Hstd (fuel_scr b sc))
    as (f' & b' & He & Hl & Hok & Hko).
  { unfold std_fuel, fuel_scr. lia. }
  exists of, out, r, f', b'. split; [exact Hstd|]. split; [exact He|]. split; [exact Hl|].
  split; [exact Hok|]. split; [exact Hko|]. eapply std_read_exact_no_eintr. exact Hstd.
Qed.

Lemma scripted_write_all_eq_std_lemma : forall k st sc d, buf_ok d ->
  exists of r f',
    std_fd_write_all (scr_write (os_write_of k)) (std_fuel (nlen d) sc) (sfd0 st sc) d = Val (of, r)
    /\ write_all_volatile (fuel_scr d sc) (write_volatile_raw_fd (scr_write (os_write_of k))) (sfd0 st sc) (arena d) (win d)
       = Val ((f', arena d), r)
    /\ (r = Ok tt -> of = Some f') /\ (r <> Ok tt -> of = None)
    /\ r <> Err (VIo EInterrupted).
Proof.
  intros k st sc d Hb.
  destruct (std_write_all_scr_terminates k (std_fuel (nlen d) sc) (sfd0 st sc) d) as (of & r & Hstd).
  { unfold std_fuel, sfd0. cbn [f_script]. lia. }
  destruct (default_write_all_eq_std_lemma sfd (scr_write (os_write_of k)) (scr_write_bounded k)
              (std_fuel (nlen d) sc) (sfd0 st sc) d of r Hb Hstd (fuel_scr d sc))
    as (f' & He & Hok & Hko).
  { unfold std_fuel, fuel_scr. lia. }
  exists of, r, f'. split; [exact Hstd|]. split; [exact He|]. split; [exact Hok|]. split; [exact Hko|].
  eapply std_write_all_no_eintr. exact Hstd.
Qed.

(* a script of j EINTRs and then a hard error: the retry loop makes exactly j+1 calls, passes the error on,
   and leaves the stream and the memory alone *)
Lemma retry_hard_error_read k st rest m v : forall j c fuel, (j < fuel)%nat ->
  retry_eintr fuel (read_volatile_raw_fd (scr_read (os_read_of k)))
    {| f_st := st; f_script := repeat FEintr j ++ FErr :: rest; f_calls := c |} m v
  = Val (({| f_st := st; f_script := rest; f_calls := c + N.of_nat j + 1 |}, m), Err (VIo EOther)).
Proof.
  induction j as [|j IH]; intros c fuel Hf; (destruct fuel as [|fuel]; [lia|]); cbn [retry_eintr].
  - unfold read_volatile_raw_fd, scr_read, scr_next. cbn [repeat app f_script f_st f_calls tl bind].
    replace (c + N.of_nat 0 + 1) with (c + 1) by lia. reflexivity.
  - unfold read_volatile_raw_fd at 1. unfold scr_read, scr_next. cbn [repeat app f_script f_st f_calls tl bind].
    rewrite IH by lia. replace (c + N.of_nat (S j) + 1) with (c + 1 + N.of_nat j + 1) by lia. reflexivity.
Qed.
Lemma retry_hard_error_write k st rest m v : forall j c fuel, (j < fuel)%nat ->
  retry_eintr fuel (write_volatile_raw_fd (scr_write (os_write_of k)))
    {| f_st := st; f_script := repeat FEintr j ++ FErr :: rest; f_calls := c |} m v
  = Val (({| f_st := st; f_script := rest; f_calls := c + N.of_nat j + 1 |}, m), Err (VIo EOther)).
Proof.
  induction j as [|j IH]; intros c fuel Hf; (destruct fuel as [|fuel]; [lia|]); cbn [retry_eintr].
  - unfold write_volatile_raw_fd, scr_write, scr_next. cbn [repeat app f_script f_st f_calls tl bind].
    replace (c + N.of_nat 0 + 1) with (c + 1) by lia. reflexivity.
  - unfold write_volatile_raw_fd at 1. unfold scr_write, scr_next. cbn [repeat app f_script f_st f_calls tl bind].
    rewrite IH by lia. replace (c + N.of_nat (S j) + 1) with (c + 1 + N.of_nat j + 1) by lia. reflexivity.
Qed.

Lemma length_hard_script j rest : length (repeat FEintr j ++ FErr :: rest) = (j + S (length rest))%nat.
Proof. rewrite app_length, repeat_length. reflexivity. Qed.

Lemma scripted_hard_error_reported_lemma : forall k st j rest b, b <> [] -> buf_ok b ->
  read_exact_volatile (fuel_scr b (repeat FEintr j ++ FErr :: rest)) (read_volatile_raw_fd (scr_read (os_read_of k)))
    (sfd0 st (repeat FEintr j ++ FErr :: rest)) (arena b) (win b)
  = Val (({| f_st := st; f_script := rest; f_calls := N.of_nat j + 1 |}, arena b), Err (VIo EOther))
  /\ write_all_volatile (fuel_scr b (repeat FEintr j ++ FErr :: rest)) (write_volatile_raw_fd (scr_write (os_write_of k)))
    (sfd0 st (repeat FEintr j ++ FErr :: rest)) (arena b) (win b)
  = Val (({| f_st := st; f_script := rest; f_calls := N.of_nat j + 1 |}, arena b), Err (VIo EOther)).
Proof.
  intros k st j rest b Hne Hb.
  assert (Hnz : nlen b <> 0) by (intros E; apply nlen_zero in E; contradiction).
  unfold read_exact_volatile, write_all_volatile, exact_volatile, fuel_scr. rewrite (win_offset0 b Hb).
  rewrite length_hard_script.
  replace (N.to_nat (nlen b) + (j + S (length rest)) + 2)%nat
    with (S (N.to_nat (nlen b) + (j + S (length rest)) + 1))%nat by lia.
  rewrite !exact_loop_unfold. cbn [vs_len].
  destruct (N.eqb_spec (nlen b - 0) 0) as [E|_]; [lia|].
  unfold sfd0.
  rewrite retry_hard_error_read, retry_hard_error_write by lia. cbn [bind loop_body].
  rewrite N.add_0_l. split; reflexivity.
Qed.

(* ------------------------------------------------------------------ D. one step *)
(* the VolatileSlice route is the direct call: the exact forms always, the up-to forms (wrapped in
   retry_eintr!) when the first call of the operation is not answered with EINTR *)
Lemma fuel_scr_S b sc : fuel_scr b sc = S (N.to_nat (nlen b) + length sc + 1).
Proof. unfold fuel_scr. lia. Qed.

Lemma route_same_scr_lemma : forall md k f o, route_ok true (o, f_script f) = true -> buf_ok (op_buf o) ->
  vm_step_route md k f o = vm_step_scr md k f o.
Proof.
  intros md k f o Hr Hb. unfold route_ok in Hr. cbn [fst snd andb] in Hr.
  destruct o as [pre|pre|d|d|p]; cbn [is_upto op_buf] in *; unfold vm_step_route, vm_step_scr; cbn [op_buf];
    unfold vs_read_volatile_from, vs_write_volatile_to, vs_read_exact_volatile_from, vs_write_all_volatile_to,
      read_exact_volatile, write_all_volatile.
  - rewrite vs_route_upto_lemma by exact Hb. f_equal. rewrite fuel_scr_S. cbn [retry_eintr].
    unfold read_volatile_raw_fd.
    destruct (scr_read_cases k f (vs_len (win pre))) as (st' & r & -> & [(_ & _ & t & Et)|[(-> & _)|(bs & -> & _)]]);
      try reflexivity.
    rewrite Et in Hr. discriminate.
  - rewrite vs_route_exact_lemma by exact Hb. reflexivity.
  - rewrite vs_route_upto_lemma by exact Hb. f_equal. rewrite fuel_scr_S. cbn [retry_eintr].
    unfold write_volatile_raw_fd.
    destruct (scr_write_cases k f (mem_read (arena d) (vs_off (win d)) (vs_len (win d))))
      as (st' & r & -> & [(_ & _ & t & Et)|[(-> & _)|(n & -> & _)]]); try reflexivity.
    rewrite Et in Hr. discriminate.
  - rewrite vs_route_exact_lemma by exact Hb. reflexivity.
  - reflexivity.
Qed.

Lemma step_sel route md k st sc o : route_ok route (o, sc) = true -> buf_ok (op_buf o) ->
  (if route then vm_step_route else vm_step_scr) md k (sfd0 st sc) o = vm_step_scr md k (sfd0 st sc) o.
Proof.
  intros Hr Hb. destruct route; [|reflexivity]. apply route_same_scr_lemma; [exact Hr|exact Hb].
Qed.

(* the adapter on the scripted descriptor moved what std moves on it *)
Definition AgreeS (o : op13) (vm : outcome ((sfd * list N) * (N * N)))
  (sd : outcome (option sstate * list N * (N * N))) : Prop :=
  exists f' b' rc ost bs, vm = Val ((f', arena b'), rc) /\ sd = Val (ost, bs, rc)
    /\ nlen b' = nlen (op_buf o)
    /\ (rc_success rc = true ->
          ost = Some (f_st f') /\ nlen bs <= nlen (op_buf o)
          /\ (is_read o = true -> b' = bs ++ ndrop (nlen bs) (op_buf o)))
    /\ (rc_success rc = false -> ost = None)
    /\ (is_read o = false -> b' = op_buf o /\ bs = []).

Lemma agree_scr_read md k st sc pre :
  AgreeS (ORead pre) (vm_step_scr md k (sfd0 st sc) (ORead pre)) (std_step_scr k st sc (ORead pre)).
Proof.
  unfold vm_step_scr, std_step_scr, read_volatile_raw_fd, std_fd_read, lift_n. cbn [op_buf win vs_len vs_off].
  destruct (scr_read_cases k (sfd0 st sc) (nlen pre)) as (st' & r & -> & [(-> & _ & _)|[(-> & _)|(bs & -> & Hl & _)]]);
    cbn [omap fst snd rc_n rc_verr rc_ioerr].
  - eexists _, _, _, _, _. split; [reflexivity|]. split; [reflexivity|]. cbn [op_buf is_read].
    split; [reflexivity|]. split; [discriminate|]. split; [reflexivity|discriminate].
  - eexists _, _, _, _, _. split; [reflexivity|]. split; [reflexivity|]. cbn [op_buf is_read].
    split; [reflexivity|]. split; [discriminate|]. split; [reflexivity|discriminate].
  - rewrite arena_write by exact Hl.
    eexists _, _, _, _, _. split; [reflexivity|]. split; [reflexivity|]. cbn [op_buf is_read].
    split; [apply nlen_write_prefix; exact Hl|].
    split; [|split; [discriminate|discriminate]].
    intros _. split; [reflexivity|]. split; [exact Hl|reflexivity].
Qed.

Lemma agree_scr_write md k st sc d :
  AgreeS (OWrite d) (vm_step_scr md k (sfd0 st sc) (OWrite d)) (std_step_scr k st sc (OWrite d)).
Proof.
  unfold vm_step_scr, std_step_scr, write_volatile_raw_fd, std_fd_write, lift_n. cbn [op_buf win vs_len vs_off].
  rewrite arena_read_all.
  destruct (scr_write_cases k (sfd0 st sc) d) as (st' & r & -> & [(-> & _ & _)|[(-> & _)|(n & -> & Hl & _)]]);
    cbn [omap fst snd rc_n rc_verr rc_ioerr].
  - eexists _, _, _, _, _. split; [reflexivity|]. split; [reflexivity|]. cbn [op_buf is_read].
    split; [reflexivity|]. split; [discriminate|]. split; [reflexivity|]. intros _. split; reflexivity.
  - eexists _, _, _, _, _. split; [reflexivity|]. split; [reflexivity|]. cbn [op_buf is_read].
    split; [reflexivity|]. split; [discriminate|]. split; [reflexivity|]. intros _. split; reflexivity.
  - eexists _, _, _, _, _. split; [reflexivity|]. split; [reflexivity|]. cbn [op_buf is_read].
    split; [reflexivity|]. split; [|split; [discriminate|intros _; split; reflexivity]].
    intros _. split; [reflexivity|]. split; [cbn; lia|discriminate].
Qed.

Lemma rc_unit_err_fail (e : verr) : rc_success (rc_unit (@Err unit e)) = false.
Proof. destruct e as [[]| |]; reflexivity. Qed.

Lemma agree_scr_read_exact md k st sc pre : buf_ok pre ->
  AgreeS (OReadExact pre) (vm_step_scr md k (sfd0 st sc) (OReadExact pre)) (std_step_scr k st sc (OReadExact pre)).
Proof.
  intros Hb.
  destruct (scripted_read_exact_eq_std_lemma k st sc pre Hb) as (of & out & r & f' & b' & Hstd & He & Hl & Hok & Hko & _).
  unfold vm_step_scr, std_step_scr. cbn [op_buf]. change (f_script (sfd0 st sc)) with sc.
  lazy zeta. rewrite Hstd, He. cbn [bind]. unfold lift_u. cbn [omap fst snd].
  eexists _, _, _, _, _. split; [reflexivity|]. split; [reflexivity|]. cbn [op_buf is_read].
  split; [exact Hl|].
  destruct r as [[]|e].
  - destruct (Hok eq_refl) as [-> ->]. split; [|split; [discriminate|discriminate]].
    intros _. split; [reflexivity|]. split; [lia|]. intros _.
    rewrite ndrop_all by lia. rewrite app_nil_r. reflexivity.
  - rewrite rc_unit_err_fail. split; [discriminate|]. split; [|discriminate]. intros _.
    rewrite Hko by discriminate. reflexivity.
Qed.

Lemma agree_scr_write_all md k st sc d : buf_ok d ->
  AgreeS (OWriteAll d) (vm_step_scr md k (sfd0 st sc) (OWriteAll d)) (std_step_scr k st sc (OWriteAll d)).
Proof.
  intros Hb.
  destruct (scripted_write_all_eq_std_lemma k st sc d Hb) as (of & r & f' & Hstd & He & Hok & Hko & _).
  unfold vm_step_scr, std_step_scr. cbn [op_buf]. change (f_script (sfd0 st sc)) with sc.
  lazy zeta. rewrite Hstd, He. cbn [bind]. unfold lift_u. cbn [omap fst snd].
  eexists _, _, _, _, _. split; [reflexivity|]. split; [reflexivity|]. cbn [op_buf is_read].
  split; [reflexivity|].
  destruct r as [[]|e].
  - rewrite (Hok eq_refl). split; [|split; [discriminate|intros _; split; reflexivity]].
    intros _. split; [reflexivity|]. split; [cbn; lia|discriminate].
  - rewrite rc_unit_err_fail. split; [discriminate|]. split; [|intros _; split; reflexivity]. intros _.
    rewrite Hko by discriminate. reflexivity.
Qed.

Lemma step_agree_scr md k st sc o : fd_kind k = true -> op_wf k o ->
  AgreeS o (vm_step_scr md k (sfd0 st sc) o) (std_step_scr k st sc o).
Proof.
  intros Hk (Hal & Hb & Hp).
  destruct o as [pre|pre|d|d|p].
  - apply agree_scr_read.
  - apply agree_scr_read_exact. exact Hb.
  - apply agree_scr_write.
  - apply agree_scr_write_all. exact Hb.
  - unfold vm_step_scr, std_step_scr. cbn [op_buf sfd0 f_st f_script f_calls].
    eexists _, [], _, _, _. split; [reflexivity|]. split; [reflexivity|]. cbn [op_buf is_read f_st].
    split; [reflexivity|]. split; [|split; [discriminate|intros _; split; reflexivity]].
    intros _. split; [reflexivity|]. split; [cbn; lia|discriminate].
Qed.

(* ---- the byte-queue invariant: a scripted call is either no system call at all or a base call with a
   smaller count / a prefix of the data *)
Definition fq_inv (content : list N) (f : sfd) : Prop := queue_inv content (f_st f).

Lemma queue_read_st_inv content st len : queue_inv content st -> queue_inv content (fst (queue_read st len)).
Proof.
  intros (j & Hd & Hp). unfold queue_read, queue_inv. cbn [fst s_data s_pos]. exists (j + len).
  rewrite Hd, ndrop_ndrop. auto.
Qed.
Lemma queue_write_st_inv content st bs : queue_inv content st -> queue_inv content (fst (queue_write st bs)).
Proof. intros (j & Hd & Hp). unfold queue_write, queue_inv. cbn [fst s_data s_pos]. eauto. Qed.

Lemma scr_queue_read_inv content : forall s m v s' m' r, fq_inv content s ->
  read_volatile_raw_fd (scr_read queue_read) s m v = Val ((s', m'), r) -> fq_inv content s'.
Proof.
  intros s m v s' m' r Hi H. unfold read_volatile_raw_fd, scr_read in H. unfold fq_inv in *.
  destruct (f_script s) as [|[|j| | |] t]; cbn [queue_read] in H; inversion H; subst; cbn [scr_next f_st];
    try exact Hi.
  - exact (queue_read_st_inv content (f_st s) (vs_len v) Hi).
  - exact (queue_read_st_inv content (f_st s) (vs_len v) Hi).
  - exact (queue_read_st_inv content (f_st s) (N.min j (vs_len v)) Hi).
Qed.
Lemma scr_queue_write_inv content : forall s m v s' m' r, fq_inv content s ->
  write_volatile_raw_fd (scr_write queue_write) s m v = Val ((s', m'), r) -> fq_inv content s'.
Proof.
  intros s m v s' m' r Hi H. unfold write_volatile_raw_fd, scr_write in H. unfold fq_inv in *.
  destruct (f_script s) as [|[|j| | |] t]; cbn [queue_write] in H; inversion H; subst; cbn [scr_next f_st];
    first [exact Hi | exact (queue_write_st_inv content (f_st s) _ Hi)].
Qed.

(* for descriptor kinds the state invariant of Proofs/C13.v does not depend on the budget *)
Lemma step_inv_scr md k content st sc o : fd_kind k = true -> op_wf k o -> st_inv k content st 0 ->
  forall f' m rc, vm_step_scr md k (sfd0 st sc) o = Val ((f', m), rc) -> st_inv k content (clear_out (f_st f')) 0.
Proof.
  intros Hk (Hal & Hb & Hp) Hi f' m rc H.
  destruct k; try discriminate; cbn [st_inv] in *; [exact I|].
  fold (queue_inv content st) in Hi. fold (queue_inv content (clear_out (f_st f'))).
  assert (Hco : forall s, queue_inv content s -> queue_inv content (clear_out s)) by (intros s A; exact A).
  apply Hco. change (fq_inv content f').
  assert (Hi0 : fq_inv content (sfd0 st sc)) by exact Hi.
  destruct o; cbn [op_allowed] in Hal; try discriminate; unfold vm_step_scr in H; cbn [os_read_of os_write_of] in H.
  - apply lift_n_val in H. destruct H as (r & H). eapply scr_queue_read_inv; eassumption.
  - apply lift_u_val in H. destruct H as (r & H). unfold read_exact_volatile in H.
    eapply (exact_volatile_inv (fq_inv content)); [apply scr_queue_read_inv|exact Hi0|exact H].
  - apply lift_n_val in H. destruct H as (r & H). eapply scr_queue_write_inv; eassumption.
  - apply lift_u_val in H. destruct H as (r & H). unfold write_all_volatile in H.
    eapply (exact_volatile_inv (fq_inv content)); [apply scr_queue_write_inv|exact Hi0|exact H].
  - cbn [seekable] in H. inversion H; subst. exact Hi.
Qed.

(* ------------------------------------------------------------------ E. histories, the checker *)
Definition opsc_wf (route : bool) (k : skind) (x : op13 * list fbeh) : Prop :=
  op_wf k (fst x) /\ route_ok route x = true.

Lemma run_steps_scr_ok md route k content : fd_kind k = true -> forall ops st tw, Forall (opsc_wf route k) ops ->
  st_inv k content (clear_out st) 0 ->
  ok_steps_scr k content (clear_out st) ops (map fst (run_ops_scr md route k st tw ops)) = true.
Proof.
  intros Hk. induction ops as [|[o sc] ops IH]; intros st tw Hwf Hi; [reflexivity|].
  inversion Hwf as [|? ? [Ho Hr] Hops]; subst. cbn [fst] in Ho.
  pose proof (step_agree_scr md k (clear_out st) sc o Hk Ho) as Ha.
  pose proof (step_inv_scr md k content (clear_out st) sc o Hk Ho Hi) as Hinv.
  destruct Ha as (f' & b' & rc & ost & bs & Hv & Hs & Hl & Hok & Hko & Hwr).
  specialize (Hinv _ _ _ Hv).
  destruct Ho as (Hal & Hb & Hp).
  cbn [run_ops_scr]. lazy zeta. rewrite (step_sel route md k (clear_out st) sc o Hr Hb), Hv.
  assert (Hstep : forall trc tbuf tdata tpos tout,
    ok_step_scr k content (clear_out st) o sc
      {| a_rc := rc; a_buf := b'; a_margins := margins_ok (op_buf o) (arena b');
         a_data := fst (show_state k (f_st f')); a_pos := snd (show_state k (f_st f')); a_out := s_out (f_st f');
         t_rc := trc; t_buf := tbuf; t_data := tdata; t_pos := tpos; t_out := tout |} = true).
  { intros. unfold ok_step_scr. cbn [a_margins a_buf a_rc a_data a_pos a_out].
    rewrite (margins_ok_arena _ _ Hl), Hl, N.eqb_refl, Hs. cbn [andb].
    unfold rc_eqb. rewrite !N.eqb_refl. cbn [andb].
    destruct (rc_success rc) eqn:Esucc; [|reflexivity].
    destruct (Hok eq_refl) as (-> & Hbs & Hrd).
    rewrite state_matches_show, list_eqb_refl13. cbn [andb]. rewrite andb_true_r.
    destruct (is_read o) eqn:Er.
    - rewrite (Hrd eq_refl), ntake_app_exact. apply list_eqb_refl13.
    - destruct (Hwr eq_refl) as [_ ->]. reflexivity. }
  assert (Hrest : forall tw', ok_steps_scr k content
            (state_of_obs k content (fst (show_state k (f_st f'))) (snd (show_state k (f_st f')))) ops
            (map fst (run_ops_scr md route k (f_st f') tw' ops)) = true).
  { intros tw'. rewrite (state_of_obs_show _ _ _ _ (st_inv_unclear _ _ _ _ Hinv)). apply IH; [exact Hops|exact Hinv]. }
  assert (Hbuf : mem_read (arena b') margin (nlen (op_buf o)) = b') by (rewrite <- Hl; apply arena_read_all).
  destruct tw as [t|]; [destruct (std_step_scr k (clear_out t) sc o) as [[[[t'|] bs2] rc2]| |]|];
    lazy beta iota zeta; cbn [map fst ok_steps_scr]; rewrite Hal, Hbuf; cbn [andb a_data a_pos];
    rewrite Hstep, Hrest; reflexivity.
Qed.

Lemma run_twin_scr_ok md route k content : fd_kind k = true -> forall ops st t, clear_out t = clear_out st ->
  Forall (opsc_wf route k) ops -> st_inv k content (clear_out st) 0 ->
  ok_twin (map fst ops) (map fst (run_ops_scr md route k st (Some t) ops)) = true.
Proof.
  intros Hk. induction ops as [|[o sc] ops IH]; intros st t Ht Hwf Hi; [reflexivity|].
  inversion Hwf as [|? ? [Ho Hr] Hops]; subst. cbn [fst] in Ho.
  pose proof (step_agree_scr md k (clear_out st) sc o Hk Ho) as Ha.
  pose proof (step_inv_scr md k content (clear_out st) sc o Hk Ho Hi) as Hinv.
  destruct Ha as (f' & b' & rc & ost & bs & Hv & Hs & Hl & Hok & Hko & Hwr).
  specialize (Hinv _ _ _ Hv).
  assert (Hbuf : mem_read (arena b') margin (nlen (op_buf o)) = b') by (rewrite <- Hl; apply arena_read_all).
  destruct Ho as (Hal & Hb & Hp).
  cbn [run_ops_scr]. lazy zeta. rewrite (step_sel route md k (clear_out st) sc o Hr Hb), Hv, Ht, Hs.
  destruct (rc_success rc) eqn:Esucc.
  - destruct (Hok eq_refl) as (-> & Hbs & Hrd). lazy beta iota zeta. rewrite Hbuf.
    cbn [map fst ok_twin a_rc t_rc a_buf t_buf a_data t_data a_pos t_pos a_out t_out].
    unfold rc_eqb. rewrite !N.eqb_refl, Esucc. cbn [andb].
    rewrite !list_eqb_refl13. rewrite (IH (f_st f') (f_st f') eq_refl Hops Hinv). rewrite !andb_true_r.
    destruct (is_read o) eqn:Er; [|reflexivity]. rewrite (Hrd eq_refl). apply list_eqb_refl13.
  - rewrite (Hko eq_refl). lazy beta iota zeta. cbn [map fst ok_twin a_rc t_rc]. unfold rc_eqb.
    rewrite !N.eqb_refl, Esucc. reflexivity.
Qed.

Definition wf13fd (route : bool) (c : case13fd) : Prop :=
  fd_kind (d_kind c) = true /\ s_out (d_init c) = []
  /\ Forall (fun x => op_wf (d_kind c) (fst x) /\ route_ok route x = true) (d_ops c)
  /\ (d_kind c = KQueue -> s_pos (d_init c) = 0).

Lemma C13fd_model_ok_lemma : forall route c, wf13fd route c -> ok_C13fd c (map fst (run_C13fd route c)) = true.
Proof.
  intros route c (Hk & Hout & Hops & Hq). unfold ok_C13fd, run_C13fd. rewrite Hk. cbn [andb].
  assert (Hc : clear_out (d_init c) = d_init c) by (destruct (d_init c); cbn in *; subst; reflexivity).
  assert (Hi : st_inv (d_kind c) (s_data (d_init c)) (clear_out (d_init c)) 0).
  { rewrite Hc. destruct (d_kind c); cbn [st_inv]; auto; try discriminate. exists 0. rewrite ndrop_0. auto. }
  apply andb_true_iff. split.
  - rewrite <- Hc at 2. apply run_steps_scr_ok; assumption.
  - eapply run_twin_scr_ok; [exact Hk|reflexivity|exact Hops|exact Hi].
Qed.
