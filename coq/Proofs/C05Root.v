(* C05 / C16: the other FIRST accessors of a region (MmapRegion::get_slice / get_ref / get_array_ref at a
   non-zero offset, GuestRegionMmap::get_slice, GuestMemory::get_slice) and the region layer
   (Bytes<MemoryRegionAddress>) - Impl/Dirty.v [root_acc], [run_xstep].
   Every extended step equals a base step (a derivation from the whole-region slice), so every theorem about
   [run_step] speaks about it; in particular the accessor invariant (bitmap base = byte offset) holds from
   every root. *)
From VM Require Import Prelude.MachInt Prelude.Tok Impl.Dirty Spec.C05 Suite.C05 Proofs.C05 Proofs.C05ModelOk.

Lemma map_get_slice_d_sub r o c k : map_get_slice r o c k = d_sub (root r) o c k.
Proof.
  unfold map_get_slice, d_sub, root; cbn [a_len a_off a_bm].
  destruct (checked_add o c) as [e|]; [|reflexivity].
  destruct (r_size r <? e); [reflexivity|]. rewrite N.add_0_l. reflexivity.
Qed.

Lemma root_acc_prefix r k : root_acc r k = derive_chain (root r) (root_prefix k).
Proof.
  destruct k; cbn [root_acc root_prefix derive_chain]; try reflexivity.
  - rewrite map_get_slice_d_sub. unfold derive; cbn [a_kind root]. destruct (d_sub _ _ _ _); reflexivity.
  - rewrite map_get_slice_d_sub. unfold derive; cbn [a_kind root]. destruct (d_sub _ _ _ _); reflexivity.
  - rewrite map_get_slice_d_sub. unfold derive; cbn [a_kind root]. destruct (d_sub _ _ _ _); reflexivity.
  - unfold derive; cbn [a_kind root]. destruct ((ISZ_MAX <? n) || (ISZ_MAX <? n * esz)); [reflexivity|].
    rewrite map_get_slice_d_sub. destruct (d_sub _ _ _ _); reflexivity.
Qed.

Lemma derive_chain_app ds1 : forall a ds2,
  derive_chain a (ds1 ++ ds2) = match derive_chain a ds1 with Some a1 => derive_chain a1 ds2 | None => None end.
Proof.
  induction ds1 as [|d ds1 IH]; intros a ds2; cbn [app derive_chain]; [reflexivity|].
  destruct (derive a d); [apply IH|reflexivity].
Qed.

(* the accessor invariant from every root: after the root and any derivation chain the bitmap base offset of the
   accessor equals its byte offset in the region, and the accessor stays inside the region *)
Lemma root_chain_ok r k ds a0 a' : r_size r < W64 -> root_acc r k = Some a0 -> derive_chain a0 ds = Some a' -> acc_ok r a'.
Proof.
  intros Hsz H0 H1. rewrite root_acc_prefix in H0.
  apply (chain_ok r (root_prefix k ++ ds) (root r) a' Hsz (root_ok r)).
  rewrite derive_chain_app, H0. exact H1.
Qed.

Lemma apply_effs_nil rs : apply_effs rs [] = rs.
Proof. reflexivity. Qed.

(* a pointer guard is a query: the read-type base operation it is lowered to reports len() and has no effect *)
Lemma guard_read_ok ri hm a : run_sop ri hm a (guard_read a) = done (acc_len a) [].
Proof.
  unfold guard_read, acc_len, run_sop. destruct (a_kind a) as [| |esz n].
  - unfold checked_sub. replace (0 <=? a_len a) with true by (symmetry; apply N.leb_le; lia).
    rewrite N.sub_0_r, N.min_id. reflexivity.
  - reflexivity.
  - destruct (esz =? 1); rewrite N.min_id; reflexivity.
Qed.

Lemma run_xstep_lower hm rs x : run_xstep hm rs x = run_step hm rs (lower rs x).
Proof.
  destruct x as [s|ri k ch o|addr n ch o|ri o|ri k ch|ri k ch rj doff dlen]; cbn [run_xstep lower run_step].
  - reflexivity.
  - destruct (nth_error rs ri) as [r|]; [|reflexivity].
    rewrite derive_chain_app, <- root_acc_prefix.
    destruct (root_acc r k) as [a0|]; [|reflexivity]. reflexivity.
  - destruct (find_idx rs addr 0) as [[i r]|] eqn:F; cbn [run_step].
    + destruct (find_idx_spec rs addr 0 i r F) as (_ & Hn & _). rewrite Nat.sub_0_r in Hn. rewrite Hn.
      cbn [root_acc derive_chain]. rewrite map_get_slice_d_sub. unfold derive at 1; cbn [a_kind root].
      destruct (d_sub (root r) (addr - r_start r) n KSlice) as [a0|]; reflexivity.
    + assert (Hn : nth_error rs (length rs) = None) by (apply nth_error_None; lia). rewrite Hn. reflexivity.
  - destruct (nth_error rs ri) as [r|]; [|reflexivity]. reflexivity.
  - destruct (nth_error rs ri) as [r|] eqn:Hr; [|cbn [run_step]; rewrite Hr; reflexivity].
    destruct (derive_chain (root r) (root_prefix k ++ ch)) as [a|] eqn:D; cbn [run_step]; rewrite Hr, D;
      rewrite derive_chain_app, <- root_acc_prefix in D.
    + destruct (root_acc r k) as [a0|]; [|discriminate]. rewrite D, guard_read_ok. reflexivity.
    + destruct (root_acc r k) as [a0|]; [|reflexivity]. rewrite D. reflexivity.
  - unfold run_copy. destruct (nth_error rs ri) as [r|]; [|reflexivity].
    destruct (nth_error rs rj) as [r2|]; [|reflexivity].
    rewrite derive_chain_app, <- root_acc_prefix, map_get_slice_d_sub.
    destruct (root_acc r k) as [a0|]; [|reflexivity].
    destruct (d_sub (root r2) doff dlen KSlice) as [d|].
    + destruct (derive_chain a0 ch) as [a|]; [|reflexivity].
      destruct (a_kind a); try reflexivity;
        destruct (Nat.eqb ri rj && ranges_overlap (a_off a) (a_len a) (a_off d) (a_len d)); reflexivity.
    + destruct (derive_chain a0 ch) as [a|]; reflexivity.
Qed.

(* ---- histories: [lower] looks at the region geometry only, which no step changes *)
Lemma find_idx_geo rs : forall rs' a k, map geo rs = map geo rs' ->
  option_map (fun ir : nat * region => (fst ir, r_start (snd ir))) (find_idx rs a k) =
  option_map (fun ir : nat * region => (fst ir, r_start (snd ir))) (find_idx rs' a k).
Proof.
  induction rs as [|x t IH]; intros [|y u] a k H; cbn [map] in H; try discriminate; [reflexivity|].
  inversion H as [[G1 G2 G3 G4 G5 G6]]. cbn [find_idx]. rewrite G1, G2.
  destruct ((r_start y <=? a) && (a <? r_start y + r_size y)).
  - cbn [option_map fst snd]. rewrite G1. reflexivity.
  - apply IH. exact G6.
Qed.

Lemma nth_root_geo rs rs' j : map geo rs = map geo rs' ->
  option_map root (nth_error rs j) = option_map root (nth_error rs' j).
Proof.
  intros H.
  assert (G : option_map geo (nth_error rs j) = option_map geo (nth_error rs' j)).
  { rewrite <- !nth_error_map. rewrite H. reflexivity. }
  destruct (nth_error rs j) as [r|], (nth_error rs' j) as [r'|]; cbn [option_map] in G |- *; try discriminate; [|reflexivity].
  unfold geo in G. inversion G as [[G1 G2 G3 G4 G5]]. unfold root. congruence.
Qed.

Lemma lower_geo rs rs' x : map geo rs = map geo rs' -> lower rs x = lower rs' x.
Proof.
  intros H. destruct x; cbn [lower]; try reflexivity.
  2: { pose proof (nth_root_geo rs rs' ri H) as R.
       destruct (nth_error rs ri) as [r|], (nth_error rs' ri) as [r'|]; cbn [option_map] in R; try discriminate; [|reflexivity].
       assert (R' : root r = root r') by congruence. rewrite R'. reflexivity. }
  pose proof (find_idx_geo rs rs' addr 0 H) as F.
  assert (L : length rs = length rs') by (rewrite <- (map_length geo rs), H, map_length; reflexivity).
  destruct (find_idx rs addr 0) as [[i r]|], (find_idx rs' addr 0) as [[i' r']|]; cbn [option_map fst snd] in F; try discriminate.
  - inversion F; subst. reflexivity.
  - rewrite L. reflexivity.
Qed.

Lemma geo_step hm rs s : wf rs -> map geo (fst (run_step hm rs s)) = map geo rs.
Proof.
  intros Hwf. destruct (is_reset s) eqn:R.
  - destruct s; try discriminate; cbn [run_step fst].
    + apply geo_upd_dirty. intros r; cbn. rewrite map_length. auto.
    + apply geo_upd_dirty. intros r; cbn. rewrite mark_length. auto.
  - destruct (run_step hm rs s) as [rs' out] eqn:E. cbn [fst].
    destruct (step_effs hm rs s rs' out Hwf R E) as [-> _]. apply geo_apply_effs.
Qed.

Fixpoint run_xhist (hostmod : N) (rs : list region) (xs : list xstep) : list sobs :=
  match xs with
  | [] => []
  | x :: r => let '(rs', out) := run_xstep hostmod rs x in obs_of rs' out :: run_xhist hostmod rs' r
  end.

Lemma run_xhist_lower hm xs : forall rs0 rs, wf rs -> map geo rs0 = map geo rs ->
  run_xhist hm rs xs = run_hist hm rs (map (lower rs0) xs).
Proof.
  induction xs as [|x xs IH]; intros rs0 rs Hwf G; cbn [run_xhist run_hist map]; [reflexivity|].
  rewrite run_xstep_lower, (lower_geo rs rs0 x (eq_sym G)).
  pose proof (wf_step hm rs (lower rs0 x) Hwf) as Hwf'.
  pose proof (geo_step hm rs (lower rs0 x) Hwf) as G'.
  destruct (run_step hm rs (lower rs0 x)) as [rs' out]; cbn [fst] in Hwf', G'.
  f_equal. apply IH; [exact Hwf'|]. rewrite G'. exact G.
Qed.

(* what the suite computes (run_hist over the lowered steps of the initial state) IS the history of the
   extended steps, and it satisfies both checkers *)
Lemma xhist_is_suite_model hm xs rs : wf rs -> run_xhist hm rs xs = run_hist hm rs (map (lower rs) xs).
Proof. intros H. apply run_xhist_lower; [exact H|reflexivity]. Qed.

Lemma C05_xmodel_ok_lemma hm xs rs : wf rs ->
  ok_hist ok_C05_step (map geom_of rs) (view rs) (map kind_of (map (lower rs) xs)) (run_xhist hm rs xs) = true.
Proof. intros H. rewrite xhist_is_suite_model by exact H. apply C05_model_ok_lemma. exact H. Qed.

Lemma C16_xmodel_ok_lemma hm xs rs : wf rs ->
  ok_hist ok_C16_step (map geom_of rs) (view rs) (map kind_of (map (lower rs) xs)) (run_xhist hm rs xs) = true.
Proof. intros H. rewrite xhist_is_suite_model by exact H. apply C16_model_ok_lemma. exact H. Qed.

(* ---- region layer, C16: an exact read from an in-memory source that FAILS (target out of range, or the source
   shorter than the request) has no effect at all: nothing stored, mark_dirty not called, the state is the same *)
Lemma region_exact_read_failure_lemma hm rs ri cnt addr srclen rs' out :
  run_xstep hm rs (XRegion ri (OReadExactFrom cnt addr srclen)) = (rs', out) ->
  o_ok out = false -> rs' = rs /\ o_effs out = [].
Proof.
  cbn [run_xstep]. destruct (nth_error rs ri) as [r|].
  - unfold run_sop; cbn [a_kind root a_len].
    destruct (checked_add addr cnt) as [e|]; [|intros H _; inversion H; split; reflexivity].
    destruct (r_size r <? e); [intros H _; inversion H; split; reflexivity|].
    destruct (srclen <? cnt); [intros H _; inversion H; split; reflexivity|].
    intros H Hok. inversion H; subst. cbn in Hok. discriminate.
  - intros H _. inversion H. split; reflexivity.
Qed.

(* ... and the requests it accepts write and mark exactly [addr, addr + cnt) of the region *)
Lemma region_exact_read_success_lemma hm rs ri r cnt addr srclen rs' out :
  nth_error rs ri = Some r ->
  run_xstep hm rs (XRegion ri (OReadExactFrom cnt addr srclen)) = (rs', out) ->
  o_ok out = true ->
  o_effs out = [{| e_r := ri; e_woff := addr; e_wn := cnt; e_moff := bm_at 0 addr; e_mlen := cnt |}]
  /\ addr + cnt <= r_size r /\ cnt <= srclen.
Proof.
  intros Hr. cbn [run_xstep]. rewrite Hr. unfold run_sop; cbn [a_kind root a_len].
  destruct (checked_add addr cnt) as [e|] eqn:E; [|intros H Hok; inversion H; subst; discriminate].
  apply checked_add_Some in E. destruct E as [-> _].
  destruct (N.ltb_spec (r_size r) (addr + cnt)) as [L1|L1]; [intros H Hok; inversion H; subst; discriminate|].
  destruct (N.ltb_spec srclen cnt) as [L2|L2]; [intros H Hok; inversion H; subst; discriminate|].
  intros H _. inversion H; subst. cbn [o_effs done]. unfold weff; cbn [a_off a_bm root].
  rewrite N.add_0_l. split; [reflexivity|]. split; [exact L1|exact L2].
Qed.

(* ---- pointer guards are queries: taking (and dropping) ptr_guard() / ptr_guard_mut() of ANY accessor - slice, typed
   reference, element array, from any root by any chain - has no effect: nothing stored, mark_dirty not called, same state *)
Lemma guard_is_query_lemma hm rs ri k ch rs' out :
  run_xstep hm rs (XGuard ri k ch) = (rs', out) -> rs' = rs /\ o_effs out = [].
Proof.
  cbn [run_xstep]. destruct (nth_error rs ri) as [r|]; [|intros H; inversion H; split; reflexivity].
  destruct (root_acc r k) as [a0|]; [|intros H; inversion H; split; reflexivity].
  destruct (derive_chain a0 ch) as [a|]; intros H; inversion H; split; reflexivity.
Qed.
