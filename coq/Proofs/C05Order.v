(* C05 and the ORDER of "store the bytes" and "mark_dirty" inside one write (Impl/Dirty.v, micro):
   1. the model never stores a byte after the last mark covering its page (late_of = 0): what the
      probing bitmap of the harness observes on the real code;
   2. soundness against a concurrent consumer of the dirty log: in EVERY interleaving of the
      micro-events of an operation with arbitrary bitmap resets, a byte stored after the last reset
      that clears its page is on a dirty page at the end;
   3. with the two micro-events swapped the statement is false (a witness). *)
From VM Require Import Prelude.MachInt Prelude.Tok Impl.Dirty Spec.C05 Suite.C05 Proofs.C05.

(* ------------------------------------------------------------------ 1. late_of = 0 *)
Lemma late_count_geo tr : forall rs rs' i, map geo rs = map geo rs' -> late_count i rs tr = late_count i rs' tr.
Proof.
  induction rs as [|x t IH]; intros [|y u] i H; cbn [map] in H; try discriminate; [reflexivity|].
  inversion H as [[G1 G2 G3 G4 G5 G6]]. cbn [late_count]. rewrite G3, G4, G5. f_equal. apply IH. exact G6.
Qed.

Lemma late_page_micro ri ps p es :
  (forall e, In e es -> writes_page ri ps p e = true -> marks_page ri ps p (MMark e) = true) ->
  late_page ri ps p (flat_map micro es) = false.
Proof.
  induction es as [|e es IH]; intros H; [reflexivity|].
  change (flat_map micro (e :: es)) with (MWrite e :: MMark e :: flat_map micro es).
  cbn [late_page existsb].
  assert (IH' : late_page ri ps p (flat_map micro es) = false).
  { apply IH. intros e' Hin. apply H. right. exact Hin. }
  rewrite IH'. destruct (writes_page ri ps p e) eqn:W; [|reflexivity].
  rewrite (H e (or_introl eq_refl) W). reflexivity.
Qed.

Lemma exact_mark_covers r e ri p : r_size r < W64 -> 0 < r_ps r -> eff_exact r e ->
  writes_page ri (r_ps r) p e = true -> marks_page ri (r_ps r) p (MMark e) = true.
Proof.
  intros Hsz Hps (Hm & Hb & Hw) W. unfold writes_page in W. unfold marks_page.
  apply andb_true_iff in W. destruct W as [W W4]. apply andb_true_iff in W. destruct W as [W W3].
  apply andb_true_iff in W. destruct W as [W1 W2].
  apply N.ltb_lt in W2. apply N.leb_le in W3. apply N.leb_le in W4.
  rewrite W1. cbn [andb].
  destruct (N.eqb_spec (e_mlen e) 0) as [Hz|Hz]; [lia|]. cbn [negb andb].
  unfold page_in, saturating_add. rewrite Hm.
  replace (N.min (e_woff e + (e_mlen e - 1)) (W64 - 1)) with (e_woff e + e_mlen e - 1) by lia.
  assert (Hle : (e_woff e + e_wn e - 1) / r_ps r <= (e_woff e + e_mlen e - 1) / r_ps r)
    by (apply N.div_le_mono; lia).
  apply andb_true_iff. split; apply N.leb_le; lia.
Qed.

Lemma filter_nil {A} (f : A -> bool) l : (forall x, In x l -> f x = false) -> filter f l = [].
Proof.
  induction l as [|x l IH]; intros H; [reflexivity|]. cbn [filter].
  rewrite (H x (or_introl eq_refl)). apply IH. intros y Hy. apply H. right. exact Hy.
Qed.

Lemma late_count_zero rs es : wf rs -> effs_ok rs es ->
  forall rs0 i, (forall k r, nth_error rs0 k = Some r -> nth_error rs (i + k) = Some r) ->
  late_count i rs0 (flat_map micro es) = 0.
Proof.
  intros Hwf Hok. induction rs0 as [|r t IH]; intros i H; [reflexivity|].
  cbn [late_count].
  rewrite (IH (S i)).
  2:{ intros k r' Hk. replace (S i + k)%nat with (i + S k)%nat by lia. apply H. exact Hk. }
  rewrite N.add_0_r. destruct (r_tracked r); [|reflexivity].
  rewrite filter_nil; [reflexivity|].
  intros p _. apply late_page_micro. intros e Hin W.
  assert (Hr : nth_error rs i = Some r).
  { replace i with (i + 0)%nat by lia. apply H. reflexivity. }
  pose proof (region_ok_of_wf rs i r Hwf Hr) as (Hps & Hsz & _).
  unfold effs_ok in Hok. rewrite Forall_forall in Hok. destruct (Hok e Hin) as (r0 & Hr0 & Hex).
  assert (Hri : e_r e = i).
  { unfold writes_page in W. destruct (Nat.eqb_spec (e_r e) i) as [E|E]; [exact E|discriminate]. }
  rewrite Hri, Hr in Hr0. inversion Hr0; subst r0.
  apply (exact_mark_covers r e i p Hsz Hps Hex W).
Qed.

Lemma late_of_zero_lemma rs es : wf rs -> effs_ok rs es -> late_of rs es = 0.
Proof.
  intros Hwf Hok. unfold late_of. apply (late_count_zero rs es Hwf Hok rs 0%nat).
  intros k r Hk. exact Hk.
Qed.

Lemma late_count_nil : forall rs i, late_count i rs [] = 0.
Proof.
  induction rs as [|r t IH]; intros i; [reflexivity|]. cbn [late_count]. rewrite IH, N.add_0_r.
  destruct (r_tracked r); [|reflexivity]. rewrite filter_nil; [reflexivity|]. intros; reflexivity.
Qed.

(* as the harness sees it: on the state AFTER the step *)
Lemma late_of_step_zero hm rs s rs' out : wf rs -> run_step hm rs s = (rs', out) -> late_of rs' (o_effs out) = 0.
Proof.
  intros Hwf H. destruct (is_reset s) eqn:R.
  - destruct s; try discriminate; cbn [run_step] in H; inversion H; subst; apply late_count_nil.
  - destruct (step_effs hm rs s rs' out Hwf R H) as [-> Hok].
    unfold late_of. rewrite (late_count_geo _ _ rs 0%nat (geo_apply_effs (o_effs out) rs)).
    apply late_of_zero_lemma; assumption.
Qed.

(* ------------------------------------------------------------------ 2. interleaved resets *)
Inductive interleave {A : Type} : list A -> list A -> list A -> Prop :=
| il_nil : interleave [] [] []
| il_l x a b t : interleave a b t -> interleave (x :: a) b (x :: t)
| il_r y a b t : interleave a b t -> interleave a (y :: b) (y :: t).

Definition is_reset_ev (ev : mev) : bool :=
  match ev with MReset _ _ _ | MResetAll _ => true | _ => false end.

(* does the event clear page p of region j (ps: that region's page size)? *)
Definition clears (ps : N) (j : nat) (p : N) (ev : mev) : bool :=
  match ev with
  | MResetAll ri => Nat.eqb ri j
  | MReset ri off len => Nat.eqb ri j && negb (len =? 0) && page_in ps off len p
  | _ => false
  end.

Lemma interleave_split {A} (x : A) : forall pre a b post, interleave a b (pre ++ x :: post) ->
  (exists a1 a2 b2, a = a1 ++ x :: a2 /\ interleave a2 b2 post /\ (forall y, In y b2 -> In y b)) \/
  In x b.
Proof.
  induction pre as [|z pre IH]; intros a b post H; cbn [app] in H.
  - inversion H as [|x' a' b' t' Hi'|y' a' b' t' Hi']; subst.
    + left. exists [], a', b. split; [reflexivity|]. split; [assumption|]. intros y Hy; exact Hy.
    + right. left. reflexivity.
  - inversion H as [|x' a' b' t' Hi'|y' a' b' t' Hi']; subst.
    + destruct (IH _ _ _ Hi') as [(a1 & a2 & b2 & -> & Hi & Hb)|Hin].
      * left. exists (z :: a1), a2, b2. split; [reflexivity|]. split; assumption.
      * right. exact Hin.
    + destruct (IH _ _ _ Hi') as [(a1 & a2 & b2 & -> & Hi & Hb)|Hin].
      * left. exists a1, a2, b2. split; [reflexivity|]. split; [assumption|]. intros y Hy. right. apply Hb. exact Hy.
      * right. right. exact Hin.
Qed.

Lemma micro_write_then_mark e : forall es a1 a2, flat_map micro es = a1 ++ MWrite e :: a2 ->
  exists a3, a2 = MMark e :: a3.
Proof.
  induction es as [|e0 es IH]; intros a1 a2 H.
  - destruct a1; discriminate.
  - change (flat_map micro (e0 :: es)) with (MWrite e0 :: MMark e0 :: flat_map micro es) in H.
    destruct a1 as [|y [|z a1]]; cbn [app] in H.
    + injection H as H1 H2. subst. eexists. reflexivity.
    + injection H as H1 H2 H3. discriminate.
    + injection H as H1 H2 H3. apply (IH _ _ H3).
Qed.

Lemma interleave_head_in {A} (x : A) : forall b a t, interleave (x :: a) b t ->
  exists t1 t2 b2, t = t1 ++ x :: t2 /\ (forall y, In y t1 -> In y b) /\ interleave a b2 t2 /\ (forall y, In y b2 -> In y b).
Proof.
  induction b as [|y b IH]; intros a t H; inversion H as [|x' a' b' t' Hi'|y' a' b' t' Hi']; subst.
  - exists [], t', []. split; [reflexivity|]. split; [intros ? []|]. split; [assumption|intros ? []].
  - exists [], t', (y :: b). split; [reflexivity|]. split; [intros ? []|]. split; [assumption|auto].
  - destruct (IH _ _ Hi') as (t1 & t2 & b2 & -> & Hin & Hi & Hb).
    exists (y :: t1), t2, b2. split; [reflexivity|]. split.
    + intros z [<-|Hz]; [left; reflexivity|right; apply Hin; exact Hz].
    + split; [exact Hi|]. intros z Hz. right. apply Hb. exact Hz.
Qed.

Lemma interleave_in {A} : forall (a b t : list A), interleave a b t -> forall x, In x t -> In x a \/ In x b.
Proof.
  induction 1; intros z Hz; [destruct Hz| |].
  - destruct Hz as [<-|Hz]; [left; left; reflexivity|]. destruct (IHinterleave z Hz); [left; right|right]; assumption.
  - destruct Hz as [<-|Hz]; [right; left; reflexivity|]. destruct (IHinterleave z Hz); [left|right; right]; assumption.
Qed.

Lemma geo_apply_mev rs ev : map geo (apply_mev rs ev) = map geo rs.
Proof.
  destruct ev; cbn [apply_mev]; [reflexivity|apply geo_apply_eff| |].
  - apply geo_upd_dirty. intros r; cbn. rewrite mark_length. auto.
  - apply geo_upd_dirty. intros r; cbn. rewrite map_length. auto.
Qed.
Lemma geo_apply_mevs tr : forall rs, map geo (apply_mevs rs tr) = map geo rs.
Proof.
  induction tr as [|ev tr IH]; intros rs; cbn [apply_mevs fold_left]; [reflexivity|].
  change (fold_left apply_mev tr (apply_mev rs ev)) with (apply_mevs (apply_mev rs ev) tr).
  rewrite IH. apply geo_apply_mev.
Qed.

Lemma geo_nth rs rs' j r : map geo rs = map geo rs' -> nth_error rs j = Some r ->
  exists r', nth_error rs' j = Some r' /\ geo r' = geo r.
Proof.
  intros H Hj.
  assert (G : option_map geo (nth_error rs j) = option_map geo (nth_error rs' j)).
  { rewrite <- !nth_error_map. rewrite H. reflexivity. }
  rewrite Hj in G. destruct (nth_error rs' j) as [r'|]; cbn [option_map] in G; [|discriminate].
  exists r'. split; [reflexivity|]. congruence.
Qed.

(* an event that does not clear page p of region j leaves a set bit set *)
Lemma D_kept rs ev j p r : nth_error rs j = Some r -> clears (r_ps r) j p ev = false ->
  D rs j p = true -> D (apply_mev rs ev) j p = true.
Proof.
  intros Hj Hc HD. destruct ev as [e|e|ri off len|ri]; cbn [apply_mev].
  - exact HD.
  - rewrite D_apply_eff, HD. reflexivity.
  - unfold D in *. rewrite nth_error_upd_nth. cbn [clears] in Hc.
    destruct (Nat.eqb_spec ri j) as [->|Hne]; [|exact HD].
    rewrite Hj in *. cbn [option_map]. unfold set_dirty; cbn [r_tracked r_dirty].
    apply andb_true_iff in HD. destruct HD as [Ht Hb]. rewrite Ht. cbn [andb].
    rewrite mark_spec. cbn [andb] in Hc.
    destruct (len =? 0); [exact Hb|]. cbn [negb andb] in Hc. rewrite Hc. cbn [andb]. exact Hb.
  - unfold D in *. rewrite nth_error_upd_nth. cbn [clears] in Hc. rewrite Hc. exact HD.
Qed.

Lemma D_kept_trace j p ps : forall tr rs r, nth_error rs j = Some r -> r_ps r = ps ->
  (forall ev, In ev tr -> clears ps j p ev = false) ->
  D rs j p = true -> D (apply_mevs rs tr) j p = true.
Proof.
  induction tr as [|ev tr IH]; intros rs r Hj Hps Hc HD; cbn [apply_mevs fold_left]; [exact HD|].
  change (fold_left apply_mev tr (apply_mev rs ev)) with (apply_mevs (apply_mev rs ev) tr).
  destruct (geo_nth _ _ j r (eq_sym (geo_apply_mev rs ev)) Hj) as (r' & Hj' & Hg).
  apply (IH _ r' Hj').
  - unfold geo in Hg. congruence.
  - intros ev' Hin. apply Hc. right. exact Hin.
  - apply (D_kept rs ev j p r Hj); [rewrite Hps; apply Hc; left; reflexivity|exact HD].
Qed.

Lemma apply_mevs_app rs t1 t2 : apply_mevs rs (t1 ++ t2) = apply_mevs (apply_mevs rs t1) t2.
Proof. unfold apply_mevs. apply fold_left_app. Qed.

(* the mark of an exact effect sets the page of each of its written bytes, in any state of the
   same geometry *)
Lemma mark_sets rs rs1 e r i : wf rs -> map geo rs1 = map geo rs ->
  nth_error rs (e_r e) = Some r -> eff_exact r e -> r_tracked r = true ->
  e_woff e <= i < e_woff e + e_wn e ->
  D (apply_eff rs1 e) (e_r e) (i / r_ps r) = true.
Proof.
  intros Hwf Hg Hr (Hm & Hb & Hw) Ht Hi.
  pose proof (region_ok_of_wf rs (e_r e) r Hwf Hr) as (Hps & Hsz & Hlen).
  rewrite D_apply_eff. apply orb_true_iff. right.
  rewrite (hit_geo rs1 rs e (e_r e) (i / r_ps r) Hg).
  unfold hit. rewrite Hr, Nat.eqb_refl, Ht. cbn [andb].
  destruct (N.eqb_spec (e_mlen e) 0); [lia|]. cbn [negb andb].
  apply andb_true_iff. split.
  - apply page_in_overlap; try lia. exists i. split; [lia|reflexivity].
  - apply N.ltb_lt. rewrite Hlen, N2Nat.id. apply div_lt_npages; lia.
Qed.

Theorem sound_under_interleaved_resets_lemma : forall rs es resets tr,
  wf rs -> effs_ok rs es ->
  Forall (fun ev => is_reset_ev ev = true) resets ->
  interleave (flat_map micro es) resets tr ->
  forall pre e post, tr = pre ++ MWrite e :: post ->
  forall r, nth_error rs (e_r e) = Some r -> r_tracked r = true ->
  forall i, e_woff e <= i < e_woff e + e_wn e ->
  (forall ev, In ev post -> clears (r_ps r) (e_r e) (i / r_ps r) ev = false) ->
  D (apply_mevs rs tr) (e_r e) (i / r_ps r) = true.
Proof.
  intros rs es resets tr Hwf Hok Hres Hil pre e post -> r Hr Ht i Hi Hclr.
  rewrite Forall_forall in Hres.
  destruct (interleave_split (MWrite e) pre _ _ post Hil) as [(a1 & a2 & b2 & Ha & Hi2 & Hb2)|Hin].
  2:{ apply Hres in Hin. discriminate. }
  destruct (micro_write_then_mark e es a1 a2 Ha) as (a3 & ->).
  destruct (interleave_head_in (MMark e) b2 a3 post Hi2) as (t1 & t2 & b3 & -> & _ & _ & _).
  (* the effect e is one of es, hence exact *)
  assert (Hine : In e es).
  { assert (X : In (MWrite e) (flat_map micro es)) by (rewrite Ha; apply in_or_app; right; left; reflexivity).
    apply in_flat_map in X. destruct X as (e' & He' & [X|[X|[]]]); [injection X as ->; exact He'|discriminate]. }
  unfold effs_ok in Hok. rewrite Forall_forall in Hok. destruct (Hok e Hine) as (r0 & Hr0 & Hex).
  rewrite Hr in Hr0. inversion Hr0; subst r0.
  replace (pre ++ MWrite e :: t1 ++ MMark e :: t2) with ((pre ++ MWrite e :: t1) ++ [MMark e] ++ t2)
    by (rewrite <- !app_assoc; reflexivity).
  rewrite (apply_mevs_app rs (pre ++ MWrite e :: t1)).
  set (rs1 := apply_mevs rs (pre ++ MWrite e :: t1)).
  rewrite (apply_mevs_app rs1 [MMark e] t2).
  assert (Hg1 : map geo rs1 = map geo rs) by apply geo_apply_mevs.
  change (apply_mevs rs1 [MMark e]) with (apply_eff rs1 e).
  assert (Hg2 : map geo (apply_eff rs1 e) = map geo rs) by (rewrite geo_apply_eff; exact Hg1).
  destruct (geo_nth _ _ (e_r e) r (eq_sym Hg2) Hr) as (r2 & Hr2 & Hgr).
  apply (D_kept_trace (e_r e) (i / r_ps r) (r_ps r) t2 _ r2 Hr2).
  - unfold geo in Hgr. congruence.
  - intros ev Hin. apply Hclr. apply in_or_app. right. right. exact Hin.
  - apply (mark_sets rs rs1 e r i Hwf Hg1 Hr Hex Ht Hi).
Qed.

(* ------------------------------------------------------------------ 3. the order matters *)
Example mark_first_is_unsound :
  let r := {| r_start := 0; r_size := 16; r_ps := 4; r_tracked := true; r_dirty := [false; false; false; false] |} in
  let e := {| e_r := 0%nat; e_woff := 5; e_wn := 2; e_moff := 5; e_mlen := 2 |} in
  wf [r] /\ effs_ok [r] [e] /\
  (* mark, consumer resets (and copies the page), then the bytes change: page 1 is clean *)
  D (apply_mevs [r] [MMark e; MResetAll 0; MWrite e]) 0 1 = false /\
  (* the order of the code: the same consumer pass between the two events leaves page 1 dirty *)
  D (apply_mevs [r] [MWrite e; MResetAll 0; MMark e]) 0 1 = true.
Proof.
  cbv zeta. split; [|split; [|split; reflexivity]].
  - constructor; [|constructor]. unfold region_ok; cbn. split; [lia|]. split; [rewrite W64_val; lia|reflexivity].
  - constructor; [|constructor]. eexists. split; [reflexivity|]. unfold eff_exact; cbn. lia.
Qed.
