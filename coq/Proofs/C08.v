(* C08 lemmas: executions of the bitmap's atomic primitives (Impl/BitmapConc.v).
   1 one primitive step on every bit; 2 arbitrary event lists: a set bit persists until the first
   primitive that clears it, and that primitive returns it (conservation); every reported bit was
   set by an earlier primitive or initially (soundness); 3 the programs of the library operations. *)
From VM Require Import Prelude.MachInt Prelude.Outcome Prelude.Tok Impl.Bitmap Impl.BitmapConc
  Spec.C09 Spec.C08 Suite.C08 Proofs.C09.

Definition bitm (mm : mem) (p : N) : bool := N.testbit (nth (N.to_nat (p / 64)) mm 0) (p mod 64).
(* does the primitive set / preserve bit p (page p = bit p mod 64 of word p / 64) *)
Definition sets (pr : prim) (p : N) : bool :=
  match pr with
  | FetchOr w m | Store w m => (p / 64 =? w) && N.testbit m (p mod 64)
  | _ => false
  end.
Definition keeps (pr : prim) (p : N) : bool :=
  match pr with
  | FetchAnd w m | Store w m => negb (p / 64 =? w) || N.testbit m (p mod 64)
  | _ => true
  end.
Definition in_range (mm : mem) (tr : list event) : Prop :=
  Forall (fun e => (N.to_nat (prim_word (e_prim e)) < length mm)%nat) tr.

(* ---------------------------------------------------------------- 1. one step *)
Lemma step_length mm pr : length (fst (prim_step mm pr)) = length mm.
Proof. unfold prim_step; cbn [fst]. apply upd_length. Qed.

Lemma step_bit mm pr p : (N.to_nat (prim_word pr) < length mm)%nat ->
  bitm (fst (prim_step mm pr)) p = (bitm mm p && keeps pr p) || sets pr p.
Proof.
  intros Hr. unfold prim_step, bitm; cbn [fst]. rewrite nth_upd by assumption.
  destruct (Nat.eqb_spec (N.to_nat (prim_word pr)) (N.to_nat (p / 64))) as [E|E].
  - assert (Hw : p / 64 = prim_word pr) by lia. rewrite <- E.
    destruct pr as [w m|w m|w|w v]; cbn [prim_word prim_new sets keeps] in *; rewrite ?Hw, ?N.eqb_refl; cbn [negb orb andb].
    + rewrite N.lor_spec, andb_true_r. reflexivity.
    + rewrite N.land_spec, orb_false_r. reflexivity.
    + rewrite andb_true_r, orb_false_r. reflexivity.
    + destruct (N.testbit (nth (N.to_nat w) mm 0) (p mod 64)), (N.testbit v (p mod 64)); reflexivity.
  - assert (Hw : (p / 64 =? prim_word pr) = false) by (apply N.eqb_neq; intros H; apply E; rewrite H; reflexivity).
    destruct pr as [w m|w m|w|w v]; cbn [prim_word sets keeps] in *; rewrite ?Hw; cbn [negb orb andb];
      rewrite ?andb_true_r, ?orb_false_r; reflexivity.
Qed.

Lemma step_old mm pr p : p / 64 = prim_word pr ->
  N.testbit (snd (prim_step mm pr)) (p mod 64) = bitm mm p.
Proof. intros Hw. unfold prim_step, bitm; cbn [snd]. rewrite Hw. reflexivity. Qed.

Lemma keeps_false_word pr p : keeps pr p = false -> p / 64 = prim_word pr.
Proof.
  destruct pr as [w m|w m|w|w v]; cbn [keeps prim_word]; try discriminate;
    intros H; apply orb_false_iff in H; destruct H as [H _]; apply negb_false_iff, N.eqb_eq in H; assumption.
Qed.

(* two marks never erase one another: a fetch_or (and a load) preserves every bit *)
Lemma fetch_or_keeps_lemma : forall w m p, keeps (FetchOr w m) p = true /\ keeps (Load w) p = true.
Proof. intros; split; reflexivity. Qed.

(* ---------------------------------------------------------------- 2. event lists *)
Lemma in_range_step mm e tr : in_range mm (e :: tr) ->
  (N.to_nat (prim_word (e_prim e)) < length mm)%nat /\ in_range (fst (prim_step mm (e_prim e))) tr.
Proof.
  intros H. inversion H as [|x l Hx Hl]; subst. split; [assumption|].
  unfold in_range. rewrite step_length. assumption.
Qed.

Lemma run_cons mm e tr :
  run_events mm (e :: tr) =
  (fst (run_events (fst (prim_step mm (e_prim e))) tr),
   (e, snd (prim_step mm (e_prim e))) :: snd (run_events (fst (prim_step mm (e_prim e))) tr)).
Proof.
  cbn [run_events]. destruct (prim_step mm (e_prim e)) as [mm1 old]. cbn [fst snd].
  destruct (run_events mm1 tr) as [mm2 lg]. reflexivity.
Qed.

(* a set bit stays set until the first primitive that does not keep it; that primitive returns it *)
Lemma persist_lemma : forall tr mm p, in_range mm tr -> bitm mm p = true ->
  bitm (fst (run_events mm tr)) p = true \/
  exists tra e trb old, tr = tra ++ e :: trb /\
    Forall (fun x => keeps (e_prim x) p = true) tra /\ keeps (e_prim e) p = false /\
    nth_error (snd (run_events mm tr)) (length tra) = Some (e, old) /\ N.testbit old (p mod 64) = true.
Proof.
  induction tr as [|e tr IH]; intros mm p Hr Hb.
  - left. assumption.
  - apply in_range_step in Hr. destruct Hr as [Hr0 Hr1]. rewrite run_cons. cbn [fst snd].
    destruct (keeps (e_prim e) p) eqn:Ek.
    + assert (Hb1 : bitm (fst (prim_step mm (e_prim e))) p = true)
        by (rewrite step_bit by assumption; rewrite Hb, Ek; reflexivity).
      destruct (IH _ p Hr1 Hb1) as [H|(tra & e' & trb & old & -> & Hk & Hc & Hn & Ht)]; [left; assumption|].
      right. exists (e :: tra), e', trb, old. split; [reflexivity|]. split; [constructor; assumption|].
      split; [assumption|]. split; [exact Hn|assumption].
    + right. exists [], e, tr, (snd (prim_step mm (e_prim e))). split; [reflexivity|]. split; [constructor|].
      split; [assumption|]. split; [reflexivity|].
      rewrite step_old by (apply keeps_false_word; assumption). assumption.
Qed.

(* CONSERVATION: a mark (any primitive that sets bit p) executed anywhere in any event list is
   either still set at the end, or the first later primitive that clears bit p - a fetch_and with
   that bit off (the harvest's fetch_and(0), a reset-range's fetch_and(!mask)) or a store -
   returned an old value containing it.  No bound on threads, length or interleaving. *)
Lemma mark_conserved_lemma : forall tr1 e tr2 mm p, in_range mm (tr1 ++ e :: tr2) ->
  sets (e_prim e) p = true ->
  bitm (fst (run_events mm (tr1 ++ e :: tr2))) p = true \/
  exists tra e' trb old, tr2 = tra ++ e' :: trb /\
    Forall (fun x => keeps (e_prim x) p = true) tra /\ keeps (e_prim e') p = false /\
    nth_error (snd (run_events mm (tr1 ++ e :: tr2))) (length tr1 + 1 + length tra) = Some (e', old) /\
    N.testbit old (p mod 64) = true.
Proof.
  induction tr1 as [|x tr1 IH]; intros e tr2 mm p Hr Hs.
  - cbn [app] in *. apply in_range_step in Hr. destruct Hr as [Hr0 Hr1]. rewrite run_cons. cbn [fst snd].
    assert (Hb1 : bitm (fst (prim_step mm (e_prim e))) p = true)
      by (rewrite step_bit by assumption; rewrite Hs; apply orb_true_r).
    destruct (persist_lemma tr2 _ p Hr1 Hb1) as [H|(tra & e' & trb & old & -> & Hk & Hc & Hn & Ht)]; [left; assumption|].
    right. exists tra, e', trb, old. repeat split; auto.
  - cbn [app] in *. apply in_range_step in Hr. destruct Hr as [Hr0 Hr1]. rewrite run_cons. cbn [fst snd].
    destruct (IH e tr2 _ p Hr1 Hs) as [H|(tra & e' & trb & old & -> & Hk & Hc & Hn & Ht)]; [left; assumption|].
    right. exists tra, e', trb, old. repeat split; auto.
Qed.

(* SOUNDNESS: a bit in the value returned by any primitive (so: in any harvest result, clone or
   is_bit_set answer) was set initially or by an earlier primitive of the execution *)
Lemma report_sound_lemma : forall tr mm i e old p, in_range mm tr ->
  nth_error (snd (run_events mm tr)) i = Some (e, old) -> p / 64 = prim_word (e_prim e) ->
  N.testbit old (p mod 64) = true ->
  bitm mm p = true \/ exists j e0, (j < i)%nat /\ nth_error tr j = Some e0 /\ sets (e_prim e0) p = true.
Proof.
  induction tr as [|x tr IH]; intros mm i e old p Hr Hn Hw Ht.
  - destruct i; discriminate.
  - apply in_range_step in Hr. destruct Hr as [Hr0 Hr1]. rewrite run_cons in Hn. cbn [snd] in Hn.
    destruct i as [|i]; cbn [nth_error] in Hn.
    + inversion Hn; subst. left. rewrite <- (step_old mm (e_prim e) p Hw). assumption.
    + destruct (IH _ _ _ _ p Hr1 Hn Hw Ht) as [Hb|(j & e0 & Hj & Hn0 & Hs)].
      * rewrite step_bit in Hb by assumption. apply orb_true_iff in Hb. destruct Hb as [Hb|Hb].
        -- left. apply andb_true_iff in Hb. apply Hb.
        -- right. exists O, x. split; [lia|]. split; [reflexivity|assumption].
      * right. exists (S j), e0. split; [lia|]. split; assumption.
Qed.
Lemma final_sound_lemma : forall tr mm p, in_range mm tr -> bitm (fst (run_events mm tr)) p = true ->
  bitm mm p = true \/ exists j e0, nth_error tr j = Some e0 /\ sets (e_prim e0) p = true.
Proof.
  induction tr as [|x tr IH]; intros mm p Hr Hb.
  - left. assumption.
  - apply in_range_step in Hr. destruct Hr as [Hr0 Hr1]. rewrite run_cons in Hb. cbn [fst] in Hb.
    destruct (IH _ p Hr1 Hb) as [Hb1|(j & e0 & Hn0 & Hs)].
    + rewrite step_bit in Hb1 by assumption. apply orb_true_iff in Hb1. destruct Hb1 as [Hb1|Hb1].
      * left. apply andb_true_iff in Hb1. apply Hb1.
      * right. exists O, x. split; [reflexivity|assumption].
    + right. exists (S j), e0. split; assumption.
Qed.

(* ---------------------------------------------------------------- 3. the library's programs *)
Definition mark_prim (q : N) : prim := FetchOr (shr6 q) (bit_mask q).
Definition clear_prim (q : N) : prim := FetchAnd (shr6 q) (not64 (bit_mask q)).

Lemma shr6_eq i : shr6 i = i / 64.
Proof. unfold shr6. rewrite N.shiftr_div_pow2. change (2 ^ 6) with 64. reflexivity. Qed.

Lemma sets_mark q p : sets (mark_prim q) p = (p =? q).
Proof.
  unfold mark_prim, sets. rewrite shr6_eq, bit_mask_eq, N.pow2_bits_eqb.
  destruct (N.eqb_spec p q) as [->|Hn]; [rewrite !N.eqb_refl; reflexivity|].
  destruct (N.eqb_spec (p / 64) (q / 64)) as [Hq|Hq]; [|reflexivity].
  destruct (N.eqb_spec (q mod 64) (p mod 64)) as [Hm|Hm]; [|reflexivity].
  exfalso. apply Hn. apply split64_eq; auto.
Qed.
Lemma keeps_mark q p : keeps (mark_prim q) p = true.
Proof. reflexivity. Qed.
Lemma keeps_clear q p : keeps (clear_prim q) p = negb (p =? q).
Proof.
  unfold clear_prim, keeps. rewrite shr6_eq, bit_mask_eq.
  rewrite not64_pow2_bit by apply mod64_lt.
  destruct (N.eqb_spec p q) as [->|Hn]; [rewrite !N.eqb_refl; reflexivity|].
  destruct (N.eqb_spec (p / 64) (q / 64)) as [Hq|Hq]; [|reflexivity].
  destruct (N.eqb_spec (q mod 64) (p mod 64)) as [Hm|Hm]; [|reflexivity].
  exfalso. apply Hn. apply split64_eq; auto.
Qed.
Lemma sets_clear q p : sets (clear_prim q) p = false.
Proof. reflexivity. Qed.

Lemma range_prog_In : forall fuel n last size set pr, (N.to_nat (size - n) < fuel)%nat ->
  (In pr (range_prog fuel n last size set) <->
   exists q, n <= q /\ q <= last /\ q < size /\ pr = if set then mark_prim q else clear_prim q).
Proof.
  induction fuel as [|f IH]; intros n last size set pr Hf; [lia|].
  cbn [range_prog].
  destruct (N.ltb_spec last n) as [Hl|Hl].
  { split; [intros []|]. intros (q & H1 & H2 & _). lia. }
  destruct (N.leb_spec size n) as [Hs|Hs].
  { split; [intros []|]. intros (q & H1 & _ & H3 & _). lia. }
  cbn [In]. rewrite IH by lia. split.
  - intros [H|(q & H1 & H2 & H3 & H4)].
    + exists n. repeat split; try lia. destruct set; symmetry; exact H.
    + exists q. repeat split; try lia. assumption.
  - intros (q & H1 & H2 & H3 & H4). destruct (N.eq_dec q n) as [->|Hn].
    + left. destruct set; symmetry; exact H4.
    + right. exists q. repeat split; try lia. assumption.
Qed.

Lemma set_reset_prog_In g a l set pr : 0 < g_ps g -> a < W64 ->
  (In pr (set_reset_prog g a l set) <->
   exists q, q < g_size g /\ touches (g_ps g) a l q /\ pr = if set then mark_prim q else clear_prim q).
Proof.
  intros Hps Ha. unfold set_reset_prog. destruct (N.eqb_spec l 0) as [->|Hl].
  - split; [intros []|]. intros (q & _ & (x & H1 & H2 & _) & _). lia.
  - assert (Hfuel : forall z, (N.to_nat (g_size g - z) < S (S (N.to_nat (g_size g))))%nat) by (intros z; lia).
    rewrite range_prog_In by apply Hfuel. split; intros (q & H).
    + destruct H as (H1 & H2 & H3 & H4). exists q. split; [assumption|]. split; [|assumption].
      apply overlaps_iff; [assumption|assumption|].
      pose proof (in_rng_overlaps (g_ps g) a l (g_size g) q Hps Ha ltac:(lia)) as E.
      unfold in_rng in E. destruct (N.leb_spec (a / g_ps g) q); [|lia].
      destruct (N.leb_spec q (saturating_add a (l - 1) / g_ps g)); [|lia].
      destruct (N.ltb_spec q (g_size g)); [|lia]. cbn [andb] in E. symmetry in E. exact E.
    + destruct H as (H3 & Ht & H4). apply overlaps_iff in Ht; [|assumption|assumption].
      pose proof (in_rng_overlaps (g_ps g) a l (g_size g) q Hps Ha ltac:(lia)) as E.
      rewrite Ht in E. destruct (N.ltb_spec q (g_size g)); [|lia]. cbn [andb] in E.
      unfold in_rng in E. apply andb_true_iff in E. destruct E as [E _]. apply andb_true_iff in E.
      destruct E as [E1 E2]. apply N.leb_le in E1, E2. exists q. repeat split; assumption.
Qed.

Lemma nseq_In k : forall a x, In x (nseq k a) <-> a <= x < a + N.of_nat k.
Proof.
  induction k as [|k IH]; intros a x; cbn [nseq In].
  - split; [tauto|lia].
  - rewrite IH. lia.
Qed.
Lemma word_ids_In g w : In w (word_ids g) <-> w < g_nwords g.
Proof. unfold word_ids. rewrite nseq_In. lia. Qed.

(* which pages the program of an operation sets, and which it clears *)
Lemma prog_sets_lemma : forall g o p, 0 < g_ps g -> wf_cop o = true ->
  ((exists pr, In pr (prog_of g o) /\ sets pr p = true) <->
   p < g_size g /\ match o with
                   | CSetRange a l => touches (g_ps g) a l p
                   | CSetBit i => p = i
                   | _ => False
                   end).
Proof.
  intros g o p Hps Hwf. destruct o as [a l|a l|i|i| | | |i]; cbn [prog_of wf_cop] in *; unfold u64b in Hwf;
    rewrite ?andb_true_iff, ?N.ltb_lt in Hwf.
  - destruct Hwf as [Ha _]. split.
    + intros (pr & Hin & Hs). apply (set_reset_prog_In g a l true pr Hps Ha) in Hin.
      destruct Hin as (q & H1 & H2 & ->). rewrite sets_mark in Hs. apply N.eqb_eq in Hs. subst. auto.
    + intros [H1 H2]. exists (mark_prim p). split; [|rewrite sets_mark; apply N.eqb_refl].
      apply (set_reset_prog_In g a l true _ Hps Ha). exists p. auto.
  - destruct Hwf as [Ha _]. split; [|tauto].
    intros (pr & Hin & Hs). apply (set_reset_prog_In g a l false pr Hps Ha) in Hin.
    destruct Hin as (q & _ & _ & ->). discriminate.
  - destruct (N.leb_spec (g_size g) i) as [H|H]; split.
    + intros (pr & [] & _).
    + intros [H1 ->]. lia.
    + intros (pr & [<-|[]] & Hs). fold (mark_prim i) in Hs. rewrite sets_mark in Hs. apply N.eqb_eq in Hs. subst. auto.
    + intros [H1 ->]. exists (mark_prim i). split; [left; reflexivity|rewrite sets_mark; apply N.eqb_refl].
  - split; [|tauto]. destruct (N.leb_spec (g_size g) i); intros (pr & Hin & Hs); [destruct Hin|].
    destruct Hin as [<-|[]]. discriminate.
  - split; [|tauto]. intros (pr & Hin & Hs). apply in_map_iff in Hin. destruct Hin as (w & <- & _). discriminate.
  - split; [|tauto]. intros (pr & Hin & Hs). apply in_map_iff in Hin. destruct Hin as (w & <- & _). discriminate.
  - split; [|tauto]. intros (pr & Hin & Hs). apply in_map_iff in Hin. destruct Hin as (w & <- & _).
    cbn [sets] in Hs. rewrite N.bits_0, andb_false_r in Hs. discriminate.
  - split; [|tauto]. destruct (N.ltb_spec i (g_size g)); intros (pr & Hin & Hs); [|destruct Hin].
    destruct Hin as [<-|[]]. discriminate.
Qed.

Lemma prog_clears_lemma : forall g o p, 0 < g_ps g -> wf_cop o = true ->
  ((exists pr, In pr (prog_of g o) /\ keeps pr p = false) <->
   match o with
   | CResetRange a l => p < g_size g /\ touches (g_ps g) a l p
   | CResetBit i => p = i /\ i < g_size g
   | CHarvest | CReset => p / 64 < g_nwords g
   | _ => False
   end).
Proof.
  intros g o p Hps Hwf. destruct o as [a l|a l|i|i| | | |i]; cbn [prog_of wf_cop] in *; unfold u64b in Hwf;
    rewrite ?andb_true_iff, ?N.ltb_lt in Hwf.
  - destruct Hwf as [Ha _]. split; [|tauto].
    intros (pr & Hin & Hs). apply (set_reset_prog_In g a l true pr Hps Ha) in Hin.
    destruct Hin as (q & _ & _ & ->). discriminate.
  - destruct Hwf as [Ha _]. split.
    + intros (pr & Hin & Hs). apply (set_reset_prog_In g a l false pr Hps Ha) in Hin.
      destruct Hin as (q & H1 & H2 & ->). rewrite keeps_clear in Hs. apply negb_false_iff, N.eqb_eq in Hs. subst. auto.
    + intros [H1 H2]. exists (clear_prim p). split; [|rewrite keeps_clear, N.eqb_refl; reflexivity].
      apply (set_reset_prog_In g a l false _ Hps Ha). exists p. auto.
  - split; [|tauto]. destruct (N.leb_spec (g_size g) i); intros (pr & Hin & Hs); [destruct Hin|].
    destruct Hin as [<-|[]]. discriminate.
  - destruct (N.leb_spec (g_size g) i) as [H|H]; split.
    + intros (pr & [] & _).
    + intros [-> H1]. lia.
    + intros (pr & [<-|[]] & Hs). fold (clear_prim i) in Hs. rewrite keeps_clear in Hs. apply negb_false_iff, N.eqb_eq in Hs. subst. auto.
    + intros [-> H1]. exists (clear_prim i). split; [left; reflexivity|rewrite keeps_clear, N.eqb_refl; reflexivity].
  - split.
    + intros (pr & Hin & Hs). apply in_map_iff in Hin. destruct Hin as (w & <- & Hw).
      apply keeps_false_word in Hs. cbn [prim_word] in Hs. rewrite Hs. apply word_ids_In. assumption.
    + intros H. exists (FetchAnd (p / 64) 0). split; [apply in_map_iff; exists (p / 64); split; [reflexivity|apply word_ids_In; assumption]|].
      cbn [keeps]. rewrite N.eqb_refl, N.bits_0. reflexivity.
  - split; [|tauto]. intros (pr & Hin & Hs). apply in_map_iff in Hin. destruct Hin as (w & <- & _). discriminate.
  - split.
    + intros (pr & Hin & Hs). apply in_map_iff in Hin. destruct Hin as (w & <- & Hw).
      apply keeps_false_word in Hs. cbn [prim_word] in Hs. rewrite Hs. apply word_ids_In. assumption.
    + intros H. exists (Store (p / 64) 0). split; [apply in_map_iff; exists (p / 64); split; [reflexivity|apply word_ids_In; assumption]|].
      cbn [keeps]. rewrite N.eqb_refl, N.bits_0. reflexivity.
  - split; [|tauto]. destruct (N.ltb_spec i (g_size g)); intros (pr & Hin & Hs); [|destruct Hin].
    destruct Hin as [<-|[]]. discriminate.
Qed.

(* no program touches a word outside the vector (so no primitive of the library can panic) *)
Lemma prog_in_range_lemma : forall g o pr, 0 < g_ps g -> wf_cop o = true ->
  In pr (prog_of g o) -> prim_word pr < g_nwords g.
Proof.
  assert (Hpage : forall g q, q < g_size g -> q / 64 < g_nwords g).
  { intros g q Hq. unfold g_nwords. pose proof (div_ceil_64_range _ _ Hq). lia. }
  intros g o pr Hps Hwf Hin. destruct o as [a l|a l|i|i| | | |i]; cbn [prog_of wf_cop] in *; unfold u64b in Hwf;
    rewrite ?andb_true_iff, ?N.ltb_lt in Hwf.
  - destruct Hwf as [Ha _]. apply (set_reset_prog_In g a l true pr Hps Ha) in Hin.
    destruct Hin as (q & H1 & _ & ->). cbn [mark_prim prim_word]. rewrite shr6_eq. auto.
  - destruct Hwf as [Ha _]. apply (set_reset_prog_In g a l false pr Hps Ha) in Hin.
    destruct Hin as (q & H1 & _ & ->). cbn [clear_prim prim_word]. rewrite shr6_eq. auto.
  - destruct (N.leb_spec (g_size g) i); [destruct Hin|]. destruct Hin as [<-|[]]. cbn [prim_word]. rewrite shr6_eq. auto.
  - destruct (N.leb_spec (g_size g) i); [destruct Hin|]. destruct Hin as [<-|[]]. cbn [prim_word]. rewrite shr6_eq. auto.
  - apply in_map_iff in Hin. destruct Hin as (w & <- & Hw). apply word_ids_In. assumption.
  - apply in_map_iff in Hin. destruct Hin as (w & <- & Hw). apply word_ids_In. assumption.
  - apply in_map_iff in Hin. destruct Hin as (w & <- & Hw). apply word_ids_In. assumption.
  - destruct (N.ltb_spec i (g_size g)); [|destruct Hin]. destruct Hin as [<-|[]]. cbn [prim_word]. rewrite shr6_eq. auto.
Qed.
