(* C08 lemmas. *)
From VM Require Import Prelude.MachInt Prelude.Outcome Prelude.Tok Impl.Bitmap Impl.BitmapConc Spec.C09 Spec.C08 Suite.C08.
Lemma c08_placeholder : True. Proof. exact I. Qed.
