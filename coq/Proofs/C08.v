(* C08 lemmas: executions of the bitmap's atomic primitives (Impl/BitmapConc.v).
   1 one primitive step on every bit; 2 arbitrary event lists: a set bit persists until the first
   primitive that clears it, and that primitive returns it (conservation); every reported bit was
   set by an earlier primitive or initially (soundness); 3 the programs of the library operations. *)
From VM Require Import Prelude.MachInt Prelude.Outcome Prelude.Tok Impl.Bitmap Impl.BitmapConc
  Spec.C09 Spec.C08 Suite.C08 Proofs.C09.
From Coq Require Import Sorting.Sorted.

Definition bitm (mm : mem) (p : N) : bool := N.testbit (nth (N.to_nat (p / 64)) mm 0) (p mod 64).
(* does the primitive set / preserve bit p (page p = bit p mod 64 of word p / 64) *)
Definition sets (pr : prim) (p : N) : bool :=
  match pr with
  | FetchOr w m | Store w m => (p / 64 =? w) && N.testbit m (p mod 64)
  | _ => false
  end.
Definition keeps (pr : prim) (p : N) : bool :=
  match pr with
  | FetchAnd w m | Store w m => negb (p / 64 =? w) || N.testbit m (p mod 64)
  | _ => true
  end.
Definition in_range (mm : mem) (tr : list event) : Prop :=
  Forall (fun e => (N.to_nat (prim_word (e_prim e)) < length mm)%nat) tr.

(* ---------------------------------------------------------------- 1. one step *)
Lemma step_length mm pr : length (fst (prim_step mm pr)) = length mm.
Proof. unfold prim_step; cbn [fst]. apply upd_length. Qed.

Lemma step_bit mm pr p : (N.to_nat (prim_word pr) < length mm)%nat ->
  bitm (fst (prim_step mm pr)) p = (bitm mm p && keeps pr p) || sets pr p.
Proof.
  intros Hr. unfold prim_step, bitm; cbn [fst]. rewrite nth_upd by assumption.
  destruct (Nat.eqb_spec (N.to_nat (prim_word pr)) (N.to_nat (p / 64))) as [E|E].
  - assert (Hw : p / 64 = prim_word pr) by lia. rewrite <- E.
    destruct pr as [w m|w m|w|w v]; cbn [prim_word prim_new sets keeps] in *; rewrite ?Hw, ?N.eqb_refl; cbn [negb orb andb].
    + rewrite N.lor_spec, andb_true_r. reflexivity.
    + rewrite N.land_spec, orb_false_r. reflexivity.
    + rewrite andb_true_r, orb_false_r. reflexivity.
    + destruct (N.testbit (nth (N.to_nat w) mm 0) (p mod 64)), (N.testbit v (p mod 64)); reflexivity.
  - assert (Hw : (p / 64 =? prim_word pr) = false) by (apply N.eqb_neq; intros H; apply E; rewrite H; reflexivity).
    destruct pr as [w m|w m|w|w v]; cbn [prim_word sets keeps] in *; rewrite ?Hw; cbn [negb orb andb];
      rewrite ?andb_true_r, ?orb_false_r; reflexivity.
Qed.

Lemma step_old mm pr p : p / 64 = prim_word pr ->
  N.testbit (snd (prim_step mm pr)) (p mod 64) = bitm mm p.
Proof. intros Hw. unfold prim_step, bitm; cbn [snd]. rewrite Hw. reflexivity. Qed.

Lemma keeps_false_word pr p : keeps pr p = false -> p / 64 = prim_word pr.
Proof.
  destruct pr as [w m|w m|w|w v]; cbn [keeps prim_word]; try discriminate;
    intros H; apply orb_false_iff in H; destruct H as [H _]; apply negb_false_iff, N.eqb_eq in H; assumption.
Qed.

(* two marks never erase one another: a fetch_or (and a load) preserves every bit *)
Lemma fetch_or_keeps_lemma : forall w m p, keeps (FetchOr w m) p = true /\ keeps (Load w) p = true.
Proof. intros; split; reflexivity. Qed.

(* ---------------------------------------------------------------- 2. event lists *)
Lemma in_range_step mm e tr : in_range mm (e :: tr) ->
  (N.to_nat (prim_word (e_prim e)) < length mm)%nat /\ in_range (fst (prim_step mm (e_prim e))) tr.
Proof.
  intros H. inversion H as [|x l Hx Hl]; subst. split; [assumption|].
  unfold in_range. rewrite step_length. assumption.
Qed.

Lemma run_cons mm e tr :
  run_events mm (e :: tr) =
  (fst (run_events (fst (prim_step mm (e_prim e))) tr),
   (e, snd (prim_step mm (e_prim e))) :: snd (run_events (fst (prim_step mm (e_prim e))) tr)).
Proof.
  cbn [run_events]. destruct (prim_step mm (e_prim e)) as [mm1 old]. cbn [fst snd].
  destruct (run_events mm1 tr) as [mm2 lg]. reflexivity.
Qed.

(* a set bit stays set until the first primitive that does not keep it; that primitive returns it *)
Lemma persist_lemma : forall tr mm p, in_range mm tr -> bitm mm p = true ->
  bitm (fst (run_events mm tr)) p = true \/
  exists tra e trb old, tr = tra ++ e :: trb /\
    Forall (fun x => keeps (e_prim x) p = true) tra /\ keeps (e_prim e) p = false /\
    nth_error (snd (run_events mm tr)) (length tra) = Some (e, old) /\ N.testbit old (p mod 64) = true.
Proof.
  induction tr as [|e tr IH]; intros mm p Hr Hb.
  - left. assumption.
  - apply in_range_step in Hr. destruct Hr as [Hr0 Hr1]. rewrite run_cons. cbn [fst snd].
    destruct (keeps (e_prim e) p) eqn:Ek.
    + assert (Hb1 : bitm (fst (prim_step mm (e_prim e))) p = true)
        by (rewrite step_bit by assumption; rewrite Hb, Ek; reflexivity).
      destruct (IH _ p Hr1 Hb1) as [H|(tra & e' & trb & old & -> & Hk & Hc & Hn & Ht)]; [left; assumption|].
      right. exists (e :: tra), e', trb, old. split; [reflexivity|]. split; [constructor; assumption|].
      split; [assumption|]. split; [exact Hn|assumption].
    + right. exists [], e, tr, (snd (prim_step mm (e_prim e))). split; [reflexivity|]. split; [constructor|].
      split; [assumption|]. split; [reflexivity|].
      rewrite step_old by (apply keeps_false_word; assumption). assumption.
Qed.

(* CONSERVATION: a mark (any primitive that sets bit p) executed anywhere in any event list is
   either still set at the end, or the first later primitive that clears bit p - a fetch_and with
   that bit off (the harvest's fetch_and(0), a reset-range's fetch_and(!mask)) or a store -
   returned an old value containing it.  No bound on threads, length or interleaving. *)
Lemma mark_conserved_lemma : forall tr1 e tr2 mm p, in_range mm (tr1 ++ e :: tr2) ->
  sets (e_prim e) p = true ->
  bitm (fst (run_events mm (tr1 ++ e :: tr2))) p = true \/
  exists tra e' trb old, tr2 = tra ++ e' :: trb /\
    Forall (fun x => keeps (e_prim x) p = true) tra /\ keeps (e_prim e') p = false /\
    nth_error (snd (run_events mm (tr1 ++ e :: tr2))) (length tr1 + 1 + length tra) = Some (e', old) /\
    N.testbit old (p mod 64) = true.
Proof.
  induction tr1 as [|x tr1 IH]; intros e tr2 mm p Hr Hs.
  - cbn [app] in *. apply in_range_step in Hr. destruct Hr as [Hr0 Hr1]. rewrite run_cons. cbn [fst snd].
    assert (Hb1 : bitm (fst (prim_step mm (e_prim e))) p = true)
      by (rewrite step_bit by assumption; rewrite Hs; apply orb_true_r).
    destruct (persist_lemma tr2 _ p Hr1 Hb1) as [H|(tra & e' & trb & old & -> & Hk & Hc & Hn & Ht)]; [left; assumption|].
    right. exists tra, e', trb, old. repeat split; auto.
  - cbn [app] in *. apply in_range_step in Hr. destruct Hr as [Hr0 Hr1]. rewrite run_cons. cbn [fst snd].
    destruct (IH e tr2 _ p Hr1 Hs) as [H|(tra & e' & trb & old & -> & Hk & Hc & Hn & Ht)]; [left; assumption|].
    right. exists tra, e', trb, old. repeat split; auto.
Qed.

(* SOUNDNESS: a bit in the value returned by any primitive (so: in any harvest result, clone or
   is_bit_set answer) was set initially or by an earlier primitive of the execution *)
Lemma report_sound_lemma : forall tr mm i e old p, in_range mm tr ->
  nth_error (snd (run_events mm tr)) i = Some (e, old) -> p / 64 = prim_word (e_prim e) ->
  N.testbit old (p mod 64) = true ->
  bitm mm p = true \/ exists j e0, (j < i)%nat /\ nth_error tr j = Some e0 /\ sets (e_prim e0) p = true.
Proof.
  induction tr as [|x tr IH]; intros mm i e old p Hr Hn Hw Ht.
  - destruct i; discriminate.
  - apply in_range_step in Hr. destruct Hr as [Hr0 Hr1]. rewrite run_cons in Hn. cbn [snd] in Hn.
    destruct i as [|i]; cbn [nth_error] in Hn.
    + inversion Hn; subst. left. rewrite <- (step_old mm (e_prim e) p Hw). assumption.
    + destruct (IH _ _ _ _ p Hr1 Hn Hw Ht) as [Hb|(j & e0 & Hj & Hn0 & Hs)].
      * rewrite step_bit in Hb by assumption. apply orb_true_iff in Hb. destruct Hb as [Hb|Hb].
        -- left. apply andb_true_iff in Hb. apply Hb.
        -- right. exists O, x. split; [lia|]. split; [reflexivity|assumption].
      * right. exists (S j), e0. split; [lia|]. split; assumption.
Qed.
Lemma final_sound_lemma : forall tr mm p, in_range mm tr -> bitm (fst (run_events mm tr)) p = true ->
  bitm mm p = true \/ exists j e0, nth_error tr j = Some e0 /\ sets (e_prim e0) p = true.
Proof.
  induction tr as [|x tr IH]; intros mm p Hr Hb.
  - left. assumption.
  - apply in_range_step in Hr. destruct Hr as [Hr0 Hr1]. rewrite run_cons in Hb. cbn [fst] in Hb.
    destruct (IH _ p Hr1 Hb) as [Hb1|(j & e0 & Hn0 & Hs)].
    + rewrite step_bit in Hb1 by assumption. apply orb_true_iff in Hb1. destruct Hb1 as [Hb1|Hb1].
      * left. apply andb_true_iff in Hb1. apply Hb1.
      * right. exists O, x. split; [reflexivity|assumption].
    + right. exists (S j), e0. split; assumption.
Qed.

(* ---------------------------------------------------------------- 3. the library's programs *)
Definition mark_prim (q : N) : prim := FetchOr (shr6 q) (bit_mask q).
Definition clear_prim (q : N) : prim := FetchAnd (shr6 q) (not64 (bit_mask q)).

Lemma shr6_eq i : shr6 i = i / 64.
Proof. unfold shr6. rewrite N.shiftr_div_pow2. change (2 ^ 6) with 64. reflexivity. Qed.

Lemma sets_mark q p : sets (mark_prim q) p = (p =? q).
Proof.
  unfold mark_prim, sets. rewrite shr6_eq, bit_mask_eq, N.pow2_bits_eqb.
  destruct (N.eqb_spec p q) as [->|Hn]; [rewrite !N.eqb_refl; reflexivity|].
  destruct (N.eqb_spec (p / 64) (q / 64)) as [Hq|Hq]; [|reflexivity].
  destruct (N.eqb_spec (q mod 64) (p mod 64)) as [Hm|Hm]; [|reflexivity].
  exfalso. apply Hn. apply split64_eq; auto.
Qed.
Lemma keeps_mark q p : keeps (mark_prim q) p = true.
Proof. reflexivity. Qed.
Lemma keeps_clear q p : keeps (clear_prim q) p = negb (p =? q).
Proof.
  unfold clear_prim, keeps. rewrite shr6_eq, bit_mask_eq.
  rewrite not64_pow2_bit by apply mod64_lt.
  destruct (N.eqb_spec p q) as [->|Hn]; [rewrite !N.eqb_refl; reflexivity|].
  destruct (N.eqb_spec (p / 64) (q / 64)) as [Hq|Hq]; [|reflexivity].
  destruct (N.eqb_spec (q mod 64) (p mod 64)) as [Hm|Hm]; [|reflexivity].
  exfalso. apply Hn. apply split64_eq; auto.
Qed.
Lemma sets_clear q p : sets (clear_prim q) p = false.
Proof. reflexivity. Qed.

Lemma range_prog_In : forall fuel n last size set pr, (N.to_nat (size - n) < fuel)%nat ->
  (In pr (range_prog fuel n last size set) <->
   exists q, n <= q /\ q <= last /\ q < size /\ pr = if set then mark_prim q else clear_prim q).
Proof.
  induction fuel as [|f IH]; intros n last size set pr Hf; [lia|].
  cbn [range_prog].
  destruct (N.ltb_spec last n) as [Hl|Hl].
  { split; [intros []|]. intros (q & H1 & H2 & _). lia. }
  destruct (N.leb_spec size n) as [Hs|Hs].
  { split; [intros []|]. intros (q & H1 & _ & H3 & _). lia. }
  cbn [In]. rewrite IH by lia. split.
  - intros [H|(q & H1 & H2 & H3 & H4)].
    + exists n. repeat split; try lia. destruct set; symmetry; exact H.
    + exists q. repeat split; try lia. assumption.
  - intros (q & H1 & H2 & H3 & H4). destruct (N.eq_dec q n) as [->|Hn].
    + left. destruct set; symmetry; exact H4.
    + right. exists q. repeat split; try lia. assumption.
Qed.

Lemma set_reset_prog_In g a l set pr : 0 < g_ps g -> a < W64 ->
  (In pr (set_reset_prog g a l set) <->
   exists q, q < g_size g /\ touches (g_ps g) a l q /\ pr = if set then mark_prim q else clear_prim q).
Proof.
  intros Hps Ha. unfold set_reset_prog. destruct (N.eqb_spec l 0) as [->|Hl].
  - split; [intros []|]. intros (q & _ & (x & H1 & H2 & _) & _). lia.
  - assert (Hfuel : forall z, (N.to_nat (g_size g - z) < S (S (N.to_nat (g_size g))))%nat) by (intros z; lia).
    rewrite range_prog_In by apply Hfuel. split; intros (q & H).
    + destruct H as (H1 & H2 & H3 & H4). exists q. split; [assumption|]. split; [|assumption].
      apply overlaps_iff; [assumption|assumption|].
      pose proof (in_rng_overlaps (g_ps g) a l (g_size g) q Hps Ha ltac:(lia)) as E.
      unfold in_rng in E. destruct (N.leb_spec (a / g_ps g) q); [|lia].
      destruct (N.leb_spec q (saturating_add a (l - 1) / g_ps g)); [|lia].
      destruct (N.ltb_spec q (g_size g)); [|lia]. cbn [andb] in E. symmetry in E. exact E.
    + destruct H as (H3 & Ht & H4). apply overlaps_iff in Ht; [|assumption|assumption].
      pose proof (in_rng_overlaps (g_ps g) a l (g_size g) q Hps Ha ltac:(lia)) as E.
      rewrite Ht in E. destruct (N.ltb_spec q (g_size g)); [|lia]. cbn [andb] in E.
      unfold in_rng in E. apply andb_true_iff in E. destruct E as [E _]. apply andb_true_iff in E.
      destruct E as [E1 E2]. apply N.leb_le in E1, E2. exists q. repeat split; assumption.
Qed.

Lemma nseq_In k : forall a x, In x (nseq k a) <-> a <= x < a + N.of_nat k.
Proof.
  induction k as [|k IH]; intros a x; cbn [nseq In].
  - split; [tauto|lia].
  - rewrite IH. lia.
Qed.
Lemma word_ids_In g w : In w (word_ids g) <-> w < g_nwords g.
Proof. unfold word_ids. rewrite nseq_In. lia. Qed.

(* which pages the program of an operation sets, and which it clears *)
Lemma prog_sets_lemma : forall g o p, 0 < g_ps g -> wf_cop o = true ->
  ((exists pr, In pr (prog_of g o) /\ sets pr p = true) <->
   p < g_size g /\ match o with
                   | CSetRange a l => touches (g_ps g) a l p
                   | CSetBit i => p = i
                   | _ => False
                   end).
Proof.
  intros g o p Hps Hwf. destruct o as [a l|a l|i|i| | | |i]; cbn [prog_of wf_cop] in *; unfold u64b in Hwf;
    rewrite ?andb_true_iff, ?N.ltb_lt in Hwf.
  - destruct Hwf as [Ha _]. split.
    + intros (pr & Hin & Hs). apply (set_reset_prog_In g a l true pr Hps Ha) in Hin.
      destruct Hin as (q & H1 & H2 & ->). rewrite sets_mark in Hs. apply N.eqb_eq in Hs. subst. auto.
    + intros [H1 H2]. exists (mark_prim p). split; [|rewrite sets_mark; apply N.eqb_refl].
      apply (set_reset_prog_In g a l true _ Hps Ha). exists p. auto.
  - destruct Hwf as [Ha _]. split; [|tauto].
    intros (pr & Hin & Hs). apply (set_reset_prog_In g a l false pr Hps Ha) in Hin.
    destruct Hin as (q & _ & _ & ->). discriminate.
  - destruct (N.leb_spec (g_size g) i) as [H|H]; split.
    + intros (pr & [] & _).
    + intros [H1 ->]. lia.
    + intros (pr & [<-|[]] & Hs). fold (mark_prim i) in Hs. rewrite sets_mark in Hs. apply N.eqb_eq in Hs. subst. auto.
    + intros [H1 ->]. exists (mark_prim i). split; [left; reflexivity|rewrite sets_mark; apply N.eqb_refl].
  - split; [|tauto]. destruct (N.leb_spec (g_size g) i); intros (pr & Hin & Hs); [destruct Hin|].
    destruct Hin as [<-|[]]. discriminate.
  - split; [|tauto]. intros (pr & Hin & Hs). apply in_map_iff in Hin. destruct Hin as (w & <- & _). discriminate.
  - split; [|tauto]. intros (pr & Hin & Hs). apply in_map_iff in Hin. destruct Hin as (w & <- & _). discriminate.
  - split; [|tauto]. intros (pr & Hin & Hs). apply in_map_iff in Hin. destruct Hin as (w & <- & _).
    cbn [sets] in Hs. rewrite N.bits_0, andb_false_r in Hs. discriminate.
  - split; [|tauto]. destruct (N.ltb_spec i (g_size g)); intros (pr & Hin & Hs); [|destruct Hin].
    destruct Hin as [<-|[]]. discriminate.
Qed.

Lemma prog_clears_lemma : forall g o p, 0 < g_ps g -> wf_cop o = true ->
  ((exists pr, In pr (prog_of g o) /\ keeps pr p = false) <->
   match o with
   | CResetRange a l => p < g_size g /\ touches (g_ps g) a l p
   | CResetBit i => p = i /\ i < g_size g
   | CHarvest | CReset => p / 64 < g_nwords g
   | _ => False
   end).
Proof.
  intros g o p Hps Hwf. destruct o as [a l|a l|i|i| | | |i]; cbn [prog_of wf_cop] in *; unfold u64b in Hwf;
    rewrite ?andb_true_iff, ?N.ltb_lt in Hwf.
  - destruct Hwf as [Ha _]. split; [|tauto].
    intros (pr & Hin & Hs). apply (set_reset_prog_In g a l true pr Hps Ha) in Hin.
    destruct Hin as (q & _ & _ & ->). discriminate.
  - destruct Hwf as [Ha _]. split.
    + intros (pr & Hin & Hs). apply (set_reset_prog_In g a l false pr Hps Ha) in Hin.
      destruct Hin as (q & H1 & H2 & ->). rewrite keeps_clear in Hs. apply negb_false_iff, N.eqb_eq in Hs. subst. auto.
    + intros [H1 H2]. exists (clear_prim p). split; [|rewrite keeps_clear, N.eqb_refl; reflexivity].
      apply (set_reset_prog_In g a l false _ Hps Ha). exists p. auto.
  - split; [|tauto]. destruct (N.leb_spec (g_size g) i); intros (pr & Hin & Hs); [destruct Hin|].
    destruct Hin as [<-|[]]. discriminate.
  - destruct (N.leb_spec (g_size g) i) as [H|H]; split.
    + intros (pr & [] & _).
    + intros [-> H1]. lia.
    + intros (pr & [<-|[]] & Hs). fold (clear_prim i) in Hs. rewrite keeps_clear in Hs. apply negb_false_iff, N.eqb_eq in Hs. subst. auto.
    + intros [-> H1]. exists (clear_prim i). split; [left; reflexivity|rewrite keeps_clear, N.eqb_refl; reflexivity].
  - split.
    + intros (pr & Hin & Hs). apply in_map_iff in Hin. destruct Hin as (w & <- & Hw).
      apply keeps_false_word in Hs. cbn [prim_word] in Hs. rewrite Hs. apply word_ids_In. assumption.
    + intros H. exists (FetchAnd (p / 64) 0). split; [apply in_map_iff; exists (p / 64); split; [reflexivity|apply word_ids_In; assumption]|].
      cbn [keeps]. rewrite N.eqb_refl, N.bits_0. reflexivity.
  - split; [|tauto]. intros (pr & Hin & Hs). apply in_map_iff in Hin. destruct Hin as (w & <- & _). discriminate.
  - split.
    + intros (pr & Hin & Hs). apply in_map_iff in Hin. destruct Hin as (w & <- & Hw).
      apply keeps_false_word in Hs. cbn [prim_word] in Hs. rewrite Hs. apply word_ids_In. assumption.
    + intros H. exists (Store (p / 64) 0). split; [apply in_map_iff; exists (p / 64); split; [reflexivity|apply word_ids_In; assumption]|].
      cbn [keeps]. rewrite N.eqb_refl, N.bits_0. reflexivity.
  - split; [|tauto]. destruct (N.ltb_spec i (g_size g)); intros (pr & Hin & Hs); [|destruct Hin].
    destruct Hin as [<-|[]]. discriminate.
Qed.

(* no program touches a word outside the vector (so no primitive of the library can panic) *)
Lemma prog_in_range_lemma : forall g o pr, 0 < g_ps g -> wf_cop o = true ->
  In pr (prog_of g o) -> prim_word pr < g_nwords g.
Proof.
  assert (Hpage : forall g q, q < g_size g -> q / 64 < g_nwords g).
  { intros g q Hq. unfold g_nwords. pose proof (div_ceil_64_range _ _ Hq). lia. }
  intros g o pr Hps Hwf Hin. destruct o as [a l|a l|i|i| | | |i]; cbn [prog_of wf_cop] in *; unfold u64b in Hwf;
    rewrite ?andb_true_iff, ?N.ltb_lt in Hwf.
  - destruct Hwf as [Ha _]. apply (set_reset_prog_In g a l true pr Hps Ha) in Hin.
    destruct Hin as (q & H1 & _ & ->). cbn [mark_prim prim_word]. rewrite shr6_eq. auto.
  - destruct Hwf as [Ha _]. apply (set_reset_prog_In g a l false pr Hps Ha) in Hin.
    destruct Hin as (q & H1 & _ & ->). cbn [clear_prim prim_word]. rewrite shr6_eq. auto.
  - destruct (N.leb_spec (g_size g) i); [destruct Hin|]. destruct Hin as [<-|[]]. cbn [prim_word]. rewrite shr6_eq. auto.
  - destruct (N.leb_spec (g_size g) i); [destruct Hin|]. destruct Hin as [<-|[]]. cbn [prim_word]. rewrite shr6_eq. auto.
  - apply in_map_iff in Hin. destruct Hin as (w & <- & Hw). apply word_ids_In. assumption.
  - apply in_map_iff in Hin. destruct Hin as (w & <- & Hw). apply word_ids_In. assumption.
  - apply in_map_iff in Hin. destruct Hin as (w & <- & Hw). apply word_ids_In. assumption.
  - destruct (N.ltb_spec i (g_size g)); [|destruct Hin]. destruct Hin as [<-|[]]. cbn [prim_word]. rewrite shr6_eq. auto.
Qed.

(* ---------------------------------------------------------------- 4. schedules: from positions of the
   merged trace back to operations of threads *)
Definition mk (t j : N) (p : prim) : event := {| e_tid := t; e_op := j; e_prim := p |}.
Definition tid_is (t : N) (e : event) : bool := e_tid e =? t.
Definition op_is (j : N) (e : event) : bool := e_op e =? j.
Definition sel (t j : N) (e : event) : bool := (e_tid e =? t) && (e_op e =? j).
Definition mkopi (t j : N) (o : cop) (r : list N) : opi := {| i_tid := t; i_idx := j; i_op := o; i_res := r |}.
(* operation j of thread t exists and is o *)
Definition valid_op (ths : list (list cop)) (t j : N) (o : cop) : Prop :=
  exists ops, nth_error ths (N.to_nat t) = Some ops /\ nth_error ops (N.to_nat j) = Some o.

Lemma filter_all_true {A} (f : A -> bool) l : (forall x, In x l -> f x = true) -> filter f l = l.
Proof.
  induction l as [|x l IH]; intros H; [reflexivity|]. cbn [filter].
  rewrite (H x (or_introl eq_refl)). f_equal. apply IH. intros y Hy. apply H. right. assumption.
Qed.
Lemma filter_all_false {A} (f : A -> bool) l : (forall x, In x l -> f x = false) -> filter f l = [].
Proof.
  induction l as [|x l IH]; intros H; [reflexivity|]. cbn [filter].
  rewrite (H x (or_introl eq_refl)). apply IH. intros y Hy. apply H. right. assumption.
Qed.
Lemma filter_andb {A} (f h : A -> bool) l : filter (fun x => f x && h x) l = filter h (filter f l).
Proof.
  induction l as [|x l IH]; [reflexivity|]. cbn [filter]. destruct (f x); cbn [andb filter]; rewrite IH; reflexivity.
Qed.
Lemma nth_error_map_inv {A B} (f : A -> B) l n y : nth_error (map f l) n = Some y ->
  exists x, nth_error l n = Some x /\ f x = y.
Proof.
  revert n. induction l as [|a l IH]; intros [|n] H; try discriminate; cbn [map nth_error] in *.
  - inversion H. exists a. split; reflexivity.
  - apply IH. assumption.
Qed.
Lemma nth_error_nil {A} n : @nth_error A [] n = None.
Proof. destruct n; reflexivity. Qed.
Lemma nth_nil {A} n (d : A) : nth n [] d = d.
Proof. destruct n; reflexivity. Qed.

Lemma take_turn_nth : forall progs k e progs', take_turn progs k = Some (e, progs') ->
  nth k progs [] = e :: nth k progs' [] /\ forall i, i <> k -> nth i progs' [] = nth i progs [].
Proof.
  induction progs as [|p rest IH]; intros k e progs' H; [discriminate|].
  destruct k as [|k].
  - destruct p as [|e0 p]; cbn [take_turn] in H; [discriminate|]. inversion H; subst. split; [reflexivity|].
    intros [|i] Hi; [lia|reflexivity].
  - assert (H' : match take_turn rest k with Some (e, rest') => Some (e, p :: rest') | None => None end = Some (e, progs'))
      by (destruct p; exact H).
    destruct (take_turn rest k) as [[e1 rest']|] eqn:E; [|discriminate].
    inversion H'; subst. destruct (IH _ _ _ E) as [H1 H2]. split; [exact H1|].
    intros [|i] Hi; [reflexivity|]. cbn [nth]. apply H2. lia.
Qed.

Lemma concat_proj : forall progs b t,
  (forall i e, In e (nth i progs []) -> e_tid e = b + N.of_nat i) ->
  filter (tid_is t) (concat progs) = if b <=? t then nth (N.to_nat (t - b)) progs [] else [].
Proof.
  induction progs as [|x progs IH]; intros b t H.
  - cbn [concat filter]. rewrite nth_nil. destruct (b <=? t); reflexivity.
  - cbn [concat]. rewrite filter_app.
    assert (Hx : forall e, In e x -> e_tid e = b) by (intros e He; rewrite (H O e He); lia).
    rewrite (IH (b + 1) t) by (intros i e Hi; rewrite (H (S i) e Hi); lia).
    destruct (N.eq_dec b t) as [->|Hn].
    + rewrite filter_all_true by (intros e He; unfold tid_is; rewrite (Hx e He); apply N.eqb_refl).
      destruct (N.leb_spec (t + 1) t); [lia|]. rewrite app_nil_r.
      rewrite N.leb_refl, N.sub_diag. reflexivity.
    + rewrite filter_all_false by (intros e He; unfold tid_is; rewrite (Hx e He); apply N.eqb_neq; assumption).
      cbn [app]. destruct (N.leb_spec (b + 1) t), (N.leb_spec b t); try lia; [|reflexivity].
      replace (N.to_nat (t - b)) with (S (N.to_nat (t - (b + 1)))) by lia. reflexivity.
Qed.

Definition tagged (progs : list (list event)) : Prop :=
  forall i e, In e (nth i progs []) -> e_tid e = N.of_nat i.

(* the merged schedule restricted to one thread is that thread's event list, in order *)
Lemma merge_proj : forall sched progs t, tagged progs ->
  filter (tid_is t) (merge sched progs) = nth (N.to_nat t) progs [].
Proof.
  induction sched as [|t0 sched IH]; intros progs t Ht.
  - cbn [merge]. rewrite (concat_proj progs 0 t) by (intros i e Hi; rewrite (Ht i e Hi); lia).
    rewrite N.sub_0_r. destruct (N.leb_spec 0 t); [reflexivity|lia].
  - cbn [merge]. destruct (take_turn progs (N.to_nat t0)) as [[e progs']|] eqn:E; [|apply IH; assumption].
    destruct (take_turn_nth _ _ _ _ E) as [H1 H2].
    assert (Ht' : tagged progs').
    { intros i e0 Hi. apply Ht. destruct (Nat.eq_dec i (N.to_nat t0)) as [->|Hn];
        [rewrite H1; right; assumption|rewrite <- H2 by assumption; assumption]. }
    assert (He : e_tid e = t0).
    { rewrite (Ht (N.to_nat t0) e) by (rewrite H1; left; reflexivity). apply N2Nat.id. }
    cbn [filter]. rewrite (IH progs' t Ht'). unfold tid_is at 1. rewrite He.
    destruct (N.eqb_spec t0 t) as [->|Hn]; [rewrite H1; reflexivity|].
    apply H2. lia.
Qed.

Lemma op_events_tid : forall g t ops j e, In e (op_events g t j ops) -> e_tid e = t.
Proof.
  induction ops as [|o ops IH]; intros j e H; [destruct H|]. cbn [op_events] in H.
  apply in_app_iff in H. destruct H as [H|H]; [|apply (IH _ _ H)].
  apply in_map_iff in H. destruct H as (pr & <- & _). reflexivity.
Qed.
Lemma op_events_ge : forall g t ops j e, In e (op_events g t j ops) -> j <= e_op e.
Proof.
  induction ops as [|o ops IH]; intros j e H; [destruct H|]. cbn [op_events] in H.
  apply in_app_iff in H. destruct H as [H|H]; [|apply IH in H; lia].
  apply in_map_iff in H. destruct H as (pr & <- & _). cbn [e_op]. lia.
Qed.
Lemma thread_events_nth : forall g ths b i,
  nth i (thread_events g b ths) [] = op_events g (b + N.of_nat i) 0 (nth i ths []).
Proof.
  induction ths as [|ops ths IH]; intros b i.
  - cbn [thread_events]. rewrite !nth_nil. reflexivity.
  - destruct i as [|i]; cbn [thread_events nth].
    + rewrite N.add_0_r. reflexivity.
    + rewrite IH. f_equal. lia.
Qed.
Lemma thread_events_tagged g ths : tagged (thread_events g 0 ths).
Proof. intros i e Hi. rewrite thread_events_nth in Hi. apply op_events_tid in Hi. lia. Qed.

Lemma proj_thread g sched ths t :
  filter (tid_is t) (merge sched (thread_events g 0 ths)) = op_events g t 0 (nth (N.to_nat t) ths []).
Proof.
  rewrite merge_proj by apply thread_events_tagged. rewrite thread_events_nth, N2Nat.id. reflexivity.
Qed.

Lemma op_events_sel : forall g t ops j0 j,
  filter (op_is j) (op_events g t j0 ops) =
  if j0 <=? j then match nth_error ops (N.to_nat (j - j0)) with
                   | Some o => map (mk t j) (prog_of g o) | None => [] end
  else [].
Proof.
  induction ops as [|o ops IH]; intros j0 j.
  - cbn [op_events filter]. rewrite nth_error_nil. destruct (j0 <=? j); reflexivity.
  - cbn [op_events]. rewrite filter_app, IH.
    destruct (N.eq_dec j0 j) as [->|Hn].
    + rewrite filter_all_true by (intros e He; apply in_map_iff in He; destruct He as (pr & <- & _); apply N.eqb_refl).
      destruct (N.leb_spec (N.succ j) j); [lia|]. rewrite app_nil_r.
      rewrite N.leb_refl, N.sub_diag. reflexivity.
    + rewrite filter_all_false by (intros e He; apply in_map_iff in He; destruct He as (pr & <- & _);
                                    apply N.eqb_neq; assumption).
      cbn [app]. destruct (N.leb_spec (N.succ j0) j), (N.leb_spec j0 j); try lia; [|reflexivity].
      replace (N.to_nat (j - j0)) with (S (N.to_nat (j - N.succ j0))) by lia. reflexivity.
Qed.

(* the events of one operation, in the merged trace, are its program in order *)
Lemma sel_events g sched ths t j o : valid_op ths t j o ->
  filter (sel t j) (merge sched (thread_events g 0 ths)) = map (mk t j) (prog_of g o).
Proof.
  intros (ops & H1 & H2).
  change (sel t j) with (fun e => tid_is t e && op_is j e). rewrite filter_andb, proj_thread.
  rewrite (nth_error_nth _ _ [] H1), op_events_sel. rewrite N.sub_0_r, H2.
  destruct (N.leb_spec 0 j); [reflexivity|lia].
Qed.

Lemma op_events_In : forall g t ops j0 e, In e (op_events g t j0 ops) ->
  exists i o pr, nth_error ops i = Some o /\ In pr (prog_of g o) /\ e = mk t (j0 + N.of_nat i) pr.
Proof.
  induction ops as [|o ops IH]; intros j0 e H; [destruct H|]. cbn [op_events] in H.
  apply in_app_iff in H. destruct H as [H|H].
  - apply in_map_iff in H. destruct H as (pr & <- & Hp). exists O, o, pr. split; [reflexivity|].
    split; [assumption|]. rewrite N.add_0_r. reflexivity.
  - apply IH in H. destruct H as (i & o' & pr & H1 & H2 & ->). exists (S i), o', pr.
    split; [exact H1|]. split; [assumption|]. f_equal. lia.
Qed.

Lemma event_valid g sched ths e : In e (merge sched (thread_events g 0 ths)) ->
  exists o pr, valid_op ths (e_tid e) (e_op e) o /\ In pr (prog_of g o) /\ e = mk (e_tid e) (e_op e) pr.
Proof.
  intros H.
  assert (H' : In e (filter (tid_is (e_tid e)) (merge sched (thread_events g 0 ths))))
    by (apply filter_In; split; [assumption|apply N.eqb_refl]).
  rewrite proj_thread in H'. apply op_events_In in H'. destruct H' as (i & o & pr & H1 & H2 & H3).
  exists o, pr. assert (Ej : e_op e = N.of_nat i) by (rewrite H3; cbn [mk e_op]; lia).
  split; [|split; [assumption|]].
  - destruct (nth_error ths (N.to_nat (e_tid e))) as [ops|] eqn:E.
    + exists ops. split; [exact E|]. rewrite (nth_error_nth _ _ [] E) in H1. rewrite Ej, Nat2N.id. assumption.
    + apply nth_error_None in E. rewrite nth_overflow in H1 by assumption. rewrite nth_error_nil in H1. discriminate.
  - rewrite H3 at 1. cbn [mk e_tid e_op]. rewrite H3. cbn [mk e_tid e_op]. reflexivity.
Qed.

Lemma valid_event g sched ths t j o pr : valid_op ths t j o -> In pr (prog_of g o) ->
  In (mk t j pr) (merge sched (thread_events g 0 ths)).
Proof.
  intros Hv Hp. assert (H : In (mk t j pr) (filter (sel t j) (merge sched (thread_events g 0 ths)))).
  { rewrite (sel_events g sched ths t j o Hv). apply in_map. assumption. }
  apply filter_In in H. apply H.
Qed.

(* program order: within one thread the operation index never decreases along the merged trace *)
Definition op_le (a b : event) : Prop := e_op a <= e_op b.
Lemma ss_app {A} (R : A -> A -> Prop) : forall l1 l2, StronglySorted R l1 -> StronglySorted R l2 ->
  (forall a b, In a l1 -> In b l2 -> R a b) -> StronglySorted R (l1 ++ l2).
Proof.
  induction l1 as [|x l1 IH]; intros l2 H1 H2 H; [assumption|]. cbn [app].
  inversion H1 as [|y l Hs Hf]; subst. constructor.
  - apply IH; [assumption|assumption|]. intros a b Ha Hb. apply H; [right; assumption|assumption].
  - apply Forall_app. split; [assumption|]. apply Forall_forall. intros b Hb. apply H; [left; reflexivity|assumption].
Qed.
Lemma ss_mid {A} (R : A -> A -> Prop) : forall l1 e l2, StronglySorted R (l1 ++ e :: l2) -> Forall (R e) l2.
Proof.
  induction l1 as [|x l1 IH]; intros e l2 H; cbn [app] in H; inversion H; subst; [assumption|].
  apply IH. assumption.
Qed.
Lemma op_events_sorted : forall g t ops j, StronglySorted op_le (op_events g t j ops).
Proof.
  induction ops as [|o ops IH]; intros j; [constructor|]. cbn [op_events]. apply ss_app.
  - induction (prog_of g o) as [|pr l IHl]; [constructor|]. cbn [map]. constructor; [assumption|].
    apply Forall_forall. intros b Hb. apply in_map_iff in Hb. destruct Hb as (q & <- & _). unfold op_le. cbn [e_op]. lia.
  - apply IH.
  - intros a b Ha Hb. apply in_map_iff in Ha. destruct Ha as (q & <- & _). apply op_events_ge in Hb.
    unfold op_le. cbn [e_op]. lia.
Qed.
Lemma order_lemma g sched ths tr1 e tr2 e' : merge sched (thread_events g 0 ths) = tr1 ++ e :: tr2 ->
  In e' tr2 -> e_tid e' = e_tid e -> e_op e <= e_op e'.
Proof.
  intros E Hin Ht. pose proof (proj_thread g sched ths (e_tid e)) as P. rewrite E in P.
  rewrite filter_app in P. cbn [filter] in P. unfold tid_is at 2 in P. rewrite N.eqb_refl in P.
  pose proof (op_events_sorted g (e_tid e) (nth (N.to_nat (e_tid e)) ths []) 0) as S. rewrite <- P in S.
  apply ss_mid in S. rewrite Forall_forall in S. apply (S e').
  apply filter_In. split; [assumption|]. unfold tid_is. rewrite Ht. apply N.eqb_refl.
Qed.

(* ---------------------------------------------------------------- 5. the log and the API results *)
Lemma log_events : forall tr mm, map fst (snd (run_events mm tr)) = tr.
Proof.
  induction tr as [|e tr IH]; intros mm; [reflexivity|]. rewrite run_cons. cbn [snd map fst]. rewrite IH. reflexivity.
Qed.
Lemma log_nth tr mm i e old : nth_error (snd (run_events mm tr)) i = Some (e, old) -> nth_error tr i = Some e.
Proof. intros H. apply (map_nth_error fst) in H. rewrite log_events in H. exact H. Qed.
Lemma filter_map_fst (P : event -> bool) : forall lg : list (event * N),
  map fst (filter (fun x => P (fst x)) lg) = filter P (map fst lg).
Proof.
  induction lg as [|x lg IH]; [reflexivity|]. cbn [filter map]. destruct (P (fst x)); cbn [map]; rewrite IH; reflexivity.
Qed.
Definition sel_log (lg : list (event * N)) (t j : N) : list (event * N) := filter (fun x => sel t j (fst x)) lg.
Lemma olds_of_eq lg t j : olds_of lg t j = map snd (sel_log lg t j).
Proof. reflexivity. Qed.
Lemma sel_log_events g sched ths mm t j o : valid_op ths t j o ->
  map fst (sel_log (snd (run_events mm (merge sched (thread_events g 0 ths)))) t j) = map (mk t j) (prog_of g o).
Proof. intros Hv. unfold sel_log. rewrite filter_map_fst, log_events. apply sel_events. assumption. Qed.

Lemma olds_length g sched ths mm t j o : valid_op ths t j o ->
  length (olds_of (snd (run_events mm (merge sched (thread_events g 0 ths)))) t j) = length (prog_of g o).
Proof.
  intros Hv. rewrite olds_of_eq, map_length.
  rewrite <- (map_length fst), (sel_log_events g sched ths mm t j o Hv), map_length. reflexivity.
Qed.
(* the w-th value an operation read is the old value of its w-th primitive, somewhere in the log *)
Lemma olds_read g sched ths mm t j o w old : valid_op ths t j o ->
  nth_error (olds_of (snd (run_events mm (merge sched (thread_events g 0 ths)))) t j) w = Some old ->
  exists pr i, nth_error (prog_of g o) w = Some pr /\
    nth_error (snd (run_events mm (merge sched (thread_events g 0 ths)))) i = Some (mk t j pr, old).
Proof.
  intros Hv H. rewrite olds_of_eq in H. apply nth_error_map_inv in H. destruct H as ([e old'] & Hx & Ho).
  cbn [snd] in Ho. subst old'.
  pose proof (map_nth_error fst _ _ Hx) as Hf. rewrite (sel_log_events g sched ths mm t j o Hv) in Hf.
  cbn [fst] in Hf. apply nth_error_map_inv in Hf. destruct Hf as (pr & Hp & <-).
  apply nth_error_In in Hx. apply filter_In in Hx. destruct Hx as [Hx _].
  apply In_nth_error in Hx. destruct Hx as (i & Hi). exists pr, i. split; assumption.
Qed.
(* conversely a logged primitive of an operation is at its program position among the values it read *)
Lemma olds_at g sched ths mm t j o pr old : valid_op ths t j o ->
  In (mk t j pr, old) (snd (run_events mm (merge sched (thread_events g 0 ths)))) ->
  exists w, nth_error (prog_of g o) w = Some pr /\
    nth_error (olds_of (snd (run_events mm (merge sched (thread_events g 0 ths)))) t j) w = Some old.
Proof.
  intros Hv H.
  assert (H' : In (mk t j pr, old) (sel_log (snd (run_events mm (merge sched (thread_events g 0 ths)))) t j)).
  { apply filter_In. split; [assumption|]. cbn [fst]. unfold sel. cbn [mk e_tid e_op]. rewrite !N.eqb_refl. reflexivity. }
  apply In_nth_error in H'. destruct H' as (w & Hw). exists w. split.
  - pose proof (map_nth_error fst _ _ Hw) as Hf. rewrite (sel_log_events g sched ths mm t j o Hv) in Hf.
    cbn [fst] in Hf. apply nth_error_map_inv in Hf. destruct Hf as (pr' & Hp & E). inversion E; subst. assumption.
  - rewrite olds_of_eq. apply (map_nth_error snd) in Hw. exact Hw.
Qed.

Lemma nseq_nth_error k : forall a i x, nth_error (nseq k a) i = Some x -> x = a + N.of_nat i.
Proof.
  induction k as [|k IH]; intros a i x H; [cbn [nseq] in H; rewrite nth_error_nil in H; discriminate|].
  destruct i as [|i]; cbn [nseq nth_error] in H.
  - inversion H. lia.
  - apply IH in H. lia.
Qed.
Lemma nseq_length k : forall a, length (nseq k a) = k.
Proof. induction k as [|k IH]; intros a; cbn [nseq length]; [reflexivity|]. rewrite IH. reflexivity. Qed.
Lemma word_prog_nth g (f : N -> prim) w pr : nth_error (map f (word_ids g)) w = Some pr -> pr = f (N.of_nat w).
Proof.
  intros H. apply nth_error_map_inv in H. destruct H as (x & Hx & <-). apply nseq_nth_error in Hx. subst. f_equal.
Qed.

(* the list of operation instances the checker builds *)
Lemma zip_ops_In c lg t : forall ops j0 x,
  In x (zip_ops t j0 ops (ops_results c lg t j0 ops)) <->
  exists i o, nth_error ops i = Some o /\
    x = mkopi t (j0 + N.of_nat i) o (op_result c lg t (j0 + N.of_nat i) o).
Proof.
  induction ops as [|o ops IH]; intros j0 x.
  - split; [intros []|]. intros (i & o & H & _). rewrite nth_error_nil in H. discriminate.
  - cbn [zip_ops ops_results hd tl In]. rewrite IH. split.
    + intros [H|(i & o' & H1 & H2)].
      * exists O, o. split; [reflexivity|]. rewrite N.add_0_r. symmetry. exact H.
      * exists (S i), o'. split; [exact H1|]. replace (j0 + N.of_nat (S i)) with (N.succ j0 + N.of_nat i) by lia. exact H2.
    + intros (i & o' & H1 & H2). destruct i as [|i].
      * left. cbn [nth_error] in H1. inversion H1; subst. rewrite N.add_0_r. reflexivity.
      * right. exists i, o'. split; [exact H1|].
        replace (N.succ j0 + N.of_nat i) with (j0 + N.of_nat (S i)) by lia. exact H2.
Qed.
Lemma zip_threads_In c lg : forall ths t0 x,
  In x (zip_threads t0 ths (threads_results c lg t0 ths)) <->
  exists k ops i o, nth_error ths k = Some ops /\ nth_error ops i = Some o /\
    x = mkopi (t0 + N.of_nat k) (N.of_nat i) o (op_result c lg (t0 + N.of_nat k) (N.of_nat i) o).
Proof.
  induction ths as [|ops ths IH]; intros t0 x.
  - split; [intros []|]. intros (k & ops & i & o & H & _). rewrite nth_error_nil in H. discriminate.
  - cbn [zip_threads threads_results hd tl]. rewrite in_app_iff, zip_ops_In, IH. split.
    + intros [(i & o & H1 & H2)|(k & ops' & i & o & H0 & H1 & H2)].
      * exists O, ops, i, o. split; [reflexivity|]. split; [exact H1|]. rewrite N.add_0_r. rewrite N.add_0_l in H2. exact H2.
      * exists (S k), ops', i, o. split; [exact H0|]. split; [exact H1|].
        replace (t0 + N.of_nat (S k)) with (N.succ t0 + N.of_nat k) by lia. exact H2.
    + intros (k & ops' & i & o & H0 & H1 & H2). destruct k as [|k].
      * left. cbn [nth_error] in H0. inversion H0; subst. exists i, o. split; [exact H1|].
        rewrite N.add_0_l. rewrite N.add_0_r. reflexivity.
      * right. exists k, ops', i, o. split; [exact H0|]. split; [exact H1|].
        replace (N.succ t0 + N.of_nat k) with (t0 + N.of_nat (S k)) by lia. exact H2.
Qed.
Lemma all_In c lg ths x :
  In x (zip_threads 0 ths (threads_results c lg 0 ths)) <->
  exists t j o, valid_op ths t j o /\ x = mkopi t j o (op_result c lg t j o).
Proof.
  rewrite zip_threads_In. split.
  - intros (k & ops & i & o & H0 & H1 & H2). exists (N.of_nat k), (N.of_nat i), o. split.
    + exists ops. rewrite !Nat2N.id. split; assumption.
    + rewrite N.add_0_l in H2. exact H2.
  - intros (t & j & o & (ops & H0 & H1) & H2). exists (N.to_nat t), ops, (N.to_nat j), o.
    split; [exact H0|]. split; [exact H1|]. rewrite N.add_0_l, !N2Nat.id. exact H2.
Qed.
Lemma threads_results_length c lg : forall ths t, length (threads_results c lg t ths) = length ths.
Proof. induction ths as [|ops ths IH]; intros t; cbn [threads_results length]; [reflexivity|]. rewrite IH. reflexivity. Qed.

(* reading one page through a word vector *)
Lemma is_bit_set_words b ws p : bm_is_bit_set (with_words b ws) p = (p <? bm_size b) && bitm ws p.
Proof.
  unfold bm_is_bit_set, bm_is_bit_set_o, with_words, bitm. cbn [bm_size bm_words].
  destruct (p <? bm_size b); [|reflexivity]. cbn [andb]. rewrite word_ix_eq.
  destruct (nth_error ws (N.to_nat (p / 64))) as [w|] eqn:E.
  - cbn [val_or]. rewrite (nth_error_nth _ _ 0 E), bit_mask_eq, land_pow2_eqb, negb_involutive. reflexivity.
  - cbn [val_or]. apply nth_error_None in E. rewrite nth_overflow by assumption. rewrite N.bits_0. reflexivity.
Qed.
Lemma mem_of_In l p : mem_of l p = true <-> In p l.
Proof.
  unfold mem_of. rewrite existsb_exists. split.
  - intros (x & Hx & E). apply N.eqb_eq in E. subst. assumption.
  - intros H. exists p. split; [assumption|apply N.eqb_refl].
Qed.

(* the initial bitmap: `new` followed by set_bit for every initial page *)
Lemma fold_set_bit : forall l b, bm_inv b ->
  bm_inv (fold_left bm_set_bit l b) /\ same_geom (fold_left bm_set_bit l b) b /\
  forall p, abs_pages (fold_left bm_set_bit l b) p = abs_pages b p || ((p <? bm_size b) && mem_of l p).
Proof.
  induction l as [|i l IH]; intros b HI.
  - cbn [fold_left]. split; [assumption|]. split; [apply same_geom_refl|]. intros p.
    unfold mem_of. cbn [existsb]. rewrite andb_false_r, orb_false_r. reflexivity.
  - cbn [fold_left]. destruct (set_bit_spec b i HI) as (b' & E & HI' & G & A).
    unfold bm_set_bit at 2 4 6. rewrite E. cbn [val_or].
    destruct (IH b' HI') as (H1 & H2 & H3). split; [assumption|].
    split; [eapply same_geom_trans; eassumption|]. intros p. rewrite H3, A.
    destruct G as (G & _). rewrite G. unfold mem_of. cbn [existsb].
    destruct (N.eqb_spec p i) as [Hpi|Hn]; [subst p|];
      destruct (i <? bm_size b); try destruct (p <? bm_size b); try destruct (abs_pages b p);
      try destruct (abs_pages b i); try destruct (existsb (N.eqb p) l); try destruct (existsb (N.eqb i) l); reflexivity.
Qed.

(* ---------------------------------------------------------------- 6. the model satisfies the checker *)
Section ModelOk.
Variable c : case08.
Hypothesis Hwf : wf_case08 c = true.

Local Notation g := (geom_of c).
Local Notation ths := (k_threads c).
Local Notation mm0 := (bm_words (init_bitmap c)).
Local Notation tr := (merge (k_sched c) (thread_events (geom_of c) 0 (k_threads c))).
Local Notation lg := (snd (run_events mm0 tr)).
Local Notation mmF := (fst (run_events mm0 tr)).
Local Notation all := (zip_threads 0 ths (threads_results c lg 0 ths)).

Lemma wf_ps : 0 < k_ps c.
Proof. unfold wf_case08 in Hwf. rewrite !andb_true_iff in Hwf. destruct Hwf as [[[H _] _] _]. apply N.ltb_lt. exact H. Qed.
Lemma wf_bytes : k_bytes c < W64.
Proof. unfold wf_case08 in Hwf. rewrite !andb_true_iff in Hwf. destruct Hwf as [[_ H] _]. apply N.ltb_lt. exact H. Qed.
Lemma wf_valid t j o : valid_op ths t j o -> wf_cop o = true.
Proof.
  intros (ops & H0 & H1). unfold wf_case08 in Hwf. rewrite !andb_true_iff in Hwf. destruct Hwf as [_ H].
  rewrite forallb_forall in H. apply nth_error_In in H0, H1. specialize (H _ H0). rewrite forallb_forall in H. apply H. exact H1.
Qed.
Lemma g_ps_pos : 0 < g_ps g.
Proof. exact wf_ps. Qed.
Lemma g_size_count : g_size g = k_count c.
Proof. unfold k_count. cbn [geom_of g_size]. symmetry. apply pages_for_div_ceil. exact wf_ps. Qed.
Lemma g_nwords_eq : g_nwords g = k_nwords c.
Proof. unfold k_nwords, g_nwords. rewrite g_size_count. symmetry. apply pages_for_div_ceil. lia. Qed.

Lemma init_facts : bm_inv (init_bitmap c) /\ bm_size (init_bitmap c) = g_size g /\
  forall p, bitm mm0 p = (p <? g_size g) && mem_of (k_init c) p.
Proof.
  pose proof (new_inv (k_bytes c) (k_ps c) wf_ps wf_bytes) as HI.
  destruct (fold_set_bit (k_init c) _ HI) as (H1 & (H2 & _) & H3). fold (init_bitmap c) in H1, H2, H3.
  split; [assumption|]. split; [rewrite H2; reflexivity|]. intros p.
  change (bitm mm0 p) with (raw_bit (init_bitmap c) p). rewrite <- abs_raw by assumption.
  rewrite H3, new_abs. reflexivity.
Qed.
Lemma mm0_length : length mm0 = N.to_nat (g_nwords g).
Proof.
  destruct init_facts as ((Hl & _) & Hs & _). rewrite Hs in Hl. unfold g_nwords. lia.
Qed.
Lemma tr_in_range : in_range mm0 tr.
Proof.
  apply Forall_forall. intros e He. apply event_valid in He. destruct He as (o & pr & Hv & Hp & E).
  rewrite E. cbn [mk e_prim]. pose proof (prog_in_range_lemma g o pr g_ps_pos (wf_valid _ _ _ Hv) Hp).
  rewrite mm0_length. lia.
Qed.
Lemma final_mem p : mem_of (scan_words c mmF) p = (p <? g_size g) && bitm mmF p.
Proof.
  destruct init_facts as (_ & Hs & _). apply eq_true_iff_eq. rewrite mem_of_In. unfold scan_words.
  rewrite filter_In, nrange_In, is_bit_set_words. cbn [with_words bm_size]. rewrite Hs.
  unfold scan_margin. split.
  - intros [_ H]. exact H.
  - intros H. split; [|exact H]. apply andb_true_iff in H. destruct H as [H _]. apply N.ltb_lt in H. lia.
Qed.

Lemma in_all t j o : valid_op ths t j o -> In (mkopi t j o (op_result c lg t j o)) all.
Proof. intros Hv. apply all_In. exists t, j, o. split; [assumption|reflexivity]. Qed.

(* a logged primitive that clears page p and returned it: its operation harvested or cleared p *)
Lemma clearing_event p i e' old : nth_error lg i = Some (e', old) -> keeps (e_prim e') p = false ->
  N.testbit old (p mod 64) = true ->
  exists x, In x all /\ harvested x p || clears c x p = true /\ i_tid x = e_tid e' /\ i_idx x = e_op e'.
Proof.
  intros Hn Hk Hb. pose proof (nth_error_In _ _ (log_nth _ _ _ _ _ Hn)) as He.
  apply event_valid in He. destruct He as (o & pr & Hv & Hp & E).
  exists (mkopi (e_tid e') (e_op e') o (op_result c lg (e_tid e') (e_op e') o)).
  split; [apply in_all; assumption|]. split; [|split; reflexivity].
  assert (Hk' : keeps pr p = false) by (rewrite E in Hk; exact Hk).
  pose proof (proj1 (prog_clears_lemma g o p g_ps_pos (wf_valid _ _ _ Hv)) (ex_intro _ pr (conj Hp Hk'))) as Hc.
  pose proof (wf_valid _ _ _ Hv) as Hw.
  destruct o as [a l|a l|q|q| | | |q]; try (exfalso; exact Hc); unfold harvested, clears; cbn [mkopi i_op i_res op_result].
  - destruct Hc as [_ Hc]. cbn [wf_cop] in Hw. apply andb_true_iff in Hw. destruct Hw as [Ha _].
    apply N.ltb_lt in Ha. apply (overlaps_iff _ _ _ _ wf_ps Ha). exact Hc.
  - destruct Hc as [-> _]. apply N.eqb_refl.
  - rewrite orb_false_r. apply nth_error_In in Hn. rewrite E in Hn.
    destruct (olds_at g (k_sched c) ths mm0 _ _ _ pr old Hv Hn) as (w & Hw1 & Hw2).
    cbn [prog_of] in Hw1. apply word_prog_nth in Hw1. apply keeps_false_word in Hk'. rewrite Hw1 in Hk'.
    cbn [prim_word] in Hk'. rewrite Hk', Nat2N.id, (nth_error_nth _ _ 0 Hw2). exact Hb.
  - reflexivity.
Qed.

(* a primitive that sets page p: its operation marks p *)
Lemma setter_marks p e0 : In e0 tr -> sets (e_prim e0) p = true ->
  exists k, In k all /\ marks c k p = true /\ i_tid k = e_tid e0 /\ i_idx k = e_op e0.
Proof.
  intros He Hs. apply event_valid in He. destruct He as (o & pr & Hv & Hp & E).
  exists (mkopi (e_tid e0) (e_op e0) o (op_result c lg (e_tid e0) (e_op e0) o)).
  split; [apply in_all; assumption|]. split; [|split; reflexivity].
  assert (Hs' : sets pr p = true) by (rewrite E in Hs; exact Hs).
  pose proof (wf_valid _ _ _ Hv) as Hw.
  pose proof (proj1 (prog_sets_lemma g o p g_ps_pos Hw) (ex_intro _ pr (conj Hp Hs'))) as [Hlt Hc].
  unfold marks. cbn [mkopi i_op]. rewrite <- g_size_count. apply N.ltb_lt in Hlt. rewrite Hlt. cbn [andb].
  destruct o as [a l|a l|q|q| | | |q]; try (exfalso; exact Hc).
  - cbn [wf_cop] in Hw. apply andb_true_iff in Hw. destruct Hw as [Ha _].
    apply N.ltb_lt in Ha. apply (overlaps_iff _ _ _ _ wf_ps Ha). exact Hc.
  - subst. apply N.eqb_refl.
Qed.

Lemma somebody_init x p : p < g_size g -> mem_of (k_init c) p = true -> somebody_marked c all x p = true.
Proof.
  intros H1 H2. unfold somebody_marked. rewrite <- g_size_count. apply N.ltb_lt in H1. rewrite H1, H2. reflexivity.
Qed.
Lemma somebody_marker x k p : In k all -> marks c k p = true ->
  match x with Some j => negb (before j k) | None => true end = true -> somebody_marked c all x p = true.
Proof.
  intros H1 H2 H3. unfold somebody_marked. apply andb_true_iff. split.
  - unfold marks in H2. apply andb_true_iff in H2. apply H2.
  - apply orb_true_iff. right. apply existsb_exists. exists k. split; [assumption|]. rewrite H2, H3. reflexivity.
Qed.

(* a value read by a primitive of operation x containing page p: somebody marked p, not after x *)
Lemma read_sound x p i e old : nth_error lg i = Some (e, old) -> p / 64 = prim_word (e_prim e) ->
  N.testbit old (p mod 64) = true -> i_tid x = e_tid e -> i_idx x = e_op e ->
  somebody_marked c all (Some x) p = true.
Proof.
  intros Hn Hw Hb Ht Hj.
  destruct (report_sound_lemma tr mm0 i e old p tr_in_range Hn Hw Hb) as [H0|(j0 & e0 & Hlt & Hn0 & Hs)].
  - destruct init_facts as (_ & _ & Hi). rewrite Hi in H0. apply andb_true_iff in H0. destruct H0 as [H1 H2].
    apply N.ltb_lt in H1. apply somebody_init; assumption.
  - destruct (setter_marks p e0 (nth_error_In _ _ Hn0) Hs) as (k & Hk1 & Hk2 & Hk3 & Hk4).
    apply (somebody_marker _ k); [assumption|assumption|].
    unfold before. rewrite Ht, Hj, Hk3, Hk4.
    destruct (N.eqb_spec (e_tid e) (e_tid e0)) as [Et|Et]; [|reflexivity]. cbn [andb].
    destruct (nth_error_split _ _ Hn0) as (l1 & l2 & Etr & Hlen).
    assert (Hin : In e l2).
    { apply log_nth in Hn. rewrite Etr in Hn. rewrite nth_error_app2 in Hn by lia.
      destruct (i - length l1)%nat as [|d] eqn:Ed; [lia|]. cbn [nth_error] in Hn. apply nth_error_In in Hn. exact Hn. }
    pose proof (order_lemma g (k_sched c) ths l1 e0 l2 e Etr Hin Et) as Ho.
    destruct (N.ltb_spec (e_op e) (e_op e0)); [lia|reflexivity].
Qed.

(* reading word w of the bitmap through a whole-bitmap operation (harvest / clone) *)
Lemma word_read x p t j o (f : N -> prim) : valid_op ths t j o -> prog_of g o = map f (word_ids g) ->
  (forall w, prim_word (f w) = w) -> i_tid x = t -> i_idx x = j ->
  bitm (olds_of lg t j) p = true -> somebody_marked c all (Some x) p = true.
Proof.
  intros Hv Hprog Hf Ht Hj Hb. unfold bitm in Hb.
  destruct (nth_error (olds_of lg t j) (N.to_nat (p / 64))) as [old|] eqn:E.
  - rewrite (nth_error_nth _ _ 0 E) in Hb.
    destruct (olds_read g (k_sched c) ths mm0 t j o _ old Hv E) as (pr & i & Hp & Hi).
    rewrite Hprog in Hp. apply word_prog_nth in Hp. rewrite N2Nat.id in Hp.
    apply (read_sound x p i _ old Hi); [cbn [mk e_prim]; rewrite Hp, Hf; reflexivity|assumption|assumption|assumption].
  - apply nth_error_None in E. rewrite nth_overflow in Hb by assumption. rewrite N.bits_0 in Hb. discriminate.
Qed.

Lemma model_shapes : shapes_ok c all = true.
Proof.
  apply forallb_forall. intros x Hx. apply all_In in Hx. destruct Hx as (t & j & o & Hv & ->).
  cbn [mkopi i_op i_res]. destruct o; try reflexivity. cbn [op_result].
  rewrite (olds_length g (k_sched c) ths mm0 t j CHarvest Hv). cbn [prog_of]. rewrite map_length.
  unfold word_ids. rewrite nseq_length, N2Nat.id, g_nwords_eq. apply N.eqb_refl.
Qed.

Lemma model_conserved : conserved c all (scan_words c mmF) = true.
Proof.
  apply forallb_forall. intros p Hp. apply nrange_In in Hp. rewrite <- g_size_count in Hp.
  assert (Hlt : (p <? g_size g) = true) by (apply N.ltb_lt; assumption).
  apply andb_true_iff. split.
  - destruct (mem_of (k_init c) p && (p <? k_count c)) eqn:Ei; [|reflexivity]. cbn [implb].
    apply andb_true_iff in Ei. destruct Ei as [Ei _].
    assert (Hb : bitm mm0 p = true) by (destruct init_facts as (_ & _ & Hi); rewrite Hi, Hlt, Ei; reflexivity).
    rewrite final_mem, Hlt. cbn [andb].
    destruct (persist_lemma tr mm0 p tr_in_range Hb) as [H|(tra & e & trb & old & _ & _ & Hk & Hn & Ht)];
      [rewrite H; reflexivity|].
    destruct (clearing_event p _ e old Hn Hk Ht) as (x & Hx1 & Hx2 & _).
    apply orb_true_iff. right. apply existsb_exists. exists x. split; assumption.
  - apply forallb_forall. intros k Hk. destruct (marks c k p) eqn:Em; [|reflexivity]. cbn [implb].
    apply all_In in Hk. destruct Hk as (t & j & o & Hv & ->).
    pose proof (wf_valid _ _ _ Hv) as Hw.
    assert (Hs : exists pr, In pr (prog_of g o) /\ sets pr p = true).
    { apply (prog_sets_lemma g o p g_ps_pos Hw). split; [assumption|].
      unfold marks in Em. cbn [mkopi i_op] in Em. apply andb_true_iff in Em. destruct Em as [_ Em].
      destruct o as [a l|a l|q|q| | | |q]; try discriminate.
      - cbn [wf_cop] in Hw. apply andb_true_iff in Hw. destruct Hw as [Ha _]. apply N.ltb_lt in Ha.
        apply (overlaps_iff _ _ _ _ wf_ps Ha). exact Em.
      - apply N.eqb_eq. exact Em. }
    destruct Hs as (pr & Hp1 & Hp2).
    pose proof (valid_event g (k_sched c) ths t j o pr Hv Hp1) as Hin.
    destruct (in_split _ _ Hin) as (tr1 & tr2 & Etr).
    pose proof (mark_conserved_lemma tr1 (mk t j pr) tr2 mm0 p) as MC. rewrite <- Etr in MC.
    destruct (MC tr_in_range Hp2) as [H|(tra & e' & trb & old & E2 & _ & Hk' & Hn & Ht)].
    + rewrite final_mem, Hlt, H. reflexivity.
    + destruct (clearing_event p _ e' old Hn Hk' Ht) as (x & Hx1 & Hx2 & Hx3 & Hx4).
      apply orb_true_iff. right. apply existsb_exists. exists x. split; [assumption|].
      rewrite Hx2. cbn [andb]. unfold before. rewrite Hx3, Hx4. cbn [mkopi i_tid i_idx].
      destruct (N.eqb_spec (e_tid e') t) as [Et|Et]; [|reflexivity]. cbn [andb].
      assert (Hin' : In e' tr2) by (rewrite E2; apply in_or_app; right; left; reflexivity).
      pose proof (order_lemma g (k_sched c) ths tr1 (mk t j pr) tr2 e' Etr Hin' Et) as Ho. cbn [mk e_op] in Ho.
      destruct (N.ltb_spec (e_op e') j); [lia|reflexivity].
Qed.

Lemma model_no_invention : no_invention c all (scan_words c mmF) = true.
Proof.
  apply andb_true_iff. split.
  - apply forallb_forall. intros x Hx. apply forallb_forall. intros p _.
    destruct (reports x p) eqn:Er; [|reflexivity]. cbn [implb].
    pose proof Hx as Hx'. apply all_In in Hx'. destruct Hx' as (t & j & o & Hv & Ex).
    assert (Ht : i_tid x = t) by (rewrite Ex; reflexivity). assert (Hj : i_idx x = j) by (rewrite Ex; reflexivity).
    unfold reports in Er. rewrite Ex in Er. cbn [mkopi i_op i_res] in Er.
    destruct o as [a l|a l|q|q| | | |q]; try discriminate.
    + (* harvest *)
      unfold harvested in Er. cbn [i_op i_res op_result] in Er.
      apply (word_read x p t j CHarvest (fun w => FetchAnd w 0) Hv eq_refl (fun w => eq_refl) Ht Hj Er).
    + (* clone *)
      cbn [op_result] in Er. fold (mem_of (scan_words c (olds_of lg t j)) p) in Er. apply mem_of_In in Er.
      unfold scan_words in Er. apply filter_In in Er. destruct Er as [_ Er]. rewrite is_bit_set_words in Er.
      apply andb_true_iff in Er. destruct Er as [_ Er].
      apply (word_read x p t j CClone Load Hv eq_refl (fun w => eq_refl) Ht Hj Er).
    + (* is_bit_set *)
      apply andb_true_iff in Er. destruct Er as [Eq Er]. apply N.eqb_eq in Eq. subst q. cbn [op_result] in Er.
      destruct (olds_of lg t j) as [|w rest] eqn:Eo; [discriminate|].
      destruct (N.eqb_spec (N.land w (bit_mask p)) 0) as [|Hnz]; [discriminate|].
      assert (Eo' : nth_error (olds_of lg t j) 0 = Some w) by (rewrite Eo; reflexivity).
      destruct (olds_read g (k_sched c) ths mm0 t j (CIsBitSet p) _ w Hv Eo') as (pr & i & Hp & Hi).
      cbn [prog_of] in Hp. destruct (p <? g_size g); [|discriminate]. cbn [nth_error] in Hp. inversion Hp; subst pr.
      apply (read_sound x p i _ w Hi); [cbn [mk e_prim prim_word]; rewrite shr6_eq; reflexivity| |assumption|assumption].
      rewrite bit_mask_eq in Hnz. apply N.eqb_neq in Hnz. rewrite land_pow2_eqb in Hnz.
      apply negb_false_iff in Hnz. exact Hnz.
  - apply forallb_forall. intros p Hp. apply mem_of_In in Hp. rewrite final_mem in Hp.
    apply andb_true_iff in Hp. destruct Hp as [H1 H2]. apply N.ltb_lt in H1.
    destruct (final_sound_lemma tr mm0 p tr_in_range H2) as [H0|(j0 & e0 & Hn0 & Hs)].
    + destruct init_facts as (_ & _ & Hi). rewrite Hi in H0. apply andb_true_iff in H0. destruct H0 as [_ H0].
      apply somebody_init; assumption.
    + destruct (setter_marks p e0 (nth_error_In _ _ Hn0) Hs) as (k & Hk1 & Hk2 & _).
      apply (somebody_marker None k); [assumption|assumption|reflexivity].
Qed.

Lemma run_C08_eq : run_C08 c =
  {| b_log := map log_entry lg; b_final := scan_words c mmF; b_results := threads_results c lg 0 ths |}.
Proof. unfold run_C08. destruct (run_events mm0 tr) as [m l]. reflexivity. Qed.

Lemma C08_model_ok_section : ok_C08 c (run_C08 c) = true.
Proof.
  rewrite run_C08_eq. unfold ok_C08. cbn [b_results b_final].
  rewrite threads_results_length, Nat.eqb_refl, model_shapes, model_conserved, model_no_invention. reflexivity.
Qed.
End ModelOk.

Lemma C08_model_ok_lemma : forall c, wf_case08 c = true -> ok_C08 c (run_C08 c) = true.
Proof. exact C08_model_ok_section. Qed.
