(* C07, part 6: the four stream entry points (slice / region / guest level) driven by the crate's OWN
   stream endpoints (Impl/IoEnd.v over the adapters of Impl/Io.v) return - no panic, no loop that
   outlives its fuel - for EVERY start address and count, every endpoint content and EVERY position
   (a Cursor may sit anywhere in [0, 2^64): past its end it yields 0 bytes / WriteZero), every layout,
   in both build profiles.

   Structure: [good_call] / [good_exact] say what the proofs need of a stream (it returns, keeps its
   invariant, never reports EINTR, never claims more than the buffer holds); the entry points are total
   for every such stream; the seven endpoint kinds are such streams.
   The invariant carries a byte BUDGET B (how many bytes may still be handed to the stream): only the
   Vec<u8> sink needs it - `set_len(len + count)` (io.rs:332) overflows in a checked build once the
   vector would reach 2^64 bytes, so its statement assumes that vector and guest memory fit the address
   space together. *)
From VM Require Import Prelude.MachInt Prelude.Outcome Prelude.C1314List Impl.Io Impl.IoGuest Impl.IoEnd.
From VM Require Impl.Std Spec.C14 Suite.C14 Proofs.C13.
From Coq Require Import Arith.

Local Notation SS := Datatypes.S.

(* ------------------------------------------------------------------ what is needed of a stream *)
Section Gen.
Context {S : Type}.
Variable P : N -> S -> Prop.
Hypothesis P_anti : forall B B' s, B' <= B -> P B s -> P B' s.

Definition good_call (call : callT S) : Prop :=
  forall B s m v, P B s -> vs_len v <= B ->
    exists s' m' r, call s m v = Val ((s', m'), r) /\ r <> Err (VIo EInterrupted) /\
      match r with Ok n => n <= vs_len v /\ P (B - n) s' | Err _ => P B s' end.
Definition good_exact (fuel : nat) (ex : exT S) : Prop :=
  forall B s m v, P B s -> vs_len v <= B -> (N.to_nat (vs_len v) < fuel)%nat ->
    exists s' m' r, ex s m v = Val ((s', m'), r) /\ P (B - vs_len v) s'.

Variable call : callT S.
Hypothesis Hcall : good_call call.

(* retry_eintr! around a stream that never reports EINTR is one call *)
Lemma retry_good fuel B s m v : P B s -> vs_len v <= B -> (0 < fuel)%nat ->
  exists s' m' r, retry_eintr fuel call s m v = Val ((s', m'), r) /\ r <> Err (VIo EInterrupted) /\
    match r with Ok n => n <= vs_len v /\ P (B - n) s' | Err _ => P B s' end.
Proof.
  intros HP Hv Hf. destruct fuel as [|f]; [lia|]. cbn [retry_eintr].
  destruct (Hcall B s m v HP Hv) as (s' & m' & r & E & Hne & Hr). rewrite E. cbn [bind].
  exists s', m', r. split; [|split; assumption].
  destruct r as [n|[[]| |]]; try reflexivity. exfalso. apply Hne. reflexivity.
Qed.

Lemma vs_offset_len v n pb : vs_offset v n = Ok pb -> vs_len pb = vs_len v - n /\ n <= vs_len v.
Proof.
  unfold vs_offset. destruct (checked_add (vs_addr v) n); [|discriminate].
  destruct (checked_sub (vs_len v) n) as [k|] eqn:E; [|discriminate].
  apply checked_sub_Some in E. destruct E as [-> Hle]. intros H. inversion H; subst. cbn [vs_len]. split; [reflexivity|exact Hle].
Qed.

(* the default read_exact_volatile / write_all_volatile loop: every round that goes on has moved at
   least one byte, so (bytes of the buffer) + 1 rounds are enough *)
Lemma exact_loop_good zerr fi : (0 < fi)%nat -> forall fuel B s m pb, P B s -> vs_len pb <= B ->
  (N.to_nat (vs_len pb) < fuel)%nat ->
  exists s' m' r, exact_loop zerr fi fuel call s m pb = Val ((s', m'), r) /\ P (B - vs_len pb) s'.
Proof.
  intros Hfi. induction fuel as [|f IH]; intros B s m pb HP Hv Hf; [lia|]. cbn [exact_loop].
  destruct (N.eqb_spec (vs_len pb) 0) as [Hz|Hz].
  { exists s, m, (Ok tt). split; [reflexivity|]. apply (P_anti B); [lia|exact HP]. }
  destruct (retry_good fi B s m pb HP Hv Hfi) as (s1 & m1 & r & E & _ & Hr). rewrite E. cbn [bind].
  destruct r as [n|e].
  - destruct Hr as [Hn HP1]. destruct (N.eqb_spec n 0) as [Hn0|Hn0].
    + eexists _, _, _. split; [reflexivity|]. apply (P_anti (B - n)); [lia|exact HP1].
    + destruct (vs_offset pb n) as [pb'|e] eqn:Eo.
      * destruct (vs_offset_len _ _ _ Eo) as [El _].
        destruct (IH (B - n) s1 m1 pb' HP1 ltac:(lia) ltac:(lia)) as (s2 & m2 & r2 & E2 & HP2).
        exists s2, m2, r2. split; [exact E2|]. apply (P_anti (B - n - vs_len pb')); [lia|exact HP2].
      * eexists _, _, _. split; [reflexivity|]. apply (P_anti (B - n)); [lia|exact HP1].
  - eexists _, _, _. split; [reflexivity|]. apply (P_anti B); [lia|exact Hr].
Qed.

Lemma exact_volatile_good zerr fuel : good_exact fuel (exact_volatile zerr fuel call).
Proof.
  intros B s m v HP Hv Hf. unfold exact_volatile.
  destruct (vs_offset v 0) as [pb|e] eqn:Eo.
  - destruct (vs_offset_len _ _ _ Eo) as [El _]. rewrite N.sub_0_r in El.
    destruct (exact_loop_good zerr fuel ltac:(lia) fuel B s m pb HP ltac:(lia) ltac:(lia)) as (s' & m' & r & E & HP').
    exists s', m', r. split; [exact E|]. rewrite <- El. exact HP'.
  - eexists _, _, _. split; [reflexivity|]. apply (P_anti B); [lia|exact HP].
Qed.

(* ---- VolatileSlice level *)
Lemma vs_subslice_len v a c sl : vs_subslice v a c = Ok sl -> vs_len sl = c /\ a + c <= vs_len v.
Proof.
  unfold vs_subslice. destruct (checked_add a c) as [e|] eqn:E; [|discriminate].
  apply checked_add_Some in E. destruct E as [-> _].
  destruct (N.ltb_spec (vs_len v) (a + c)) as [Hlt|Hge]; [discriminate|]. intros Hx. inversion Hx; subst. cbn [vs_len]. split; [reflexivity|assumption].
Qed.

(* the window a transfer of `count` bytes at `addr` hands to the stream holds at most this many bytes *)
Definition window (self : vslice) (addr count : N) : N := N.min count (vs_len self - addr).

(* read_volatile_from / write_volatile_to: the `unwrap` of :803 / :820 never fires *)
Lemma vs_upto_good fuel self addr B s m count : P B s -> window self addr count <= B -> count < W64 -> (0 < fuel)%nat ->
  exists s' m' r, vs_upto fuel call self addr s m count = Val ((s', m'), r) /\
    match r with Ok n => n <= window self addr count /\ P (B - n) s' | Err _ => P B s' end.
Proof.
  intros HP Hs Hc Hf. unfold vs_upto, window in *.
  destruct (vs_offset self addr) as [sl|e] eqn:Eo; [|eexists _, _, _; split; [reflexivity|exact HP]].
  destruct (vs_offset_len _ _ _ Eo) as [El Ha].
  set (k := N.min (vs_len sl) count).
  assert (Hs2 : exists sl2, vs_subslice sl 0 k = Ok sl2 /\ vs_len sl2 = k).
  { unfold vs_subslice, checked_add. rewrite N.add_0_l. destruct (N.ltb_spec k W64) as [_|Hb]; [|unfold k in Hb; lia].
    destruct (N.ltb_spec (vs_len sl) k) as [Hb|_]; [unfold k in Hb; lia|]. eexists. split; reflexivity. }
  destruct Hs2 as (sl2 & -> & El2).
  destruct (retry_good fuel B s m sl2 HP ltac:(unfold k in *; lia) Hf) as (s' & m' & r & E & _ & Hr).
  exists s', m', r. split; [exact E|]. destruct r as [n|e]; [|exact Hr]. destruct Hr as [Hn HP']. unfold k in *. split; [lia|exact HP'].
Qed.

(* read_exact_volatile_from / write_all_volatile_to over the stream's own exact method *)
Lemma vs_exact_with_good fuel ex self addr B s m count : good_exact fuel ex -> P B s -> window self addr count <= B ->
  (N.to_nat (window self addr count) < fuel)%nat ->
  exists s' m' r, vs_exact_with ex self addr s m count = Val ((s', m'), r) /\ P (B - window self addr count) s'.
Proof.
  intros Hex HP Hs Hf. unfold vs_exact_with, window in *.
  destruct (vs_subslice self addr count) as [sl|e] eqn:Es.
  - destruct (vs_subslice_len _ _ _ _ Es) as [El Hle].
    destruct (Hex B s m sl HP ltac:(lia) ltac:(lia)) as (s' & m' & r & E & HP').
    exists s', m', r. split; [exact E|]. apply (P_anti (B - vs_len sl)); [lia|exact HP'].
  - eexists _, _, _. split; [reflexivity|]. apply (P_anti B); [lia|exact HP].
Qed.

(* ---- GuestRegionMmap level *)
Lemma region_upto_good fuel r addr B s m count : P B s -> window (region_slice r) addr count <= B -> count < W64 -> (0 < fuel)%nat ->
  exists s' m' x, region_upto fuel call r addr s m count = Val ((s', m'), x) /\
    match x with GOk n => n <= window (region_slice r) addr count /\ P (B - n) s' | GErr _ => P B s' end.
Proof.
  intros HP Hs Hc Hf. unfold region_upto.
  destruct (vs_upto_good fuel (region_slice r) addr B s m count HP Hs Hc Hf) as (s' & m' & x & E & Hx). rewrite E.
  cbn [omap fst snd]. eexists _, _, _. split; [reflexivity|]. destruct x as [n|e]; cbn [map_err]; exact Hx.
Qed.
Lemma region_exact_with_good fuel ex r addr B s m count : good_exact fuel ex -> P B s -> window (region_slice r) addr count <= B ->
  (N.to_nat (window (region_slice r) addr count) < fuel)%nat ->
  exists s' m' x, region_exact_with ex r addr s m count = Val ((s', m'), x) /\ P (B - window (region_slice r) addr count) s'.
Proof.
  intros Hex HP Hs Hf. unfold region_exact_with.
  destruct (vs_exact_with_good fuel ex (region_slice r) addr B s m count Hex HP Hs Hf) as (s' & m' & x & E & Hx). rewrite E.
  cbn [omap fst snd]. eexists _, _, _. split; [reflexivity|exact Hx].
Qed.
End Gen.

(* ------------------------------------------------------------------ try_access (IoGuest's transcription)
   Vb cur = how many bytes of the regions lie below address cur.  Every round that goes on has advanced
   cur by n >= 1 bytes INSIDE a region, so Vb grows by n: (bytes of all regions) + 1 rounds are enough,
   whatever the stream does - no assumption on the layout (regions may even overlap). *)
Import Suite.C14.
Definition ov (r : region) (cur : N) : N := N.min (g_len r) (cur - g_start r).
Definition Vb (L : list region) (cur : N) : N := fold_right (fun r acc => ov r cur + acc) 0 L.

Lemma ov_le r cur : ov r cur <= g_len r.
Proof. unfold ov. lia. Qed.
Lemma ov_mono r a b : a <= b -> ov r a <= ov r b.
Proof. unfold ov. lia. Qed.
Lemma ov_step r cur n : g_start r <= cur -> cur + n <= g_start r + g_len r -> ov r (cur + n) = ov r cur + n.
Proof. unfold ov. lia. Qed.
Lemma Vb_le L cur : Vb L cur <= total_len L.
Proof.
  induction L as [|r t IH]; cbn [Vb total_len fold_right]; [lia|]. fold (Vb t cur). fold (total_len t).
  pose proof (ov_le r cur). lia.
Qed.
Lemma Vb_mono L a b : a <= b -> Vb L a <= Vb L b.
Proof.
  intros H. induction L as [|r t IH]; cbn [Vb fold_right]; [lia|]. fold (Vb t a). fold (Vb t b).
  pose proof (ov_mono r a b H). lia.
Qed.
Lemma Vb_step L r cur n : In r L -> g_start r <= cur -> cur + n <= g_start r + g_len r -> Vb L cur + n <= Vb L (cur + n).
Proof.
  intros Hin Hs He. induction L as [|q t IH]; [destruct Hin|]. cbn [Vb fold_right]. fold (Vb t cur). fold (Vb t (cur + n)).
  destruct Hin as [->|Hin].
  - rewrite (ov_step r cur n Hs He). pose proof (Vb_mono t cur (cur + n) ltac:(lia)). lia.
  - specialize (IH Hin). pose proof (ov_mono q cur (cur + n) ltac:(lia)). lia.
Qed.
Lemma contains_bounds region cur : contains region cur = true -> g_start region <= cur /\ cur - g_start region < g_len region.
Proof.
  unfold contains. intros H. apply andb_true_iff in H. destruct H as [H1 H2].
  apply N.leb_le in H1. apply N.ltb_lt in H2. split; assumption.
Qed.

Section TA.
Context {S : Type}.
Variable Q : N -> S -> Prop.          (* invariant of the stream state, indexed by the current address *)
Variables (md : mode) (L : list region) (count addr : N) (f : cbT S).
Hypothesis Hcount : count < W64.
(* the callback, asked for len bytes at address cur inside region: returns; on success it reports
   n <= len bytes and the invariant holds at cur + n *)
Hypothesis Hcb : forall cur total len region s m, Q cur s -> In region L -> contains region cur = true ->
  len <= g_len region - (cur - g_start region) -> len < W64 ->
  exists s' m' r, f total len (cur - g_start region) region s m = Val ((s', m'), r) /\
    match r with GOk n => n <= len /\ Q (cur + n) s' | GErr _ => True end.

Lemma io_try_access_total : forall fuel cur total s m, Q cur s -> total <= count ->
  (N.to_nat (total_len L - Vb L cur) < fuel)%nat ->
  exists v, try_access md fuel L count addr f cur total s m = Val v.
Proof.
  induction fuel as [|fu IH]; intros cur total s m HQ Ht Hf; [lia|]. cbn [try_access].
  destruct (find_region L cur) as [region|] eqn:F; [|eexists; reflexivity].
  unfold find_region in F. apply find_some in F. destruct F as [Hin Hc].
  destruct (contains_bounds _ _ Hc) as [H1 H2].
  unfold to_region_addr, checked_sub. destruct (N.leb_spec (g_start region) cur) as [_|Hb]; [|lia].
  destruct (N.ltb_spec (cur - g_start region) (g_len region)) as [_|Hb]; [|lia].
  rewrite psub_Val by lia. cbn [bind]. rewrite psub_Val by lia. cbn [bind].
  set (len := N.min (g_len region - (cur - g_start region)) (count - total)).
  destruct (Hcb cur total len region s m HQ Hin Hc ltac:(unfold len; lia) ltac:(unfold len; lia)) as (s' & m' & r & E & Hr).
  rewrite E. cbn [bind]. destruct r as [n|e]; [|eexists; reflexivity]. destruct Hr as [Hn HQ'].
  destruct (N.eqb_spec n 0) as [Hn0|Hn0]; [eexists; reflexivity|].
  destruct (checked_add total n) as [x|] eqn:C; [|eexists; reflexivity].
  apply checked_add_Some in C. destruct C as [-> Hx].
  destruct (N.ltb_spec (total + n) count) as [Hlt|Hge].
  - unfold overflowing_add. destruct (N.leb_spec W64 (cur + n)) as [Hw|Hnw]; cbn [negb].
    + destruct ((cur + n) mod W64 =? 0); eexists; reflexivity.
    + rewrite N.mod_small by lia. apply IH; [exact HQ'|lia|].
      pose proof (Vb_step L region cur n Hin H1 ltac:(unfold len in Hn; lia)) as Hs.
      pose proof (Vb_le L (cur + n)). pose proof (Vb_le L cur). lia.
  - destruct (total + n =? count); eexists; reflexivity.
Qed.
End TA.

(* ---- Bytes<GuestAddress> level, for every good stream *)
Section GuestGood.
Context {S : Type}.
Variable P : N -> S -> Prop.
Hypothesis P_anti : forall B B' s, B' <= B -> P B s -> P B' s.
Variables (md : mode) (L : list region).

Lemma window_region region cur len : len <= g_len region - (cur - g_start region) ->
  window (region_slice region) (cur - g_start region) len = len.
Proof. intros H. unfold window. cbn [region_slice vs_len]. lia. Qed.

Lemma window_budget cur len region : In region L -> contains region cur = true -> len <= g_len region - (cur - g_start region) ->
  len <= total_len L - Vb L cur.
Proof.
  intros Hin Hc Hl. destruct (contains_bounds _ _ Hc) as [H1 H2].
  pose proof (Vb_step L region cur len Hin H1 ltac:(lia)). pose proof (Vb_le L (cur + len)). lia.
Qed.
Lemma callback_budget cur n len region s : In region L -> contains region cur = true ->
  len <= g_len region - (cur - g_start region) -> n <= len ->
  P (total_len L - Vb L cur - n) s -> P (total_len L - Vb L (cur + n)) s.
Proof.
  intros Hin Hc Hl Hn. destruct (contains_bounds _ _ Hc) as [H1 H2]. apply P_anti.
  pose proof (Vb_step L region cur n Hin H1 ltac:(lia)). lia.
Qed.

Lemma gm_read_volatile_from_good fuel call addr s m count : good_call P call -> count < W64 ->
  P (total_len L) s -> (0 < fuel)%nat -> (N.to_nat (total_len L) < fuel)%nat ->
  exists v, gm_read_volatile_from md fuel call L addr s m count = Val v.
Proof.
  intros Hc Hcnt HP Hf0 Hf. unfold gm_read_volatile_from.
  apply (io_try_access_total (fun cur s => P (total_len L - Vb L cur) s) md L count addr _ Hcnt).
  - intros cur total len region s0 m0 HQ Hin Hcon Hlen Hlw.
    pose proof (window_budget cur len region Hin Hcon Hlen) as Hb.
    destruct (region_upto_good P P_anti call Hc fuel region (cur - g_start region) (total_len L - Vb L cur) s0 m0 len HQ
                ltac:(rewrite (window_region region cur len Hlen); exact Hb) Hlw Hf0) as (s' & m' & x & E & Hx).
    exists s', m', x. split; [exact E|]. destruct x as [n|e]; [|exact I].
    rewrite (window_region region cur len Hlen) in Hx. destruct Hx as [Hn HP']. split; [exact Hn|].
    apply (callback_budget cur n len region s' Hin Hcon Hlen Hn HP').
  - apply (P_anti (total_len L)); [lia|exact HP].
  - lia.
  - lia.
Qed.

Lemma gm_exact_of_val {T} (x : outcome ((T * list N) * gres N)) count : (exists v, x = Val v) -> exists v, gm_exact_of x count = Val v.
Proof. intros [v ->]. unfold gm_exact_of. cbn [omap]. eexists; reflexivity. Qed.

Lemma gm_read_exact_volatile_from_good fuel call addr s m count : good_call P call -> count < W64 ->
  P (total_len L) s -> (0 < fuel)%nat -> (N.to_nat (total_len L) < fuel)%nat ->
  exists v, gm_read_exact_volatile_from md fuel call L addr s m count = Val v.
Proof. intros. unfold gm_read_exact_volatile_from. apply gm_exact_of_val. apply gm_read_volatile_from_good; assumption. Qed.

Lemma gm_write_volatile_to_with_good fuel ex addr s m count : good_exact P fuel ex -> count < W64 ->
  P (total_len L) s -> (N.to_nat (total_len L) < fuel)%nat ->
  exists v, gm_write_volatile_to_with md fuel ex L addr s m count = Val v.
Proof.
  intros Hex Hcnt HP Hf. unfold gm_write_volatile_to_with.
  apply (io_try_access_total (fun cur s => P (total_len L - Vb L cur) s) md L count addr _ Hcnt).
  - intros cur total len region s0 m0 HQ Hin Hcon Hlen Hlw.
    pose proof (window_budget cur len region Hin Hcon Hlen) as Hb.
    pose proof (Vb_le L cur) as HV.
    destruct (region_exact_with_good P P_anti fuel ex region (cur - g_start region) (total_len L - Vb L cur) s0 m0 len Hex HQ
                ltac:(rewrite (window_region region cur len Hlen); exact Hb)
                ltac:(rewrite (window_region region cur len Hlen); lia)) as (s' & m' & x & E & Hx).
    rewrite E. cbn [omap fst snd]. eexists _, _, _. split; [reflexivity|]. destruct x as [u|e]; [|exact I].
    rewrite (window_region region cur len Hlen) in Hx. split; [lia|].
    apply (callback_budget cur len len region s' Hin Hcon Hlen ltac:(lia) Hx).
  - apply (P_anti (total_len L)); [lia|exact HP].
  - lia.
  - lia.
Qed.
Lemma gm_write_all_volatile_to_with_good fuel ex addr s m count : good_exact P fuel ex -> count < W64 ->
  P (total_len L) s -> (N.to_nat (total_len L) < fuel)%nat ->
  exists v, gm_write_all_volatile_to_with md fuel ex L addr s m count = Val v.
Proof. intros. unfold gm_write_all_volatile_to_with. apply gm_exact_of_val. apply gm_write_volatile_to_with_good; assumption. Qed.
End GuestGood.

(* ------------------------------------------------------------------ the crate's endpoints are good streams *)
Import Proofs.C13.
(* invariant of a reader / writer with B bytes still to be handed to it.  Cursor: position and data length
   are u64 / usize values (ANY position, also past the end); Vec<u8>: the vector and what it may still
   receive fit usize together; the others: nothing. *)
Definition rd_P (k : rkind) (B : N) (s : sstate) : Prop :=
  match k with RCursor => cur_ok s | _ => True end.
Definition wr_P (k : wkind) (B : N) (s : sstate) : Prop :=
  match k with WVec => nlen (s_data s) + B < W64 | WCursor => cur_ok s | _ => True end.
Lemma rd_P_anti k B B' s : B' <= B -> rd_P k B s -> rd_P k B' s.
Proof. destruct k; cbn [rd_P]; auto. Qed.
Lemma wr_P_anti k B B' s : B' <= B -> wr_P k B s -> wr_P k B' s.
Proof. destruct k; cbn [wr_P]; auto. intros. lia. Qed.

Lemma nlen_mem_read m off len : nlen (mem_read m off len) <= len.
Proof. unfold mem_read. rewrite nlen_ntake. lia. Qed.

Lemma rd_call_good md k : good_call (rd_P k) (rd_call md k).
Proof.
  intros B s m v HP Hv. destruct k; cbn [rd_call rd_P] in *.
  - rewrite slice_read_volatile_val. eexists _, _, _. split; [reflexivity|]. split; [discriminate|]. split; [lia|exact I].
  - rewrite (cursor_read_val md s m v HP). eexists _, _, _. split; [reflexivity|]. split; [discriminate|]. split; [lia|].
    destruct HP as [Hp Hd]. unfold cur_ok, set_pos. cbn [s_pos s_data]. split; [|exact Hd].
    rewrite nlen_ndrop. unfold Std.cur_start. lia.
  - unfold read_volatile_raw_fd, file_read. cbn [fst snd]. eexists _, _, _. split; [reflexivity|]. split; [discriminate|].
    split; [rewrite nlen_ntake; lia|exact I].
Qed.

Lemma wr_call_good md k : good_call (wr_P k) (wr_call md k).
Proof.
  intros B s m v HP Hv. destruct k; cbn [wr_call wr_P] in *.
  - rewrite mslice_write_volatile_val. eexists _, _, _. split; [reflexivity|]. split; [discriminate|]. split; [lia|exact I].
  - rewrite (vec_write_volatile_val md s m v) by lia. eexists _, _, _. split; [reflexivity|]. split; [discriminate|].
    split; [lia|]. cbn [s_data]. rewrite nlen_app. pose proof (nlen_mem_read m (vs_off v) (vs_len v)). lia.
  - pose proof (cursor_write_val md s m v HP) as E. cbv zeta in E.
    eexists _, _, _. split; [exact E|]. split; [discriminate|]. split; [lia|].
    exact (cursor_write_inv md _ _ _ _ _ _ HP E).
  - unfold write_volatile_raw_fd, file_write.
    pose proof (nlen_mem_read m (vs_off v) (vs_len v)) as Hl.
    destruct (nlen (mem_read m (vs_off v) (vs_len v)) =? 0); eexists _, _, _; (split; [reflexivity|]); (split; [discriminate|]);
      (split; [lia|exact I]).
Qed.

Lemma rd_exact_good md fuel k : good_exact (rd_P k) fuel (rd_exact md fuel k).
Proof.
  destruct k; cbn [rd_exact].
  - intros B s m v HP Hv Hf. cbn [rd_P] in *. unfold slice_read_exact_volatile.
    destruct (nlen (slice_rem s) <? vs_len v); [eexists _, _, _; split; [reflexivity|exact I]|].
    rewrite slice_read_volatile_val. cbn [bind]. eexists _, _, _. split; [reflexivity|exact I].
  - intros B s m v HP Hv Hf. cbn [rd_P] in *. rewrite (cursor_read_exact_val md s m v HP).
    destruct (N.ltb_spec (nlen (ndrop (Std.cur_start s) (s_data s))) (vs_len v)) as [Hlt|Hge];
      eexists _, _, _; (split; [reflexivity|]); [exact HP|].
    destruct HP as [Hp Hd]. unfold cur_ok, set_pos. cbn [s_pos s_data]. split; [|exact Hd].
    rewrite nlen_ndrop in Hge. unfold Std.cur_start in Hge. lia.
  - apply (exact_volatile_good (rd_P RFile) (rd_P_anti RFile) _ (rd_call_good md RFile)).
Qed.

Lemma wr_all_good md fuel k : good_exact (wr_P k) fuel (wr_all md fuel k).
Proof.
  destruct k; cbn [wr_all].
  - intros B s m v HP Hv Hf. cbn [wr_P] in *. unfold mslice_write_all_volatile. rewrite mslice_write_volatile_val. cbn [bind].
    destruct (_ =? _); eexists _, _, _; (split; [reflexivity|exact I]).
  - apply (exact_volatile_good (wr_P WVec) (wr_P_anti WVec) _ (wr_call_good md WVec)).
  - apply (exact_volatile_good (wr_P WCursor) (wr_P_anti WCursor) _ (wr_call_good md WCursor)).
  - apply (exact_volatile_good (wr_P WFile) (wr_P_anti WFile) _ (wr_call_good md WFile)).
Qed.

(* ------------------------------------------------------------------ every transfer of every kind returns *)
Definition own_P (x : oxfer) (B : N) (s : sstate) : Prop :=
  match x with XRdUpTo k | XRdExact k => rd_P k B s | XWrUpTo k | XWrAll k => wr_P k B s end.

Lemma omap_val_ex {A B} (g : A -> B) (o : outcome A) : (exists v, o = Val v) -> exists v, omap g o = Val v.
Proof. intros [v ->]. eexists; reflexivity. Qed.
Lemma window_le self addr count : window self addr count <= vs_len self.
Proof. unfold window. lia. Qed.

Lemma own_exec_total_lemma : forall md fuel t x s m addr count, count < W64 -> own_P x (tbytes t) s ->
  (N.to_nat (tbytes t) < fuel)%nat -> exists v, own_exec md fuel t x s m addr count = Val v.
Proof.
  intros md fuel t x s m addr count Hc HP Hf. assert (Hf0 : (0 < fuel)%nat) by lia.
  destruct t as [soff slen|r|L]; cbn [tbytes] in *; unfold own_exec.
  - set (self := {| vs_addr := HBASE + soff; vs_off := soff; vs_len := slen |}).
    pose proof (window_le self addr count) as Hw. cbn [self vs_len] in Hw.
    destruct x as [k|k|k|k]; cbn [own_P] in HP; apply omap_val_ex.
    + destruct (vs_upto_good (rd_P k) (rd_P_anti k) (rd_call md k) (rd_call_good md k) fuel self addr slen s m count HP Hw Hc Hf0) as (s' & m' & r & E & _). eauto.
    + destruct (vs_exact_with_good (rd_P k) (rd_P_anti k) fuel (rd_exact md fuel k) self addr slen s m count (rd_exact_good md fuel k) HP Hw ltac:(lia)) as (s' & m' & r & E & _). eauto.
    + destruct (vs_upto_good (wr_P k) (wr_P_anti k) (wr_call md k) (wr_call_good md k) fuel self addr slen s m count HP Hw Hc Hf0) as (s' & m' & r & E & _). eauto.
    + destruct (vs_exact_with_good (wr_P k) (wr_P_anti k) fuel (wr_all md fuel k) self addr slen s m count (wr_all_good md fuel k) HP Hw ltac:(lia)) as (s' & m' & r & E & _). eauto.
  - pose proof (window_le (region_slice r) addr count) as Hw. cbn [region_slice vs_len] in Hw.
    destruct x as [k|k|k|k]; cbn [own_P] in HP; apply omap_val_ex.
    + destruct (region_upto_good (rd_P k) (rd_P_anti k) (rd_call md k) (rd_call_good md k) fuel r addr (g_len r) s m count HP Hw Hc Hf0) as (s' & m' & y & E & _). eauto.
    + destruct (region_exact_with_good (rd_P k) (rd_P_anti k) fuel (rd_exact md fuel k) r addr (g_len r) s m count (rd_exact_good md fuel k) HP Hw ltac:(lia)) as (s' & m' & y & E & _). eauto.
    + destruct (region_upto_good (wr_P k) (wr_P_anti k) (wr_call md k) (wr_call_good md k) fuel r addr (g_len r) s m count HP Hw Hc Hf0) as (s' & m' & y & E & _). eauto.
    + destruct (region_exact_with_good (wr_P k) (wr_P_anti k) fuel (wr_all md fuel k) r addr (g_len r) s m count (wr_all_good md fuel k) HP Hw ltac:(lia)) as (s' & m' & y & E & _). eauto.
  - fold (total_len L) in *. destruct x as [k|k|k|k]; cbn [own_P] in HP; apply omap_val_ex.
    + apply (gm_read_volatile_from_good (rd_P k) (rd_P_anti k) md L fuel _ addr s m count (rd_call_good md k) Hc HP Hf0 Hf).
    + apply (gm_read_exact_volatile_from_good (rd_P k) (rd_P_anti k) md L fuel _ addr s m count (rd_call_good md k) Hc HP Hf0 Hf).
    + apply (gm_write_volatile_to_with_good (wr_P k) (wr_P_anti k) md L fuel _ addr s m count (wr_all_good md fuel k) Hc HP Hf).
    + apply (gm_write_all_volatile_to_with_good (wr_P k) (wr_P_anti k) md L fuel _ addr s m count (wr_all_good md fuel k) Hc HP Hf).
Qed.

(* ------------------------------------------------------------------ a Cursor positioned at or past its end
   (ANY position up to u64::MAX): a read yields 0 bytes and leaves everything as it was, a write accepts 0 bytes
   (so write_all_volatile of a non-empty buffer answers WriteZero), in both build profiles - never a panic.
   (The clamp `position().min(len)` of io.rs:349 / :361 / :373 is what makes the slicing `[pos..]` safe.) *)
Lemma cursor_past_end_lemma : forall md st m v, cur_ok st -> nlen (s_data st) <= s_pos st ->
  cursor_read_volatile md st m v = Val ((st, m), Ok 0) /\
  (cursor_read_exact_volatile md st m v =
     if 0 <? vs_len v then Val ((st, m), Err (VIo EUnexpectedEof)) else Val ((st, m), Ok tt)) /\
  cursor_write_volatile md st m v = Val ((st, m), Ok 0).
Proof.
  intros md st m v Hc Hp. pose proof Hc as [Hp64 Hd64].
  assert (Hs : Std.cur_start st = nlen (s_data st)) by (unfold Std.cur_start; lia).
  assert (Hr : ndrop (Std.cur_start st) (s_data st) = []) by (apply ndrop_all; lia).
  assert (Hn0 : nlen (@nil N) = 0) by reflexivity.
  assert (Ht0 : forall l : list N, ntake 0 l = []) by reflexivity.
  split; [|split].
  - rewrite (cursor_read_val md st m v Hc). cbv zeta. rewrite Hr, Hn0, N.min_0_r, N.add_0_r, Ht0, mem_write_nil.
    destruct st; reflexivity.
  - rewrite (cursor_read_exact_val md st m v Hc). cbv zeta. rewrite Hr, Hn0.
    destruct (N.ltb_spec 0 (vs_len v)) as [Hlt|Hge]; [reflexivity|].
    assert (Hz : vs_len v = 0) by lia. rewrite Hz, N.add_0_r, Ht0, mem_write_nil.
    destruct st; reflexivity.
  - rewrite (cursor_write_val md st m v Hc). cbv zeta. rewrite Hs, N.sub_diag, N.min_0_r, N.add_0_r.
    unfold mem_read. rewrite Ht0, mem_write_nil. destruct st; reflexivity.
Qed.

Lemma own_endpoints_good_lemma : forall md fuel,
  (forall k, good_call (rd_P k) (rd_call md k)) /\
  (forall k, good_call (wr_P k) (wr_call md k)) /\
  (forall k, good_exact (rd_P k) fuel (rd_exact md fuel k)) /\
  (forall k, good_exact (wr_P k) fuel (wr_all md fuel k)).
Proof.
  intros md fuel. split; [apply rd_call_good|]. split; [apply wr_call_good|]. split; [apply rd_exact_good|apply wr_all_good].
Qed.
