(* C07 - proofs, part 5: the assembled model (Suite/C07.v) satisfies the checker on every
   well-formed case.  Parts 1-4: Proofs/C07Geom.v, C07Data.v, C07Bitmap.v, C07Guest.v. *)
From VM Require Import Prelude.MachInt Prelude.Outcome Prelude.Tok Prelude.C1314List.
From VM Require Impl.Address Impl.Volatile Impl.VolMem Impl.Guest Impl.Bitmap Impl.Io Impl.IoGuest Impl.IoEnd.
From VM Require Spec.C01 Spec.C14 Suite.C14.
From VM Require Proofs.C01 Proofs.C02 Proofs.C03 Proofs.C09 Proofs.C14.
From VM Require Proofs.C07Geom Proofs.C07Data Proofs.C07Bitmap Proofs.C07Guest Proofs.C07Own Proofs.C07Copy.
From VM Require Import Spec.C07 Suite.C07.

(* what an accepting verdict of the checker means *)
Lemma ok_C07_reading : forall c o, ok_C07 c o = true <-> o = 0 \/ o = 1 \/ (o = 2 /\ documented c = true).
Proof.
  intros c o. unfold ok_C07. rewrite !orb_true_iff, andb_true_iff, !N.eqb_eq. tauto.
Qed.
Ltac clia := cbv [cls_out cls0 cls_dres cls_vres cls_opt cls_sum]; lia.
Lemma ok_le1 c x : x <= 1 -> ok_C07 c x = true.
Proof. intros H. apply ok_C07_reading. lia. Qed.

Lemma cls_opt_le {A} (o : option A) : cls_opt o <= 1.
Proof. destruct o; cbv [cls_opt]; lia. Qed.
Lemma cls_sum_le {A E} (r : A + E) : cls_sum r <= 1.
Proof. destruct r; cbv [cls_sum]; lia. Qed.
Lemma cls_dres_le {A E} (r : Volatile.result A E) : cls_dres r <= 1.
Proof. destruct r; cbv [cls_dres]; lia. Qed.
Lemma cls_vres_le {A} (r : VolMem.result A) : cls_vres r <= 1.
Proof. destruct r; cbv [cls_vres]; lia. Qed.
Lemma cls0_le {A} (x : A) : cls0 x <= 1.
Proof. cbv [cls0]. lia. Qed.
Lemma cls_out_val {A} (f : A -> N) (o : outcome A) : (exists v, o = Val v) -> (forall v, f v <= 1) -> cls_out f o <= 1.
Proof. intros [v ->] H. apply H. Qed.

(* ------------------------------------------------------------------ accessor geometry *)
Import Volatile.
Definition plain_root (p : accessor) : Prop := (exists s, p = ASlice s) \/ (exists r, p = ARegion r).

Lemma geom_single m p op : Spec.C01.acc_valid p -> Spec.C01.op_wf op -> plain_root p ->
  cls_out cls_dres (derive_chain m p [op]) <= 1.
Proof.
  intros Hv Hwf Hp. destruct (C07Geom.derive_closed p op Hv Hwf) as (x & E & [[r ->]|[_ (a & i & -> & _)]]).
  - cbn [derive_chain]. rewrite E. cbn [bind]. destruct r; clia.
  - destruct Hp as [[s Hs]|[r Hr]]; discriminate.
Qed.

Lemma geom_arr m p T a b c : Spec.C01.acc_valid p -> plain_root p ->
  let x := cls_out cls_dres (derive_chain m p [DGetArrayRef T a b; DRefAt c]) in
  x <= 1 \/ (x = 2 /\ b <= c).
Proof.
  intros Hv Hp. cbv zeta. cbn [derive_chain].
  destruct (C07Geom.derive_closed p (DGetArrayRef T a b) Hv I) as (x & E & [[r ->]|[_ (a' & i & -> & _)]]).
  2:{ destruct Hp as [[s Hs]|[r Hr]]; discriminate. }
  rewrite E. cbn [bind]. destruct r as [ch|e]; [|left; clia].
  pose proof (proj1 (Proofs.C01.derive_child_lemma m p (DGetArrayRef T a b) ch Hv I) (E m)) as [Hfit ->].
  assert (Hvc : Spec.C01.acc_valid (Spec.C01.child p (DGetArrayRef T a b))).
  { apply (Proofs.C01.child_inside p _ Hv Hfit). }
  destruct (C07Geom.derive_closed _ (DRefAt c) Hvc I) as (y & Ey & [[r ->]|[-> (a' & i & Hc & Hi & Hle)]]).
  - rewrite Ey. cbn [bind]. left. destruct r; clia.
  - rewrite Ey. cbn [bind cls_out]. right. split; [reflexivity|].
    inversion Hi; subst i. clear Hi.
    destruct Hp as [[s ->]|[r ->]]; cbn [Spec.C01.child Spec.C01.child_vm] in Hc; inversion Hc; subst a';
      cbn [va_nelem] in Hle; exact Hle.
Qed.

Lemma ety_wf ty : exists k, e_align (ety_of ty) = 2 ^ k.
Proof. exists ty. reflexivity. Qed.

(* ------------------------------------------------------------------ container bytes *)
Lemma data_cls_le m pre n op ty a b : 13 <= op <= 20 -> data_cls m pre n op ty a b <= 1.
Proof.
  intros Hop. assert (Hc : op = 13 \/ op = 14 \/ op = 15 \/ op = 16 \/ op = 17 \/ op = 18 \/ op = 19 \/ op = 20) by lia.
  destruct Hc as [->|[->|[->|[->|[->|[->|[->| ->]]]]]]]; cbn [data_cls]; try apply cls_vres_le.
  - destruct (C07Data.vs_store_closed_lemma HB (heap0 pre n) {| VolMem.vs_addr := pre; VolMem.vs_size := n |}
                (vty_of ty) 0 a ty eq_refl) as (r & E).
    rewrite E. cbn [cls_out]. apply cls_vres_le.
  - destruct (C07Data.vs_load_closed_lemma HB (heap0 pre n) {| VolMem.vs_addr := pre; VolMem.vs_size := n |}
                (vty_of ty) a ty eq_refl) as (r & E).
    rewrite E. cbn [cls_out]. apply cls_vres_le.
Qed.

(* ------------------------------------------------------------------ streams *)
Lemma rc_res_le {A} (okc : A -> N * N) (r : Io.res A) : (forall a, fst (okc a) <= 1) ->
  fst (fst (Suite.C14.rc_res okc r)) <= 10.
Proof.
  intros H. destruct r as [a|[e| |]]; unfold Suite.C14.rc_res; cbn [fst snd];
    [specialize (H a); lia|destruct e; unfold Suite.C14.rc_io; lia|lia|lia].
Qed.
Lemma rc_gres_le {A} (okc : A -> N * N) (r : IoGuest.gres A) : (forall a, fst (okc a) <= 1) ->
  fst (fst (Suite.C14.rc_gres okc r)) <= 10.
Proof.
  intros H. destruct r as [a|e]; unfold Suite.C14.rc_gres; cbn [fst snd]; [specialize (H a); lia|].
  destruct e as [|e| | | |]; cbn [fst snd]; try lia. destruct e; unfold Suite.C14.rc_io; lia.
Qed.
Lemma okc_n_le a : fst (Suite.C14.okc_n a) <= 1. Proof. unfold Suite.C14.okc_n. cbn [fst]. lia. Qed.
Lemma okc_u_le a : fst (Suite.C14.okc_u a) <= 1. Proof. unfold Suite.C14.okc_u. cbn [fst]. lia. Qed.
Lemma omap_val {A B} (f : A -> B) (o : outcome A) v : omap f o = Val v -> exists a, o = Val a /\ v = f a.
Proof. destruct o; cbn; intros H; inversion H; eauto. Qed.

Lemma exec14_rk_le c14 v : Suite.C14.exec14 c14 = Val v -> fst (fst (snd v)) <= 10.
Proof.
  unfold Suite.C14.exec14. intros H.
  destruct (Spec.C14.c_target c14); [destruct (Spec.C14.is_exact (Spec.C14.c_op c14))|
                                     destruct (Spec.C14.is_exact (Spec.C14.c_op c14))|
                                     destruct (Spec.C14.c_op c14)];
    apply omap_val in H; destruct H as (x & _ & ->); cbn [snd];
    first [apply rc_res_le|apply rc_gres_le]; first [apply okc_n_le|apply okc_u_le].
Qed.

Lemma stream_cls_le c c14 : case14_of c = Some c14 -> Suite.C14.wf14 c14 = true -> stream_cls c <= 1.
Proof.
  intros E Hwf. unfold stream_cls. rewrite E.
  destruct (Proofs.C14.terminates_lemma c14 Hwf) as (s & m & rc & Ex). rewrite Ex. cbn [cls_out].
  pose proof (exec14_rk_le c14 _ Ex) as Hle. cbn [snd] in Hle |- *.
  unfold cls_rk. destruct (N.leb_spec (fst (fst rc)) 1); [lia|].
  destruct (N.leb_spec (fst (fst rc)) 10); lia.
Qed.

(* ------------------------------------------------------------------ regions *)
Lemma region_cls_le m g n op a b : 30 <= op <= 37 -> 0 < n -> g + n < W64 -> HB + n <= ISZ_MAX ->
  region_cls m g n op a b <= 1.
Proof.
  intros Hop Hn Hg Hh.
  assert (Hc : op = 30 \/ op = 31 \/ op = 32 \/ op = 33 \/ op = 34 \/ op = 35 \/ op = 36 \/ op = 37) by lia.
  destruct Hc as [->|[->|[->|[->|[->|[->|[->| ->]]]]]]]; cbn [region_cls];
    try apply cls_opt_le; try apply cls_sum_le; try apply cls0_le.
  - rewrite Proofs.C02.r_last_addr_val by lia. clia.
  - unfold gr_as_volatile_slice, gr_get_slice. rewrite Proofs.C01.mr_get_slice_eq. unfold Proofs.C01.std_gs.
    cbn [bind]. destruct (W64 <=? _); [clia|]. destruct (_ <? _); clia.
Qed.

(* ------------------------------------------------------------------ guest memory *)
Import Guest.
Lemma wf_layb_regs top L : top <= W64 -> wf_layb top L = true ->
  forall p, In p L -> 0 < snd p /\ snd p < W64 /\ fst p + snd p <= W64.
Proof.
  intros Ht. induction L as [|q t IH]; intros H p Hp; [destruct Hp|].
  cbn [wf_layb] in H. apply andb_true_iff in H. destruct H as [H H3].
  apply andb_true_iff in H. destruct H as [H1 H2].
  destruct Hp as [->|Hp]; [|apply IH; assumption].
  unfold reg_okb in H1. apply andb_true_iff in H1. destruct H1 as [H1 Hc].
  apply andb_true_iff in H1. destruct H1 as [Ha Hb].
  apply N.ltb_lt in Ha. apply N.ltb_lt in Hb. apply N.leb_le in Hc. lia.
Qed.
Lemma disjb_false p q a : disjb p q = true -> Proofs.C02.In_reg p a -> Proofs.C02.In_reg q a -> False.
Proof.
  unfold disjb, Proofs.C02.In_reg. intros H Hp Hq. apply orb_true_iff in H.
  destruct H as [H|H]; apply N.leb_le in H; lia.
Qed.
Lemma wf_layb_sound top L : top <= W64 -> wf_layb top L = true -> Proofs.C02.wf_layout_gen L.
Proof.
  intros Ht H. split; [apply (wf_layb_regs top L Ht H)|].
  revert H. induction L as [|q t IH]; intros H i j a Hi Hj Hri Hrj; [cbn in Hi; lia|].
  cbn [wf_layb] in H. apply andb_true_iff in H. destruct H as [H H3].
  apply andb_true_iff in H. destruct H as [_ H2]. rewrite forallb_forall in H2.
  destruct i as [|i]; destruct j as [|j]; cbn [nth length] in *.
  - reflexivity.
  - exfalso. apply (disjb_false q (nth j t dreg) a); [apply H2; apply nth_In; lia|assumption|assumption].
  - exfalso. apply (disjb_false q (nth i t dreg) a); [apply H2; apply nth_In; lia|assumption|assumption].
  - f_equal. apply (IH H3 i j a); [lia|lia|assumption|assumption].
Qed.

Lemma shape_mem_of L : shape (mem_of L) = L.
Proof.
  unfold shape, mem_of. rewrite map_map. rewrite <- (map_id L) at 2. apply map_ext.
  intros [s l]. unfold rlen. cbn [rstart rbytes fst snd]. unfold zeros. rewrite C07Guest.lenN_zeros. reflexivity.
Qed.
Lemma lenN_zeros b : lenN (zeros b) = b.
Proof. apply C07Guest.lenN_zeros. Qed.

Local Notation linspec := (fun L a (_ : Proofs.C02.wf_layout_gen L) (_ : a < W64) => Proofs.C02.find_lin_spec L a).
Local Notation idwf := (fun (L : layout) (H : Proofs.C02.wf_layout_gen L) => H).

Lemma guest_cls_le m L op ty a b c : Proofs.C02.wf_layout_gen L ->
  (13 <= op <= 20 \/ 40 <= op <= 49) -> a < W64 -> b < W64 -> ty <= 3 ->
  guest_cls m L op ty a b c <= 1.
Proof.
  intros HL Hop Ha Hb Hty.
  assert (HM : Proofs.C02.wf_layout_gen (shape (mem_of L))) by (rewrite shape_mem_of; exact HL).
  assert (Hsz : 2 ^ ty < W64).
  { rewrite W64_val. assert (2 ^ ty <= 2 ^ 3) by (apply N.pow_le_mono_r; lia). change (2 ^ 3) with 8 in *. lia. }
  destruct (C07Guest.guest_queries_total_lemma find_lin Proofs.C02.wf_layout_gen idwf linspec L a b HL Ha Hb)
    as (Q1 & Q2 & Q3 & (bq & Q4) & (vq & Q5)).
  destruct (C07Guest.guest_bytes_total_lemma find_lin Proofs.C02.wf_layout_gen idwf linspec m (mem_of L) (zeros b) a HM
              ltac:(rewrite lenN_zeros; exact Hb) Ha) as (B1 & B2 & B3 & B4 & _).
  destruct (C07Guest.guest_bytes_total_lemma find_lin Proofs.C02.wf_layout_gen idwf linspec m (mem_of L) (zeros (2 ^ ty)) a HM
              ltac:(rewrite lenN_zeros; exact Hsz) Ha) as (_ & _ & _ & _ & B5 & B6 & B7 & B8).
  assert (Hc : op = 13 \/ op = 14 \/ op = 15 \/ op = 16 \/ op = 17 \/ op = 18 \/ op = 19 \/ op = 20 \/
               op = 40 \/ op = 41 \/ op = 42 \/ op = 43 \/ op = 44 \/ op = 45 \/ op = 46 \/ op = 47 \/
               op = 48 \/ op = 49) by lia.
  destruct Hc as [->|[->|[->|[->|[->|[->|[->|[->|[->|[->|[->|[->|[->|[->|[->|[->|[->| ->]]]]]]]]]]]]]]]]];
    cbn [guest_cls]; try apply cls_opt_le; try apply cls0_le;
    try (apply cls_out_val; [assumption|intros; first [apply cls_sum_le|apply cls_opt_le|apply cls0_le]]).
  - apply cls_out_val; [apply B6; exact Hsz|intros; apply cls_sum_le].
  - apply cls_out_val; [apply B8|intros; apply cls_sum_le].
  - rewrite Q4. clia.
  - rewrite Q5. clia.
  - apply cls_out_val; [|intros; apply cls_sum_le].
    apply (C07Guest.try_access_ge_total find_lin Proofs.C02.wf_layout_gen idwf linspec L b (over_cb c) HL
             (C07Guest.over_cb_never_short c) m (S (length L)) tt a 0 Ha ltac:(lia)).
    pose proof (Proofs.C02.msr_bound L a). lia.
Qed.

(* ------------------------------------------------------------------ bitmaps *)
Lemma bitmap_ops_cls_le bm op a b c : Bitmap.bm_inv bm -> (50 <= op <= 58 \/ 70 <= op <= 76) -> a < W64 ->
  bitmap_ops_cls bm op a b c <= 1.
Proof.
  intros HI Hop Ha.
  destruct (C07Bitmap.range_ops_total_lemma _ a b HI Ha) as ((b1 & E1 & _) & (b2 & E2 & _) & (b0 & E0 & _)).
  destruct (C07Bitmap.bit_ops_total_lemma _ a HI) as ((b3 & E3 & _) & (b4 & E4 & _) & (v5 & E5) & (v6 & E6) & (v7 & E7')).
  destruct (C07Bitmap.slice_ops_total_lemma _ (Bitmap.bs_new c) a b b HI)
    as ((b7 & E7 & _) & (v8 & E8) & _ & (v9 & E9)).
  (* nested views: base = ((c + a) + b) wrapping *)
  destruct (C07Bitmap.slice_ops_total_lemma _ (Bitmap.chain_base c [a; b]) a b b HI) as ((bA & EA & _) & _).
  destruct (C07Bitmap.slice_ops_total_lemma _ (Bitmap.chain_base c [a; b]) b b b HI) as (_ & (vB & EB) & _).
  destruct (C07Bitmap.slice_ops_total_lemma _ (Bitmap.chain_base c []) a b b HI) as ((bC & EC & _) & (vD & ED) & _).
  assert (Hc : op = 50 \/ op = 51 \/ op = 52 \/ op = 53 \/ op = 54 \/ op = 55 \/ op = 56 \/ op = 57 \/ op = 58 \/
               op = 70 \/ op = 71 \/ op = 72 \/ op = 73 \/ op = 74 \/ op = 75 \/ op = 76) by lia.
  destruct Hc as [->|[->|[->|[->|[->|[->|[->|[->|[->|[->|[->|[->|[->|[->|[->| ->]]]]]]]]]]]]]]];
    cbn [bitmap_ops_cls Bitmap.view_mark_o Bitmap.view_dirty_at_o];
    rewrite ?E1, ?E2, ?E3, ?E4, ?E5, ?E6, ?E7, ?E8, ?E9, ?EA, ?EB, ?EC, ?ED, ?E0, ?E7'; clia.
Qed.
Lemma bitmap_cls_le bs ps op a b c : (50 <= op <= 58 \/ 70 <= op <= 76) -> 0 < ps -> bs < W64 -> a < W64 ->
  bitmap_cls bs ps op a b c <= 1.
Proof.
  intros Hop Hps Hbs Ha. unfold bitmap_cls.
  apply bitmap_ops_cls_le; [apply C07Bitmap.new_inv_lemma; assumption|exact Hop|exact Ha].
Qed.
(* created, then enlarged (the sum of the byte sizes fits usize), then any operation *)
Lemma bitmap_enl_cls_le2 m bs ps k op a b c : (50 <= op <= 58 \/ 70 <= op <= 76) -> 0 < ps -> bs + k < W64 -> a < W64 ->
  bitmap_enl_cls m bs ps k op a b c <= 1.
Proof.
  intros Hop Hps Hbs Ha. unfold bitmap_enl_cls.
  destruct (C07Bitmap.new_enlarge_inv_lemma m bs ps k Hps Hbs) as (b' & E & HI & _). rewrite E.
  apply bitmap_ops_cls_le; assumption.
Qed.
Lemma bitmap_enl_cls_le m bs ps k op a b c : 50 <= op <= 58 -> 0 < ps -> bs + k < W64 -> a < W64 ->
  bitmap_enl_cls m bs ps k op a b c <= 1.
Proof. intros Hop. apply bitmap_enl_cls_le2. left. exact Hop. Qed.
(* the views of ops 70-76, stated on the model functions: nested BaseSlices (offsets of ANY size, added with
   wrapping_add) and the Option<B> routes return on every bitmap with the representation invariant *)
Lemma bitmap_views_total_lemma : forall b r chain off len, Bitmap.bm_inv b -> off < W64 ->
  (exists b', Bitmap.view_mark_o r chain b off len = Val b') /\ (exists v, Bitmap.view_dirty_at_o r chain b off = Val v).
Proof.
  intros b r chain off len HI Ho.
  destruct (C07Bitmap.range_ops_total_lemma _ off len HI Ho) as (_ & _ & (b0 & E0 & _)).
  destruct (C07Bitmap.bit_ops_total_lemma _ off HI) as (_ & _ & _ & _ & (v7 & E7)).
  destruct r; cbn [Bitmap.view_mark_o Bitmap.view_dirty_at_o]; try (split; eexists; reflexivity);
    (destruct chain as [|o1 rest];
     [split; eexists; eassumption|
      destruct (C07Bitmap.slice_ops_total_lemma _ (Bitmap.chain_base o1 rest) off off len HI) as ((bA & EA & _) & (vB & EB) & _);
      split; eexists; eassumption]).
Qed.

(* ------------------------------------------------------------------ typed bulk copies *)
Lemma copy_cls_le m pre n op ty a b c : 65 <= op <= 69 -> n <= ISZ_MAX -> copy_cls m pre n op ty a b c <= 1.
Proof.
  intros Hop Hn.
  set (h := heap0 pre n). set (s := {| VolMem.vs_addr := pre; VolMem.vs_size := n |}). set (t := vty2 ty).
  assert (Hs : VolMem.vs_size s <= ISZ_MAX) by exact Hn.
  assert (Hc : op = 65 \/ op = 66 \/ op = 67 \/ op = 68 \/ op = 69) by lia.
  destruct Hc as [->|[->|[->|[->| ->]]]]; cbn [copy_cls]; fold h; fold s; fold t; change (tsize ty) with (VolMem.ty_size t).
  - destruct (C07Copy.slice_then_copy_to_total m h s t (zeros c) a b Hs) as [[e E]|(sl & v & E & Ev)]; rewrite E; [lia|rewrite Ev; clia].
  - destruct (C07Copy.slice_then_copy_from_total m h s t (zeros c) a b Hs) as [[e E]|(sl & v & E & Ev)]; rewrite E; [lia|rewrite Ev; clia].
  - destruct (C07Copy.array_then_copies_total m h s t (zeros c) a b s) as [[e E]|(arr & E & (v1 & E1) & _)]; rewrite E; [lia|rewrite E1; clia].
  - destruct (C07Copy.array_then_copies_total m h s t (zeros c) a b s) as [[e E]|(arr & E & _ & (v2 & E2) & _)]; rewrite E; [lia|rewrite E2; clia].
  - destruct (VolMem.vs_get_slice s c (n - c)) as [dsl|e'] eqn:Ed.
    + destruct (C07Copy.array_then_copies_total m h s t (zeros c) a b dsl) as [[e E]|(arr & E & _ & _ & (v3 & E3))]; rewrite E; [lia|rewrite E3; clia].
    + destruct (C07Copy.array_then_copies_total m h s t (zeros c) a b s) as [[e E]|(arr & E & _)]; rewrite E; lia.
Qed.

(* ------------------------------------------------------------------ the crate's own stream endpoints *)
Lemma nlen_zeros n : nlen (zeros n) = n.
Proof. unfold nlen, zeros. rewrite repeat_length. apply N2Nat.id. Qed.
Lemma own_exec_cls md fuel t x s m addr count v : IoEnd.own_exec md fuel t x s m addr count = Val v -> snd v <= 1.
Proof.
  unfold IoEnd.own_exec. intros H.
  destruct t; destruct x; apply omap_val in H; destruct H as (y & _ & ->); cbn [snd];
    destruct (snd y); cbv [IoEnd.ocls_res IoEnd.ocls_gres]; lia.
Qed.
Lemma own_P_of op k x B dlen pos : oxfer_of op k = Some x -> dlen < W64 -> pos < W64 -> (k = 2 -> dlen + B < W64) ->
  C07Own.own_P x B {| Io.s_data := zeros dlen; Io.s_pos := pos; Io.s_out := [] |}.
Proof.
  intros Hx Hd Hp Hv.
  assert (Hcur : Proofs.C13.cur_ok {| Io.s_data := zeros dlen; Io.s_pos := pos; Io.s_out := [] |}).
  { unfold Proofs.C13.cur_ok. cbn [Io.s_pos Io.s_data]. rewrite nlen_zeros. split; assumption. }
  assert (Hrd : forall rk, C07Own.rd_P rk B {| Io.s_data := zeros dlen; Io.s_pos := pos; Io.s_out := [] |}).
  { intros [ | | ]; cbn [C07Own.rd_P]; [exact I|exact Hcur|exact I]. }
  assert (Hwr : forall wk, wk_of k = Some wk -> C07Own.wr_P wk B {| Io.s_data := zeros dlen; Io.s_pos := pos; Io.s_out := [] |}).
  { intros wk Hk. unfold wk_of in Hk.
    destruct (N.eqb_spec k 1); [inversion Hk; exact I|]. destruct (N.eqb_spec k 2) as [E2|_].
    - inversion Hk. cbn [C07Own.wr_P Io.s_data]. rewrite nlen_zeros. apply Hv. exact E2.
    - destruct (k =? 4); [inversion Hk; exact Hcur|]. destruct (k =? 6); [inversion Hk; exact I|discriminate]. }
  unfold oxfer_of in Hx.
  destruct (op =? 61); [destruct (rk_of k) as [rk|]; [inversion Hx; apply Hrd|discriminate]|].
  destruct (op =? 62); [destruct (rk_of k) as [rk|]; [inversion Hx; apply Hrd|discriminate]|].
  destruct (op =? 63); [destruct (wk_of k) as [wk|] eqn:Ek; [inversion Hx; apply Hwr; reflexivity|discriminate]|].
  destruct (op =? 64); [destruct (wk_of k) as [wk|] eqn:Ek; [inversion Hx; apply Hwr; reflexivity|discriminate]|discriminate].
Qed.

Ltac b2p H := repeat (rewrite ?andb_true_iff, ?orb_true_iff, ?N.leb_le, ?N.ltb_lt, ?N.eqb_eq in H).

Lemma own_cls_le c : own_wf c = true -> q_b c < W64 -> own_cls c <= 1.
Proof.
  unfold own_wf, own_cls. destruct (otarget_of c) as [[t ml]|]; [|discriminate].
  destruct (q_x c) as [|k [|dlen [|pos [|z x]]]]; try discriminate.
  destruct (oxfer_of (q_op c) k) as [x|] eqn:Ex; [|discriminate].
  intros H Hb. repeat (apply andb_true_iff in H; let W := fresh "W" in destruct H as [H W]).
  apply N.ltb_lt in H. apply N.ltb_lt in W2.
  assert (HP : C07Own.own_P x (IoEnd.tbytes t) {| Io.s_data := zeros dlen; Io.s_pos := pos; Io.s_out := [] |}).
  { apply (own_P_of (q_op c) k); [exact Ex|exact H|exact W2|]. intros ->. change (2 =? 2) with true in W. apply N.ltb_lt in W. exact W. }
  destruct (C07Own.own_exec_total_lemma (q_mode c) (own_fuel t) t x _ (zeros ml) (q_a c) (q_b c) Hb HP ltac:(unfold own_fuel; lia)) as [v E].
  rewrite E. cbn [cls_out]. exact (own_exec_cls _ _ _ _ _ _ _ _ _ E).
Qed.

(* ------------------------------------------------------------------ checked_align_up *)
Lemma align_up_pow2_val m a p : is_pow2 p = true -> exists r, Address.a_checked_align_up m a p = Val r.
Proof.
  intros H. unfold is_pow2 in H. destruct p as [|q]; [discriminate|].
  unfold Address.a_checked_align_up. rewrite psub_Val by lia. cbn [bind].
  change (N.pos q =? 0) with false. cbn [negb passert bind]. rewrite H. cbn [passert bind].
  eexists; reflexivity.
Qed.
Lemma align_up_panic_iff_lemma : forall m a p,
  (exists s, Address.a_checked_align_up m a p = Panic s) <-> is_pow2 p = false.
Proof.
  intros m a p. split.
  - intros [s E]. destruct (is_pow2 p) eqn:P; [|reflexivity].
    destruct (align_up_pow2_val m a p P) as (r & Er). rewrite Er in E. discriminate.
  - intros H. unfold is_pow2 in H. unfold Address.a_checked_align_up. destruct p as [|q].
    + destruct m; cbn; eexists; reflexivity.
    + rewrite psub_Val by lia. cbn [bind]. change (N.pos q =? 0) with false. cbn [negb passert bind].
      rewrite H. cbn. eexists; reflexivity.
Qed.
Lemma is_pow2_pow k : is_pow2 (2 ^ k) = true.
Proof.
  unfold is_pow2. pose proof (Proofs.C01.pow2_ge1 k). destruct (2 ^ k) as [|q] eqn:E; [lia|].
  rewrite <- E. rewrite Proofs.C01.pow2_land_pred. reflexivity.
Qed.

(* ------------------------------------------------------------------ assembly *)
Lemma op_ok_tgt tgt op : op_ok tgt op = true ->
  tgt = 0 \/ tgt = 1 \/ tgt = 2 \/ tgt = 3 \/ tgt = 4 \/ tgt = 5 \/ tgt = 6 \/ tgt = 7 \/ tgt = 8 \/ tgt = 9.
Proof.
  unfold op_ok. destruct tgt as [|p]; [auto|].
  do 4 (try destruct p as [p|p|]); intros H; try discriminate; auto 13.
Qed.

Ltac closed_eqb :=
  repeat match goal with
  | |- context [N.eqb ?x ?y] => let v := eval vm_compute in (N.eqb x y) in change (N.eqb x y) with v
  end.

Lemma doc_arr op b cc : op = 8 \/ op = 11 \/ op = 12 -> b <= cc ->
  forall m tgt par ty a x,
  documented {| q_mode := m; q_tgt := tgt; q_par := par; q_op := op; q_ty := ty; q_a := a; q_b := b; q_c := cc; q_x := x |} = true.
Proof.
  intros Hop Hle m tgt par ty a x. unfold documented, OP_ARR_REF_AT, OP_ARR_LOAD, OP_ARR_STORE.
  cbn [q_op q_b q_c]. destruct Hop as [->|[->| ->]]; closed_eqb; cbn [orb]; apply N.leb_le; exact Hle.
Qed.

Lemma geom_case c p : geom_root c = Some p -> Spec.C01.acc_valid p -> plain_root p ->
  (q_op c <= 8 \/ q_op c = 11 \/ q_op c = 12) -> ok_C07 c (geom_cls c) = true.
Proof.
  destruct c as [m tgt par op ty a b cc x]. cbn [q_op]. intros Er Hv Hp Hop.
  assert (Hc : op = 0 \/ op = 1 \/ op = 2 \/ op = 3 \/ op = 4 \/ op = 5 \/ op = 6 \/ op = 7 \/
               op = 8 \/ op = 11 \/ op = 12) by lia.
  unfold geom_cls. rewrite Er.
  destruct Hc as [->|[->|[->|[->|[->|[->|[->|[->|Hc]]]]]]]]; cbn [geom_ops q_op q_ty q_a q_b q_c q_mode].
  1-8: apply ok_le1; apply geom_single; [exact Hv| |exact Hp]; try exact I; apply ety_wf.
  assert (Hg : geom_ops {| q_mode := m; q_tgt := tgt; q_par := par; q_op := op; q_ty := ty; q_a := a;
                           q_b := b; q_c := cc; q_x := x |} =
               Some [DGetArrayRef (ety_of ty) a b; DRefAt cc]).
  { destruct Hc as [->|[->| ->]]; reflexivity. }
  rewrite Hg.
  destruct (geom_arr m p (ety_of ty) a b cc Hv Hp) as [Hle|[E2 Hbc]].
  - apply ok_le1. exact Hle.
  - cbn [q_mode]. rewrite E2. apply ok_C07_reading. right; right. split; [reflexivity|].
    apply doc_arr; assumption.
Qed.

(* one call on a real slice of n bytes at arena offset pre (target kinds 0 and 8) *)
Lemma real_slice_case c pre n : geom_root c = Some (ASlice (VS (HB + pre) n)) -> HB + pre + n <= ISZ_MAX ->
  (q_op c <= 20 \/ 65 <= q_op c <= 69) ->
  ok_C07 c (if q_op c =? 9 then cls_dres (Volatile.compute_end_offset n (q_a c) (q_b c))
            else if q_op c =? 10 then cls_dres (Volatile.compute_offset (q_a c) (q_b c))
            else if q_op c <=? 12 then geom_cls c
            else if q_op c <=? 20 then data_cls (q_mode c) pre n (q_op c) (q_ty c) (q_a c) (q_b c)
            else copy_cls (q_mode c) pre n (q_op c) (q_ty c) (q_a c) (q_b c) (q_c c)) = true.
Proof.
  intros Er Hn Hop. pose proof Proofs.C01.W64_gt_ISZ as HIW.
  destruct (N.eqb_spec (q_op c) 9); [apply ok_le1, cls_dres_le|].
  destruct (N.eqb_spec (q_op c) 10); [apply ok_le1, cls_dres_le|].
  destruct (N.leb_spec (q_op c) 12).
  - apply (geom_case c (ASlice (VS (HB + pre) n))); [exact Er| |left; eexists; reflexivity|lia].
    unfold Spec.C01.acc_valid. cbn [acc_base acc_len vs_addr vs_size]. lia.
  - destruct (N.leb_spec (q_op c) 20); [apply ok_le1, data_cls_le; lia|].
    apply ok_le1, copy_cls_le; lia.
Qed.

Lemma C07_model_ok_lemma : forall c, wf07 c = true -> ok_C07 c (run_C07 c) = true.
Proof.
  intros c H. unfold wf07 in H.
  repeat (apply andb_true_iff in H; let W := fresh "W" in destruct H as [H W]).
  (* H op_ok, W5 wf_tgt, W4 ty, W3 a, W2 b, W1 c, W0 buffer bound, W stream / script *)
  pose proof (op_ok_tgt _ _ H) as Ht.
  b2p W3. b2p W2. b2p W1.
  unfold run_C07.
  destruct ((21 <=? q_op c) && (q_op c <=? 24)) eqn:Es.
  { destruct (case14_of c) as [c14|] eqn:E14; [|discriminate].
    apply ok_le1. eapply stream_cls_le; eassumption. }
  destruct ((61 <=? q_op c) && (q_op c <=? 64)) eqn:Eo.
  { apply ok_le1. apply own_cls_le; assumption. }
  assert (Hns : q_op c < 21 \/ 24 < q_op c).
  { apply andb_false_iff in Es. destruct Es as [E|E]; [apply N.leb_gt in E|apply N.leb_gt in E]; lia. }
  assert (Hno : q_op c < 61 \/ 64 < q_op c).
  { apply andb_false_iff in Eo. destruct Eo as [E|E]; [apply N.leb_gt in E|apply N.leb_gt in E]; lia. }
  assert (Hty : 65 <= q_op c <= 69 \/ q_ty c <= 3).
  { destruct ((65 <=? q_op c) && (q_op c <=? 69)) eqn:E5; b2p E5; [left; lia|right; apply N.leb_le; exact W4]. }
  clear Es Eo W W4. pose proof Proofs.C01.W64_gt_ISZ as HIW.
  destruct c as [m tgt par op ty a b cc x]. cbn [q_mode q_tgt q_par q_op q_ty q_a q_b q_c q_x] in *.
  unfold wf_tgt in W5. cbn [q_tgt q_par] in W5.
  destruct Ht as [->|[->|[->|[->|[->|[->|[->|[->|[->| ->]]]]]]]]]; unfold op_ok in H.
  - (* real slice *)
    destruct par as [|pre [|n [|z par]]]; try discriminate. b2p W5. b2p H. destruct W5 as [Hpre Hn].
    set (c := {| q_mode := m; q_tgt := 0; q_par := [pre; n]; q_op := op; q_ty := ty; q_a := a; q_b := b; q_c := cc; q_x := x |}).
    apply (real_slice_case c pre n); [reflexivity|exact Hn|cbn [q_op c]; lia].
  - (* fake slice *)
    destruct par as [|A [|n [|z par]]]; try discriminate. b2p W5. b2p H. destruct W5 as [[HA HAn] Hn].
    set (c := {| q_mode := m; q_tgt := 1; q_par := [A; n]; q_op := op; q_ty := ty; q_a := a; q_b := b; q_c := cc; q_x := x |}).
    destruct (N.eqb_spec op 9); [apply ok_le1, cls_dres_le|].
    destruct (N.eqb_spec op 10); [apply ok_le1, cls_dres_le|].
    apply (geom_case c (ASlice (VS A n))); [reflexivity| |left; eexists; reflexivity|cbn [q_op c]; lia].
    unfold Spec.C01.acc_valid. cbn [acc_base acc_len vs_addr vs_size]. lia.
  - (* region *)
    destruct par as [|g [|n [|z par]]]; try discriminate. b2p W5. b2p H. destruct W5 as [[Hn Hg] Hh].
    set (c := {| q_mode := m; q_tgt := 2; q_par := [g; n]; q_op := op; q_ty := ty; q_a := a; q_b := b; q_c := cc; q_x := x |}).
    destruct (N.eqb_spec op 9); [apply ok_le1, cls_dres_le|].
    destruct (N.leb_spec op 12).
    + apply (geom_case c (ARegion (RG HB n))); [reflexivity| |right; eexists; reflexivity|cbn [q_op c]; lia].
      unfold Spec.C01.acc_valid. cbn [acc_base acc_len rg_addr rg_size]. lia.
    + destruct (N.leb_spec op 20); [apply ok_le1, data_cls_le; lia|].
      destruct ((65 <=? op) && (op <=? 69)) eqn:E5.
      * b2p E5. apply ok_le1, copy_cls_le; lia.
      * assert (op < 65 \/ 69 < op) by (apply andb_false_iff in E5; destruct E5 as [E|E]; apply N.leb_gt in E; lia).
        apply ok_le1, region_cls_le; lia.
  - (* GuestMemoryMmap *)
    destruct (layout_of par) as [L|] eqn:EL; [|discriminate]. b2p W5. b2p H. destruct W5 as [[_ HL] _].
    apply ok_le1, guest_cls_le; [apply (wf_layb_sound (W64 - 1)); [lia|exact HL]|lia|lia|lia|lia].
  - (* MockMem *)
    destruct (layout_of par) as [L|] eqn:EL; [|discriminate]. b2p W5. b2p H. destruct W5 as [_ HL].
    apply ok_le1, guest_cls_le; [apply (wf_layb_sound W64); [lia|exact HL]|lia|lia|lia|lia].
  - (* bitmap *)
    destruct par as [|bs [|ps [|z par]]]; try discriminate. b2p W5. b2p H.
    apply ok_le1, bitmap_cls_le; lia.
  - (* checked_align_up *)
    destruct par; [|discriminate]. b2p H. subst op.
    destruct (is_pow2 b) eqn:P.
    + destruct (align_up_pow2_val m a b P) as (r & E). rewrite E. apply ok_le1. cbn [cls_out]. apply cls_opt_le.
    + apply ok_C07_reading.
      assert (Hd : documented {| q_mode := m; q_tgt := 6; q_par := []; q_op := 60; q_ty := ty; q_a := a; q_b := b; q_c := cc; q_x := x |} = true).
      { unfold documented, OP_ARR_REF_AT, OP_ARR_LOAD, OP_ARR_STORE, OP_ALIGN_UP. cbn [q_op q_b q_c]. closed_eqb. cbn [orb].
        rewrite P. reflexivity. }
      destruct (Address.a_checked_align_up m a b) as [r| |]; cbn [cls_out]; [destruct r; cbv [cls_opt]; auto| |]; auto.
  - (* bitmap created, then enlarged *)
    destruct par as [|bs [|ps [|k [|z par]]]]; try discriminate. b2p W5. b2p H.
    apply ok_le1, bitmap_enl_cls_le2; lia.
  - (* ByteValued::as_bytes of an object in the arena *)
    destruct par as [|pre [|oc [|z par]]]; try discriminate. b2p W5. b2p H. destruct W5 as [_ Hn].
    set (c := {| q_mode := m; q_tgt := 8; q_par := [pre; oc]; q_op := op; q_ty := ty; q_a := a; q_b := b; q_c := cc; q_x := x |}).
    apply (real_slice_case c pre (osize oc)); [reflexivity|exact Hn|cbn [q_op c]; lia].
  - (* a ByteValued type: from_slice / from_mut_slice / zeroed / as_slice / as_mut_slice *)
    destruct par as [|oc [|z par]]; try discriminate. apply ok_le1. unfold bv_cls.
    destruct ((op =? 80) || (op =? 81)); [apply cls_opt_le|lia].
Qed.

(* ByteValued::from_slice / from_mut_slice answer None - never a panic - for EVERY buffer whose length is not
   size_of::<T>() (shorter, longer, empty), and Some only for a buffer of exactly that size, which it returns *)
Lemma from_slice_total_lemma : forall T addr len,
  (len <> e_size T -> bv_from_slice T addr len = None /\ bv_from_mut_slice T addr len = None) /\
  (forall r, bv_from_slice T addr len = Some r -> len = e_size T /\ tr_addr r = addr /\ tr_size r = len).
Proof.
  intros T addr len. unfold bv_from_mut_slice, bv_from_slice. split.
  - intros Hne. destruct (N.eqb_spec len (e_size T)); [contradiction|]. cbn [negb]. split; reflexivity.
  - intros r. destruct (N.eqb_spec len (e_size T)) as [->|]; cbn [negb]; [|discriminate].
    destruct (align_to addr (e_size T) (e_size T) (e_align T)) as [[p mid] suf].
    destruct p; [|discriminate]. destruct mid as [|[q|q|]]; try discriminate. destruct suf; [|discriminate].
    intros H. inversion H. cbn [tr_addr tr_size]. repeat split.
Qed.
