(* C07 - proofs. *)
From VM Require Import Prelude.MachInt Prelude.Outcome Prelude.Tok Prelude.C1314List.
From VM Require Impl.Address Impl.Volatile Impl.VolMem Impl.Guest Impl.Bitmap Impl.Io Impl.IoGuest.
From VM Require Spec.C14 Suite.C14.
From VM Require Import Spec.C07 Suite.C07.

(* what an accepting verdict of the checker means *)
Lemma ok_C07_reading : forall c o, ok_C07 c o = true <-> o = 0 \/ o = 1 \/ (o = 2 /\ documented c = true).
Proof.
  intros c o. unfold ok_C07. rewrite !orb_true_iff, andb_true_iff, !N.eqb_eq. tauto.
Qed.
