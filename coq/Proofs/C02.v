(* C02 - proofs.  Part 1: the set-theoretic vocabulary of the statements and basic facts;
   Part 2: the generic loop lemma for try_access (also used by Proofs/C03.v);
   Part 3: the characterisation of every query; Part 4: the checker. *)
From VM Require Import Prelude.MachInt Prelude.Outcome Prelude.Tok Impl.Address Impl.Guest Spec.C02 Suite.C02.
From Coq Require Import Arith.

(* ------------------------------------------------------------------------------------------ *)
(* Part 1 *)
Definition In_reg (p : N * N) (a : N) : Prop := fst p <= a < fst p + snd p.
Definition Mapped (L : layout) (a : N) : Prop := exists p, In p L /\ In_reg p a.
(* any implementor: non-empty regions inside the 64-bit space (a region may end exactly at 2^64),
   pairwise disjoint; no order, no bound on their number or size *)
Definition wf_layout_gen (L : layout) : Prop :=
  (forall p, In p L -> 0 < snd p /\ snd p < W64 /\ fst p + snd p <= W64) /\
  (forall i j a, (i < length L)%nat -> (j < length L)%nat ->
     In_reg (nth i L dreg) a -> In_reg (nth j L dreg) a -> i = j).
(* what GuestRegionMmap::new establishes in addition: start + len <= 2^64 - 1 *)
Definition wf_layout (L : layout) : Prop :=
  wf_layout_gen L /\ forall p, In p L -> fst p + snd p <= W64 - 1.
(* the contract of find_region: the index of a region containing the address, None iff none does *)
Definition find_ok (L : layout) (a : N) (o : option nat) : Prop :=
  match o with
  | Some i => (i < length L)%nat /\ In_reg (nth i L dreg) a
  | None => ~ Mapped L a
  end.

Lemma contains_iff p a : contains p a = true <-> In_reg p a.
Proof.
  unfold contains, In_reg. destruct (N.leb_spec (fst p) a); destruct (N.ltb_spec (a - fst p) (snd p));
    cbn; split; intros; try discriminate; try lia; auto.
Qed.
Lemma r_to_region_addr_Some st ln a o : r_to_region_addr st ln a = Some o <-> st <= a /\ a - st < ln /\ o = a - st.
Proof.
  unfold r_to_region_addr, a_checked_offset_from, checked_sub, r_check_address, r_address_in_range.
  destruct (N.leb_spec st a) as [Hle|Hle].
  - destruct (N.ltb_spec (a - st) ln) as [Hlt|Hlt]; split; intros HH; try discriminate; try lia.
    + inversion HH. lia.
    + destruct HH as (_ & _ & ->). reflexivity.
  - split; intros HH; [discriminate|lia].
Qed.
Lemma r_to_region_addr_None st ln a : r_to_region_addr st ln a = None <-> ~ (st <= a /\ a - st < ln).
Proof.
  destruct (r_to_region_addr st ln a) as [o|] eqn:E.
  - apply r_to_region_addr_Some in E. split; [discriminate|]. intros H; exfalso; apply H; lia.
  - split; [|reflexivity]. intros _ H.
    assert (X : r_to_region_addr st ln a = Some (a - st)) by (apply r_to_region_addr_Some; lia). congruence.
Qed.
Lemma r_to_region_addr_in p a : In_reg p a -> r_to_region_addr (fst p) (snd p) a = Some (a - fst p).
Proof. intros H. apply r_to_region_addr_Some. unfold In_reg in H. lia. Qed.
Lemma r_to_region_addr_out p a : ~ In_reg p a -> r_to_region_addr (fst p) (snd p) a = None.
Proof. intros H. apply r_to_region_addr_None. unfold In_reg in H. lia. Qed.

Lemma dreg_empty a : ~ In_reg dreg a.
Proof. unfold In_reg, dreg; cbn. lia. Qed.
Lemma Mapped_nth L a : Mapped L a <-> exists i, (i < length L)%nat /\ In_reg (nth i L dreg) a.
Proof.
  split.
  - intros (p & Hin & Hr). destruct (In_nth _ _ dreg Hin) as (i & Hi & E). exists i. rewrite E. auto.
  - intros (i & Hi & Hr). exists (nth i L dreg). split; [apply nth_In; exact Hi|exact Hr].
Qed.
Lemma Mapped_lt L a : wf_layout_gen L -> Mapped L a -> a < W64.
Proof. intros [H _] (p & Hin & Hr). destruct (H p Hin) as (? & ? & ?). unfold In_reg in Hr. lia. Qed.

(* the linear implementor satisfies the contract on every layout *)
Lemma find_idx_spec L a : forall k,
  match find_idx L a k with
  | Some i => (k <= i < k + length L)%nat /\ In_reg (nth (i - k) L dreg) a
  | None => forall j, (j < length L)%nat -> ~ In_reg (nth j L dreg) a
  end.
Proof.
  induction L as [|p t IH]; intros k; cbn [find_idx].
  - intros j Hj. cbn in Hj. lia.
  - destruct (r_to_region_addr (fst p) (snd p) a) as [o|] eqn:E.
    + apply r_to_region_addr_Some in E. cbn [length]. split; [lia|]. rewrite Nat.sub_diag. cbn. unfold In_reg. lia.
    + specialize (IH (S k)). destruct (find_idx t a (S k)) as [i|].
      * destruct IH as [H1 H2]. cbn [length]. split; [lia|].
        replace (i - k)%nat with (S (i - S k)) by lia. exact H2.
      * intros [|j] Hj; cbn [nth].
        -- apply r_to_region_addr_None in E. unfold In_reg. lia.
        -- apply IH. cbn in Hj. lia.
Qed.
Lemma find_lin_spec L a : find_ok L a (find_lin L a).
Proof.
  unfold find_lin, find_ok. pose proof (find_idx_spec L a 0) as H. destruct (find_idx L a 0) as [i|].
  - rewrite Nat.sub_0_r in H. destruct H as [H1 H2]. split; [lia|exact H2].
  - intros HM. apply Mapped_nth in HM. destruct HM as (j & Hj & Hr). exact (H j Hj Hr).
Qed.

(* number of regions that end beyond cur: the loop measure *)
Definition msr (cur : N) (L : layout) : nat := length (filter (fun p => N.ltb cur (fst p + snd p)) L).
Lemma filter_le {A} (f g : A -> bool) l : (forall x, g x = true -> f x = true) ->
  (length (filter g l) <= length (filter f l))%nat.
Proof.
  intros H. induction l as [|x t IH]; cbn; [lia|]. destruct (g x) eqn:G; [rewrite (H x G); cbn; lia|].
  destruct (f x); cbn; lia.
Qed.
Lemma filter_lt {A} (f g : A -> bool) l d i : (forall x, g x = true -> f x = true) -> (i < length l)%nat ->
  f (nth i l d) = true -> g (nth i l d) = false -> (length (filter g l) < length (filter f l))%nat.
Proof.
  intros H. revert i; induction l as [|x t IH]; intros i Hi Hf Hg; [cbn in Hi; lia|].
  destruct i as [|i]; cbn in Hf, Hg |- *.
  - rewrite Hf, Hg. cbn. pose proof (filter_le f g t H). lia.
  - cbn in Hi. specialize (IH i ltac:(lia) Hf Hg). destruct (g x) eqn:G; [rewrite (H x G); cbn; lia|].
    destruct (f x); cbn; lia.
Qed.
Lemma msr_le L a b : a <= b -> (msr b L <= msr a L)%nat.
Proof. intros H. apply filter_le. intros p Hp. apply N.ltb_lt in Hp. apply N.ltb_lt. lia. Qed.
Lemma msr_lt L a b i : a <= b -> (i < length L)%nat -> a < fst (nth i L dreg) + snd (nth i L dreg) <= b ->
  (msr b L < msr a L)%nat.
Proof.
  intros H Hi Hr. apply (filter_lt _ _ _ dreg i); auto.
  - intros p Hp. apply N.ltb_lt in Hp. apply N.ltb_lt. lia.
  - apply N.ltb_lt. lia.
  - apply N.ltb_ge. lia.
Qed.
Lemma msr_bound L a : (msr a L <= length L)%nat.
Proof. unfold msr. induction L as [|p t IH]; cbn; [lia|]. destruct (_ <? _); cbn; lia. Qed.

(* ------------------------------------------------------------------------------------------ *)
(* Part 2: try_access, for every find_region that meets its contract on layouts satisfying an
   implementor-chosen invariant inv (at least wf_layout_gen) *)
Section Generic.
Variable find : layout -> N -> option nat.
Variable inv : layout -> Prop.
Hypothesis inv_wf : forall L, inv L -> wf_layout_gen L.
Hypothesis find_spec : forall L a, inv L -> a < W64 -> find_ok L a (find L a).

Lemma find_Some_iff L a i : inv L -> a < W64 ->
  (find L a = Some i <-> (i < length L)%nat /\ In_reg (nth i L dreg) a).
Proof.
  intros HL Ha. pose proof (find_spec L a HL Ha) as S. split.
  - intros E. rewrite E in S. exact S.
  - intros [Hi Hr]. destruct (find L a) as [j|].
    + destruct S as [Hj Hrj]. f_equal. exact (proj2 (inv_wf L HL) j i a Hj Hi Hrj Hr).
    + exfalso. apply S. apply Mapped_nth. eauto.
Qed.
Lemma find_None_iff L a : inv L -> a < W64 -> (find L a = None <-> ~ Mapped L a).
Proof.
  intros HL Ha. pose proof (find_spec L a HL Ha) as S. split.
  - intros E. rewrite E in S. exact S.
  - intros HM. destruct (find L a) as [j|]; [|reflexivity]. exfalso. apply HM. apply Mapped_nth. destruct S; eauto.
Qed.
Lemma find_is_some_iff L a : inv L -> a < W64 -> ((exists i, find L a = Some i) <-> Mapped L a).
Proof.
  intros HL Ha. pose proof (find_spec L a HL Ha) as S. destruct (find L a) as [j|]; split.
  - intros _. apply Mapped_nth. destruct S; eauto.
  - eauto.
  - intros [i E]; discriminate.
  - intros HM; contradiction.
Qed.

Section TA.
Context {St : Type}.
Variables (m : mode) (L : layout) (count addr : N).
Variable f : St -> N -> N -> N -> nat -> outcome (St * res N).
Variable I : St -> N -> Prop.            (* I s k: s is the state after the first k bytes *)
Variable Stall : St -> N -> Prop.        (* the callback returned Ok(0) although asked for more *)
Variable slack : St -> nat.              (* how many more short (0 < n < len) answers the callback can give *)
Hypothesis HL : inv L.
Hypothesis Hcount : count < W64.
Hypothesis Haddr : addr < W64.
Hypothesis Hf : forall s k i, I s k -> k <= count -> addr + k < W64 -> find L (addr + k) = Some i ->
  let start := addr + k - fst (nth i L dreg) in
  let len := N.min (snd (nth i L dreg) - start) (count - k) in
  exists s' n, f s k len start i = Val (s', inl n) /\ n <= len /\ I s' (k + n) /\
    (n = 0 -> 0 < len -> Stall s' k) /\
    (0 < n -> n < len -> (slack s' < slack s)%nat) /\ (n = len -> (slack s' <= slack s)%nat).

Definition ta_result (k : N) : res N :=
  if k =? 0 then match find L addr with Some _ => inl 0 | None => inr EInvalidGuestAddress end else inl k.

Lemma try_access_spec : forall fuel s k,
  I s k -> k <= count -> addr + k < W64 ->
  (forall x, addr <= x < addr + k -> Mapped L x) ->
  (msr (addr + k) L + slack s < fuel)%nat ->
  exists s' k', try_access find m L count f fuel s (addr + k) k = Val (s', ta_result k') /\
    I s' k' /\ k <= k' <= count /\ (forall x, addr <= x < addr + k' -> Mapped L x) /\
    (k' = count \/ ~ Mapped L (addr + k') \/ addr + k' = W64 \/ Stall s' k').
Proof.
  induction fuel as [|fu IH]; intros s k HI Hk Hcur Hrun Hfuel; [lia|].
  cbn [try_access].
  destruct (find L (addr + k)) as [i|] eqn:F.
  2:{ (* hole at cur *)
    exists s, k. split; [|split; [exact HI|split; [lia|split; [exact Hrun|]]]].
    - unfold ta_result. destruct (N.eqb_spec k 0) as [->|Hk0]; [|reflexivity].
      rewrite N.add_0_r in F. rewrite F. reflexivity.
    - right; left. apply (find_None_iff L (addr + k) HL Hcur). exact F. }
  pose proof (proj1 (find_Some_iff L (addr + k) i HL Hcur) F) as [Hi Hr].
  set (p := nth i L dreg) in *.
  destruct (proj1 (inv_wf L HL) p (nth_In L dreg Hi)) as (Hpos & Hu64 & Hend).
  rewrite (r_to_region_addr_in p (addr + k) Hr).
  unfold In_reg in Hr.
  rewrite psub_Val by lia. cbn [bind]. rewrite psub_Val by lia. cbn [bind].
  destruct (Hf s k i HI Hk Hcur F) as (s' & n & Ef & Hn & HI' & Hst & Hsl1 & Hsl2).
  fold p in Ef, Hn, Hst, Hsl1, Hsl2. cbv zeta in Ef, Hn, Hst, Hsl1, Hsl2.
  set (start := addr + k - fst p) in *. set (len := N.min (snd p - start) (count - k)) in *.
  rewrite Ef. cbn [bind fst snd].
  assert (Hcap : addr + k + (snd p - start) = fst p + snd p) by (unfold start; lia).
  destruct (N.eqb_spec n 0) as [Hn0|Hn0].
  { (* Ok(0) => return Ok(total) *)
    exists s', k. subst n. rewrite N.add_0_r in HI'. split; [|split; [exact HI'|split; [lia|split; [exact Hrun|]]]].
    - unfold ta_result. destruct (N.eqb_spec k 0) as [->|Hk0]; [|reflexivity].
      rewrite N.add_0_r in F. rewrite F. reflexivity.
    - destruct (N.eq_dec len 0) as [Hl0|Hl0].
      + left. unfold len, start in *. lia.
      + right; right; right. apply Hst; [reflexivity|lia]. }
  assert (Hkn : k + n <= count) by (unfold len in *; lia).
  unfold checked_add. destruct (N.ltb_spec (k + n) W64) as [_|Hov]; [|lia].
  assert (Hrun' : forall x, addr <= x < addr + (k + n) -> Mapped L x).
  { intros x Hx. destruct (N.lt_ge_cases x (addr + k)) as [Hlt|Hge]; [apply Hrun; lia|].
    exists p. split; [apply nth_In; exact Hi|]. unfold In_reg. unfold len, start in *. lia. }
  destruct (N.ltb_spec (k + n) count) as [Hlt|Hge].
  - (* more to do *)
    unfold a_overflowing_add, overflowing_add. cbn [fst snd].
    assert (Hle : addr + k + n <= W64) by (unfold len, start in *; lia).
    destruct (N.leb_spec W64 (addr + k + n)) as [Hw|Hnw]; cbn [negb].
    + (* reached 2^64 exactly: cur wraps to 0 => Ok(total) *)
      assert (Heq : addr + k + n = W64) by lia. rewrite Heq, N.mod_same by (rewrite W64_val; discriminate).
      cbn. exists s', (k + n). split; [|split; [exact HI'|split; [lia|split; [exact Hrun'|]]]].
      * unfold ta_result. destruct (N.eqb_spec (k + n) 0); [lia|reflexivity].
      * right; right; left. lia.
    + rewrite N.mod_small by lia.
      replace (addr + k + n) with (addr + (k + n)) by lia.
      assert (Hfu : (msr (addr + (k + n)) L + slack s' < fu)%nat).
      { destruct (N.eq_dec n len) as [Hnl|Hnl].
        - specialize (Hsl2 Hnl).
          assert (Hfull : addr + (k + n) = fst p + snd p) by (unfold len, start in *; lia).
          pose proof (msr_lt L (addr + k) (addr + (k + n)) i ltac:(lia) Hi) as Hm. fold p in Hm.
          specialize (Hm ltac:(lia)). lia.
        - specialize (Hsl1 ltac:(lia) ltac:(lia)).
          pose proof (msr_le L (addr + k) (addr + (k + n)) ltac:(lia)). lia. }
      destruct (IH s' (k + n) HI' Hkn ltac:(lia) Hrun' Hfu) as (s2 & k2 & E2 & HI2 & Hk2 & Hrun2 & Hstop).
      exists s2, k2. split; [exact E2|split; [exact HI2|split; [lia|split; [exact Hrun2|exact Hstop]]]].
  - assert (Heq : k + n = count) by lia. rewrite Heq, N.eqb_refl.
    exists s', count. rewrite Heq in HI', Hrun'. split; [|split; [exact HI'|split; [lia|split; [exact Hrun'|left; reflexivity]]]].
    unfold ta_result. destruct (N.eqb_spec count 0); [lia|reflexivity].
Qed.
End TA.
End Generic.

(* ------------------------------------------------------------------------------------------ *)
(* Part 3: every query, for every implementor relying on the provided methods *)
Lemma r_last_addr_val m st ln : 0 < ln -> st + ln <= W64 -> r_last_addr m st ln = Val (st + ln - 1).
Proof.
  intros H1 H2. unfold r_last_addr. rewrite psub_Val by lia. cbn [bind]. unfold a_unchecked_add.
  rewrite padd_Val by lia. f_equal. lia.
Qed.
Definition maxend (L : layout) (acc : N) : N := fold_left (fun a p => N.max a (fst p + snd p - 1)) L acc.
Lemma last_addr_loop_val m L : (forall p, In p L -> 0 < snd p /\ snd p < W64 /\ fst p + snd p <= W64) ->
  forall acc, gm_last_addr_loop m L acc = Val (maxend L acc).
Proof.
  induction L as [|[st ln] t IH]; intros H acc; [reflexivity|]. cbn [gm_last_addr_loop maxend fold_left fst snd].
  destruct (H (st, ln) (or_introl eq_refl)) as (H1 & H2 & H3). cbn [fst snd] in *.
  rewrite r_last_addr_val by assumption. cbn [bind]. apply IH. intros p Hp. apply H. right. exact Hp.
Qed.
Lemma maxend_props L : forall acc,
  acc <= maxend L acc /\ (forall p, In p L -> fst p + snd p - 1 <= maxend L acc) /\
  (maxend L acc = acc \/ exists p, In p L /\ maxend L acc = fst p + snd p - 1).
Proof.
  induction L as [|q t IH]; intros acc; cbn [maxend fold_left].
  - split; [lia|]. split; [intros p []|left; reflexivity].
  - destruct (IH (N.max acc (fst q + snd q - 1))) as (A & B & C). fold (maxend t (N.max acc (fst q + snd q - 1))) in *.
    split; [lia|]. split.
    + intros p [<-|Hp]; [lia|apply B; exact Hp].
    + destruct C as [C|(p & Hp & C)].
      * destruct (N.max_spec acc (fst q + snd q - 1)) as [[_ E]|[_ E]].
        -- right. exists q. split; [left; reflexivity|rewrite C; exact E].
        -- left. rewrite C; exact E.
      * right. exists p. split; [right; exact Hp|exact C].
Qed.
Lemma last_addr_lemma m L : wf_layout_gen L -> L <> [] ->
  exists v, gm_last_addr m L = Val v /\ Mapped L v /\ forall a, Mapped L a -> a <= v.
Proof.
  intros [Hv _] Hne. exists (maxend L 0). split; [apply last_addr_loop_val; exact Hv|].
  destruct (maxend_props L 0) as (_ & B & C). split.
  - destruct C as [C|(p & Hp & C)].
    + destruct L as [|q t]; [congruence|]. exists q. split; [left; reflexivity|].
      destruct (Hv q (or_introl eq_refl)) as (H1 & H2 & H3). specialize (B q (or_introl eq_refl)).
      unfold In_reg. lia.
    + exists p. split; [exact Hp|]. destruct (Hv p Hp) as (H1 & H2 & H3). unfold In_reg. lia.
  - intros a (p & Hp & Hr). specialize (B p Hp). unfold In_reg in Hr. lia.
Qed.

Section Queries.
Variable find : layout -> N -> option nat.
Variable inv : layout -> Prop.
Hypothesis inv_wf : forall L, inv L -> wf_layout_gen L.
Hypothesis find_spec : forall L a, inv L -> a < W64 -> find_ok L a (find L a).
Let fS := find_Some_iff find inv inv_wf find_spec.
Let fN := find_None_iff find inv find_spec.

Lemma to_region_addr_lemma L a : inv L -> a < W64 ->
  gm_to_region_addr find L a =
  Val (match find L a with Some i => Some (i, a - fst (nth i L dreg)) | None => None end).
Proof.
  intros HL Ha. unfold gm_to_region_addr. destruct (find L a) as [i|] eqn:F; [|reflexivity].
  apply fS in F; [|assumption..]. destruct F as [Hi Hr]. rewrite (r_to_region_addr_in _ _ Hr). reflexivity.
Qed.
Lemma address_in_range_lemma L a : inv L -> a < W64 -> (gm_address_in_range find L a = true <-> Mapped L a).
Proof.
  intros HL Ha. unfold gm_address_in_range. destruct (find L a) as [i|] eqn:F.
  - apply fS in F; [|assumption..]. split; [|reflexivity]. intros _. apply Mapped_nth. exists i. exact F.
  - apply fN in F; [|assumption..]. split; [discriminate|contradiction].
Qed.
Lemma check_address_lemma L a : inv L -> a < W64 ->
  forall c, gm_check_address find L a = Some c <-> c = a /\ Mapped L a.
Proof.
  intros HL Ha c. unfold gm_check_address. destruct (find L a) as [i|] eqn:F.
  - apply fS in F; [|assumption..]. split.
    + intros E. assert (c = a) by congruence. subst c. split; [reflexivity|]. apply Mapped_nth. exists i. exact F.
    + intros [-> _]. reflexivity.
  - apply fN in F; [|assumption..]. split; [discriminate|]. intros [_ HM]. contradiction.
Qed.
Lemma checked_offset_lemma L b o : inv L -> b < W64 -> o < W64 ->
  forall c, gm_checked_offset find L b o = Some c <-> c = b + o /\ b + o < W64 /\ Mapped L (b + o).
Proof.
  intros HL Hb Ho c. unfold gm_checked_offset, a_checked_add, checked_add.
  destruct (N.ltb_spec (b + o) W64) as [Hlt|Hge].
  - rewrite (check_address_lemma L (b + o) HL Hlt). tauto.
  - split; [discriminate|]. intros (_ & H & _). lia.
Qed.
Lemma host_address_lemma L a : inv L -> a < W64 ->
  gm_get_host_address find L a =
  Val (match find L a with Some i => inl (i, a - fst (nth i L dreg)) | None => inr EInvalidGuestAddress end).
Proof.
  intros HL Ha. unfold gm_get_host_address. rewrite to_region_addr_lemma by assumption. cbn [bind].
  destruct (find L a) as [i|] eqn:F; [|reflexivity].
  apply fS in F; [|assumption..]. destruct F as [Hi Hr]. unfold In_reg in Hr.
  unfold reg_get_host_address, r_check_address, r_address_in_range.
  destruct (N.ltb_spec (a - fst (nth i L dreg)) (snd (nth i L dreg))); [reflexivity|lia].
Qed.
Lemma get_slice_val L a c : inv L -> a < W64 ->
  gm_get_slice find L a c =
  Val (match find L a with
       | None => inr EInvalidGuestAddress
       | Some i => let p := nth i L dreg in
                   if a + c <=? fst p + snd p then inl (i, a - fst p, c) else inr EInvalidBackendAddress
       end).
Proof.
  intros HL Ha. unfold gm_get_slice. rewrite to_region_addr_lemma by assumption. cbn [bind].
  destruct (find L a) as [i|] eqn:F; [|reflexivity].
  apply fS in F; [|assumption..]. destruct F as [Hi Hr]. cbv zeta. set (p := nth i L dreg) in *.
  destruct (proj1 (inv_wf L HL) p (nth_In L dreg Hi)) as (H1 & H2 & H3). unfold In_reg in Hr.
  unfold reg_get_slice, checked_add.
  destruct (N.ltb_spec (a - fst p + c) W64) as [Hlt|Hge].
  - destruct (N.ltb_spec (snd p) (a - fst p + c)); destruct (N.leb_spec (a + c) (fst p + snd p)); try reflexivity; lia.
  - destruct (N.leb_spec (a + c) (fst p + snd p)); [lia|reflexivity].
Qed.
Lemma get_slice_lemma L a c : inv L -> a < W64 -> 0 < c ->
  exists r, gm_get_slice find L a c = Val r /\
    ((exists x, r = inl x) <-> exists p, In p L /\ fst p <= a /\ a + c <= fst p + snd p) /\
    (forall i off n, r = inl (i, off, n) -> find L a = Some i /\ off = a - fst (nth i L dreg) /\ n = c).
Proof.
  intros HL Ha Hc. eexists. split; [apply get_slice_val; assumption|].
  destruct (find L a) as [i|] eqn:F.
  - pose proof (proj1 (fS L a i HL Ha) F) as [Hi Hr]. cbv zeta. set (p := nth i L dreg) in *.
    destruct (N.leb_spec (a + c) (fst p + snd p)) as [Hle|Hgt]; split.
    + split; [|eauto]. intros _. exists p. split; [apply nth_In; exact Hi|]. unfold In_reg in Hr. lia.
    + intros j off n E. inversion E; subst. auto.
    + split; [intros [x E]; discriminate|]. intros (q & Hq & Hq1 & Hq2). exfalso.
      destruct (In_nth _ _ dreg Hq) as (j & Hj & Ej).
      assert (j = i). { apply (proj2 (inv_wf L HL) j i a Hj Hi); [|exact Hr]. rewrite Ej. unfold In_reg. lia. }
      subst j. fold p in Ej. subst q. lia.
    + intros j off n E; discriminate.
  - pose proof (proj1 (fN L a HL Ha) F) as HM. split.
    + split; [intros [x E]; discriminate|]. intros (q & Hq & Hq1 & Hq2). exfalso. apply HM. exists q.
      split; [exact Hq|]. unfold In_reg. lia.
    + intros j off n E; discriminate.
Qed.

(* check_range through the try_access loop *)
Lemma check_range_lemma m L base n : inv L -> base < W64 -> n < W64 -> 0 < n ->
  exists b, gm_check_range find m L base n = Val b /\
    (b = true <-> forall i, i < n -> base + i < W64 /\ Mapped L (base + i)).
Proof.
  intros HL Hb Hn Hpos. unfold gm_check_range.
  destruct (try_access_spec find inv inv_wf find_spec (St := unit) m L n base
              (fun s _ cnt _ _ => Val (s, inl cnt)) (fun _ _ => True) (fun _ _ => False) (fun _ => O)
              HL Hn Hb) with (fuel := S (length L)) (s := tt) (k := 0)
    as (s' & k' & E & _ & Hk & Hrun & Hstop).
  - intros s k i _ _ _ _. cbv zeta. eexists s, _. split; [reflexivity|]. repeat split; try lia; auto.
  - exact Logic.I.
  - lia.
  - lia.
  - intros x Hx. lia.
  - pose proof (msr_bound L (base + 0)). lia.
  - rewrite N.add_0_r in E. rewrite E. cbn [bind snd]. eexists. split; [reflexivity|].
    unfold ta_result. destruct (N.eqb_spec k' 0) as [Hk0|Hk0].
    + assert (X : (match (match find L base with Some _ => inl 0 | None => inr EInvalidGuestAddress end : res N) with
                   | inl c => c =? n | inr _ => false end) = false).
      { destruct (find L base); [apply N.eqb_neq; lia|reflexivity]. }
      rewrite X. split; [discriminate|]. intros H. exfalso. subst k'. rewrite N.add_0_r in Hstop.
      destruct (H 0 Hpos) as [H1 H2]. rewrite N.add_0_r in H1, H2.
      destruct Hstop as [Hs|[Hs|[Hs|[]]]]; [lia|contradiction|lia].
    + destruct (N.eqb_spec k' n) as [->|Hne]; split; try discriminate; try reflexivity.
      * intros _ i Hi. assert (HM : Mapped L (base + i)) by (apply Hrun; lia).
        split; [exact (Mapped_lt L _ (inv_wf L HL) HM)|exact HM].
      * intros H. exfalso. assert (Hlt : k' < n) by lia. destruct (H k' Hlt) as [H1 H2].
        destruct Hstop as [Hs|[Hs|[Hs|[]]]]; [lia|contradiction|lia].
Qed.
Lemma check_range_zero_lemma m L base : inv L -> base < W64 ->
  gm_check_range find m L base 0 = Val (gm_address_in_range find L base).
Proof.
  intros HL Hb. unfold gm_check_range, gm_address_in_range. cbn [try_access].
  destruct (find L base) as [i|] eqn:F; [|reflexivity].
  apply fS in F; [|assumption..]. destruct F as [Hi Hr].
  rewrite (r_to_region_addr_in _ _ Hr). unfold In_reg in Hr.
  rewrite psub_Val by lia. cbn [bind]. rewrite psub_Val by lia. cbn [bind fst snd].
  rewrite N.sub_0_r, N.min_0_r. reflexivity.
Qed.
(* ---- implementor flavours (added w4): the region type writes the capability method itself (own = true)
   or inherits the provided body (own = false) *)
Lemma host_address_own_lemma L a : gm_get_host_address_fl find true L a = gm_get_host_address find L a.
Proof. reflexivity. Qed.
Lemma get_slice_own_lemma L a c : gm_get_slice_fl find true L a c = gm_get_slice find L a c.
Proof. reflexivity. Qed.
Lemma host_address_fl_lemma own L a : inv L -> a < W64 ->
  gm_get_host_address_fl find own L a =
  Val (match find L a with
       | Some i => if own then inl (i, a - fst (nth i L dreg)) else inr EHostAddressNotAvailable
       | None => inr EInvalidGuestAddress end).
Proof.
  intros HL Ha. destruct own.
  - rewrite host_address_own_lemma. apply host_address_lemma; assumption.
  - unfold gm_get_host_address_fl. rewrite to_region_addr_lemma by assumption. cbn [bind].
    destruct (find L a) as [i|]; reflexivity.
Qed.
Lemma get_slice_fl_lemma own L a c : inv L -> a < W64 ->
  gm_get_slice_fl find own L a c =
  Val (match find L a with
       | None => inr EInvalidGuestAddress
       | Some i => let p := nth i L dreg in
                   if own then (if a + c <=? fst p + snd p then inl (i, a - fst p, c) else inr EInvalidBackendAddress)
                   else inr EHostAddressNotAvailable
       end).
Proof.
  intros HL Ha. destruct own.
  - rewrite get_slice_own_lemma. apply get_slice_val; assumption.
  - unfold gm_get_slice_fl. rewrite to_region_addr_lemma by assumption. cbn [bind].
    destruct (find L a) as [i|]; reflexivity.
Qed.
(* whatever the flavour, a slice of c >= 1 bytes that IS granted lies inside one region and is
   (that region, offset a - start, c bytes); a host pointer that is granted is the right one *)
Lemma flavour_grants_only_inside own L a c : inv L -> a < W64 ->
  (forall i off n, gm_get_slice_fl find own L a c = Val (inl (i, off, n)) ->
     find L a = Some i /\ a + c <= fst (nth i L dreg) + snd (nth i L dreg) /\ off = a - fst (nth i L dreg) /\ n = c) /\
  (forall i off, gm_get_host_address_fl find own L a = Val (inl (i, off)) ->
     find L a = Some i /\ off = a - fst (nth i L dreg)).
Proof.
  intros HL Ha. split.
  - intros i off n. rewrite get_slice_fl_lemma by assumption.
    destruct (find L a) as [j|]; [|discriminate]. cbv zeta. destruct own; [|discriminate].
    destruct (N.leb_spec (a + c) (fst (nth j L dreg) + snd (nth j L dreg))) as [Hle|Hgt]; [|discriminate].
    intros E. injection E as E1 E2 E3. subst j off n. auto.
  - intros i off. rewrite host_address_fl_lemma by assumption.
    destruct (find L a) as [j|]; [|discriminate]. destruct own; [|discriminate].
    intros E. injection E as E1 E2. subst j off. auto.
Qed.
End Queries.

(* ------------------------------------------------------------------------------------------ *)
(* Part 4: the executable checker.  Its decision procedures are the set-theoretic statements,
   and the model (provided methods over the linear find_region) satisfies it on every case. *)
Lemma inreg_iff p a : inreg p a = true <-> In_reg p a.
Proof.
  unfold inreg, In_reg. destruct (N.leb_spec (fst p) a); destruct (N.ltb_spec a (fst p + snd p)); cbn;
    split; intros; try discriminate; try lia; auto.
Qed.
Lemma mappedb_iff L a : mappedb L a = true <-> a < W64 /\ Mapped L a.
Proof.
  unfold mappedb, Mapped. rewrite andb_true_iff, existsb_exists, N.ltb_lt.
  split; intros [H1 (p & Hp & Hr)]; (split; [exact H1|]); exists p; (split; [exact Hp|]); apply inreg_iff; exact Hr.
Qed.
Lemma mappedb_false L a : a < W64 -> ~ Mapped L a -> mappedb L a = false.
Proof. intros Ha HM. destruct (mappedb L a) eqn:E; [|reflexivity]. apply mappedb_iff in E. tauto. Qed.
Lemma nthr_nat L i : (i < length L)%nat -> nthr L (N.of_nat i) = nth i L dreg.
Proof.
  intros Hi. unfold nthr. destruct (N.ltb_spec (N.of_nat i) (N.of_nat (length L))); [|lia].
  rewrite Nat2N.id. reflexivity.
Qed.

(* the checker's test for "every byte of [a, a+n) is mapped" is the pointwise statement *)
Lemma all_mapped_iff L a n : wf_layout_gen L -> a < W64 -> 0 < n ->
  (all_mapped L a n = true <-> forall i, i < n -> a + i < W64 /\ Mapped L (a + i)).
Proof.
  intros Hwf Ha Hn. unfold all_mapped. rewrite !andb_true_iff, forallb_forall, N.leb_le, mappedb_iff. split.
  - intros [[Hend [_ HM0]] Hall].
    assert (G : forall i, i < n -> Mapped L (a + i)).
    { intros i. induction i as [|i IH] using N.peano_ind; intros Hi.
      - rewrite N.add_0_r. exact HM0.
      - destruct (IH ltac:(lia)) as (p & Hp & Hr). unfold In_reg in Hr.
        destruct (N.lt_ge_cases (a + N.succ i) (fst p + snd p)) as [Hin|Hout].
        + exists p. split; [exact Hp|]. unfold In_reg. lia.
        + specialize (Hall p Hp). cbv zeta in Hall.
          assert (E : a + N.succ i = fst p + snd p) by lia.
          destruct (N.ltb_spec a (fst p + snd p)) as [Hq1|Hq1]; [|lia].
          destruct (N.ltb_spec (fst p + snd p) (a + n)) as [Hq2|Hq2]; [|lia]. cbn in Hall.
          apply mappedb_iff in Hall. rewrite E. tauto. }
    intros i Hi. split; [lia|apply G; exact Hi].
  - intros H. split; [split|].
    + destruct (H (n - 1) ltac:(lia)). lia.
    + destruct (H 0 Hn) as [H1 H2]. rewrite N.add_0_r in H2. tauto.
    + intros p Hp. cbv zeta.
      destruct (N.ltb_spec a (fst p + snd p)) as [Hq1|Hq1]; [|reflexivity].
      destruct (N.ltb_spec (fst p + snd p) (a + n)) as [Hq2|Hq2]; [|reflexivity]. cbn.
      destruct (H (fst p + snd p - a) ltac:(lia)) as [Hq3 Hq4].
      replace (a + (fst p + snd p - a)) with (fst p + snd p) in * by lia. apply mappedb_iff. tauto.
Qed.

(* ---- region-level accessors of every flavour (added w4) *)
Lemma region_host_address_lemma own ln x :
  (forall p, fl_get_host_address own ln x = inl p -> x < ln /\ p = x) /\
  (own = true -> x < ln -> fl_get_host_address own ln x = inl x) /\
  (own = true -> ln <= x -> fl_get_host_address own ln x = inr EInvalidBackendAddress) /\
  (own = false -> fl_get_host_address own ln x = inr EHostAddressNotAvailable).
Proof.
  unfold fl_get_host_address, reg_get_host_address, rd_get_host_address, r_check_address, r_address_in_range.
  destruct own; (split; [|split; [|split]]); try discriminate; try reflexivity;
    destruct (N.ltb_spec x ln); intros; try discriminate; try lia; try reflexivity.
  match goal with H : inl _ = inl _ |- _ => injection H as <- end. split; [assumption|reflexivity].
Qed.
Lemma region_get_slice_lemma own ln x n :
  (forall off c, fl_get_slice own ln x n = inl (off, c) -> x + n <= ln /\ off = x /\ c = n) /\
  (own = true -> ln < W64 -> x + n <= ln -> fl_get_slice own ln x n = inl (x, n)) /\
  (own = true -> ln < x + n -> fl_get_slice own ln x n = inr EInvalidBackendAddress) /\
  (own = false -> fl_get_slice own ln x n = inr EHostAddressNotAvailable).
Proof.
  unfold fl_get_slice, reg_get_slice, rd_get_slice, checked_add.
  destruct own; (split; [|split; [|split]]); try discriminate; try reflexivity.
  - intros off c. destruct (N.ltb_spec (x + n) W64); [|discriminate].
    destruct (N.ltb_spec ln (x + n)); [discriminate|]. intros E. injection E as <- <-. lia.
  - intros _ Hl Hle. destruct (N.ltb_spec (x + n) W64); [|lia]. destruct (N.ltb_spec ln (x + n)); [lia|reflexivity].
  - intros _ Hgt. destruct (N.ltb_spec (x + n) W64); [|reflexivity]. destruct (N.ltb_spec ln (x + n)); [reflexivity|lia].
Qed.
Lemma region_as_volatile_slice_lemma own ln : ln < W64 ->
  fl_as_volatile_slice own ln = if own then inl (0, ln) else inr EHostAddressNotAvailable.
Proof.
  intros Hl. unfold fl_as_volatile_slice, r_as_volatile_slice. destruct own.
  - apply (proj1 (proj2 (region_get_slice_lemma true ln 0 ln))); [reflexivity|exact Hl|lia].
  - reflexivity.
Qed.

Lemma flavour_own_is_base_lemma (find : layout -> N -> option nat) L a c :
  gm_get_host_address_fl find true L a = gm_get_host_address find L a /\
  gm_get_slice_fl find true L a c = gm_get_slice find L a c.
Proof. split; reflexivity. Qed.

Definition wf_case02 (c : case02) : Prop :=
  wf_layout_gen (c2_L c) /\ c2_a c < W64 /\ c2_b c < W64 /\ c2_c c < W64 /\
  (is_rop (c2_op c) = true -> c2_a c < N.of_nat (length (c2_L c))).

Lemma lin_cases L a : a < W64 ->
  (exists i, find_lin L a = Some i /\ (i < length L)%nat /\ In_reg (nth i L dreg) a /\ mappedb L a = true) \/
  (find_lin L a = None /\ mappedb L a = false).
Proof.
  intros Ha. pose proof (find_lin_spec L a) as S. destruct (find_lin L a) as [i|].
  - left. exists i. destruct S as [Hi Hr]. split; [reflexivity|split; [exact Hi|split; [exact Hr|]]]. apply mappedb_iff. split; [exact Ha|].
    apply Mapped_nth. eauto.
  - right. split; [reflexivity|]. apply mappedb_false; assumption.
Qed.

Ltac bsplit := rewrite ?andb_true_iff; repeat match goal with |- _ /\ _ => split end; try reflexivity.
Local Notation linspec := (fun L a (_ : wf_layout_gen L) (_ : a < W64) => find_lin_spec L a).
Local Notation idwf := (fun (L : layout) (H : wf_layout_gen L) => H).

Lemma boolobs_refl c : boolobs c (o_bool c) = true.
Proof. unfold boolobs, o_bool, mk; cbn. apply N.eqb_refl. Qed.
Lemma some1_opt c v : some1 c v (o_opt (if c then Some v else None)) = true.
Proof. destruct c; unfold some1, o_opt, is_none, mk, o_none; cbn; rewrite ?N.eqb_refl; reflexivity. Qed.
Lemma list_eqbN_refl l : list_eqbN l l = true.
Proof. induction l as [|x t IH]; cbn [list_eqbN]; [reflexivity|]. rewrite N.eqb_refl. exact IH. Qed.

Lemma C02_model_ok_lemma : forall c, wf_case02 c -> ok_C02 c (run_C02 c) = true.
Proof.
  intros [m L op a b cc hc sc] (Hwf & Ha & Hb & Hc & Hidx). cbn [c2_mode c2_L c2_op c2_a c2_b c2_c c2_host c2_slice] in *.
  unfold ok_C02, run_C02. cbn [c2_mode c2_L c2_op c2_a c2_b c2_c c2_host c2_slice].
  destruct op; cbn [is_rop] in Hidx.
  - (* find_region *)
    destruct (lin_cases L a Ha) as [(i & F & Hi & Hr & HM)|[F HM]]; rewrite F, HM.
    + cbn [o2_k o2_x o2_y o2_z mk]. rewrite nthr_nat by exact Hi. bsplit; [apply N.ltb_lt; lia|apply inreg_iff; exact Hr].
    + reflexivity.
  - (* to_region_addr *)
    rewrite (to_region_addr_lemma find_lin wf_layout_gen idwf linspec L a Hwf Ha). cbn [o_out].
    destruct (lin_cases L a Ha) as [(i & F & Hi & Hr & HM)|[F HM]]; rewrite F, HM.
    + cbn [o2_k o2_x o2_y o2_z mk]. rewrite nthr_nat by exact Hi. bsplit; [apply N.ltb_lt; lia|apply inreg_iff; exact Hr|apply N.eqb_refl..].
    + reflexivity.
  - (* address_in_range *)
    unfold gm_address_in_range.
    destruct (lin_cases L a Ha) as [(i & F & Hi & Hr & HM)|[F HM]]; rewrite F, HM; reflexivity.
  - (* check_address *)
    unfold gm_check_address.
    destruct (lin_cases L a Ha) as [(i & F & Hi & Hr & HM)|[F HM]]; rewrite F, HM; cbn; rewrite ?N.eqb_refl; reflexivity.
  - (* checked_offset *)
    unfold gm_checked_offset, a_checked_add, checked_add, gm_check_address.
    destruct (N.ltb_spec (a + b) W64) as [Hlt|Hge].
    + destruct (lin_cases L (a + b) Hlt) as [(i & F & Hi & Hr & HM)|[F HM]]; rewrite F, HM; cbn; rewrite ?N.eqb_refl; reflexivity.
    + assert (HM : mappedb L (a + b) = false).
      { unfold mappedb. destruct (N.ltb_spec (a + b) W64); [lia|reflexivity]. }
      rewrite HM. reflexivity.
  - (* check_range *)
    destruct (N.eqb_spec b 0) as [Hb0|Hb0]; [reflexivity|].
    destruct (check_range_lemma find_lin wf_layout_gen idwf linspec m L a b Hwf Ha Hb ltac:(lia)) as (r & E & Hr).
    rewrite E. cbn [o_out].
    assert (X : all_mapped L a b = r).
    { pose proof (all_mapped_iff L a b Hwf Ha ltac:(lia)) as Hi.
      destruct (all_mapped L a b); destruct r; try reflexivity.
      - symmetry. apply Hr. apply Hi. reflexivity.
      - apply Hi. apply Hr. reflexivity. }
    rewrite X. apply boolobs_refl.
  - (* last_addr *)
    destruct L as [|q t]; [reflexivity|].
    destruct (last_addr_lemma m (q :: t) Hwf ltac:(discriminate)) as (v & E & HM & Hmax).
    rewrite E. cbn [o_out]. cbn [o2_k o2_x mk]. bsplit.
    + apply mappedb_iff. split; [exact (Mapped_lt _ _ Hwf HM)|exact HM].
    + apply forallb_forall. intros p Hp. apply N.leb_le.
      destruct (proj1 Hwf p Hp) as (H1 & H2 & H3).
      apply Hmax. exists p. split; [exact Hp|]. unfold In_reg. lia.
  - (* get_host_address *)
    rewrite (host_address_fl_lemma find_lin wf_layout_gen idwf linspec hc L a Hwf Ha). cbn [o_out].
    destruct (lin_cases L a Ha) as [(i & F & Hi & Hr & HM)|[F HM]]; rewrite F, HM; unfold granted.
    + destruct hc; [|reflexivity].
      cbn [o2_k o2_x o2_y o2_z mk]. rewrite nthr_nat by exact Hi. bsplit; [apply N.ltb_lt; lia|apply inreg_iff; exact Hr|apply N.eqb_refl..].
    + reflexivity.
  - (* get_slice *)
    destruct (N.eqb_spec b 0) as [Hb0|Hb0]; [reflexivity|].
    rewrite (get_slice_fl_lemma find_lin wf_layout_gen idwf linspec sc L a b Hwf Ha). cbn [o_out].
    destruct (N.ltb_spec a W64) as [_|]; [|lia]. rewrite andb_true_r. unfold granted.
    destruct (lin_cases L a Ha) as [(i & F & Hi & Hr & HM)|[F HM]]; rewrite F.
    + cbv zeta. set (p := nth i L dreg) in *.
      destruct (N.leb_spec (a + b) (fst p + snd p)) as [Hle|Hgt].
      * assert (X : existsb (fun p0 => inreg p0 a && (a + b <=? fst p0 + snd p0)) L = true).
        { apply existsb_exists. exists p. split; [apply nth_In; exact Hi|]. bsplit; [apply inreg_iff; exact Hr|apply N.leb_le; exact Hle]. }
        rewrite X. destruct sc; [|reflexivity].
        cbn [o2_k o2_x o2_y o2_z mk]. rewrite nthr_nat by exact Hi. fold p.
        bsplit; [apply N.ltb_lt; lia|apply inreg_iff; exact Hr|apply N.leb_le; exact Hle|apply N.eqb_refl..].
      * assert (X : existsb (fun p0 => inreg p0 a && (a + b <=? fst p0 + snd p0)) L = false).
        { destruct (existsb _ L) eqn:E; [|reflexivity]. exfalso. apply existsb_exists in E.
          destruct E as (q & Hq & Hq2). apply andb_true_iff in Hq2. destruct Hq2 as [Hq2 Hq3].
          apply inreg_iff in Hq2. apply N.leb_le in Hq3.
          destruct (In_nth _ _ dreg Hq) as (j & Hj & Ej).
          assert (j = i). { apply (proj2 Hwf j i a Hj Hi); [rewrite Ej; exact Hq2|exact Hr]. }
          subst j. fold p in Ej. subst q. lia. }
        rewrite X. destruct sc; reflexivity.
    + assert (X : existsb (fun p0 => inreg p0 a && (a + b <=? fst p0 + snd p0)) L = false).
      { destruct (existsb _ L) eqn:E; [|reflexivity]. exfalso. apply existsb_exists in E.
        destruct E as (q & Hq & Hq2). apply andb_true_iff in Hq2. destruct Hq2 as [Hq2 _]. apply inreg_iff in Hq2.
        assert (Y : mappedb L a = true) by (apply mappedb_iff; split; [exact Ha|exists q; auto]). congruence. }
      rewrite X. reflexivity.
  - (* iter / num_regions *)
    unfold gm_iter, gm_num_regions. cbn [o2_k o2_x o2_l1 o2_l2]. rewrite !N.eqb_refl, !list_eqbN_refl. reflexivity.
  - (* region last_addr *)
    specialize (Hidx eq_refl).
    assert (Hin : In (nthr L a) L).
    { unfold nthr. destruct (N.ltb_spec a (N.of_nat (length L))); [|lia]. apply nth_In. lia. }
    destruct (proj1 Hwf _ Hin) as (H1 & H2 & H3).
    rewrite r_last_addr_val by assumption. cbn. rewrite !N.eqb_refl. reflexivity.
  - apply boolobs_refl.
  - unfold r_check_address, r_address_in_range. apply some1_opt.
  - (* region checked_offset *)
    specialize (Hidx eq_refl).
    assert (Hin : In (nthr L a) L).
    { unfold nthr. destruct (N.ltb_spec a (N.of_nat (length L))); [|lia]. apply nth_In. lia. }
    destruct (proj1 Hwf _ Hin) as (H1 & H2 & H3).
    unfold r_checked_offset, a_checked_add, checked_add, r_check_address, r_address_in_range.
    destruct (N.ltb_spec (b + cc) W64) as [Hlt|Hge]; [apply some1_opt|].
    destruct (N.ltb_spec (b + cc) (snd (nthr L a))); [lia|]. reflexivity.
  - (* region to_region_addr *)
    destruct (inreg (nthr L a) b) eqn:E.
    + apply inreg_iff in E. rewrite (r_to_region_addr_in _ _ E). cbn. rewrite !N.eqb_refl. reflexivity.
    + rewrite r_to_region_addr_out; [reflexivity|]. intros H. apply inreg_iff in H. congruence.
  - (* region get_host_address *)
    unfold granted. destruct (region_host_address_lemma hc (snd (nthr L a)) b) as (_ & G1 & G2 & G3).
    destruct (N.ltb_spec b (snd (nthr L a))) as [Hin|Hout]; destruct hc;
      rewrite ?(G1 eq_refl Hin), ?(G2 eq_refl Hout), ?(G3 eq_refl); cbn; rewrite ?N.eqb_refl; reflexivity.
  - (* region get_slice *)
    specialize (Hidx eq_refl).
    assert (Hin : In (nthr L a) L).
    { unfold nthr. destruct (N.ltb_spec a (N.of_nat (length L))); [|lia]. apply nth_In. lia. }
    destruct (proj1 Hwf _ Hin) as (H1 & H2 & H3).
    destruct (N.eqb_spec cc 0) as [Hc0|Hc0]; [reflexivity|].
    unfold granted. destruct (region_get_slice_lemma sc (snd (nthr L a)) b cc) as (_ & G1 & G2 & G3).
    destruct (N.leb_spec (b + cc) (snd (nthr L a))) as [Hle|Hgt]; destruct sc;
      rewrite ?(G1 eq_refl H2 Hle), ?(G2 eq_refl Hgt), ?(G3 eq_refl); cbn; rewrite ?N.eqb_refl; reflexivity.
  - (* region as_volatile_slice *)
    specialize (Hidx eq_refl).
    assert (Hin : In (nthr L a) L).
    { unfold nthr. destruct (N.ltb_spec a (N.of_nat (length L))); [|lia]. apply nth_In. lia. }
    destruct (proj1 Hwf _ Hin) as (H1 & H2 & H3).
    rewrite region_as_volatile_slice_lemma by exact H2. unfold granted.
    destruct sc; cbn; rewrite ?N.eqb_refl; reflexivity.
  - reflexivity.
Qed.

Lemma iter_lemma : forall L, gm_iter L = L /\ gm_num_regions L = N.of_nat (length L).
Proof. intros L. split; reflexivity. Qed.

Lemma region_defaults_lemma : forall m st ln, 0 < ln -> ln < W64 -> st + ln <= W64 ->
  r_last_addr m st ln = Val (st + ln - 1) /\
  (forall x, r_address_in_range ln x = true <-> x < ln) /\
  (forall x c, r_check_address ln x = Some c <-> c = x /\ x < ln) /\
  (forall b o c, b < W64 -> o < W64 -> (r_checked_offset ln b o = Some c <-> c = b + o /\ b + o < ln)) /\
  (forall a o, r_to_region_addr st ln a = Some o <-> st <= a < st + ln /\ o = a - st).
Proof.
  intros m st ln H1 H2 H3. split; [apply r_last_addr_val; assumption|].
  assert (CA : forall x c, r_check_address ln x = Some c <-> c = x /\ x < ln).
  { intros x c. unfold r_check_address, r_address_in_range. destruct (N.ltb_spec x ln); split.
    - intros E. assert (c = x) by congruence. auto.
    - intros [-> _]. reflexivity.
    - discriminate.
    - intros [_ ?]. lia. }
  split; [intros x; unfold r_address_in_range; apply N.ltb_lt|]. split; [exact CA|]. split.
  - intros b o c Hb Ho. unfold r_checked_offset, a_checked_add, checked_add.
    destruct (N.ltb_spec (b + o) W64).
    + rewrite CA. tauto.
    + split; [discriminate|]. intros [_ ?]. lia.
  - intros a o. rewrite r_to_region_addr_Some. split; intros H; repeat split; try lia.
Qed.

Lemma nonvacuous_lemma :
  let L := [(W64 - 8, 8); (0, 16); (16, 4)] in
  wf_layout_gen L /\ find_lin L (W64 - 1) = Some 0%nat /\
  gm_check_range find_lin Debug L (W64 - 8) 8 = Val true /\
  gm_check_range find_lin Debug L (W64 - 8) 9 = Val false /\
  gm_check_range find_lin Debug L 8 12 = Val true /\
  gm_last_addr Debug L = Val (W64 - 1).
Proof.
  cbv zeta. split; [|vm_compute; repeat split].
  split.
  - intros p [<-|[<-|[<-|[]]]]; cbn [fst snd]; rewrite W64_val; lia.
  - intros i j a Hi Hj. cbn [length] in Hi, Hj.
    destruct i as [|[|[|i]]]; destruct j as [|[|[|j]]]; try lia; cbn [nth]; unfold In_reg; cbn [fst snd];
      rewrite ?W64_val; intros; try reflexivity; lia.
Qed.
