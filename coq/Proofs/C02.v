(* C02 - proofs.  Part 1: the set-theoretic vocabulary of the statements and basic facts;
   Part 2: the generic loop lemma for try_access (also used by Proofs/C03.v);
   Part 3: the characterisation of every query; Part 4: the checker. *)
From VM Require Import Prelude.MachInt Prelude.Outcome Prelude.Tok Impl.Address Impl.Guest Spec.C02 Suite.C02.
From Coq Require Import Arith.

(* ------------------------------------------------------------------------------------------ *)
(* Part 1 *)
Definition In_reg (p : N * N) (a : N) : Prop := fst p <= a < fst p + snd p.
Definition Mapped (L : layout) (a : N) : Prop := exists p, In p L /\ In_reg p a.
(* any implementor: non-empty regions inside the 64-bit space (a region may end exactly at 2^64),
   pairwise disjoint; no order, no bound on their number or size *)
Definition wf_layout_gen (L : layout) : Prop :=
  (forall p, In p L -> 0 < snd p /\ fst p + snd p <= W64) /\
  (forall i j a, (i < length L)%nat -> (j < length L)%nat ->
     In_reg (nth i L dreg) a -> In_reg (nth j L dreg) a -> i = j).
(* what GuestRegionMmap::new establishes in addition: start + len <= 2^64 - 1 *)
Definition wf_layout (L : layout) : Prop :=
  wf_layout_gen L /\ forall p, In p L -> fst p + snd p <= W64 - 1.
(* the contract of find_region: the index of a region containing the address, None iff none does *)
Definition find_ok (L : layout) (a : N) (o : option nat) : Prop :=
  match o with
  | Some i => (i < length L)%nat /\ In_reg (nth i L dreg) a
  | None => ~ Mapped L a
  end.

Lemma contains_iff p a : contains p a = true <-> In_reg p a.
Proof.
  unfold contains, In_reg. destruct (N.leb_spec (fst p) a); destruct (N.ltb_spec (a - fst p) (snd p));
    cbn; split; intros; try discriminate; try lia; auto.
Qed.
Lemma r_to_region_addr_Some st ln a o : r_to_region_addr st ln a = Some o <-> st <= a /\ a - st < ln /\ o = a - st.
Proof.
  unfold r_to_region_addr, a_checked_offset_from, checked_sub, r_check_address, r_address_in_range.
  destruct (N.leb_spec st a) as [Hle|Hle].
  - destruct (N.ltb_spec (a - st) ln) as [Hlt|Hlt]; split; intros HH; try discriminate; try lia.
    + inversion HH. lia.
    + destruct HH as (_ & _ & ->). reflexivity.
  - split; intros HH; [discriminate|lia].
Qed.
Lemma r_to_region_addr_None st ln a : r_to_region_addr st ln a = None <-> ~ (st <= a /\ a - st < ln).
Proof.
  destruct (r_to_region_addr st ln a) as [o|] eqn:E.
  - apply r_to_region_addr_Some in E. split; [discriminate|]. intros H; exfalso; apply H; lia.
  - split; [|reflexivity]. intros _ H.
    assert (X : r_to_region_addr st ln a = Some (a - st)) by (apply r_to_region_addr_Some; lia). congruence.
Qed.
Lemma r_to_region_addr_in p a : In_reg p a -> r_to_region_addr (fst p) (snd p) a = Some (a - fst p).
Proof. intros H. apply r_to_region_addr_Some. unfold In_reg in H. lia. Qed.
Lemma r_to_region_addr_out p a : ~ In_reg p a -> r_to_region_addr (fst p) (snd p) a = None.
Proof. intros H. apply r_to_region_addr_None. unfold In_reg in H. lia. Qed.

Lemma dreg_empty a : ~ In_reg dreg a.
Proof. unfold In_reg, dreg; cbn. lia. Qed.
Lemma Mapped_nth L a : Mapped L a <-> exists i, (i < length L)%nat /\ In_reg (nth i L dreg) a.
Proof.
  split.
  - intros (p & Hin & Hr). destruct (In_nth _ _ dreg Hin) as (i & Hi & E). exists i. rewrite E. auto.
  - intros (i & Hi & Hr). exists (nth i L dreg). split; [apply nth_In; exact Hi|exact Hr].
Qed.
Lemma Mapped_lt L a : wf_layout_gen L -> Mapped L a -> a < W64.
Proof. intros [H _] (p & Hin & Hr). destruct (H p Hin). unfold In_reg in Hr. lia. Qed.

(* the linear implementor satisfies the contract on every layout *)
Lemma find_idx_spec L a : forall k,
  match find_idx L a k with
  | Some i => (k <= i < k + length L)%nat /\ In_reg (nth (i - k) L dreg) a
  | None => forall j, (j < length L)%nat -> ~ In_reg (nth j L dreg) a
  end.
Proof.
  induction L as [|p t IH]; intros k; cbn [find_idx].
  - intros j Hj. cbn in Hj. lia.
  - destruct (r_to_region_addr (fst p) (snd p) a) as [o|] eqn:E.
    + apply r_to_region_addr_Some in E. cbn [length]. split; [lia|]. rewrite Nat.sub_diag. cbn. unfold In_reg. lia.
    + specialize (IH (S k)). destruct (find_idx t a (S k)) as [i|].
      * destruct IH as [H1 H2]. cbn [length]. split; [lia|].
        replace (i - k)%nat with (S (i - S k)) by lia. exact H2.
      * intros [|j] Hj; cbn [nth].
        -- apply r_to_region_addr_None in E. unfold In_reg. lia.
        -- apply IH. cbn in Hj. lia.
Qed.
Lemma find_lin_spec L a : find_ok L a (find_lin L a).
Proof.
  unfold find_lin, find_ok. pose proof (find_idx_spec L a 0) as H. destruct (find_idx L a 0) as [i|].
  - rewrite Nat.sub_0_r in H. destruct H as [H1 H2]. split; [lia|exact H2].
  - intros HM. apply Mapped_nth in HM. destruct HM as (j & Hj & Hr). exact (H j Hj Hr).
Qed.

(* number of regions that end beyond cur: the loop measure *)
Definition msr (cur : N) (L : layout) : nat := length (filter (fun p => N.ltb cur (fst p + snd p)) L).
Lemma filter_le {A} (f g : A -> bool) l : (forall x, g x = true -> f x = true) ->
  (length (filter g l) <= length (filter f l))%nat.
Proof.
  intros H. induction l as [|x t IH]; cbn; [lia|]. destruct (g x) eqn:G; [rewrite (H x G); cbn; lia|].
  destruct (f x); cbn; lia.
Qed.
Lemma filter_lt {A} (f g : A -> bool) l d i : (forall x, g x = true -> f x = true) -> (i < length l)%nat ->
  f (nth i l d) = true -> g (nth i l d) = false -> (length (filter g l) < length (filter f l))%nat.
Proof.
  intros H. revert i; induction l as [|x t IH]; intros i Hi Hf Hg; [cbn in Hi; lia|].
  destruct i as [|i]; cbn in Hf, Hg |- *.
  - rewrite Hf, Hg. cbn. pose proof (filter_le f g t H). lia.
  - cbn in Hi. specialize (IH i ltac:(lia) Hf Hg). destruct (g x) eqn:G; [rewrite (H x G); cbn; lia|].
    destruct (f x); cbn; lia.
Qed.
Lemma msr_le L a b : a <= b -> (msr b L <= msr a L)%nat.
Proof. intros H. apply filter_le. intros p Hp. apply N.ltb_lt in Hp. apply N.ltb_lt. lia. Qed.
Lemma msr_lt L a b i : a <= b -> (i < length L)%nat -> a < fst (nth i L dreg) + snd (nth i L dreg) <= b ->
  (msr b L < msr a L)%nat.
Proof.
  intros H Hi Hr. apply (filter_lt _ _ _ dreg i); auto.
  - intros p Hp. apply N.ltb_lt in Hp. apply N.ltb_lt. lia.
  - apply N.ltb_lt. lia.
  - apply N.ltb_ge. lia.
Qed.
Lemma msr_bound L a : (msr a L <= length L)%nat.
Proof. unfold msr. induction L as [|p t IH]; cbn; [lia|]. destruct (_ <? _); cbn; lia. Qed.

(* ------------------------------------------------------------------------------------------ *)
(* Part 2: try_access, for every find_region that meets its contract on layouts satisfying an
   implementor-chosen invariant inv (at least wf_layout_gen) *)
Section Generic.
Variable find : layout -> N -> option nat.
Variable inv : layout -> Prop.
Hypothesis inv_wf : forall L, inv L -> wf_layout_gen L.
Hypothesis find_spec : forall L a, inv L -> a < W64 -> find_ok L a (find L a).

Lemma find_Some_iff L a i : inv L -> a < W64 ->
  (find L a = Some i <-> (i < length L)%nat /\ In_reg (nth i L dreg) a).
Proof.
  intros HL Ha. pose proof (find_spec L a HL Ha) as S. split.
  - intros E. rewrite E in S. exact S.
  - intros [Hi Hr]. destruct (find L a) as [j|].
    + destruct S as [Hj Hrj]. f_equal. exact (proj2 (inv_wf L HL) j i a Hj Hi Hrj Hr).
    + exfalso. apply S. apply Mapped_nth. eauto.
Qed.
Lemma find_None_iff L a : inv L -> a < W64 -> (find L a = None <-> ~ Mapped L a).
Proof.
  intros HL Ha. pose proof (find_spec L a HL Ha) as S. split.
  - intros E. rewrite E in S. exact S.
  - intros HM. destruct (find L a) as [j|]; [|reflexivity]. exfalso. apply HM. apply Mapped_nth. destruct S; eauto.
Qed.
Lemma find_is_some_iff L a : inv L -> a < W64 -> ((exists i, find L a = Some i) <-> Mapped L a).
Proof.
  intros HL Ha. pose proof (find_spec L a HL Ha) as S. destruct (find L a) as [j|]; split.
  - intros _. apply Mapped_nth. destruct S; eauto.
  - eauto.
  - intros [i E]; discriminate.
  - intros HM; contradiction.
Qed.

Section TA.
Context {St : Type}.
Variables (m : mode) (L : layout) (count addr : N).
Variable f : St -> N -> N -> N -> nat -> outcome (St * res N).
Variable I : St -> N -> Prop.            (* I s k: s is the state after the first k bytes *)
Variable Stall : St -> N -> Prop.        (* the callback returned Ok(0) although asked for more *)
Variable slack : St -> nat.              (* how many more short (0 < n < len) answers the callback can give *)
Hypothesis HL : inv L.
Hypothesis Hcount : count < W64.
Hypothesis Haddr : addr < W64.
Hypothesis Hf : forall s k i, I s k -> k <= count -> addr + k < W64 -> find L (addr + k) = Some i ->
  let start := addr + k - fst (nth i L dreg) in
  let len := N.min (snd (nth i L dreg) - start) (count - k) in
  exists s' n, f s k len start i = Val (s', inl n) /\ n <= len /\ I s' (k + n) /\
    (n = 0 -> 0 < len -> Stall s' k) /\
    (0 < n -> n < len -> (slack s' < slack s)%nat) /\ (n = len -> (slack s' <= slack s)%nat).

Definition ta_result (k : N) : res N :=
  if k =? 0 then match find L addr with Some _ => inl 0 | None => inr EInvalidGuestAddress end else inl k.

Lemma try_access_spec : forall fuel s k,
  I s k -> k <= count -> addr + k < W64 ->
  (forall x, addr <= x < addr + k -> Mapped L x) ->
  (msr (addr + k) L + slack s < fuel)%nat ->
  exists s' k', try_access find m L count f fuel s (addr + k) k = Val (s', ta_result k') /\
    I s' k' /\ k <= k' <= count /\ (forall x, addr <= x < addr + k' -> Mapped L x) /\
    (k' = count \/ ~ Mapped L (addr + k') \/ addr + k' = W64 \/ Stall s' k').
Proof.
  induction fuel as [|fu IH]; intros s k HI Hk Hcur Hrun Hfuel; [lia|].
  cbn [try_access].
  destruct (find L (addr + k)) as [i|] eqn:F.
  2:{ (* hole at cur *)
    exists s, k. split; [|split; [exact HI|split; [lia|split; [exact Hrun|]]]].
    - unfold ta_result. destruct (N.eqb_spec k 0) as [->|Hk0]; [|reflexivity].
      rewrite N.add_0_r in F. rewrite F. reflexivity.
    - right; left. apply (find_None_iff L (addr + k) HL Hcur). exact F. }
  pose proof (proj1 (find_Some_iff L (addr + k) i HL Hcur) F) as [Hi Hr].
  set (p := nth i L dreg) in *.
  destruct (proj1 (inv_wf L HL) p (nth_In L dreg Hi)) as [Hpos Hend].
  rewrite (r_to_region_addr_in p (addr + k) Hr).
  unfold In_reg in Hr.
  rewrite psub_Val by lia. cbn [bind]. rewrite psub_Val by lia. cbn [bind].
  destruct (Hf s k i HI Hk Hcur F) as (s' & n & Ef & Hn & HI' & Hst & Hsl1 & Hsl2).
  fold p in Ef, Hn, Hst, Hsl1, Hsl2. cbv zeta in Ef, Hn, Hst, Hsl1, Hsl2.
  set (start := addr + k - fst p) in *. set (len := N.min (snd p - start) (count - k)) in *.
  rewrite Ef. cbn [bind fst snd].
  assert (Hcap : addr + k + (snd p - start) = fst p + snd p) by (unfold start; lia).
  destruct (N.eqb_spec n 0) as [Hn0|Hn0].
  { (* Ok(0) => return Ok(total) *)
    exists s', k. subst n. rewrite N.add_0_r in HI'. split; [|split; [exact HI'|split; [lia|split; [exact Hrun|]]]].
    - unfold ta_result. destruct (N.eqb_spec k 0) as [->|Hk0]; [|reflexivity].
      rewrite N.add_0_r in F. rewrite F. reflexivity.
    - destruct (N.eq_dec len 0) as [Hl0|Hl0].
      + left. unfold len, start in *. lia.
      + right; right; right. apply Hst; [reflexivity|lia]. }
  assert (Hkn : k + n <= count) by (unfold len in *; lia).
  unfold checked_add. destruct (N.ltb_spec (k + n) W64) as [_|Hov]; [|lia].
  assert (Hrun' : forall x, addr <= x < addr + (k + n) -> Mapped L x).
  { intros x Hx. destruct (N.lt_ge_cases x (addr + k)) as [Hlt|Hge]; [apply Hrun; lia|].
    exists p. split; [apply nth_In; exact Hi|]. unfold In_reg. unfold len, start in *. lia. }
  destruct (N.ltb_spec (k + n) count) as [Hlt|Hge].
  - (* more to do *)
    unfold a_overflowing_add, overflowing_add. cbn [fst snd].
    assert (Hle : addr + k + n <= W64) by (unfold len, start in *; lia).
    destruct (N.leb_spec W64 (addr + k + n)) as [Hw|Hnw]; cbn [negb].
    + (* reached 2^64 exactly: cur wraps to 0 => Ok(total) *)
      assert (Heq : addr + k + n = W64) by lia. rewrite Heq, N.mod_same by (rewrite W64_val; discriminate).
      cbn. exists s', (k + n). split; [|split; [exact HI'|split; [lia|split; [exact Hrun'|]]]].
      * unfold ta_result. destruct (N.eqb_spec (k + n) 0); [lia|reflexivity].
      * right; right; left. lia.
    + rewrite N.mod_small by lia.
      replace (addr + k + n) with (addr + (k + n)) by lia.
      assert (Hfu : (msr (addr + (k + n)) L + slack s' < fu)%nat).
      { destruct (N.eq_dec n len) as [Hnl|Hnl].
        - specialize (Hsl2 Hnl).
          assert (Hfull : addr + (k + n) = fst p + snd p) by (unfold len, start in *; lia).
          pose proof (msr_lt L (addr + k) (addr + (k + n)) i ltac:(lia) Hi) as Hm. fold p in Hm.
          specialize (Hm ltac:(lia)). lia.
        - specialize (Hsl1 ltac:(lia) ltac:(lia)).
          pose proof (msr_le L (addr + k) (addr + (k + n)) ltac:(lia)). lia. }
      destruct (IH s' (k + n) HI' Hkn ltac:(lia) Hrun' Hfu) as (s2 & k2 & E2 & HI2 & Hk2 & Hrun2 & Hstop).
      exists s2, k2. split; [exact E2|split; [exact HI2|split; [lia|split; [exact Hrun2|exact Hstop]]]].
  - assert (Heq : k + n = count) by lia. rewrite Heq, N.eqb_refl.
    exists s', count. rewrite Heq in HI', Hrun'. split; [|split; [exact HI'|split; [lia|split; [exact Hrun'|left; reflexivity]]]].
    unfold ta_result. destruct (N.eqb_spec count 0); [lia|reflexivity].
Qed.
End TA.
End Generic.
