(* LINK L5 (C01 <-> C05/C16, C04).
   Impl/Volatile.v (C01) transcribes the accessor GEOMETRY of volatile_memory.rs over absolute host
   addresses (with the pointer arithmetic, overflow checks, asserts) and Proofs/C01.v proves
   containment.  Impl/Dirty.v (C05/C16) re-codes the same derivations over region-relative offsets
   ([acc]: a_off, a_len, a_kind; [derive]: d_sub ...), Impl/VolMem.v (C04) over heap indices.
   Here the duplicated geometry is proved to AGREE: placing a Dirty.v accessor at host base hb
   gives a Volatile.v accessor ([to_acc]), every Dirty.v request corresponds to a Volatile.v request
   ([to_dop]), and Dirty.derive answers Some a' exactly when Volatile.derive answers Ok with the
   accessor a' placed at hb.  Hence C01's containment holds of the accessors C05/C16 talk about. *)
From VM Require Import Prelude.MachInt Prelude.Outcome.
From VM Require Impl.Volatile Impl.Dirty Impl.VolMem Spec.C01 Proofs.C01 Proofs.C05.
Module V := VM.Impl.Volatile.
Module D := VM.Impl.Dirty.

Definition to_acc (hb : N) (a : D.acc) : V.accessor :=
  match D.a_kind a with
  | D.KSlice => V.ASlice (V.VS (hb + D.a_off a) (D.a_len a))
  | D.KRef => V.ARef (V.VR (hb + D.a_off a) (D.a_len a))
  | D.KArr esz n => V.AArr (V.VA (hb + D.a_off a) n esz)
  end.
(* u8-aligned element type of the given size (geometry does not depend on the alignment) *)
Definition ety_of (sz : N) : V.ety := {| V.e_size := sz; V.e_align := 1 |}.
Definition to_dop (k : D.akind) (d : D.dop) : V.dop :=
  match d with
  | D.DSub o c => V.DSubslice o c
  | D.DOffset c => V.DOffset c
  | D.DSplit mid second => if second then V.DSplitAtHi mid else V.DSplitAtLo mid
  | D.DGetRef o sz => V.DGetRef (ety_of sz) o
  | D.DGetArr o esz n => V.DGetArrayRef (ety_of esz) o n
  | D.DRefAt i => V.DRefAt i
  | D.DToSlice => match k with D.KArr _ _ => V.DArrToSlice | _ => V.DRefToSlice end
  end.

Lemma to_dop_wf k d : Spec.C01.op_wf (to_dop k d).
Proof. destruct d; cbn; try exact I. - destruct second; exact I. - destruct k; exact I. Qed.

Lemma d_sub_Some a o c k a' : D.d_sub a o c k = Some a' <->
  o + c <= D.a_len a /\ o + c < W64 /\
  a' = {| D.a_off := D.a_off a + o; D.a_len := c; D.a_bm := D.bm_at (D.a_bm a) o; D.a_kind := k |}.
Proof.
  unfold D.d_sub. destruct (checked_add o c) as [e|] eqn:E.
  - apply checked_add_Some in E. destruct E as [-> He].
    destruct (N.ltb_spec (D.a_len a) (o + c)); split.
    + discriminate. + intros (G1 & _); lia.
    + intros H0; inversion H0; subst. repeat split; try lia.
    + intros (_ & _ & ->). reflexivity.
  - apply checked_add_None in E. split; [discriminate|]. intros (_ & G1 & _). lia.
Qed.

(* one step, forward: what Dirty.v derives is what the request designates in C01's terms *)
Lemma derive_link_fwd hb a d a' : Proofs.C05.kind_ok a -> D.derive a d = Some a' ->
  Spec.C01.fits (to_acc hb a) (to_dop (D.a_kind a) d) /\
  to_acc hb a' = Spec.C01.child (to_acc hb a) (to_dop (D.a_kind a) d).
Proof.
  intros Hk H. unfold Proofs.C05.kind_ok in Hk. unfold D.derive in H. unfold to_acc at 1 3.
  destruct (D.a_kind a) as [| |esz n] eqn:K; destruct d; try discriminate; cbn [to_dop].
  - apply d_sub_Some in H. destruct H as (H1 & H2 & ->). unfold to_acc; cbn. split; [lia|]. rewrite N.add_assoc. reflexivity.
  - destruct (checked_sub (D.a_len a) c) as [l|] eqn:E; [|discriminate]. apply checked_sub_Some in E. destruct E as [-> Hc].
    inversion H; subst. unfold to_acc; cbn. split; [lia|]. rewrite N.add_assoc. reflexivity.
  - destruct (checked_sub (D.a_len a) mid) as [l|] eqn:E; [|discriminate]. apply checked_sub_Some in E. destruct E as [-> Hc].
    destruct second; inversion H; subst; unfold to_acc; cbn; (split; [lia|]); rewrite ?N.add_assoc; reflexivity.
  - apply d_sub_Some in H. destruct H as (H1 & H2 & ->). unfold to_acc; cbn. split; [lia|]. rewrite N.add_assoc. reflexivity.
  - destruct (N.ltb_spec ISZ_MAX n); [discriminate|]. destruct (N.ltb_spec ISZ_MAX (n * esz)); [discriminate|]. cbn [orb] in H.
    apply d_sub_Some in H. destruct H as (G1 & G2 & ->). unfold to_acc; cbn. split; [lia|]. rewrite N.add_assoc. reflexivity.
  - inversion H; subst. unfold to_acc; cbn. split; [exact I|reflexivity].
  - destruct (N.ltb_spec i n); [|discriminate]. inversion H; subst. unfold to_acc; cbn. split; [assumption|].
    rewrite N.add_assoc. reflexivity.
  - inversion H; subst. unfold to_acc; cbn. split; [exact I|]. rewrite Hk. reflexivity.
Qed.

(* one step, backward: a request C01 grants is one Dirty.v grants *)
Lemma derive_link_bwd hb a d : Spec.C01.acc_valid (to_acc hb a) ->
  Spec.C01.fits (to_acc hb a) (to_dop (D.a_kind a) d) -> exists a', D.derive a d = Some a'.
Proof.
  unfold Spec.C01.acc_valid, to_acc, D.derive.
  destruct (D.a_kind a) as [| |esz n] eqn:K; destruct d as [o c|c|mid second|o sz|o esz' n'|i|];
    try destruct second; cbn; try tauto; intros [Hv1 Hv2] Hf.
  - eexists. apply d_sub_Some. split; [exact Hf|]. split; [lia|reflexivity].
  - destruct (checked_sub (D.a_len a) c) as [l|] eqn:E; [eauto|]. apply checked_sub_None in E. lia.
  - destruct (checked_sub (D.a_len a) mid) as [l|] eqn:E; [eauto|apply checked_sub_None in E; lia].
  - destruct (checked_sub (D.a_len a) mid) as [l|] eqn:E; [eauto|apply checked_sub_None in E; lia].
  - eexists. apply d_sub_Some. split; [exact Hf|]. split; [lia|reflexivity].
  - destruct Hf as (G1 & G2 & G3).
    destruct (N.ltb_spec ISZ_MAX n'); [lia|]. destruct (N.ltb_spec ISZ_MAX (n' * esz')); [lia|]. cbn [orb].
    eexists. apply d_sub_Some. split; [exact G1|]. split; [lia|reflexivity].
  - eauto.
  - destruct (N.ltb_spec i n); [eauto|lia].
  - eauto.
Qed.

(* THE LINK: Dirty.derive and Volatile.derive agree, in both build profiles *)
Lemma derive_agree m hb a d : Proofs.C05.kind_ok a -> Spec.C01.acc_valid (to_acc hb a) ->
  (forall a', D.derive a d = Some a' ->
     V.derive m (to_acc hb a) (to_dop (D.a_kind a) d) = Val (V.Ok (to_acc hb a'))) /\
  (forall c, V.derive m (to_acc hb a) (to_dop (D.a_kind a) d) = Val (V.Ok c) ->
     exists a', D.derive a d = Some a' /\ to_acc hb a' = c).
Proof.
  intros Hk Hv. pose proof (to_dop_wf (D.a_kind a) d) as Hw. split.
  - intros a' H. apply (Proofs.C01.derive_child_lemma m _ _ _ Hv Hw). exact (derive_link_fwd hb a d a' Hk H).
  - intros c H. apply (Proofs.C01.derive_child_lemma m _ _ _ Hv Hw) in H. destruct H as [Hf ->].
    destruct (derive_link_bwd hb a d Hv Hf) as (a' & E). exists a'. split; [exact E|].
    exact (proj2 (derive_link_fwd hb a d a' Hk E)).
Qed.

Lemma kind_ok_derive a d a' : Proofs.C05.kind_ok a -> D.derive a d = Some a' -> Proofs.C05.kind_ok a'.
Proof.
  unfold Proofs.C05.kind_ok, D.derive. intros Hk H.
  destruct (D.a_kind a) as [| |esz n] eqn:K; destruct d; try discriminate.
  - apply d_sub_Some in H. destruct H as (_ & _ & ->). exact I.
  - destruct (checked_sub (D.a_len a) c); [|discriminate]. inversion H; subst. exact I.
  - destruct (checked_sub (D.a_len a) mid); [|discriminate]. destruct second; inversion H; subst; exact I.
  - apply d_sub_Some in H. destruct H as (_ & _ & ->). exact I.
  - destruct ((ISZ_MAX <? n) || (ISZ_MAX <? n * esz)); [discriminate|].
    apply d_sub_Some in H. destruct H as (_ & _ & ->). reflexivity.
  - inversion H; subst. exact I.
  - destruct (i <? n); [|discriminate]. inversion H; subst. exact I.
  - inversion H; subst. exact I.
Qed.

(* the Volatile.v request list a Dirty.v derivation chain corresponds to (the kind of the
   accessor decides which to_slice is meant) *)
Fixpoint to_ops (a : D.acc) (ds : list D.dop) {struct ds} : list V.dop :=
  match ds with
  | [] => []
  | d :: r => to_dop (D.a_kind a) d :: match D.derive a d with Some a1 => to_ops a1 r | None => [] end
  end.

Lemma to_ops_wf ds : forall a, Forall Spec.C01.op_wf (to_ops a ds).
Proof.
  induction ds as [|d ds IH]; intros a; cbn [to_ops]; constructor; [apply to_dop_wf|].
  destruct (D.derive a d); [apply IH|constructor].
Qed.

(* chains of any depth agree *)
Lemma chain_agree m hb ds : forall a a', Proofs.C05.kind_ok a -> Spec.C01.acc_valid (to_acc hb a) ->
  D.derive_chain a ds = Some a' ->
  V.derive_chain m (to_acc hb a) (to_ops a ds) = Val (V.Ok (to_acc hb a')).
Proof.
  induction ds as [|d ds IH]; intros a a' Hk Hv H; cbn [D.derive_chain to_ops V.derive_chain] in *.
  - inversion H; subst. reflexivity.
  - destruct (D.derive a d) as [a1|] eqn:E; [|discriminate].
    rewrite (proj1 (derive_agree m hb a d Hk Hv) a1 E). cbn [bind].
    apply IH; [exact (kind_ok_derive a d a1 Hk E)| |exact H].
    pose proof (proj1 (derive_agree m hb a d Hk Hv) a1 E) as E1.
    exact (proj2 (proj2 (Proofs.C01.derive_contained_flat m _ _ _ Hv (to_dop_wf _ _) E1))).
Qed.

(* C01's containment, transferred: the accessor an operation of C05/C16 (or, through the same
   geometry, C04) uses after ANY derivation chain from a region's root slice designates only host
   bytes of that region *)
Lemma chain_contained_transfer hb (r : D.region) ds a :
  hb + D.r_size r < W64 -> D.r_size r <= ISZ_MAX ->
  D.derive_chain (D.root r) ds = Some a ->
  V.acc_base (to_acc hb a) = hb + D.a_off a /\ V.acc_len (to_acc hb a) = D.a_len a /\
  hb <= hb + D.a_off a /\ hb + D.a_off a + D.a_len a <= hb + D.r_size r /\
  Spec.C01.acc_valid (to_acc hb a).
Proof.
  intros H1 H2 H.
  assert (Hv : Spec.C01.acc_valid (to_acc hb (D.root r))).
  { unfold Spec.C01.acc_valid, to_acc, D.root; cbn. lia. }
  assert (Hk : Proofs.C05.kind_ok (D.root r)) by exact I.
  pose proof (chain_agree Debug hb ds (D.root r) a Hk Hv H) as E.
  destruct (Proofs.C01.chain_contained_flat _ Debug _ _ Hv (to_ops_wf ds (D.root r)) E) as (A & B & C).
  assert (Hka : Proofs.C05.kind_ok a).
  { clear - Hk H. revert H Hk. generalize (D.root r). induction ds as [|d ds IH]; intros a0 H Hk; cbn [D.derive_chain] in H.
    - inversion H; subst; exact Hk.
    - destruct (D.derive a0 d) as [a1|] eqn:E; [|discriminate]. exact (IH a1 H (kind_ok_derive a0 d a1 Hk E)). }
  assert (Eb : V.acc_base (to_acc hb a) = hb + D.a_off a) by (unfold to_acc; destruct (D.a_kind a); reflexivity).
  assert (El : V.acc_len (to_acc hb a) = D.a_len a).
  { unfold to_acc. unfold Proofs.C05.kind_ok in Hka. destruct (D.a_kind a); cbn; try reflexivity. symmetry. exact Hka. }
  rewrite Eb in A, B. rewrite El in B.
  change (to_acc hb (D.root r)) with (V.ASlice (V.VS (hb + 0) (D.r_size r))) in A, B.
  cbn [V.acc_base V.acc_len V.vs_addr V.vs_size] in A, B.
  repeat split; try assumption; lia.
Qed.

(* ------------------------------------------------------------------ VolMem.v (C04): heap-index slices *)
Definition vm_acc (hb : N) (s : VolMem.vslice) : V.vslice := V.VS (hb + VolMem.vs_addr s) (VolMem.vs_size s).

Lemma volmem_subslice_agree m hb s o c : Spec.C01.acc_valid (V.ASlice (vm_acc hb s)) ->
  match VolMem.vs_subslice s o c with
  | VolMem.Ok s' => V.vs_subslice m (vm_acc hb s) o c = Val (V.Ok (vm_acc hb s'))
  | VolMem.Err _ => exists e, V.vs_subslice m (vm_acc hb s) o c = Val (V.Err e)
  end.
Proof.
  unfold Spec.C01.acc_valid, vm_acc; cbn. intros [H1 H2].
  unfold VolMem.vs_subslice, VolMem.compute_end_offset, VolMem.compute_offset,
         V.vs_subslice, V.compute_end_offset, V.compute_offset, V.vs_len; cbn [V.vs_size V.vs_addr].
  destruct (checked_add o c) as [e|] eqn:E; [|eauto].
  apply checked_add_Some in E. destruct E as [-> He].
  destruct (N.ltb_spec (VolMem.vs_size s) (o + c)); [eauto|].
  unfold V.ptr_add, vm_acc; cbn. rewrite N.mod_small by lia. rewrite N.add_assoc. reflexivity.
Qed.

Lemma volmem_offset_agree m hb s c : Spec.C01.acc_valid (V.ASlice (vm_acc hb s)) ->
  match VolMem.vs_offset hb s c with
  | VolMem.Ok s' => V.vs_offset m (vm_acc hb s) c = Val (V.Ok (vm_acc hb s'))
  | VolMem.Err _ => exists e, V.vs_offset m (vm_acc hb s) c = Val (V.Err e)
  end.
Proof.
  unfold Spec.C01.acc_valid, vm_acc; cbn. intros [H1 H2].
  unfold VolMem.vs_offset, V.vs_offset; cbn [V.vs_size V.vs_addr].
  destruct (checked_add (hb + VolMem.vs_addr s) c) as [e|] eqn:E; [|eauto].
  destruct (checked_sub (VolMem.vs_size s) c) as [l|] eqn:E2; [|eauto].
  apply checked_sub_Some in E2. destruct E2 as [-> Hc].
  unfold V.ptr_add, vm_acc; cbn. rewrite N.mod_small by lia. rewrite N.add_assoc. reflexivity.
Qed.

Lemma volmem_agree m hb s : Spec.C01.acc_valid (V.ASlice (vm_acc hb s)) ->
  (forall o c, match VolMem.vs_subslice s o c with
     | VolMem.Ok s' => V.vs_subslice m (vm_acc hb s) o c = Val (V.Ok (vm_acc hb s'))
     | VolMem.Err _ => exists e, V.vs_subslice m (vm_acc hb s) o c = Val (V.Err e) end) /\
  (forall c, match VolMem.vs_offset hb s c with
     | VolMem.Ok s' => V.vs_offset m (vm_acc hb s) c = Val (V.Ok (vm_acc hb s'))
     | VolMem.Err _ => exists e, V.vs_offset m (vm_acc hb s) c = Val (V.Err e) end).
Proof.
  intros H. split; [intros o c; apply volmem_subslice_agree; exact H|intros c; apply volmem_offset_agree; exact H].
Qed.
