(* C15xm (0.7.w9): the checker ok_C15xm holds on the model, and what the model's Xen back ends ask the kernel /
   the hypervisor interface for. *)
From VM Require Import Prelude.MachInt Prelude.Outcome Prelude.Tok Impl.MmapBuild Impl.Xen Spec.C15 Suite.C15
  Suite.C15xu Spec.C15xm Suite.C15xm Proofs.C15XenOk.

Lemma foreign_hasbit b : is_foreign b = hasbit b 1.
Proof.
  unfold is_foreign, contains, hasbit, XF_FOREIGN.
  replace (N.land b 1) with (b mod 2) by (change 1 with (N.ones 1); rewrite N.land_ones; reflexivity).
  assert (L : b mod 2 < 2) by (apply N.mod_lt; discriminate).
  remember (b mod 2) as r eqn:Hr. clear Hr. destruct r as [|[p|p|]]; try lia; reflexivity.
Qed.

Lemma hasbit_lor_shared fl : hasbit (N.lor fl MAP_SHARED) 1 = true.
Proof.
  unfold hasbit, MAP_SHARED. rewrite N.land_lor_distr_l. change (N.land 1 1) with 1.
  destruct (N.eqb_spec (N.lor (N.land fl 1) 1) 0) as [E|E]; [|reflexivity].
  apply N.lor_eq_0_iff in E. destruct E; discriminate.
Qed.

Lemma pages_cnt m ps size cnt tot : 0 < ps -> pages m ps size = Val (cnt, tot) ->
  size <= cnt * ps /\ cnt * ps < size + ps.
Proof.
  intros Hp. unfold pages, pdiv. destruct (N.eqb_spec ps 0); [lia|]. cbn [bind].
  assert (E : size = ps * (size / ps) + size mod ps) by (apply N.div_mod; lia).
  assert (L : size mod ps < ps) by (apply N.mod_lt; lia).
  remember (size / ps) as d. remember (size mod ps) as r.
  unfold pmul.
  destruct (N.ltb_spec 0 r);
    match goal with |- context [?a <? W64] => destruct (a <? W64) end; destruct m; cbn [bind];
    intros HH; inversion HH; subst cnt; nia.
Qed.

Lemma frames_from_pfns n : forall b i, frames_from (b + i) (foreign_pfns b i n) = true.
Proof.
  induction n as [|n IH]; intros b i; cbn [foreign_pfns frames_from]; [reflexivity|].
  rewrite N.eqb_refl, <- N.add_assoc. apply IH.
Qed.
Lemma pfns_length n : forall b i, length (foreign_pfns b i n) = n.
Proof. induction n as [|n IH]; intros b i; cbn [foreign_pfns length]; [reflexivity|]. rewrite IH. reflexivity. Qed.

(* ------------------------------------------------------------------ what a successful back end logged *)
Lemma xnew_shape m o c f k mp l : os_page o = cx_page c ->
  xen_new m o (range_e c) = Val (Ok (f, k, mp), l) ->
  f = cx_mflags c /\
  if is_foreign f then
    exists cnt tot, pages m (cx_page c) (cx_size c) = Val (cnt, tot) /\ mp = Some (tot, 0) /\
      l = [EvMmap tot (eprot c) (N.lor (eflags c) MAP_SHARED) true 0 true; EvIoctlForeign cnt true]
  else
    (forall b, fev_of c b l = []) /\ (forall x, mp = Some x -> last_mmap l = Some (eprot c, eflags c)).
Proof.
  intros OP. unfold xen_new. cbn [range_e x_mflags].
  unfold from_bits. destruct (N.ldiff (cx_mflags c) XF_KNOWN =? 0); [|discriminate].
  destruct (negb (is_valid (cx_mflags c))); [discriminate|].
  destruct (is_foreign (cx_mflags c)) eqn:FO.
  - unfold xforeign_new. cbn [range_e x_file x_prot x_flags x_size x_addr ok_or]. rewrite OP.
    unfold validate_file. destruct (cx_file c) as [[fl s]|]; [|discriminate].
    destruct (N.eqb_spec s 0) as [S0|S0]; cbn [negb]; [subst s|discriminate].
    destruct (pages m (cx_page c) (cx_size c)) as [[cnt tot]| |] eqn:PG; cbn [bind]; try discriminate.
    unfold mmap_unix. destruct (os_mmap_ok o); [|discriminate].
    destruct (pdiv 628 (cx_addr c) (cx_page c)); cbn [bind]; try discriminate.
    destruct (os_ioctl_ok o); intros H; inversion H; subst.
    split; [reflexivity|]. rewrite FO. exists cnt, tot. auto.
  - destruct (is_grant (cx_mflags c)).
    + unfold xgrant_new. cbn [range_e x_file x_prot x_flags x_size x_addr ok_or].
      destruct (validate_file _); [|discriminate].
      destruct (mmap_in_advance (cx_mflags c)).
      * unfold mmap_range.
        destruct (pages m (os_page o) (cx_size c)) as [[cnt tot]| |]; cbn [bind]; try discriminate.
        destruct (grant_ref (os_page o) (cx_addr c)) as [g| |]; cbn [bind]; try discriminate.
        destruct (os_ioctl_ok o && (0 <? cnt mod 4294967296)); cbn [bind]; [|discriminate].
        unfold mmap_unix. destruct (os_mmap_ok o); cbn [bind]; intros H; inversion H; subst.
        split; [reflexivity|]. rewrite FO. split; [reflexivity|]. intros x _. reflexivity.
      * cbn [bind]. intros H; inversion H; subst. split; [reflexivity|]. rewrite FO.
        split; [reflexivity|]. intros x X; discriminate X.
    + unfold xunix_new. cbn [range_e x_file x_prot x_flags x_size x_addr ok_or].
      destruct (cx_file c) as [[fl s]|].
      * unfold check_file_offset.
        destruct (checked_add s (cx_size c)); [|discriminate].
        match goal with |- context [if ?b then _ else _] => destruct b end; try discriminate.
        unfold mmap_unix. destruct (os_mmap_ok o); cbn [bind app]; intros H; inversion H; subst.
        split; [reflexivity|]. rewrite FO. split; [reflexivity|]. intros x _. reflexivity.
      * unfold mmap_unix. destruct (os_mmap_ok o); cbn [bind app]; intros H; inversion H; subst.
        split; [reflexivity|]. rewrite FO. split; [reflexivity|]. intros x _. reflexivity.
Qed.

(* ------------------------------------------------------------------ the checker on the model *)
Lemma okm_err c probe code fev : code <> 0 -> ok_C15xm c (obs_err_m probe code fev) = true.
Proof.
  intros H. unfold ok_C15xm. cbn [om_res obs_err_m]. destruct (N.eqb_spec code 0); [contradiction|reflexivity].
Qed.
Lemma berr_nz e : berr_code e <> 0.
Proof. destruct e; discriminate. Qed.

Lemma rprot_e c : match cx_prot c with Some p => p | None => eprot c end = eprot c.
Proof. unfold eprot. destruct (cx_prot c); reflexivity. Qed.
Lemma rflags_e c : match cx_flags c with Some f => f | None => eflags c end = eflags c.
Proof. unfold eflags. destruct (cx_flags c); reflexivity. Qed.

Lemma built_ok c probe k mp l : 0 < cx_page c ->
  (if is_foreign (cx_mflags c) then
     exists cnt tot, pages (cx_mode c) (cx_page c) (cx_size c) = Val (cnt, tot) /\ mp = Some (tot, 0) /\
       l = [EvMmap tot (eprot c) (N.lor (eflags c) MAP_SHARED) true 0 true; EvIoctlForeign cnt true]
   else
     (forall b, fev_of c b l = []) /\ (forall x, mp = Some x -> last_mmap l = Some (eprot c, eflags c))) ->
  ok_C15xm c (obs_ok_m c probe
                {| xr_size := cx_size c; xr_prot := eprot c; xr_flags := eflags c;
                   xr_file := match cx_file c with Some (_, s) => Some s | None => None end;
                   xr_mflags := cx_mflags c; xr_mdata := cx_mdata c; xr_kind := k; xr_base := cx_addr c;
                   xr_mapped := mp |} l) = true.
Proof.
  intros Hps SH. unfold ok_C15xm, obs_ok_m.
  cbn [om_res om_prot om_flags om_ptrnull om_mprot om_coh1 om_coh2 om_fev xr_size xr_prot xr_flags xr_file
       xr_mflags xr_mapped].
  change (negb (0 =? 0)) with false. cbv iota. rewrite rprot_e, rflags_e, <- foreign_hasbit.
  destruct (is_foreign (cx_mflags c)) eqn:FO.
  - destruct SH as [cnt [tot [PG [-> ->]]]].
    destruct (N.eqb_spec (cx_mflags c) 0) as [Z|_]; [rewrite Z in FO; discriminate FO|].
    cbn [last_mmap fold_left andb orb]. unfold mprot_of. rewrite hasbit_lor_shared.
    rewrite N.eqb_refl. cbn [andb]. change (2 =? 2) with true. cbn [orb andb].
    unfold fev_of, foreign_req. cbn [flat_map app range_of x_mdata x_addr]. rewrite app_nil_r.
    rewrite pfns_length, N2Nat.id, !N.eqb_refl. change (1 =? 1) with true. cbn [andb].
    destruct (pages_cnt _ _ _ _ _ Hps PG) as [B1 B2].
    destruct (N.leb_spec (cx_size c) (cnt * cx_page c)); [|lia].
    destruct (N.ltb_spec (cnt * cx_page c) (cx_size c + cx_page c)); [|lia].
    cbn [andb]. rewrite <- (N.add_0_r (cx_addr c / cx_page c)) at 1. apply frames_from_pfns.
  - destruct SH as [_ LM]. rewrite !andb_true_r. cbn [orb].
    destruct mp as [x|].
    + rewrite (LM x eq_refl). unfold mprot_of. change MAP_SHARED with 1. change MAP_ANONYMOUS with 32.
      rewrite N.eqb_refl. cbn [andb].
      match goal with |- context [if ?t then (if hasbit (eflags c) 32 then 0 else 1) else 2] => destruct t end;
        destruct (hasbit (eflags c) 32); destruct (hasbit (eflags c) 1); reflexivity.
    + change (N.land 16 3 =? 3) with false. rewrite !andb_false_r. reflexivity.
Qed.

Lemma C15xm_model_ok_lemma : forall c probe, 0 < cx_page c -> ok_C15xm c (run_C15xm c probe) = true.
Proof.
  intros c probe Hps. unfold run_C15xm. rewrite construct_form.
  destruct (fixed_x c). { apply okm_err. discriminate. }
  destruct (xen_new (cx_mode c) (os_of_x c probe) (range_e c)) as [[[[[f k] mp]|e] l]| |] eqn:XN; cbn [bind];
    try (apply okm_err; (apply berr_nz || discriminate)).
  destruct (xnew_shape (cx_mode c) (os_of_x c probe) c f k mp l eq_refl XN) as [Ef SH]. subst f. cbv zeta.
  destruct (cx_base c) as [b|].
  - unfold xen_guest_region_new. cbn [xr_size].
    destruct (checked_add b (cx_size c)).
    + cbn [bind]. rewrite app_nil_r. apply built_ok; assumption.
    + match goal with |- context [xen_drop ?m ?o ?g] => destruct (xen_drop m o g) end; cbn [bind];
        apply okm_err; discriminate.
  - apply built_ok; assumption.
Qed.

(* the frame list of the model's request: n consecutive frames starting at addr / page *)
Lemma foreign_req_frames ps r cnt :
  fst (foreign_req ps r cnt) = x_mdata r mod 65536 /\
  length (snd (foreign_req ps r cnt)) = N.to_nat cnt /\
  frames_from (x_addr r / ps) (snd (foreign_req ps r cnt)) = true.
Proof.
  unfold foreign_req. cbn [fst snd]. split; [reflexivity|]. split; [apply pfns_length|].
  rewrite <- (N.add_0_r (x_addr r / ps)) at 1. apply frames_from_pfns.
Qed.
