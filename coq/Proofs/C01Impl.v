(* C01, third-party implementors of trait VolatileMemory: the provided methods hand out only
   accessors that lie inside the slice the implementor's get_slice returned - whatever that
   get_slice is.  Nothing here is assumed of get_slice except, for containment in the parent,
   that the slices it returns lie in the implementor's own memory. *)
From VM Require Import Prelude.MachInt Prelude.Outcome Prelude.Tok Impl.Volatile Spec.C01 Suite.C01
  Suite.C01impl Proofs.C01.

Local Ltac inv_val H := injection H as H; subst.

(* ------------------------------------------------------------------ shape of every answer,
   for ANY get_slice function (no hypothesis) *)
Definition vm_shape (gs : get_slice_fn) (L : N) (op : dop) (c : accessor) : Prop :=
  match op with
  | DGetSlice off cnt => exists s, gs off cnt = Val (Ok s) /\ c = ASlice s
  | DAsVolatileSlice => exists s, gs 0 L = Val (Ok s) /\ c = ASlice s
  | DGetRef T off =>
      exists s, gs off (e_size T) = Val (Ok s) /\ vs_size s = e_size T /\ c = ARef (VR (vs_addr s) (e_size T))
  | DGetArrayRef T off n =>
      n <= ISZ_MAX /\ n * e_size T <= ISZ_MAX /\
      exists s, gs off (n * e_size T) = Val (Ok s) /\ vs_size s = n * e_size T /\
                c = AArr (VA (vs_addr s) n (e_size T))
  | DAlignedAsRef T off | DAlignedAsMut T off =>
      exists s, gs off (e_size T) = Val (Ok s) /\ vs_size s = e_size T /\ vs_addr s mod e_align T = 0 /\
                c = ATyped (TR (vs_addr s) (e_size T) (e_align T))
  | DGetAtomicRef T off =>
      exists s, gs off (e_size T) = Val (Ok s) /\ vs_size s = e_size T /\ vs_addr s mod e_align T = 0 /\
                c = AAtomic (TR (vs_addr s) (e_size T) (e_align T))
  | _ => False
  end.

Lemma vm_aligned_body_shape site m gs T off t k : e_align T = 2 ^ k ->
  vm_aligned_body site m gs T off = Val (Ok t) ->
  exists s, gs off (e_size T) = Val (Ok s) /\ vs_size s = e_size T /\ vs_addr s mod e_align T = 0 /\
            t = TR (vs_addr s) (e_size T) (e_align T).
Proof.
  intros Hk. unfold vm_aligned_body.
  destruct (gs off (e_size T)) as [[s|e]|p|]; cbn [bind]; try discriminate.
  rewrite Hk, vs_check_alignment_eq. cbn [bind].
  destruct (N.eqb_spec (vs_addr s mod 2 ^ k) 0) as [Ha|Ha]; [|discriminate].
  unfold vs_len. destruct (N.eqb_spec (vs_size s) (e_size T)) as [Hs|Hs]; cbn [passert bind]; [|discriminate].
  intros E. inv_val E. exists s. repeat split; assumption.
Qed.

Lemma derive_vm_shape_lemma : forall m gs L op c, op_wf op ->
  derive_vm m gs L op = Val (Ok c) -> vm_shape gs L op c.
Proof.
  intros m gs L op c Hwf. destruct op; cbn [derive_vm vm_shape]; try discriminate.
  - (* get_slice *)
    rewrite lift_v_Ok. intros (s & E & ->). exists s. split; [assumption|reflexivity].
  - (* as_volatile_slice *)
    unfold vm_as_volatile_slice. destruct (gs 0 L) as [[s|e]|p|]; cbn [bind]; try discriminate.
    intros E. inv_val E. exists s. split; reflexivity.
  - (* get_ref *)
    rewrite lift_v_Ok. intros (r & E & ->). unfold vm_get_ref in E.
    destruct (gs offset (e_size T)) as [[s|e]|p|]; cbn [bind] in E; try discriminate.
    unfold vs_len in E. destruct (N.eqb_spec (vs_size s) (e_size T)) as [Hs|Hs]; cbn [passert bind] in E; [|discriminate].
    inv_val E. exists s. repeat split; assumption.
  - (* get_array_ref *)
    rewrite lift_v_Ok. intros (r & E & ->). unfold vm_get_array_ref, checked_mul_isize in E.
    destruct (N.leb_spec n ISZ_MAX) as [Hn|Hn]; [|discriminate].
    destruct (N.leb_spec (n * e_size T) ISZ_MAX) as [Hb|Hb]; [|discriminate].
    destruct (gs offset (n * e_size T)) as [[s|e]|p|]; cbn [bind] in E; try discriminate.
    unfold vs_len in E.
    destruct (N.eqb_spec (vs_size s) (n * e_size T)) as [Hs|Hs]; cbn [passert bind] in E; [|discriminate].
    inv_val E. repeat split; try assumption. exists s. repeat split; assumption.
  - destruct Hwf as [k Hk]. rewrite lift_v_Ok. intros (t & E & ->).
    destruct (vm_aligned_body_shape _ _ _ _ _ _ k Hk E) as (s & E1 & E2 & E3 & ->).
    exists s. repeat split; assumption.
  - destruct Hwf as [k Hk]. rewrite lift_v_Ok. intros (t & E & ->).
    destruct (vm_aligned_body_shape _ _ _ _ _ _ k Hk E) as (s & E1 & E2 & E3 & ->).
    exists s. repeat split; assumption.
  - destruct Hwf as [k Hk]. rewrite lift_v_Ok. intros (t & E & ->).
    destruct (vm_aligned_body_shape _ _ _ _ _ _ k Hk E) as (s & E1 & E2 & E3 & ->).
    exists s. repeat split; assumption.
Qed.

(* ------------------------------------------------------------------ containment and alignment,
   for every implementor whose get_slice stays inside its own memory *)
Definition gs_contained (gs : get_slice_fn) (A L : N) : Prop :=
  forall off cnt s, gs off cnt = Val (Ok s) -> A <= vs_addr s /\ vs_addr s + vs_size s <= A + L.

(* the bytes an accessor designates lie in [A, A+L) *)
Definition within (A L : N) (c : accessor) : Prop := A <= acc_base c /\ acc_base c + acc_len c <= A + L.

Lemma any_implementor_contained_lemma : forall m gs A L op c, gs_contained gs A L -> op_wf op ->
  derive_vm m gs L op = Val (Ok c) -> within A L c /\ acc_aligned c.
Proof.
  intros m gs A L op c Hin Hwf E. apply derive_vm_shape_lemma in E; [|exact Hwf].
  unfold within.
  destruct op; cbn [vm_shape] in E; try contradiction.
  - destruct E as (s & E & ->). apply Hin in E. cbn [acc_base acc_len acc_aligned]. split; [exact E|exact I].
  - destruct E as (s & E & ->). apply Hin in E. cbn [acc_base acc_len acc_aligned]. split; [exact E|exact I].
  - destruct E as (s & E & Hs & ->). apply Hin in E. cbn [acc_base acc_len acc_aligned vr_addr vr_esz].
    split; [lia|exact I].
  - destruct E as (Hn & Hb & s & E & Hs & ->). apply Hin in E.
    cbn [acc_base acc_len acc_aligned va_addr va_nelem va_esz]. split; [lia|exact I].
  - destruct E as (s & E & Hs & Ha & ->). apply Hin in E.
    cbn [acc_base acc_len acc_aligned tr_addr tr_size tr_align]. split; [lia|exact Ha].
  - destruct E as (s & E & Hs & Ha & ->). apply Hin in E.
    cbn [acc_base acc_len acc_aligned tr_addr tr_size tr_align]. split; [lia|exact Ha].
  - destruct E as (s & E & Hs & Ha & ->). apply Hin in E.
    cbn [acc_base acc_len acc_aligned tr_addr tr_size tr_align]. split; [lia|exact Ha].
Qed.

(* ------------------------------------------------------------------ exactness, for every
   implementor that never returns the requested number of bytes from the wrong place:
   a provided method that yields a typed accessor was asked something that fits, and yields
   exactly the accessor named *)
Definition gs_honest (gs : get_slice_fn) (A L : N) : Prop :=
  forall off cnt s, gs off cnt = Val (Ok s) -> vs_size s = cnt -> off + cnt <= L /\ vs_addr s = A + off.

Definition is_typed_request (op : dop) : bool :=
  match op with
  | DGetRef _ _ | DGetArrayRef _ _ _ | DAlignedAsRef _ _ | DAlignedAsMut _ _ | DGetAtomicRef _ _ => true
  | _ => false
  end.

Lemma any_implementor_exact_lemma : forall m gs A L op c, gs_honest gs A L -> op_wf op ->
  is_typed_request op = true ->
  derive_vm m gs L op = Val (Ok c) -> fits_vm A L op /\ c = child_vm A L op.
Proof.
  intros m gs A L op c Hh Hwf Ht E. apply derive_vm_shape_lemma in E; [|exact Hwf].
  destruct op; cbn [is_typed_request] in Ht; try discriminate; cbn [vm_shape fits_vm child_vm] in *.
  - destruct E as (s & E & Hs & ->). destruct (Hh _ _ _ E Hs) as [H1 H2]. rewrite H2. split; [exact H1|reflexivity].
  - destruct E as (Hn & Hb & s & E & Hs & ->). destruct (Hh _ _ _ E Hs) as [H1 H2]. rewrite H2.
    split; [repeat split; assumption|reflexivity].
  - destruct E as (s & E & Hs & Ha & ->). destruct (Hh _ _ _ E Hs) as [H1 H2]. rewrite H2 in *.
    split; [split; assumption|reflexivity].
  - destruct E as (s & E & Hs & Ha & ->). destruct (Hh _ _ _ E Hs) as [H1 H2]. rewrite H2 in *.
    split; [split; assumption|reflexivity].
  - destruct E as (s & E & Hs & Ha & ->). destruct (Hh _ _ _ E Hs) as [H1 H2]. rewrite H2 in *.
    split; [split; assumption|reflexivity].
Qed.

(* ------------------------------------------------------------------ the three stand-in
   implementors of the harness are contained and honest *)
Lemma impl_gs_contained k A L : gs_contained (impl_gs k A L) A L.
Proof.
  intros off cnt s. unfold impl_gs.
  destruct (N.leb_spec off L) as [Ho|Ho]; [|discriminate].
  destruct (k =? IK_CLAMP); [intros E; inv_val E; cbn [vs_addr vs_size]; lia|].
  destruct (k =? IK_REST); [intros E; inv_val E; cbn [vs_addr vs_size]; lia|].
  destruct (N.leb_spec (off + cnt) L) as [Hc|Hc]; [|discriminate].
  intros E; inv_val E; cbn [vs_addr vs_size]; lia.
Qed.

Lemma impl_gs_honest k A L : gs_honest (impl_gs k A L) A L.
Proof.
  intros off cnt s. unfold impl_gs.
  destruct (N.leb_spec off L) as [Ho|Ho]; [|discriminate].
  destruct (k =? IK_CLAMP); [intros E; inv_val E; cbn [vs_addr vs_size]; lia|].
  destruct (k =? IK_REST); [intros E; inv_val E; cbn [vs_addr vs_size]; lia|].
  destruct (N.leb_spec (off + cnt) L) as [Hc|Hc]; [|discriminate].
  intros E; inv_val E; cbn [vs_addr vs_size]; lia.
Qed.

(* ------------------------------------------------------------------ the chunked implementor:
   every answer of a provided method lies inside ONE chunk *)
Lemma chunk_arith cc gg L off cnt : 1 <= cc -> off + cnt <= L -> cnt <= cc - off mod cc ->
  chunk_phys cc gg off / (cc + gg) = off / cc /\
  chunk_phys cc gg off + cnt <= (off / cc) * (cc + gg) + N.min cc (L - (off / cc) * cc) /\
  chunk_phys cc gg off + cnt <= chunk_span L cc gg.
Proof.
  intros Hc Hl Hn. unfold chunk_phys, chunk_span.
  pose proof (N.div_mod off cc ltac:(lia)) as Hdm.
  pose proof (N.mod_lt off cc ltac:(lia)) as Hr.
  assert (Hq : off / cc <= L / cc) by (apply N.div_le_mono; lia).
  remember (off / cc) as q eqn:Eq. remember (off mod cc) as r eqn:Er. remember (L / cc) as Q eqn:EQ.
  assert (Hqc : q * cc = cc * q) by apply N.mul_comm.
  assert (Hd : q * (cc + gg) = cc * q + q * gg) by (rewrite N.mul_add_distr_l; lia).
  assert (Hrc : r + cnt <= cc) by lia.
  split; [|split].
  - symmetry. apply N.div_unique with (r := r); [lia|]. rewrite (N.mul_comm (cc + gg) q). reflexivity.
  - destruct (N.min_spec cc (L - q * cc)) as [[_ ->]|[_ ->]]; [lia|]. rewrite Hqc. lia.
  - assert (Hm : q * (cc + gg) <= Q * (cc + gg)) by (apply N.mul_le_mono_r; exact Hq).
    rewrite N.mul_add_distr_r, N.mul_1_l. lia.
Qed.

(* the accessor designates cnt bytes starting at the physical place of logical byte off, and they
   lie in the chunk of off *)
Definition chunk_placed (A L cc gg : N) (a : accessor) : Prop :=
  exists off, off + acc_len a <= L /\ acc_len a <= cc - off mod cc /\ acc_base a = A + chunk_phys cc gg off.

Lemma chunk_gs_Ok A L cc gg off cnt s : chunk_gs A L cc gg off cnt = Val (Ok s) ->
  off + vs_size s <= L /\ vs_size s <= cc - off mod cc /\ vs_addr s = A + chunk_phys cc gg off.
Proof.
  unfold chunk_gs. destruct (N.leb_spec (off + cnt) L) as [Hl|Hl]; [|discriminate].
  intros E. inv_val E. cbn [vs_addr vs_size]. repeat split; lia.
Qed.

Lemma chunk_derive_placed_lemma : forall m A L cc gg op c, op_wf op ->
  derive_vm m (chunk_gs A L cc gg) L op = Val (Ok c) -> chunk_placed A L cc gg c /\ acc_aligned c.
Proof.
  intros m A L cc gg op c Hwf E. apply derive_vm_shape_lemma in E; [|exact Hwf].
  unfold chunk_placed.
  destruct op; cbn [vm_shape] in E; try contradiction.
  - destruct E as (s & E & ->). apply chunk_gs_Ok in E. cbn [acc_base acc_len acc_aligned].
    split; [exists offset; exact E|exact I].
  - destruct E as (s & E & ->). apply chunk_gs_Ok in E. cbn [acc_base acc_len acc_aligned].
    split; [exists 0; exact E|exact I].
  - destruct E as (s & E & Hs & ->). apply chunk_gs_Ok in E. cbn [acc_base acc_len acc_aligned vr_addr vr_esz].
    rewrite <- Hs. split; [exists offset; exact E|exact I].
  - destruct E as (Hn & Hb & s & E & Hs & ->). apply chunk_gs_Ok in E.
    cbn [acc_base acc_len acc_aligned va_addr va_nelem va_esz].
    rewrite <- Hs. split; [exists offset; exact E|exact I].
  - destruct E as (s & E & Hs & Ha & ->). apply chunk_gs_Ok in E.
    cbn [acc_base acc_len acc_aligned tr_addr tr_size tr_align].
    rewrite <- Hs. split; [exists offset; exact E|exact Ha].
  - destruct E as (s & E & Hs & Ha & ->). apply chunk_gs_Ok in E.
    cbn [acc_base acc_len acc_aligned tr_addr tr_size tr_align].
    rewrite <- Hs. split; [exists offset; exact E|exact Ha].
  - destruct E as (s & E & Hs & Ha & ->). apply chunk_gs_Ok in E.
    cbn [acc_base acc_len acc_aligned tr_addr tr_size tr_align].
    rewrite <- Hs. split; [exists offset; exact E|exact Ha].
Qed.

(* in closed form: chunk number j, the bytes of the accessor lie in
   [A + j*(c+g), A + j*(c+g) + min(c, L - j*c)) - never in a gap, never in two chunks *)
Lemma chunk_in_one_chunk_lemma : forall m A L cc gg op c, 1 <= cc -> op_wf op ->
  derive_vm m (chunk_gs A L cc gg) L op = Val (Ok c) ->
  exists j, A + j * (cc + gg) <= acc_base c /\
            acc_base c + acc_len c <= A + j * (cc + gg) + N.min cc (L - j * cc).
Proof.
  intros m A L cc gg op c Hc Hwf E.
  destruct (chunk_derive_placed_lemma _ _ _ _ _ _ _ Hwf E) as [(off & H1 & H2 & H3) _].
  destruct (chunk_arith cc gg L off (acc_len c) Hc H1 H2) as (_ & H5 & _).
  exists (off / cc). rewrite H3. unfold chunk_phys in *.
  remember (off / cc) as q. remember (off mod cc) as r. remember (N.min cc (L - q * cc)) as mn.
  remember (q * (cc + gg)) as qs. split; lia.
Qed.

(* ------------------------------------------------------------------ the model satisfies the checker *)
Lemma impl_root_rel ci : wf_caseimpl ci ->
  rel_acc (ci_case ci) (impl_geom (ci_case ci)) 0 (ARegion (RG (c_base (ci_case ci)) (c_len (ci_case ci)))).
Proof.
  intros (Hk & Hb & Hl & _). unfold rel_acc, acc_valid, impl_geom, root_base. rewrite Hk.
  cbn [g_kind g_ridx g_off g_len g_nelem kind_of acc_base acc_len acc_nelem rg_addr rg_size is_slice_root].
  change (is_slice_root RK_FAKE) with true. cbn iota.
  repeat split; try reflexivity; try lia.
Qed.

(* as_volatile_slice on the stand-ins: the whole memory, or all but its last byte *)
Lemma impl_as_slice m k A L c :
  derive_vm m (impl_gs k A L) L DAsVolatileSlice = Val (Ok c) ->
  exists n, n <= L /\ c = ASlice (VS A n).
Proof.
  cbn [derive_vm]. unfold vm_as_volatile_slice, impl_gs.
  destruct (N.leb_spec 0 L) as [_|H0]; [|lia].
  rewrite N.add_0_r, N.sub_0_r, N.add_0_l.
  destruct (k =? IK_CLAMP); [cbn [bind]; intros E; inv_val E; exists (N.min L L); split; [lia|reflexivity]|].
  destruct (k =? IK_REST); [cbn [bind]; intros E; inv_val E; exists L; split; [lia|reflexivity]|].
  destruct (N.leb_spec L L) as [_|H1]; [|lia].
  cbn [bind]. intros E; inv_val E. exists (L - 1). split; [lia|reflexivity].
Qed.

(* one request on a contiguous stand-in (kinds 5, 6, 7) *)
Lemma impl_step_contig ci o : wf_caseimpl ci -> ci_k ci <> IK_CHUNK ->
  let c := ci_case ci in
  let '(ob, st') := impl_step ci o in
  negb (is_own_get_slice o && (o_class ob =? 0)) = true /\
  step_ok c (impl_geom c) o ob = true /\ rel c (step_geom (impl_geom c) o ob) st'.
Proof.
  intros Hwf Hnc c. pose proof (impl_root_rel ci Hwf) as HR. fold c in HR.
  pose proof Hwf as (Hk & Hb & Hl & _). fold c in Hk, Hb, Hl.
  set (root := ARegion (RG (c_base c) (c_len c))) in *.
  unfold impl_step. fold c. fold root.
  assert (Hgs : ci_gs ci = impl_gs (ci_k ci) (c_base c) (c_len c)).
  { unfold ci_gs. destruct (N.eqb_spec (ci_k ci) IK_CHUNK) as [X|_]; [contradiction|reflexivity]. }
  rewrite Hgs.
  destruct (is_own_get_slice o) eqn:Hown.
  { destruct (err_step c (impl_geom c) o 7 ltac:(discriminate)) as [H1 H2]. rewrite H2.
    split; [reflexivity|]. split; [exact H1|exact HR]. }
  cbn [andb negb].
  destruct (dop_of o) as [d|] eqn:E.
  2:{ destruct (err_step c (impl_geom c) o 7 ltac:(discriminate)) as [H1 H2]. rewrite H2.
      split; [reflexivity|]. split; [exact H1|exact HR]. }
  pose proof (dop_of_wf o d E) as Hdwf.
  unfold finish.
  destruct (derive_vm (c_mode c) (impl_gs (ci_k ci) (c_base c) (c_len c)) (c_len c) d) as [[a'|e]|s|] eqn:D.
  - split; [reflexivity|].
    destruct (is_typed_request d) eqn:Ht.
    + (* typed requests: exactly the named accessor *)
      destruct (any_implementor_exact_lemma _ _ _ _ _ _ (impl_gs_honest _ _ _) Hdwf Ht D) as [Hf ->].
      assert (Hf' : fits root d) by exact Hf.
      change (child_vm (c_base c) (c_len c) d) with (child root d).
      pose proof HR as (Hv & _).
      destruct (child_inside root d Hv Hf') as [[Hi1 _] Hvc].
      pose proof HR as (_ & _ & _ & Hoff & _).
      rewrite obs_of_closed by (try assumption; lia).
      apply step_acc_ok; assumption.
    + (* get_slice is excluded, as_volatile_slice is the remaining one *)
      destruct d; cbn [is_typed_request] in Ht; try discriminate; try (cbn [derive_vm] in D; discriminate).
      * (* DGetSlice: is_own_get_slice o = false contradicts dop_of o = DGetSlice *)
        exfalso. unfold dop_of in E. unfold is_own_get_slice in Hown.
        destruct (s_rq o); try discriminate.
      * destruct (impl_as_slice _ _ _ _ _ D) as (n & Hn & ->).
        (* the answer is what as_volatile_slice on a region of n bytes at the same base names *)
        assert (Ho : s_rq o = QAsVolatileSlice).
        { unfold dop_of in E. destruct (s_rq o); try discriminate. reflexivity. }
        unfold obs_of, step_ok, step_geom, impl_geom, root_base. rewrite Hk.
        change (is_slice_root RK_FAKE) with true. cbn iota.
        cbn [acc_guard vs_ptr_guard pg_addr pg_len vs_len vs_addr vs_size acc_base acc_len acc_nelem
             o_class o_off o_len o_glen o_nelem o_ridx g_kind g_ridx g_off g_len g_esz g_nelem].
        rewrite Ho. cbn [result_kind is_vm N.eqb].
        unfold wrapping_sub. rewrite N.leb_refl, N.sub_diag.
        split.
        -- unfold fitsb, containedb, alignedb, obs_reach, obs_extent. rewrite Ho.
           cbn [kind_eqb orb andb g_kind g_ridx g_off g_len o_ridx o_off o_len o_glen N.eqb].
           assert (Hg : (n =? GUARD_PANIC) = false).
           { apply N.eqb_neq. unfold GUARD_PANIC. lia. }
           rewrite Hg, N.max_id. change (0 =? 0) with true. change (0 <=? 0) with true. cbn iota. cbn [andb].
           rewrite N.add_0_l, andb_true_r. apply N.leb_le. exact Hn.
        -- unfold rel, rel_acc, acc_valid, obs_extent, root_base. rewrite Hk.
           change (is_slice_root RK_FAKE) with true. change (0 =? 0) with true. cbn iota.
           cbn [g_kind g_ridx g_off g_len g_nelem kind_of acc_base acc_len acc_nelem vs_addr vs_size o_len].
           repeat split; try reflexivity; try lia.
  - destruct (err_step c (impl_geom c) o (class_of_derr e) (class_of_derr_nz e)) as [H1 H2]. rewrite H2.
    split; [reflexivity|]. split; [exact H1|exact HR].
  - destruct (err_step c (impl_geom c) o 5 ltac:(discriminate)) as [H1 H2]. rewrite H2.
    split; [reflexivity|]. split; [exact H1|exact HR].
  - destruct (err_step c (impl_geom c) o 5 ltac:(discriminate)) as [H1 H2]. rewrite H2.
    split; [reflexivity|]. split; [exact H1|exact HR].
Qed.

(* one request on the chunked stand-in (kind 8) *)
Lemma chunk_err ci o cl : cl <> 0 -> chunk_step_ok ci o (err_obs cl) = true.
Proof.
  intros H. unfold chunk_step_ok, err_obs; cbn [o_class].
  destruct (N.eqb_spec cl 0); [contradiction|reflexivity].
Qed.

(* what the checker needs of a request answered with accessor a': kind, fit, extent, alignment *)
Lemma chunk_request_facts c L gs o d a' : dop_of o = Some d -> is_own_get_slice o = false ->
  vm_shape gs L d a' -> (forall off cnt s, gs off cnt = Val (Ok s) -> off + vs_size s <= c_len c) ->
  forall rb ob, ob = closed_obs rb 0 a' -> root_base c 0 + (acc_base a' - rb) = acc_base a' ->
  result_kind KRegion (s_rq o) = Some (kind_of a') /\ chunk_fitsb (c_len c) o = true /\
  obs_extent (kind_of a') o ob = acc_len a' /\ alignedb c (kind_of a') o ob = true.
Proof.
  unfold dop_of, is_own_get_slice. intros E Hown Hs Hgs rb ob -> Hrb.
  unfold chunk_fitsb, obs_extent, alignedb, elem_size, closed_obs.
  cbn [o_class o_off o_len o_glen o_nelem o_ridx].
  destruct (s_rq o); try discriminate; inversion E; subst d; cbn [vm_shape] in Hs; try contradiction.
  - destruct Hs as (s & E1 & ->). cbn [kind_of result_kind is_vm acc_len kind_eqb orb].
    repeat split.
  - destruct Hs as (s & E1 & Hsz & ->). apply Hgs in E1.
    cbn [kind_of result_kind is_vm acc_len acc_base kind_eqb orb vr_esz ety_of e_size] in *.
    repeat split. apply N.leb_le. lia.
  - destruct Hs as (Hn & Hb & s & E1 & Hsz & ->). apply Hgs in E1.
    cbn [kind_of result_kind is_vm acc_len acc_base acc_nelem kind_eqb orb va_len va_nelem va_esz ety_of e_size] in *.
    repeat split. apply N.leb_le. lia.
  - destruct Hs as (s & E1 & Hsz & Ha & ->). apply Hgs in E1.
    cbn [kind_of result_kind is_vm acc_len acc_base kind_eqb orb tr_addr tr_size ety_of atomic_ety aty_of at_size at_align e_size e_align ref_align] in *.
    repeat split; [apply N.leb_le; lia|]. apply aligned_at_true. rewrite Hrb. exact Ha.
  - destruct Hs as (s & E1 & Hsz & Ha & ->). apply Hgs in E1.
    cbn [kind_of result_kind is_vm acc_len acc_base kind_eqb orb tr_addr tr_size ety_of atomic_ety aty_of at_size at_align e_size e_align ref_align] in *.
    repeat split; [apply N.leb_le; lia|]. apply aligned_at_true. rewrite Hrb. exact Ha.
  - destruct Hs as (s & E1 & Hsz & Ha & ->). apply Hgs in E1.
    cbn [kind_of result_kind is_vm acc_len acc_base kind_eqb orb tr_addr tr_size ety_of atomic_ety aty_of at_size at_align e_size e_align ref_align] in *.
    repeat split; [apply N.leb_le; lia|]. apply aligned_at_true. rewrite Hrb. exact Ha.
Qed.

Lemma impl_step_chunk ci o : wf_caseimpl ci -> ci_k ci = IK_CHUNK ->
  let c := ci_case ci in
  let '(ob, st') := impl_step ci o in
  chunk_step_ok ci o ob = true /\ rel c (step_geom (impl_geom c) o ob) st'.
Proof.
  intros Hwf Hch c. pose proof (impl_root_rel ci Hwf) as HR. fold c in HR.
  pose proof Hwf as (Hk & Hb & Hl & Hcw). fold c in Hk, Hb, Hl, Hcw.
  destruct (Hcw Hch) as (Hc1 & Hg1 & Hspan).
  set (root := ARegion (RG (c_base c) (c_len c))) in *.
  unfold impl_step. fold c. fold root.
  assert (Hgs : ci_gs ci = chunk_gs (c_base c) (c_len c) (ci_c ci) (ci_g ci)).
  { unfold ci_gs. rewrite Hch, N.eqb_refl. reflexivity. }
  rewrite Hgs.
  destruct (is_own_get_slice o) eqn:Hown.
  { destruct (err_step c (impl_geom c) o 7 ltac:(discriminate)) as [_ H2]. rewrite H2.
    split; [apply chunk_err; discriminate|exact HR]. }
  destruct (dop_of o) as [d|] eqn:E.
  2:{ destruct (err_step c (impl_geom c) o 7 ltac:(discriminate)) as [_ H2]. rewrite H2.
      split; [apply chunk_err; discriminate|exact HR]. }
  pose proof (dop_of_wf o d E) as Hdwf.
  unfold finish.
  destruct (derive_vm (c_mode c) (chunk_gs (c_base c) (c_len c) (ci_c ci) (ci_g ci)) (c_len c) d) as [[a'|e]|s|] eqn:D.
  - destruct (chunk_derive_placed_lemma _ _ _ _ _ _ _ Hdwf D) as [(off & P1 & P2 & P3) _].
    destruct (chunk_arith (ci_c ci) (ci_g ci) (c_len c) off (acc_len a') Hc1 P1 P2) as (A1 & A2 & A3).
    assert (Hrb0 : root_base c 0 = c_base c).
    { unfold root_base. rewrite Hk. reflexivity. }
    assert (Hv : acc_valid a') by (unfold acc_valid; lia).
    rewrite obs_of_closed by (try assumption; rewrite Hrb0; lia).
    rewrite Hrb0.
    set (ob := closed_obs (c_base c) 0 a').
    pose proof (derive_vm_shape_lemma _ _ _ _ _ Hdwf D) as Hshape.
    destruct (chunk_request_facts c (c_len c) _ o d a' E Hown Hshape
                ltac:(intros off0 cnt0 s0 E0; apply chunk_gs_Ok in E0; lia)
                (c_base c) ob eq_refl ltac:(rewrite Hrb0; lia)) as (F1 & F2 & F3 & F4).
    assert (Hreach : obs_reach (kind_of a') o ob = acc_len a').
    { unfold obs_reach. rewrite F3. change (o_glen ob) with (acc_len a').
      destruct (acc_len a' =? GUARD_PANIC); [reflexivity|apply N.max_id]. }
    split.
    + unfold chunk_step_ok. change (o_class ob) with 0. rewrite N.eqb_refl. fold c.
      rewrite F1, Hown, F2, F4, Hreach. change (o_ridx ob) with 0. rewrite N.eqb_refl.
      cbn [negb andb]. rewrite andb_true_r.
      unfold chunk_containedb. change (o_off ob) with (acc_base a' - c_base c).
      replace (acc_base a' - c_base c) with (chunk_phys (ci_c ci) (ci_g ci) off) by lia.
      rewrite A1. apply N.leb_le. exact A2.
    + unfold rel, rel_acc, step_geom, impl_geom. change (o_class ob) with 0. rewrite N.eqb_refl.
      cbn [g_kind]. rewrite F1. cbn [g_kind g_ridx g_off g_len g_nelem]. rewrite F3.
      change (o_ridx ob) with 0. change (o_off ob) with (acc_base a' - c_base c).
      change (o_nelem ob) with (acc_nelem a'). rewrite Hrb0.
      split; [exact Hv|]. repeat split; try reflexivity. lia.
  - destruct (err_step c (impl_geom c) o (class_of_derr e) (class_of_derr_nz e)) as [_ H2]. rewrite H2.
    split; [apply chunk_err; apply class_of_derr_nz|exact HR].
  - destruct (err_step c (impl_geom c) o 5 ltac:(discriminate)) as [_ H2]. rewrite H2.
    split; [apply chunk_err; discriminate|exact HR].
  - destruct (err_step c (impl_geom c) o 5 ltac:(discriminate)) as [_ H2]. rewrite H2.
    split; [apply chunk_err; discriminate|exact HR].
Qed.

Lemma impl_step_all ci o : wf_caseimpl ci ->
  let c := ci_case ci in
  let '(ob, st') := impl_step ci o in
  impl_step_ok ci o ob = true /\ rel c (step_geom (impl_geom c) o ob) st'.
Proof.
  intros Hwf c. unfold impl_step_ok. fold c.
  destruct (N.eqb_spec (ci_k ci) IK_CHUNK) as [Hk|Hk].
  - exact (impl_step_chunk ci o Hwf Hk).
  - pose proof (impl_step_contig ci o Hwf Hk) as H. cbn zeta in H. fold c in H.
    destruct (impl_step ci o) as [ob st']. destruct H as (H0 & H1 & H2).
    rewrite H0, H1. split; [reflexivity|exact H2].
Qed.

Lemma impl_chain_ok_run ci : wf_caseimpl ci ->
  forall ops, impl_chain_ok ci ops (run_impl_chain ci ops) = true.
Proof.
  intros Hwf. induction ops as [|o rest IH]; cbn [run_impl_chain impl_chain_ok]; [reflexivity|].
  pose proof (impl_step_all ci o Hwf) as H. cbn zeta in H.
  destruct (impl_step ci o) as [ob st']. destruct H as (H1 & H2).
  cbn [impl_chain_ok]. rewrite H1. cbn [andb].
  destruct (o_class ob =? 0); [|exact IH].
  apply chain_ok_run; [|exact H2].
  intros Hs. destruct Hwf as (Hk & _). rewrite Hk in Hs. discriminate.
Qed.

Lemma C01impl_model_ok_lemma : forall ci, wf_caseimpl ci -> ok_C01impl ci (run_C01impl ci) = true.
Proof. intros ci Hwf. unfold ok_C01impl, run_C01impl. apply impl_chain_ok_run. exact Hwf. Qed.

(* what an accepting verdict on a chunked case means (about the checker alone): an answer of the
   implementor that is an accessor is observed inside one chunk *)
Lemma chunk_checker_sound_lemma : forall ci o ob, ci_k ci = IK_CHUNK ->
  impl_step_ok ci o ob = true -> o_class ob = 0 ->
  exists rk j, result_kind KRegion (s_rq o) = Some rk /\
    j * (ci_c ci + ci_g ci) <= o_off ob /\
    o_off ob + obs_reach rk o ob <= j * (ci_c ci + ci_g ci) + N.min (ci_c ci) (c_len (ci_case ci) - j * ci_c ci).
Proof.
  intros ci o ob Hk H Hc. unfold impl_step_ok in H. rewrite Hk, N.eqb_refl in H.
  unfold chunk_step_ok in H. rewrite Hc in H. change (0 =? 0) with true in H. cbn iota in H.
  destruct (result_kind KRegion (s_rq o)) as [rk|]; [|discriminate].
  rewrite !andb_true_iff in H. destruct H as ((((_ & _) & _) & H) & _).
  unfold chunk_containedb in H. apply N.leb_le in H.
  exists rk, (o_off ob / (ci_c ci + ci_g ci)). split; [reflexivity|]. split; [|exact H].
  destruct (N.eq_dec (ci_c ci + ci_g ci) 0) as [Z|Z].
  - rewrite Z. lia.
  - rewrite N.mul_comm. apply N.mul_div_le. exact Z.
Qed.

(* non-vacuity: a clamping implementor, an atomic request that does not fit - the provided
   method panics (its length assertion) instead of handing out the accessor *)
Example impl_clamp_refuses :
  derive_vm Release (impl_gs IK_CLAMP 4096 6) 6 (DGetAtomicRef {| e_size := 4; e_align := 4 |} 4) = Panic 264 /\
  derive_vm Release (impl_gs IK_CLAMP 4096 8) 8 (DGetAtomicRef {| e_size := 4; e_align := 4 |} 4)
    = Val (Ok (AAtomic (TR 4100 4 4))).
Proof. split; reflexivity. Qed.

(* the demonstration of seed C01-7: two chunks of 12 bytes, 4 bytes of gap, an AtomicU64 asked
   for at logical offset 8 (4 bytes before the chunk ends): get_slice answers 4 bytes, the
   provided method panics; at offset 0 it is handed out; at 16 (chunk 1, physical offset 20)
   the address 4096+20 is not 8-aligned *)
Example impl_chunk_refuses :
  derive_vm Release (chunk_gs 4096 24 12 4) 24 (DGetAtomicRef {| e_size := 8; e_align := 8 |} 8) = Panic 264 /\
  derive_vm Release (chunk_gs 4096 24 12 4) 24 (DGetAtomicRef {| e_size := 8; e_align := 8 |} 0)
    = Val (Ok (AAtomic (TR 4096 8 8))) /\
  derive_vm Release (chunk_gs 4096 24 12 4) 24 (DGetRef {| e_size := 8; e_align := 8 |} 12)
    = Val (Ok (ARef (VR 4112 8))).
Proof. repeat split; reflexivity. Qed.
