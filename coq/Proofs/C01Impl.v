(* C01, third-party implementors of trait VolatileMemory: the provided methods hand out only
   accessors that lie inside the slice the implementor's get_slice returned - whatever that
   get_slice is.  Nothing here is assumed of get_slice except, for containment in the parent,
   that the slices it returns lie in the implementor's own memory. *)
From VM Require Import Prelude.MachInt Prelude.Outcome Prelude.Tok Impl.Volatile Spec.C01 Suite.C01
  Suite.C01impl Proofs.C01.

Local Ltac inv_val H := injection H as H; subst.

(* ------------------------------------------------------------------ shape of every answer,
   for ANY get_slice function (no hypothesis) *)
Definition vm_shape (gs : get_slice_fn) (L : N) (op : dop) (c : accessor) : Prop :=
  match op with
  | DGetSlice off cnt => exists s, gs off cnt = Val (Ok s) /\ c = ASlice s
  | DAsVolatileSlice => exists s, gs 0 L = Val (Ok s) /\ c = ASlice s
  | DGetRef T off =>
      exists s, gs off (e_size T) = Val (Ok s) /\ vs_size s = e_size T /\ c = ARef (VR (vs_addr s) (e_size T))
  | DGetArrayRef T off n =>
      n <= ISZ_MAX /\ n * e_size T <= ISZ_MAX /\
      exists s, gs off (n * e_size T) = Val (Ok s) /\ vs_size s = n * e_size T /\
                c = AArr (VA (vs_addr s) n (e_size T))
  | DAlignedAsRef T off | DAlignedAsMut T off =>
      exists s, gs off (e_size T) = Val (Ok s) /\ vs_size s = e_size T /\ vs_addr s mod e_align T = 0 /\
                c = ATyped (TR (vs_addr s) (e_size T) (e_align T))
  | DGetAtomicRef T off =>
      exists s, gs off (e_size T) = Val (Ok s) /\ vs_size s = e_size T /\ vs_addr s mod e_align T = 0 /\
                c = AAtomic (TR (vs_addr s) (e_size T) (e_align T))
  | _ => False
  end.

Lemma vm_aligned_body_shape site m gs T off t k : e_align T = 2 ^ k ->
  vm_aligned_body site m gs T off = Val (Ok t) ->
  exists s, gs off (e_size T) = Val (Ok s) /\ vs_size s = e_size T /\ vs_addr s mod e_align T = 0 /\
            t = TR (vs_addr s) (e_size T) (e_align T).
Proof.
  intros Hk. unfold vm_aligned_body.
  destruct (gs off (e_size T)) as [[s|e]|p|]; cbn [bind]; try discriminate.
  rewrite Hk, vs_check_alignment_eq. cbn [bind].
  destruct (N.eqb_spec (vs_addr s mod 2 ^ k) 0) as [Ha|Ha]; [|discriminate].
  unfold vs_len. destruct (N.eqb_spec (vs_size s) (e_size T)) as [Hs|Hs]; cbn [passert bind]; [|discriminate].
  intros E. inv_val E. exists s. repeat split; assumption.
Qed.

Lemma derive_vm_shape_lemma : forall m gs L op c, op_wf op ->
  derive_vm m gs L op = Val (Ok c) -> vm_shape gs L op c.
Proof.
  intros m gs L op c Hwf. destruct op; cbn [derive_vm vm_shape]; try discriminate.
  - (* get_slice *)
    rewrite lift_v_Ok. intros (s & E & ->). exists s. split; [assumption|reflexivity].
  - (* as_volatile_slice *)
    unfold vm_as_volatile_slice. destruct (gs 0 L) as [[s|e]|p|]; cbn [bind]; try discriminate.
    intros E. inv_val E. exists s. split; reflexivity.
  - (* get_ref *)
    rewrite lift_v_Ok. intros (r & E & ->). unfold vm_get_ref in E.
    destruct (gs offset (e_size T)) as [[s|e]|p|]; cbn [bind] in E; try discriminate.
    unfold vs_len in E. destruct (N.eqb_spec (vs_size s) (e_size T)) as [Hs|Hs]; cbn [passert bind] in E; [|discriminate].
    inv_val E. exists s. repeat split; assumption.
  - (* get_array_ref *)
    rewrite lift_v_Ok. intros (r & E & ->). unfold vm_get_array_ref, checked_mul_isize in E.
    destruct (N.leb_spec n ISZ_MAX) as [Hn|Hn]; [|discriminate].
    destruct (N.leb_spec (n * e_size T) ISZ_MAX) as [Hb|Hb]; [|discriminate].
    destruct (gs offset (n * e_size T)) as [[s|e]|p|]; cbn [bind] in E; try discriminate.
    unfold vs_len in E.
    destruct (N.eqb_spec (vs_size s) (n * e_size T)) as [Hs|Hs]; cbn [passert bind] in E; [|discriminate].
    inv_val E. repeat split; try assumption. exists s. repeat split; assumption.
  - destruct Hwf as [k Hk]. rewrite lift_v_Ok. intros (t & E & ->).
    destruct (vm_aligned_body_shape _ _ _ _ _ _ k Hk E) as (s & E1 & E2 & E3 & ->).
    exists s. repeat split; assumption.
  - destruct Hwf as [k Hk]. rewrite lift_v_Ok. intros (t & E & ->).
    destruct (vm_aligned_body_shape _ _ _ _ _ _ k Hk E) as (s & E1 & E2 & E3 & ->).
    exists s. repeat split; assumption.
  - destruct Hwf as [k Hk]. rewrite lift_v_Ok. intros (t & E & ->).
    destruct (vm_aligned_body_shape _ _ _ _ _ _ k Hk E) as (s & E1 & E2 & E3 & ->).
    exists s. repeat split; assumption.
Qed.

(* ------------------------------------------------------------------ containment and alignment,
   for every implementor whose get_slice stays inside its own memory *)
Definition gs_contained (gs : get_slice_fn) (A L : N) : Prop :=
  forall off cnt s, gs off cnt = Val (Ok s) -> A <= vs_addr s /\ vs_addr s + vs_size s <= A + L.

(* the bytes an accessor designates lie in [A, A+L) *)
Definition within (A L : N) (c : accessor) : Prop := A <= acc_base c /\ acc_base c + acc_len c <= A + L.

Lemma any_implementor_contained_lemma : forall m gs A L op c, gs_contained gs A L -> op_wf op ->
  derive_vm m gs L op = Val (Ok c) -> within A L c /\ acc_aligned c.
Proof.
  intros m gs A L op c Hin Hwf E. apply derive_vm_shape_lemma in E; [|exact Hwf].
  unfold within.
  destruct op; cbn [vm_shape] in E; try contradiction.
  - destruct E as (s & E & ->). apply Hin in E. cbn [acc_base acc_len acc_aligned]. split; [exact E|exact I].
  - destruct E as (s & E & ->). apply Hin in E. cbn [acc_base acc_len acc_aligned]. split; [exact E|exact I].
  - destruct E as (s & E & Hs & ->). apply Hin in E. cbn [acc_base acc_len acc_aligned vr_addr vr_esz].
    split; [lia|exact I].
  - destruct E as (Hn & Hb & s & E & Hs & ->). apply Hin in E.
    cbn [acc_base acc_len acc_aligned va_addr va_nelem va_esz]. split; [lia|exact I].
  - destruct E as (s & E & Hs & Ha & ->). apply Hin in E.
    cbn [acc_base acc_len acc_aligned tr_addr tr_size tr_align]. split; [lia|exact Ha].
  - destruct E as (s & E & Hs & Ha & ->). apply Hin in E.
    cbn [acc_base acc_len acc_aligned tr_addr tr_size tr_align]. split; [lia|exact Ha].
  - destruct E as (s & E & Hs & Ha & ->). apply Hin in E.
    cbn [acc_base acc_len acc_aligned tr_addr tr_size tr_align]. split; [lia|exact Ha].
Qed.

(* ------------------------------------------------------------------ exactness, for every
   implementor that never returns the requested number of bytes from the wrong place:
   a provided method that yields a typed accessor was asked something that fits, and yields
   exactly the accessor named *)
Definition gs_honest (gs : get_slice_fn) (A L : N) : Prop :=
  forall off cnt s, gs off cnt = Val (Ok s) -> vs_size s = cnt -> off + cnt <= L /\ vs_addr s = A + off.

Definition is_typed_request (op : dop) : bool :=
  match op with
  | DGetRef _ _ | DGetArrayRef _ _ _ | DAlignedAsRef _ _ | DAlignedAsMut _ _ | DGetAtomicRef _ _ => true
  | _ => false
  end.

Lemma any_implementor_exact_lemma : forall m gs A L op c, gs_honest gs A L -> op_wf op ->
  is_typed_request op = true ->
  derive_vm m gs L op = Val (Ok c) -> fits_vm A L op /\ c = child_vm A L op.
Proof.
  intros m gs A L op c Hh Hwf Ht E. apply derive_vm_shape_lemma in E; [|exact Hwf].
  destruct op; cbn [is_typed_request] in Ht; try discriminate; cbn [vm_shape fits_vm child_vm] in *.
  - destruct E as (s & E & Hs & ->). destruct (Hh _ _ _ E Hs) as [H1 H2]. rewrite H2. split; [exact H1|reflexivity].
  - destruct E as (Hn & Hb & s & E & Hs & ->). destruct (Hh _ _ _ E Hs) as [H1 H2]. rewrite H2.
    split; [repeat split; assumption|reflexivity].
  - destruct E as (s & E & Hs & Ha & ->). destruct (Hh _ _ _ E Hs) as [H1 H2]. rewrite H2 in *.
    split; [split; assumption|reflexivity].
  - destruct E as (s & E & Hs & Ha & ->). destruct (Hh _ _ _ E Hs) as [H1 H2]. rewrite H2 in *.
    split; [split; assumption|reflexivity].
  - destruct E as (s & E & Hs & Ha & ->). destruct (Hh _ _ _ E Hs) as [H1 H2]. rewrite H2 in *.
    split; [split; assumption|reflexivity].
Qed.

(* ------------------------------------------------------------------ the three stand-in
   implementors of the harness are contained and honest *)
Lemma impl_gs_contained k A L : gs_contained (impl_gs k A L) A L.
Proof.
  intros off cnt s. unfold impl_gs.
  destruct (N.leb_spec off L) as [Ho|Ho]; [|discriminate].
  destruct (k =? IK_CLAMP); [intros E; inv_val E; cbn [vs_addr vs_size]; lia|].
  destruct (k =? IK_REST); [intros E; inv_val E; cbn [vs_addr vs_size]; lia|].
  destruct (N.leb_spec (off + cnt) L) as [Hc|Hc]; [|discriminate].
  intros E; inv_val E; cbn [vs_addr vs_size]; lia.
Qed.

Lemma impl_gs_honest k A L : gs_honest (impl_gs k A L) A L.
Proof.
  intros off cnt s. unfold impl_gs.
  destruct (N.leb_spec off L) as [Ho|Ho]; [|discriminate].
  destruct (k =? IK_CLAMP); [intros E; inv_val E; cbn [vs_addr vs_size]; lia|].
  destruct (k =? IK_REST); [intros E; inv_val E; cbn [vs_addr vs_size]; lia|].
  destruct (N.leb_spec (off + cnt) L) as [Hc|Hc]; [|discriminate].
  intros E; inv_val E; cbn [vs_addr vs_size]; lia.
Qed.

(* ------------------------------------------------------------------ the model satisfies the checker *)
Lemma impl_root_rel ci : wf_caseimpl ci ->
  rel_acc (ci_case ci) (impl_geom (ci_case ci)) 0 (ARegion (RG (c_base (ci_case ci)) (c_len (ci_case ci)))).
Proof.
  intros (Hk & Hb & Hl). unfold rel_acc, acc_valid, impl_geom, root_base. rewrite Hk.
  cbn [g_kind g_ridx g_off g_len g_nelem kind_of acc_base acc_len acc_nelem rg_addr rg_size is_slice_root].
  change (is_slice_root RK_FAKE) with true. cbn iota.
  repeat split; try reflexivity; try lia.
Qed.

(* as_volatile_slice on the stand-ins: the whole memory, or all but its last byte *)
Lemma impl_as_slice m k A L c :
  derive_vm m (impl_gs k A L) L DAsVolatileSlice = Val (Ok c) ->
  exists n, n <= L /\ c = ASlice (VS A n).
Proof.
  cbn [derive_vm]. unfold vm_as_volatile_slice, impl_gs.
  destruct (N.leb_spec 0 L) as [_|H0]; [|lia].
  rewrite N.add_0_r, N.sub_0_r, N.add_0_l.
  destruct (k =? IK_CLAMP); [cbn [bind]; intros E; inv_val E; exists (N.min L L); split; [lia|reflexivity]|].
  destruct (k =? IK_REST); [cbn [bind]; intros E; inv_val E; exists L; split; [lia|reflexivity]|].
  destruct (N.leb_spec L L) as [_|H1]; [|lia].
  cbn [bind]. intros E; inv_val E. exists (L - 1). split; [lia|reflexivity].
Qed.

Lemma impl_step_ok ci o : wf_caseimpl ci ->
  let c := ci_case ci in
  let '(ob, st') := impl_step ci o in
  negb (is_own_get_slice o && (o_class ob =? 0)) = true /\
  step_ok c (impl_geom c) o ob = true /\ rel c (step_geom (impl_geom c) o ob) st'.
Proof.
  intros Hwf c. pose proof (impl_root_rel ci Hwf) as HR. fold c in HR.
  pose proof Hwf as (Hk & Hb & Hl). fold c in Hk, Hb, Hl.
  set (root := ARegion (RG (c_base c) (c_len c))) in *.
  unfold impl_step. fold c. fold root.
  destruct (is_own_get_slice o) eqn:Hown.
  { destruct (err_step c (impl_geom c) o 7 ltac:(discriminate)) as [H1 H2]. rewrite H2.
    split; [reflexivity|]. split; [exact H1|exact HR]. }
  cbn [andb negb].
  destruct (dop_of o) as [d|] eqn:E.
  2:{ destruct (err_step c (impl_geom c) o 7 ltac:(discriminate)) as [H1 H2]. rewrite H2.
      split; [reflexivity|]. split; [exact H1|exact HR]. }
  pose proof (dop_of_wf o d E) as Hdwf.
  unfold finish.
  destruct (derive_vm (c_mode c) (impl_gs (ci_k ci) (c_base c) (c_len c)) (c_len c) d) as [[a'|e]|s|] eqn:D.
  - split; [reflexivity|].
    destruct (is_typed_request d) eqn:Ht.
    + (* typed requests: exactly the named accessor *)
      destruct (any_implementor_exact_lemma _ _ _ _ _ _ (impl_gs_honest _ _ _) Hdwf Ht D) as [Hf ->].
      assert (Hf' : fits root d) by exact Hf.
      change (child_vm (c_base c) (c_len c) d) with (child root d).
      pose proof HR as (Hv & _).
      destruct (child_inside root d Hv Hf') as [[Hi1 _] Hvc].
      pose proof HR as (_ & _ & _ & Hoff & _).
      rewrite obs_of_closed by (try assumption; lia).
      apply step_acc_ok; assumption.
    + (* get_slice is excluded, as_volatile_slice is the remaining one *)
      destruct d; cbn [is_typed_request] in Ht; try discriminate; try (cbn [derive_vm] in D; discriminate).
      * (* DGetSlice: is_own_get_slice o = false contradicts dop_of o = DGetSlice *)
        exfalso. unfold dop_of in E. unfold is_own_get_slice in Hown.
        destruct (s_rq o); try discriminate.
      * destruct (impl_as_slice _ _ _ _ _ D) as (n & Hn & ->).
        (* the answer is what as_volatile_slice on a region of n bytes at the same base names *)
        assert (Ho : s_rq o = QAsVolatileSlice).
        { unfold dop_of in E. destruct (s_rq o); try discriminate. reflexivity. }
        unfold obs_of, step_ok, step_geom, impl_geom, root_base. rewrite Hk.
        change (is_slice_root RK_FAKE) with true. cbn iota.
        cbn [acc_guard vs_ptr_guard pg_addr pg_len vs_len vs_addr vs_size acc_base acc_len acc_nelem
             o_class o_off o_len o_glen o_nelem o_ridx g_kind g_ridx g_off g_len g_esz g_nelem].
        rewrite Ho. cbn [result_kind is_vm N.eqb].
        unfold wrapping_sub. rewrite N.leb_refl, N.sub_diag.
        split.
        -- unfold fitsb, containedb, alignedb, obs_reach, obs_extent. rewrite Ho.
           cbn [kind_eqb orb andb g_kind g_ridx g_off g_len o_ridx o_off o_len o_glen N.eqb].
           assert (Hg : (n =? GUARD_PANIC) = false).
           { apply N.eqb_neq. unfold GUARD_PANIC. lia. }
           rewrite Hg, N.max_id. change (0 =? 0) with true. change (0 <=? 0) with true. cbn iota. cbn [andb].
           rewrite N.add_0_l, andb_true_r. apply N.leb_le. exact Hn.
        -- unfold rel, rel_acc, acc_valid, obs_extent, root_base. rewrite Hk.
           change (is_slice_root RK_FAKE) with true. change (0 =? 0) with true. cbn iota.
           cbn [g_kind g_ridx g_off g_len g_nelem kind_of acc_base acc_len acc_nelem vs_addr vs_size o_len].
           repeat split; try reflexivity; try lia.
  - destruct (err_step c (impl_geom c) o (class_of_derr e) (class_of_derr_nz e)) as [H1 H2]. rewrite H2.
    split; [reflexivity|]. split; [exact H1|exact HR].
  - destruct (err_step c (impl_geom c) o 5 ltac:(discriminate)) as [H1 H2]. rewrite H2.
    split; [reflexivity|]. split; [exact H1|exact HR].
  - destruct (err_step c (impl_geom c) o 5 ltac:(discriminate)) as [H1 H2]. rewrite H2.
    split; [reflexivity|]. split; [exact H1|exact HR].
Qed.

Lemma C01impl_model_ok_lemma : forall ci, wf_caseimpl ci -> ok_C01impl ci (run_C01impl ci) = true.
Proof.
  intros ci Hwf. unfold ok_C01impl, run_C01impl.
  destruct (c_ops (ci_case ci)) as [|o rest] eqn:Hops; [reflexivity|].
  pose proof (impl_step_ok ci o Hwf) as H. cbn zeta in H.
  destruct (impl_step ci o) as [ob st']. destruct H as (H0 & H1 & H2).
  rewrite H0. cbn [andb chain_ok]. rewrite H1. cbn [andb].
  apply chain_ok_run; [|exact H2].
  intros Hs. destruct Hwf as (Hk & _). rewrite Hk in Hs. discriminate.
Qed.

(* non-vacuity: a clamping implementor, an atomic request that does not fit - the provided
   method panics (its length assertion) instead of handing out the accessor *)
Example impl_clamp_refuses :
  derive_vm Release (impl_gs IK_CLAMP 4096 6) 6 (DGetAtomicRef {| e_size := 4; e_align := 4 |} 4) = Panic 264 /\
  derive_vm Release (impl_gs IK_CLAMP 4096 8) 8 (DGetAtomicRef {| e_size := 4; e_align := 4 |} 4)
    = Val (Ok (AAtomic (TR 4100 4 4))).
Proof. split; reflexivity. Qed.
