(* C15 - closed form of the builder and of all six constructor calls of the suite and the
   checker-on-model theorem C15_model_ok_lemma. *)
From VM Require Import Prelude.MachInt Prelude.Outcome Prelude.Tok Impl.MmapBuild Impl.Xen Spec.C15 Suite.C15 Proofs.C15.

Definition mmap_ev (q : req) (ok : bool) : ev :=
  EvMmap (q_size q) (q_prot q) (q_flags q) (match q_file q with Some _ => true | None => false end)
         (match q_file q with Some s => s | None => 0 end) ok.

Definition build_result (o : os) (q : req) : res region * list ev :=
  match q_raw q with
  | Some a => if a mod os_page o =? 0 then (Ok (request_region q), []) else (Err InvalidPointer, [])
  | None =>
      if hasbit (q_flags q) 16 then (Err MapFixed, []) else
      match q_file q with
      | Some s =>
          if W64 <=? s + q_size q then (Err InvalidOffsetLength, [])
          else if os_filesize o <? s + q_size q then (Err MappingPastEof, [EvSeekEnd; EvRewind])
          else if os_mmap_ok o then (Ok (request_region q), [EvSeekEnd; EvRewind; mmap_ev q true])
          else (Err MmapErr, [EvSeekEnd; EvRewind; mmap_ev q false])
      | None =>
          if os_mmap_ok o then (Ok (request_region q), [mmap_ev q true])
          else (Err MmapErr, [mmap_ev q false])
      end
  end.

Lemma build_cases m o q k : os_page o = 2 ^ k -> build m o q = Val (build_result o q).
Proof.
  intros Hp. unfold build_result.
  destruct (q_raw q) as [a|] eqn:Hr.
  - rewrite (build_raw_spec m o q k a Hp Hr), Hp. destruct (a mod 2 ^ k =? 0); reflexivity.
  - unfold build, hasbit. rewrite Hr. change MAP_FIXED with 16.
    destruct (negb (N.land (q_flags q) 16 =? 0)); [reflexivity|].
    unfold mmap_ev, request_region. rewrite Hr.
    destruct (q_file q) as [s|].
    + unfold check_file_offset, checked_add.
      destruct (N.ltb_spec (s + q_size q) W64) as [L|L]; destruct (N.leb_spec W64 (s + q_size q)) as [L'|L']; try lia.
      * destruct (os_filesize o <? s + q_size q); [reflexivity|].
        destruct (os_mmap_ok o); reflexivity.
      * reflexivity.
    + destruct (os_mmap_ok o); reflexivity.
Qed.

Definition q_of (c : case15) : req :=
  match c_kind c with
  | 0 => {| q_size := c_size c; q_prot := c_prot c; q_flags := c_flags c; q_file := fstart c; q_raw := c_raw c; q_huge := huge_opt (c_huge c) |}
  | 1 => {| q_size := c_size c; q_prot := N.lor PROT_READ PROT_WRITE;
            q_flags := N.lor (N.lor MAP_ANONYMOUS MAP_NORESERVE) MAP_PRIVATE; q_file := None; q_raw := None; q_huge := None |}
  | 2 => {| q_size := c_size c; q_prot := N.lor PROT_READ PROT_WRITE; q_flags := N.lor MAP_NORESERVE MAP_SHARED;
            q_file := Some (match fstart c with Some s => s | None => 0 end); q_raw := None; q_huge := None |}
  | 3 => {| q_size := c_size c; q_prot := c_prot c; q_flags := c_flags c; q_file := fstart c; q_raw := None; q_huge := None |}
  | 5 => match fstart c with
         | Some s => {| q_size := c_size c; q_prot := N.lor PROT_READ PROT_WRITE;
                        q_flags := N.lor MAP_NORESERVE MAP_SHARED; q_file := Some s; q_raw := None; q_huge := None |}
         | None => {| q_size := c_size c; q_prot := N.lor PROT_READ PROT_WRITE;
                      q_flags := N.lor (N.lor MAP_ANONYMOUS MAP_NORESERVE) MAP_PRIVATE; q_file := None; q_raw := None; q_huge := None |}
         end
  | _ => {| q_size := c_size c; q_prot := c_prot c; q_flags := c_flags c; q_file := None;
            q_raw := Some (match c_raw c with Some a => a | None => 0 end); q_huge := None |}
  end.

Definition post (br : res region * list ev) (base : option N) : res (region * option N) * list ev :=
  match br with
  | (Err e, l) => (Err e, l)
  | (Ok g, l) =>
      match base with
      | None => (Ok (g, None), l)
      | Some b => if W64 <=? b + g_size g then (Err InvalidGuestRegion, l ++ drop_region g)
                  else (Ok (g, Some b), l)
      end
  end.

Definition wf15 (c : case15) : Prop :=
  kind_ok (c_kind c) (match c_file c with Some _ => true | None => false end)
          (match c_raw c with Some _ => true | None => false end)
          (match c_base c with Some _ => true | None => false end) = true.

Lemma kind_cases c : wf15 c ->
  c_kind c = 0 \/ c_kind c = 1 \/ c_kind c = 2 \/ c_kind c = 3 \/ c_kind c = 4 \/ c_kind c = 5.
Proof.
  unfold wf15. destruct (c_kind c) as [|p]; [auto|].
  destruct p as [[p|p|]|[p|p|]|]; try destruct p; cbn [kind_ok]; intros H; try discriminate; auto 10.
Qed.

Lemma guest_new_post g b l :
  (let '(r2, l2) := guest_region_new g b in
   Val (match r2 with Ok (g', b') => Ok (g', Some b') | Err e => Err e end, l ++ l2))
  = Val (post (Ok g, l) (Some b)).
Proof.
  unfold post. destruct (guest_region_new_cases g b) as [[L ->]|[L ->]].
  - destruct (N.leb_spec W64 (b + g_size g)); [lia|]. rewrite app_nil_r. reflexivity.
  - destruct (N.leb_spec W64 (b + g_size g)); [|lia]. reflexivity.
Qed.

Lemma construct_cases c o k : wf15 c -> os_page o = 2 ^ k ->
  construct c o = Val (post (build_result o (q_of c)) (c_base c)).
Proof.
  intros W Hp. pose proof (kind_cases c W) as K. unfold wf15 in W. unfold construct, q_of.
  destruct K as [K|[K|[K|[K|[K|K]]]]]; rewrite K in *; cbn [N.eqb Pos.eqb kind_ok] in *.
  1,2,3,4,5:
    unfold construct_region; rewrite K; unfold mr_new, mr_from_file, mr_build, mr_build_raw;
    erewrite build_cases by exact Hp; cbn [bind];
    match goal with |- context [build_result ?oo ?q] => destruct (build_result oo q) as [[g|e] l] end;
    [destruct (c_base c) as [b|]; [rewrite guest_new_post|]; reflexivity | reflexivity].
  - (* from_range *)
    change (5 =? 5) with true. cbn iota.
    destruct (c_base c) as [b|]; [|rewrite !andb_false_r in W; discriminate].
    unfold from_range, mr_new, mr_from_file.
    destruct (fstart c) as [s|]; erewrite build_cases by exact Hp; cbn [bind];
      match goal with |- context [build_result ?oo ?q] => destruct (build_result oo q) as [[g|e] l] end;
      try reflexivity.
    all: pose proof (guest_new_post g b l) as P;
         destruct (guest_region_new g b) as [[[g' b']|e] l2]; cbn [bind]; cbn in P |- *; rewrite <- P; reflexivity.
Qed.

Lemma q_of_facts c : wf15 c ->
  q_size (q_of c) = c_size c /\ q_raw (q_of c) = c_raw c /\ q_file (q_of c) = fstart c /\
  (if explicit_flags c then q_prot (q_of c) = c_prot c /\ q_flags (q_of c) = c_flags c
   else hasbit (q_flags (q_of c)) 16 = false) /\
  (doc_shared c = true -> fstart c <> None -> hasbit (q_flags (q_of c)) 1 = true).
Proof.
  intros W. pose proof (kind_cases c W) as K. unfold wf15 in W. unfold q_of, explicit_flags, doc_shared, fstart in *.
  destruct K as [K|[K|[K|[K|[K|K]]]]]; rewrite K in *; cbn [N.eqb Pos.eqb kind_ok orb] in *;
    destruct (c_file c) as [[fl s]|]; destruct (c_raw c) as [a|]; cbn [negb andb] in W; try discriminate;
    cbn [q_size q_raw q_file q_prot q_flags]; repeat split; try reflexivity; try discriminate;
    try (intros _ H; exfalso; apply H; reflexivity).
Qed.


(* ------------------------------------------------------------------ the checker, read semantically *)
Lemma ok_err c o : o_res o <> 0 -> In (o_res o) (reasons c) -> o_d2 o = 0 -> ok_C15 c o = true.
Proof.
  intros R I D. unfold ok_C15. destruct (reasons c) as [|r rs] eqn:E; [destruct I|].
  apply mem_iff in I. rewrite I, D. destruct (N.eqb_spec (o_res o) 0); [contradiction|]. reflexivity.
Qed.

Lemma ok_refused c o : c_raw c = None -> o_probe o = 0 -> o_res o = 5 -> o_d2 o = 0 -> ok_C15 c o = true.
Proof.
  intros Hr P R D. unfold ok_C15. rewrite Hr, P, R, D.
  destruct (reasons c); [reflexivity|]. cbn [negb]. rewrite orb_true_r. reflexivity.
Qed.

Lemma ok_accept c o : reasons c = [] -> (c_raw c <> None \/ o_probe o <> 0) ->
  o_res o = 0 -> o_size o = c_size c ->
  (explicit_flags c = true -> o_prot o = c_prot c /\ o_flags o = c_flags c) ->
  match c_file c with
  | Some (_, s) => o_hasfile o = true /\ o_start o = s /\ o_samefd o = true
  | None => o_hasfile o = false end ->
  ((doc_shared c || hasbit (o_flags o) 1) = true -> (o_coh1 o = 1 /\ o_coh2 o = 1) \/ o_coh1 o = 2) ->
  o_huge o = c_huge c ->
  ok_C15 c o = true.
Proof.
  intros E P R S F Fi C HG. unfold ok_C15. rewrite E, R, S, HG, !N.eqb_refl.
  assert (OS : (match c_raw c with Some _ => false | None => o_probe o =? 0 end) = false).
  { destruct (c_raw c); [reflexivity|]. destruct P as [P|P]; [contradiction|].
    destruct (N.eqb_spec (o_probe o) 0); [contradiction|reflexivity]. }
  rewrite OS. cbn [andb].
  assert (X1 : (if explicit_flags c then (o_prot o =? c_prot c) && (o_flags o =? c_flags c) else true) = true).
  { destruct (explicit_flags c); [|reflexivity]. destruct (F eq_refl) as [-> ->]. rewrite !N.eqb_refl. reflexivity. }
  rewrite X1. cbn [andb].
  assert (X2 : (match c_file c with
                | Some (_, start) => o_hasfile o && (o_start o =? start) && o_samefd o
                | None => negb (o_hasfile o) end) = true).
  { destruct (c_file c) as [[fl s]|]; [destruct Fi as [-> [-> ->]]; rewrite N.eqb_refl|rewrite Fi]; reflexivity. }
  rewrite X2. cbn [andb].
  destruct (doc_shared c || hasbit (o_flags o) 1) eqn:DS.
  - destruct (C eq_refl) as [[-> ->] | ->].
    + destruct (c_cohere c && o_hasfile o && true && negb (hasbit (o_flags o) 32) && negb (1 =? 2)); reflexivity.
    + rewrite N.eqb_refl. cbn [negb]. rewrite andb_false_r. reflexivity.
  - rewrite andb_false_r. reflexivity.
Qed.

Definition probe_wf (c : case15) (probe : N) : Prop :=
  probe = 0 \/ probe = 1 \/
  (probe = 2 /\ (c_raw c <> None \/ (explicit_flags c = true /\ hasbit (c_flags c) 16 = true))).

Lemma foot_cancel a : Z.to_N (Z.of_N a + (0 - Z.of_N a)) = 0.
Proof. replace (Z.of_N a + (0 - Z.of_N a))%Z with 0%Z by lia. reflexivity. Qed.

Lemma base_reason c : forall b, c_base c = Some b -> W64 <= b + c_size c -> In 6 (reasons c).
Proof.
  intros b Hb L. unfold reasons. rewrite Hb. apply in_or_app. right.
  destruct (N.leb_spec W64 (b + c_size c)); [left; reflexivity|lia].
Qed.

Lemma hasbit_16_testbit f : hasbit f 16 = negb (negb (N.testbit f 4)).
Proof.
  unfold hasbit. change 16 with (2 ^ 4).
  destruct (N.eqb_spec (N.land f (2 ^ 4)) 0) as [E|E].
  - apply land_pow2_zero in E. rewrite E. reflexivity.
  - destruct (N.testbit f 4) eqn:T; [reflexivity|]. apply land_pow2_zero in T. contradiction.
Qed.

Lemma q_of_huge c : wf15 c -> huge_ok (c_kind c) (c_huge c) = true -> huge_code (q_huge (q_of c)) = c_huge c.
Proof.
  intros W H. pose proof (kind_cases c W) as K. unfold huge_ok in H. apply andb_true_iff in H. destruct H as [H3 H0].
  apply N.ltb_lt in H3. unfold q_of.
  destruct K as [K|[K|[K|[K|[K|K]]]]]; rewrite K in *; cbn [N.eqb Pos.eqb orb] in H0; cbn [q_huge].
  - assert (X : c_huge c = 0 \/ c_huge c = 1 \/ c_huge c = 2) by lia.
    destruct X as [->|[->| ->]]; reflexivity.
  - apply N.eqb_eq in H0. rewrite H0. reflexivity.
  - apply N.eqb_eq in H0. rewrite H0. reflexivity.
  - apply N.eqb_eq in H0. rewrite H0. reflexivity.
  - apply N.eqb_eq in H0. rewrite H0. reflexivity.
  - apply N.eqb_eq in H0. rewrite H0. destruct (fstart c); reflexivity.
Qed.

Lemma C15_model_ok_lemma : forall c probe k, wf15 c -> huge_ok (c_kind c) (c_huge c) = true ->
  c_page c = 2 ^ k -> probe_wf c probe ->
  ok_C15 c (run_C15 c probe) = true.
Proof.
  intros c probe k W HK Hp PW.
  pose proof (q_of_huge c W HK) as HQ.
  destruct (q_of_facts c W) as [F1 [F2 [F3 [F4 F5]]]].
  unfold run_C15. rewrite (construct_cases c (os_of c probe) k W Hp).
  unfold build_result, post, request_region, mmap_ev. rewrite F1, F2, F3.
  unfold os_of. cbn [os_page os_filesize os_mmap_ok].
  remember (q_prot (q_of c)) as qp. remember (q_flags (q_of c)) as qf. remember (q_huge (q_of c)) as qh.
  assert (EX : explicit_flags c = true -> qp = c_prot c /\ qf = c_flags c).
  { intros E. rewrite E in F4. exact F4. }
  unfold probe_wf in PW.
  destruct (c_raw c) as [a|] eqn:Hr.
  - (* external pointer *)
    destruct (N.eqb_spec (a mod c_page c) 0) as [A|A].
    + assert (RS : match c_base c with Some b => W64 <= b + c_size c | None => False end \/ reasons c = []).
      { unfold reasons. rewrite Hr. destruct (N.eqb_spec (a mod c_page c) 0); [|contradiction].
        destruct (c_base c) as [b|]; [|right; reflexivity].
        destruct (N.leb_spec W64 (b + c_size c)); [left; assumption|right; reflexivity]. }
      destruct (c_base c) as [b|] eqn:Hb; cbn [g_size].
      * destruct (N.leb_spec W64 (b + c_size c)) as [B|B].
        -- apply ok_err.
           ++ destruct (c_file c) as [[? ?]|]; cbn; discriminate.
           ++ destruct (c_file c) as [[? ?]|]; cbn [o_res obs_err berr_code]; apply (base_reason c b Hb B).
           ++ destruct (c_file c) as [[? ?]|]; reflexivity.
        -- destruct RS as [RS|RS]; [lia|].
           apply ok_accept; cbn [o_res o_size o_prot o_flags o_hasfile o_start o_samefd o_coh1 o_coh2 o_huge g_huge g_size g_prot g_flags g_file g_owned g_addr]; auto.
           ++ left. rewrite Hr. discriminate.
           ++ unfold fstart. destruct (c_file c) as [[? ?]|]; auto.
           ++ intros _. right. unfold coh_tested. cbn [g_owned]. rewrite andb_false_r. reflexivity.
      * destruct RS as [[]|RS].
        apply ok_accept; cbn [o_res o_size o_prot o_flags o_hasfile o_start o_samefd o_coh1 o_coh2 o_huge g_huge g_size g_prot g_flags g_file g_owned g_addr]; auto.
        -- left. rewrite Hr. discriminate.
        -- unfold fstart. destruct (c_file c) as [[? ?]|]; auto.
        -- intros _. right. unfold coh_tested. cbn [g_owned]. rewrite andb_false_r. reflexivity.
    + apply ok_err.
      * destruct (c_file c) as [[? ?]|]; cbn; discriminate.
      * destruct (c_file c) as [[? ?]|]; cbn [o_res obs_err berr_code]; unfold reasons; rewrite Hr;
          (destruct (N.eqb_spec (a mod c_page c) 0); [contradiction|]); apply in_or_app; left; left; reflexivity.
      * destruct (c_file c) as [[? ?]|]; reflexivity.
  - (* the library maps *)
    assert (FX : hasbit qf 16 = (explicit_flags c && hasbit (c_flags c) 16)).
    { destruct (explicit_flags c) eqn:E.
      - destruct (EX eq_refl) as [_ <-]. reflexivity.
      - rewrite F4. reflexivity. }
    destruct (hasbit qf 16) eqn:HF.
    + (* MAP_FIXED *)
      apply ok_err.
      * destruct (c_file c) as [[? ?]|]; cbn; discriminate.
      * assert (I : In 3 (reasons c)).
        { unfold reasons. rewrite Hr, <- FX. apply in_or_app. left. apply in_or_app. left. left. reflexivity. }
        destruct (c_file c) as [[? ?]|]; exact I.
      * destruct (c_file c) as [[? ?]|]; reflexivity.
    + (* the remaining reasons: file range, guest base *)
      assert (RS : reasons c =
                   match c_file c with
                   | Some (flen, start) =>
                       if W64 <=? start + c_size c then [1] else if flen <? start + c_size c then [4] else []
                   | None => [] end ++
                   match c_base c with
                   | Some b => if W64 <=? b + c_size c then [6] else []
                   | None => [] end).
      { unfold reasons. rewrite Hr, <- FX. reflexivity. }
      assert (PR : (probe =? 1) = false -> probe = 0).
      { intros P. destruct PW as [->|[->|[-> [X|[X Y]]]]]; try reflexivity; try discriminate.
        - contradiction.
        - rewrite X, Y in FX. discriminate. }
      (* what happens once the mmap has been granted: g is the requested region, l ends with the mmap *)
      assert (AFTER : forall l0,
        foot (c_page c) l0 = 0%Z -> reasons c = match c_base c with
                                                 | Some b => if W64 <=? b + c_size c then [6] else []
                                                 | None => [] end ->
        probe = 1 ->
        let g := {| g_addr := None; g_size := c_size c; g_prot := qp; g_flags := qf; g_file := fstart c; g_owned := true;
                    g_huge := qh |} in
        let l := l0 ++ [EvMmap (c_size c) qp qf (match fstart c with Some _ => true | None => false end)
                               (match fstart c with Some s => s | None => 0 end) true] in
        ok_C15 c
          (let '(r, l') := match c_base c with
                           | Some b => if W64 <=? b + g_size g then (Err InvalidGuestRegion, l ++ drop_region g)
                                       else (Ok (g, Some b), l)
                           | None => (Ok (g, None), l) end in
           let pos := match c_file c with Some _ => if has_rewind l' then 0 else 7 | None => 0 end in
           match r with
           | Err e => obs_err probe (berr_code e) pos (Z.to_N (foot (c_page c) l'))
           | Ok (g0, _) =>
               let t := coh_tested c g0 in
               {| o_probe := probe; o_res := 0; o_size := g_size g0; o_prot := g_prot g0; o_flags := g_flags g0;
                  o_hasfile := match g_file g0 with Some _ => true | None => false end;
                  o_start := match g_file g0 with Some s => s | None => 0 end;
                  o_samefd := match g_file g0 with Some _ => true | None => false end;
                  o_owned := g_owned g0;
                  o_ptr := match g_addr g0 with Some a => a | None => 0 end;
                  o_pos := pos;
                  o_d1 := Z.to_N (foot (c_page c) l');
                  o_d2 := Z.to_N (foot (c_page c) (l' ++ drop_region g0));
                  o_coh1 := if t then 1 else 2;
                  o_coh2 := if t then (if hasbit (g_flags g0) MAP_SHARED then 1 else 0) else 2;
                  o_huge := huge_code (g_huge g0) |}
           end) = true).
      { intros l0 FT RB P1 g l. subst g l. cbn [g_size].
        assert (FA : forall a b, foot (c_page c) (a ++ b) = (foot (c_page c) a + foot (c_page c) b)%Z).
        { intros a b. induction a as [|e a IH]; cbn [app foot]; [reflexivity|].
          destruct e as [| |s p f fi off [|]|s|cc ok|gg cc i ok|i cc]; rewrite ?IH; lia. }
        destruct (c_base c) as [b|] eqn:Hb.
        - destruct (N.leb_spec W64 (b + c_size c)) as [B|B].
          + apply ok_err.
            * cbn. discriminate.
            * cbn [o_res obs_err berr_code]. apply (base_reason c b Hb B).
            * cbn [o_d2 obs_err drop_region g_owned g_size]. rewrite !FA, FT. cbn [foot].
              replace (0 + (Z.of_N (round_up (c_size c) (c_page c)) + 0) + (0 - Z.of_N (round_up (c_size c) (c_page c))))%Z with 0%Z by lia.
              reflexivity.
          + apply ok_accept; cbn [o_res o_size o_prot o_flags o_hasfile o_start o_samefd o_coh1 o_coh2 o_probe o_huge g_huge g_size g_prot g_flags g_file g_owned g_addr]; auto.
            * right. rewrite P1. discriminate.
            * unfold fstart. destruct (c_file c) as [[? ?]|]; auto.
            * intros DS. match goal with |- context [coh_tested ?c ?g] => destruct (coh_tested c g) eqn:T end; [left|right; reflexivity].
              split; [reflexivity|]. cbn [g_flags o_flags] in *. change MAP_SHARED with 1.
              apply orb_true_iff in DS. destruct DS as [DS|DS]; [|rewrite DS; reflexivity].
              unfold coh_tested in T. cbn [g_owned g_file g_flags g_prot g_size] in T.
              repeat (apply andb_true_iff in T; let H := fresh "T" in destruct T as [T H]).
              rewrite F5; [reflexivity|exact DS|]. destruct (fstart c); [discriminate|discriminate].
        - apply ok_accept; cbn [o_res o_size o_prot o_flags o_hasfile o_start o_samefd o_coh1 o_coh2 o_probe o_huge g_huge g_size g_prot g_flags g_file g_owned g_addr]; auto.
          + right. rewrite P1. discriminate.
          + unfold fstart. destruct (c_file c) as [[? ?]|]; auto.
          + intros DS. match goal with |- context [coh_tested ?c ?g] => destruct (coh_tested c g) eqn:T end; [left|right; reflexivity].
              split; [reflexivity|]. cbn [g_flags o_flags] in *. change MAP_SHARED with 1.
              apply orb_true_iff in DS. destruct DS as [DS|DS]; [|rewrite DS; reflexivity].
              unfold coh_tested in T. cbn [g_owned g_file g_flags g_prot g_size] in T.
              repeat (apply andb_true_iff in T; let H := fresh "T" in destruct T as [T H]).
              rewrite F5; [reflexivity|exact DS|]. destruct (fstart c); [discriminate|discriminate]. }
      unfold fstart in *.
      destruct (c_file c) as [[fl s]|] eqn:Hf.
      * destruct (N.leb_spec W64 (s + c_size c)) as [O|O].
        -- apply ok_err; [cbn; discriminate| |reflexivity].
           cbn [o_res obs_err berr_code]. rewrite RS. apply in_or_app. left. left. reflexivity.
        -- destruct (N.ltb_spec fl (s + c_size c)) as [E|E].
           ++ apply ok_err; [cbn; discriminate| |reflexivity].
              cbn [o_res obs_err berr_code]. rewrite RS. apply in_or_app. left. left. reflexivity.
           ++ destruct (probe =? 1) eqn:P1.
              ** apply N.eqb_eq in P1. apply (AFTER [EvSeekEnd; EvRewind]); [reflexivity|exact RS|exact P1].
              ** apply ok_refused; [exact Hr|exact (PR eq_refl)|reflexivity|reflexivity].
      * destruct (probe =? 1) eqn:P1.
        -- apply N.eqb_eq in P1. apply (AFTER []); [reflexivity|exact RS|exact P1].
        -- apply ok_refused; [exact Hr|exact (PR eq_refl)|reflexivity|reflexivity].
Qed.
