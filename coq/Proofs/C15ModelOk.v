(* C15 - closed form of the builder and of all six constructor calls of the suite (towards a
   checker-on-model theorem; the final step - ok_C15 on the closed form - is not done). *)
From VM Require Import Prelude.MachInt Prelude.Outcome Prelude.Tok Impl.MmapBuild Impl.Xen Spec.C15 Suite.C15 Proofs.C15.

Definition mmap_ev (q : req) (ok : bool) : ev :=
  EvMmap (q_size q) (q_prot q) (q_flags q) (match q_file q with Some _ => true | None => false end)
         (match q_file q with Some s => s | None => 0 end) ok.

Definition build_result (o : os) (q : req) : res region * list ev :=
  match q_raw q with
  | Some a => if a mod os_page o =? 0 then (Ok (request_region q), []) else (Err InvalidPointer, [])
  | None =>
      if hasbit (q_flags q) 16 then (Err MapFixed, []) else
      match q_file q with
      | Some s =>
          if W64 <=? s + q_size q then (Err InvalidOffsetLength, [])
          else if os_filesize o <? s + q_size q then (Err MappingPastEof, [EvSeekEnd; EvRewind])
          else if os_mmap_ok o then (Ok (request_region q), [EvSeekEnd; EvRewind; mmap_ev q true])
          else (Err MmapErr, [EvSeekEnd; EvRewind; mmap_ev q false])
      | None =>
          if os_mmap_ok o then (Ok (request_region q), [mmap_ev q true])
          else (Err MmapErr, [mmap_ev q false])
      end
  end.

Lemma build_cases m o q k : os_page o = 2 ^ k -> build m o q = Val (build_result o q).
Proof.
  intros Hp. unfold build_result.
  destruct (q_raw q) as [a|] eqn:Hr.
  - rewrite (build_raw_spec m o q k a Hp Hr), Hp. destruct (a mod 2 ^ k =? 0); reflexivity.
  - unfold build, hasbit. rewrite Hr. change MAP_FIXED with 16.
    destruct (negb (N.land (q_flags q) 16 =? 0)); [reflexivity|].
    unfold mmap_ev, request_region. rewrite Hr.
    destruct (q_file q) as [s|].
    + unfold check_file_offset, checked_add.
      destruct (N.ltb_spec (s + q_size q) W64) as [L|L]; destruct (N.leb_spec W64 (s + q_size q)) as [L'|L']; try lia.
      * destruct (os_filesize o <? s + q_size q); [reflexivity|].
        destruct (os_mmap_ok o); reflexivity.
      * reflexivity.
    + destruct (os_mmap_ok o); reflexivity.
Qed.

Definition q_of (c : case15) : req :=
  match c_kind c with
  | 0 => {| q_size := c_size c; q_prot := c_prot c; q_flags := c_flags c; q_file := fstart c; q_raw := c_raw c |}
  | 1 => {| q_size := c_size c; q_prot := N.lor PROT_READ PROT_WRITE;
            q_flags := N.lor (N.lor MAP_ANONYMOUS MAP_NORESERVE) MAP_PRIVATE; q_file := None; q_raw := None |}
  | 2 => {| q_size := c_size c; q_prot := N.lor PROT_READ PROT_WRITE; q_flags := N.lor MAP_NORESERVE MAP_SHARED;
            q_file := Some (match fstart c with Some s => s | None => 0 end); q_raw := None |}
  | 3 => {| q_size := c_size c; q_prot := c_prot c; q_flags := c_flags c; q_file := fstart c; q_raw := None |}
  | 5 => match fstart c with
         | Some s => {| q_size := c_size c; q_prot := N.lor PROT_READ PROT_WRITE;
                        q_flags := N.lor MAP_NORESERVE MAP_SHARED; q_file := Some s; q_raw := None |}
         | None => {| q_size := c_size c; q_prot := N.lor PROT_READ PROT_WRITE;
                      q_flags := N.lor (N.lor MAP_ANONYMOUS MAP_NORESERVE) MAP_PRIVATE; q_file := None; q_raw := None |}
         end
  | _ => {| q_size := c_size c; q_prot := c_prot c; q_flags := c_flags c; q_file := None;
            q_raw := Some (match c_raw c with Some a => a | None => 0 end) |}
  end.

Definition post (br : res region * list ev) (base : option N) : res (region * option N) * list ev :=
  match br with
  | (Err e, l) => (Err e, l)
  | (Ok g, l) =>
      match base with
      | None => (Ok (g, None), l)
      | Some b => if W64 <=? b + g_size g then (Err InvalidGuestRegion, l ++ drop_region g)
                  else (Ok (g, Some b), l)
      end
  end.

Definition wf15 (c : case15) : Prop :=
  kind_ok (c_kind c) (match c_file c with Some _ => true | None => false end)
          (match c_raw c with Some _ => true | None => false end)
          (match c_base c with Some _ => true | None => false end) = true.

Lemma kind_cases c : wf15 c ->
  c_kind c = 0 \/ c_kind c = 1 \/ c_kind c = 2 \/ c_kind c = 3 \/ c_kind c = 4 \/ c_kind c = 5.
Proof.
  unfold wf15. destruct (c_kind c) as [|p]; [auto|].
  destruct p as [[p|p|]|[p|p|]|]; try destruct p; cbn [kind_ok]; intros H; try discriminate; auto 10.
Qed.

Lemma guest_new_post g b l :
  (let '(r2, l2) := guest_region_new g b in
   Val (match r2 with Ok (g', b') => Ok (g', Some b') | Err e => Err e end, l ++ l2))
  = Val (post (Ok g, l) (Some b)).
Proof.
  unfold post. destruct (guest_region_new_cases g b) as [[L ->]|[L ->]].
  - destruct (N.leb_spec W64 (b + g_size g)); [lia|]. rewrite app_nil_r. reflexivity.
  - destruct (N.leb_spec W64 (b + g_size g)); [|lia]. reflexivity.
Qed.

Lemma construct_cases c o k : wf15 c -> os_page o = 2 ^ k ->
  construct c o = Val (post (build_result o (q_of c)) (c_base c)).
Proof.
  intros W Hp. pose proof (kind_cases c W) as K. unfold wf15 in W. unfold construct, q_of.
  destruct K as [K|[K|[K|[K|[K|K]]]]]; rewrite K in *; cbn [N.eqb Pos.eqb kind_ok] in *.
  1,2,3,4,5:
    unfold construct_region; rewrite K; unfold mr_new, mr_from_file, mr_build, mr_build_raw;
    erewrite build_cases by exact Hp; cbn [bind];
    match goal with |- context [build_result ?oo ?q] => destruct (build_result oo q) as [[g|e] l] end;
    [destruct (c_base c) as [b|]; [rewrite guest_new_post|]; reflexivity | reflexivity].
  - (* from_range *)
    change (5 =? 5) with true. cbn iota.
    destruct (c_base c) as [b|]; [|rewrite !andb_false_r in W; discriminate].
    unfold from_range, mr_new, mr_from_file.
    destruct (fstart c) as [s|]; erewrite build_cases by exact Hp; cbn [bind];
      match goal with |- context [build_result ?oo ?q] => destruct (build_result oo q) as [[g|e] l] end;
      try reflexivity.
    all: pose proof (guest_new_post g b l) as P;
         destruct (guest_region_new g b) as [[[g' b']|e] l2]; cbn [bind]; cbn in P |- *; rewrite <- P; reflexivity.
Qed.

Lemma q_of_facts c : wf15 c ->
  q_size (q_of c) = c_size c /\ q_raw (q_of c) = c_raw c /\ q_file (q_of c) = fstart c /\
  (if explicit_flags c then q_prot (q_of c) = c_prot c /\ q_flags (q_of c) = c_flags c
   else hasbit (q_flags (q_of c)) 16 = false).
Proof.
  intros W. pose proof (kind_cases c W) as K. unfold wf15 in W. unfold q_of, explicit_flags, fstart in *.
  destruct K as [K|[K|[K|[K|[K|K]]]]]; rewrite K in *; cbn [N.eqb Pos.eqb kind_ok orb] in *;
    destruct (c_file c) as [[fl s]|]; destruct (c_raw c) as [a|]; cbn [negb andb] in W; try discriminate;
    cbn [q_size q_raw q_file q_prot q_flags]; repeat split; try reflexivity.
Qed.

