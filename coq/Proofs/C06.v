(* C06 - all proofs.  Properties/C06.v only restates the results. *)
From VM Require Import Prelude.MachInt Prelude.Outcome Prelude.Tok Impl.CopyPlan Spec.C06 Suite.C06.

(* ====================================================================== alignment *)
(* lowest set bit, by recursion on the binary representation *)
Fixpoint lowp (p : positive) : N := match p with xO q => 2 * lowp q | _ => 1 end.
Definition low (a : N) : N := match a with 0 => 0 | Npos p => lowp p end.

Lemma land_double a b : N.land (2 * a) (2 * b) = 2 * N.land a b.
Proof.
  destruct a as [|p], b as [|q]; reflexivity.
Qed.
Lemma land_odd a b : N.land (2 * a + 1) (2 * b + 1) = 2 * N.land a b + 1.
Proof.
  destruct a as [|p], b as [|q]; try reflexivity.
  change (2 * N.pos p + 1) with (N.pos p~1). change (2 * N.pos q + 1) with (N.pos q~1).
  unfold N.land. cbn [Pos.land]. destruct (Pos.land p q); reflexivity.
Qed.

Lemma land_compl a n : a < 2 ^ n -> N.land a (2 ^ n - 1 - a) = 0.
Proof.
  intros H. destruct (N.eq_dec a 0) as [->|Hz]; [apply N.land_0_l|].
  assert (Hl : N.log2 a < n) by (apply N.log2_lt_pow2; lia).
  rewrite <- (N.land_lnot_diag_low a n Hl). f_equal.
  rewrite N.lnot_sub_low by exact Hl. rewrite N.ones_equiv. lia.
Qed.

Lemma align_low_pos p : forall n, N.pos p < 2 ^ n -> N.land (N.pos p) (2 ^ n - N.pos p) = lowp p.
Proof.
  induction p as [q IH|q IH|]; intros n H.
  - destruct n as [|n] using N.peano_ind; [rewrite N.pow_0_r in H; lia|].
    rewrite N.pow_succ_r' in *.
    replace (N.pos q~1) with (2 * N.pos q + 1) in * by reflexivity.
    replace (2 * 2 ^ n - (2 * N.pos q + 1)) with (2 * (2 ^ n - 1 - N.pos q) + 1) by lia.
    rewrite land_odd, land_compl by lia. reflexivity.
  - destruct n as [|n] using N.peano_ind; [rewrite N.pow_0_r in H; lia|].
    rewrite N.pow_succ_r' in *.
    replace (N.pos q~0) with (2 * N.pos q) in * by reflexivity.
    replace (2 * 2 ^ n - 2 * N.pos q) with (2 * (2 ^ n - N.pos q)) by lia.
    rewrite land_double, IH by lia. reflexivity.
  - destruct n as [|n] using N.peano_ind; [rewrite N.pow_0_r in H; lia|].
    rewrite N.pow_succ_r' in *.
    assert (0 < 2 ^ n) by (apply N.neq_0_lt_0, N.pow_nonzero; lia).
    replace (2 * 2 ^ n - 1) with (2 * (2 ^ n - 1) + 1) by lia.
    change 1 with (2 * 0 + 1) at 1. rewrite land_odd, N.land_0_l. reflexivity.
Qed.

(* the code's `addr & (!addr + 1)` is the lowest set bit; the `+` cannot overflow for addr > 0 *)
Lemma alignment_low m a : 0 < a < W64 -> alignment m a = Val (low a).
Proof.
  intros [H0 H1]. unfold alignment, not64.
  rewrite padd_Val by lia. cbn [bind]. f_equal.
  destruct a as [|p]; [lia|]. cbn [low].
  replace (W64 - 1 - N.pos p + 1) with (W64 - N.pos p) by lia.
  rewrite W64_eq in *. apply (align_low_pos p 64 H1).
Qed.

Lemma lowp_pos p : 0 < lowp p.
Proof. induction p; cbn [lowp]; lia. Qed.

Lemma lowp_dvd p k : (2 ^ k <=? lowp p) = (N.pos p mod 2 ^ k =? 0).
Proof.
  revert p. induction k as [|k IHk] using N.peano_ind; intros p.
  - rewrite N.pow_0_r, N.mod_1_r. pose proof (lowp_pos p).
    destruct (N.leb_spec 1 (lowp p)); [reflexivity|lia].
  - rewrite N.pow_succ_r'. assert (0 < 2 ^ k) by (apply N.neq_0_lt_0, N.pow_nonzero; lia).
    destruct p as [q|q|].
    + cbn [lowp]. replace (N.pos q~1) with (2 * N.pos q + 1) by reflexivity.
      rewrite N.mod_mul_r by lia.
      replace ((2 * N.pos q + 1) mod 2) with 1
        by (rewrite N.add_comm, N.mul_comm, N.mod_add by lia; reflexivity).
      destruct (N.leb_spec (2 * 2 ^ k) 1);
        destruct (N.eqb_spec (1 + 2 * (((2 * N.pos q + 1) / 2) mod 2 ^ k)) 0); try lia; reflexivity.
    + cbn [lowp]. replace (N.pos q~0) with (2 * N.pos q) by reflexivity.
      rewrite N.mul_mod_distr_l by lia. specialize (IHk q).
      destruct (N.leb_spec (2 ^ k) (lowp q)); destruct (N.eqb_spec (N.pos q mod 2 ^ k) 0); try discriminate;
        destruct (N.leb_spec (2 * 2 ^ k) (2 * lowp q)); destruct (N.eqb_spec (2 * (N.pos q mod 2 ^ k)) 0);
        try lia; reflexivity.
    + cbn [lowp]. rewrite N.mod_small by lia.
      destruct (N.leb_spec (2 * 2 ^ k) 1); [lia|reflexivity].
Qed.

Lemma low_ge_iff a k : 0 < a -> (2 ^ k <=? low a) = (a mod 2 ^ k =? 0).
Proof. intros H. destruct a; [lia|]. apply lowp_dvd. Qed.

Lemma lowp_pow2 p : exists k, lowp p = 2 ^ k /\ N.pos p mod 2 ^ k = 0 /\ (N.pos p / 2 ^ k) mod 2 = 1.
Proof.
  induction p as [q IH|q IH|].
  - exists 0. cbn [lowp]. rewrite N.pow_0_r, N.mod_1_r, N.div_1_r. repeat split.
    replace (N.pos q~1) with (1 + N.pos q * 2) by (change (N.pos q~1) with (2 * N.pos q + 1); lia).
    rewrite N.mod_add by lia. reflexivity.
  - destruct IH as [k [E [M D]]]. exists (N.succ k). cbn [lowp].
    assert (0 < 2 ^ k) by (apply N.neq_0_lt_0, N.pow_nonzero; lia).
    rewrite N.pow_succ_r', E. replace (N.pos q~0) with (2 * N.pos q) by reflexivity.
    repeat split.
    + rewrite N.mul_mod_distr_l by lia. lia.
    + rewrite N.div_mul_cancel_l by lia. exact D.
  - exists 0. repeat split.
Qed.

Lemma alignment_pow2_lemma m a : 0 < a < W64 ->
  exists k, alignment m a = Val (2 ^ k) /\ a mod 2 ^ k = 0 /\ (a / 2 ^ k) mod 2 = 1.
Proof.
  intros H. rewrite alignment_low by exact H. destruct a as [|p]; [lia|].
  destruct (lowp_pow2 p) as [k [E [M D]]]. exists k. cbn [low]. rewrite E. auto.
Qed.

Lemma alignment_dvd_lemma m a k : 0 < a < W64 ->
  exists v, alignment m a = Val v /\ (2 ^ k <= v <-> a mod 2 ^ k = 0).
Proof.
  intros H. rewrite alignment_low by exact H. exists (low a). split; [reflexivity|].
  pose proof (low_ge_iff a k (proj1 H)) as E.
  destruct (N.leb_spec (2 ^ k) (low a)); destruct (N.eqb_spec (a mod 2 ^ k) 0); try discriminate; lia.
Qed.

(* ====================================================================== the access plan *)
(* the closure loop on OFFSETS (what remains of while_copy when the pointer arithmetic is
   factored out); used only inside proofs *)
Notation ostate := (N * N)%type (only parsing).     (* offset reached, bytes left *)
Fixpoint chunks (fuel : nat) (w off lft : N) {struct fuel} : option (list (N * N) * ostate) :=
  match fuel with
  | O => None
  | S f =>
      if w <=? lft then
        let lft' := lft - w in
        if lft' =? 0 then Some ([(w, off)], (off, lft'))
        else match chunks f w (off + w) lft' with
             | Some r => Some ((w, off) :: fst r, snd r)
             | None => None end
      else Some ([], (off, lft))
  end.

Definition place (src dst : N) (e : N * N) : access := Acc (fst e) (src + snd e) (dst + snd e).


Lemma copy_single_word w s d : is_wordP w -> copy_single w s d = Val [Acc w s d].
Proof. intros [->|[->|[->| ->]]]; reflexivity. Qed.

(* while_copy = chunks, as long as the pointers stay inside the address space *)
Lemma while_copy_chunks m fuel : forall w s0 d0 off lft,
  is_wordP w -> s0 + off + lft <= W64 -> d0 + off + lft <= W64 ->
  while_copy m fuel w (s0 + off) (d0 + off) lft =
  match chunks fuel w off lft with
  | Some (evs, (off', lft')) => Val (map (place s0 d0) evs, (s0 + off', d0 + off', lft'))
  | None => OutOfFuel
  end.
Proof.
  induction fuel as [|f IH]; intros w s0 d0 off lft Hw Hs Hd; [reflexivity|].
  cbn [while_copy chunks].
  destruct (N.leb_spec w lft) as [Hle|Hgt]; [|reflexivity].
  rewrite copy_single_word by exact Hw. cbn [bind].
  destruct (N.eqb_spec (lft - w) 0) as [Hz|Hnz].
  - rewrite Hz. reflexivity.
  - assert (0 < w) by (destruct Hw as [->|[->|[->| ->]]]; lia).
    rewrite !padd_Val by lia. cbn [bind].
    replace (s0 + off + w) with (s0 + (off + w)) by lia.
    replace (d0 + off + w) with (d0 + (off + w)) by lia.
    rewrite IH by (try exact Hw; lia).
    destruct (chunks f w (off + w) (lft - w)) as [[evs [off' lft']]|]; reflexivity.
Qed.

(* what one run of the loop produces *)
Fixpoint sumw (evs : list (N * N)) : N := match evs with [] => 0 | e :: r => fst e + sumw r end.
Fixpoint tiles_from (off : N) (evs : list (N * N)) {struct evs} : Prop :=
  match evs with [] => True | e :: r => snd e = off /\ tiles_from (off + fst e) r end.

Lemma chunks_spec fuel : forall w off lft evs off' lft',
  0 < w -> chunks fuel w off lft = Some (evs, (off', lft')) ->
  tiles_from off evs /\ sumw evs + lft' = lft /\ lft' < w /\
  Forall (fun e => fst e = w) evs /\
  (lft' = 0 \/ off' = off + sumw evs) /\
  (exists q, off' = off + q * w) /\ off' <= off + sumw evs.
Proof.
  induction fuel as [|f IH]; intros w off lft evs off' lft' Hw E; [discriminate|].
  cbn [chunks] in E.
  destruct (N.leb_spec w lft) as [Hle|Hgt].
  - destruct (N.eqb_spec (lft - w) 0) as [Hz|Hnz].
    + inversion E; subst. cbn [tiles_from sumw fst snd].
      repeat split; try lia; [constructor; [reflexivity|constructor] | exists 0; lia].
    + destruct (chunks f w (off + w) (lft - w)) as [[evs1 [o1 l1]]|] eqn:E1; [|discriminate].
      inversion E; subst. cbn [fst snd] in *.
      destruct (IH _ _ _ _ _ _ Hw E1) as [T [S [L [F [O [[q Q] B]]]]]].
      cbn [tiles_from sumw fst snd].
      repeat split; try assumption; try lia.
      * constructor; [reflexivity|assumption].
      * exists (q + 1). lia.
  - inversion E; subst. cbn [tiles_from sumw].
    repeat split; try lia; [constructor | exists 0; lia].
Qed.

Lemma chunks_fuel fuel : forall w off lft,
  0 < w -> (N.to_nat lft < fuel)%nat -> chunks fuel w off lft <> None.
Proof.
  induction fuel as [|f IH]; intros w off lft Hw Hf; [lia|].
  cbn [chunks]. destruct (N.leb_spec w lft) as [Hle|Hgt]; [|discriminate].
  destruct (N.eqb_spec (lft - w) 0) as [Hz|Hnz]; [discriminate|].
  specialize (IH w (off + w) (lft - w) Hw).
  destruct (chunks f w (off + w) (lft - w)); [discriminate|].
  exfalso. apply IH; [lia|reflexivity].
Qed.

(* one closure call on offsets *)
Definition stage (fuel : nat) (al w : N) (acc : list (N * N) * ostate) : option (list (N * N) * ostate) :=
  let '(tr, (off, lft)) := acc in
  if al <? w then Some (tr, (off, lft))
  else match chunks fuel w off lft with
       | Some r => Some (tr ++ fst r, snd r)
       | None => None end.

Definition obind {A B} (x : option A) (f : A -> option B) : option B :=
  match x with Some a => f a | None => None end.

Definition plan_off (fuel : nat) (al total : N) : option (list (N * N) * ostate) :=
  obind (stage fuel al 8 ([], (0, total))) (fun s8 =>
  obind (stage fuel al 4 s8) (fun s4 =>
  obind (stage fuel al 2 s4) (fun s2 =>
  stage fuel al 1 s2))).

Lemma copy_aligned_slice_stage m fuel al w s0 d0 tr off lft :
  is_wordP w -> s0 + off + lft <= W64 -> d0 + off + lft <= W64 ->
  copy_aligned_slice m fuel al w (map (place s0 d0) tr, (s0 + off, d0 + off, lft)) =
  match stage fuel al w (tr, (off, lft)) with
  | Some (tr', (off', lft')) => Val (map (place s0 d0) tr', (s0 + off', d0 + off', lft'))
  | None => OutOfFuel
  end.
Proof.
  intros Hw Hs Hd. unfold copy_aligned_slice, stage.
  destruct (al <? w); [reflexivity|].
  rewrite while_copy_chunks by assumption.
  destruct (chunks fuel w off lft) as [[evs [off' lft']]|]; [|reflexivity].
  cbn [bind fst snd]. rewrite map_app. reflexivity.
Qed.

Lemma stage_bound fuel al w tr off lft tr' off' lft' :
  0 < w -> stage fuel al w (tr, (off, lft)) = Some (tr', (off', lft')) -> off' + lft' <= off + lft.
Proof.
  intros Hw E. unfold stage in E. destruct (al <? w).
  - inversion E; subst. lia.
  - destruct (chunks fuel w off lft) as [[evs [o l]]|] eqn:E1; [|discriminate].
    cbn [fst snd] in E. inversion E; subst.
    destruct (chunks_spec _ _ _ _ _ _ _ Hw E1) as [_ [S [_ [_ [_ [_ B]]]]]]. lia.
Qed.

Notation wfp := valid_ptr (only parsing).

(* copy_slice_volatile is plan_off placed at (src, dst) *)
Lemma csv_plan_off m fuel dst src total :
  wfp src total -> wfp dst total ->
  copy_slice_volatile m fuel dst src total =
  match plan_off fuel (N.min (low src) (low dst)) total with
  | Some (evs, _) => Val (map (place src dst) evs)
  | None => OutOfFuel
  end.
Proof.
  unfold valid_ptr. intros [Hs0 Hs] [Hd0 Hd]. unfold copy_slice_volatile.
  rewrite !alignment_low by lia. cbn [bind].
  set (al := N.min (low src) (low dst)).
  unfold plan_off.
  assert (W8 : is_wordP 8) by (unfold is_wordP; auto).
  assert (W4 : is_wordP 4) by (unfold is_wordP; auto).
  assert (W2 : is_wordP 2) by (unfold is_wordP; auto).
  assert (W1 : is_wordP 1) by (unfold is_wordP; auto).
  pose proof (copy_aligned_slice_stage m fuel al 8 src dst [] 0 total W8) as E8.
  cbn [map] in E8. rewrite !N.add_0_r in E8. rewrite E8 by lia. clear E8.
  destruct (stage fuel al 8 ([], (0, total))) as [[t8 [o8 l8]]|] eqn:S8; [|reflexivity].
  cbn [bind obind]. apply stage_bound in S8; [|lia].
  rewrite (copy_aligned_slice_stage m fuel al 4 src dst t8 o8 l8 W4) by lia.
  destruct (stage fuel al 4 (t8, (o8, l8))) as [[t4 [o4 l4]]|] eqn:S4; [|reflexivity].
  cbn [bind obind]. apply stage_bound in S4; [|lia].
  rewrite (copy_aligned_slice_stage m fuel al 2 src dst t4 o4 l4 W2) by lia.
  destruct (stage fuel al 2 (t4, (o4, l4))) as [[t2 [o2 l2]]|] eqn:S2; [|reflexivity].
  cbn [bind obind]. apply stage_bound in S2; [|lia].
  rewrite (copy_aligned_slice_stage m fuel al 1 src dst t2 o2 l2 W1) by lia.
  destruct (stage fuel al 1 (t2, (o2, l2))) as [[t1 [o1 l1]]|] eqn:S1; reflexivity.
Qed.

(* ---------------------------------------------------------------- properties of plan_off *)
Lemma tiles_app : forall a b off,
  tiles_from off (a ++ b) <-> tiles_from off a /\ tiles_from (off + sumw a) b.
Proof.
  induction a as [|e a IH]; intros b off; cbn [app tiles_from sumw].
  - rewrite N.add_0_r. tauto.
  - rewrite IH. replace (off + fst e + sumw a) with (off + (fst e + sumw a)) by lia. tauto.
Qed.
Lemma sumw_app a b : sumw (a ++ b) = sumw a + sumw b.
Proof. induction a as [|e a IH]; cbn [app sumw]; lia. Qed.

Lemma tiles_offsets w : forall evs off, tiles_from off evs -> Forall (fun e => fst e = w) evs ->
  Forall (fun e => exists q, snd e = off + q * w) evs.
Proof.
  induction evs as [|e r IH]; intros off T F; constructor.
  - destruct T as [T _]. exists 0. lia.
  - destruct T as [_ T]. inversion F as [|? ? Fe Fr]; subst. specialize (IH _ T Fr).
    eapply Forall_impl; [|exact IH]. intros x [q Q]. exists (q + 1). rewrite Q. lia.
Qed.

Lemma stage_inv fuel al w tr off lft tr' off' lft' total :
  0 < w -> stage fuel al w (tr, (off, lft)) = Some (tr', (off', lft')) ->
  tiles_from 0 tr -> (lft = 0 \/ off = sumw tr) -> sumw tr + lft = total ->
  tiles_from 0 tr' /\ (lft' = 0 \/ off' = sumw tr') /\ sumw tr' + lft' = total /\
  (w <= al -> lft' < w) /\ (exists q, off' = off + q * w) /\
  exists evs, tr' = tr ++ evs /\
    Forall (fun e => fst e = w /\ w <= al /\ exists q, snd e = off + q * w) evs.
Proof.
  intros Hw E T O S. unfold stage in E. destruct (N.ltb_spec al w) as [Hlt|Hge].
  - inversion E; subst. repeat split; try assumption; try lia.
    + exists 0; lia.
    + exists []. rewrite app_nil_r. split; [reflexivity|constructor].
  - destruct (chunks fuel w off lft) as [[evs [o l]]|] eqn:E1; [|discriminate].
    cbn [fst snd] in E. inversion E; subst.
    destruct (chunks_spec _ _ _ _ _ _ _ Hw E1) as [T1 [S1 [L1 [F1 [O1 [Q1 B1]]]]]].
    rewrite sumw_app.
    assert (Hcase : evs = [] \/ off = sumw tr).
    { destruct O as [Z|Z]; [|right; exact Z]. left. subst lft.
      destruct evs as [|e r]; [reflexivity|]. inversion F1; subst. cbn [sumw] in S1. lia. }
    repeat split.
    + apply tiles_app. split; [exact T|]. destruct Hcase as [->|<-]; [exact I|].
      rewrite N.add_0_l. exact T1.
    + destruct O1 as [Z|Z]; [left; exact Z|]. destruct Hcase as [->|C].
      * cbn [sumw] in *. destruct O as [Z0|Z0]; [left; lia|right; lia].
      * right. lia.
    + lia.
    + intros _. exact L1.
    + exact Q1.
    + exists evs. split; [reflexivity|].
      pose proof (tiles_offsets w evs off T1 F1) as P.
      clear - F1 P Hge. induction evs as [|e r IH]; constructor.
      * inversion F1; inversion P; subst. auto.
      * inversion F1; inversion P; subst. apply IH; assumption.
Qed.

Lemma plan_off_spec fuel al total evs st : 1 <= al -> plan_off fuel al total = Some (evs, st) ->
  tiles_from 0 evs /\ sumw evs = total /\
  Forall (fun e => is_wordP (fst e) /\ fst e <= al /\ snd e mod fst e = 0) evs.
Proof.
  intros Hal E. unfold plan_off in E.
  destruct (stage fuel al 8 ([], (0, total))) as [[t8 [o8 l8]]|] eqn:S8; [|discriminate]. cbn [obind] in E.
  destruct (stage fuel al 4 (t8, (o8, l8))) as [[t4 [o4 l4]]|] eqn:S4; [|discriminate]. cbn [obind] in E.
  destruct (stage fuel al 2 (t4, (o4, l4))) as [[t2 [o2 l2]]|] eqn:S2; [|discriminate]. cbn [obind] in E.
  destruct st as [o1 l1].
  apply stage_inv with (total := total) in S8; [|lia|exact I|right; reflexivity|cbn [sumw]; lia].
  destruct S8 as [T8 [O8 [M8 [_ [[q8 Q8] [e8 [A8 F8]]]]]]].
  apply stage_inv with (total := total) in S4; [|lia|assumption..].
  destruct S4 as [T4 [O4 [M4 [_ [[q4 Q4] [e4 [A4 F4]]]]]]].
  apply stage_inv with (total := total) in S2; [|lia|assumption..].
  destruct S2 as [T2 [O2 [M2 [_ [[q2 Q2] [e2 [A2 F2]]]]]]].
  apply stage_inv with (total := total) in E; [|lia|assumption..].
  destruct E as [T1 [O1 [M1 [L1 [[q1 Q1] [e1 [A1 F1]]]]]]].
  specialize (L1 Hal).
  split; [exact T1|]. split; [lia|].
  subst evs t2 t4 t8. cbn [app].
  repeat (apply Forall_app; split).
  - eapply Forall_impl; [|exact F8]. intros x [Fx [Lx [q Qx]]]. rewrite Fx.
    split; [unfold is_wordP; auto|]. split; [lia|]. rewrite Qx.
    rewrite N.mod_add by lia. reflexivity.
  - eapply Forall_impl; [|exact F4]. intros x [Fx [Lx [q Qx]]]. rewrite Fx.
    split; [unfold is_wordP; auto|]. split; [lia|]. rewrite Qx, Q8.
    replace (0 + q8 * 8 + q * 4) with (0 + (q8 * 2 + q) * 4) by lia.
    rewrite N.mod_add by lia. reflexivity.
  - eapply Forall_impl; [|exact F2]. intros x [Fx [Lx [q Qx]]]. rewrite Fx.
    split; [unfold is_wordP; auto|]. split; [lia|]. rewrite Qx, Q4, Q8.
    replace (0 + q8 * 8 + q4 * 4 + q * 2) with (0 + (q8 * 4 + q4 * 2 + q) * 2) by lia.
    rewrite N.mod_add by lia. reflexivity.
  - eapply Forall_impl; [|exact F1]. intros x [Fx [Lx [q Qx]]]. rewrite Fx.
    split; [unfold is_wordP; auto|]. split; [lia|]. apply N.mod_1_r.
Qed.

Lemma stage_fuel fuel al w tr off lft :
  0 < w -> (N.to_nat lft < fuel)%nat -> stage fuel al w (tr, (off, lft)) <> None.
Proof.
  intros Hw Hf. unfold stage. destruct (al <? w); [discriminate|].
  pose proof (chunks_fuel fuel w off lft Hw Hf) as C.
  destruct (chunks fuel w off lft); [discriminate|congruence].
Qed.

Lemma plan_off_fuel fuel al total : (N.to_nat total < fuel)%nat -> plan_off fuel al total <> None.
Proof.
  intros Hf. unfold plan_off.
  destruct (stage fuel al 8 ([], (0, total))) as [[t8 [o8 l8]]|] eqn:S8;
    [|exfalso; revert S8; apply stage_fuel; [lia|exact Hf]].
  cbn [obind]. apply stage_bound in S8; [|lia].
  destruct (stage fuel al 4 (t8, (o8, l8))) as [[t4 [o4 l4]]|] eqn:S4;
    [|exfalso; revert S4; apply stage_fuel; lia].
  cbn [obind]. apply stage_bound in S4; [|lia].
  destruct (stage fuel al 2 (t4, (o4, l4))) as [[t2 [o2 l2]]|] eqn:S2;
    [|exfalso; revert S2; apply stage_fuel; lia].
  cbn [obind]. apply stage_bound in S2; [|lia].
  apply stage_fuel; lia.
Qed.

Lemma low_min_pos a b : 0 < a -> 0 < b -> 1 <= N.min (low a) (low b).
Proof.
  intros Ha Hb. destruct a as [|p]; [lia|]. destruct b as [|q]; [lia|]. cbn [low].
  pose proof (lowp_pos p). pose proof (lowp_pos q). lia.
Qed.

(* the test the closure makes, as a divisibility test on the two pointers *)
Lemma min_low_ltb a b k : 0 < a -> 0 < b ->
  (N.min (low a) (low b) <? 2 ^ k) = negb ((a mod 2 ^ k =? 0) && (b mod 2 ^ k =? 0)).
Proof.
  intros Ha Hb. rewrite <- (low_ge_iff a k Ha), <- (low_ge_iff b k Hb).
  destruct (N.ltb_spec (N.min (low a) (low b)) (2 ^ k));
    destruct (N.leb_spec (2 ^ k) (low a)); destruct (N.leb_spec (2 ^ k) (low b)); cbn [andb negb];
    try reflexivity; lia.
Qed.

Lemma plan_off_ext fuel al al' total :
  (al <? 8) = (al' <? 8) -> (al <? 4) = (al' <? 4) -> (al <? 2) = (al' <? 2) -> (al <? 1) = (al' <? 1) ->
  plan_off fuel al total = plan_off fuel al' total.
Proof. intros H8 H4 H2 H1. unfold plan_off, stage. rewrite H8, H4, H2, H1. reflexivity. Qed.

Lemma plan_off_single n al : is_wordP n -> n <= al -> plan_off 10 al n = Some ([(n, 0)], (0, 0)).
Proof.
  intros Hn Hle. unfold plan_off, stage.
  destruct (N.ltb_spec al 8); destruct (N.ltb_spec al 4); destruct (N.ltb_spec al 2);
    destruct (N.ltb_spec al 1); destruct Hn as [->|[->|[->| ->]]]; try lia; reflexivity.
Qed.

(* ====================================================================== copy_slice level *)
Lemma mod_mod_mul a b c : b <> 0 -> c <> 0 -> (a mod (b * c)) mod b = a mod b.
Proof.
  intros Hb Hc. rewrite N.mod_mul_r by assumption. rewrite (N.mul_comm b).
  rewrite N.mod_add by assumption. apply N.mod_mod; assumption.
Qed.

Lemma is_word_P n : is_word n = true <-> is_wordP n.
Proof.
  unfold is_word, is_wordP. split.
  - intros H. destruct (N.eqb_spec n 1); [auto|]. destruct (N.eqb_spec n 2); [auto|].
    destruct (N.eqb_spec n 4); [auto|]. destruct (N.eqb_spec n 8); [auto|]. discriminate.
  - intros [->|[->|[->| ->]]]; reflexivity.
Qed.

Lemma word_pow2 n : is_wordP n -> exists k, n = 2 ^ k /\ k <= 3.
Proof.
  intros [->|[->|[->| ->]]]; [exists 0|exists 1|exists 2|exists 3]; split; try reflexivity; lia.
Qed.

(* the volatile path never runs out of its 10 units of fuel and never panics on valid pointers *)
Lemma copy_slice_val m dst src total :
  wfp src total -> wfp dst total -> total <= 8 ->
  exists evs st, plan_off 10 (N.min (low src) (low dst)) total = Some (evs, st) /\
                 copy_slice m dst src total = Val (map (place src dst) evs).
Proof.
  intros Hs Hd Ht. unfold copy_slice. destruct (N.leb_spec total 8) as [_|]; [|lia].
  rewrite csv_plan_off by assumption.
  destruct (plan_off 10 (N.min (low src) (low dst)) total) as [[evs st]|] eqn:E.
  - exists evs, st. split; reflexivity.
  - exfalso. revert E. apply plan_off_fuel. lia.
Qed.

Lemma no_panic_lemma m dst src total :
  wfp src total -> wfp dst total -> exists p, copy_slice m dst src total = Val p.
Proof.
  intros Hs Hd. destruct (N.leb_spec total 8) as [Hle|Hgt].
  - destruct (copy_slice_val m dst src total Hs Hd Hle) as [evs [st [_ E]]]. eauto.
  - unfold copy_slice. destruct (N.leb_spec total 8); [lia|]. eauto.
Qed.

Lemma single_access_lemma m n dst src :
  is_wordP n -> wfp src n -> wfp dst n -> src mod n = 0 -> dst mod n = 0 ->
  copy_slice m dst src n = Val [Acc n src dst].
Proof.
  intros Hn Hs Hd Ms Md.
  assert (Hn8 : n <= 8) by (destruct Hn as [->|[->|[->| ->]]]; lia).
  destruct (copy_slice_val m dst src n Hs Hd Hn8) as [evs [st [P E]]].
  rewrite plan_off_single in P.
  - inversion P; subst. rewrite E. cbn [map]. unfold place. cbn [fst snd]. rewrite !N.add_0_r. reflexivity.
  - exact Hn.
  - destruct (word_pow2 n Hn) as [k [-> _]].
    destruct Hs as [[Hs0 _] _], Hd as [[Hd0 _] _].
    pose proof (low_ge_iff src k Hs0) as Ls. pose proof (low_ge_iff dst k Hd0) as Ld.
    rewrite Ms in Ls. rewrite Md in Ld.
    destruct (N.leb_spec (2 ^ k) (low src)); [|discriminate].
    destruct (N.leb_spec (2 ^ k) (low dst)); [|discriminate]. lia.
Qed.

Lemma acc_tiles_place src dst : forall evs off, tiles_from off evs ->
  acc_tiles (src + off) (dst + off) (map (place src dst) evs).
Proof.
  induction evs as [|e r IH]; intros off T; cbn [map acc_tiles place]; [exact I|].
  destruct T as [E T]. rewrite E. repeat split.
  replace (src + off + fst e) with (src + (off + fst e)) by lia.
  replace (dst + off + fst e) with (dst + (off + fst e)) by lia. apply IH. exact T.
Qed.
Lemma acc_sum_place src dst evs : acc_sum (map (place src dst) evs) = sumw evs.
Proof. induction evs as [|e r IH]; cbn [map acc_sum sumw place acc_width]; [reflexivity|]. rewrite IH. reflexivity. Qed.

Lemma plan_tiles_lemma m dst src total p :
  wfp src total -> wfp dst total -> total <= 8 -> copy_slice m dst src total = Val p ->
  acc_tiles src dst p /\ acc_sum p = total.
Proof.
  intros Hs Hd Ht E. destruct (copy_slice_val m dst src total Hs Hd Ht) as [evs [st [P E']]].
  rewrite E' in E. inversion E; subst p.
  destruct Hs as [[Hs0 _] _], Hd as [[Hd0 _] _].
  destruct (plan_off_spec _ _ _ _ _ (low_min_pos src dst Hs0 Hd0) P) as [T [S _]].
  split.
  - pose proof (acc_tiles_place src dst evs 0 T) as A. rewrite !N.add_0_r in A. exact A.
  - rewrite acc_sum_place. exact S.
Qed.

Lemma plan_aligned_lemma m dst src total p :
  wfp src total -> wfp dst total -> total <= 8 -> copy_slice m dst src total = Val p ->
  Forall acc_ok p.
Proof.
  intros Hs Hd Ht E. destruct (copy_slice_val m dst src total Hs Hd Ht) as [evs [st [P E']]].
  rewrite E' in E. inversion E; subst p.
  destruct Hs as [[Hs0 _] _], Hd as [[Hd0 _] _].
  destruct (plan_off_spec _ _ _ _ _ (low_min_pos src dst Hs0 Hd0) P) as [_ [_ F]].
  apply Forall_forall. intros a Ha. apply in_map_iff in Ha. destruct Ha as [e [<- He]].
  rewrite Forall_forall in F. destruct (F e He) as [W [L M]].
  unfold place, acc_ok. split; [exact W|].
  destruct (word_pow2 _ W) as [k [Ek _]].
  assert (Pk : 0 < 2 ^ k) by (apply N.neq_0_lt_0, N.pow_nonzero; lia).
  assert (Ls : 2 ^ k <= low src) by (rewrite <- Ek; lia).
  assert (Ld : 2 ^ k <= low dst) by (rewrite <- Ek; lia).
  pose proof (low_ge_iff src k Hs0) as Is. pose proof (low_ge_iff dst k Hd0) as Id.
  destruct (N.leb_spec (2 ^ k) (low src)); [|lia]. destruct (N.leb_spec (2 ^ k) (low dst)); [|lia].
  symmetry in Is, Id. apply N.eqb_eq in Is, Id.
  rewrite Ek in *. split.
  - rewrite N.add_mod by lia. rewrite Is, M. reflexivity.
  - rewrite N.add_mod by lia. rewrite Id, M. reflexivity.
Qed.

(* the relative plan depends on the pointers only through their residues mod 8 *)
Lemma res_chain a b : a mod 8 = b mod 8 ->
  a mod 2 ^ 3 = b mod 2 ^ 3 /\ a mod 2 ^ 2 = b mod 2 ^ 2 /\ a mod 2 ^ 1 = b mod 2 ^ 1 /\ a mod 2 ^ 0 = b mod 2 ^ 0.
Proof.
  intros H. change (2 ^ 3) with 8. change (2 ^ 2) with 4. change (2 ^ 1) with 2. change (2 ^ 0) with 1.
  split; [exact H|]. split; [|split].
  - rewrite <- (mod_mod_mul a 4 2), <- (mod_mod_mul b 4 2) by lia. change (4 * 2) with 8. rewrite H. reflexivity.
  - rewrite <- (mod_mod_mul a 2 4), <- (mod_mod_mul b 2 4) by lia. change (2 * 4) with 8. rewrite H. reflexivity.
  - rewrite !N.mod_1_r. reflexivity.
Qed.

Lemma plan_off_mod8 fuel src dst src' dst' total :
  0 < src -> 0 < dst -> 0 < src' -> 0 < dst' ->
  src mod 8 = src' mod 8 -> dst mod 8 = dst' mod 8 ->
  plan_off fuel (N.min (low src) (low dst)) total = plan_off fuel (N.min (low src') (low dst')) total.
Proof.
  intros H1 H2 H3 H4 Rs Rd.
  destruct (res_chain _ _ Rs) as [s3 [s2 [s1 s0]]]. destruct (res_chain _ _ Rd) as [d3 [d2 [d1 d0]]].
  apply plan_off_ext.
  - change 8 with (2 ^ 3). rewrite !min_low_ltb by assumption. rewrite s3, d3. reflexivity.
  - change 4 with (2 ^ 2). rewrite !min_low_ltb by assumption. rewrite s2, d2. reflexivity.
  - change 2 with (2 ^ 1). rewrite !min_low_ltb by assumption. rewrite s1, d1. reflexivity.
  - change 1 with (2 ^ 0). rewrite !min_low_ltb by assumption. rewrite s0, d0. reflexivity.
Qed.

Lemma wsub_add a o : wsub (a + o) a = o.
Proof. unfold wsub. destruct (N.leb_spec a (a + o)); lia. Qed.

Lemma rel_place_w src dst evs :
  map (rel_ev false dst src) (map (place src dst) evs) =
  map (fun e => {| e_kind := 0; e_w := fst e; e_g := snd e; e_l := snd e; e_side := 0 |}) evs.
Proof.
  rewrite map_map. apply map_ext. intros e. unfold place, rel_ev. rewrite !wsub_add. reflexivity.
Qed.
Lemma rel_place_r src dst evs :
  map (rel_ev true src dst) (map (place src dst) evs) =
  map (fun e => {| e_kind := 0; e_w := fst e; e_g := snd e; e_l := snd e; e_side := 1 |}) evs.
Proof.
  rewrite map_map. apply map_ext. intros e. unfold place, rel_ev. rewrite !wsub_add. reflexivity.
Qed.

Lemma wsub_diag a : wsub a a = 0.
Proof. unfold wsub. destruct (N.leb_spec a a); lia. Qed.

Lemma plan_mod8_lemma m dst src dst' src' total :
  wfp src total -> wfp dst total -> wfp src' total -> wfp dst' total ->
  src mod 8 = src' mod 8 -> dst mod 8 = dst' mod 8 ->
  exists p p', copy_slice m dst src total = Val p /\ copy_slice m dst' src' total = Val p' /\
    map (rel_ev false dst src) p = map (rel_ev false dst' src') p' /\
    map (rel_ev true src dst) p = map (rel_ev true src' dst') p'.
Proof.
  intros Hs Hd Hs' Hd' Rs Rd. destruct (N.leb_spec total 8) as [Hle|Hgt].
  - destruct (copy_slice_val m dst src total Hs Hd Hle) as [evs [st [P E]]].
    destruct (copy_slice_val m dst' src' total Hs' Hd' Hle) as [evs' [st' [P' E']]].
    rewrite (plan_off_mod8 10 src dst src' dst' total) in P
      by (try exact Rs; try exact Rd; destruct Hs as [[? _] _], Hd as [[? _] _], Hs' as [[? _] _], Hd' as [[? _] _]; assumption).
    rewrite P in P'. inversion P'; subst evs' st'.
    exists (map (place src dst) evs), (map (place src' dst') evs).
    repeat split; try assumption.
    + rewrite !rel_place_w. reflexivity.
    + rewrite !rel_place_r. reflexivity.
  - unfold copy_slice. destruct (N.leb_spec total 8); [lia|].
    exists [Bulk src dst total], [Bulk src' dst' total]. repeat split.
    + cbn [map rel_ev]. rewrite !wsub_diag. reflexivity.
    + cbn [map rel_ev]. rewrite !wsub_diag. reflexivity.
Qed.

(* ====================================================================== memory semantics *)
Ltac bool_cases :=
  repeat match goal with
  | |- context [N.leb ?x ?y] => destruct (N.leb_spec x y)
  | |- context [N.ltb ?x ?y] => destruct (N.ltb_spec x y)
  end; cbn [andb].

Lemma exec_tiles src dst total : disjoint src dst total -> forall evs off mm,
  tiles_from off evs -> off + sumw evs <= total ->
  forall a, exec (map mev_of (map (place src dst) evs)) mm a =
    if (dst + off <=? a) && (a <? dst + off + sumw evs) then mm (src + (a - dst)) else mm a.
Proof.
  intros D. induction evs as [|e r IH]; intros off mm T B a; cbn [map exec sumw tiles_from] in *.
  - bool_cases; try reflexivity; lia.
  - destruct T as [E T]. rewrite (IH (off + fst e) _ T) by lia.
    destruct e as [w o]. cbn [fst snd] in *. subst o.
    unfold place, mev_of, step. cbn [fst snd]. unfold disjoint in D.
    bool_cases; try reflexivity; try lia; f_equal; lia.
Qed.

Lemma exec_plan_is_memcpy_lemma m dst src total p :
  wfp src total -> wfp dst total -> disjoint src dst total ->
  copy_slice m dst src total = Val p ->
  forall mm a, exec (map mev_of p) mm a =
    if (dst <=? a) && (a <? dst + total) then mm (src + (a - dst)) else mm a.
Proof.
  intros Hs Hd D E mm a. destruct (N.leb_spec total 8) as [Hle|Hgt].
  - destruct (copy_slice_val m dst src total Hs Hd Hle) as [evs [st [P E']]].
    rewrite E' in E. inversion E; subst p.
    destruct Hs as [[Hs0 _] _], Hd as [[Hd0 _] _].
    destruct (plan_off_spec _ _ _ _ _ (low_min_pos src dst Hs0 Hd0) P) as [T [S _]].
    rewrite (exec_tiles src dst total D evs 0 mm T) by lia.
    rewrite S, !N.add_0_r. reflexivity.
  - unfold copy_slice in E. destruct (N.leb_spec total 8); [lia|]. inversion E; subst p.
    reflexivity.
Qed.

(* ---------------------------------------------------------------- schedules: no mixture *)
Lemma rd_ext mm mm' a k : (forall i, i < N.of_nat k -> mm' (a + i) = mm (a + i)) -> rd mm' a k = rd mm a k.
Proof.
  intros H. unfold rd. apply map_ext_in. intros i Hi. apply in_seq in Hi. apply H. lia.
Qed.

(* one n-byte event at d: afterwards the n bytes at d are exactly the n bytes that were at s *)
Lemma rd_step_dst mm n s d : rd (step (MCopy n s d) mm) d (N.to_nat n) = rd mm s (N.to_nat n).
Proof.
  unfold rd. apply map_ext_in. intros i Hi. apply in_seq in Hi. unfold step.
  bool_cases; try lia. f_equal. lia.
Qed.
Lemma rd_step_other mm n s d x : disjoint x d n -> rd (step (MCopy n s d) mm) x (N.to_nat n) = rd mm x (N.to_nat n).
Proof.
  intros D. apply rd_ext. intros i Hi. unfold step, disjoint in *. bool_cases; try reflexivity; lia.
Qed.

Lemma interleave_nil_r a l : interleave a [] l -> l = a.
Proof.
  revert l. induction a as [|e a IH]; intros l H; inversion H; subst; [reflexivity|].
  f_equal. apply IH. assumption.
Qed.

Section NoMixture.
  Variables (n g lr : N) (ws : list N) (mm0 : mem).
  Hypothesis Dglr : disjoint g lr n.
  Hypothesis Dws : forall s, In s ws -> disjoint s g n /\ disjoint s lr n.

  Let wev (s : N) : mev := MCopy n s g.
  Let rev : mev := MCopy n g lr.
  Let k := N.to_nat n.
  Definition good (v : list N) : Prop := v = rd mm0 g k \/ exists s, In s ws /\ v = rd mm0 s k.

  (* writer events never touch the reader's buffer *)
  Lemma writers_keep_lr : forall wsl mm, rd (exec (map wev wsl) mm) lr k = rd mm lr k.
  Proof.
    unfold k. induction wsl as [|s r IH]; intros mm; cbn [map exec]; [reflexivity|].
    rewrite IH. unfold wev. apply rd_step_other. unfold disjoint in *. lia.
  Qed.

  Lemma no_mixture_core : forall wsl l mm,
    incl wsl ws -> interleave (map wev wsl) [rev] l ->
    (forall s, In s ws -> rd mm s k = rd mm0 s k) -> good (rd mm g k) ->
    good (rd (exec l mm) lr k).
  Proof.
    pose proof writers_keep_lr as WK. unfold k in *.
    induction wsl as [|s r IH]; intros l mm Hin Hil Hsrc Hg.
    - cbn [map] in Hil. inversion Hil as [| |e a b l' Hil']; subst.
      apply interleave_nil_r in Hil'. subst l'. cbn [exec]. unfold rev. rewrite rd_step_dst. exact Hg.
    - cbn [map] in Hil. inversion Hil as [|e a b l' Hil'|e a b l' Hil']; subst.
      + (* the writer moves first *)
        cbn [exec]. apply IH.
        * intros x Hx. apply Hin. right. exact Hx.
        * exact Hil'.
        * intros x Hx. unfold wev. rewrite rd_step_other; [apply Hsrc; exact Hx|apply Dws; exact Hx].
        * unfold wev. rewrite rd_step_dst. rewrite Hsrc by (apply Hin; left; reflexivity).
          right. exists s. split; [apply Hin; left; reflexivity|reflexivity].
      + (* the reader moves: from now on only writer events remain *)
        apply interleave_nil_r in Hil'. subst l'.
        change (good (rd (exec (map wev (s :: r)) (step rev mm)) lr (N.to_nat n))).
        rewrite (WK (s :: r)). unfold rev. rewrite rd_step_dst. exact Hg.
  Qed.
End NoMixture.

Lemma no_mixture_lemma m n g lr ws wplans rplan l mm0 :
  is_wordP n -> valid_ptr g n -> valid_ptr lr n -> g mod n = 0 -> lr mod n = 0 ->
  disjoint g lr n ->
  (forall s, In s ws -> valid_ptr s n /\ s mod n = 0 /\ disjoint s g n /\ disjoint s lr n) ->
  Forall2 (fun s p => copy_slice m g s n = Val p) ws wplans ->
  copy_slice m lr g n = Val rplan ->
  interleave (map mev_of (concat wplans)) (map mev_of rplan) l ->
  rd (exec l mm0) lr (N.to_nat n) = rd mm0 g (N.to_nat n) \/
  exists s, In s ws /\ rd (exec l mm0) lr (N.to_nat n) = rd mm0 s (N.to_nat n).
Proof.
  intros Hn Hg Hlr Mg Mlr D Hws F2 Er Hil.
  rewrite (single_access_lemma m n lr g Hn Hg Hlr Mg Mlr) in Er. inversion Er; subst rplan.
  assert (Ew : map mev_of (concat wplans) = map (fun s => MCopy n s g) ws).
  { clear Hil. induction F2 as [|s p ws' wp' Hp F2 IH]; [reflexivity|].
    destruct (Hws s (or_introl eq_refl)) as [Vs [Ms _]].
    rewrite (single_access_lemma m n g s Hn Vs Hg Ms Mg) in Hp. inversion Hp; subst p.
    cbn [concat app map mev_of]. f_equal. apply IH. intros x Hx. apply Hws. right. exact Hx. }
  rewrite Ew in Hil. cbn [map mev_of] in Hil.
  apply (no_mixture_core n g lr ws mm0 D (fun s Hs => let '(conj _ (conj _ d)) := Hws s Hs in d) ws l mm0).
  - apply incl_refl.
  - exact Hil.
  - reflexivity.
  - left. reflexivity.
Qed.

(* ====================================================================== atomic references *)
Lemma land_ones_word a size : is_wordP size -> N.land a (size - 1) = a mod size.
Proof.
  intros [->|[->|[->| ->]]].
  - change (1 - 1) with (N.ones 0). rewrite N.land_ones. reflexivity.
  - change (2 - 1) with (N.ones 1). rewrite N.land_ones. reflexivity.
  - change (4 - 1) with (N.ones 2). rewrite N.land_ones. reflexivity.
  - change (8 - 1) with (N.ones 3). rewrite N.land_ones. reflexivity.
Qed.

Lemma get_atomic_ref_spec m s off size :
  is_wordP size -> vs_addr s + vs_size s <= W64 ->
  get_atomic_ref m s off size =
    if W64 <=? off + size then Val (Err EOverflow)
    else if vs_size s <? off + size then Val (Err EOutOfBounds)
    else if (vs_addr s + off) mod size =? 0 then Val (Ok (vs_addr s + off))
    else Val (Err EMisaligned).
Proof.
  intros Hw Hv. unfold get_atomic_ref, subslice, compute_end_offset, compute_offset, checked_add.
  destruct (N.ltb_spec (off + size) W64) as [Hlt|Hge]; destruct (N.leb_spec W64 (off + size)); try lia;
    [|reflexivity].
  destruct (N.ltb_spec (vs_size s) (off + size)) as [Hoob|Hin]; [reflexivity|].
  assert (Hs1 : 1 <= size) by (destruct Hw as [->|[->|[->| ->]]]; lia).
  rewrite padd_Val by lia. cbn [bind]. unfold check_alignment. cbn [vs_addr vs_size].
  assert (Hdbg : (let* a1 := psub m 670 size 1 in passert 670 (N.land size a1 =? 0)) = Val tt).
  { rewrite psub_Val by exact Hs1. cbn [bind]. destruct Hw as [->|[->|[->| ->]]]; reflexivity. }
  assert (Hpre : match m with Debug => let* a1 := psub m 670 size 1 in passert 670 (N.land size a1 =? 0)
                            | Release => Val tt end = Val tt) by (destruct m; [exact Hdbg|reflexivity]).
  rewrite Hpre. cbn [bind]. rewrite psub_Val by exact Hs1. cbn [bind].
  rewrite land_ones_word by exact Hw.
  destruct (N.eqb_spec ((vs_addr s + off) mod size) 0); cbn [negb bind].
  - rewrite N.eqb_refl. reflexivity.
  - reflexivity.
Qed.

Lemma atomic_ref_aligned_lemma m s off size :
  is_wordP size -> 0 < vs_addr s -> vs_addr s + vs_size s <= W64 ->
  (forall a, get_atomic_ref m s off size = Val (Ok a) ->
             a = vs_addr s + off /\ a mod size = 0 /\ off + size <= vs_size s) /\
  ((vs_addr s + off) mod size <> 0 -> exists e, get_atomic_ref m s off size = Val (Err e)) /\
  (off + size <= vs_size s -> (vs_addr s + off) mod size = 0 ->
             get_atomic_ref m s off size = Val (Ok (vs_addr s + off))).
Proof.
  intros Hw Hnz Hv. rewrite (get_atomic_ref_spec m s off size Hw Hv).
  destruct (N.leb_spec W64 (off + size)) as [H1|H1].
  { split; [intros a Ha; discriminate|]. split; [intros _; eauto|intros H2 _; exfalso; lia]. }
  destruct (N.ltb_spec (vs_size s) (off + size)) as [H2|H2].
  { split; [intros a Ha; discriminate|]. split; [intros _; eauto|intros H3 _; exfalso; lia]. }
  destruct (N.eqb_spec ((vs_addr s + off) mod size) 0) as [H3|H3].
  - split; [intros a Ha; inversion Ha; subst; auto|]. split; [intros H4; contradiction|intros _ _; reflexivity].
  - split; [intros a Ha; discriminate|]. split; [intros _; eauto|intros _ H4; contradiction].
Qed.

(* ====================================================================== model satisfies the checkers *)
Lemma o_lres_run c lres : o_lres (run_C06 c lres) = local_addr c lres mod 8.
Proof.
  unfold run_C06.
  destruct (if ep_read (c_ep c)
            then copy_slice (c_mode c) (local_addr c lres) (GB + c_goff c) (c_total c)
            else copy_slice (c_mode c) (GB + c_goff c) (local_addr c lres) (c_total c)); reflexivity.
Qed.

Lemma word_dvd8 a n : is_wordP n -> (a mod 8) mod n = 0 -> a mod n = 0.
Proof.
  intros [->|[->|[->| ->]]] H.
  - apply N.mod_1_r.
  - rewrite <- (mod_mod_mul a 2 4) by lia. exact H.
  - rewrite <- (mod_mod_mul a 4 2) by lia. exact H.
  - rewrite N.mod_mod in H by lia. exact H.
Qed.

Lemma C06_model_ok_lemma : forall c lres, c_goff c < 65536 -> c_loff c < 4096 ->
  ok_C06 c (run_C06 c lres) = true.
Proof.
  intros c lres Hg Hl. unfold ok_C06. rewrite o_lres_run.
  destruct (is_word (c_total c) && (c_goff c mod c_total c =? 0) &&
            (local_addr c lres mod 8 mod c_total c =? 0)) eqn:C; [|reflexivity].
  apply andb_true_iff in C. destruct C as [C C3]. apply andb_true_iff in C. destruct C as [C1 C2].
  apply is_word_P in C1. apply N.eqb_eq in C2, C3. apply (word_dvd8 _ _ C1) in C3.
  remember (c_total c) as n eqn:En. remember (local_addr c lres) as l eqn:El.
  remember (GB + c_goff c) as g eqn:Eg.
  assert (Hn8 : n <= 8) by (destruct C1 as [->|[->|[->| ->]]]; lia).
  assert (Hn0 : 0 < n) by (destruct C1 as [->|[->|[->| ->]]]; lia).
  assert (Vg : valid_ptr g n) by (unfold valid_ptr; subst g; unfold GB; rewrite W64_val; clear - Hg Hn8 Hn0; lia).
  assert (Vl : valid_ptr l n).
  { unfold valid_ptr. subst l. unfold local_addr, LB. rewrite W64_val.
    assert (H : lres mod 8 < 8) by (apply N.mod_lt; lia).
    clear - Hl Hn8 Hn0 H. revert H. generalize (lres mod 8). intros r H.
    destruct (ep_unctl (c_ep c)); lia. }
  assert (Mg : g mod n = 0).
  { subst g. rewrite N.add_mod by lia. rewrite C2.
    destruct C1 as [->|[->|[->| ->]]]; reflexivity. }
  unfold run_C06. rewrite <- En, <- El, <- Eg.
  destruct (ep_read (c_ep c)).
  - rewrite (single_access_lemma (c_mode c) n l g C1 Vg Vl Mg C3).
    cbn [o_st o_tr map rel_ev e_kind e_w e_g e_side]. rewrite wsub_diag, !N.eqb_refl. reflexivity.
  - rewrite (single_access_lemma (c_mode c) n g l C1 Vl Vg C3 Mg).
    cbn [o_st o_tr map rel_ev e_kind e_w e_g e_side]. rewrite wsub_diag, !N.eqb_refl. reflexivity.
Qed.

Lemma C06atomic_model_ok_lemma : forall c, a_len c < 1048576 -> a_skew c < 8 ->
  ok_C06atomic c (run_C06atomic c) = true.
Proof.
  intros c Hlen Hsk. unfold ok_C06atomic.
  destruct (is_word (a_size c)) eqn:W; [|reflexivity]. cbn [negb].
  apply is_word_P in W.
  assert (Hn0 : 0 < a_size c) by (destruct W as [->|[->|[->| ->]]]; lia).
  unfold run_C06atomic.
  rewrite get_atomic_ref_spec by (try exact W; cbn [vs_addr vs_size]; unfold GB; rewrite W64_val; lia).
  cbn [vs_addr vs_size].
  assert (Mg : (GB + a_skew c + a_goff c) mod a_size c = (a_skew c + a_goff c) mod a_size c).
  { replace (GB + a_skew c + a_goff c) with (GB + (a_skew c + a_goff c)) by lia.
    rewrite N.add_mod by lia. replace (GB mod a_size c) with 0
      by (destruct W as [->|[->|[->| ->]]]; reflexivity).
    rewrite N.add_0_l. apply N.mod_mod. lia. }
  rewrite Mg.
  destruct (N.eqb_spec ((a_skew c + a_goff c) mod a_size c) 0) as [A|A]; cbn [negb].
  - destruct (N.leb_spec (a_goff c + a_size c) (a_len c)) as [B|B]; [|reflexivity].
    destruct (N.leb_spec W64 (a_goff c + a_size c)); [rewrite W64_val in *; lia|].
    destruct (N.ltb_spec (a_len c) (a_goff c + a_size c)); [lia|].
    cbn [p_st p_off p_rt]. rewrite wsub_diag. reflexivity.
  - destruct (W64 <=? a_goff c + a_size c); [reflexivity|].
    destruct (a_len c <? a_goff c + a_size c); [reflexivity|].
    cbn [p_st]. destruct ((a_ep c =? 1) || (a_ep c =? 2)); reflexivity.
Qed.

(* suite C06order: the pass-through model meets its checker *)
Lemma C06order_model_ok_lemma : forall os ol, ok_C06order os ol (run_C06order os ol) = true.
Proof. intros os ol. unfold ok_C06order, run_C06order. rewrite !N.eqb_refl. reflexivity. Qed.

(* suite C06ordstd: the forwarding model meets its checker *)
Lemma C06ordstd_model_ok_lemma : forall kind order, ok_C06ordstd kind order (run_C06ordstd kind order) = true.
Proof.
  intros kind order. unfold ok_C06ordstd, run_C06ordstd, std_rejects.
  destruct (kind =? 0); [destruct ((order =? 2) || (order =? 3))|destruct ((order =? 1) || (order =? 3))]; reflexivity.
Qed.
(* forwarded unchanged <-> refused exactly where std refuses; a model that weakens or strengthens a refused ordering into an
   accepted one (or the other way round) is rejected by the checker *)
Lemma C06ordstd_checker_sharp_lemma : forall kind order st, kind <= 1 -> order <= 4 ->
  ok_C06ordstd kind order st = true ->
  (st = 2 <-> (kind = 0 /\ (order = 2 \/ order = 3)) \/ (kind = 1 /\ (order = 1 \/ order = 3))) /\ (st = 2 \/ st = 0).
Proof.
  intros kind order st K O. unfold ok_C06ordstd.
  assert (KK : kind = 0 \/ kind = 1) by lia.
  assert (OO : order = 0 \/ order = 1 \/ order = 2 \/ order = 3 \/ order = 4) by lia.
  destruct KK as [-> | ->]; destruct OO as [-> | [-> | [-> | [-> | ->]]]]; cbn;
    intros E; apply N.eqb_eq in E; subst st; (split; [split; [intros X; try discriminate X; tauto | intros X; lia]|lia]).
Qed.
(* store buffering: no sequentially consistent schedule yields r0 = r1 = 0 *)
Lemma sb_forbidden_under_sc_lemma : forall l, In l sb_schedules -> sb_result l <> (0, 0).
Proof.
  intros l I. vm_compute in I.
  repeat (destruct I as [<- | I]; [vm_compute; discriminate|]). contradiction.
Qed.
Lemma sb_schedules_complete_lemma : length sb_schedules = 6%nat /\
  forall l, In l sb_schedules -> filter (fun e => match e with SbW0 | SbR0 => true | _ => false end) l = [SbW0; SbR0] /\
                                 filter (fun e => match e with SbW1 | SbR1 => true | _ => false end) l = [SbW1; SbR1].
Proof.
  split; [reflexivity|]. intros l I. vm_compute in I.
  repeat (destruct I as [<- | I]; [split; reflexivity|]). contradiction.
Qed.
