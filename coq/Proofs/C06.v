(* C06 - all proofs.  Properties/C06.v only restates the results. *)
From VM Require Import Prelude.MachInt Prelude.Outcome Prelude.Tok Impl.CopyPlan Spec.C06 Suite.C06.

(* ====================================================================== alignment *)
(* lowest set bit, by recursion on the binary representation *)
Fixpoint lowp (p : positive) : N := match p with xO q => 2 * lowp q | _ => 1 end.
Definition low (a : N) : N := match a with 0 => 0 | Npos p => lowp p end.

Lemma land_double a b : N.land (2 * a) (2 * b) = 2 * N.land a b.
Proof.
  destruct a as [|p], b as [|q]; reflexivity.
Qed.
Lemma land_odd a b : N.land (2 * a + 1) (2 * b + 1) = 2 * N.land a b + 1.
Proof.
  destruct a as [|p], b as [|q]; try reflexivity.
  change (2 * N.pos p + 1) with (N.pos p~1). change (2 * N.pos q + 1) with (N.pos q~1).
  unfold N.land. cbn [Pos.land]. destruct (Pos.land p q); reflexivity.
Qed.

Lemma land_compl a n : a < 2 ^ n -> N.land a (2 ^ n - 1 - a) = 0.
Proof.
  intros H. destruct (N.eq_dec a 0) as [->|Hz]; [apply N.land_0_l|].
  assert (Hl : N.log2 a < n) by (apply N.log2_lt_pow2; lia).
  rewrite <- (N.land_lnot_diag_low a n Hl). f_equal.
  rewrite N.lnot_sub_low by exact Hl. rewrite N.ones_equiv. lia.
Qed.

Lemma align_low_pos p : forall n, N.pos p < 2 ^ n -> N.land (N.pos p) (2 ^ n - N.pos p) = lowp p.
Proof.
  induction p as [q IH|q IH|]; intros n H.
  - destruct n as [|n] using N.peano_ind; [rewrite N.pow_0_r in H; lia|].
    rewrite N.pow_succ_r' in *.
    replace (N.pos q~1) with (2 * N.pos q + 1) in * by reflexivity.
    replace (2 * 2 ^ n - (2 * N.pos q + 1)) with (2 * (2 ^ n - 1 - N.pos q) + 1) by lia.
    rewrite land_odd, land_compl by lia. reflexivity.
  - destruct n as [|n] using N.peano_ind; [rewrite N.pow_0_r in H; lia|].
    rewrite N.pow_succ_r' in *.
    replace (N.pos q~0) with (2 * N.pos q) in * by reflexivity.
    replace (2 * 2 ^ n - 2 * N.pos q) with (2 * (2 ^ n - N.pos q)) by lia.
    rewrite land_double, IH by lia. reflexivity.
  - destruct n as [|n] using N.peano_ind; [rewrite N.pow_0_r in H; lia|].
    rewrite N.pow_succ_r' in *.
    assert (0 < 2 ^ n) by (apply N.neq_0_lt_0, N.pow_nonzero; lia).
    replace (2 * 2 ^ n - 1) with (2 * (2 ^ n - 1) + 1) by lia.
    change 1 with (2 * 0 + 1) at 1. rewrite land_odd, N.land_0_l. reflexivity.
Qed.

(* the code's `addr & (!addr + 1)` is the lowest set bit; the `+` cannot overflow for addr > 0 *)
Lemma alignment_low m a : 0 < a < W64 -> alignment m a = Val (low a).
Proof.
  intros [H0 H1]. unfold alignment, not64.
  rewrite padd_Val by lia. cbn [bind]. f_equal.
  destruct a as [|p]; [lia|]. cbn [low].
  replace (W64 - 1 - N.pos p + 1) with (W64 - N.pos p) by lia.
  rewrite W64_eq in *. apply (align_low_pos p 64 H1).
Qed.

Lemma lowp_pos p : 0 < lowp p.
Proof. induction p; cbn [lowp]; lia. Qed.

Lemma lowp_dvd p k : (2 ^ k <=? lowp p) = (N.pos p mod 2 ^ k =? 0).
Proof.
  revert p. induction k as [|k IHk] using N.peano_ind; intros p.
  - rewrite N.pow_0_r, N.mod_1_r. pose proof (lowp_pos p).
    destruct (N.leb_spec 1 (lowp p)); [reflexivity|lia].
  - rewrite N.pow_succ_r'. assert (0 < 2 ^ k) by (apply N.neq_0_lt_0, N.pow_nonzero; lia).
    destruct p as [q|q|].
    + cbn [lowp]. replace (N.pos q~1) with (2 * N.pos q + 1) by reflexivity.
      rewrite N.mod_mul_r by lia.
      replace ((2 * N.pos q + 1) mod 2) with 1
        by (rewrite N.add_comm, N.mul_comm, N.mod_add by lia; reflexivity).
      destruct (N.leb_spec (2 * 2 ^ k) 1);
        destruct (N.eqb_spec (1 + 2 * (((2 * N.pos q + 1) / 2) mod 2 ^ k)) 0); try lia; reflexivity.
    + cbn [lowp]. replace (N.pos q~0) with (2 * N.pos q) by reflexivity.
      rewrite N.mul_mod_distr_l by lia. specialize (IHk q).
      destruct (N.leb_spec (2 ^ k) (lowp q)); destruct (N.eqb_spec (N.pos q mod 2 ^ k) 0); try discriminate;
        destruct (N.leb_spec (2 * 2 ^ k) (2 * lowp q)); destruct (N.eqb_spec (2 * (N.pos q mod 2 ^ k)) 0);
        try lia; reflexivity.
    + cbn [lowp]. rewrite N.mod_small by lia.
      destruct (N.leb_spec (2 * 2 ^ k) 1); [lia|reflexivity].
Qed.

Lemma low_ge_iff a k : 0 < a -> (2 ^ k <=? low a) = (a mod 2 ^ k =? 0).
Proof. intros H. destruct a; [lia|]. apply lowp_dvd. Qed.

Lemma lowp_pow2 p : exists k, lowp p = 2 ^ k /\ N.pos p mod 2 ^ k = 0 /\ (N.pos p / 2 ^ k) mod 2 = 1.
Proof.
  induction p as [q IH|q IH|].
  - exists 0. cbn [lowp]. rewrite N.pow_0_r, N.mod_1_r, N.div_1_r. repeat split.
    replace (N.pos q~1) with (1 + N.pos q * 2) by (change (N.pos q~1) with (2 * N.pos q + 1); lia).
    rewrite N.mod_add by lia. reflexivity.
  - destruct IH as [k [E [M D]]]. exists (N.succ k). cbn [lowp].
    assert (0 < 2 ^ k) by (apply N.neq_0_lt_0, N.pow_nonzero; lia).
    rewrite N.pow_succ_r', E. replace (N.pos q~0) with (2 * N.pos q) by reflexivity.
    repeat split.
    + rewrite N.mul_mod_distr_l by lia. lia.
    + rewrite N.div_mul_cancel_l by lia. exact D.
  - exists 0. repeat split.
Qed.

Lemma alignment_pow2_lemma m a : 0 < a < W64 ->
  exists k, alignment m a = Val (2 ^ k) /\ a mod 2 ^ k = 0 /\ (a / 2 ^ k) mod 2 = 1.
Proof.
  intros H. rewrite alignment_low by exact H. destruct a as [|p]; [lia|].
  destruct (lowp_pow2 p) as [k [E [M D]]]. exists k. cbn [low]. rewrite E. auto.
Qed.

Lemma alignment_dvd_lemma m a k : 0 < a < W64 ->
  exists v, alignment m a = Val v /\ (2 ^ k <= v <-> a mod 2 ^ k = 0).
Proof.
  intros H. rewrite alignment_low by exact H. exists (low a). split; [reflexivity|].
  pose proof (low_ge_iff a k (proj1 H)) as E.
  destruct (N.leb_spec (2 ^ k) (low a)); destruct (N.eqb_spec (a mod 2 ^ k) 0); try discriminate; lia.
Qed.
