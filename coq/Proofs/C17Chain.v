(* C17 - derivation chains: the mapping handle is passed on by every derivation (worker w7). *)
From VM Require Import Prelude.MachInt Prelude.Outcome Prelude.Tok Impl.MmapBuild Impl.Xen Spec.C17 Suite.C17
  Proofs.C17 Proofs.C17Hist.

(* ------------------------------------------------------------------ the handle *)
Lemma d_subslice_handle off len h o c a : d_subslice off len h o c = Val (Some a) -> acc_h a = h.
Proof. unfold d_subslice. destruct (end_offset len o c); intros E; inversion E; reflexivity. Qed.

Lemma d_ref_of_handle s t a h : (forall x, s = Val (Some x) -> acc_h x = h) ->
  d_ref_of s t = Val (Some a) -> acc_h a = h.
Proof.
  intros S. unfold d_ref_of. destruct s as [[[so sl sh|? ? ?|? ? ? ?]|]| |]; try discriminate.
  destruct (sl =? t); cbn [passert bind]; [|discriminate]. intros E; inversion E; subst. exact (S _ eq_refl).
Qed.

Lemma d_arr_of_handle get t n a h : (forall nb x, get nb = Val (Some x) -> acc_h x = h) ->
  d_arr_of get t n = Val (Some a) -> acc_h a = h.
Proof.
  intros S. unfold d_arr_of. destruct (isz_mul n t) as [nb|]; [|discriminate].
  destruct (get nb) as [[[so sl sh|? ? ?|? ? ? ?]|]| |] eqn:G; try discriminate.
  destruct (sl =? nb); cbn [passert bind]; [|discriminate]. intros E; inversion E; subst. exact (S _ _ G).
Qed.

Lemma r_get_slice_handle g off cnt a : r_get_slice g off cnt = Val (Some a) -> acc_h a = on_demand g.
Proof. unfold r_get_slice. destruct (end_offset (xr_size g) off cnt); intros E; inversion E; reflexivity. Qed.

Lemma d_root_handle m g r a : d_root m g r = Val (Some a) -> acc_h a = on_demand g.
Proof.
  destruct r as [off cnt| |off t|off t n]; cbn [d_root].
  - apply r_get_slice_handle.
  - apply r_get_slice_handle.
  - apply d_ref_of_handle. intros x. apply r_get_slice_handle.
  - apply d_arr_of_handle. intros nb x. apply r_get_slice_handle.
Qed.

Lemma d_step_handle m a s a' : d_step m a s = Val (Some a') -> acc_h a' = acc_h a.
Proof.
  destruct a as [off len h|off t h|off t n h]; destruct s; cbn [d_step acc_h]; try discriminate;
    try (intros E; inversion E; reflexivity).
  - apply d_subslice_handle.
  - destruct (len <? o); intros E; inversion E; reflexivity.
  - destruct (len <? mid); intros E; inversion E; reflexivity.
  - destruct (len <? mid); intros E; inversion E; reflexivity.
  - apply d_subslice_handle.
  - apply d_ref_of_handle. intros x. apply d_subslice_handle.
  - apply d_arr_of_handle. intros nb x. apply d_subslice_handle.
  - destruct (d_subslice off len h 0 len) as [[x|]| |] eqn:S; try discriminate.
    intros E; inversion E; subst. exact (d_subslice_handle _ _ _ _ _ _ S).
  - destruct (pmul m 1122 n t); cbn [bind]; try discriminate. intros E; inversion E; reflexivity.
  - destruct (i <? n); cbn [passert bind]; [|discriminate].
    destruct (pmul m 1140 t i); cbn [bind]; try discriminate. intros E; inversion E; reflexivity.
Qed.

Lemma d_steps_handle m l : forall a a', d_steps m a l = Val (Some a') -> acc_h a' = acc_h a.
Proof.
  induction l as [|s l IH]; intros a a'; cbn [d_steps].
  - intros E; inversion E; reflexivity.
  - destruct (d_step m a s) as [[x|]| |] eqn:S; try discriminate.
    intros E. rewrite (IH _ _ E). exact (d_step_handle _ _ _ _ S).
Qed.

(* for every chain, of any length, the final accessor carries the mapping handle of the region it was derived from *)
Lemma handle_propagates_lemma : forall m g r l a, d_chain m g r l = Val (Some a) -> acc_h a = on_demand g.
Proof.
  intros m g r l a. unfold d_chain. destruct (d_root m g r) as [[x|]| |] eqn:R; try discriminate.
  intros E. rewrite (d_steps_handle _ _ _ _ E). exact (d_root_handle _ _ _ _ R).
Qed.

(* hence the access that ends a chain on an on-demand region is never the bare dereference: it is a guard (or the
   chain was refused) *)
Lemma chain_guarded_lemma : forall m g r l f op, on_demand g = true -> chain_op m g r l f = Val op ->
  op = err_xop g \/ exists a goff glen w, d_chain m g r l = Val (Some a) /\
                       fin_plan m a f = Val (Some (goff, glen, w)) /\ op = XSliceGuard goff glen w.
Proof.
  intros m g r l f op D. unfold chain_op.
  destruct (d_chain m g r l) as [[a|]| |] eqn:C; try discriminate.
  - pose proof (handle_propagates_lemma _ _ _ _ _ C) as H. rewrite D in H.
    destruct (fin_plan m a f) as [[[[goff glen] w]|]| |] eqn:F; try discriminate.
    + rewrite H. intros E; inversion E. right. exists a, goff, glen, w. repeat split; assumption.
    + intros E; inversion E. left; reflexivity.
  - intros E; inversion E. left; reflexivity.
Qed.

(* ------------------------------------------------------------------ the pages a window names *)
Lemma gnt_refs_new_val m domid base : forall count i, base + i + N.of_nat count <= W32 ->
  gnt_refs_new m domid base i count = Val (map (fun k => (domid, base + i + N.of_nat k)) (seq 0 count)).
Proof.
  induction count as [|k IH]; intros i B; cbn [gnt_refs_new seq map]; [reflexivity|].
  assert (W : W32 = 4294967296) by reflexivity.
  rewrite (N.mod_small i) by lia.
  destruct (N.ltb_spec (base + i) W32) as [_|X]; [|lia]. cbn [bind].
  rewrite IH by lia. cbn [bind]. f_equal. f_equal; [f_equal; lia|].
  rewrite <- seq_shift, map_map. apply map_ext. intros a. f_equal. lia.
Qed.

Lemma grant_refs_loop_lemma : forall m domid base count, base + count <= 4294967296 ->
  gnt_refs_new m domid base 0 (N.to_nat count) = Val (named_refs domid base count).
Proof.
  intros m domid base count B. rewrite gnt_refs_new_val by (unfold W32; lia).
  unfold named_refs. f_equal. apply map_ext. intros a. f_equal. lia.
Qed.

Lemma refs_seq_named domid : forall n g k, 
  refs_seq domid (g + N.of_nat k) (map (fun i => (domid, g + N.of_nat i)) (seq k n)) = true.
Proof.
  induction n as [|n IH]; intros g k; cbn [seq map refs_seq]; [reflexivity|].
  rewrite !N.eqb_refl. cbn [andb].
  replace (g + N.of_nat k + 1) with (g + N.of_nat (S k)) by lia. apply IH.
Qed.

Lemma maps_named_add domid evs : maps_named domid (add_refs domid evs) = true.
Proof.
  induction evs as [|e r IH]; [reflexivity|].
  destruct e as [g c i|i c|l]; cbn [add_refs maps_named]; try exact IH.
  unfold named_refs. rewrite map_length, seq_length, N2Nat.id, N.eqb_refl. cbn [andb].
  pose proof (refs_seq_named domid (N.to_nat c) g 0) as R. rewrite N.add_0_r in R. rewrite R. exact IH.
Qed.

Lemma covered_strip ps gb evs t : covered ps gb (strip_refs evs) t = covered ps gb evs t.
Proof.
  unfold covered, strip_refs. induction evs as [|e r IH]; [reflexivity|].
  destruct e; cbn [filter existsb]; rewrite IH; reflexivity.
Qed.
Lemma covered_add d ps gb evs t : covered ps gb (add_refs d evs) t = covered ps gb evs t.
Proof.
  unfold covered. induction evs as [|e r IH]; [reflexivity|].
  destruct e; cbn [add_refs existsb orb]; rewrite IH; reflexivity.
Qed.

Lemma op_ok_strip c op p : op_ok c op (strip_op p) = op_ok c op p.
Proof.
  unfold op_ok, strip_op. cbn [p_r p_data p_live p_evs].
  destruct (touched (cx_size c) op) as [[f n]|]; [|reflexivity]. rewrite covered_strip. reflexivity.
Qed.
Lemma op_ok_add d c op p : op_ok c op (add_refs_op d p) = op_ok c op p.
Proof.
  unfold op_ok, add_refs_op. cbn [p_r p_data p_live p_evs].
  destruct (touched (cx_size c) op) as [[f n]|]; [|reflexivity]. rewrite covered_add. reflexivity.
Qed.
Lemma ops_ok_map c (F : opobs -> opobs) : (forall op p, op_ok c op (F p) = op_ok c op p) ->
  forall ops os, ops_ok c ops (map F os) = ops_ok c ops os.
Proof.
  intros H. induction ops as [|op r IH]; intros [|p os]; cbn [map ops_ok]; try reflexivity.
  rewrite H, IH. reflexivity.
Qed.
Lemma ok_C17x_strip c o : ok_C17x c (strip_obs o) = ok_C17x c o.
Proof.
  unfold ok_C17x, strip_obs. cbn [ox_built ox_ops ox_mapped_alive ox_mapped_end ox_live_end].
  rewrite (ops_ok_map c strip_op (op_ok_strip c)). reflexivity.
Qed.
Lemma ok_C17x_add d c o : ok_C17x c (add_refs_obs d o) = ok_C17x c o.
Proof.
  unfold ok_C17x, add_refs_obs. cbn [ox_built ox_ops ox_mapped_alive ox_mapped_end ox_live_end].
  rewrite (ops_ok_map c (add_refs_op d) (op_ok_add d c)). reflexivity.
Qed.

Lemma named_add_obs d o : forallb (fun p => maps_named d (p_evs p)) (ox_ops (add_refs_obs d o)) = true.
Proof.
  unfold add_refs_obs. cbn [ox_ops]. induction (ox_ops o) as [|p r IH]; [reflexivity|].
  cbn [map forallb add_refs_op p_evs]. rewrite maps_named_add. exact IH.
Qed.

Lemma ok_C17xn_of_x c o : ok_C17x c o = true ->
  ok_C17xn c (add_refs_obs (case_domid (cx_gbase c) (cx_page c)) o) = true.
Proof.
  intros H. unfold ok_C17xn. rewrite ok_C17x_strip, ok_C17x_add, H, named_add_obs. reflexivity.
Qed.

Lemma C17xn_model_ok_lemma : forall c ops, wf17x c -> xops_of (cx_ops c) = Some ops -> no_unguarded c ->
  ok_C17xn c (run_C17xn c ops) = true.
Proof.
  intros c ops W X NU. unfold run_C17xn. apply ok_C17xn_of_x. exact (C17x_model_ok_lemma c ops W X NU).
Qed.

(* ------------------------------------------------------------------ the slice / object / exact forms (round w7b):
   reporting a completed basic operation as Err keeps the history checker satisfied (Err demands less than done) *)
Lemma op_ok_force c op f p : op_ok c op p = true -> op_ok c op (force_op f p) = true.
Proof.
  unfold force_op. destruct f; cbn [andb]; [|auto].
  destruct (N.eqb_spec (p_r p) 1) as [E|_]; [|auto].
  unfold op_ok. rewrite E. cbn [p_r p_data p_live p_evs].
  change (1 =? 1) with true. change (0 =? 1) with false.
  destruct (p_data p =? 1); cbn [andb]; [|auto].
  destruct (cx_rkind c =? 3); [|auto].
  destruct (p_live p =? 0); cbn [andb]; [|auto].
  destruct (touched (cx_size c) op) as [[a n]|]; [|auto].
  rewrite andb_false_r. auto.
Qed.
Lemma ops_ok_force c : forall ops os fl, ops_ok c ops os = true -> ops_ok c ops (force_err fl os) = true.
Proof.
  induction ops as [|op r IH]; intros [|p os] fl H; cbn [force_err]; try exact H.
  - destruct fl; exact H.
  - destruct fl as [|f fr]; [exact H|]. cbn [ops_ok] in *. apply andb_true_iff in H. destruct H as [H1 H2].
    rewrite (op_ok_force c op f p H1), (IH os fr H2). reflexivity.
Qed.
Lemma strip_force fl : forall os, map strip_op (force_err fl os) = force_err fl (map strip_op os).
Proof.
  induction fl as [|f fr IH]; intros [|p os]; cbn [force_err map]; try reflexivity.
  rewrite IH. f_equal. unfold force_op, strip_op. cbn [p_r]. destruct (f && (p_r p =? 1)); reflexivity.
Qed.
Lemma named_force d fl : forall os, forallb (fun p => maps_named d (p_evs p)) (force_err fl os) =
                                    forallb (fun p => maps_named d (p_evs p)) os.
Proof.
  induction fl as [|f fr IH]; intros [|p os]; cbn [force_err forallb]; try reflexivity.
  rewrite IH. f_equal. unfold force_op. destruct (f && (p_r p =? 1)); reflexivity.
Qed.
Lemma ok_C17xn_force c fl o : ok_C17xn c o = true -> ok_C17xn c (force_err_obs fl o) = true.
Proof.
  unfold ok_C17xn. intros H. apply andb_true_iff in H. destruct H as [H1 H2].
  unfold force_err_obs at 2. cbn [ox_ops]. rewrite named_force, H2, andb_true_r.
  revert H1. unfold ok_C17x, strip_obs, force_err_obs.
  cbn [ox_built ox_ops ox_mapped_alive ox_mapped_end ox_live_end]. rewrite strip_force.
  destruct (ox_built o =? 1); [|auto]. intros H. apply andb_true_iff in H. destruct H as [H H5].
  apply andb_true_iff in H. destruct H as [H H4]. apply andb_true_iff in H. destruct H as [H H3].
  rewrite (ops_ok_force c _ _ fl H), H3, H4, H5. reflexivity.
Qed.
Lemma C17xb_model_ok_lemma : forall c ops fl, wf17x c -> xops_of (cx_ops c) = Some ops -> no_unguarded c ->
  ok_C17xn c (force_err_obs fl (run_C17xn c ops)) = true.
Proof. intros c ops fl W X NU. apply ok_C17xn_force. exact (C17xn_model_ok_lemma c ops W X NU). Qed.
