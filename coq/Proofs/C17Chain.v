(* C17 - derivation chains: the mapping handle is passed on by every derivation (worker w7). *)
From VM Require Import Prelude.MachInt Prelude.Outcome Prelude.Tok Impl.MmapBuild Impl.Xen Spec.C17 Suite.C17
  Proofs.C17 Proofs.C17Hist.

(* ------------------------------------------------------------------ the handle *)
Lemma d_subslice_handle off len h o c a : d_subslice off len h o c = Val (Some a) -> acc_h a = h.
Proof. unfold d_subslice. destruct (end_offset len o c); intros E; inversion E; reflexivity. Qed.

Lemma d_ref_of_handle s t a h : (forall x, s = Val (Some x) -> acc_h x = h) ->
  d_ref_of s t = Val (Some a) -> acc_h a = h.
Proof.
  intros S. unfold d_ref_of. destruct s as [[[so sl sh|? ? ?|? ? ? ?]|]| |]; try discriminate.
  destruct (sl =? t); cbn [passert bind]; [|discriminate]. intros E; inversion E; subst. exact (S _ eq_refl).
Qed.

Lemma d_arr_of_handle get t n a h : (forall nb x, get nb = Val (Some x) -> acc_h x = h) ->
  d_arr_of get t n = Val (Some a) -> acc_h a = h.
Proof.
  intros S. unfold d_arr_of. destruct (isz_mul n t) as [nb|]; [|discriminate].
  destruct (get nb) as [[[so sl sh|? ? ?|? ? ? ?]|]| |] eqn:G; try discriminate.
  destruct (sl =? nb); cbn [passert bind]; [|discriminate]. intros E; inversion E; subst. exact (S _ _ G).
Qed.

Lemma r_get_slice_handle g off cnt a : r_get_slice g off cnt = Val (Some a) -> acc_h a = on_demand g.
Proof. unfold r_get_slice. destruct (end_offset (xr_size g) off cnt); intros E; inversion E; reflexivity. Qed.

Lemma d_root_handle m g r a : d_root m g r = Val (Some a) -> acc_h a = on_demand g.
Proof.
  destruct r as [off cnt| |off t|off t n]; cbn [d_root].
  - apply r_get_slice_handle.
  - apply r_get_slice_handle.
  - apply d_ref_of_handle. intros x. apply r_get_slice_handle.
  - apply d_arr_of_handle. intros nb x. apply r_get_slice_handle.
Qed.

Lemma d_step_handle m a s a' : d_step m a s = Val (Some a') -> acc_h a' = acc_h a.
Proof.
  destruct a as [off len h|off t h|off t n h]; destruct s; cbn [d_step acc_h]; try discriminate;
    try (intros E; inversion E; reflexivity).
  - apply d_subslice_handle.
  - destruct (len <? o); intros E; inversion E; reflexivity.
  - destruct (len <? mid); intros E; inversion E; reflexivity.
  - destruct (len <? mid); intros E; inversion E; reflexivity.
  - apply d_subslice_handle.
  - apply d_ref_of_handle. intros x. apply d_subslice_handle.
  - apply d_arr_of_handle. intros nb x. apply d_subslice_handle.
  - destruct (d_subslice off len h 0 len) as [[x|]| |] eqn:S; try discriminate.
    intros E; inversion E; subst. exact (d_subslice_handle _ _ _ _ _ _ S).
  - destruct (pmul m 1122 n t); cbn [bind]; try discriminate. intros E; inversion E; reflexivity.
  - destruct (i <? n); cbn [passert bind]; [|discriminate].
    destruct (pmul m 1140 t i); cbn [bind]; try discriminate. intros E; inversion E; reflexivity.
Qed.

Lemma d_steps_handle m l : forall a a', d_steps m a l = Val (Some a') -> acc_h a' = acc_h a.
Proof.
  induction l as [|s l IH]; intros a a'; cbn [d_steps].
  - intros E; inversion E; reflexivity.
  - destruct (d_step m a s) as [[x|]| |] eqn:S; try discriminate.
    intros E. rewrite (IH _ _ E). exact (d_step_handle _ _ _ _ S).
Qed.

(* for every chain, of any length, the final accessor carries the mapping handle of the region it was derived from *)
Lemma handle_propagates_lemma : forall m g r l a, d_chain m g r l = Val (Some a) -> acc_h a = on_demand g.
Proof.
  intros m g r l a. unfold d_chain. destruct (d_root m g r) as [[x|]| |] eqn:R; try discriminate.
  intros E. rewrite (d_steps_handle _ _ _ _ E). exact (d_root_handle _ _ _ _ R).
Qed.

(* hence the access that ends a chain on an on-demand region is never the bare dereference: it is a guard (or the
   chain was refused) *)
Lemma chain_guarded_lemma : forall m g r l f op, on_demand g = true -> chain_op m g r l f = Val op ->
  op = err_xop g \/ exists a goff glen w, d_chain m g r l = Val (Some a) /\
                       fin_plan m a f = Val (Some (goff, glen, w)) /\ op = XSliceGuard goff glen w.
Proof.
  intros m g r l f op D. unfold chain_op.
  destruct (d_chain m g r l) as [[a|]| |] eqn:C; try discriminate.
  - pose proof (handle_propagates_lemma _ _ _ _ _ C) as H. rewrite D in H.
    destruct (fin_plan m a f) as [[[[goff glen] w]|]| |] eqn:F; try discriminate.
    + rewrite H. intros E; inversion E. right. exists a, goff, glen, w. repeat split; assumption.
    + intros E; inversion E. left; reflexivity.
  - intros E; inversion E. left; reflexivity.
Qed.

(* ------------------------------------------------------------------ the pages a window names *)
Lemma gnt_refs_new_val m domid base : forall count i, base + i + N.of_nat count <= W32 ->
  gnt_refs_new m domid base i count = Val (map (fun k => (domid, base + i + N.of_nat k)) (seq 0 count)).
Proof.
  induction count as [|k IH]; intros i B; cbn [gnt_refs_new seq map]; [reflexivity|].
  assert (W : W32 = 4294967296) by reflexivity.
  rewrite (N.mod_small i) by lia.
  destruct (N.ltb_spec (base + i) W32) as [_|X]; [|lia]. cbn [bind].
  rewrite IH by lia. cbn [bind]. f_equal. f_equal; [f_equal; lia|].
  rewrite <- seq_shift, map_map. apply map_ext. intros a. f_equal. lia.
Qed.

Lemma grant_refs_loop_lemma : forall m domid base count, base + count <= 4294967296 ->
  gnt_refs_new m domid base 0 (N.to_nat count) = Val (named_refs domid base count).
Proof.
  intros m domid base count B. rewrite gnt_refs_new_val by (unfold W32; lia).
  unfold named_refs. f_equal. apply map_ext. intros a. f_equal. lia.
Qed.

Lemma refs_seq_named domid : forall n g k, 
  refs_seq domid (g + N.of_nat k) (map (fun i => (domid, g + N.of_nat i)) (seq k n)) = true.
Proof.
  induction n as [|n IH]; intros g k; cbn [seq map refs_seq]; [reflexivity|].
  rewrite !N.eqb_refl. cbn [andb].
  replace (g + N.of_nat k + 1) with (g + N.of_nat (S k)) by lia. apply IH.
Qed.

Lemma maps_named_add domid evs : maps_named domid (add_refs domid evs) = true.
Proof.
  induction evs as [|e r IH]; [reflexivity|].
  destruct e as [g c i|i c|l]; cbn [add_refs maps_named]; try exact IH.
  unfold named_refs. rewrite map_length, seq_length, N2Nat.id, N.eqb_refl. cbn [andb].
  pose proof (refs_seq_named domid (N.to_nat c) g 0) as R. rewrite N.add_0_r in R. rewrite R. exact IH.
Qed.

Lemma covered_strip ps gb evs t : covered ps gb (strip_refs evs) t = covered ps gb evs t.
Proof.
  unfold covered, strip_refs. induction evs as [|e r IH]; [reflexivity|].
  destruct e; cbn [filter existsb]; rewrite IH; reflexivity.
Qed.
Lemma covered_add d ps gb evs t : covered ps gb (add_refs d evs) t = covered ps gb evs t.
Proof.
  unfold covered. induction evs as [|e r IH]; [reflexivity|].
  destruct e; cbn [add_refs existsb orb]; rewrite IH; reflexivity.
Qed.

Lemma op_ok_strip c op p : op_ok c op (strip_op p) = op_ok c op p.
Proof.
  unfold op_ok, strip_op. cbn [p_r p_data p_live p_evs].
  destruct (touched (cx_size c) op) as [[f n]|]; [|reflexivity]. rewrite covered_strip. reflexivity.
Qed.
Lemma op_ok_add d c op p : op_ok c op (add_refs_op d p) = op_ok c op p.
Proof.
  unfold op_ok, add_refs_op. cbn [p_r p_data p_live p_evs].
  destruct (touched (cx_size c) op) as [[f n]|]; [|reflexivity]. rewrite covered_add. reflexivity.
Qed.
Lemma ops_ok_map c (F : opobs -> opobs) : (forall op p, op_ok c op (F p) = op_ok c op p) ->
  forall ops os, ops_ok c ops (map F os) = ops_ok c ops os.
Proof.
  intros H. induction ops as [|op r IH]; intros [|p os]; cbn [map ops_ok]; try reflexivity.
  rewrite H, IH. reflexivity.
Qed.
Lemma ok_C17x_strip c o : ok_C17x c (strip_obs o) = ok_C17x c o.
Proof.
  unfold ok_C17x, strip_obs. cbn [ox_built ox_ops ox_mapped_alive ox_mapped_end ox_live_end].
  rewrite (ops_ok_map c strip_op (op_ok_strip c)). reflexivity.
Qed.
Lemma ok_C17x_add d c o : ok_C17x c (add_refs_obs d o) = ok_C17x c o.
Proof.
  unfold ok_C17x, add_refs_obs. cbn [ox_built ox_ops ox_mapped_alive ox_mapped_end ox_live_end].
  rewrite (ops_ok_map c (add_refs_op d) (op_ok_add d c)). reflexivity.
Qed.

Lemma named_add_obs d o : forallb (fun p => maps_named d (p_evs p)) (ox_ops (add_refs_obs d o)) = true.
Proof.
  unfold add_refs_obs. cbn [ox_ops]. induction (ox_ops o) as [|p r IH]; [reflexivity|].
  cbn [map forallb add_refs_op p_evs]. rewrite maps_named_add. exact IH.
Qed.

Lemma ok_C17xn_of_x c o : ok_C17x c o = true ->
  ok_C17xn c (add_refs_obs (case_domid (cx_gbase c) (cx_page c)) o) = true.
Proof.
  intros H. unfold ok_C17xn. rewrite ok_C17x_strip, ok_C17x_add, H, named_add_obs. reflexivity.
Qed.

Lemma C17xn_model_ok_lemma : forall c ops, wf17x c -> xops_of (cx_ops c) = Some ops -> no_unguarded c ->
  ok_C17xn c (run_C17xn c ops) = true.
Proof.
  intros c ops W X NU. unfold run_C17xn. apply ok_C17xn_of_x. exact (C17x_model_ok_lemma c ops W X NU).
Qed.

(* ------------------------------------------------------------------ the slice / object / exact forms (round w7b):
   reporting a completed basic operation as Err keeps the history checker satisfied (Err demands less than done) *)
Lemma op_ok_force c op f p : op_ok c op p = true -> op_ok c op (force_op f p) = true.
Proof.
  unfold force_op. destruct f; cbn [andb]; [|auto].
  destruct (N.eqb_spec (p_r p) 1) as [E|_]; [|auto].
  unfold op_ok. rewrite E. cbn [p_r p_data p_live p_evs].
  change (1 =? 1) with true. change (0 =? 1) with false.
  destruct (p_data p =? 1); cbn [andb]; [|auto].
  destruct (cx_rkind c =? 3); [|auto].
  destruct (p_live p =? 0); cbn [andb]; [|auto].
  destruct (touched (cx_size c) op) as [[a n]|]; [|auto].
  rewrite andb_false_r. auto.
Qed.
Lemma ops_ok_force c : forall ops os fl, ops_ok c ops os = true -> ops_ok c ops (force_err fl os) = true.
Proof.
  induction ops as [|op r IH]; intros [|p os] fl H; cbn [force_err]; try exact H.
  - destruct fl; exact H.
  - destruct fl as [|f fr]; [exact H|]. cbn [ops_ok] in *. apply andb_true_iff in H. destruct H as [H1 H2].
    rewrite (op_ok_force c op f p H1), (IH os fr H2). reflexivity.
Qed.
Lemma strip_force fl : forall os, map strip_op (force_err fl os) = force_err fl (map strip_op os).
Proof.
  induction fl as [|f fr IH]; intros [|p os]; cbn [force_err map]; try reflexivity.
  rewrite IH. f_equal. unfold force_op, strip_op. cbn [p_r]. destruct (f && (p_r p =? 1)); reflexivity.
Qed.
Lemma named_force d fl : forall os, forallb (fun p => maps_named d (p_evs p)) (force_err fl os) =
                                    forallb (fun p => maps_named d (p_evs p)) os.
Proof.
  induction fl as [|f fr IH]; intros [|p os]; cbn [force_err forallb]; try reflexivity.
  rewrite IH. f_equal. unfold force_op. destruct (f && (p_r p =? 1)); reflexivity.
Qed.
Lemma ok_C17xn_force c fl o : ok_C17xn c o = true -> ok_C17xn c (force_err_obs fl o) = true.
Proof.
  unfold ok_C17xn. intros H. apply andb_true_iff in H. destruct H as [H1 H2].
  unfold force_err_obs at 2. cbn [ox_ops]. rewrite named_force, H2, andb_true_r.
  revert H1. unfold ok_C17x, strip_obs, force_err_obs.
  cbn [ox_built ox_ops ox_mapped_alive ox_mapped_end ox_live_end]. rewrite strip_force.
  destruct (ox_built o =? 1); [|auto]. intros H. apply andb_true_iff in H. destruct H as [H H5].
  apply andb_true_iff in H. destruct H as [H H4]. apply andb_true_iff in H. destruct H as [H H3].
  rewrite (ops_ok_force c _ _ fl H), H3, H4, H5. reflexivity.
Qed.
Lemma C17xb_model_ok_lemma : forall c ops fl, wf17x c -> xops_of (cx_ops c) = Some ops -> no_unguarded c ->
  ok_C17xn c (force_err_obs fl (run_C17xn c ops)) = true.
Proof. intros c ops fl W X NU. apply ok_C17xn_force. exact (C17xn_model_ok_lemma c ops W X NU). Qed.

(* ------------------------------------------------------------------ model geometry = spec geometry (round w7c) *)
Definition erase (a : accx) : sacc :=
  match a with AxS o l _ => SS o l | AxR o t _ => SR o t | AxA o t n _ => SA o t n end.

Ltac code4 k H :=
  let p := fresh "p" in
  destruct (k_code k) as [|p] eqn:KC;
  [|destruct p as [p|p|]; [destruct p as [p|p|]; [destruct p as [p|p|]; [destruct p as [p|p|]|destruct p as [p|p|]|]
                                                 |destruct p as [p|p|]; [destruct p as [p|p|]|destruct p as [p|p|]|]|]
                          |destruct p as [p|p|]; [destruct p as [p|p|]; [destruct p as [p|p|]|destruct p as [p|p|]|]
                                                 |destruct p as [p|p|]; [destruct p as [p|p|]|destruct p as [p|p|]|]|]|]];
  try discriminate H.

Ltac leb_all :=
  repeat match goal with
         | |- context [?x <=? ?y] => destruct (N.leb_spec x y)
         | |- context [?x <? ?y] => destruct (N.ltb_spec x y)
         | |- context [?x =? ?y] => destruct (N.eqb_spec x y)
         end.

Lemma d_subslice_geo off len h o c :
  match d_subslice off len h o c with
  | Val (Some a') => a' = AxS (off + o) c h /\ o + c <= len
  | Val None => True | _ => False end.
Proof.
  unfold d_subslice. destruct (end_offset len o c) as [e|] eqn:E; [|exact I].
  apply end_offset_Some in E. split; [reflexivity|lia].
Qed.

Lemma d_subslice_full off len h : len < W64 -> d_subslice off len h 0 len = Val (Some (AxS (off + 0) len h)).
Proof.
  intros L. unfold d_subslice, end_offset, checked_add. rewrite N.add_0_l.
  destruct (N.ltb_spec len W64); [|lia]. destruct (N.ltb_spec len len); [lia|]. reflexivity.
Qed.

Ltac fin :=
  cbn [erase acc_hi bind passert]; rewrite ?N.eqb_refl; cbn [erase acc_hi bind passert]; leb_all; try lia; try exact I;
  try (split; [try reflexivity; repeat f_equal; lia | cbn [acc_hi]; nia]); try reflexivity.

Lemma step_agree m size a k s : step_of k = Some s -> acc_hi a <= size -> size <= ISZ_MAX ->
  match d_step m a s with
  | Val (Some a') => s_step (erase a) k = Some (erase a') /\ acc_hi a' <= size
  | Val None => True
  | Panic _ => s_step (erase a) k = None
  | OutOfFuel => False
  end.
Proof.
  intros S IB SZ. assert (WB : ISZ_MAX < W64) by (rewrite W64_val; reflexivity).
  unfold step_of in S. code4 k S;
    try (destruct (k_b k =? 0) eqn:BZ; [discriminate S|]); inversion S; subst s; clear S;
    destruct a as [off len h|off t h|off t n h]; cbn [d_step erase acc_hi] in *; try exact I; unfold s_step; rewrite KC.
  all: try (rewrite d_subslice_full by lia).
  all: try (unfold d_arr_of; destruct (isz_mul _ _) as [nb|] eqn:IM; [apply isz_mul_Some in IM; destruct IM as [-> IM]|exact I]).
  all: try match goal with
       | |- context [d_subslice ?off ?len ?h ?o ?c] =>
           pose proof (d_subslice_geo off len h o c) as G; destruct (d_subslice off len h o c) as [[x|]| |];
           [destruct G as [-> G]| | destruct G | destruct G]
       end.
  all: cbn [d_ref_of bind passert]; rewrite ?N.eqb_refl; cbn [d_ref_of bind passert].
  all: try (rewrite pmul_Val by nia).
  all: fin.
  cbn [passert bind]. rewrite pmul_Val by nia. cbn [bind erase acc_hi].
  split; [f_equal; f_equal; lia|nia].
Qed.

Lemma steps_agree m size : forall ks l a, map_opt step_of ks = Some l -> acc_hi a <= size -> size <= ISZ_MAX ->
  match d_steps m a l with
  | Val (Some a') => s_steps (erase a) ks = Some (erase a') /\ acc_hi a' <= size
  | Val None => True
  | Panic _ => s_steps (erase a) ks = None
  | OutOfFuel => False
  end.
Proof.
  induction ks as [|k ks IH]; intros l a M IB SZ; cbn [map_opt] in M.
  - inversion M; subst l. cbn [d_steps s_steps]. split; [reflexivity|exact IB].
  - destruct (step_of k) as [s|] eqn:S; [|discriminate]. destruct (map_opt step_of ks) as [l'|] eqn:M'; [|discriminate].
    inversion M; subst l. cbn [d_steps s_steps].
    pose proof (step_agree m size a k s S IB SZ) as A.
    destruct (d_step m a s) as [[a1|]| |]; try exact A.
    + destruct A as [A1 A2]. rewrite A1. exact (IH l' a1 eq_refl A2 SZ).
    + rewrite A. reflexivity.
Qed.

Lemma root_agree m g k r : root_of k = Some r -> xr_size g <= ISZ_MAX ->
  match d_root m g r with
  | Val (Some a) => s_root (xr_size g) k = Some (erase a) /\ acc_hi a <= xr_size g
  | Val None => True
  | Panic _ => s_root (xr_size g) k = None
  | OutOfFuel => False
  end.
Proof.
  intros S SZ. assert (WB : ISZ_MAX < W64) by (rewrite W64_val; reflexivity).
  unfold root_of in S. code4 k S;
    try (destruct (k_b k =? 0) eqn:BZ; [discriminate S|]); inversion S; subst r; clear S;
    cbn [d_root]; unfold s_root; rewrite KC.
  all: try (unfold d_arr_of; destruct (isz_mul _ _) as [nb|] eqn:IM; [apply isz_mul_Some in IM; destruct IM as [-> IM]|exact I]).
  all: unfold r_get_slice.
  all: try match goal with
       | |- context [end_offset ?len ?o ?c] =>
           destruct (end_offset len o c) as [e|] eqn:E; [apply end_offset_Some in E; destruct E as [_ E]|]
       end.
  all: cbn [d_ref_of bind passert]; rewrite ?N.eqb_refl; cbn [d_ref_of bind passert].
  all: fin.
Qed.

Lemma final_agree m size a k f : final_of k = Some f -> acc_hi a <= size -> size <= ISZ_MAX ->
  match fin_plan m a f with
  | Val (Some (go, gl, w)) => s_final (erase a) k = Some (go, gl, w) /\ go + gl <= size
  | Val None => True
  | Panic _ => s_final (erase a) k = None
  | OutOfFuel => False
  end.
Proof.
  intros S IB SZ. assert (WB : ISZ_MAX < W64) by (rewrite W64_val; reflexivity).
  unfold final_of in S. code4 k S; inversion S; subst f; clear S;
    destruct a as [off len h|off t h|off t n h]; cbn [fin_plan guard_len erase acc_hi] in *; try exact I; unfold s_final; rewrite KC.
  all: try (rewrite pmul_Val by nia).
  all: cbn [bind].
  all: try (split; [reflexivity|lia]).
  all: destruct (N.ltb_spec (k_a k) n); cbn [passert bind]; [|reflexivity].
  all: rewrite pmul_Val by nia; cbn [bind]; split; [f_equal; f_equal; f_equal; lia|nia].
Qed.

Lemma chain_agree c g r l f : root_of (cc_root c) = Some r -> map_opt step_of (cc_steps c) = Some l ->
  final_of (cc_final c) = Some f -> xr_size g = cc_size c -> cc_size c <= ISZ_MAX ->
  match chain_op (cc_mode c) g r l f with
  | Val op => op = err_xop g \/
              exists go gl w, s_touched c = Some (go, gl, w) /\ go + gl <= cc_size c /\
                              op = (if on_demand g then XSliceGuard go gl w else XCopyToVS go gl)
  | Panic _ => s_touched c = None
  | OutOfFuel => False
  end.
Proof.
  intros R L F SG SZ. unfold chain_op, s_touched.
  pose proof (handle_propagates_lemma (cc_mode c) g r l) as HP. unfold d_chain in *.
  pose proof (root_agree (cc_mode c) g (cc_root c) r R ltac:(rewrite SG; exact SZ)) as RA. rewrite SG in RA.
  destruct (d_root (cc_mode c) g r) as [[a0|]| |]; try (left; reflexivity); try exact RA.
  2: { rewrite RA. reflexivity. }
  destruct RA as [RA1 RA2]. rewrite RA1.
  pose proof (steps_agree (cc_mode c) (cc_size c) (cc_steps c) l a0 L RA2 SZ) as SA.
  destruct (d_steps (cc_mode c) a0 l) as [[a|]| |]; try (left; reflexivity); try exact SA.
  2: { rewrite SA. reflexivity. }
  destruct SA as [SA1 SA2]. rewrite SA1.
  pose proof (final_agree (cc_mode c) (cc_size c) a (cc_final c) f F SA2 SZ) as FA.
  destruct (fin_plan (cc_mode c) a f) as [[[[go gl] w]|]| |]; try (left; reflexivity); try exact FA.
  destruct FA as [FA1 FA2]. right. exists go, gl, w. rewrite (HP a eq_refl). repeat split; assumption.
Qed.

Lemma op_ok_r0 c c' op op' p : p_r p = 0 -> cx_rkind c = cx_rkind c' -> op_ok c op p = op_ok c' op' p.
Proof.
  intros R K. destruct p as [r d lv evs]. cbn [p_r] in R. subst r. unfold op_ok. cbn [p_r p_data p_live p_evs]. rewrite K.
  change (0 =? 1) with false.
  destruct (touched (cx_size c) op) as [[? n]|], (touched (cx_size c') op') as [[? n']|]; rewrite ?andb_false_r; reflexivity.
Qed.

Lemma run_op_err m o g : xr_size g + 1 < W64 -> run_op m o g (err_xop g) = ([], RErr).
Proof.
  intros B. unfold run_op, err_xop, op_plan, end_offset, checked_add. rewrite N.add_0_r.
  destruct (N.ltb_spec (xr_size g + 1) W64); [|lia]. destruct (N.ltb_spec (xr_size g) (xr_size g + 1)); [|lia]. reflexivity.
Qed.

Lemma run_op_nod m o g go gl w : on_demand g = false -> go + gl <= xr_size g -> xr_size g < W64 ->
  run_op m o g (XCopyToVS go gl) = run_op m o g (XSliceGuard go gl w).
Proof.
  intros D I B. unfold run_op, op_plan, end_offset, checked_add.
  destruct (N.ltb_spec (go + gl) W64); [|lia]. destruct (N.ltb_spec (xr_size g) (go + gl)); [lia|].
  rewrite D. unfold guarded. rewrite D. reflexivity.
Qed.

Lemma ok_panic d c o p x : cx_ops c = [x] -> touched (cx_size c) x = None -> ox_ops o = [p] -> p_evs p = [] ->
  ok_C17x c o = true -> ok_C17xn c (as_panic (add_refs_obs d o)) = true.
Proof.
  intros CO T OO PE H. destruct o as [bu os al me le]. cbn [ox_ops] in OO. subst os.
  destruct p as [r dd lv evs]. cbn [p_evs] in PE. subst evs.
  unfold ok_C17xn, strip_obs, as_panic, add_refs_obs, ok_C17x in *.
  cbn [ox_built ox_ops ox_mapped_alive ox_mapped_end ox_live_end map add_refs_op strip_op p_r p_data p_live p_evs add_refs
       strip_refs filter forallb maps_named] in *.
  rewrite CO in *. cbn [ops_ok] in *.
  destruct (bu =? 1); [|reflexivity].
  apply andb_true_iff in H. destruct H as [H H5]. apply andb_true_iff in H. destruct H as [H H4].
  apply andb_true_iff in H. destruct H as [H H3]. rewrite H3, H4, H5.
  unfold op_ok. cbn [p_r p_data p_live p_evs]. rewrite T. reflexivity.
Qed.

Lemma C17c_model_ok_lemma : forall c r l f, wf17x (case17x_of c) ->
  root_of (cc_root c) = Some r -> map_opt step_of (cc_steps c) = Some l -> final_of (cc_final c) = Some f ->
  ok_C17c c (run_C17c c r l f) = true.
Proof.
  intros c r l f W R L F. unfold ok_C17c, run_C17c.
  pose (xe := {| x_code := 2; x_off := cc_size c + 1; x_a := 0; x_b := 0; x_c := 0 |}).
  pose (cxE := {| cx_mode := cc_mode c; cx_rkind := cc_rkind c; cx_size := cc_size c; cx_gbase := cc_gbase c;
                  cx_page := cc_page c; cx_ops := [xe] |}).
  assert (WE : wf17x cxE) by exact W.
  pose proof W as [RK [Hps [Hal [H32 H63]]]]. cbn [case17x_of cx_rkind cx_page cx_gbase cx_size] in RK, Hps, Hal, H32, H63.
  assert (SZ : cc_size c <= ISZ_MAX) by (unfold ISZ_MAX; lia).
  assert (WB : ISZ_MAX < W64) by (rewrite W64_val; reflexivity).
  assert (WB2 : 9223372036854775808 < W64) by (rewrite W64_val; reflexivity).
  destruct (build17 (case17x_of c) W) as [NB | (g & l0 & E & S1 & S2 & OD & D3 & ld & DR & LE)].
  - (* the region is not built: nothing to judge *)
    assert (RN : region17 (case17x_of c) = None).
    { unfold region17. destruct (xen_from_range (cx_mode (case17x_of c)) (os17 (case17x_of c)) (range17 (case17x_of c)))
        as [[[g|e] l1]| |] eqn:E; try reflexivity. exfalso. exact (NB g l1 eq_refl). }
    rewrite RN. unfold run_C17xn. apply ok_C17xn_of_x. unfold run_C17x.
    destruct (xen_from_range (cx_mode (case17x_of c)) (os17 (case17x_of c)) (range17 (case17x_of c)))
      as [[[g|e] l1]| |] eqn:E; try reflexivity. exfalso. exact (NB g l1 eq_refl).
  - assert (RS : region17 (case17x_of c) = Some g) by (unfold region17; rewrite E; reflexivity).
    rewrite RS. cbn [case17x_of cx_size] in S1.
    (* the refused chain, as a history of the case whose one operation touches nothing *)
    assert (XOE : xops_of (cx_ops cxE) = Some [err_xop g]).
    { cbn. unfold err_xop. rewrite S1. reflexivity. }
    assert (NUE : no_unguarded cxE).
    { intros K x [<-|[]]. cbn. split; discriminate. }
    pose proof (C17x_model_ok_lemma cxE [err_xop g] WE XOE NUE) as HE.
    change (run_C17x cxE [err_xop g]) with (run_C17x (case17x_of c) [err_xop g]) in HE.
    assert (HEO : exists o p, run_C17x (case17x_of c) [err_xop g] = o /\ ox_ops o = [p] /\ p_r p = 0 /\ p_evs p = []).
    { unfold run_C17x. rewrite E. cbn [model_ops]. rewrite run_op_err by (rewrite S1; lia).
      cbv beta iota zeta. eexists. eexists. split; [reflexivity|]. cbn [ox_ops p_r p_evs opres_code dev_evs flat_map].
      repeat split; reflexivity. }
    destruct HEO as (oE & pE & EO & EO1 & EO2 & EO3). rewrite EO in HE.
    assert (HERR : ok_C17x (case17x_of c) oE = true).
    { revert HE. unfold ok_C17x. rewrite EO1. cbn [case17x_of cx_ops cx_rkind cxE ops_ok].
      rewrite (op_ok_r0 (case17x_of c) cxE (chain_xopc c) xe pE EO2 eq_refl). auto. }
    pose proof (chain_agree c g r l f R L F S1 SZ) as CA.
    destruct (chain_op (cc_mode c) g r l f) as [op| |].
    + unfold run_C17xn. apply ok_C17xn_of_x.
      destruct CA as [-> | (go & gl & w & ST & IN & ->)].
      * rewrite EO. exact HERR.
      * assert (HG : ok_C17x (case17x_of c) (run_C17x (case17x_of c) [XSliceGuard go gl w]) = true).
        { apply C17x_model_ok_lemma; [exact W| |].
          - cbn [case17x_of cx_ops]. unfold chain_xopc. rewrite ST. cbn. destruct w; reflexivity.
          - intros K x [<-|[]]. unfold chain_xopc. rewrite ST. cbn. split; discriminate. }
        destruct (on_demand g) eqn:D; [exact HG|].
        unfold run_C17x in *. rewrite E in *. cbn [model_ops] in *.
        rewrite (run_op_nod _ _ g go gl w D ltac:(lia) ltac:(lia)). exact HG.
    + (* a derivation that panics designates nothing *)
      unfold run_C17xn. rewrite EO.
      apply (ok_panic _ (case17x_of c) oE pE (chain_xopc c)); try assumption; try reflexivity.
      unfold chain_xopc. rewrite CA. cbn [case17x_of cx_size]. unfold touched. cbn [x_code x_off x_a].
      destruct (N.leb_spec (cc_size c + 1 + 0) (cc_size c)); [lia|reflexivity].
    + destruct CA.
Qed.
