(* C17 - derivation chains: the mapping handle is passed on by every derivation (worker w7). *)
From VM Require Import Prelude.MachInt Prelude.Outcome Prelude.Tok Impl.MmapBuild Impl.Xen Spec.C17 Suite.C17
  Proofs.C17 Proofs.C17Hist.

(* ------------------------------------------------------------------ the handle *)
Lemma d_subslice_handle off len h o c a : d_subslice off len h o c = Val (Some a) -> acc_h a = h.
Proof. unfold d_subslice. destruct (end_offset len o c); intros E; inversion E; reflexivity. Qed.

Lemma d_ref_of_handle s t a h : (forall x, s = Val (Some x) -> acc_h x = h) ->
  d_ref_of s t = Val (Some a) -> acc_h a = h.
Proof.
  intros S. unfold d_ref_of. destruct s as [[[so sl sh|? ? ?|? ? ? ?]|]| |]; try discriminate.
  destruct (sl =? t); cbn [passert bind]; [|discriminate]. intros E; inversion E; subst. exact (S _ eq_refl).
Qed.

Lemma d_arr_of_handle get t n a h : (forall nb x, get nb = Val (Some x) -> acc_h x = h) ->
  d_arr_of get t n = Val (Some a) -> acc_h a = h.
Proof.
  intros S. unfold d_arr_of. destruct (isz_mul n t) as [nb|]; [|discriminate].
  destruct (get nb) as [[[so sl sh|? ? ?|? ? ? ?]|]| |] eqn:G; try discriminate.
  destruct (sl =? nb); cbn [passert bind]; [|discriminate]. intros E; inversion E; subst. exact (S _ _ G).
Qed.

Lemma r_get_slice_handle g off cnt a : r_get_slice g off cnt = Val (Some a) -> acc_h a = on_demand g.
Proof. unfold r_get_slice. destruct (end_offset (xr_size g) off cnt); intros E; inversion E; reflexivity. Qed.

Lemma d_root_handle m g r a : d_root m g r = Val (Some a) -> acc_h a = on_demand g.
Proof.
  destruct r as [off cnt| |off t|off t n]; cbn [d_root].
  - apply r_get_slice_handle.
  - apply r_get_slice_handle.
  - apply d_ref_of_handle. intros x. apply r_get_slice_handle.
  - apply d_arr_of_handle. intros nb x. apply r_get_slice_handle.
Qed.

Lemma d_step_handle m a s a' : d_step m a s = Val (Some a') -> acc_h a' = acc_h a.
Proof.
  destruct a as [off len h|off t h|off t n h]; destruct s; cbn [d_step acc_h]; try discriminate;
    try (intros E; inversion E; reflexivity).
  - apply d_subslice_handle.
  - destruct (len <? o); intros E; inversion E; reflexivity.
  - destruct (len <? mid); intros E; inversion E; reflexivity.
  - destruct (len <? mid); intros E; inversion E; reflexivity.
  - apply d_subslice_handle.
  - apply d_ref_of_handle. intros x. apply d_subslice_handle.
  - apply d_arr_of_handle. intros nb x. apply d_subslice_handle.
  - destruct (d_subslice off len h 0 len) as [[x|]| |] eqn:S; try discriminate.
    intros E; inversion E; subst. exact (d_subslice_handle _ _ _ _ _ _ S).
  - destruct (pmul m 1122 n t); cbn [bind]; try discriminate. intros E; inversion E; reflexivity.
  - destruct (i <? n); cbn [passert bind]; [|discriminate].
    destruct (pmul m 1140 t i); cbn [bind]; try discriminate. intros E; inversion E; reflexivity.
Qed.

Lemma d_steps_handle m l : forall a a', d_steps m a l = Val (Some a') -> acc_h a' = acc_h a.
Proof.
  induction l as [|s l IH]; intros a a'; cbn [d_steps].
  - intros E; inversion E; reflexivity.
  - destruct (d_step m a s) as [[x|]| |] eqn:S; try discriminate.
    intros E. rewrite (IH _ _ E). exact (d_step_handle _ _ _ _ S).
Qed.

(* for every chain, of any length, the final accessor carries the mapping handle of the region it was derived from *)
Lemma handle_propagates_lemma : forall m g r l a, d_chain m g r l = Val (Some a) -> acc_h a = on_demand g.
Proof.
  intros m g r l a. unfold d_chain. destruct (d_root m g r) as [[x|]| |] eqn:R; try discriminate.
  intros E. rewrite (d_steps_handle _ _ _ _ E). exact (d_root_handle _ _ _ _ R).
Qed.

(* hence the access that ends a chain on an on-demand region is never the bare dereference: it is a guard (or the
   chain was refused) *)
Lemma chain_guarded_lemma : forall m g r l f op, on_demand g = true -> chain_op m g r l f = Val op ->
  op = err_xop g \/ exists a goff glen w, d_chain m g r l = Val (Some a) /\
                       fin_plan m a f = Val (Some (goff, glen, w)) /\ op = XSliceGuard goff glen w.
Proof.
  intros m g r l f op D. unfold chain_op.
  destruct (d_chain m g r l) as [[a|]| |] eqn:C; try discriminate.
  - pose proof (handle_propagates_lemma _ _ _ _ _ C) as H. rewrite D in H.
    destruct (fin_plan m a f) as [[[[goff glen] w]|]| |] eqn:F; try discriminate.
    + rewrite H. intros E; inversion E. right. exists a, goff, glen, w. repeat split; assumption.
    + intros E; inversion E. left; reflexivity.
  - intros E; inversion E. left; reflexivity.
Qed.
