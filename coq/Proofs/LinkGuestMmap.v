(* LINK L2 (C02/C03 <-> C10).
   Impl/Guest.v defines the provided methods of GuestMemory over an ABSTRACT find_region
   `find : layout -> N -> option nat`; Proofs/C02.v and Proofs/C03.v prove every C02 / C03 theorem
   for any `find` meeting the contract find_ok under any invariant implying wf_layout_gen, and
   instantiate it for a linear search only.  Impl/Mmap.v transcribes the REAL find_region of
   GuestMemoryMmap (binary search, src/mmap/mod.rs:499-507) and Proofs/Mmap.v proves
   find_region = mmap_find, mmap_find_spec and wf_preserved (every collection reachable through
   from_regions / insert_region / remove_region satisfies Mmap.wf_layout).

   This file closes the gap: [mmap_find_index] is the index-returning form of Mmap.mmap_find on
   Guest.v's layout type (regions = (start, len) pairs, rs = fst, rl = snd);
     mmap_find_index_region   it selects the region Mmap.mmap_find returns,
     mmap_find_region_code    hence it is what the fuelled / panicking transcription find_region computes,
     mmap_find_index_ok       it meets find_ok on every Mmap.wf_layout layout,
     mmap_wf_gen              Mmap.wf_layout implies wf_layout_gen,
     mmap_reachable_inv       every reachable collection of byte-carrying regions (Guest.mem) has
                              a layout satisfying the invariant,
   so that every find/inv-generic theorem of C02 and C03 is instantiated (the *_mmap definitions
   at the end, generated mechanically). *)
From Coq Require Import Sorting.Sorted.
From VM Require Import Prelude.MachInt Prelude.Outcome Impl.Address Impl.Guest Impl.Mmap.
From VM Require Import Proofs.Mmap Spec.C03 Proofs.C02 Proofs.C03.

Definition mmap_inv (L : layout) : Prop := Mmap.wf_layout fst snd L.

(* src/mmap/mod.rs:499-506: `index` of find_region (before `index.map(|x| self.regions[x].as_ref())`) *)
Definition mmap_find_index (L : layout) (a : N) : option nat :=
  match bs_contract (map fst L) a with
  | BsOk x => match nth_error L (N.to_nat x) with Some _ => Some (N.to_nat x) | None => None end
  | BsErr x =>
      if 0 <? x then
        match nth_error L (N.to_nat (x - 1)) with
        | Some p => if a <=? fst p + (snd p - 1) then Some (N.to_nat (x - 1)) else None
        | None => None
        end
      else None
  end.

Lemma mmap_find_index_region L a :
  Mmap.mmap_find fst snd L a = match mmap_find_index L a with Some i => nth_error L i | None => None end.
Proof.
  unfold Mmap.mmap_find, mmap_find_index. destruct (bs_contract (map fst L) a) as [x|x].
  - destruct (nth_error L (N.to_nat x)) as [p|] eqn:E; [rewrite E|]; reflexivity.
  - destruct (0 <? x); [|reflexivity].
    destruct (nth_error L (N.to_nat (x - 1))) as [p|] eqn:E; [|reflexivity].
    destruct (a <=? fst p + (snd p - 1)); [rewrite E|]; reflexivity.
Qed.

Lemma mmap_find_index_Some L a i : mmap_find_index L a = Some i -> exists p, nth_error L i = Some p.
Proof.
  unfold mmap_find_index. destruct (bs_contract (map fst L) a) as [x|x].
  - destruct (nth_error L (N.to_nat x)) as [p|] eqn:E; [|discriminate]. intros H; inversion H; subst. eauto.
  - destruct (0 <? x); [|discriminate].
    destruct (nth_error L (N.to_nat (x - 1))) as [p|] eqn:E; [|discriminate].
    destruct (a <=? fst p + (snd p - 1)); [|discriminate]. intros H; inversion H; subst. eauto.
Qed.

(* the transcription of the real code (bisection with fuel, get_unchecked / indexing panics,
   last_addr arithmetic in either build profile) returns the region at that index *)
Lemma mmap_find_region_code m L a : mmap_inv L ->
  Mmap.find_region fst snd m L a = Val (option_map (fun i => nth i L dreg) (mmap_find_index L a)).
Proof.
  intros H. rewrite (find_region_eq fst snd m L a H), mmap_find_index_region.
  destruct (mmap_find_index L a) as [i|] eqn:E; [|reflexivity].
  destruct (mmap_find_index_Some L a i E) as (p & Hp). rewrite Hp. cbn [option_map].
  rewrite (nth_error_nth L i dreg Hp). reflexivity.
Qed.

(* THE CONTRACT: the binary search answers the index of a region containing the address, None iff
   the address is unmapped *)
Lemma mmap_find_index_ok L a : mmap_inv L -> find_ok L a (mmap_find_index L a).
Proof.
  intros H. pose proof (mmap_find_index_region L a) as R. unfold find_ok.
  destruct (mmap_find_index L a) as [i|] eqn:E.
  - destruct (mmap_find_index_Some L a i E) as (p & Hp). rewrite Hp in R.
    apply (mmap_find_spec fst snd L H) in R. destruct R as (Hin & Hlo & Hhi).
    assert (Hok : Mmap.region_ok fst snd p). { destruct H as (Hf & _). rewrite Forall_forall in Hf. apply Hf. exact Hin. }
    destruct Hok as [Hk1 Hk2].
    split; [apply nth_error_Some; congruence|]. rewrite (nth_error_nth L i dreg Hp). unfold In_reg. lia.
  - intros (p & Hin & Hlo & Hhi).
    assert (Hok : Mmap.region_ok fst snd p). { destruct H as (Hf & _). rewrite Forall_forall in Hf. apply Hf. exact Hin. }
    destruct Hok as [Hk1 Hk2].
    assert (S : Mmap.mmap_find fst snd L a = Some p) by (apply (mmap_find_spec fst snd L H); repeat split; try assumption; lia).
    rewrite R in S. discriminate.
Qed.

Lemma SS_nth_rel {T} (R : T -> T -> Prop) (d : T) L : StronglySorted R L ->
  forall i j, (i < j)%nat -> (j < length L)%nat -> R (nth i L d) (nth j L d).
Proof.
  induction 1 as [|x l Hs IH Hf]; intros i j Hij Hj; cbn [length] in Hj; [lia|].
  destruct j as [|j]; [lia|]. destruct i as [|i]; cbn [nth].
  - rewrite Forall_forall in Hf. apply Hf. apply nth_In. lia.
  - apply IH; lia.
Qed.

(* the invariant GuestMemoryMmap maintains implies the one C02 / C03 assume *)
Lemma mmap_wf_gen L : mmap_inv L -> wf_layout_gen L.
Proof.
  intros H. pose proof H as (Hf & Hs & _). rewrite Forall_forall in Hf. split.
  - intros p Hp. destruct (Hf p Hp) as [H1 H2]. lia.
  - intros i j a Hi Hj [Hi1 Hi2] [Hj1 Hj2].
    assert (Hpi : In (nth i L dreg) L) by (apply nth_In; exact Hi).
    assert (Hpj : In (nth j L dreg) L) by (apply nth_In; exact Hj).
    assert (E : nth i L dreg = nth j L dreg) by (apply (mmap_find_unique fst snd L a _ _ H Hpi); [lia|exact Hpj|lia]).
    destruct (Nat.lt_trichotomy i j) as [Hlt|[Heq|Hgt]]; [exfalso|exact Heq|exfalso].
    + pose proof (SS_nth_rel _ dreg L Hs i j Hlt Hj) as Hr. cbv beta in Hr. rewrite E in Hr. lia.
    + pose proof (SS_nth_rel _ dreg L Hs j i Hgt Hi) as Hr. cbv beta in Hr. rewrite E in Hr. lia.
Qed.

(* in the shape the generic theorems take their two hypotheses *)
Lemma mmap_inv_wf : forall L, mmap_inv L -> wf_layout_gen L.
Proof. exact mmap_wf_gen. Qed.
Lemma mmap_find_contract : forall L a, mmap_inv L -> a < W64 -> find_ok L a (mmap_find_index L a).
Proof. intros L a H _. apply mmap_find_index_ok. exact H. Qed.

(* ------------------------------------------------------------------ collections of byte-carrying regions *)
Lemma wf_layout_map {A B} (f : A -> B) (rs rl : B -> N) (L : list A) :
  Mmap.wf_layout (fun x => rs (f x)) (fun x => rl (f x)) L -> Mmap.wf_layout rs rl (map f L).
Proof.
  intros (Hf & Hs & Hd). split; [|split].
  - apply Forall_map. exact Hf.
  - clear Hf Hd. induction Hs as [|x l Hs IH Hx]; cbn [map]; constructor; [exact IH|apply Forall_map; exact Hx].
  - clear Hf Hs. induction Hd as [|x l Hx Hd IH]; cbn [map]; constructor; [apply Forall_map; exact Hx|exact IH].
Qed.

Lemma shape_inv (M : mem) : Mmap.wf_layout rstart rlen M -> mmap_inv (shape M).
Proof. intros H. unfold mmap_inv, shape. apply wf_layout_map. exact H. Qed.

(* every GuestMemoryMmap obtainable from valid regions through new / from_regions /
   from_arc_regions / insert_region / remove_region, in any order and number, the regions
   carrying their bytes: its layout satisfies the invariant the C02 / C03 instances assume *)
Lemma mmap_reachable_inv md (M : mem) : reachable rstart rlen md M -> mmap_inv (shape M).
Proof. intros H. apply shape_inv. exact (wf_preserved_lemma rstart rlen md M H). Qed.
Lemma mmap_reachable_layout_inv md (L : layout) : reachable fst snd md L -> mmap_inv L.
Proof. intros H. exact (wf_preserved_lemma fst snd md L H). Qed.

Lemma mmap_reachable_lemma md (M : mem) : reachable rstart rlen md M ->
  mmap_inv (shape M) /\ wf_layout_gen (shape M) /\
  (forall a, find_ok (shape M) a (mmap_find_index (shape M) a)) /\
  (forall m a, Mmap.find_region fst snd m (shape M) a =
               Val (option_map (fun i => nth i (shape M) dreg) (mmap_find_index (shape M) a))).
Proof.
  intros H. pose proof (mmap_reachable_inv md M H) as HI.
  split; [exact HI|]. split; [apply mmap_wf_gen; exact HI|].
  split; [intros a; apply mmap_find_index_ok; exact HI|]. intros m a. apply mmap_find_region_code. exact HI.
Qed.

(* on a valid layout the binary search and the linear search of the C02 / C03 suites agree *)
Lemma mmap_find_is_linear L a : mmap_inv L -> a < W64 -> mmap_find_index L a = find_lin L a.
Proof.
  intros H Ha. pose proof (mmap_find_index_ok L a H) as S1. pose proof (find_lin_spec L a) as S2.
  pose proof (mmap_wf_gen L H) as (_ & Hu).
  destruct (mmap_find_index L a) as [i|], (find_lin L a) as [j|]; cbn [find_ok] in S1, S2.
  - destruct S1 as [Hi Hri]. destruct S2 as [Hj Hrj]. f_equal. exact (Hu i j a Hi Hj Hri Hrj).
  - exfalso. apply S2. destruct S1 as [Hi Hri]. exists (nth i L dreg). split; [apply nth_In; exact Hi|exact Hri].
  - exfalso. apply S1. destruct S2 as [Hj Hrj]. exists (nth j L dreg). split; [apply nth_In; exact Hj|exact Hrj].
  - reflexivity.
Qed.

(* ------------------------------------------------------------------ the instances
   every theorem of Proofs/C02.v and Proofs/C03.v that is generic in (find, inv), instantiated
   with the binary search of GuestMemoryMmap and its invariant (generated mechanically from the
   statements in Properties/C02.v and Properties/C03.v; the explicit statements are in those files) *)
Definition find_Some_iff_mmap := find_Some_iff mmap_find_index mmap_inv mmap_inv_wf mmap_find_contract.
Definition find_None_iff_mmap := find_None_iff mmap_find_index mmap_inv mmap_find_contract.
Definition to_region_addr_lemma_mmap := to_region_addr_lemma mmap_find_index mmap_inv mmap_inv_wf mmap_find_contract.
Definition host_address_lemma_mmap := host_address_lemma mmap_find_index mmap_inv mmap_inv_wf mmap_find_contract.
Definition address_in_range_lemma_mmap := address_in_range_lemma mmap_find_index mmap_inv mmap_inv_wf mmap_find_contract.
Definition check_address_lemma_mmap := check_address_lemma mmap_find_index mmap_inv mmap_inv_wf mmap_find_contract.
Definition checked_offset_lemma_mmap := checked_offset_lemma mmap_find_index mmap_inv mmap_inv_wf mmap_find_contract.
Definition check_range_lemma_mmap := check_range_lemma mmap_find_index mmap_inv mmap_inv_wf mmap_find_contract.
Definition check_range_zero_lemma_mmap := check_range_zero_lemma mmap_find_index mmap_inv mmap_inv_wf mmap_find_contract.
Definition get_slice_lemma_mmap := get_slice_lemma mmap_find_index mmap_inv mmap_inv_wf mmap_find_contract.
Definition gm_write_lemma_mmap := gm_write_lemma mmap_find_index mmap_inv mmap_inv_wf mmap_find_contract.
Definition write_frame_lemma_mmap := write_frame_lemma mmap_find_index mmap_inv mmap_inv_wf mmap_find_contract.
Definition gm_read_lemma_mmap := gm_read_lemma mmap_find_index mmap_inv mmap_inv_wf mmap_find_contract.
Definition slice_forms_lemma_mmap := slice_forms_lemma mmap_find_index mmap_inv mmap_inv_wf mmap_find_contract.
Definition gm_write_slice_lemma_mmap := gm_write_slice_lemma mmap_find_index mmap_inv mmap_inv_wf mmap_find_contract.
Definition gm_read_slice_lemma_mmap := gm_read_slice_lemma mmap_find_index mmap_inv mmap_inv_wf mmap_find_contract.
Definition obj_roundtrip_lemma_mmap := obj_roundtrip_lemma mmap_find_index mmap_inv mmap_inv_wf mmap_find_contract.
Definition gm_store_lemma_mmap := gm_store_lemma mmap_find_index mmap_inv mmap_inv_wf mmap_find_contract.
Definition gm_load_lemma_mmap := gm_load_lemma mmap_find_index mmap_inv mmap_inv_wf mmap_find_contract.
Definition gm_read_volatile_from_lemma_mmap := gm_read_volatile_from_lemma mmap_find_index mmap_inv mmap_inv_wf mmap_find_contract.
Definition gm_write_volatile_to_lemma_mmap := gm_write_volatile_to_lemma mmap_find_index mmap_inv mmap_inv_wf mmap_find_contract.
Definition no_fuel_lemma_mmap := no_fuel_lemma mmap_find_index mmap_inv mmap_inv_wf mmap_find_contract.

(* two flagship corollaries stated directly over construction histories *)
Lemma mmap_reachable_check_range_lemma md m (M : mem) base n : reachable rstart rlen md M ->
  base < W64 -> n < W64 -> 0 < n ->
  exists b, gm_check_range mmap_find_index m (shape M) base n = Val b /\
    (b = true <-> forall i, i < n -> base + i < W64 /\ Mapped (shape M) (base + i)).
Proof. intros H. apply check_range_lemma_mmap. exact (mmap_reachable_inv md M H). Qed.

Lemma mmap_reachable_write_lemma md m (M : mem) buf addr : reachable rstart rlen md M ->
  lenN buf < W64 -> addr < W64 -> buf <> [] ->
  exists M' k, gm_write mmap_find_index m M buf addr = Val (M', count_result k) /\
    is_run (shape M) addr (lenN buf) k /\ shape M' = shape M /\
    forall x, x < W64 -> rd M' x = if in_range addr k x then nth_error buf (N.to_nat (x - addr)) else rd M x.
Proof. intros H. apply gm_write_lemma_mmap. exact (mmap_reachable_inv md M H). Qed.
