(* C03walk - proofs: the transcription of GuestMemory::try_access (Impl/Guest.v), driven by ANY scripted callback
   (honest, short, stalling, failing, over-reporting; scripts of any length), produces a call log and a result that
   the walk checker accepts: every chunk is offered at the exact address addr + (sum of the reported counts), inside
   the region owning it, and no chunk is offered after the exact sum left the 64-bit address space. *)
From VM Require Import Prelude.MachInt Prelude.Outcome Prelude.Tok Impl.Address Impl.Guest Spec.C02 Spec.C03walk
  Suite.C03walk Proofs.C02.
From Coq Require Import Arith.

Definition rk_of (r : res N) : N := match r with inl _ => 1 | inr _ => 2 end.
Definition rv_of (r : res N) : N := match r with inl n => n | inr e => err_code e end.

Definition wf_walk (c : wcase) : Prop :=
  wf_layout_gen (w_L c) /\ w_count c < W64 /\ w_addr c < W64 /\ Forall (fun a => snd a < W64) (w_script c).

Lemma resolve_lt ans len : snd ans < W64 -> len < W64 -> snd (resolve ans len) < W64.
Proof.
  intros Ha Hl. unfold resolve. destruct (fst ans) as [|[[?|?|]|[?|?|]|]]; cbn [snd]; try lia;
    try (rewrite W64_val; reflexivity).
  apply N.mod_lt. rewrite W64_val. discriminate.
Qed.
Lemma resolve_rk ans len : fst (resolve ans len) = 0 \/ resolve ans len = (1, 5).
Proof. unfold resolve. destruct (fst ans) as [|[[?|?|]|[?|?|]|]]; cbn [fst]; auto. Qed.

Section Walk.
Variables (m : mode) (L : layout) (count addr : N).
Hypothesis HL : wf_layout_gen L.
Hypothesis Hcount : count < W64.
Hypothesis Haddr : addr < W64.

Lemma walk_lemma : forall fuel script rl K,
  Forall (fun a => snd a < W64) script -> addr + K < W64 -> (K < count \/ K = 0) ->
  (length script + msr (addr + K) L < fuel)%nat ->
  exists script' nl r,
    try_access find_lin m L count fscript fuel (script, rl) (addr + K) K = Val ((script', rev nl ++ rl), r) /\
    walk_ok L count addr K nl (rk_of r) (rv_of r) = true.
Proof.
  induction fuel as [|fu IH]; intros script rl K Hscr Hcur HK Hfuel; [lia|].
  cbn [try_access].
  destruct (lin_cases L (addr + K) Hcur) as [(i & F & Hi & Hr & Hmap)|[F Hmap]]; rewrite F.
  2:{ (* hole at cur *)
    exists script, [], (if K =? 0 then inr EInvalidGuestAddress else inl K). split; [reflexivity|].
    cbn [walk_ok]. destruct (N.eqb_spec K 0) as [->|HK0].
    - rewrite N.add_0_r in Hmap. rewrite Hmap. reflexivity.
    - cbn [rk_of rv_of]. rewrite !N.eqb_refl, Hmap. cbn [negb andb].
      destruct (N.ltb_spec K count); [|lia]. destruct (N.ltb_spec (addr + K) W64); [|lia].
      cbn [andb]. apply orb_true_r. }
  set (p := nth i L dreg) in *.
  destruct (proj1 HL p (nth_In L dreg Hi)) as (Hpos & Hu64 & Hend).
  rewrite (r_to_region_addr_in p (addr + K) Hr).
  unfold In_reg in Hr.
  rewrite psub_Val by lia. cbn [bind]. rewrite psub_Val by lia. cbn [bind].
  set (start := addr + K - fst p). set (len := N.min (snd p - start) (count - K)).
  assert (Hlen : len < W64) by (unfold len; lia).
  unfold fscript at 1. cbn [fst snd bind].
  set (ans := match script with a :: _ => a | [] => (1, 0) end).
  assert (Hans : snd ans < W64).
  { unfold ans. destruct script as [|a t]; [cbn; rewrite W64_val; reflexivity|]. inversion Hscr; assumption. }
  pose proof (resolve_lt ans len Hans Hlen) as Hrv.
  set (c := {| wc_k := K; wc_len := len; wc_start := start; wc_i := N.of_nat i;
               wc_rk := fst (resolve ans len); wc_rv := snd (resolve ans len) |}).
  (* the part of the checker that speaks about the arguments of this call *)
  assert (Hargs : forall rest rk rv tailb,
    walk_ok L count addr K (c :: rest) rk rv =
    (if wc_rk c =? 0 then
       let n := wc_rv c in
       if n =? 0 then is_nil rest && (rk =? 1) && (rv =? K)
       else let K' := K + n in
         if count <? K' then is_nil rest && (rk =? 2)
         else if K' =? count then is_nil rest && (rk =? 1) && (rv =? count)
         else if W64 <? addr + K' then is_nil rest && (rk =? 2)
         else walk_ok L count addr K' rest rk rv
     else is_nil rest && (rk =? 2) && (rv =? wc_rv c)) \/ tailb = false).
  { intros rest rk rv tailb. left. cbn [walk_ok]. cbn [wc_i wc_k wc_start wc_len c].
    rewrite (nthr_nat L i Hi). fold p.
    destruct (N.ltb_spec (addr + K) W64) as [_|]; [|lia].
    destruct (N.ltb_spec (N.of_nat i) (N.of_nat (length L))) as [_|]; [|lia].
    assert (Hin : inreg p (addr + K) = true) by (apply inreg_iff; unfold In_reg; lia). rewrite Hin.
    rewrite N.eqb_refl. fold start. rewrite N.eqb_refl.
    assert (El : N.min (fst p + snd p - (addr + K)) (count - K) = len) by (unfold len, start; lia).
    rewrite El, N.eqb_refl.
    assert (Ek : (K <? count) || (K =? 0) = true).
    { destruct HK as [HK|HK]; [apply N.ltb_lt in HK; rewrite HK; reflexivity|subst K; apply orb_true_r]. }
    rewrite Ek. reflexivity. }
  destruct (resolve_rk ans len) as [Erk|Eres].
  2:{ (* the callback fails: its error is the result *)
    rewrite Eres. cbn [fst snd]. change (1 =? 0) with false. cbn iota.
    exists (tl script), [c], (inr EHostAddressNotAvailable). split; [reflexivity|].
    cbn [rk_of rv_of err_code]. destruct (Hargs [] 2 5 true) as [E|E]; [|discriminate]. rewrite E.
    unfold c at 1. cbn [wc_rk]. rewrite Eres. cbn [fst]. change (1 =? 0) with false. cbn iota.
    cbn [is_nil wc_rv c]. rewrite Eres. reflexivity. }
  rewrite Erk. rewrite N.eqb_refl.
  set (n := snd (resolve ans len)) in *.
  destruct (N.eqb_spec n 0) as [Hn0|Hn0].
  { (* Ok(0) *)
    exists (tl script), [c], (inl K). split; [reflexivity|].
    cbn [rk_of rv_of err_code]. destruct (Hargs [] 1 K true) as [E|E]; [|discriminate]. rewrite E.
    cbn [wc_rk wc_rv c]. rewrite Erk, N.eqb_refl. fold n. cbv zeta.
    destruct (N.eqb_spec n 0); [|contradiction]. cbn [is_nil]. rewrite !N.eqb_refl. reflexivity. }
  unfold checked_add. destruct (N.ltb_spec (K + n) W64) as [Hfit|Hov].
  2:{ (* total overflows: CallbackOutOfRange *)
    exists (tl script), [c], (inr ECallbackOutOfRange). split; [reflexivity|].
    cbn [rk_of rv_of err_code]. destruct (Hargs [] 2 6 true) as [E|E]; [|discriminate]. rewrite E.
    cbn [wc_rk wc_rv c]. rewrite Erk, N.eqb_refl. fold n. cbv zeta.
    destruct (N.eqb_spec n 0); [contradiction|].
    destruct (N.ltb_spec count (K + n)); [|lia]. reflexivity. }
  destruct (N.ltb_spec (K + n) count) as [Hlt|Hge].
  - (* more to do: the cursor advance *)
    unfold a_overflowing_add, overflowing_add. cbn [fst snd].
    destruct (N.leb_spec W64 (addr + K + n)) as [Hw|Hnw]; cbn [negb].
    + (* the exact sum left the address space *)
      destruct (N.eqb_spec ((addr + K + n) mod W64) 0) as [Hz|Hnz].
      * (* exactly 2^64: stop with what was done *)
        assert (Heq : addr + K + n = W64).
        { assert (H2 : addr + K + n < W64 + W64) by lia.
          assert (Hm : (addr + K + n) mod W64 = addr + K + n - W64).
          { symmetry. apply (N.mod_unique _ _ 1); lia. }
          lia. }
        exists (tl script), [c], (inl (K + n)). split; [reflexivity|].
        cbn [rk_of rv_of err_code]. destruct (Hargs [] 1 (K + n) true) as [E|E]; [|discriminate]. rewrite E.
        cbn [wc_rk wc_rv c]. rewrite Erk, N.eqb_refl. fold n. cbv zeta.
        destruct (N.eqb_spec n 0); [contradiction|].
        destruct (N.ltb_spec count (K + n)); [lia|]. destruct (N.eqb_spec (K + n) count); [lia|].
        destruct (N.ltb_spec W64 (addr + (K + n))); [lia|].
        cbn [walk_ok]. destruct (N.eqb_spec (K + n) 0); [lia|].
        rewrite !N.eqb_refl. destruct (N.ltb_spec (K + n) count); [|lia].
        replace (addr + (K + n)) with W64 by lia. rewrite N.eqb_refl. reflexivity.
      * (* past 2^64: reported, nothing offered at the wrapped address *)
        exists (tl script), [c], (inr EGuestAddressOverflow). split; [reflexivity|].
        cbn [rk_of rv_of err_code]. destruct (Hargs [] 2 7 true) as [E|E]; [|discriminate]. rewrite E.
        cbn [wc_rk wc_rv c]. rewrite Erk, N.eqb_refl. fold n. cbv zeta.
        destruct (N.eqb_spec n 0); [contradiction|].
        destruct (N.ltb_spec count (K + n)); [lia|]. destruct (N.eqb_spec (K + n) count); [lia|].
        assert (Hne : addr + K + n <> W64).
        { intros Heq. apply Hnz. rewrite Heq. apply N.mod_same. rewrite W64_val. discriminate. }
        destruct (N.ltb_spec W64 (addr + (K + n))); [|lia]. reflexivity.
    + rewrite N.mod_small by lia.
      replace (addr + K + n) with (addr + (K + n)) by lia.
      assert (Hscr' : Forall (fun a => snd a < W64) (tl script)).
      { destruct script as [|a t]; [constructor|inversion Hscr; assumption]. }
      assert (Hfu : (length (tl script) + msr (addr + (K + n)) L < fu)%nat).
      { pose proof (msr_le L (addr + K) (addr + (K + n)) ltac:(lia)) as Hle.
        destruct script as [|a t].
        - (* script used up: the callback is honest, the chunk reaches the end of the region *)
          assert (Hn : n = len) by (unfold n, ans, resolve; reflexivity).
          assert (Hfull : addr + (K + n) = fst p + snd p) by (rewrite Hn; unfold len, start in *; lia).
          pose proof (msr_lt L (addr + K) (addr + (K + n)) i ltac:(lia) Hi) as Hm. fold p in Hm.
          specialize (Hm ltac:(lia)). cbn [tl length] in *. lia.
        - cbn [tl length] in *. lia. }
      destruct (IH (tl script) (c :: rl) (K + n) Hscr' ltac:(lia) ltac:(left; lia) Hfu)
        as (s2 & nl & r & E2 & Hok).
      exists s2, (c :: nl), r. split.
      * rewrite E2. cbn [rev]. rewrite <- app_assoc. reflexivity.
      * destruct (Hargs nl (rk_of r) (rv_of r) true) as [E|E]; [|discriminate]. rewrite E.
        cbn [wc_rk wc_rv c]. rewrite Erk, N.eqb_refl. fold n. cbv zeta.
        destruct (N.eqb_spec n 0); [contradiction|].
        destruct (N.ltb_spec count (K + n)); [lia|]. destruct (N.eqb_spec (K + n) count); [lia|].
        destruct (N.ltb_spec W64 (addr + (K + n))); [lia|]. exact Hok.
  - destruct (N.eqb_spec (K + n) count) as [Heq|Hne].
    + exists (tl script), [c], (inl (K + n)). split; [reflexivity|].
      cbn [rk_of rv_of err_code]. destruct (Hargs [] 1 (K + n) true) as [E|E]; [|discriminate]. rewrite E.
      cbn [wc_rk wc_rv c]. rewrite Erk, N.eqb_refl. fold n. cbv zeta.
      destruct (N.eqb_spec n 0); [contradiction|].
      destruct (N.ltb_spec count (K + n)); [lia|]. destruct (N.eqb_spec (K + n) count); [|lia].
      cbn [is_nil]. rewrite ?N.eqb_refl. reflexivity.
    + exists (tl script), [c], (inr ECallbackOutOfRange). split; [reflexivity|].
      cbn [rk_of rv_of err_code]. destruct (Hargs [] 2 6 true) as [E|E]; [|discriminate]. rewrite E.
      cbn [wc_rk wc_rv c]. rewrite Erk, N.eqb_refl. fold n. cbv zeta.
      destruct (N.eqb_spec n 0); [contradiction|].
      destruct (N.ltb_spec count (K + n)); [|lia]. reflexivity.
Qed.
End Walk.

Lemma C03walk_model_ok_lemma : forall c, wf_walk c -> ok_C03walk c (run_C03walk c) = true.
Proof.
  intros c (HL & Hc & Ha & Hs). unfold ok_C03walk, run_C03walk.
  assert (Hf : (length (w_script c) + msr (w_addr c + 0) (w_L c) < walk_fuel c)%nat).
  { pose proof (msr_bound (w_L c) (w_addr c + 0)). unfold walk_fuel. lia. }
  destruct (walk_lemma (w_mode c) (w_L c) (w_count c) (w_addr c) HL Hc Ha (walk_fuel c) (w_script c) [] 0 Hs
              ltac:(lia) ltac:(right; reflexivity) Hf) as (s' & nl & r & E & Hok).
  rewrite N.add_0_r in E. rewrite E. rewrite app_nil_r.
  destruct r as [n|e]; cbn [obs_of snd wo_calls wo_k wo_v]; rewrite rev_involutive; exact Hok.
Qed.

(* Prop-level readings, not mentioning the boolean checker: whatever the callback answers,
   (1) the model never panics or runs out of fuel;
   (2) every call in the log was made at the exact, un-wrapped address addr + K (K = the sum of the reported counts
       before it) and inside the region that owns that address. *)
Fixpoint calls_exact (L : layout) (addr K : N) (calls : list wcall) {struct calls} : Prop :=
  match calls with
  | [] => True
  | c :: rest =>
      addr + K < W64 /\ wc_k c = K /\
      (exists p, nth_error L (N.to_nat (wc_i c)) = Some p /\ fst p <= addr + K < fst p + snd p /\
                 wc_start c = addr + K - fst p) /\
      (rest = [] \/ (wc_rk c = 0 /\ calls_exact L addr (K + wc_rv c) rest))
  end.
Lemma walk_ok_exact L count addr : forall calls K rk rv,
  walk_ok L count addr K calls rk rv = true -> calls_exact L addr K calls.
Proof.
  induction calls as [|c rest IH]; intros K rk rv H; [exact I|].
  cbn [walk_ok] in H. rewrite !andb_true_iff in H.
  destruct H as [[[[[[[H1 H2] H3] H4] H5] H6] H7] H8].
  apply N.ltb_lt in H1, H2. apply N.eqb_eq in H4, H5.
  cbn [calls_exact]. split; [exact H1|split; [exact H4|split]].
  - unfold nthr in *. destruct (N.ltb_spec (wc_i c) (N.of_nat (length L))) as [Hi|]; [|lia].
    exists (nth (N.to_nat (wc_i c)) L (0, 0)). split; [apply nth_error_nth'; lia|].
    apply inreg_iff in H3. unfold In_reg in H3. split; [exact H3|exact H5].
  - destruct (wc_rk c =? 0) eqn:Erk.
    + apply N.eqb_eq in Erk. cbv zeta in H8.
      destruct (wc_rv c =? 0); [rewrite !andb_true_iff in H8; left; destruct rest; [reflexivity|destruct H8 as [[X _] _]; discriminate]|].
      destruct (count <? K + wc_rv c); [rewrite !andb_true_iff in H8; left; destruct rest; [reflexivity|destruct H8 as [X _]; discriminate]|].
      destruct (K + wc_rv c =? count); [rewrite !andb_true_iff in H8; left; destruct rest; [reflexivity|destruct H8 as [[X _] _]; discriminate]|].
      destruct (W64 <? addr + (K + wc_rv c)); [rewrite !andb_true_iff in H8; left; destruct rest; [reflexivity|destruct H8 as [X _]; discriminate]|].
      right. split; [exact Erk|]. exact (IH _ _ _ H8).
    + rewrite !andb_true_iff in H8. left. destruct rest; [reflexivity|destruct H8 as [[X _] _]; discriminate].
Qed.
Lemma C03walk_never_wraps_lemma : forall c, wf_walk c ->
  wo_k (run_C03walk c) <> 3 /\ calls_exact (w_L c) (w_addr c) 0 (wo_calls (run_C03walk c)).
Proof.
  intros c Hwf. pose proof (C03walk_model_ok_lemma c Hwf) as Hok. unfold ok_C03walk in Hok. split.
  - intros E3. destruct (wo_calls (run_C03walk c)) as [|c0 rest] eqn:Ec.
    + cbn [walk_ok] in Hok. rewrite N.eqb_refl, E3 in Hok. rewrite !andb_true_iff in Hok. destruct Hok as [[_ X] _]. discriminate.
    + clear Ec. cbn [walk_ok] in Hok. rewrite !andb_true_iff in Hok. destruct Hok as [_ H8]. rewrite E3 in H8.
      destruct (wc_rk c0 =? 0).
      * cbv zeta in H8.
        destruct (wc_rv c0 =? 0); [rewrite !andb_true_iff in H8; destruct H8 as [[_ X] _]; discriminate|].
        destruct (w_count c <? 0 + wc_rv c0); [rewrite !andb_true_iff in H8; destruct H8 as [_ X]; discriminate|].
        destruct (0 + wc_rv c0 =? w_count c); [rewrite !andb_true_iff in H8; destruct H8 as [[_ X] _]; discriminate|].
        destruct (W64 <? w_addr c + (0 + wc_rv c0)); [rewrite !andb_true_iff in H8; destruct H8 as [_ X]; discriminate|].
        (* the result tokens are only inspected at the end of the log: walk to it *)
        revert H8. generalize (0 + wc_rv c0). clear. intros K. revert K.
        induction rest as [|c1 rest IH]; intros K H.
        -- cbn [walk_ok] in H. destruct (K =? 0); rewrite !andb_true_iff in H.
           ++ destruct H as [[_ X] _]. discriminate.
           ++ destruct H as [[[X _] _] _]. discriminate.
        -- cbn [walk_ok] in H. rewrite !andb_true_iff in H. destruct H as [_ H8].
           destruct (wc_rk c1 =? 0).
           ++ cbv zeta in H8.
              destruct (wc_rv c1 =? 0); [rewrite !andb_true_iff in H8; destruct H8 as [[_ X] _]; discriminate|].
              destruct (w_count c <? K + wc_rv c1); [rewrite !andb_true_iff in H8; destruct H8 as [_ X]; discriminate|].
              destruct (K + wc_rv c1 =? w_count c); [rewrite !andb_true_iff in H8; destruct H8 as [[_ X] _]; discriminate|].
              destruct (W64 <? w_addr c + (K + wc_rv c1)); [rewrite !andb_true_iff in H8; destruct H8 as [_ X]; discriminate|].
              exact (IH _ H8).
           ++ rewrite !andb_true_iff in H8. destruct H8 as [[_ X] _]. discriminate.
      * rewrite !andb_true_iff in H8. destruct H8 as [[_ X] _]. discriminate.
  - exact (walk_ok_exact _ _ _ _ _ _ _ Hok).
Qed.

Lemma walk_nonvacuous_lemma :
  let c := {| w_mode := Debug; w_L := [(W64 - 8, 8); (0, 64)]; w_count := W64 - 1; w_addr := W64 - 8;
              w_script := [(3, 4); (2, 36)] |} in
  wf_layout_gen (w_L c) /\ w_count c < W64 /\ w_addr c < W64 /\
  List.length (wo_calls (run_C03walk c)) = 2%nat /\ wo_k (run_C03walk c) = 2 /\ wo_v (run_C03walk c) = 7.
Proof.
  cbv zeta. split; [|vm_compute; repeat split].
  cbn [w_L]. split.
  - intros p [<-|[<-|[]]]; cbn [fst snd]; rewrite W64_val; lia.
  - intros i j a Hi Hj. cbn [length] in Hi, Hj.
    destruct i as [|[|i]]; destruct j as [|[|j]]; try lia; cbn [nth]; unfold In_reg; cbn [fst snd];
      rewrite ?W64_val; intros; try reflexivity; lia.
Qed.
