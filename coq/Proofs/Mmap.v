(* Lemmas about the model of the mmap collection (Impl/Mmap.v).  Generic in the region type.
   Interface for other packages: wf_layout_before, find_region_eq, mmap_find_spec, wf_preserved. *)
From Coq Require Import Sorting.Sorted Sorting.Permutation.
From VM Require Import Prelude.MachInt Prelude.Outcome Impl.Address Impl.Mmap.

(* ------------------------------------------------------------------ plain list facts *)
Lemma nth_error_mid {T} (l1 : list T) x l2 : nth_error (l1 ++ x :: l2) (length l1) = Some x.
Proof. induction l1 as [|y l1 IH]; cbn [app length nth_error]; [reflexivity|exact IH]. Qed.
Lemma firstn_mid {T} (l1 : list T) l2 : firstn (length l1) (l1 ++ l2) = l1.
Proof. induction l1 as [|y l1 IH]; cbn [app length firstn]; [destruct l2; reflexivity|f_equal; exact IH]. Qed.
Lemma skipn_mid {T} (l1 : list T) x l2 : skipn (S (length l1)) (l1 ++ x :: l2) = l2.
Proof. induction l1 as [|y l1 IH]; cbn [app length skipn]; [reflexivity|exact IH]. Qed.

Lemma SS_app_inv {T} (R : T -> T -> Prop) l1 l2 : StronglySorted R (l1 ++ l2) ->
  StronglySorted R l1 /\ StronglySorted R l2 /\ (forall x y, In x l1 -> In y l2 -> R x y).
Proof.
  induction l1 as [|a l1 IH]; cbn [app]; intros H.
  - split; [constructor|]. split; [exact H|]. intros x y [].
  - inversion H as [|a' l' Hs Hf]; subst. destruct (IH Hs) as (H1 & H2 & H3).
    apply Forall_app in Hf. destruct Hf as [Hf1 Hf2].
    split; [constructor; assumption|]. split; [exact H2|].
    intros x y [<-|Hx] Hy.
    + rewrite Forall_forall in Hf2. apply Hf2. exact Hy.
    + apply H3; assumption.
Qed.
Lemma SS_app {T} (R : T -> T -> Prop) l1 l2 : StronglySorted R l1 -> StronglySorted R l2 ->
  (forall x y, In x l1 -> In y l2 -> R x y) -> StronglySorted R (l1 ++ l2).
Proof.
  induction l1 as [|a l1 IH]; cbn [app]; intros H1 H2 H3; [exact H2|].
  inversion H1 as [|a' l' Hs Hf]; subst. constructor.
  - apply IH; [exact Hs|exact H2|]. intros x y Hx Hy. apply H3; [right; exact Hx|exact Hy].
  - apply Forall_app. split; [exact Hf|]. apply Forall_forall. intros y Hy. apply H3; [left; reflexivity|exact Hy].
Qed.
Lemma FOP_perm {T} (R : T -> T -> Prop) (Hsym : forall x y, R x y -> R y x) l l' :
  Permutation l l' -> ForallOrdPairs R l -> ForallOrdPairs R l'.
Proof.
  induction 1 as [|x l l' Hp IH|x y l|l l' l'' Hp1 IH1 Hp2 IH2]; intros H.
  - exact H.
  - inversion H as [|a t Hf Ht]; subst. constructor; [|apply IH; exact Ht].
    eapply Permutation_Forall; [exact Hp|exact Hf].
  - inversion H as [|a t Hf Ht]; subst. inversion Ht as [|b t' Hf' Ht']; subst.
    inversion Hf as [|c t'' Hyx Hfy]; subst.
    constructor; [constructor; [apply Hsym; exact Hyx|exact Hf']|]. constructor; assumption.
  - apply IH2, IH1, H.
Qed.
Lemma SS_FOP {T} (R : T -> T -> Prop) l : StronglySorted R l -> ForallOrdPairs R l.
Proof. induction 1; constructor; assumption. Qed.

Section Gen.
Context {A : Type} (rs rl : A -> N).
Notation region_ok := (region_ok rs rl).
Notation disjoint := (disjoint rs rl).
Notation wf_layout := (wf_layout rs rl).
Notation region_last_addr := (region_last_addr rs rl).
Notation windows_check := (windows_check rs rl).
Notation from_arc_regions := (from_arc_regions rs rl).
Notation insert_region := (insert_region rs rl).
Notation remove_region := (remove_region rs rl).
Notation find_region := (find_region rs rl).
Notation mmap_find := (mmap_find rs rl).
Notation sort_insert := (sort_insert rs).
Notation stable_sort := (stable_sort rs).

(* x lies entirely below y *)
Definition before (x y : A) : Prop := rs x + rl x <= rs y.
Definition ltk (x y : A) : Prop := rs x < rs y.
Definition lek (x y : A) : Prop := rs x <= rs y.
(* r and x share at least one address *)
Definition overlaps (r x : A) : Prop := rs x < rs r + rl r /\ rs r < rs x + rl x.

Lemma before_trans : Relations_1.Transitive before.
Proof. intros x y z. unfold before. lia. Qed.
Lemma disjoint_sym x y : disjoint x y -> disjoint y x.
Proof. unfold Mmap.disjoint. tauto. Qed.
Lemma not_overlaps_disjoint r x : ~ overlaps r x <-> disjoint r x.
Proof. unfold overlaps, Mmap.disjoint. lia. Qed.

Lemma region_new_refuses_lemma (mk : N -> N -> A) base size :
  (W64 <= base + size -> region_new mk base size = Err EInvalidGuestRegion) /\
  (base + size < W64 -> region_new mk base size = Ok (mk base size)).
Proof.
  unfold region_new. split; intros H.
  - apply checked_add_None in H. rewrite H. reflexivity.
  - destruct (checked_add base size) as [c|] eqn:E; [reflexivity|].
    apply checked_add_None in E. lia.
Qed.

Lemma last_addr_ok m r : region_ok r -> region_last_addr m r = Val (rs r + (rl r - 1)).
Proof.
  intros [H1 H2]. unfold Mmap.region_last_addr. rewrite psub_Val by lia. cbn [bind].
  unfold a_unchecked_add. rewrite padd_Val by lia. reflexivity.
Qed.

(* ------------------------------------------------------------------ layouts *)
Lemma wf_layout_before L : wf_layout L <-> Forall region_ok L /\ StronglySorted before L.
Proof.
  unfold Mmap.wf_layout. split.
  - intros (Hok & Hs & Hd). split; [exact Hok|].
    induction L as [|x t IH]; [constructor|].
    inversion Hok as [|? ? Hx Ht]; subst. inversion Hs as [|? ? Hs' Hlt]; subst.
    inversion Hd as [|? ? Hdx Hd']; subst.
    constructor; [apply IH; assumption|].
    rewrite Forall_forall in *. intros y Hy.
    specialize (Hlt y Hy). specialize (Hdx y Hy). specialize (Ht y Hy).
    destruct Ht as [Hy1 Hy2]. unfold before, Mmap.disjoint in *. lia.
  - intros (Hok & Hs). split; [exact Hok|]. split.
    + induction L as [|x t IH]; [constructor|].
      inversion Hok as [|? ? Hx Ht]; subst. inversion Hs as [|? ? Hs' Hb]; subst.
      constructor; [apply IH; assumption|].
      rewrite Forall_forall in *. intros y Hy. specialize (Hb y Hy). destruct Hx as [Hx1 Hx2].
      unfold before in Hb. lia.
    + apply SS_FOP in Hs. clear Hok. induction Hs as [|a l Hf Hs IH]; constructor; [|exact IH].
      rewrite Forall_forall in *. intros y Hy. left. exact (Hf y Hy).
Qed.

Lemma wf_nil : wf_layout [].
Proof. apply wf_layout_before. split; constructor. Qed.

(* ------------------------------------------------------------------ from_arc_regions *)
Fixpoint windows_pure (L : list A) {struct L} : option merr :=
  match L with
  | prev :: t =>
      match t with
      | next :: _ =>
          if rs next <? rs prev then Some EUnsortedMemoryRegions
          else if rs next <=? rs prev + (rl prev - 1) then Some EMemoryRegionOverlap
          else windows_pure t
      | [] => None
      end
  | [] => None
  end.
Lemma windows_check_pure m L : Forall region_ok L -> windows_check m L = Val (windows_pure L).
Proof.
  induction L as [|x t IH]; intros H; [reflexivity|].
  inversion H as [|? ? Hx Ht]; subst.
  destruct t as [|y t']; [reflexivity|].
  cbn [Mmap.windows_check windows_pure].
  destruct (rs y <? rs x); [reflexivity|].
  rewrite (last_addr_ok m x Hx). cbn [bind].
  destruct (rs y <=? rs x + (rl x - 1)); [reflexivity|].
  apply IH. exact Ht.
Qed.

Lemma windows_none_iff L : Forall region_ok L -> (windows_pure L = None <-> Sorted before L).
Proof.
  induction L as [|x t IH]; intros H.
  - split; [constructor|reflexivity].
  - inversion H as [|? ? Hx Ht]; subst. destruct t as [|y t'].
    + split; [intros _; constructor; constructor|reflexivity].
    + cbn [windows_pure]. destruct Hx as [Hx1 Hx2].
      destruct (N.ltb_spec (rs y) (rs x)) as [H1|H1].
      { split; [discriminate|]. intros Hs. inversion Hs as [|? ? ? Hh]; subst.
        inversion Hh; subst. unfold before in *. lia. }
      destruct (N.leb_spec (rs y) (rs x + (rl x - 1))) as [H2|H2].
      { split; [discriminate|]. intros Hs. inversion Hs as [|? ? ? Hh]; subst.
        inversion Hh; subst. unfold before in *. lia. }
      rewrite (IH Ht). split.
      * intros Hs. constructor; [exact Hs|]. constructor. unfold before. lia.
      * intros Hs. inversion Hs; assumption.
Qed.

Lemma head_of_app (l1 : list A) x' y' l2 y t' :
  y :: t' = l1 ++ x' :: y' :: l2 -> exists r, l1 ++ [x'] = y :: r.
Proof. destruct l1; cbn [app]; intros E; inversion E; eexists; reflexivity. Qed.
Lemma sorted_head2 x y l : Sorted before (x :: y :: l) -> before x y.
Proof. intros H. inversion H as [|? ? ? Hh]; subst. inversion Hh; subst. assumption. Qed.

(* the first window that fails decides the error *)
Lemma windows_some_iff L e : Forall region_ok L ->
  (windows_pure L = Some e <->
   exists l1 x y l2, L = l1 ++ x :: y :: l2 /\ Sorted before (l1 ++ [x]) /\
     ((e = EUnsortedMemoryRegions /\ rs y < rs x) \/
      (e = EMemoryRegionOverlap /\ rs x <= rs y /\ rs y < rs x + rl x))).
Proof.
  revert e. induction L as [|x t IH]; intros e H.
  - split; [discriminate|]. intros (l1 & x & y & l2 & E & _). destruct l1; discriminate.
  - inversion H as [|? ? Hx Ht]; subst. destruct t as [|y t'].
    + split; [discriminate|]. intros (l1 & x' & y' & l2 & E & _).
      destruct l1 as [|? [|? ?]]; discriminate.
    + cbn [windows_pure]. destruct Hx as [Hx1 Hx2].
      destruct (N.ltb_spec (rs y) (rs x)) as [H1|H1].
      { split.
        - intros E; inversion E; subst. exists [], x, y, t'. split; [reflexivity|].
          split; [constructor; constructor|]. left. split; [reflexivity|exact H1].
        - intros (l1 & x' & y' & l2 & E & Hs & Hc). destruct l1 as [|a l1].
          + cbn [app] in E. inversion E; subst. destruct Hc as [[-> _]|[_ [Hc _]]]; [reflexivity|lia].
          + cbn [app] in E. inversion E as [[Ea Et]]. subst a. cbn [app] in Hs.
            destruct (head_of_app _ _ _ _ _ _ Et) as [r Er]. rewrite Er in Hs.
            apply sorted_head2 in Hs. unfold before in Hs. lia. }
      destruct (N.leb_spec (rs y) (rs x + (rl x - 1))) as [H2|H2].
      { split.
        - intros E; inversion E; subst. exists [], x, y, t'. split; [reflexivity|].
          split; [constructor; constructor|]. right. split; [reflexivity|lia].
        - intros (l1 & x' & y' & l2 & E & Hs & Hc). destruct l1 as [|a l1].
          + cbn [app] in E. inversion E; subst. destruct Hc as [[_ Hc]|[-> _]]; [lia|reflexivity].
          + cbn [app] in E. inversion E as [[Ea Et]]. subst a. cbn [app] in Hs.
            destruct (head_of_app _ _ _ _ _ _ Et) as [r Er]. rewrite Er in Hs.
            apply sorted_head2 in Hs. unfold before in Hs. lia. }
      rewrite (IH e Ht). split.
      * intros (l1 & x' & y' & l2 & E & Hs & Hc). exists (x :: l1), x', y', l2.
        split; [cbn [app]; rewrite E; reflexivity|]. split; [|exact Hc].
        cbn [app]. constructor; [exact Hs|]. destruct l1 as [|b l1]; cbn [app] in *.
        -- inversion E; subst. constructor. unfold before. lia.
        -- inversion E; subst. constructor. unfold before. lia.
      * intros (l1 & x' & y' & l2 & E & Hs & Hc). destruct l1 as [|a l1].
        -- cbn [app] in E. inversion E; subst. exfalso. destruct Hc as [[_ Hc]|[_ [_ Hc]]]; lia.
        -- cbn [app] in E. inversion E as [[Ea Et]]. exists l1, x', y', l2.
           split; [exact Et|]. split; [|exact Hc]. cbn [app] in Hs. inversion Hs; assumption.
Qed.

Lemma from_arc_pure m L : Forall region_ok L ->
  from_arc_regions m L = Val (match L with [] => Err ENoMemoryRegion | _ =>
                               match windows_pure L with Some e => Err e | None => Ok L end end).
Proof.
  intros H. destruct L as [|x t]; [reflexivity|].
  unfold Mmap.from_arc_regions. rewrite (windows_check_pure m _ H). reflexivity.
Qed.

Lemma from_arc_pure_ne m L : Forall region_ok L -> L <> [] ->
  from_arc_regions m L = Val (match windows_pure L with Some e => Err e | None => Ok L end).
Proof. intros H Hn. rewrite (from_arc_pure m L H). destruct L; [congruence|reflexivity]. Qed.

(* from_arc_regions succeeds exactly on the non-empty valid layouts and returns the list unchanged *)
Lemma from_ok_iff_lemma m L L' : Forall region_ok L ->
  (from_arc_regions m L = Val (Ok L') <-> L' = L /\ L <> [] /\ wf_layout L).
Proof.
  intros H. rewrite (from_arc_pure m L H). destruct L as [|x t].
  - split; [discriminate|]. intros (_ & Hn & _). congruence.
  - destruct (windows_pure (x :: t)) as [e|] eqn:E.
    + split; [discriminate|]. intros (_ & _ & Hw). exfalso.
      apply wf_layout_before in Hw. destruct Hw as [_ Hs]. apply StronglySorted_Sorted in Hs.
      apply (windows_none_iff _ H) in Hs. congruence.
    + split.
      * intros E'; inversion E'; subst. split; [reflexivity|]. split; [discriminate|].
        apply wf_layout_before. split; [exact H|].
        apply Sorted_StronglySorted; [exact before_trans|]. apply (windows_none_iff _ H). exact E.
      * intros (-> & _). reflexivity.
Qed.

(* error classification: empty -> NoMemoryRegion; otherwise the first failing window (x,y)
   gives Unsorted when y starts below x, Overlap when y starts inside x *)
Lemma from_err_iff_lemma m L e : Forall region_ok L ->
  (from_arc_regions m L = Val (Err e) <->
   (L = [] /\ e = ENoMemoryRegion) \/
   exists l1 x y l2, L = l1 ++ x :: y :: l2 /\ Sorted before (l1 ++ [x]) /\
     ((e = EUnsortedMemoryRegions /\ rs y < rs x) \/
      (e = EMemoryRegionOverlap /\ rs x <= rs y /\ rs y < rs x + rl x))).
Proof.
  intros H. rewrite (from_arc_pure m L H). destruct L as [|x t].
  - split.
    + intros E; inversion E; subst. left. split; reflexivity.
    + intros [[_ ->]|(l1 & x & y & l2 & E & _)]; [reflexivity|destruct l1; discriminate].
  - destruct (windows_pure (x :: t)) as [e'|] eqn:E.
    + split.
      * intros E'; inversion E'; subst. right. apply (windows_some_iff _ _ H). exact E.
      * intros [[Hn _]|Hex]; [discriminate|]. apply (windows_some_iff _ _ H) in Hex. congruence.
    + split; [discriminate|]. intros [[Hn _]|Hex]; [discriminate|].
      apply (windows_some_iff _ _ H) in Hex. congruence.
Qed.

Lemma from_never_panics m L : Forall region_ok L ->
  exists r, from_arc_regions m L = Val r.
Proof. intros H. rewrite (from_arc_pure m L H). eexists; reflexivity. Qed.

(* ------------------------------------------------------------------ the stable sort *)
Lemma sort_insert_perm x l : Permutation (sort_insert x l) (x :: l).
Proof.
  induction l as [|y t IH]; cbn [Mmap.sort_insert]; [apply Permutation_refl|].
  destruct (rs x <=? rs y); [apply Permutation_refl|].
  eapply perm_trans; [apply perm_skip; exact IH|apply perm_swap].
Qed.
Lemma stable_sort_perm l : Permutation (stable_sort l) l.
Proof.
  induction l as [|x t IH]; cbn [Mmap.stable_sort]; [constructor|].
  eapply perm_trans; [apply sort_insert_perm|apply perm_skip; exact IH].
Qed.
Lemma sort_insert_sorted x l : Sorted lek l -> Sorted lek (sort_insert x l).
Proof.
  induction l as [|y t IH]; intros H; cbn [Mmap.sort_insert].
  - constructor; constructor.
  - destruct (N.leb_spec (rs x) (rs y)) as [Hle|Hgt].
    + constructor; [exact H|]. constructor. exact Hle.
    + inversion H as [|? ? Hs Hh]; subst. constructor; [apply IH; exact Hs|].
      destruct t as [|z t']; cbn [Mmap.sort_insert].
      * constructor. unfold lek. lia.
      * destruct (rs x <=? rs z); constructor; [unfold lek; lia|].
        inversion Hh; subst. assumption.
Qed.
Lemma stable_sort_sorted l : Sorted lek (stable_sort l).
Proof.
  induction l as [|x t IH]; cbn [Mmap.stable_sort]; [constructor|]. apply sort_insert_sorted. exact IH.
Qed.
(* stability: the elements of each key keep their relative order *)
Lemma sort_insert_stable k x l :
  filter (fun r => rs r =? k) (sort_insert x l) = filter (fun r => rs r =? k) (x :: l).
Proof.
  induction l as [|y t IH]; cbn [Mmap.sort_insert]; [reflexivity|].
  destruct (N.leb_spec (rs x) (rs y)) as [Hle|Hgt]; [reflexivity|].
  cbn [filter] in *. rewrite IH.
  destruct (N.eqb_spec (rs y) k) as [Ey|Ey]; destruct (N.eqb_spec (rs x) k) as [Ex|Ex];
    try reflexivity. exfalso. lia.
Qed.
Lemma stable_sort_stable k l :
  filter (fun r => rs r =? k) (stable_sort l) = filter (fun r => rs r =? k) l.
Proof.
  induction l as [|x t IH]; cbn [Mmap.stable_sort]; [reflexivity|].
  rewrite sort_insert_stable. cbn [filter]. rewrite IH. reflexivity.
Qed.
(* sorting an already sorted list changes nothing *)
Lemma stable_sort_id l : Sorted lek l -> stable_sort l = l.
Proof.
  induction l as [|x t IH]; intros H; cbn [Mmap.stable_sort]; [reflexivity|].
  inversion H as [|? ? Hs Hh]; subst. rewrite (IH Hs).
  destruct t as [|y t']; cbn [Mmap.sort_insert]; [reflexivity|].
  inversion Hh; subst. destruct (N.leb_spec (rs x) (rs y)); [reflexivity|unfold lek in *; lia].
Qed.

Lemma stable_sort_spec_lemma l :
  Sorted lek (stable_sort l) /\ Permutation (stable_sort l) l /\
  forall k, filter (fun r => rs r =? k) (stable_sort l) = filter (fun r => rs r =? k) l.
Proof.
  split; [apply stable_sort_sorted|]. split; [apply stable_sort_perm|]. intros k. apply stable_sort_stable.
Qed.

(* ------------------------------------------------------------------ insert_region *)
Lemma sorted_lek_disjoint_before L : Forall region_ok L -> Sorted lek L -> ForallOrdPairs disjoint L ->
  Sorted before L.
Proof.
  induction L as [|x t IH]; intros Hok Hs Hd; [constructor|].
  inversion Hok as [|? ? Hx Ht]; subst. inversion Hs as [|? ? Hs' Hh]; subst.
  inversion Hd as [|? ? Hdx Hd']; subst.
  constructor; [apply IH; assumption|].
  destruct t as [|y t']; constructor.
  inversion Hh; subst. inversion Hdx; subst. inversion Ht as [|? ? Hy _]; subst.
  destruct Hy as [Hy1 Hy2]. unfold before, lek, Mmap.disjoint in *. lia.
Qed.
Lemma sorted_lek_not_unsorted L : Sorted lek L -> windows_pure L <> Some EUnsortedMemoryRegions.
Proof.
  induction L as [|x t IH]; intros Hs; [discriminate|].
  inversion Hs as [|? ? Hs' Hh]; subst. destruct t as [|y t']; [discriminate|].
  cbn [windows_pure]. inversion Hh; subst.
  destruct (N.ltb_spec (rs y) (rs x)); [unfold lek in *; lia|].
  destruct (rs y <=? rs x + (rl x - 1)); [discriminate|]. apply IH. exact Hs'.
Qed.

Lemma insert_cases m L r : wf_layout L -> region_ok r ->
  let L' := stable_sort (L ++ [r]) in
  Permutation L' (r :: L) /\
  ((Forall (disjoint r) L /\ insert_region m L r = Val (Ok L') /\ wf_layout L') \/
   (~ Forall (disjoint r) L /\ insert_region m L r = Val (Err EMemoryRegionOverlap))).
Proof.
  intros Hw Hr. cbv zeta. remember (stable_sort (L ++ [r])) as L' eqn:EL'.
  assert (Hp : Permutation L' (r :: L)).
  { subst L'. eapply perm_trans; [apply stable_sort_perm|].
    apply Permutation_sym, Permutation_cons_append. }
  split; [exact Hp|].
  pose proof Hw as Hw0. apply wf_layout_before in Hw. destruct Hw as [Hok Hss].
  assert (Hok' : Forall region_ok L').
  { eapply Permutation_Forall; [apply Permutation_sym; exact Hp|]. constructor; assumption. }
  assert (Hsl : Sorted lek L') by (subst L'; apply stable_sort_sorted).
  assert (Hne : L' <> []).
  { intros E. rewrite E in Hp. apply Permutation_nil in Hp. discriminate. }
  unfold Mmap.insert_region. rewrite <- EL'. rewrite (from_arc_pure_ne m L' Hok' Hne).
  assert (Hdec : Forall (disjoint r) L \/ ~ Forall (disjoint r) L).
  { clear. induction L as [|y t IH]; [left; constructor|].
    destruct IH as [IH|IH].
    - assert (D : disjoint r y \/ ~ disjoint r y) by (unfold Mmap.disjoint; lia).
      destruct D as [D|D]; [left; constructor; assumption|right; intros H; inversion H; contradiction].
    - right. intros H; inversion H; contradiction. }
  destruct Hdec as [Hd|Hd].
  - left. split; [exact Hd|].
    assert (Hfop : ForallOrdPairs disjoint L').
    { apply (FOP_perm _ disjoint_sym (r :: L)); [apply Permutation_sym; exact Hp|].
      constructor; [exact Hd|]. destruct Hw0 as (_ & _ & Hd0). exact Hd0. }
    pose proof (sorted_lek_disjoint_before L' Hok' Hsl Hfop) as Hb.
    pose proof Hb as Hn. apply (windows_none_iff _ Hok') in Hn. rewrite Hn.
    split; [reflexivity|]. apply wf_layout_before. split; [exact Hok'|].
    apply Sorted_StronglySorted; [exact before_trans|exact Hb].
  - right. split; [exact Hd|].
    destruct (windows_pure L') as [e|] eqn:Ew.
    + destruct e; try reflexivity; exfalso.
      * apply (windows_some_iff _ _ Hok') in Ew. destruct Ew as (? & ? & ? & ? & _ & _ & [[Hc _]|[Hc _]]); discriminate.
      * apply (windows_some_iff _ _ Hok') in Ew. destruct Ew as (? & ? & ? & ? & _ & _ & [[Hc _]|[Hc _]]); discriminate.
      * apply (windows_some_iff _ _ Hok') in Ew. destruct Ew as (? & ? & ? & ? & _ & _ & [[Hc _]|[Hc _]]); discriminate.
      * exact (sorted_lek_not_unsorted L' Hsl Ew).
    + exfalso. apply Hd. apply (windows_none_iff _ Hok') in Ew.
      apply Sorted_StronglySorted in Ew; [|exact before_trans].
      assert (Hfop : ForallOrdPairs disjoint L').
      { apply SS_FOP in Ew. clear - Ew. induction Ew as [|a l Hf Hs IH]; constructor; [|exact IH].
        rewrite Forall_forall in *. intros y Hy. left. exact (Hf y Hy). }
      apply (FOP_perm _ disjoint_sym _ _ Hp) in Hfop. inversion Hfop; assumption.
Qed.

Lemma not_forall_disjoint r L : ~ Forall (disjoint r) L <-> exists x, In x L /\ overlaps r x.
Proof.
  split.
  - induction L as [|y t IH]; intros H; [exfalso; apply H; constructor|].
    assert (D : disjoint r y \/ ~ disjoint r y) by (unfold Mmap.disjoint; lia).
    destruct D as [D|D].
    + destruct IH as (x & Hx & Ho); [intros Hf; apply H; constructor; assumption|].
      exists x. split; [right; exact Hx|exact Ho].
    + exists y. split; [left; reflexivity|]. unfold overlaps, Mmap.disjoint in *. lia.
  - intros (x & Hx & Ho) Hf. rewrite Forall_forall in Hf. specialize (Hf x Hx).
    apply not_overlaps_disjoint in Hf. contradiction.
Qed.

(* success: a valid layout that is exactly the old regions plus the new one *)
Lemma insert_ok_lemma m L r L' : wf_layout L -> region_ok r ->
  insert_region m L r = Val (Ok L') -> wf_layout L' /\ Permutation L' (r :: L).
Proof.
  intros Hw Hr E. destruct (insert_cases m L r Hw Hr) as (Hp & [(_ & E' & Hw')|(_ & E')]);
    rewrite E in E'; inversion E'; subst; split; assumption.
Qed.
(* failure: exactly when the new region shares an address with an old one, and then it is Overlap *)
Lemma insert_err_iff_lemma m L r : wf_layout L -> region_ok r ->
  (forall e, insert_region m L r = Val (Err e) <->
             e = EMemoryRegionOverlap /\ exists x, In x L /\ overlaps r x) /\
  ((exists L', insert_region m L r = Val (Ok L')) <-> forall x, In x L -> ~ overlaps r x).
Proof.
  intros Hw Hr. destruct (insert_cases m L r Hw Hr) as (Hp & [(Hd & E' & Hw')|(Hd & E')]).
  - split.
    + intros e. rewrite E'. split; [discriminate|]. intros (_ & Hex). exfalso.
      apply not_forall_disjoint in Hex. contradiction.
    + split; [|intros _; eexists; exact E'].
      intros _ x Hx. rewrite Forall_forall in Hd. apply not_overlaps_disjoint. apply Hd. exact Hx.
  - split.
    + intros e. rewrite E'. split.
      * intros E; inversion E; subst. split; [reflexivity|]. apply not_forall_disjoint. exact Hd.
      * intros (-> & _). reflexivity.
    + split; [intros (L' & E); rewrite E in E'; discriminate|].
      intros Hno. exfalso. apply not_forall_disjoint in Hd. destruct Hd as (x & Hx & Ho).
      exact (Hno x Hx Ho).
Qed.

End Gen.

(* ------------------------------------------------------------------ binary search *)
Definition cnt (f : N -> bool) (keys : list N) : nat := length (filter f keys).
Definition down_closed (f : N -> bool) : Prop := forall x y, x < y -> f y = true -> f x = true.

Lemma cnt_zero f keys : Forall (fun k => f k = false) keys -> cnt f keys = O.
Proof.
  unfold cnt. induction 1 as [|k t Hk Ht IH]; cbn [filter]; [reflexivity|]. rewrite Hk. exact IH.
Qed.
(* on strictly increasing keys a downward closed predicate holds exactly on the first cnt positions *)
Lemma sorted_index f keys : StronglySorted N.lt keys -> down_closed f ->
  forall i k, nth_error keys i = Some k -> (f k = true <-> (i < cnt f keys)%nat).
Proof.
  intros Hs Hf. induction Hs as [|x t Hs IH Hx]; intros i k E; [destruct i; discriminate|].
  unfold cnt in *. cbn [filter].
  destruct (f x) eqn:Fx.
  - destruct i as [|j]; cbn [nth_error] in E.
    + inversion E; subst. cbn [length]. split; [lia|intros _; exact Fx].
    + cbn [length]. rewrite (IH j k E). lia.
  - assert (Hz : length (filter f t) = O).
    { apply (cnt_zero f t). rewrite Forall_forall in *. intros y Hy.
      destruct (f y) eqn:Fy; [|reflexivity]. rewrite (Hf x y (Hx y Hy) Fy) in Fx. discriminate. }
    rewrite Hz. destruct i as [|j]; cbn [nth_error] in E.
    + inversion E; subst. rewrite Fx. split; [discriminate|lia].
    + apply nth_error_In in E. rewrite Forall_forall in Hx. specialize (Hx k E).
      split; [|lia]. intros Fk. rewrite (Hf x k Hx Fk) in Fx. discriminate.
Qed.
Lemma cnt_le_lt keys a : StronglySorted N.lt keys ->
  cnt (fun k => N.leb k a) keys = (cnt (fun k => N.ltb k a) keys + (if existsb (N.eqb a) keys then 1 else 0))%nat.
Proof.
  induction 1 as [|x t Hs IH Hx]; [reflexivity|].
  unfold cnt in *. cbn [filter existsb].
  destruct (N.leb_spec x a) as [H1|H1]; destruct (N.ltb_spec x a) as [H2|H2];
    destruct (N.eqb_spec a x) as [H3|H3]; try (exfalso; lia); cbn [length orb].
  - rewrite IH. lia.
  - subst x.
    assert (Z1 : length (filter (fun k => k <=? a) t) = O).
    { apply (cnt_zero _ t). rewrite Forall_forall in *. intros y Hy. specialize (Hx y Hy).
      destruct (N.leb_spec y a); [lia|reflexivity]. }
    assert (Z2 : length (filter (fun k => k <? a) t) = O).
    { apply (cnt_zero _ t). rewrite Forall_forall in *. intros y Hy. specialize (Hx y Hy).
      destruct (N.ltb_spec y a); [lia|reflexivity]. }
    rewrite Z1, Z2. destruct (existsb (N.eqb a) t); reflexivity.
  - exact IH.
Qed.

Lemma cnt_le_len f keys : (cnt f keys <= length keys)%nat.
Proof. unfold cnt. induction keys as [|x t IH]; cbn [filter length]; [lia|]. destruct (f x); cbn [length]; lia. Qed.
Lemma half_facts size : 1 < size -> 1 <= size / 2 /\ size / 2 < size /\ 2 * (size / 2) <= size.
Proof. intros H. lia. Qed.
Lemma bs_loop_inv keys a (Hs : StronglySorted N.lt keys) :
  forall n c, n = N.of_nat (length keys) -> c = N.of_nat (cnt (fun k => k <=? a) keys) ->
  forall fuel base size,
    1 <= size -> base + size <= n -> (base = 0 \/ base < c) -> c <= base + size ->
    (N.to_nat size <= S fuel)%nat ->
    exists b, bs_loop fuel keys a base size = Val b /\ b < n /\ (b = 0 \/ b < c) /\ c <= b + 1.
Proof.
  intros n c En Ec. induction fuel as [|f IH]; intros base size H1 H2 H3 H4 H5.
  - assert (size = 1) by lia. subst size. cbn [bs_loop]. rewrite N.leb_refl.
    exists base. split; [reflexivity|]. split; [lia|]. split; assumption.
  - cbn [bs_loop]. destruct (N.leb_spec size 1) as [Hle|Hgt].
    + assert (size = 1) by lia. subst size. exists base. split; [reflexivity|]. split; [lia|]. split; assumption.
    + destruct (half_facts size Hgt) as (Hh1 & Hh2 & Hh3). remember (size / 2) as half eqn:Eh. clear Eh.
      assert (Hmid : (N.to_nat (base + half) < length keys)%nat) by lia.
      destruct (nth_error keys (N.to_nat (base + half))) as [k|] eqn:Ek;
        [|apply nth_error_None in Ek; lia].
      assert (Hd : down_closed (fun k => k <=? a)).
      { intros x y Hxy Hy. apply N.leb_le in Hy. apply N.leb_le. lia. }
      pose proof (sorted_index _ keys Hs Hd _ _ Ek) as Hidx.
      destruct (N.ltb_spec a k) as [Hak|Hak].
      * (* cmp == Greater: keep base *)
        assert (Hn : ~ (N.to_nat (base + half) < cnt (fun k0 : N => N.leb k0 a) keys)%nat).
        { intros Hc. apply Hidx in Hc. apply N.leb_le in Hc. lia. }
        apply IH; try lia.
      * assert (Hc : (N.to_nat (base + half) < cnt (fun k0 : N => N.leb k0 a) keys)%nat).
        { apply Hidx. apply N.leb_le. lia. }
        apply IH; try lia.
Qed.

(* the bisection of std meets the documented contract on strictly increasing keys:
   it never runs out of fuel = len, never reads out of bounds, and returns Ok(i) with keys[i] = a
   or Err(number of keys below a) *)
Lemma binary_search_contract keys a : StronglySorted N.lt keys ->
  binary_search keys a = Val (bs_contract keys a).
Proof.
  intros Hs. unfold binary_search, bs_contract, count_lt.
  destruct (N.eqb_spec (N.of_nat (length keys)) 0) as [Hz|Hnz].
  - destruct keys; [reflexivity|cbn [length] in Hz; lia].
  - assert (Hinv : exists b, bs_loop (length keys) keys a 0 (N.of_nat (length keys)) = Val b /\
                   b < N.of_nat (length keys) /\ (b = 0 \/ b < N.of_nat (cnt (fun k => k <=? a) keys)) /\
                   N.of_nat (cnt (fun k => k <=? a) keys) <= b + 1).
    { apply (bs_loop_inv keys a Hs _ _ eq_refl eq_refl); try lia.
      pose proof (cnt_le_len (fun k => k <=? a) keys). lia. }
    destruct Hinv as (b & Eb & Hb1 & Hb2 & Hb3).
    rewrite Eb. cbn [bind].
    destruct (nth_error keys (N.to_nat b)) as [k|] eqn:Ek; [|apply nth_error_None in Ek; lia].
    assert (Hd1 : down_closed (fun k => k <=? a)).
    { intros x y Hxy Hy. apply N.leb_le in Hy. apply N.leb_le. lia. }
    assert (Hd2 : down_closed (fun k => k <? a)).
    { intros x y Hxy Hy. apply N.ltb_lt in Hy. apply N.ltb_lt. lia. }
    pose proof (sorted_index _ keys Hs Hd1 _ _ Ek) as I1.
    pose proof (sorted_index _ keys Hs Hd2 _ _ Ek) as I2.
    pose proof (cnt_le_lt keys a Hs) as Ec. fold (cnt (fun k => k <? a) keys).
    remember (cnt (fun k => k <=? a) keys) as cle. remember (cnt (fun k => k <? a) keys) as clt.
    rewrite N.leb_le in I1. rewrite N.ltb_lt in I2.
    destruct (N.eqb_spec k a) as [Hka|Hka].
    + subst k. assert (Hin : existsb (N.eqb a) keys = true).
      { apply existsb_exists. exists a. split; [eapply nth_error_In; exact Ek|apply N.eqb_refl]. }
      rewrite Hin in *. f_equal. f_equal. assert (N.to_nat b < cle)%nat by (apply I1; lia). lia.
    + destruct (N.ltb_spec k a) as [Hlt|Hge].
      * assert (N.to_nat b < clt)%nat by (apply I2; lia).
        destruct (existsb (N.eqb a) keys); [exfalso; lia|]. f_equal. f_equal. lia.
      * assert (Hn : ~ (N.to_nat b < cle)%nat) by (intros Hc; apply I1 in Hc; lia).
        destruct (existsb (N.eqb a) keys); [exfalso; lia|]. f_equal. f_equal. lia.
Qed.

Lemma contract_all_gt keys a : Forall (fun k => a < k) keys ->
  existsb (N.eqb a) keys = false /\ count_lt keys a = 0.
Proof.
  unfold count_lt. induction 1 as [|k t Hk Ht [IH1 IH2]]; [split; reflexivity|].
  cbn [existsb filter]. destruct (N.eqb_spec a k); [lia|]. destruct (N.ltb_spec k a); [lia|].
  split; [exact IH1|exact IH2].
Qed.
Lemma bs_contract_cons_lt k keys a : k < a ->
  bs_contract (k :: keys) a = match bs_contract keys a with BsOk i => BsOk (i + 1) | BsErr i => BsErr (i + 1) end.
Proof.
  intros H. unfold bs_contract, count_lt. cbn [existsb filter].
  destruct (N.eqb_spec a k); [lia|]. destruct (N.ltb_spec k a); [|lia]. cbn [orb length].
  destruct (existsb (N.eqb a) keys); f_equal; lia.
Qed.

Section Gen2.
Context {A : Type} (rs rl : A -> N).
Notation region_ok := (region_ok rs rl).
Notation disjoint := (disjoint rs rl).
Notation wf_layout := (wf_layout rs rl).
Notation region_last_addr := (region_last_addr rs rl).
Notation from_arc_regions := (from_arc_regions rs rl).
Notation insert_region := (insert_region rs rl).
Notation remove_region := (remove_region rs rl).
Notation find_region := (find_region rs rl).
Notation mmap_find := (mmap_find rs rl).
Notation before := (before rs rl).
Notation ltk := (ltk rs).

Lemma SS_map_ltk L : StronglySorted ltk L -> StronglySorted N.lt (map rs L).
Proof.
  induction 1 as [|x t Hs IH Hx]; cbn [map]; constructor; [exact IH|].
  rewrite Forall_forall in *. intros k Hk. apply in_map_iff in Hk. destruct Hk as (y & <- & Hy). exact (Hx y Hy).
Qed.

(* where the contract of the search points, in terms of the region list *)
Lemma contract_split L a : StronglySorted ltk L ->
  (exists l1 g l2, L = l1 ++ g :: l2 /\ Forall (fun x => rs x < a) l1 /\ rs g = a /\
                   Forall (fun x => a < rs x) l2 /\ bs_contract (map rs L) a = BsOk (N.of_nat (length l1))) \/
  (exists l1 l2, L = l1 ++ l2 /\ Forall (fun x => rs x < a) l1 /\ Forall (fun x => a < rs x) l2 /\
                 bs_contract (map rs L) a = BsErr (N.of_nat (length l1))).
Proof.
  induction 1 as [|x t Hs IH Hx].
  - right. exists [], []. repeat split; constructor.
  - destruct (N.lt_ge_cases (rs x) a) as [Hlt|Hge].
    + cbn [map]. rewrite (bs_contract_cons_lt _ _ _ Hlt).
      destruct IH as [(l1 & g & l2 & E & H1 & H2 & H3 & H4)|(l1 & l2 & E & H1 & H3 & H4)].
      * left. exists (x :: l1), g, l2. rewrite H4. subst t. repeat split; try assumption.
        -- constructor; assumption.
        -- cbn [length]. f_equal. lia.
      * right. exists (x :: l1), l2. rewrite H4. subst t. repeat split; try assumption.
        -- constructor; assumption.
        -- cbn [length]. f_equal. lia.
    + assert (Ht : Forall (fun y => a < rs y) t).
      { rewrite Forall_forall in *. intros y Hy. specialize (Hx y Hy). unfold Mmap.ltk in Hx. lia. }
      assert (Htk : Forall (fun k => a < k) (map rs t)).
      { rewrite Forall_forall in *. intros k Hk. apply in_map_iff in Hk. destruct Hk as (y & <- & Hy). exact (Ht y Hy). }
      destruct (contract_all_gt _ _ Htk) as [E1 E2]. unfold count_lt in E2.
      destruct (N.eq_dec (rs x) a) as [Heq|Hne].
      * left. exists [], x, t. repeat split; try assumption; try constructor.
        unfold bs_contract, count_lt. cbn [map existsb filter]. rewrite Heq, N.eqb_refl. cbn [orb].
        destruct (N.ltb_spec a a); [lia|]. rewrite E2. reflexivity.
      * right. exists [], (x :: t). repeat split; try constructor; try assumption; [lia|].
        unfold bs_contract, count_lt. cbn [map existsb filter].
        destruct (N.eqb_spec a (rs x)); [lia|]. destruct (N.ltb_spec (rs x) a); [lia|].
        cbn [orb]. rewrite E1, E2. reflexivity.
Qed.

Lemma split_unique l1 g l2 l1' g' l2' : StronglySorted ltk (l1 ++ g :: l2) ->
  l1 ++ g :: l2 = l1' ++ g' :: l2' -> rs g = rs g' -> l1 = l1' /\ g = g' /\ l2 = l2'.
Proof.
  revert l1'. induction l1 as [|y l1 IH]; intros [|y' l1'] Hs E Hk; cbn [app] in *.
  - inversion E; subst. repeat split.
  - inversion E; subst. inversion Hs as [|? ? _ Hf]; subst. rewrite Forall_forall in Hf.
    assert (Hin : In g' (l1' ++ g' :: l2')) by (apply in_or_app; right; left; reflexivity).
    specialize (Hf g' Hin). unfold Mmap.ltk in Hf. lia.
  - inversion E; subst. inversion Hs as [|? ? _ Hf]; subst. rewrite Forall_forall in Hf.
    assert (Hin : In g (l1 ++ g :: l2)) by (apply in_or_app; right; left; reflexivity).
    specialize (Hf g Hin). unfold Mmap.ltk in Hf. lia.
  - inversion E; subst. inversion Hs as [|? ? Hs' _]; subst.
    destruct (IH l1' Hs' H1 Hk) as (-> & -> & ->). repeat split.
Qed.

(* ------------------------------------------------------------------ remove_region *)
Lemma remove_cases L b s : wf_layout L ->
  (exists l1 g l2, L = l1 ++ g :: l2 /\ rs g = b /\ rl g = s /\
                   remove_region L b s = Val (Ok (l1 ++ l2, g))) \/
  ((forall g, In g L -> ~ (rs g = b /\ rl g = s)) /\
   remove_region L b s = Val (Err EInvalidGuestRegion)).
Proof.
  intros (Hok & Hs & Hd). unfold Mmap.remove_region.
  rewrite (binary_search_contract _ b (SS_map_ltk L Hs)). cbn [bind].
  destruct (contract_split L b Hs) as [(l1 & g & l2 & E & H1 & H2 & H3 & H4)|(l1 & l2 & E & H1 & H3 & H4)];
    rewrite H4.
  - rewrite Nat2N.id. subst L. rewrite nth_error_mid.
    destruct (N.eqb_spec (rl g) s) as [Hsz|Hsz].
    + left. exists l1, g, l2. repeat split; try assumption.
      unfold vec_remove. rewrite firstn_mid, skipn_mid. reflexivity.
    + right. split; [|reflexivity]. intros g' Hin [Hb Hl].
      apply in_app_or in Hin. rewrite Forall_forall in H1, H3.
      destruct Hin as [Hin|[<-|Hin]]; [specialize (H1 g' Hin); lia|contradiction|specialize (H3 g' Hin); lia].
  - right. split; [|reflexivity]. intros g' Hin [Hb Hl]. subst L.
    apply in_app_or in Hin. rewrite Forall_forall in H1, H3.
    destruct Hin as [Hin|Hin]; [specialize (H1 g' Hin); lia|specialize (H3 g' Hin); lia].
Qed.

Lemma wf_remove_mid l1 g l2 : wf_layout (l1 ++ g :: l2) -> wf_layout (l1 ++ l2).
Proof.
  intros H. apply wf_layout_before in H. destruct H as [Hok Hs]. apply wf_layout_before.
  apply Forall_app in Hok. destruct Hok as [Hok1 Hok2]. inversion Hok2; subst.
  split; [apply Forall_app; split; assumption|].
  destruct (SS_app_inv _ _ _ Hs) as (S1 & S2 & S3). inversion S2; subst.
  apply SS_app; [assumption|assumption|]. intros x y Hx Hy. apply S3; [exact Hx|right; exact Hy].
Qed.

Lemma remove_ok_iff_lemma L b s L' g : wf_layout L ->
  (remove_region L b s = Val (Ok (L', g)) <->
   exists l1 l2, L = l1 ++ g :: l2 /\ L' = l1 ++ l2 /\ rs g = b /\ rl g = s).
Proof.
  intros Hw. destruct (remove_cases L b s Hw) as [(l1 & g0 & l2 & E & Hb & Hl & Er)|(Hno & Er)]; rewrite Er.
  - split.
    + intros E'; inversion E'; subst. exists l1, l2. repeat split.
    + intros (l1' & l2' & E1 & E2 & Hb' & Hl'). destruct Hw as (_ & Hs & _). rewrite E in Hs.
      rewrite E in E1. destruct (split_unique _ _ _ _ _ _ Hs E1 ltac:(lia)) as (-> & -> & ->). subst L'. reflexivity.
  - split; [discriminate|]. intros (l1' & l2' & E1 & E2 & Hb' & Hl'). exfalso.
    apply (Hno g); [subst L; apply in_or_app; right; left; reflexivity|split; assumption].
Qed.
Lemma remove_err_iff_lemma L b s : wf_layout L ->
  (forall e, remove_region L b s = Val (Err e) <->
     e = EInvalidGuestRegion /\ forall g, In g L -> ~ (rs g = b /\ rl g = s)) /\
  (exists r, remove_region L b s = Val r).
Proof.
  intros Hw. destruct (remove_cases L b s Hw) as [(l1 & g0 & l2 & E & Hb & Hl & Er)|(Hno & Er)]; rewrite Er.
  - split; [|eexists; reflexivity]. intros e. split; [discriminate|]. intros (_ & Hno). exfalso.
    apply (Hno g0); [subst L; apply in_or_app; right; left; reflexivity|split; assumption].
  - split; [|eexists; reflexivity]. intros e. split.
    + intros E; inversion E; subst. split; [reflexivity|exact Hno].
    + intros (-> & _). reflexivity.
Qed.
Lemma remove_wf L b s L' g : wf_layout L -> remove_region L b s = Val (Ok (L', g)) ->
  wf_layout L' /\ Permutation L (g :: L').
Proof.
  intros Hw E. apply (remove_ok_iff_lemma L b s L' g Hw) in E. destruct E as (l1 & l2 & -> & -> & _ & _).
  split; [eapply wf_remove_mid; exact Hw|]. apply Permutation_sym, Permutation_middle.
Qed.

(* ------------------------------------------------------------------ find_region *)
Lemma find_region_eq m L a : wf_layout L -> find_region m L a = Val (mmap_find L a).
Proof.
  intros (Hok & Hs & Hd). unfold Mmap.find_region, Mmap.mmap_find.
  rewrite (binary_search_contract _ a (SS_map_ltk L Hs)). cbn [bind].
  destruct (contract_split L a Hs) as [(l1 & g & l2 & E & H1 & H2 & H3 & H4)|(l1 & l2 & E & H1 & H3 & H4)];
    rewrite H4.
  - rewrite Nat2N.id. subst L. rewrite nth_error_mid. reflexivity.
  - destruct (N.ltb_spec 0 (N.of_nat (length l1))) as [Hpos|Hz]; [|reflexivity].
    rewrite psub_Val by lia. cbn [bind].
    destruct (nth_error L (N.to_nat (N.of_nat (length l1) - 1))) as [p|] eqn:Ep.
    + assert (Hp : region_ok p). { rewrite Forall_forall in Hok. apply Hok. eapply nth_error_In. exact Ep. }
      rewrite (last_addr_ok rs rl m p Hp). cbn [bind]. destruct (a <=? rs p + (rl p - 1)); reflexivity.
    + exfalso. apply nth_error_None in Ep. subst L. rewrite app_length in Ep. lia.
Qed.

(* THE INTERFACE LEMMA: on a valid layout the lookup returns exactly the region containing the address *)
Lemma mmap_find_spec L : wf_layout L -> forall a r,
  mmap_find L a = Some r <-> In r L /\ rs r <= a /\ a <= rs r + rl r - 1.
Proof.
  intros Hw a r. pose proof Hw as Hw0. apply wf_layout_before in Hw0. destruct Hw0 as [Hok Hb].
  destruct Hw as (_ & Hs & _). unfold Mmap.mmap_find. rewrite Forall_forall in Hok.
  destruct (contract_split L a Hs) as [(l1 & g & l2 & E & H1 & H2 & H3 & H4)|(l1 & l2 & E & H1 & H3 & H4)];
    rewrite H4; rewrite Forall_forall in H1, H3.
  - rewrite Nat2N.id. subst L. rewrite nth_error_mid.
    assert (Hg : region_ok g) by (apply Hok; apply in_or_app; right; left; reflexivity).
    destruct Hg as [Hg1 Hg2]. split.
    + intros E; inversion E; subst. split; [apply in_or_app; right; left; reflexivity|lia].
    + intros (Hin & Hlo & Hhi). apply in_app_or in Hin. destruct Hin as [Hin|[<-|Hin]]; [|reflexivity|].
      * exfalso. destruct (SS_app_inv _ _ _ Hb) as (_ & _ & S3).
        specialize (S3 r g Hin (or_introl eq_refl)). unfold Proofs.Mmap.before in S3.
        assert (Hr : region_ok r) by (apply Hok; apply in_or_app; left; exact Hin). destruct Hr. lia.
      * exfalso. specialize (H3 r Hin). lia.
  - destruct (N.ltb_spec 0 (N.of_nat (length l1))) as [Hpos|Hz].
    + destruct (exists_last (l := l1)) as (l1' & p & El1); [intros ->; cbn [length] in Hpos; lia|].
      subst l1. rewrite app_length in *. cbn [length] in *.
      replace (N.to_nat (N.of_nat (length l1' + 1) - 1)) with (length l1') by lia.
      subst L. rewrite <- app_assoc. cbn [app]. rewrite nth_error_mid.
      rewrite <- app_assoc in Hb, Hok. cbn [app] in Hb, Hok.
      assert (Hp : region_ok p) by (apply Hok; apply in_or_app; right; left; reflexivity).
      destruct Hp as [Hp1 Hp2].
      assert (Hpa : rs p < a) by (apply H1; apply in_or_app; right; left; reflexivity).
      assert (Hcase : forall r, In r (l1' ++ p :: l2) -> rs r <= a -> a <= rs r + rl r - 1 -> r = p).
      { intros r0 Hin Hlo Hhi. apply in_app_or in Hin. destruct Hin as [Hin|[<-|Hin]]; [|reflexivity|].
        - exfalso. destruct (SS_app_inv _ _ _ Hb) as (_ & _ & S3).
          specialize (S3 r0 p Hin (or_introl eq_refl)). unfold Proofs.Mmap.before in S3.
          assert (Hr : region_ok r0) by (apply Hok; apply in_or_app; left; exact Hin). destruct Hr. lia.
        - exfalso. specialize (H3 r0 Hin). lia. }
      destruct (N.leb_spec a (rs p + (rl p - 1))) as [Hle|Hgt].
      * split.
        -- intros E; inversion E; subst. split; [apply in_or_app; right; left; reflexivity|lia].
        -- intros (Hin & Hlo & Hhi). rewrite (Hcase r Hin Hlo Hhi). reflexivity.
      * split; [discriminate|]. intros (Hin & Hlo & Hhi). exfalso.
        rewrite (Hcase r Hin Hlo Hhi) in Hhi. lia.
    + split; [discriminate|]. intros (Hin & Hlo & Hhi). exfalso.
      assert (l1 = []) by (destruct l1; [reflexivity|cbn [length] in Hz; lia]). subst l1 L. cbn [app] in Hin.
      specialize (H3 r Hin). lia.
Qed.
Lemma mmap_find_unique L a r r' : wf_layout L ->
  In r L -> rs r <= a <= rs r + rl r - 1 -> In r' L -> rs r' <= a <= rs r' + rl r' - 1 -> r = r'.
Proof.
  intros Hw H1 [H2 H3] H4 [H5 H6].
  assert (E1 : mmap_find L a = Some r) by (apply (mmap_find_spec L Hw); repeat split; assumption).
  assert (E2 : mmap_find L a = Some r') by (apply (mmap_find_spec L Hw); repeat split; assumption).
  congruence.
Qed.

(* ------------------------------------------------------------------ every reachable map is valid *)
Lemma wf_preserved_lemma m L : reachable rs rl m L -> wf_layout L.
Proof.
  induction 1 as [|L L' Hok E|L r L' Hr IH Hrok E|L b s L' r Hr IH E].
  - apply wf_nil.
  - apply (from_ok_iff_lemma rs rl m L L' Hok) in E. destruct E as (-> & _ & Hw). exact Hw.
  - exact (proj1 (insert_ok_lemma rs rl m L r L' IH Hrok E)).
  - exact (proj1 (remove_wf L b s L' r IH E)).
Qed.
End Gen2.
