(* C15perm: the mapping that is made carries exactly the protection and flags the region reports (standard build). *)
From VM Require Import Prelude.MachInt Prelude.Outcome Prelude.Tok Impl.MmapBuild Spec.C15 Suite.C15
  Spec.C15perm Suite.C15perm Proofs.C15 Proofs.C15ModelOk.

Lemma mmap_args_app_nomap l1 l2 : mmap_args l1 = None -> mmap_args (l1 ++ l2) = mmap_args l2.
Proof.
  induction l1 as [|e t IH]; intros H; [reflexivity|].
  destruct e as [| |s pp f fi off [|]|s|cc ok|gg cc i ok|i cc]; cbn [mmap_args app] in *; try (apply IH; exact H).
  discriminate.
Qed.
Lemma cfo_nomap o start size r l : check_file_offset o start size = (r, l) -> mmap_args l = None.
Proof.
  unfold check_file_offset. destruct (checked_add start size); [destruct (os_filesize o <? n)|];
    intros E; inversion E; reflexivity.
Qed.

(* MmapRegionBuilder::build (no external pointer): the one successful mmap of the log was made with exactly the
   protection and flags that the region reports, which are the requested ones *)
Lemma build_args m o q g l : q_raw q = None -> build m o q = Val (Ok g, l) ->
  g_prot g = q_prot q /\ g_flags g = q_flags q /\ mmap_args l = Some (q_prot q, q_flags q).
Proof.
  intros HR. unfold build. rewrite HR.
  destruct (negb (N.land (q_flags q) MAP_FIXED =? 0)); [intros E; discriminate|].
  destruct (match q_file q with Some start => check_file_offset o start (q_size q) | None => (Ok tt, []) end)
    as [r l1] eqn:EC.
  assert (N1 : mmap_args l1 = None).
  { destruct (q_file q); [exact (cfo_nomap _ _ _ _ _ EC)|inversion EC; reflexivity]. }
  destruct r as [u|e]; [|intros E; discriminate].
  destruct (os_mmap_ok o); intros E; inversion E; subst; clear E.
  cbn [g_prot g_flags]. repeat split. rewrite (mmap_args_app_nomap _ _ N1). reflexivity.
Qed.

Ltac use_ba EB := match type of EB with build ?m ?o ?q = _ =>
  let P1 := fresh "P" in let P2 := fresh "P" in let P3 := fresh "P" in
  destruct (build_args m o q _ _ eq_refl EB) as (P1 & P2 & P3); cbn [q_prot q_flags] in *; rewrite P1, P2; exact P3 end.

Lemma construct_args c o g b l : c_raw c = None -> (c_kind c = 5 \/ (c_base c = None /\ c_kind c < 4)) ->
  construct c o = Val (Ok (g, b), l) -> mmap_args l = Some (g_prot g, g_flags g).
Proof.
  intros HR HK. unfold construct. destruct (c_kind c =? 5) eqn:K5.
  - unfold from_range.
    destruct (match fstart c with Some start => mr_from_file (c_mode c) o start (c_size c)
                                | None => mr_new (c_mode c) o (c_size c) end) as [[r l1]| |] eqn:EB;
      cbn [bind]; try (intros E; discriminate).
    destruct r as [g1|e]; [|intros E; inversion E].
    assert (A : mmap_args l1 = Some (g_prot g1, g_flags g1)).
    { destruct (fstart c); unfold mr_from_file, mr_new in EB; use_ba EB. }
    unfold guest_region_new. destruct (checked_add _ (g_size g1)); intros E; inversion E; subst.
    rewrite app_nil_r. exact A.
  - destruct HK as [HK|[HK K4]]; [rewrite HK in K5; discriminate|]. rewrite HK.
    destruct (construct_region c o) as [[r l1]| |] eqn:EB; cbn [bind]; try (intros E; discriminate).
    destruct r as [g1|e]; intros E; inversion E; subst; clear E.
    unfold construct_region in EB.
    destruct (c_kind c) as [|[[p|p|]|[p|p|]|]]; unfold mr_new, mr_from_file, mr_build, mr_build_raw in EB.
    all: try lia.
    all: try (use_ba EB).
    all: match type of EB with build ?m ?o ?q = _ =>
           destruct (build_args m o q _ _ HR EB) as (P1 & P2 & P3); cbn [q_prot q_flags] in *; rewrite P1, P2; exact P3 end.
Qed.

Lemma run_probe c probe : o_probe (run_C15 c probe) = probe.
Proof.
  unfold run_C15. destruct (construct c (os_of c probe)) as [[r l]| |]; [|reflexivity|reflexivity].
  destruct r as [[g b]|e]; reflexivity.
Qed.
Lemma run_inv c probe : o_res (run_C15 c probe) = 0 ->
  exists g b l, construct c (os_of c probe) = Val (Ok (g, b), l) /\
    o_prot (run_C15 c probe) = g_prot g /\ o_flags (run_C15 c probe) = g_flags g.
Proof.
  unfold run_C15. destruct (construct c (os_of c probe)) as [[r l]| |]; cbn [o_res obs_err]; try discriminate.
  destruct r as [[g b]|e]; cbn [o_res o_prot o_flags obs_err].
  - intros _. exists g, b, l. repeat split.
  - destruct e; discriminate.
Qed.

Definition probe_wf_p (c : case15p) (probe : N) : Prop :=
  probe = 0 \/ probe = 1 \/ (probe = 2 /\ explicit_flags (to15 c) = true /\ hasbit (cp_flags c) 16 = true).

Lemma C15perm_model_ok_lemma c probe : wf_p c = true -> probe_wf_p c probe ->
  ok_C15perm c (run_C15perm c probe) = true.
Proof.
  intros W PW. unfold wf_p in W. apply andb_true_iff in W. destruct W as [W WP].
  apply andb_true_iff in W. destruct W as [WK1 WK2].
  assert (Hk : exists k, cp_page c = 2 ^ k).
  { unfold is_pow2_page in WP. apply orb_true_iff in WP. destruct WP as [WP|WP]; [apply orb_true_iff in WP; destruct WP as [WP|WP]|];
      apply N.eqb_eq in WP; rewrite WP; [exists 12|exists 14|exists 16]; reflexivity. }
  destruct Hk as [k Hk].
  assert (W15 : wf15 (to15 c)).
  { unfold wf15, to15. cbn [c_kind c_file c_raw c_base]. destruct (cp_kind c =? 5); exact WK2. }
  assert (HH : huge_ok (c_kind (to15 c)) (c_huge (to15 c)) = true).
  { unfold huge_ok, to15. cbn [c_kind c_huge]. rewrite orb_true_r. reflexivity. }
  assert (PW15 : probe_wf (to15 c) probe).
  { unfold probe_wf. destruct PW as [P|[P|(P & E & F)]]; [left; exact P|right; left; exact P|].
    right. right. split; [exact P|]. right. split; [exact E|exact F]. }
  pose proof (C15_model_ok_lemma (to15 c) probe k W15 HH Hk PW15) as H.
  unfold ok_C15 in H. rewrite run_probe in H. cbn [c_raw to15] in H. fold (to15 c) in H.
  unfold ok_C15perm, run_C15perm. cbn [op_probe op_res op_prot op_flags op_mprot].
  destruct (reasons (to15 c)) as [|r0 rs] eqn:ER.
  - destruct (probe =? 0) eqn:P0.
    + apply andb_true_iff in H. destruct H as [H _]. apply N.eqb_eq in H. rewrite H. reflexivity.
    + repeat (apply andb_true_iff in H; destruct H as [H ?]).
      assert (R0 : o_res (run_C15 (to15 c) probe) = 0) by (apply N.eqb_eq; assumption).
      destruct (run_inv _ _ R0) as (g & b & l & EC & EP & EF). rewrite EC.
      assert (HK : c_kind (to15 c) = 5 \/ (c_base (to15 c) = None /\ c_kind (to15 c) < 4)).
      { unfold to15. cbn [c_kind c_base]. destruct (N.eqb_spec (cp_kind c) 5) as [K|K]; [left; exact K|right].
        split; [reflexivity|].
        repeat (apply orb_true_iff in WK1; destruct WK1 as [WK1|WK1]); try discriminate; apply N.eqb_eq in WK1; lia. }
      rewrite (construct_args (to15 c) _ g b l eq_refl HK EC).
      rewrite R0. cbn [N.eqb andb]. unfold mprot_of_args. change MAP_SHARED with 1. rewrite <- EP, <- EF.
      apply andb_true_iff. split; [|apply N.eqb_refl].
      match goal with Hx : (if explicit_flags _ then _ else _) = true |- _ =>
        cbn [c_prot c_flags to15] in Hx; exact Hx end.
  - apply andb_true_iff in H. destruct H as [H _]. apply andb_true_iff in H. destruct H as [H _]. exact H.
Qed.
