(* C13 proofs *)
From VM Require Import Prelude.MachInt Prelude.Outcome Prelude.Tok Prelude.C1314List Impl.Io Impl.Std Spec.C13 Suite.C13.

Lemma std_slice_read_count_lemma : forall st len,
  snd (std_slice_read st len) = Ok (N.min len (nlen (slice_rem st))).
Proof. intros. unfold std_slice_read. cbn [snd]. rewrite nlen_ntake. reflexivity. Qed.
