(* C13 proofs.
     A. the arena around a buffer,
     B. every in-memory adapter agrees with the documented std operation on every state,
     C. the default exact loops over ANY OS oracle agree with std's provided read_exact / write_all,
     D. the three oracle instances (file, byte queue, message queue) never interrupt: their loops
        terminate within the fuel used,
     E. one step, histories (induction over the operation list), the checker on the model. *)
From VM Require Import Prelude.MachInt Prelude.Outcome Prelude.Tok Prelude.C1314List Impl.Io Impl.Std Spec.C13 Suite.C13.

(* ------------------------------------------------------------------ A. arena *)
Definition Cm : list N := repeat canary (N.to_nat margin).
Lemma arena_eq b : arena b = Cm ++ b ++ Cm.
Proof. reflexivity. Qed.
Lemma nlen_Cm : nlen Cm = margin.
Proof. reflexivity. Qed.
Lemma nlen_arena b : nlen (arena b) = margin + nlen b + margin.
Proof. rewrite arena_eq, !nlen_app, nlen_Cm. lia. Qed.
Lemma ndrop_margin X : ndrop margin (Cm ++ X) = X.
Proof. exact (ndrop_app_exact Cm X). Qed.
Lemma ntake_margin X : ntake margin (Cm ++ X) = Cm.
Proof. exact (ntake_app_exact Cm X). Qed.

Lemma arena_write_at b off bs : off + nlen bs <= nlen b ->
  mem_write (arena b) (margin + off) bs = arena (mem_write b off bs).
Proof.
  intros H. unfold mem_write. rewrite !arena_eq.
  rewrite (ntake_app_ge (margin + off) Cm) by (rewrite nlen_Cm; lia). rewrite nlen_Cm.
  replace (margin + off - margin) with off by lia.
  rewrite (ntake_app_le off b Cm) by lia.
  rewrite (ndrop_app_ge (margin + off + nlen bs) Cm) by (rewrite nlen_Cm; lia). rewrite nlen_Cm.
  replace (margin + off + nlen bs - margin) with (off + nlen bs) by lia.
  rewrite (ndrop_app_le (off + nlen bs) b Cm) by lia.
  rewrite <- !app_assoc. reflexivity.
Qed.
Lemma mem_write_0 (b bs : list N) : mem_write b 0 bs = bs ++ ndrop (nlen bs) b.
Proof. unfold mem_write. rewrite ntake_0, N.add_0_l. reflexivity. Qed.
Lemma arena_write b bs : nlen bs <= nlen b -> mem_write (arena b) margin bs = arena (bs ++ ndrop (nlen bs) b).
Proof.
  intros H. rewrite <- mem_write_0. rewrite <- arena_write_at by lia. reflexivity.
Qed.
Lemma arena_read_at b off n : off + n <= nlen b -> mem_read (arena b) (margin + off) n = mem_read b off n.
Proof.
  intros H. unfold mem_read. rewrite arena_eq.
  rewrite (ndrop_app_ge (margin + off) Cm) by (rewrite nlen_Cm; lia). rewrite nlen_Cm.
  replace (margin + off - margin) with off by lia.
  rewrite (ndrop_app_le off b Cm) by lia. rewrite ntake_app_le; [reflexivity|]. rewrite nlen_ndrop. lia.
Qed.
Lemma arena_read b n : n <= nlen b -> mem_read (arena b) margin n = ntake n b.
Proof.
  intros H. change (mem_read (arena b) margin n) with (mem_read (arena b) (margin + 0) n).
  rewrite arena_read_at by lia.
  unfold mem_read. rewrite ndrop_0. reflexivity.
Qed.
Lemma arena_read_all b : mem_read (arena b) margin (nlen b) = b.
Proof. rewrite arena_read by lia. apply ntake_all. lia. Qed.
Lemma margins_ok_arena b b' : nlen b' = nlen b -> margins_ok b (arena b') = true.
Proof.
  intros H. unfold margins_ok. rewrite arena_eq, ntake_margin.
  rewrite (ndrop_app_ge (margin + nlen b) Cm) by (rewrite nlen_Cm; lia). rewrite nlen_Cm.
  replace (margin + nlen b - margin) with (nlen b') by lia. rewrite ndrop_app_exact.
  apply andb_true_iff. split; apply list_eqb_eq; reflexivity.
Qed.
Lemma nlen_write_prefix (b bs : list N) : nlen bs <= nlen b -> nlen (bs ++ ndrop (nlen bs) b) = nlen b.
Proof. intros H. rewrite nlen_app, nlen_ndrop. lia. Qed.

(* ------------------------------------------------------------------ B. in-memory adapters *)
(* the adapter moved what std moves: same code, same stream, buffer = std's bytes then the old tail *)
Definition Agree (o : op13) (vm : outcome ((sstate * list N) * (N * N)))
  (sd : outcome (option sstate * list N * (N * N))) : Prop :=
  exists st' b' rc ost bs, vm = Val ((st', arena b'), rc) /\ sd = Val (ost, bs, rc)
    /\ nlen b' = nlen (op_buf o)
    /\ (rc_success rc = true ->
          ost = Some st' /\ nlen bs <= nlen (op_buf o)
          /\ (is_read o = true -> b' = bs ++ ndrop (nlen bs) (op_buf o)))
    /\ (rc_success rc = false -> ost = None)
    /\ (is_read o = false -> b' = op_buf o).

Lemma ntake_min_len_r {A} a (l : list A) : ntake (N.min a (nlen l)) l = ntake a l.
Proof.
  destruct (N.le_ge_cases a (nlen l)) as [H|H].
  - rewrite N.min_l by lia. reflexivity.
  - rewrite N.min_r by lia. rewrite !ntake_all by lia. reflexivity.
Qed.

(* value of the two slice adapters on any memory / window *)
Lemma slice_read_volatile_val st m v :
  let total := N.min (vs_len v) (nlen (slice_rem st)) in
  slice_read_volatile st m v =
  Val ((set_pos st (s_pos st + total), mem_write m (vs_off v) (ntake total (slice_rem st))), Ok total).
Proof.
  intros total. unfold slice_read_volatile, copy_to_volatile_slice, passert. fold total.
  destruct (N.leb_spec total (nlen (slice_rem st))) as [_|Hbad]; [reflexivity|unfold total in Hbad; lia].
Qed.
Lemma mslice_write_volatile_val st m v :
  let total := N.min (vs_len v) (nlen (slice_rem st)) in
  mslice_write_volatile st m v =
  Val (({| s_data := mem_write (s_data st) (s_pos st) (mem_read m (vs_off v) total);
           s_pos := s_pos st + total; s_out := s_out st |}, m), Ok total).
Proof.
  intros total. unfold mslice_write_volatile, copy_from_volatile_slice, passert. fold total.
  destruct (N.leb_spec total (nlen (slice_rem st))) as [_|Hbad]; [reflexivity|unfold total in Hbad; lia].
Qed.

Ltac agree_tail := cbn [op_buf is_read].

Lemma agree_slice_read md st pre :
  Agree (ORead pre) (vm_step md KSliceR st (ORead pre)) (std_step KSliceR st (ORead pre)).
Proof.
  unfold vm_step, std_step, lift_n, std_slice_read. cbn [op_buf]. rewrite slice_read_volatile_val.
  cbn [win vs_len vs_off omap fst snd rc_n].
  set (rem := slice_rem st). set (len := nlen pre). set (total := N.min len (nlen rem)).
  assert (Hb : ntake total rem = ntake len rem) by apply ntake_min_len_r.
  assert (Hn : nlen (ntake len rem) = total) by (rewrite nlen_ntake; reflexivity).
  rewrite Hb. rewrite arena_write by (rewrite Hn; unfold total, len; lia).
  assert (Hle : nlen (ntake len rem) <= nlen pre) by (rewrite Hn; unfold total, len; lia).
  clearbody total. subst total.
  eexists _, _, _, _, _. split; [reflexivity|]. split; [reflexivity|]. agree_tail.
  split; [apply nlen_write_prefix; exact Hle|].
  split; [|split; [discriminate|discriminate]].
  intros _. split; [reflexivity|]. split; [exact Hle|reflexivity].
Qed.

Lemma agree_slice_read_exact md st pre :
  Agree (OReadExact pre) (vm_step md KSliceR st (OReadExact pre)) (std_step KSliceR st (OReadExact pre)).
Proof.
  unfold vm_step, std_step, lift_u, std_slice_read_exact, slice_read_exact_volatile. cbn [op_buf win vs_len].
  set (rem := slice_rem st). set (len := nlen pre).
  destruct (N.ltb_spec (nlen rem) len) as [Hlt|Hge].
  - destruct (N.leb_spec len (nlen rem)); [lia|]. cbn [omap fst snd rc_unit rc_verr rc_ioerr].
    eexists _, _, _, _, _. split; [reflexivity|]. split; [reflexivity|]. agree_tail.
    split; [reflexivity|]. split; [discriminate|]. split; [reflexivity|discriminate].
  - destruct (N.leb_spec len (nlen rem)); [|lia].
    rewrite slice_read_volatile_val. cbn [win vs_len vs_off bind omap fst snd rc_unit].
    fold rem. fold len. replace (N.min len (nlen rem)) with len by lia.
    assert (Hn : nlen (ntake len rem) = len) by (rewrite nlen_ntake; lia).
    rewrite arena_write by (rewrite Hn; unfold len; lia).
    assert (Hle : nlen (ntake len rem) <= nlen pre) by (rewrite Hn; unfold len; lia).
    eexists _, _, _, _, _. split; [reflexivity|]. split; [reflexivity|]. agree_tail.
    split; [apply nlen_write_prefix; exact Hle|].
    split; [|split; [discriminate|discriminate]].
    intros _. split; [reflexivity|]. split; [exact Hle|reflexivity].
Qed.

Lemma agree_mslice_write md st d :
  Agree (OWrite d) (vm_step md KSliceW st (OWrite d)) (std_step KSliceW st (OWrite d)).
Proof.
  unfold vm_step, std_step, lift_n, std_mslice_write. cbn [op_buf]. rewrite mslice_write_volatile_val.
  cbn [win vs_len vs_off omap fst snd rc_n].
  set (rem := slice_rem st). set (total := N.min (nlen d) (nlen rem)).
  rewrite arena_read by (unfold total; lia).
  assert (Hb : ntake total d = ntake (nlen rem) d).
  { unfold total. rewrite N.min_comm. apply ntake_min_len_r. }
  assert (Hn : nlen (ntake (nlen rem) d) = total) by (rewrite nlen_ntake; unfold total; lia).
  rewrite Hb, Hn. unfold with_data.
  eexists _, _, _, _, _. split; [reflexivity|]. split; [reflexivity|]. agree_tail.
  split; [reflexivity|]. split; [|split; [discriminate|reflexivity]].
  intros _. split; [reflexivity|]. split; [cbn; lia|discriminate].
Qed.

Lemma agree_mslice_write_all md st d :
  Agree (OWriteAll d) (vm_step md KSliceW st (OWriteAll d)) (std_step KSliceW st (OWriteAll d)).
Proof.
  unfold vm_step, std_step, lift_u, std_mslice_write_all, mslice_write_all_volatile. cbn [op_buf].
  rewrite mslice_write_volatile_val. cbn [win vs_len vs_off bind].
  set (rem := slice_rem st). set (total := N.min (nlen d) (nlen rem)).
  rewrite arena_read by (unfold total; lia).
  destruct (N.leb_spec (nlen d) (nlen rem)) as [Hle|Hgt].
  - replace total with (nlen d) by (unfold total; lia). rewrite N.eqb_refl. rewrite ntake_all by lia.
    cbn [omap fst snd rc_unit]. unfold with_data.
    eexists _, _, _, _, _. split; [reflexivity|]. split; [reflexivity|]. agree_tail.
    split; [reflexivity|]. split; [|split; [discriminate|reflexivity]].
    intros _. split; [reflexivity|]. split; [cbn; lia|discriminate].
  - destruct (N.eqb_spec total (nlen d)) as [Hbad|_]; [unfold total in Hbad; lia|].
    cbn [omap fst snd rc_unit rc_verr rc_ioerr].
    eexists _, _, _, _, _. split; [reflexivity|]. split; [reflexivity|]. agree_tail.
    split; [reflexivity|]. split; [discriminate|]. split; [reflexivity|reflexivity].
Qed.

Lemma vs_offset_ok_c v n : vs_addr v + vs_len v < W64 -> n <= vs_len v ->
  vs_offset v n = Ok {| vs_addr := vs_addr v + n; vs_off := vs_off v + n; vs_len := vs_len v - n |}.
Proof.
  intros Ha Hn. unfold vs_offset, checked_add, checked_sub.
  destruct (N.ltb_spec (vs_addr v + n) W64); [|lia]. destruct (N.leb_spec n (vs_len v)); [|lia]. reflexivity.
Qed.

(* ---- Vec<u8> *)
Lemma vec_write_volatile_val md st m v : nlen (s_data st) + vs_len v < W64 ->
  vec_write_volatile md st m v =
  Val (({| s_data := s_data st ++ mem_read m (vs_off v) (vs_len v); s_pos := s_pos st; s_out := s_out st |}, m),
       Ok (vs_len v)).
Proof.
  intros H. unfold vec_write_volatile, copy_from_volatile_slice, passert. rewrite N.eqb_refl. cbn [bind].
  rewrite padd_Val by exact H. reflexivity.
Qed.

Definition buf_ok (b : list N) : Prop := 4096 + margin + nlen b < W64.

Lemma agree_vec_write md st d : nlen (s_data st) + nlen d < W64 ->
  Agree (OWrite d) (vm_step md KVecW st (OWrite d)) (std_step KVecW st (OWrite d)).
Proof.
  intros H. unfold vm_step, std_step, lift_n, std_vec_write. cbn [op_buf].
  rewrite vec_write_volatile_val by exact H. cbn [win vs_len vs_off omap fst snd rc_n].
  rewrite arena_read_all. unfold with_data.
  eexists _, _, _, _, _. split; [reflexivity|]. split; [reflexivity|]. agree_tail.
  split; [reflexivity|]. split; [|split; [discriminate|reflexivity]].
  intros _. split; [reflexivity|]. split; [cbn; lia|discriminate].
Qed.

(* first iteration of a default exact loop whose call answers Ok n at once *)
Lemma exact_loop_step {S} zerr fi f (call : callT S) s m pb s' m' n :
  vs_len pb <> 0 -> call s m pb = Val ((s', m'), Ok n) ->
  exact_loop zerr (Datatypes.S fi) (Datatypes.S f) call s m pb =
  if n =? 0 then Val ((s', m'), Err (VIo zerr))
  else match vs_offset pb n with
       | Ok pb' => exact_loop zerr (Datatypes.S fi) f call s' m' pb'
       | Err e => Val ((s', m'), Err e)
       end.
Proof.
  intros Hz Hc. cbn [exact_loop retry_eintr]. destruct (N.eqb_spec (vs_len pb) 0); [contradiction|].
  rewrite Hc. cbn [bind]. reflexivity.
Qed.
Lemma exact_loop_done {S} zerr fi f (call : callT S) s m pb :
  vs_len pb = 0 -> exact_loop zerr fi (Datatypes.S f) call s m pb = Val ((s, m), Ok tt).
Proof. intros Hz. cbn [exact_loop]. rewrite Hz. reflexivity. Qed.

Lemma win_offset0 b : buf_ok b ->
  vs_offset (win b) 0 = Ok {| vs_addr := 4096 + margin + 0; vs_off := margin + 0; vs_len := nlen b - 0 |}.
Proof.
  intros H. unfold buf_ok in H. rewrite vs_offset_ok_c; [reflexivity| |]; cbn [win vs_addr vs_len]; lia.
Qed.

Lemma fuel_of_SS b : fuel_of b = Datatypes.S (Datatypes.S (N.to_nat (nlen b))).
Proof. unfold fuel_of. lia. Qed.
Lemma arena_read_win0 b : mem_read (arena b) (margin + 0) (nlen b - 0) = b.
Proof.
  rewrite N.sub_0_r, arena_read_at by lia. unfold mem_read. rewrite ndrop_0. apply ntake_all. lia.
Qed.
Lemma sstate_eta st : {| s_data := s_data st; s_pos := s_pos st; s_out := s_out st |} = st.
Proof. destruct st; reflexivity. Qed.

Lemma agree_vec_write_all md st d : nlen (s_data st) + nlen d < W64 -> buf_ok d ->
  Agree (OWriteAll d) (vm_step md KVecW st (OWriteAll d)) (std_step KVecW st (OWriteAll d)).
Proof.
  intros H Hb. unfold vm_step, std_step, lift_u, std_vec_write, write_all_volatile, exact_volatile. cbn [op_buf].
  rewrite (win_offset0 d Hb), fuel_of_SS.
  set (pb0 := {| vs_addr := 4096 + margin + 0; vs_off := margin + 0; vs_len := nlen d - 0 |}).
  destruct (N.eq_dec (nlen d) 0) as [Hz|Hz].
  - rewrite exact_loop_done by (unfold pb0; cbn [vs_len]; lia). cbn [omap fst snd rc_unit].
    apply nlen_zero in Hz. subst d. unfold with_data. rewrite app_nil_r, sstate_eta.
    eexists _, _, _, _, _. split; [reflexivity|]. split; [reflexivity|]. agree_tail.
    split; [reflexivity|]. split; [|split; [discriminate|reflexivity]].
    intros _. split; [reflexivity|]. split; [cbn; lia|discriminate].
  - rewrite (exact_loop_step _ _ _ _ _ _ _ _ _ (vs_len pb0))
      by (first [unfold pb0; cbn [vs_len]; lia | apply vec_write_volatile_val; unfold pb0; cbn [vs_len]; lia]).
    destruct (N.eqb_spec (vs_len pb0) 0) as [Hbad|_]; [unfold pb0 in Hbad; cbn [vs_len] in Hbad; lia|].
    rewrite vs_offset_ok_c by (unfold pb0; cbn [vs_addr vs_len]; unfold buf_ok in Hb; lia).
    rewrite exact_loop_done by (cbn [vs_len]; lia). cbn [omap fst snd rc_unit].
    unfold pb0. cbn [vs_off vs_len]. rewrite arena_read_win0. unfold with_data.
    eexists _, _, _, _, _. split; [reflexivity|]. split; [reflexivity|]. agree_tail.
    split; [reflexivity|]. split; [|split; [discriminate|reflexivity]].
    intros _. split; [reflexivity|]. split; [cbn; lia|discriminate].
Qed.

(* ---- Cursor *)
Definition cur_ok (st : sstate) : Prop := s_pos st < W64 /\ nlen (s_data st) < W64.

Lemma cursor_read_val md st m v : cur_ok st ->
  let rem := ndrop (cur_start st) (s_data st) in
  let total := N.min (vs_len v) (nlen rem) in
  cursor_read_volatile md st m v =
  Val ((set_pos st (s_pos st + total), mem_write m (vs_off v) (ntake total rem)), Ok total).
Proof.
  intros [Hp Hd] rem total. unfold cursor_read_volatile, passert. fold (cur_start st).
  destruct (N.leb_spec (cur_start st) (nlen (s_data st))) as [_|Hbad]; [|unfold cur_start in Hbad; lia].
  cbn [bind]. rewrite slice_read_volatile_val. unfold slice_rem. cbn [s_pos s_data bind]. rewrite ndrop_0.
  fold rem. fold total.
  assert (Hrem : nlen rem = nlen (s_data st) - cur_start st) by (unfold rem; apply nlen_ndrop).
  rewrite padd_Val by (unfold total, cur_start in *; lia). reflexivity.
Qed.
Lemma cursor_read_exact_val md st m v : cur_ok st ->
  let rem := ndrop (cur_start st) (s_data st) in
  cursor_read_exact_volatile md st m v =
  if nlen rem <? vs_len v then Val ((st, m), Err (VIo EUnexpectedEof))
  else Val ((set_pos st (s_pos st + vs_len v), mem_write m (vs_off v) (ntake (vs_len v) rem)), Ok tt).
Proof.
  intros [Hp Hd] rem. unfold cursor_read_exact_volatile, passert. fold (cur_start st).
  destruct (N.leb_spec (cur_start st) (nlen (s_data st))) as [_|Hbad]; [|unfold cur_start in Hbad; lia].
  cbn [bind]. unfold slice_read_exact_volatile. rewrite slice_read_volatile_val.
  unfold slice_rem. cbn [s_pos s_data]. rewrite ndrop_0. fold rem.
  assert (Hrem : nlen rem = nlen (s_data st) - cur_start st) by (unfold rem; apply nlen_ndrop).
  destruct (N.ltb_spec (nlen rem) (vs_len v)) as [Hlt|Hge]; cbn [bind]; [reflexivity|].
  rewrite padd_Val by (unfold cur_start in *; lia). cbn [bind].
  replace (N.min (vs_len v) (nlen rem)) with (vs_len v) by lia. reflexivity.
Qed.
Lemma cursor_write_val md st m v : cur_ok st ->
  let start := cur_start st in
  let total := N.min (vs_len v) (nlen (s_data st) - start) in
  cursor_write_volatile md st m v =
  Val (({| s_data := mem_write (s_data st) start (mem_read m (vs_off v) total);
           s_pos := s_pos st + total; s_out := s_out st |}, m), Ok total).
Proof.
  intros [Hp Hd] start total. unfold cursor_write_volatile, passert. fold (cur_start st). fold start.
  destruct (N.leb_spec start (nlen (s_data st))) as [Hs|Hbad]; [|unfold start, cur_start in Hbad; lia].
  cbn [bind]. rewrite mslice_write_volatile_val. unfold slice_rem. cbn [s_pos s_data s_out bind].
  rewrite ndrop_0, nlen_ndrop. fold total.
  rewrite padd_Val by (unfold total, start, cur_start in *; lia). cbn [bind].
  f_equal. f_equal. f_equal. f_equal.
  set (bs := mem_read m (vs_off v) total).
  assert (Hbs : nlen bs <= total) by (unfold bs, mem_read; rewrite nlen_ntake; lia).
  rewrite mem_write_0. unfold mem_write. rewrite ndrop_ndrop. reflexivity.
Qed.

Lemma agree_cursor_read md st pre : cur_ok st ->
  Agree (ORead pre) (vm_step md KCurR st (ORead pre)) (std_step KCurR st (ORead pre)).
Proof.
  intros Hc. unfold vm_step, std_step, lift_n, std_cursor_read. cbn [op_buf].
  rewrite cursor_read_val by exact Hc. cbn [win vs_len vs_off omap fst snd rc_n].
  set (rem := ndrop (cur_start st) (s_data st)). set (len := nlen pre). set (total := N.min len (nlen rem)).
  assert (Hb : ntake total rem = ntake len rem) by apply ntake_min_len_r.
  assert (Hn : nlen (ntake len rem) = total) by (rewrite nlen_ntake; reflexivity).
  rewrite Hb. rewrite arena_write by (rewrite Hn; unfold total, len; lia).
  assert (Hle : nlen (ntake len rem) <= nlen pre) by (rewrite Hn; unfold total, len; lia).
  clearbody total. subst total.
  eexists _, _, _, _, _. split; [reflexivity|]. split; [reflexivity|]. agree_tail.
  split; [apply nlen_write_prefix; exact Hle|].
  split; [|split; [discriminate|discriminate]].
  intros _. split; [reflexivity|]. split; [exact Hle|reflexivity].
Qed.

Lemma agree_cursor_read_exact md st pre : cur_ok st ->
  Agree (OReadExact pre) (vm_step md KCurR st (OReadExact pre)) (std_step KCurR st (OReadExact pre)).
Proof.
  intros Hc. unfold vm_step, std_step, lift_u, std_cursor_read_exact. cbn [op_buf].
  rewrite cursor_read_exact_val by exact Hc. cbn [win vs_len vs_off].
  set (rem := ndrop (cur_start st) (s_data st)). set (len := nlen pre).
  assert (Hrem : nlen rem = nlen (s_data st) - cur_start st) by (unfold rem; apply nlen_ndrop).
  destruct (N.ltb_spec (nlen rem) len) as [Hlt|Hge].
  - destruct (N.leb_spec len (nlen (s_data st) - cur_start st)); [lia|].
    cbn [omap fst snd rc_unit rc_verr rc_ioerr].
    eexists _, _, _, _, _. split; [reflexivity|]. split; [reflexivity|]. agree_tail.
    split; [reflexivity|]. split; [discriminate|]. split; [reflexivity|discriminate].
  - destruct (N.leb_spec len (nlen (s_data st) - cur_start st)); [|lia].
    cbn [omap fst snd rc_unit].
    assert (Hn : nlen (ntake len rem) = len) by (rewrite nlen_ntake; lia).
    rewrite arena_write by (rewrite Hn; unfold len; lia).
    assert (Hle : nlen (ntake len rem) <= nlen pre) by (rewrite Hn; unfold len; lia).
    eexists _, _, _, _, _. split; [reflexivity|]. split; [reflexivity|]. agree_tail.
    split; [apply nlen_write_prefix; exact Hle|].
    split; [|split; [discriminate|discriminate]].
    intros _. split; [reflexivity|]. split; [exact Hle|reflexivity].
Qed.

Lemma agree_cursor_write md st d : cur_ok st ->
  Agree (OWrite d) (vm_step md KCurW st (OWrite d)) (std_step KCurW st (OWrite d)).
Proof.
  intros Hc. unfold vm_step, std_step, lift_n, std_cursor_write. cbn [op_buf].
  rewrite cursor_write_val by exact Hc. cbn [win vs_len vs_off omap fst snd rc_n].
  set (room := nlen (s_data st) - cur_start st). set (total := N.min (nlen d) room).
  rewrite arena_read by (unfold total; lia).
  assert (Hb : ntake total d = ntake room d).
  { unfold total. rewrite N.min_comm. apply ntake_min_len_r. }
  assert (Hn : nlen (ntake room d) = total) by (rewrite nlen_ntake; unfold total; lia).
  rewrite Hb. clearbody total. subst total. unfold with_data.
  eexists _, _, _, _, _. split; [reflexivity|]. split; [reflexivity|]. agree_tail.
  split; [reflexivity|]. split; [|split; [discriminate|reflexivity]].
  intros _. split; [reflexivity|]. split; [cbn; lia|discriminate].
Qed.

Lemma agree_cursor_write_all md st d : cur_ok st -> buf_ok d ->
  Agree (OWriteAll d) (vm_step md KCurW st (OWriteAll d)) (std_step KCurW st (OWriteAll d)).
Proof.
  intros Hc Hb. pose proof Hc as [Hp Hd].
  unfold vm_step, std_step, lift_u, std_cursor_write_all, write_all_volatile, exact_volatile. cbn [op_buf].
  rewrite (win_offset0 d Hb), fuel_of_SS.
  set (pb0 := {| vs_addr := 4096 + margin + 0; vs_off := margin + 0; vs_len := nlen d - 0 |}).
  set (room := nlen (s_data st) - cur_start st).
  destruct (N.eq_dec (nlen d) 0) as [Hz|Hz].
  - rewrite exact_loop_done by (unfold pb0; cbn [vs_len]; lia). cbn [omap fst snd rc_unit].
    destruct (N.leb_spec (nlen d) room); [|lia].
    apply nlen_zero in Hz. subst d. unfold with_data. rewrite mem_write_nil. cbn [nlen length N.of_nat].
    rewrite N.add_0_r, sstate_eta.
    eexists _, _, _, _, _. split; [reflexivity|]. split; [reflexivity|]. agree_tail.
    split; [reflexivity|]. split; [|split; [discriminate|reflexivity]].
    intros _. split; [reflexivity|]. split; [cbn; lia|discriminate].
  - set (total1 := N.min (nlen d - 0) room).
    rewrite (exact_loop_step _ _ _ _ _ _ _ _ _ total1)
      by (first [unfold pb0; cbn [vs_len]; lia | apply (cursor_write_val md st (arena d) pb0 Hc)]).
    destruct (N.eqb_spec total1 0) as [Ht0|Ht0].
    + (* no room at all *)
      destruct (N.leb_spec (nlen d) room); [unfold total1 in Ht0; lia|].
      cbn [omap fst snd rc_unit rc_verr rc_ioerr].
      eexists _, _, _, _, _. split; [reflexivity|]. split; [reflexivity|]. agree_tail.
      split; [reflexivity|]. split; [discriminate|]. split; [reflexivity|reflexivity].
    + rewrite vs_offset_ok_c
        by (unfold pb0, total1; cbn [vs_addr vs_len]; unfold buf_ok in Hb; lia).
      unfold pb0. cbn [vs_addr vs_off vs_len]. fold room. fold total1.
      destruct (N.leb_spec (nlen d) room) as [Hfit|Hshort].
      * (* everything fits *)
        assert (Ht : total1 = nlen d) by (unfold total1; lia).
        rewrite exact_loop_done by (cbn [vs_len]; lia). cbn [omap fst snd rc_unit].
        rewrite Ht. replace (nlen d) with (nlen d - 0) at 1 by lia. rewrite arena_read_win0.
        unfold with_data.
        eexists _, _, _, _, _. split; [reflexivity|]. split; [reflexivity|]. agree_tail.
        split; [reflexivity|]. split; [|split; [discriminate|reflexivity]].
        intros _. split; [reflexivity|]. split; [cbn; lia|discriminate].
      * (* a short write, then no room: WriteZero *)
        assert (Ht : total1 = room) by (unfold total1; lia).
        set (st1 := {| s_data := mem_write (s_data st) (cur_start st) (mem_read (arena d) (margin + 0) total1);
                       s_pos := s_pos st + total1; s_out := s_out st |}).
        assert (Hbs : nlen (mem_read (arena d) (margin + 0) total1) = total1).
        { rewrite arena_read_at by lia. unfold mem_read. rewrite ndrop_0, nlen_ntake. lia. }
        assert (Hl1 : nlen (s_data st1) = nlen (s_data st)).
        { unfold st1. cbn [s_data]. apply mem_write_length. rewrite Hbs. unfold room, cur_start in *. lia. }
        assert (Hc1 : cur_ok st1).
        { unfold cur_ok. rewrite Hl1. unfold st1. cbn [s_pos]. unfold room, cur_start in *. split; lia. }
        set (pb1 := {| vs_addr := 4096 + margin + 0 + total1; vs_off := margin + 0 + total1;
                       vs_len := nlen d - 0 - total1 |}).
        assert (Hnz : vs_len pb1 <> 0) by (unfold pb1; cbn [vs_len]; lia).
        pose proof (cursor_write_val md st1 (arena d) pb1 Hc1) as Hcall. cbn zeta in Hcall.
        replace (N.min (vs_len pb1) (nlen (s_data st1) - cur_start st1)) with 0 in Hcall.
        2:{ rewrite Hl1. unfold cur_start. rewrite Hl1. unfold st1, pb1. cbn [s_pos vs_len].
            unfold room, cur_start in *. lia. }
        rewrite (exact_loop_step _ _ _ _ _ _ _ _ _ _ Hnz Hcall).
        cbn [N.eqb omap fst snd rc_unit rc_verr rc_ioerr].
        eexists _, _, _, _, _. split; [reflexivity|]. split; [reflexivity|]. agree_tail.
        split; [reflexivity|]. split; [discriminate|]. split; [reflexivity|reflexivity].
Qed.

(* ------------------------------------------------------------------ C. default loops over any OS oracle *)
Definition loop_body {S} (zerr : ioerr) (fi fo : nat) (call : callT S) (pb : vslice)
  (x : (S * list N) * res N) : outcome ((S * list N) * res unit) :=
  let '((s', m'), r) := x in
  match r with
  | Ok n => if n =? 0 then Val ((s', m'), Err (VIo zerr))
            else match vs_offset pb n with
                 | Ok pb' => exact_loop zerr fi fo call s' m' pb'
                 | Err e => Val ((s', m'), Err e)
                 end
  | Err e => Val ((s', m'), Err e)
  end.
Lemma exact_loop_unfold {S} zerr fi fo (call : callT S) s m pb :
  exact_loop zerr fi (Datatypes.S fo) call s m pb =
  if vs_len pb =? 0 then Val ((s, m), Ok tt)
  else let* x := retry_eintr fi call s m pb in loop_body zerr fi fo call pb x.
Proof. reflexivity. Qed.

Lemma retry_mono {S} (call : callT S) : forall f1 f2 s m v z, (f1 <= f2)%nat ->
  retry_eintr f1 call s m v = Val z -> retry_eintr f2 call s m v = Val z.
Proof.
  induction f1 as [|f1 IH]; intros f2 s m v z Hle H; [discriminate|].
  destruct f2 as [|f2]; [lia|]. cbn [retry_eintr] in *.
  destruct (call s m v) as [[[s' m'] r]| |]; cbn [bind] in *; try discriminate.
  destruct r as [n|[[]| |]]; try exact H. apply (IH f2); [lia|exact H].
Qed.
Lemma exact_loop_mono {S} zerr (call : callT S) : forall fo fi1 fi2 s m pb z, (fi1 <= fi2)%nat ->
  exact_loop zerr fi1 fo call s m pb = Val z -> exact_loop zerr fi2 fo call s m pb = Val z.
Proof.
  induction fo as [|fo IH]; intros fi1 fi2 s m pb z Hle H; [discriminate|].
  rewrite exact_loop_unfold in *. destruct (vs_len pb =? 0); [exact H|].
  destruct (retry_eintr fi1 call s m pb) as [x| |] eqn:E; cbn [bind] in H; try discriminate.
  rewrite (retry_mono call fi1 fi2 _ _ _ _ Hle E). cbn [bind].
  destruct x as [[s' m'] r]. unfold loop_body in *. destruct r as [n|e]; [|exact H].
  destruct (n =? 0); [exact H|]. destruct (vs_offset pb n); [|exact H]. eapply IH; eassumption.
Qed.
Lemma body_mono {S} zerr (call : callT S) fo fi1 fi2 pb x z : (fi1 <= fi2)%nat ->
  loop_body zerr fi1 fo call pb x = Val z -> loop_body zerr fi2 fo call pb x = Val z.
Proof.
  intros Hle H. destruct x as [[s' m'] r]. unfold loop_body in *. destruct r as [n|e]; [|exact H].
  destruct (n =? 0); [exact H|]. destruct (vs_offset pb n); [|exact H]. eapply exact_loop_mono; eassumption.
Qed.

Lemma mem_write_acc (acc b bs : list N) : nlen acc + nlen bs <= nlen b ->
  mem_write (acc ++ ndrop (nlen acc) b) (nlen acc) bs = (acc ++ bs) ++ ndrop (nlen (acc ++ bs)) b.
Proof.
  intros H. unfold mem_write. rewrite ntake_app_exact.
  rewrite ndrop_app_ge by lia. replace (nlen acc + nlen bs - nlen acc) with (nlen bs) by lia.
  rewrite ndrop_ndrop, nlen_app, <- app_assoc. reflexivity.
Qed.

Section FdLoops.
  Variable F : Type.
  Variable os_read : F -> N -> F * os_rres.
  Variable os_write : F -> list N -> F * os_wres.
  (* the kernel never returns more than it was asked for *)
  Hypothesis read_bounded : forall f len f' bs, os_read f len = (f', OsData bs) -> nlen bs <= len.
  Hypothesis write_bounded : forall f d f' n, os_write f d = (f', OsCount n) -> n <= nlen d.
  Variable A : N.   (* host address of the buffer *)

  Definition pb_at (b : list N) (done : N) : vslice :=
    {| vs_addr := A + done; vs_off := margin + done; vs_len := nlen b - done |}.

  Lemma fd_read_exact_sim : forall fuel f acc b of out r,
    A + nlen b < W64 -> nlen acc <= nlen b ->
    std_fd_read_exact os_read fuel f (nlen b - nlen acc) acc = Val (of, out, r) ->
    forall fi fo, (fuel <= fi)%nat -> (fuel <= fo)%nat ->
    exists f' b', exact_loop EUnexpectedEof fi fo (read_volatile_raw_fd os_read) f
                    (arena (acc ++ ndrop (nlen acc) b)) (pb_at b (nlen acc)) = Val ((f', arena b'), r)
      /\ nlen b' = nlen b /\ (r = Ok tt -> of = Some f' /\ out = b') /\ (r <> Ok tt -> of = None).
  Proof.
    induction fuel as [|k IH]; intros f acc b of out r HA Hacc Hstd fi fo Hfi Hfo; [discriminate|].
    destruct fo as [|fo]; [lia|]. destruct fi as [|fi]; [lia|].
    cbn [std_fd_read_exact] in Hstd. rewrite exact_loop_unfold. unfold pb_at at 1. cbn [vs_len].
    assert (Hbl : nlen (acc ++ ndrop (nlen acc) b) = nlen b) by (rewrite nlen_app, nlen_ndrop; lia).
    destruct (N.eqb_spec (nlen b - nlen acc) 0) as [Hz|Hz].
    - injection Hstd as <- <- <-. exists f, (acc ++ ndrop (nlen acc) b). split; [reflexivity|].
      split; [exact Hbl|]. split; [|congruence]. intros _. split; [reflexivity|].
      rewrite ndrop_all by lia. rewrite app_nil_r. reflexivity.
    - cbn [retry_eintr]. unfold read_volatile_raw_fd at 1. cbn [pb_at vs_len vs_off].
      destruct (os_read f (nlen b - nlen acc)) as [f1 r0] eqn:Eos.
      destruct r0 as [bs|e].
      + (* data *)
        pose proof (read_bounded _ _ _ _ Eos) as Hbs. cbn [bind].
        rewrite arena_write_at by (rewrite Hbl; lia).
        rewrite mem_write_acc by lia.
        destruct (N.eqb_spec (nlen bs) 0) as [Hn0|Hn0].
        * injection Hstd as <- <- <-. unfold loop_body. rewrite Hn0. cbn [N.eqb].
          eexists f1, _. split; [reflexivity|]. split.
          { rewrite nlen_app, nlen_ndrop, nlen_app. lia. }
          split; [discriminate|reflexivity].
        * unfold loop_body. destruct (N.eqb_spec (nlen bs) 0); [contradiction|].
          rewrite vs_offset_ok_c by (unfold pb_at; cbn [vs_addr vs_len]; lia).
          cbn [pb_at vs_addr vs_off vs_len].
          replace (nlen b - nlen acc - nlen bs) with (nlen b - nlen (acc ++ bs)) in * by (rewrite nlen_app; lia).
          destruct (IH f1 (acc ++ bs) b of out r HA) with (fi := Datatypes.S fi) (fo := fo)
            as (f' & b' & He & Hl & Hok & Hko); [rewrite nlen_app; lia|exact Hstd|lia|lia|].
          exists f', b'. split; [|auto].
          rewrite <- He. unfold pb_at. f_equal. f_equal; rewrite nlen_app; lia.
      + destruct e.
        * (* interrupted: std retries with one unit of fuel less; so does the inner loop *)
          cbn [bind].
          destruct (IH f1 acc b of out r HA Hacc Hstd fi (Datatypes.S fo)) as (f' & b' & He & Hrest); [lia|lia|].
          exists f', b'. split; [|exact Hrest].
          rewrite exact_loop_unfold in He. unfold pb_at at 1 in He. cbn [vs_len] in He.
          destruct (N.eqb_spec (nlen b - nlen acc) 0); [contradiction|].
          destruct (retry_eintr fi (read_volatile_raw_fd os_read) f1 (arena (acc ++ ndrop (nlen acc) b)) (pb_at b (nlen acc)))
            as [x| |] eqn:Er; cbn [bind] in He; try discriminate.
          cbn [bind]. eapply body_mono; [|exact He]. lia.
        * injection Hstd as <- <- <-. cbn [bind loop_body].
          eexists f1, _. split; [reflexivity|]. split; [exact Hbl|]. split; [discriminate|reflexivity].
        * injection Hstd as <- <- <-. cbn [bind loop_body].
          eexists f1, _. split; [reflexivity|]. split; [exact Hbl|]. split; [discriminate|reflexivity].
        * injection Hstd as <- <- <-. cbn [bind loop_body].
          eexists f1, _. split; [reflexivity|]. split; [exact Hbl|]. split; [discriminate|reflexivity].
  Qed.

  Lemma fd_write_all_sim : forall fuel f done d of r,
    A + nlen d < W64 -> done <= nlen d ->
    std_fd_write_all os_write fuel f (ndrop done d) = Val (of, r) ->
    forall fi fo, (fuel <= fi)%nat -> (fuel <= fo)%nat ->
    exists f', exact_loop EWriteZero fi fo (write_volatile_raw_fd os_write) f (arena d) (pb_at d done)
                 = Val ((f', arena d), r)
      /\ (r = Ok tt -> of = Some f') /\ (r <> Ok tt -> of = None).
  Proof.
    induction fuel as [|k IH]; intros f done d of r HA Hdone Hstd fi fo Hfi Hfo; [discriminate|].
    destruct fo as [|fo]; [lia|]. destruct fi as [|fi]; [lia|].
    cbn [std_fd_write_all] in Hstd. rewrite exact_loop_unfold. unfold pb_at at 1. cbn [vs_len].
    rewrite nlen_ndrop in Hstd.
    destruct (N.eqb_spec (nlen d - done) 0) as [Hz|Hz].
    - injection Hstd as <- <-. exists f. split; [reflexivity|]. split; [auto|congruence].
    - cbn [retry_eintr]. unfold write_volatile_raw_fd at 1. cbn [pb_at vs_len vs_off].
      assert (Hoff : mem_read (arena d) (margin + done) (nlen d - done) = ndrop done d).
      { rewrite arena_read_at by lia. unfold mem_read. apply ntake_all. rewrite nlen_ndrop. lia. }
      rewrite Hoff.
      destruct (os_write f (ndrop done d)) as [f1 r0] eqn:Eos.
      destruct r0 as [n|e].
      + pose proof (write_bounded _ _ _ _ Eos) as Hn. rewrite nlen_ndrop in Hn. cbn [bind].
        destruct (N.eqb_spec n 0) as [Hn0|Hn0].
        * injection Hstd as <- <-. unfold loop_body. rewrite Hn0. cbn [N.eqb].
          exists f1. split; [reflexivity|]. split; [discriminate|reflexivity].
        * unfold loop_body. destruct (N.eqb_spec n 0); [contradiction|].
          rewrite vs_offset_ok_c by (unfold pb_at; cbn [vs_addr vs_len]; lia).
          cbn [pb_at vs_addr vs_off vs_len]. rewrite ndrop_ndrop in Hstd.
          destruct (IH f1 (done + n) d of r HA) with (fi := Datatypes.S fi) (fo := fo)
            as (f' & He & Hok & Hko); [lia|exact Hstd|lia|lia|].
          exists f'. split; [|auto].
          rewrite <- He. unfold pb_at. f_equal. f_equal; lia.
      + destruct e.
        * cbn [bind].
          destruct (IH f1 done d of r HA Hdone) with (fi := fi) (fo := Datatypes.S fo) as (f' & He & Hrest);
            [exact Hstd|lia|lia|].
          exists f'. split; [|exact Hrest].
          rewrite exact_loop_unfold in He. unfold pb_at at 1 in He. cbn [vs_len] in He.
          destruct (N.eqb_spec (nlen d - done) 0); [contradiction|].
          destruct (retry_eintr fi (write_volatile_raw_fd os_write) f1 (arena d) (pb_at d done))
            as [x| |] eqn:Er; cbn [bind] in He; try discriminate.
          cbn [bind]. eapply body_mono; [|exact He]. lia.
        * injection Hstd as <- <-. cbn [bind loop_body].
          exists f1. split; [reflexivity|]. split; [discriminate|reflexivity].
        * injection Hstd as <- <-. cbn [bind loop_body].
          exists f1. split; [reflexivity|]. split; [discriminate|reflexivity].
        * injection Hstd as <- <-. cbn [bind loop_body].
          exists f1. split; [reflexivity|]. split; [discriminate|reflexivity].
  Qed.
End FdLoops.

(* ------------------------------------------------------------------ D. invariants through the loops; the oracle instances *)
Lemma retry_inv {S} (P : S -> Prop) (call : callT S) :
  (forall s m v s' m' r, P s -> call s m v = Val ((s', m'), r) -> P s') ->
  forall fuel s m v s' m' r, P s -> retry_eintr fuel call s m v = Val ((s', m'), r) -> P s'.
Proof.
  intros Hc. induction fuel as [|f IH]; intros s m v s' m' r HP H; [discriminate|].
  cbn [retry_eintr] in H. destruct (call s m v) as [[[s1 m1] r1]| |] eqn:E; cbn [bind] in H; try discriminate.
  pose proof (Hc _ _ _ _ _ _ HP E) as HP1.
  destruct r1 as [n|[[]| |]]; try (inversion H; subst; exact HP1). eapply IH; eassumption.
Qed.
Lemma exact_loop_inv {S} (P : S -> Prop) zerr (call : callT S) :
  (forall s m v s' m' r, P s -> call s m v = Val ((s', m'), r) -> P s') ->
  forall fo fi s m pb s' m' r, P s -> exact_loop zerr fi fo call s m pb = Val ((s', m'), r) -> P s'.
Proof.
  intros Hc. induction fo as [|fo IH]; intros fi s m pb s' m' r HP H; [discriminate|].
  rewrite exact_loop_unfold in H. destruct (vs_len pb =? 0); [inversion H; subst; exact HP|].
  destruct (retry_eintr fi call s m pb) as [[[s1 m1] r1]| |] eqn:E; cbn [bind] in H; try discriminate.
  pose proof (retry_inv P call Hc _ _ _ _ _ _ _ HP E) as HP1.
  unfold loop_body in H. destruct r1 as [n|e]; [|inversion H; subst; exact HP1].
  destruct (n =? 0); [inversion H; subst; exact HP1|].
  destruct (vs_offset pb n); [|inversion H; subst; exact HP1]. eapply IH; eassumption.
Qed.
Lemma exact_volatile_inv {S} (P : S -> Prop) zerr (call : callT S) :
  (forall s m v s' m' r, P s -> call s m v = Val ((s', m'), r) -> P s') ->
  forall fuel s m v s' m' r, P s -> exact_volatile zerr fuel call s m v = Val ((s', m'), r) -> P s'.
Proof.
  intros Hc fuel s m v s' m' r HP H. unfold exact_volatile in H.
  destruct (vs_offset v 0); [|inversion H; subst; exact HP]. eapply exact_loop_inv; eassumption.
Qed.

(* std's loops terminate on oracles that never fail: each round makes progress or stops *)
Lemma std_read_exact_terminates {F} (os_read : F -> N -> F * os_rres) :
  (forall f len f', os_read f len <> (f', OsRErr EInterrupted)) ->
  forall fuel f want acc, (N.to_nat want < fuel)%nat ->
  exists of out r, std_fd_read_exact os_read fuel f want acc = Val (of, out, r).
Proof.
  intros Hos. induction fuel as [|k IH]; intros f want acc Hf; [lia|]. cbn [std_fd_read_exact].
  destruct (N.eqb_spec want 0); [eauto|].
  destruct (os_read f want) as [f' [bs|e]] eqn:E.
  - destruct (N.eqb_spec (nlen bs) 0); [eauto|]. apply IH. lia.
  - destruct e; try (eexists _, _, _; reflexivity). exfalso. exact (Hos _ _ _ E).
Qed.
Lemma std_write_all_terminates {F} (os_write : F -> list N -> F * os_wres) :
  (forall f d, exists f' n, os_write f d = (f', OsCount n)) ->
  forall fuel f d, (N.to_nat (nlen d) < fuel)%nat ->
  exists of r, std_fd_write_all os_write fuel f d = Val (of, r).
Proof.
  intros Hos. induction fuel as [|k IH]; intros f d Hf; [lia|]. cbn [std_fd_write_all].
  destruct (N.eqb_spec (nlen d) 0); [eauto|].
  destruct (Hos f d) as (f' & cnt & ->). destruct (N.eqb_spec cnt 0); [eauto|]. apply IH. rewrite nlen_ndrop. lia.
Qed.

Definition is_fd (k : skind) : bool := match k with KFile | KQueue | KMsgQ => true | _ => false end.
(* every oracle instance answers with at most len bytes, or (message queue only) with EAGAIN; none
   ever answers EINTR *)
Lemma os_read_cases k f len : exists f' r, os_read_of k f len = (f', r) /\
  (r = OsRErr EOther \/ exists bs, r = OsData bs /\ nlen bs <= len).
Proof.
  destruct k; cbn [os_read_of]; unfold file_read, queue_read, msgq_read;
    try (eexists _, _; split; [reflexivity|]; right; eexists; split; [reflexivity|]; rewrite nlen_ntake; lia).
  destruct (N.eqb_spec len 0) as [Hz|Hz].
  - eexists _, _. split; [reflexivity|]. right. eexists. split; [reflexivity|]. cbn. lia.
  - destruct (s_data f) as [|x t].
    + eexists _, _. split; [reflexivity|]. left. reflexivity.
    + destruct (msg_split (x :: t)) as [m r]. eexists _, _. split; [reflexivity|]. right.
      eexists. split; [reflexivity|]. rewrite nlen_ntake. lia.
Qed.
Lemma os_read_no_eintr k f len f' : os_read_of k f len <> (f', OsRErr EInterrupted).
Proof.
  intros E. destruct (os_read_cases k f len) as (f1 & r & E1 & [->|(bs & -> & _)]); rewrite E1 in E; discriminate.
Qed.
Lemma os_write_count k f d : exists f' n, os_write_of k f d = (f', OsCount n) /\ n <= nlen d.
Proof.
  destruct k; cbn [os_write_of]; unfold file_write, queue_write, msgq_write;
    try (destruct (nlen d =? 0); eexists _, _; (split; [reflexivity|]); lia);
    eexists _, _; (split; [reflexivity|]); lia.
Qed.
Lemma os_read_bounded k : forall f len f' bs, os_read_of k f len = (f', OsData bs) -> nlen bs <= len.
Proof.
  intros f len f' bs H. destruct (os_read_cases k f len) as (f1 & r & E & [->|(b1 & -> & Hl)]); rewrite E in H;
    inversion H; subst. exact Hl.
Qed.
Lemma os_write_bounded k : forall f d f' n, os_write_of k f d = (f', OsCount n) -> n <= nlen d.
Proof.
  intros f d f' n H. destruct (os_write_count k f d) as (f1 & n1 & E & Hl). rewrite E in H.
  inversion H; subst. exact Hl.
Qed.

Lemma agree_fd_read md k st pre : is_fd k = true ->
  Agree (ORead pre) (vm_step md k st (ORead pre)) (std_step k st (ORead pre)).
Proof.
  intros Hk. assert (E : vm_step md k st (ORead pre) = lift_n (read_volatile_raw_fd (os_read_of k) st (arena pre) (win pre))
                     /\ std_step k st (ORead pre) = let '(st', bs, r) := std_fd_read (os_read_of k) st (nlen pre) in Val (keep_if (rc_n r) st', bs, rc_n r))
    by (destruct k; try discriminate; split; reflexivity).
  destruct E as [-> ->]. unfold read_volatile_raw_fd, std_fd_read, lift_n. cbn [win vs_len vs_off].
  destruct (os_read_cases k st (nlen pre)) as (f' & r & -> & [->|(bs & -> & Hl)]); cbn [omap fst snd rc_n].
  - (* the OS call failed (EAGAIN): nothing stored, the error is passed on *)
    eexists _, _, _, _, _. split; [reflexivity|]. split; [reflexivity|]. agree_tail.
    split; [reflexivity|]. split; [discriminate|]. split; [reflexivity|discriminate].
  - rewrite arena_write by exact Hl.
    eexists _, _, _, _, _. split; [reflexivity|]. split; [reflexivity|]. agree_tail.
    split; [apply nlen_write_prefix; exact Hl|].
    split; [|split; [discriminate|discriminate]].
    intros _. split; [reflexivity|]. split; [exact Hl|reflexivity].
Qed.

Lemma agree_fd_write md k st d : is_fd k = true ->
  Agree (OWrite d) (vm_step md k st (OWrite d)) (std_step k st (OWrite d)).
Proof.
  intros Hk. assert (E : vm_step md k st (OWrite d) = lift_n (write_volatile_raw_fd (os_write_of k) st (arena d) (win d))
                     /\ std_step k st (OWrite d) = let '(st', r) := std_fd_write (os_write_of k) st d in Val (keep_if (rc_n r) st', [], rc_n r))
    by (destruct k; try discriminate; split; reflexivity).
  destruct E as [-> ->]. unfold write_volatile_raw_fd, std_fd_write, lift_n. cbn [win vs_len vs_off].
  rewrite arena_read_all.
  destruct (os_write_count k st d) as (f' & n & -> & Hl). cbn [omap fst snd rc_n].
  eexists _, _, _, _, _. split; [reflexivity|]. split; [reflexivity|]. agree_tail.
  split; [reflexivity|]. split; [|split; [discriminate|reflexivity]].
  intros _. split; [reflexivity|]. split; [cbn; lia|discriminate].
Qed.

Lemma agree_fd_read_exact md k st pre : is_fd k = true -> buf_ok pre ->
  Agree (OReadExact pre) (vm_step md k st (OReadExact pre)) (std_step k st (OReadExact pre)).
Proof.
  intros Hk Hb.
  assert (E : vm_step md k st (OReadExact pre)
              = lift_u (read_exact_volatile (fuel_of pre) (read_volatile_raw_fd (os_read_of k)) st (arena pre) (win pre))
            /\ std_step k st (OReadExact pre)
              = let* x := std_fd_read_exact (os_read_of k) (N.to_nat (nlen pre) + 2) st (nlen pre) [] in
                let '(o', bs, r) := x in Val (o', bs, rc_unit r))
    by (destruct k; try discriminate; split; reflexivity).
  destruct E as [-> ->].
  destruct (std_read_exact_terminates (os_read_of k)) with (fuel := (N.to_nat (nlen pre) + 2)%nat) (f := st)
    (want := nlen pre) (acc := @nil N) as (of & out & r & Hstd).
  { intros f len f'. apply os_read_no_eintr. }
  { lia. }
  rewrite Hstd. cbn [bind].
  unfold read_exact_volatile, exact_volatile. rewrite (win_offset0 pre Hb).
  destruct (fd_read_exact_sim sstate (os_read_of k) (os_write_of k) (os_read_bounded k) (os_write_bounded k) (4096 + margin)
              (N.to_nat (nlen pre) + 2) st [] pre of out r) with (fi := fuel_of pre) (fo := fuel_of pre)
    as (f' & b' & He & Hl & Hok & Hko).
  { unfold buf_ok in Hb. lia. } { cbn. lia. }
  { cbn [nlen length N.of_nat]. rewrite N.sub_0_r. exact Hstd. }
  { unfold fuel_of. lia. } { unfold fuel_of. lia. }
  change (arena ([] ++ ndrop (nlen (@nil N)) pre)) with (arena pre) in He.
  unfold pb_at in He. change (nlen (@nil N)) with 0 in He. unfold lift_u. rewrite He. cbn [omap fst snd].
  eexists _, _, _, _, _. split; [reflexivity|]. split; [reflexivity|]. agree_tail.
  split; [exact Hl|].
  destruct r as [[]|e].
  - destruct (Hok eq_refl) as [-> ->]. split; [|split; [discriminate|discriminate]].
    intros _. split; [reflexivity|]. split; [lia|]. intros _.
    rewrite ndrop_all by lia. rewrite app_nil_r. reflexivity.
  - assert (Hf : rc_success (rc_unit (@Err unit e)) = false) by (destruct e as [[]| |]; reflexivity).
    rewrite Hf. split; [discriminate|]. split; [|discriminate]. intros _. apply Hko. discriminate.
Qed.

Lemma agree_fd_write_all md k st d : is_fd k = true -> buf_ok d ->
  Agree (OWriteAll d) (vm_step md k st (OWriteAll d)) (std_step k st (OWriteAll d)).
Proof.
  intros Hk Hb.
  assert (E : vm_step md k st (OWriteAll d)
              = lift_u (write_all_volatile (fuel_of d) (write_volatile_raw_fd (os_write_of k)) st (arena d) (win d))
            /\ std_step k st (OWriteAll d)
              = let* x := std_fd_write_all (os_write_of k) (N.to_nat (nlen d) + 2) st d in
                let '(o', r) := x in Val (o', [], rc_unit r))
    by (destruct k; try discriminate; split; reflexivity).
  destruct E as [-> ->].
  destruct (std_write_all_terminates (os_write_of k)) with (fuel := (N.to_nat (nlen d) + 2)%nat) (f := st) (d := d)
    as (of & r & Hstd).
  { intros f x. destruct (os_write_count k f x) as (f' & n & E & _). eauto. }
  { lia. }
  rewrite Hstd. cbn [bind].
  unfold write_all_volatile, exact_volatile. rewrite (win_offset0 d Hb).
  destruct (fd_write_all_sim sstate (os_read_of k) (os_write_of k) (os_read_bounded k) (os_write_bounded k) (4096 + margin)
              (N.to_nat (nlen d) + 2) st 0 d of r) with (fi := fuel_of d) (fo := fuel_of d)
    as (f' & He & Hok & Hko).
  { unfold buf_ok in Hb. lia. } { lia. } { exact Hstd. }
  { unfold fuel_of. lia. } { unfold fuel_of. lia. }
  unfold pb_at in He. unfold lift_u. rewrite He. cbn [omap fst snd].
  eexists _, _, _, _, _. split; [reflexivity|]. split; [reflexivity|]. agree_tail.
  split; [reflexivity|].
  destruct r as [[]|e].
  - rewrite (Hok eq_refl). split; [|split; [discriminate|reflexivity]].
    intros _. split; [reflexivity|]. split; [cbn; lia|discriminate].
  - assert (Hf : rc_success (rc_unit (@Err unit e)) = false) by (destruct e as [[]| |]; reflexivity).
    rewrite Hf. split; [discriminate|]. split; [|reflexivity]. intros _. apply Hko. discriminate.
Qed.

(* ------------------------------------------------------------------ E. steps, histories, the checker *)
Fixpoint sum_len (ops : list op13) : N :=
  match ops with [] => 0 | o :: t => nlen (op_buf o) + sum_len t end.
Definition op_wf (k : skind) (o : op13) : Prop :=
  op_allowed k o = true /\ buf_ok (op_buf o) /\ match o with OSetPos p => p < W64 | _ => True end.
(* what has to hold of a stream state for the arithmetic of the adapters not to overflow
   (budget = total length of the buffers still to be written), and the shape of a byte queue *)
Definition st_inv (k : skind) (content : list N) (st : sstate) (budget : N) : Prop :=
  match k with
  | KVecW => nlen (s_data st) + budget < W64
  | KCurR | KCurW => cur_ok st
  | KQueue => exists j, s_data st = ndrop j content /\ s_pos st = 0
  | _ => True
  end.

Lemma agree_state o vm sd st' m rc : Agree o vm sd -> vm = Val ((st', m), rc) ->
  exists ost bs, sd = Val (ost, bs, rc) /\ (rc_success rc = true -> ost = Some st').
Proof.
  intros (s1 & b1 & rc1 & ost & bs & Hv & Hs & _ & Hok & _) E. rewrite Hv in E. inversion E; subst.
  exists ost, bs. split; [reflexivity|]. intros H. apply Hok in H. tauto.
Qed.

Lemma cursor_write_inv md : forall s m v s' m' r, cur_ok s -> cursor_write_volatile md s m v = Val ((s', m'), r) -> cur_ok s'.
Proof.
  intros s m v s' m' r Hc H. rewrite (cursor_write_val md s m v Hc) in H. inversion H; subst.
  destruct Hc as [Hp Hd]. unfold cur_ok. cbn [s_pos s_data].
  set (total := N.min (vs_len v) (nlen (s_data s) - cur_start s)).
  assert (Hbs : nlen (mem_read m' (vs_off v) total) <= total) by (unfold mem_read; rewrite nlen_ntake; lia).
  rewrite mem_write_length by (unfold total, cur_start in *; lia).
  unfold total, cur_start in *. split; lia.
Qed.
Definition queue_inv (content : list N) (st : sstate) : Prop := exists j, s_data st = ndrop j content /\ s_pos st = 0.
Lemma queue_read_inv content : forall s m v s' m' r, queue_inv content s ->
  read_volatile_raw_fd queue_read s m v = Val ((s', m'), r) -> queue_inv content s'.
Proof.
  intros s m v s' m' r (j & Hd & Hp) H. unfold read_volatile_raw_fd, queue_read in H. inversion H; subst.
  unfold queue_inv. cbn [s_data s_pos]. exists (j + vs_len v). rewrite Hd, ndrop_ndrop. auto.
Qed.
Lemma queue_write_inv content : forall s m v s' m' r, queue_inv content s ->
  write_volatile_raw_fd queue_write s m v = Val ((s', m'), r) -> queue_inv content s'.
Proof.
  intros s m v s' m' r (j & Hd & Hp) H. unfold write_volatile_raw_fd, queue_write in H. inversion H; subst.
  unfold queue_inv. cbn [s_data s_pos]. eauto.
Qed.

Lemma lift_n_val {S} (x : outcome ((S * list N) * res N)) s m rc :
  lift_n x = Val ((s, m), rc) -> exists r, x = Val ((s, m), r).
Proof. destruct x as [[[s1 m1] r]| |]; cbn; intros H; inversion H; subst; eauto. Qed.
Lemma lift_u_val {S} (x : outcome ((S * list N) * res unit)) s m rc :
  lift_u x = Val ((s, m), rc) -> exists r, x = Val ((s, m), r).
Proof. destruct x as [[[s1 m1] r]| |]; cbn; intros H; inversion H; subst; eauto. Qed.

Lemma step_inv md k content st o budget : op_wf k o -> st_inv k content st (nlen (op_buf o) + budget) ->
  forall st' m rc, vm_step md k st o = Val ((st', m), rc) -> st_inv k content (clear_out st') budget.
Proof.
  intros (Hal & Hb & Hp) Hi st' m rc H.
  destruct k; cbn [st_inv] in *; try exact I.
  - (* Vec *)
    destruct o; cbn [op_allowed] in Hal; try discriminate.
    + pose proof (agree_vec_write md st d) as Ha. cbn [op_buf] in Hi.
      destruct (agree_state _ _ _ _ _ _ (Ha ltac:(lia)) H) as (ost & bs & Hs & Hok).
      unfold std_step, std_vec_write in Hs. inversion Hs; subst. specialize (Hok eq_refl). inversion Hok; subst.
      unfold clear_out, with_data. cbn [s_data]. rewrite nlen_app. lia.
    + pose proof (agree_vec_write_all md st d) as Ha. cbn [op_buf] in Hi, Hb.
      destruct (agree_state _ _ _ _ _ _ (Ha ltac:(lia) Hb) H) as (ost & bs & Hs & Hok).
      unfold std_step, std_vec_write in Hs. inversion Hs; subst. specialize (Hok eq_refl). inversion Hok; subst.
      unfold clear_out, with_data. cbn [s_data]. rewrite nlen_app. lia.
    + cbn [vm_step seekable] in H. inversion H; subst. cbn [op_buf nlen length N.of_nat] in Hi.
      unfold clear_out. cbn [s_data]. lia.
  - (* Cursor reader *)
    destruct o; cbn [op_allowed] in Hal; try discriminate.
    + unfold vm_step in H. apply lift_n_val in H. destruct H as (r & H). cbn [op_buf] in H.
      rewrite (cursor_read_val md st _ _ Hi) in H. inversion H; subst.
      destruct Hi as [A B]. unfold cur_ok, clear_out, set_pos. cbn [s_pos s_data].
      pose proof (nlen_ndrop (cur_start st) (s_data st)). unfold cur_start in *. split; lia.
    + unfold vm_step in H. apply lift_u_val in H. destruct H as (r & H). cbn [op_buf] in H.
      rewrite (cursor_read_exact_val md st _ _ Hi) in H.
      destruct Hi as [A B]. pose proof (nlen_ndrop (cur_start st) (s_data st)) as Hn.
      destruct (N.ltb_spec (nlen (ndrop (cur_start st) (s_data st))) (vs_len (win pre))); inversion H; subst;
        unfold cur_ok, clear_out, set_pos; cbn [s_pos s_data win vs_len] in *; unfold cur_start in *; split; lia.
    + cbn [vm_step seekable] in H. inversion H; subst. destruct Hi as [A B].
      unfold cur_ok, clear_out, set_pos. cbn [s_pos s_data]. split; assumption.
  - (* Cursor writer *)
    assert (Hco : forall s, cur_ok s -> cur_ok (clear_out s)) by (intros s [A B]; split; assumption).
    destruct o; cbn [op_allowed] in Hal; try discriminate.
    + unfold vm_step in H. apply lift_n_val in H. destruct H as (r & H).
      apply Hco. eapply cursor_write_inv; eassumption.
    + unfold vm_step in H. apply lift_u_val in H. destruct H as (r & H).
      apply Hco. unfold write_all_volatile in H.
      eapply (exact_volatile_inv cur_ok); [apply cursor_write_inv|exact Hi|exact H].
    + cbn [vm_step seekable] in H. inversion H; subst. destruct Hi as [A B].
      unfold cur_ok, clear_out, set_pos. cbn [s_pos s_data]. split; assumption.
  - (* byte queue *)
    fold (queue_inv content st) in Hi. fold (queue_inv content (clear_out st')).
    assert (Hco : forall s, queue_inv content s -> queue_inv content (clear_out s)) by (intros s A; exact A).
    apply Hco.
    destruct o; cbn [op_allowed] in Hal; try discriminate.
    + unfold vm_step in H. apply lift_n_val in H. destruct H as (r & H).
      eapply queue_read_inv; eassumption.
    + unfold vm_step in H. apply lift_u_val in H. destruct H as (r & H). unfold read_exact_volatile in H.
      eapply (exact_volatile_inv (queue_inv content)); [apply queue_read_inv|exact Hi|exact H].
    + unfold vm_step in H. apply lift_n_val in H. destruct H as (r & H).
      eapply queue_write_inv; eassumption.
    + unfold vm_step in H. apply lift_u_val in H. destruct H as (r & H). unfold write_all_volatile in H.
      eapply (exact_volatile_inv (queue_inv content)); [apply queue_write_inv|exact Hi|exact H].
    + cbn [vm_step seekable] in H. inversion H; subst. exact Hi.
Qed.

Lemma step_agree md k content st o budget : op_wf k o -> st_inv k content st (nlen (op_buf o) + budget) ->
  Agree o (vm_step md k st o) (std_step k st o).
Proof.
  intros (Hal & Hb & Hp) Hi.
  destruct o as [pre|pre|d|d|p].
  - destruct k; cbn [op_allowed] in Hal; try discriminate.
    + apply agree_slice_read. + apply agree_cursor_read. exact Hi.
    + apply agree_fd_read. reflexivity. + apply agree_fd_read. reflexivity. + apply agree_fd_read. reflexivity.
  - destruct k; cbn [op_allowed] in Hal; try discriminate.
    + apply agree_slice_read_exact. + apply agree_cursor_read_exact. exact Hi.
    + apply agree_fd_read_exact; [reflexivity|exact Hb]. + apply agree_fd_read_exact; [reflexivity|exact Hb].
    + apply agree_fd_read_exact; [reflexivity|exact Hb].
  - destruct k; cbn [op_allowed] in Hal; try discriminate.
    + apply agree_mslice_write. + apply agree_vec_write. cbn [st_inv op_buf] in Hi. lia.
    + apply agree_cursor_write. exact Hi.
    + apply agree_fd_write. reflexivity. + apply agree_fd_write. reflexivity. + apply agree_fd_write. reflexivity.
  - destruct k; cbn [op_allowed] in Hal; try discriminate.
    + apply agree_mslice_write_all. + apply agree_vec_write_all; [cbn [st_inv op_buf] in Hi; lia|exact Hb].
    + apply agree_cursor_write_all; [exact Hi|exact Hb].
    + apply agree_fd_write_all; [reflexivity|exact Hb]. + apply agree_fd_write_all; [reflexivity|exact Hb].
    + apply agree_fd_write_all; [reflexivity|exact Hb].
  - unfold vm_step, std_step. cbn [op_buf].
    eexists _, [], _, _, _. split; [reflexivity|]. split; [reflexivity|]. cbn [op_buf is_read].
    split; [reflexivity|]. split; [|split; [discriminate|reflexivity]].
    intros _. split; [reflexivity|]. split; [cbn; lia|discriminate].
Qed.

Lemma suffix_recon (c : list N) j : ndrop (nlen c - nlen (ndrop j c)) c = ndrop j c.
Proof.
  rewrite nlen_ndrop. destruct (N.le_ge_cases j (nlen c)) as [H|H].
  - f_equal. lia.
  - rewrite (ndrop_all j) by lia. apply ndrop_all. lia.
Qed.
Lemma state_of_obs_show k content st b : st_inv k content st b ->
  state_of_obs k content (fst (show_state k st)) (snd (show_state k st)) = clear_out st.
Proof.
  intros Hi. destruct k; try reflexivity. cbn [st_inv] in Hi. destruct Hi as (j & Hd & Hp).
  unfold state_of_obs, show_state, clear_out. cbn [fst snd]. rewrite Hd, suffix_recon, Hp. reflexivity.
Qed.
Lemma state_matches_show k st : state_matches k st (fst (show_state k st)) (snd (show_state k st)) = true.
Proof.
  destruct k; cbn [state_matches show_state fst snd]; rewrite ?N.eqb_refl, ?andb_true_r;
    try apply list_eqb_eq; reflexivity.
Qed.
Lemma bs_h0 (p : sstate * res N) (ost : option sstate) (bs : list N) (rc : N * N) :
  (let '(st', r) := p in Val (Some st', @nil N, rc_n r)) = Val (ost, bs, rc) -> bs = [].
Proof. destruct p. intros H. inversion H. reflexivity. Qed.
Lemma bs_h1 (p : option sstate * res unit) (ost : option sstate) (bs : list N) (rc : N * N) :
  (let '(o', r) := p in Val (o', @nil N, rc_unit r)) = Val (ost, bs, rc) -> bs = [].
Proof. destruct p. intros H. inversion H. reflexivity. Qed.
Lemma bs_h2 (p : sstate * res N) (ost : option sstate) (bs : list N) (rc : N * N) :
  (let '(st', _) := p in Val (Some st', @nil N, (1, 0))) = Val (ost, bs, rc) -> bs = [].
Proof. destruct p. intros H. inversion H. reflexivity. Qed.
Lemma bs_h3 (x : outcome (option sstate * res unit)) (ost : option sstate) (bs : list N) (rc : N * N) :
  (let* y := x in let '(o', r) := y in Val (o', @nil N, rc_unit r)) = Val (ost, bs, rc) -> bs = [].
Proof. destruct x as [[o' r]| |]; cbn [bind]; intros H; inversion H. reflexivity. Qed.
Lemma std_step_write_bs k st o ost bs rc : is_read o = false -> std_step k st o = Val (ost, bs, rc) -> bs = [].
Proof.
  intros Hr H. destruct o; try discriminate; unfold std_step in H.
  - destruct k; lazy beta iota in H;
      repeat match type of H with
             | (match ?X with (_, _) => _ end) = _ => destruct X
             end; inversion H; reflexivity.
  - destruct k; lazy beta iota in H;
      repeat match type of H with
             | (match ?X with (_, _) => _ end) = _ => destruct X
             | (bind ?X _) = _ => destruct X as [[? ?]| |]; cbn [bind] in H; try discriminate
             end; inversion H; reflexivity.
  - inversion H. reflexivity.
Qed.
Lemma list_eqb_refl13 l : list_eqb l l = true.
Proof. apply list_eqb_eq. reflexivity. Qed.
Lemma clear_out_idem st : clear_out (clear_out st) = clear_out st.
Proof. reflexivity. Qed.

Lemma st_inv_unclear k c s b : st_inv k c (clear_out s) b -> st_inv k c s b.
Proof. destruct k; intros H; exact H. Qed.

Lemma run_steps_ok md k content : forall ops st tw, Forall (op_wf k) ops ->
  st_inv k content (clear_out st) (sum_len ops) ->
  ok_steps k content (clear_out st) ops (run_ops md k st tw ops) = true.
Proof.
  induction ops as [|o ops IH]; intros st tw Hwf Hi; [reflexivity|].
  inversion Hwf as [|? ? Ho Hops]; subst. cbn [sum_len] in Hi.
  pose proof (step_agree md k content (clear_out st) o (sum_len ops) Ho Hi) as Ha.
  pose proof (step_inv md k content (clear_out st) o (sum_len ops) Ho Hi) as Hinv.
  destruct Ha as (st' & b' & rc & ost & bs & Hv & Hs & Hl & Hok & Hko & Hwr).
  specialize (Hinv _ _ _ Hv).
  cbn [run_ops]. rewrite Hv.
  destruct Ho as (Hal & Hb & Hp).
  assert (Hstep : forall trc tbuf tdata tpos tout,
    ok_step k content (clear_out st) o
      {| a_rc := rc; a_buf := b'; a_margins := margins_ok (op_buf o) (arena b');
         a_data := fst (show_state k st'); a_pos := snd (show_state k st'); a_out := s_out st';
         t_rc := trc; t_buf := tbuf; t_data := tdata; t_pos := tpos; t_out := tout |} = true).
  { intros. unfold ok_step. cbn [a_margins a_buf a_rc a_data a_pos a_out].
    rewrite (margins_ok_arena _ _ Hl), Hl, N.eqb_refl, Hs. cbn [andb].
    unfold rc_eqb. rewrite !N.eqb_refl. cbn [andb].
    destruct (rc_success rc) eqn:Esucc; [|reflexivity].
    destruct (Hok eq_refl) as (-> & Hbs & Hrd).
    rewrite state_matches_show, list_eqb_refl13. cbn [andb]. rewrite andb_true_r.
    destruct (is_read o) eqn:Er.
    - rewrite (Hrd eq_refl), ntake_app_exact. apply list_eqb_refl13.
    - rewrite (std_step_write_bs _ _ _ _ _ _ Er Hs). reflexivity. }
  assert (Hrest : forall tw', ok_steps k content
            (state_of_obs k content (fst (show_state k st')) (snd (show_state k st'))) ops
            (run_ops md k st' tw' ops) = true).
  { intros tw'. rewrite (state_of_obs_show _ _ _ _ (st_inv_unclear _ _ _ _ Hinv)). apply IH; [exact Hops|exact Hinv]. }
  assert (Hbuf : mem_read (arena b') margin (nlen (op_buf o)) = b') by (rewrite <- Hl; apply arena_read_all).
  destruct tw as [t|]; [destruct (std_step k (clear_out t) o) as [[[[t'|] bs2] rc2]| |]|];
    lazy beta iota zeta; cbn [ok_steps]; rewrite Hal, Hbuf; cbn [andb a_data a_pos];
    rewrite Hstep, Hrest; reflexivity.
Qed.

Lemma run_twin_ok md k content : forall ops st t, clear_out t = clear_out st -> Forall (op_wf k) ops ->
  st_inv k content (clear_out st) (sum_len ops) ->
  ok_twin ops (run_ops md k st (Some t) ops) = true.
Proof.
  induction ops as [|o ops IH]; intros st t Ht Hwf Hi; [reflexivity|].
  inversion Hwf as [|? ? Ho Hops]; subst. cbn [sum_len] in Hi.
  pose proof (step_agree md k content (clear_out st) o (sum_len ops) Ho Hi) as Ha.
  pose proof (step_inv md k content (clear_out st) o (sum_len ops) Ho Hi) as Hinv.
  destruct Ha as (st' & b' & rc & ost & bs & Hv & Hs & Hl & Hok & Hko & Hwr).
  specialize (Hinv _ _ _ Hv).
  assert (Hbuf : mem_read (arena b') margin (nlen (op_buf o)) = b') by (rewrite <- Hl; apply arena_read_all).
  cbn [run_ops]. rewrite Hv, Ht, Hs.
  destruct (rc_success rc) eqn:Esucc.
  - destruct (Hok eq_refl) as (-> & Hbs & Hrd). lazy beta iota zeta. rewrite Hbuf.
    cbn [ok_twin a_rc t_rc a_buf t_buf a_data t_data a_pos t_pos a_out t_out].
    unfold rc_eqb. rewrite !N.eqb_refl, Esucc. cbn [andb].
    rewrite !list_eqb_refl13. rewrite (IH st' st' eq_refl Hops Hinv). rewrite !andb_true_r.
    destruct (is_read o) eqn:Er; [|reflexivity]. rewrite (Hrd eq_refl). apply list_eqb_refl13.
  - rewrite (Hko eq_refl). lazy beta iota zeta. cbn [ok_twin a_rc t_rc]. unfold rc_eqb.
    rewrite !N.eqb_refl, Esucc. reflexivity.
Qed.

Definition wf13 (c : case13) : Prop :=
  s_out (c_init c) = [] /\ Forall (op_wf (c_kind c)) (c_ops c)
  /\ match c_kind c with
     | KVecW => nlen (s_data (c_init c)) + sum_len (c_ops c) < W64
     | KCurR | KCurW => cur_ok (c_init c)
     | KQueue => s_pos (c_init c) = 0
     | _ => True
     end.

Lemma C13_model_ok_lemma : forall c, wf13 c -> ok_C13 c (run_C13 c) = true.
Proof.
  intros c (Hout & Hops & Hk). unfold ok_C13, run_C13.
  assert (Hc : clear_out (c_init c) = c_init c) by (destruct (c_init c); cbn in *; subst; reflexivity).
  assert (Hi : st_inv (c_kind c) (s_data (c_init c)) (clear_out (c_init c)) (sum_len (c_ops c))).
  { rewrite Hc. destruct (c_kind c); cbn [st_inv]; auto. exists 0. rewrite ndrop_0. auto. }
  apply andb_true_iff. split.
  - rewrite <- Hc at 2. apply run_steps_ok; assumption.
  - eapply run_twin_ok; [reflexivity|exact Hops|exact Hi].
Qed.

(* ------------------------------------------------------------------ F. Prop-level readings *)
(* the adapter, run over a whole history from its own successive states, agrees at every step with
   the std operation applied to the same state *)
Fixpoint lockstep (md : mode) (k : skind) (st : sstate) (ops : list op13) {struct ops} : Prop :=
  match ops with
  | [] => True
  | o :: t =>
      exists st' b' rc ost bs,
        vm_step md k st o = Val ((st', arena b'), rc) /\ std_step k st o = Val (ost, bs, rc)
        /\ nlen b' = nlen (op_buf o)
        /\ (rc_success rc = true ->
              ost = Some st' /\ (is_read o = true -> b' = bs ++ ndrop (nlen bs) (op_buf o)))
        /\ (is_read o = false -> b' = op_buf o)
        /\ lockstep md k (clear_out st') t
  end.

Lemma lockstep_lemma : forall md k content ops st, Forall (op_wf k) ops -> st_inv k content st (sum_len ops) ->
  lockstep md k st ops.
Proof.
  intros md k content. induction ops as [|o ops IH]; intros st Hwf Hi; [exact I|].
  inversion Hwf as [|? ? Ho Hops]; subst. cbn [sum_len] in Hi.
  pose proof (step_agree md k content st o (sum_len ops) Ho Hi) as Ha.
  pose proof (step_inv md k content st o (sum_len ops) Ho Hi) as Hinv.
  destruct Ha as (st' & b' & rc & ost & bs & Hv & Hs & Hl & Hok & Hko & Hwr).
  cbn [lockstep]. exists st', b', rc, ost, bs. split; [exact Hv|]. split; [exact Hs|]. split; [exact Hl|].
  split; [intros H; destruct (Hok H) as (A & _ & B); auto|]. split; [exact Hwr|].
  apply IH; [exact Hops|]. eapply Hinv. exact Hv.
Qed.

Lemma adapter_eq_std_lemma : forall md k content st o budget,
  op_wf k o -> st_inv k content st (nlen (op_buf o) + budget) ->
  exists st' b' rc ost bs,
    vm_step md k st o = Val ((st', arena b'), rc) /\ std_step k st o = Val (ost, bs, rc)
    /\ nlen b' = nlen (op_buf o)
    /\ (rc_success rc = true ->
          ost = Some st' /\ nlen bs <= nlen (op_buf o)
          /\ (is_read o = true -> b' = bs ++ ndrop (nlen bs) (op_buf o)))
    /\ (rc_success rc = false -> ost = None)
    /\ (is_read o = false -> b' = op_buf o).
Proof. intros. eapply step_agree; eassumption. Qed.

Lemma never_beyond_buffer_lemma : forall md k content st o budget st' m rc,
  op_wf k o -> st_inv k content st (nlen (op_buf o) + budget) ->
  vm_step md k st o = Val ((st', m), rc) ->
  nlen m = nlen (arena (op_buf o))
  /\ ntake margin m = ntake margin (arena (op_buf o))
  /\ ndrop (margin + nlen (op_buf o)) m = ndrop (margin + nlen (op_buf o)) (arena (op_buf o))
  /\ (is_read o = false -> m = arena (op_buf o)).
Proof.
  intros md k content st o budget st' m rc Ho Hi H.
  destruct (step_agree md k content st o budget Ho Hi) as (s1 & b' & rc1 & ost & bs & Hv & _ & Hl & _ & _ & Hwr).
  rewrite Hv in H. inversion H; subst. split; [rewrite !nlen_arena; lia|]. split.
  - rewrite !arena_eq, !ntake_margin. reflexivity.
  - split; [|intros Hr; rewrite (Hwr Hr); reflexivity]. rewrite !arena_eq.
    rewrite !(ndrop_app_ge _ Cm) by (rewrite nlen_Cm; lia). rewrite nlen_Cm.
    replace (margin + nlen (op_buf o) - margin) with (nlen (op_buf o)) by lia.
    rewrite ndrop_app_exact. rewrite <- Hl, ndrop_app_exact. reflexivity.
Qed.

(* how much an in-memory stream can still deliver / take *)
Definition room_of (k : skind) (st : sstate) : N :=
  match k with
  | KSliceR | KSliceW => nlen (slice_rem st)
  | _ => nlen (s_data st) - cur_start st
  end.
Definition is_exact13 (o : op13) : bool := match o with OReadExact _ | OWriteAll _ => true | _ => false end.

Lemma exact_ok_iff_lemma : forall md k content st o budget st' m rc,
  op_wf k o -> st_inv k content st (nlen (op_buf o) + budget) -> is_exact13 o = true ->
  vm_step md k st o = Val ((st', m), rc) ->
  match k with
  | KVecW => rc = (1, 0)
  | KSliceR | KCurR | KSliceW | KCurW =>
      (nlen (op_buf o) <= room_of k st -> rc = (1, 0))
      /\ (room_of k st < nlen (op_buf o) -> rc = if is_read o then (2, 0) else (3, 0))
  | KFile | KQueue | KMsgQ => exists ost bs, std_step k st o = Val (ost, bs, rc)
  end.
Proof.
  intros md k content st o budget st' m rc Ho Hi Hx H.
  destruct (agree_state _ _ _ _ _ _ (step_agree md k content st o budget Ho Hi) H) as (ost & bs & Hs & _).
  destruct Ho as (Hal & _).
  destruct o as [pre|pre|d|d|p]; try discriminate; destruct k; cbn [op_allowed] in Hal; try discriminate;
    cbn [op_buf room_of is_read]; try (exists ost, bs; exact Hs); unfold std_step in Hs.
  - unfold std_slice_read_exact in Hs. destruct (N.leb_spec (nlen pre) (nlen (slice_rem st))); inversion Hs; subst;
      split; intros; try reflexivity; lia.
  - unfold std_cursor_read_exact in Hs. destruct (N.leb_spec (nlen pre) (nlen (s_data st) - cur_start st));
      inversion Hs; subst; split; intros; try reflexivity; lia.
  - unfold std_mslice_write_all in Hs. destruct (N.leb_spec (nlen d) (nlen (slice_rem st))); inversion Hs; subst;
      split; intros; try reflexivity; lia.
  - unfold std_vec_write in Hs. inversion Hs. reflexivity.
  - unfold std_cursor_write_all in Hs. destruct (N.leb_spec (nlen d) (nlen (s_data st) - cur_start st));
      inversion Hs; subst; split; intros; try reflexivity; lia.
Qed.

(* the default loops against ANY OS oracle (short reads, EINTR, errors in any order) *)
Lemma default_read_exact_eq_std_lemma : forall (F : Type) (os_read : F -> N -> F * os_rres),
  (forall f len f' bs, os_read f len = (f', OsData bs) -> nlen bs <= len) ->
  forall fuel f b of out r, buf_ok b ->
  std_fd_read_exact os_read fuel f (nlen b) [] = Val (of, out, r) ->
  forall fuel', (fuel <= fuel')%nat ->
  exists f' b', read_exact_volatile fuel' (read_volatile_raw_fd os_read) f (arena b) (win b) = Val ((f', arena b'), r)
    /\ nlen b' = nlen b /\ (r = Ok tt -> of = Some f' /\ out = b') /\ (r <> Ok tt -> of = None).
Proof.
  intros F os_read Hb fuel f b of out r Hbuf Hstd fuel' Hf.
  unfold read_exact_volatile, exact_volatile. rewrite (win_offset0 b Hbuf).
  destruct (fd_read_exact_sim F os_read (fun f _ => (f, OsCount 0)) Hb
              ltac:(intros ? ? ? ? E; inversion E; lia) (4096 + margin) fuel f [] b of out r)
    with (fi := fuel') (fo := fuel') as (f' & b' & He & Hrest);
    try (unfold buf_ok in Hbuf; cbn [nlen length N.of_nat]; lia).
  { cbn [nlen length N.of_nat]. rewrite N.sub_0_r. exact Hstd. }
  exists f', b'. split; [|exact Hrest]. exact He.
Qed.
Lemma default_write_all_eq_std_lemma : forall (F : Type) (os_write : F -> list N -> F * os_wres),
  (forall f d f' n, os_write f d = (f', OsCount n) -> n <= nlen d) ->
  forall fuel f d of r, buf_ok d ->
  std_fd_write_all os_write fuel f d = Val (of, r) ->
  forall fuel', (fuel <= fuel')%nat ->
  exists f', write_all_volatile fuel' (write_volatile_raw_fd os_write) f (arena d) (win d) = Val ((f', arena d), r)
    /\ (r = Ok tt -> of = Some f') /\ (r <> Ok tt -> of = None).
Proof.
  intros F os_write Hb fuel f d of r Hbuf Hstd fuel' Hf.
  unfold write_all_volatile, exact_volatile. rewrite (win_offset0 d Hbuf).
  destruct (fd_write_all_sim F (fun f _ => (f, OsData [])) os_write
              ltac:(intros ? ? ? ? E; inversion E; cbn; lia) Hb (4096 + margin) fuel f 0 d of r)
    with (fi := fuel') (fo := fuel') as (f' & He & Hrest);
    try (unfold buf_ok in Hbuf; lia).
  { exact Hstd. }
  exists f'. split; [|exact Hrest]. exact He.
Qed.

(* ------------------------------------------------------------------ G. the message queue in closed form
   An exact read from a message queue is served in PIECES: every round of the default loop dequeues one
   message, takes what still fits and discards the excess.  [msgq_exact ms want acc] says what comes out
   for a queue given as a list of messages: it succeeds when the messages in front are non-empty until the
   request is filled, fails with UnexpectedEof at an empty message and with the descriptor's EAGAIN when
   the queue runs dry. *)
Fixpoint enc_msgs (ms : list (list N)) : list N :=
  match ms with [] => [] | m :: t => m ++ MSG_END :: enc_msgs t end.
Definition payload_ok (m : list N) : Prop := Forall (fun x => x < MSG_END) m.

Fixpoint msgq_exact (ms : list (list N)) (want : N) (acc : list N) {struct ms}
  : option (list (list N)) * list N * res unit :=
  if want =? 0 then (Some ms, acc, Ok tt) else
  match ms with
  | [] => (None, [], Err (VIo EOther))
  | m :: t => if nlen m =? 0 then (None, [], Err (VIo EUnexpectedEof))
              else msgq_exact t (want - nlen (ntake want m)) (acc ++ ntake want m)
  end.

Lemma msg_split_enc m rest : payload_ok m -> msg_split (m ++ MSG_END :: rest) = (m, rest).
Proof.
  induction 1 as [|x m Hx _ IH]; cbn [app msg_split].
  - rewrite N.eqb_refl. reflexivity.
  - destruct (N.eqb_spec x MSG_END) as [E|_]; [lia|]. rewrite IH. reflexivity.
Qed.
Lemma msgq_read_enc m t p o len : payload_ok m -> len <> 0 ->
  msgq_read {| s_data := enc_msgs (m :: t); s_pos := p; s_out := o |} len =
  ({| s_data := enc_msgs t; s_pos := p; s_out := o |}, OsData (ntake len m)).
Proof.
  intros Hm Hl. unfold msgq_read. destruct (N.eqb_spec len 0); [contradiction|]. cbn [s_data s_pos s_out enc_msgs].
  destruct (m ++ MSG_END :: enc_msgs t) as [|x r] eqn:E.
  - exfalso. destruct m; discriminate.
  - rewrite <- E, (msg_split_enc m _ Hm). reflexivity.
Qed.

Definition msgq_state (p : N) (o : list N) (ms : list (list N)) : sstate :=
  {| s_data := enc_msgs ms; s_pos := p; s_out := o |}.

Lemma std_msgq_read_exact p o : forall ms, Forall payload_ok ms -> forall fuel want acc,
  (N.to_nat want < fuel)%nat ->
  std_fd_read_exact msgq_read fuel (msgq_state p o ms) want acc =
  Val (let '(oms, out, r) := msgq_exact ms want acc in (option_map (msgq_state p o) oms, out, r)).
Proof.
  induction 1 as [|m t Hm _ IH]; intros fuel want acc Hf; (destruct fuel as [|k]; [lia|]);
    cbn [std_fd_read_exact msgq_exact]; destruct (N.eqb_spec want 0) as [Hz|Hz]; try reflexivity.
  - unfold msgq_read. destruct (N.eqb_spec want 0); [contradiction|]. reflexivity.
  - unfold msgq_state at 1. rewrite (msgq_read_enc m t p o want Hm Hz).
    assert (Hn : nlen (ntake want m) = N.min want (nlen m)) by apply nlen_ntake.
    destruct (N.eqb_spec (nlen m) 0) as [Hm0|Hm0].
    + destruct (N.eqb_spec (nlen (ntake want m)) 0); [reflexivity|lia].
    + destruct (N.eqb_spec (nlen (ntake want m)) 0); [lia|].
      apply (IH k (want - nlen (ntake want m)) (acc ++ ntake want m)). lia.
Qed.

Lemma msgq_exact_some : forall ms want acc ms' out r, msgq_exact ms want acc = (Some ms', out, r) ->
  r = Ok tt /\ nlen out = nlen acc + want.
Proof.
  induction ms as [|m t IH]; intros want acc ms' out r H; cbn [msgq_exact] in H;
    destruct (N.eqb_spec want 0) as [Hz|Hz]; try (inversion H; subst; split; [reflexivity|lia]); try discriminate.
  destruct (nlen m =? 0); [discriminate|]. apply IH in H. destruct H as [-> H]. split; [reflexivity|].
  rewrite H, nlen_app. pose proof (nlen_ntake want m). lia.
Qed.

Lemma msgq_read_exact_pieces_lemma : forall md ms b p, Forall payload_ok ms -> buf_ok b ->
  exists st' b',
    vm_step md KMsgQ (msgq_state p [] ms) (OReadExact b)
      = Val ((st', arena b'), rc_unit (snd (msgq_exact ms (nlen b) [])))
    /\ nlen b' = nlen b
    /\ (forall ms', fst (fst (msgq_exact ms (nlen b) [])) = Some ms' ->
          st' = msgq_state p [] ms' /\ b' = snd (fst (msgq_exact ms (nlen b) []))).
Proof.
  intros md ms b p Hms Hb.
  destruct (adapter_eq_std_lemma md KMsgQ [] (msgq_state p [] ms) (OReadExact b) 0)
    as (st' & b' & rc & ost & bs & Hv & Hs & Hl & Hok & _ & _).
  { split; [reflexivity|]. split; [exact Hb|exact I]. }
  { exact I. }
  cbn [op_buf is_read] in *.
  unfold std_step in Hs. rewrite (std_msgq_read_exact p [] ms Hms) in Hs by lia. cbn [bind] in Hs.
  destruct (msgq_exact ms (nlen b) []) as [[oms out] r] eqn:E. inversion Hs; subst; clear Hs.
  exists st', b'. cbn [fst snd]. split; [exact Hv|]. split; [exact Hl|].
  intros ms' ->. destruct (msgq_exact_some _ _ _ _ _ _ E) as [-> Ho]. cbn [nlen length N.of_nat] in Ho.
  destruct (Hok eq_refl) as (Hst & _ & Hb'). cbn [option_map] in Hst. inversion Hst; subst st'.
  split; [reflexivity|]. rewrite (Hb' eq_refl). rewrite ndrop_all by lia. apply app_nil_r.
Qed.

(* ------------------------------------------------------------------ H. the VolatileSlice route
   Kinds 11 / 12 of the suite drive the descriptor through VolatileSlice::{read_volatile_from,
   read_exact_volatile_from, write_volatile_to, write_all_volatile_to}(0, fd, len) on the buffer's own
   slice (transcribed in Impl/IoGuest.v: vs_upto / vs_exact).  With addr = 0 and count = the slice's
   length that is the very computation of the direct ReadVolatile / WriteVolatile call, so the suite
   judges both routes with the same model step. *)
From VM Require Import Impl.IoGuest.

Lemma vs_route_exact_lemma {S} zerr fuel (call : callT S) b s m : buf_ok b ->
  vs_exact zerr fuel call (win b) 0 s m (nlen b) = exact_volatile zerr fuel call s m (win b).
Proof.
  intros Hb. unfold buf_ok in Hb. unfold vs_exact, vs_subslice, checked_add. cbn [win vs_len vs_addr vs_off].
  rewrite N.add_0_l. destruct (N.ltb_spec (nlen b) W64); [|lia].
  destruct (N.ltb_spec (nlen b) (nlen b)); [lia|]. reflexivity.
Qed.
Lemma vs_route_upto_lemma {S} fuel (call : callT S) b s m : buf_ok b ->
  vs_upto fuel call (win b) 0 s m (nlen b) = retry_eintr fuel call s m (win b).
Proof.
  intros Hb. unfold buf_ok in Hb. unfold vs_upto, vs_offset, vs_subslice, checked_add, checked_sub.
  cbn [win vs_len vs_addr vs_off].
  destruct (N.ltb_spec (4096 + margin + 0) W64); [|lia]. destruct (N.leb_spec 0 (nlen b)); [|lia].
  cbn [vs_len vs_addr vs_off]. rewrite N.sub_0_r, N.min_id, N.add_0_l.
  destruct (N.ltb_spec (nlen b) W64); [|lia]. destruct (N.ltb_spec (nlen b) (nlen b)); [lia|].
  rewrite !N.add_0_r. reflexivity.
Qed.
(* the descriptor oracles of the suite never answer EINTR: the retry loop is one call *)
Lemma retry_fd_read k f st m v : is_fd k = true ->
  retry_eintr (Datatypes.S f) (read_volatile_raw_fd (os_read_of k)) st m v = read_volatile_raw_fd (os_read_of k) st m v.
Proof.
  intros _. cbn [retry_eintr]. unfold read_volatile_raw_fd.
  destruct (os_read_cases k st (vs_len v)) as (f' & r & -> & [->|(bs & -> & _)]); reflexivity.
Qed.
Lemma retry_fd_write k f st m v : is_fd k = true ->
  retry_eintr (Datatypes.S f) (write_volatile_raw_fd (os_write_of k)) st m v = write_volatile_raw_fd (os_write_of k) st m v.
Proof.
  intros _. cbn [retry_eintr]. unfold write_volatile_raw_fd.
  destruct (os_write_count k st (mem_read m (vs_off v) (vs_len v))) as (f' & n & -> & _). reflexivity.
Qed.

Lemma slice_route_same_lemma : forall k b st f, is_fd k = true -> buf_ok b ->
  vs_read_volatile_from (Datatypes.S f) (read_volatile_raw_fd (os_read_of k)) (win b) 0 st (arena b) (nlen b)
    = read_volatile_raw_fd (os_read_of k) st (arena b) (win b)
  /\ vs_read_exact_volatile_from (fuel_of b) (read_volatile_raw_fd (os_read_of k)) (win b) 0 st (arena b) (nlen b)
    = read_exact_volatile (fuel_of b) (read_volatile_raw_fd (os_read_of k)) st (arena b) (win b)
  /\ vs_write_volatile_to (Datatypes.S f) (write_volatile_raw_fd (os_write_of k)) (win b) 0 st (arena b) (nlen b)
    = write_volatile_raw_fd (os_write_of k) st (arena b) (win b)
  /\ vs_write_all_volatile_to (fuel_of b) (write_volatile_raw_fd (os_write_of k)) (win b) 0 st (arena b) (nlen b)
    = write_all_volatile (fuel_of b) (write_volatile_raw_fd (os_write_of k)) st (arena b) (win b).
Proof.
  intros k b st f Hk Hb. unfold vs_read_volatile_from, vs_write_volatile_to, vs_read_exact_volatile_from,
    vs_write_all_volatile_to, read_exact_volatile, write_all_volatile.
  rewrite !vs_route_upto_lemma, !vs_route_exact_lemma by exact Hb.
  rewrite retry_fd_read, retry_fd_write by exact Hk. repeat split; reflexivity.
Qed.
