(* C18 on Xen regions: proofs.  The zero-length operations of Impl/Xen.v log nothing and complete on every
   region kind; the composed model run_C18x is quiet for every well-formed case. *)
From VM Require Import Prelude.MachInt Prelude.Outcome Prelude.Tok Impl.MmapBuild Impl.Xen Spec.C18 Suite.C18
  Spec.C18xen Suite.C18xen Proofs.C17 Proofs.C18.
From VM Require Spec.C17 Suite.C17 Proofs.C17Hist.

(* the access operations of Impl/Xen.v that name no bytes *)
Definition zlen (op : xop) : bool :=
  match op with
  | XWrite _ len | XRead _ len => len =? 0                      (* empty buffer *)
  | XSliceGuard _ len _ => len =? 0                             (* guard of an empty slice *)
  | XRefStore _ t | XRefLoad _ t => t =? 0                      (* zero-sized object *)
  | XArrCopyFrom _ t n _ | XArrCopyTo _ t n _ => (t =? 0) || (n =? 0)     (* zero-sized elements / no elements *)
  | XReadFrom _ count _ | XWriteTo _ count => count =? 0        (* zero-count stream transfer *)
  | XSliceCopyFrom _ len t _ | XSliceCopyTo _ len t _ => (len =? 0) && negb (t =? 0)
  | XCopyToVS _ len => len =? 0                                 (* slice-to-slice copy from an empty slice *)
  | XAtomicLoad _ _ | XArrStore _ _ _ _ | XArrLoad _ _ _ _ => false
  (* the descriptor-stream forms (suite C17xen) are not among C18's entry points *)
  | XReadFromFd _ _ _ | XReadExactFromFd _ _ | XWriteToFd _ _ | XWriteAllToFd _ _ => false
  end.

Lemma pmul0r m s a : pmul m s a 0 = Val 0.
Proof. unfold pmul. rewrite N.mul_0_r. pose proof W64_pos. destruct (N.ltb_spec 0 W64); [reflexivity|lia]. Qed.
Lemma pmul0l m s a : pmul m s 0 a = Val 0.
Proof. unfold pmul. rewrite N.mul_0_l. pose proof W64_pos. destruct (N.ltb_spec 0 W64); [reflexivity|lia]. Qed.

Lemma guarded0 m o g off wr : guarded m o g off 0 wr = ([], Val None).
Proof. apply zero_len_guard_noop_lemma. Qed.

(* what a plan with a guard of length 0 does *)
Lemma run_plan0 m o g op goff wr toff tlen :
  op_plan m (xr_size g) op = Val (PGuard goff 0 wr toff tlen) -> run_op m o g op = ([], RDone None).
Proof. intros P. unfold run_op. rewrite P, guarded0. reflexivity. Qed.

Definition quiet (r : list ev * opres) : Prop := fst r = [] /\ (snd r = RDone None \/ snd r = RErr).

Lemma isz_mul_0_l t : isz_mul 0 t = Some 0.
Proof. unfold isz_mul. rewrite N.mul_0_l. reflexivity. Qed.

Lemma arr_copy_quiet m o g off t n k (wr : bool) op :
  (op = XArrCopyFrom off t n k \/ op = XArrCopyTo off t n k) -> (t =? 0) || (n =? 0) = true ->
  quiet (run_op m o g op).
Proof.
  intros Hop Z.
  assert (P : op_plan m (xr_size g) op = Val PErr \/ exists w tl, op_plan m (xr_size g) op = Val (PGuard off 0 w off tl)).
  { apply orb_true_iff in Z. destruct Z as [Z|Z]; apply N.eqb_eq in Z; subst.
    - (* zero-sized elements *)
      destruct Hop as [->| ->]; cbn [op_plan]; unfold isz_mul; rewrite N.mul_0_r;
        (destruct ((n <=? ISZ_MAX) && (0 <=? ISZ_MAX)); [|left; reflexivity]);
        (destruct (end_offset (xr_size g) off 0); [|left; reflexivity]);
        change (0 =? 1) with false; cbn iota; unfold guard_len; rewrite pmul0r; cbn [bind];
        right; eexists; eexists; reflexivity.
    - (* no elements *)
      destruct Hop as [->| ->]; cbn [op_plan]; rewrite isz_mul_0_l;
        (destruct (end_offset (xr_size g) off 0); [|left; reflexivity]);
        (destruct (t =? 1); [rewrite pmul0l|unfold guard_len; rewrite pmul0l]); cbn [bind];
        right; eexists; eexists; reflexivity. }
  destruct P as [P|[w [tl P]]].
  - unfold run_op. rewrite P. split; [reflexivity|right; reflexivity].
  - rewrite (run_plan0 _ _ _ _ _ _ _ _ P). split; [reflexivity|left; reflexivity].
Qed.

Lemma slice_copy_quiet m o g off t k op :
  (op = XSliceCopyFrom off 0 t k \/ op = XSliceCopyTo off 0 t k) -> t <> 0 -> quiet (run_op m o g op).
Proof.
  intros Hop T.
  assert (P : op_plan m (xr_size g) op = Val PErr \/ exists w tl, op_plan m (xr_size g) op = Val (PGuard off 0 w off tl)).
  { destruct Hop as [->| ->]; cbn [op_plan];
      (destruct (end_offset (xr_size g) off 0); [|left; reflexivity]);
      (destruct (t =? 1); [right; eexists; eexists; reflexivity|]);
      unfold pdiv; (destruct (N.eqb_spec t 0) as [E|_]; [contradiction|]); cbn [bind];
      rewrite N.div_0_l by exact T; rewrite isz_mul_0_l; unfold guard_len; rewrite pmul0l; cbn [bind];
      right; eexists; eexists; reflexivity. }
  destruct P as [P|[w [tl P]]].
  - unfold run_op. rewrite P. split; [reflexivity|right; reflexivity].
  - rewrite (run_plan0 _ _ _ _ _ _ _ _ P). split; [reflexivity|left; reflexivity].
Qed.

(* every zero-length operation, on every region (any kind: unix, foreign, grant mapped in advance, grant mapped
   on demand; any size, base, flags), whatever the device would answer, in both build profiles: the log is
   EMPTY (no map ioctl, no mmap, no munmap, no unmap ioctl) and the operation completes (or returns Err when
   its offset lies outside the region) - it never panics and never faults *)
Lemma zlen_quiet m o g op : zlen op = true -> quiet (run_op m o g op).
Proof.
  intros Z. destruct op as [off len|off len|off len w|off t|off t|off t n i|off t n i|off t n k|off t n k|off t|off len
                           |off count srclen|off count|off len t k|off len t k|off count srclen|off count|off count|off count]; cbn [zlen] in Z; try discriminate.
  - (* write *) apply N.eqb_eq in Z; subst. unfold run_op. cbn [op_plan]. rewrite N.eqb_refl. split; [reflexivity|left; reflexivity].
  - (* read *) apply N.eqb_eq in Z; subst. unfold run_op. cbn [op_plan]. rewrite N.eqb_refl. split; [reflexivity|left; reflexivity].
  - (* slice guard *) apply N.eqb_eq in Z; subst. unfold run_op. cbn [op_plan].
    destruct (end_offset (xr_size g) off 0); [rewrite guarded0|]; split; try reflexivity; [left|right]; reflexivity.
  - (* ref store *) apply N.eqb_eq in Z; subst. unfold run_op. cbn [op_plan].
    destruct (end_offset (xr_size g) off 0); [rewrite guarded0|]; split; try reflexivity; [left|right]; reflexivity.
  - (* ref load *) apply N.eqb_eq in Z; subst. unfold run_op. cbn [op_plan].
    destruct (end_offset (xr_size g) off 0); [rewrite guarded0|]; split; try reflexivity; [left|right]; reflexivity.
  - eapply (arr_copy_quiet m o g off t n k true); [left; reflexivity|exact Z].
  - eapply (arr_copy_quiet m o g off t n k false); [right; reflexivity|exact Z].
  - (* copy_to_volatile_slice *) apply N.eqb_eq in Z; subst. unfold run_op. cbn [op_plan].
    destruct (end_offset (xr_size g) off 0); [|split; [reflexivity|right; reflexivity]].
    change (0 <? 0) with false. rewrite andb_false_r. split; [reflexivity|left; reflexivity].
  - (* read_volatile_from *) apply N.eqb_eq in Z; subst. unfold run_op. cbn [op_plan].
    destruct (xr_size g <? off); [split; [reflexivity|right; reflexivity]|].
    rewrite N.min_0_r, guarded0. split; [reflexivity|left; reflexivity].
  - (* write_volatile_to *) apply N.eqb_eq in Z; subst. unfold run_op. cbn [op_plan].
    destruct (xr_size g <? off); [split; [reflexivity|right; reflexivity]|].
    rewrite N.min_0_r, guarded0. split; [reflexivity|left; reflexivity].
  - apply andb_true_iff in Z. destruct Z as [Z1 Z2]. apply N.eqb_eq in Z1; subst.
    apply negb_true_iff, N.eqb_neq in Z2. eapply slice_copy_quiet; [left; reflexivity|exact Z2].
  - apply andb_true_iff in Z. destruct Z as [Z1 Z2]. apply N.eqb_eq in Z1; subst.
    apply negb_true_iff, N.eqb_neq in Z2. eapply slice_copy_quiet; [right; reflexivity|exact Z2].
Qed.

(* the offset and, for element arrays, the element count an operation is given *)
Definition zoff (op : xop) : N :=
  match op with
  | XWrite a _ | XRead a _ | XSliceGuard a _ _ | XRefStore a _ | XRefLoad a _ | XArrStore a _ _ _ | XArrLoad a _ _ _
  | XArrCopyFrom a _ _ _ | XArrCopyTo a _ _ _ | XAtomicLoad a _ | XCopyToVS a _ | XReadFrom a _ _ | XWriteTo a _
  | XSliceCopyFrom a _ _ _ | XSliceCopyTo a _ _ _
  | XReadFromFd a _ _ | XReadExactFromFd a _ | XWriteToFd a _ | XWriteAllToFd a _ => a end.
Definition zcount (op : xop) : N :=
  match op with XArrCopyFrom _ _ n _ | XArrCopyTo _ _ n _ => n | _ => 0 end.

(* ... and it COMPLETES (Ok) at every offset inside the region, its end included *)
Lemma zlen_done m o g op : zlen op = true -> xr_size g < W64 -> zoff op <= xr_size g -> zcount op <= ISZ_MAX ->
  run_op m o g op = ([], RDone None).
Proof.
  intros Z B L C. pose proof W64_val as WB.
  assert (EO : forall off, off <= xr_size g -> end_offset (xr_size g) off 0 = Some (off + 0)).
  { intros off L'. unfold end_offset, checked_add. destruct (N.ltb_spec (off + 0) W64); [|lia].
    destruct (N.ltb_spec (xr_size g) (off + 0)); [lia|reflexivity]. }
  destruct op as [off len|off len|off len w|off t|off t|off t n i|off t n i|off t n k|off t n k|off t|off len
                 |off count srclen|off count|off len t k|off len t k|off count srclen|off count|off count|off count]; cbn [zlen zoff zcount] in *; try discriminate.
  - apply N.eqb_eq in Z; subst. unfold run_op. cbn [op_plan]. rewrite N.eqb_refl. reflexivity.
  - apply N.eqb_eq in Z; subst. unfold run_op. cbn [op_plan]. rewrite N.eqb_refl. reflexivity.
  - apply N.eqb_eq in Z; subst. unfold run_op. cbn [op_plan]. rewrite (EO off L), guarded0. reflexivity.
  - apply N.eqb_eq in Z; subst. unfold run_op. cbn [op_plan]. rewrite (EO off L), guarded0. reflexivity.
  - apply N.eqb_eq in Z; subst. unfold run_op. cbn [op_plan]. rewrite (EO off L), guarded0. reflexivity.
  - (* array copy_from *)
    apply orb_true_iff in Z. destruct Z as [Z|Z]; apply N.eqb_eq in Z; subst.
    + eapply run_plan0. cbn [op_plan]. unfold isz_mul. rewrite N.mul_0_r.
      destruct (N.leb_spec n ISZ_MAX); [|lia]. cbn [andb N.leb]. change (0 <=? ISZ_MAX) with true. cbn iota.
      rewrite (EO off L). change (0 =? 1) with false. cbn iota. unfold guard_len. rewrite pmul0r. cbn [bind]. reflexivity.
    + destruct (t =? 1) eqn:T1.
      * eapply run_plan0. cbn [op_plan]. rewrite isz_mul_0_l, (EO off L), T1, pmul0l. cbn [bind]. reflexivity.
      * eapply run_plan0. cbn [op_plan]. rewrite isz_mul_0_l, (EO off L), T1. unfold guard_len. rewrite pmul0l. cbn [bind]. reflexivity.
  - (* array copy_to *)
    apply orb_true_iff in Z. destruct Z as [Z|Z]; apply N.eqb_eq in Z; subst.
    + eapply run_plan0. cbn [op_plan]. unfold isz_mul. rewrite N.mul_0_r.
      destruct (N.leb_spec n ISZ_MAX); [|lia]. cbn [andb N.leb]. change (0 <=? ISZ_MAX) with true. cbn iota.
      rewrite (EO off L). change (0 =? 1) with false. cbn iota. unfold guard_len. rewrite pmul0r. cbn [bind]. reflexivity.
    + destruct (t =? 1) eqn:T1.
      * eapply run_plan0. cbn [op_plan]. rewrite isz_mul_0_l, (EO off L), T1, pmul0l. cbn [bind]. reflexivity.
      * eapply run_plan0. cbn [op_plan]. rewrite isz_mul_0_l, (EO off L), T1. unfold guard_len. rewrite pmul0l. cbn [bind]. reflexivity.
  - apply N.eqb_eq in Z; subst. unfold run_op. cbn [op_plan]. rewrite (EO off L).
    change (0 <? 0) with false. rewrite andb_false_r. reflexivity.
  - apply N.eqb_eq in Z; subst. unfold run_op. cbn [op_plan].
    destruct (N.ltb_spec (xr_size g) off); [lia|]. rewrite N.min_0_r, guarded0. reflexivity.
  - apply N.eqb_eq in Z; subst. unfold run_op. cbn [op_plan].
    destruct (N.ltb_spec (xr_size g) off); [lia|]. rewrite N.min_0_r, guarded0. reflexivity.
  - apply andb_true_iff in Z. destruct Z as [Z1 Z2]. apply N.eqb_eq in Z1; subst.
    apply negb_true_iff, N.eqb_neq in Z2. destruct (t =? 1) eqn:T1.
    + eapply run_plan0. cbn [op_plan]. rewrite (EO off L), T1. reflexivity.
    + eapply run_plan0. cbn [op_plan]. rewrite (EO off L), T1. unfold pdiv.
      destruct (N.eqb_spec t 0); [contradiction|]. cbn [bind]. rewrite N.div_0_l by exact Z2.
      rewrite isz_mul_0_l. unfold guard_len. rewrite pmul0l. cbn [bind]. reflexivity.
  - apply andb_true_iff in Z. destruct Z as [Z1 Z2]. apply N.eqb_eq in Z1; subst.
    apply negb_true_iff, N.eqb_neq in Z2. destruct (t =? 1) eqn:T1.
    + eapply run_plan0. cbn [op_plan]. rewrite (EO off L), T1. reflexivity.
    + eapply run_plan0. cbn [op_plan]. rewrite (EO off L), T1. unfold pdiv.
      destruct (N.eqb_spec t 0); [contradiction|]. cbn [bind]. rewrite N.div_0_l by exact Z2.
      rewrite isz_mul_0_l. unfold guard_len. rewrite pmul0l. cbn [bind]. reflexivity.
Qed.

(* ------------------------------------------------------------------ the composed model *)
Lemma wf18x_parts c : wf18x c = true ->
  wf_case (kx_base c) = true /\ kx_rkind c < 4 /\ kx_page c = 4096 /\ c_ps (kx_base c) = 4096 /\
  (exists gb sz, c_regs (kx_base c) = [(gb, sz)] /\ gb mod 4096 = 0 /\ gb < 1099511627776 /\ 1 <= sz /\ sz <= 65536).
Proof.
  intros W. unfold wf18x in W.
  apply andb_true_iff in W. destruct W as [W _]. apply andb_true_iff in W. destruct W as [W _].
  apply andb_true_iff in W. destruct W as [W RG]. apply andb_true_iff in W. destruct W as [W PS].
  apply andb_true_iff in W. destruct W as [W PG]. apply andb_true_iff in W. destruct W as [W RK].
  split; [exact W|]. split; [apply N.ltb_lt; exact RK|]. split; [apply N.eqb_eq; exact PG|]. split; [apply N.eqb_eq; exact PS|].
  assert (RO : regs_ok 0 (c_regs (kx_base c)) = true).
  { unfold wf_case in W. do 7 (apply andb_true_iff in W; destruct W as [W _]). apply andb_true_iff in W. destruct W as [_ W]. exact W. }
  destruct (c_regs (kx_base c)) as [|[gb sz] [|]]; try discriminate.
  exists gb, sz. split; [reflexivity|]. apply andb_true_iff in RG. destruct RG as [AL GB].
  cbn [regs_ok] in RO. apply andb_true_iff in RO. destruct RO as [RO _]. apply andb_true_iff in RO. destruct RO as [RO _].
  apply andb_true_iff in RO. destruct RO as [RO S2]. apply andb_true_iff in RO. destruct RO as [_ S1].
  repeat split; [apply N.eqb_eq; exact AL|apply N.ltb_lt; exact GB|apply N.leb_le; exact S1|apply N.leb_le; exact S2].
Qed.

Lemma xops18_zlen c : wf18x c = true -> Forall (fun op => zlen op = true) (xops18 c).
Proof.
  intros W. destruct (wf18x_parts c W) as [WC _].
  pose proof (wf_params _ WC) as P. unfold params_ok in P. unfold xops18.
  destruct (c_op (kx_base c)); repeat constructor; cbn [zlen]; try reflexivity.
  - (* array copy_to *) apply orb_true_iff in P. apply orb_true_iff.
    destruct P as [P|P]; repeat (apply andb_true_iff in P; destruct P as [P ?]); [left|right]; assumption.
  - apply orb_true_iff in P. apply orb_true_iff.
    destruct P as [P|P]; repeat (apply andb_true_iff in P; destruct P as [P ?]); [left|right]; assumption.
Qed.

Lemma evs18_nil m o g ops : Forall (fun op => zlen op = true) ops -> evs18 m o g ops = [].
Proof.
  unfold evs18. induction 1 as [|op ops Z _ IH]; cbn [flat_map]; [reflexivity|].
  destruct (zlen_quiet m o g op Z) as [E _]. rewrite E, IH. reflexivity.
Qed.

Lemma span18_pages ps size num : 0 < ps -> size <= ps * num -> ps * num < size + ps -> span18 ps size = ps * num.
Proof.
  intros Hp L U. unfold span18.
  pose proof (N.div_mod (size + ps - 1) ps ltac:(lia)) as E. pose proof (N.mod_lt (size + ps - 1) ps ltac:(lia)) as M.
  remember ((size + ps - 1) / ps) as q. remember ((size + ps - 1) mod ps) as r.
  assert (q = num) by nia. subst. lia.
Qed.

(* the region of a well-formed case is built, and what the device holds / the process has mapped afterwards *)
Lemma build18_spec c : wf18x c = true ->
  exists g l0, build18 c = Val (Ok g, l0) /\ xr_size g = kx_size c /\
    N.of_nat (length (live_after [] l0)) = own_live c /\
    match xr_kind g, xr_mapped g with XUnix, _ => 0 | _, Some (ms, _) => ms | _, None => 0 end = own_mapped c.
Proof.
  intros W. destruct (wf18x_parts c W) as [WC [RK [PG [PS [gb [sz [RE [AL [GB [S1 S2]]]]]]]]]].
  pose proof W64_val as WB.
  assert (SZ : kx_size c = sz) by (unfold kx_size; rewrite RE; reflexivity).
  destruct (pages_spec (c_mode (kx_base c)) 4096 sz ltac:(lia) ltac:(lia)) as [num [PGS [P1 P2]]].
  assert (SP : span18 4096 sz = 4096 * num) by (apply span18_pages; lia).
  assert (K : kx_rkind c = 0 \/ kx_rkind c = 1 \/ kx_rkind c = 2 \/ kx_rkind c = 3) by lia.
  unfold build18, os18, Suite.C17.os17, xen_from_range, Suite.C17.range17, case17_of, own_live, own_mapped.
  rewrite SZ, RE, PG. cbn [Spec.C17.cx_mode Spec.C17.cx_rkind Spec.C17.cx_size Spec.C17.cx_gbase Spec.C17.cx_page nth fst snd].
  destruct K as [K|[K|[K|K]]]; rewrite K; cbn [x_prot x_flags x_size x_file x_addr x_mflags x_mdata N.eqb orb Pos.eqb].
  - (* unix *)
    change (negb (N.land (N.lor MAP_ANONYMOUS MAP_PRIVATE) MAP_FIXED =? 0)) with false. cbn iota.
    unfold xen_new. cbn [x_mflags]. change (from_bits 0) with (Some 0). cbn iota.
    change (negb (is_valid 0)) with false. change (is_foreign 0) with false. change (is_grant 0) with false. cbn iota.
    unfold xunix_new. cbn [x_file x_prot x_flags x_size ok_or]. unfold mmap_unix. cbn [os_mmap_ok bind app ok_or].
    eexists. eexists. split; [reflexivity|]. cbn [xr_size xr_mapped xr_kind live_after fold_left live_step length].
    repeat split; reflexivity.
  - (* foreign *)
    cbn iota.
    unfold xen_new. cbn [x_mflags]. change (from_bits 1) with (Some 1). cbn iota.
    change (negb (is_valid 1)) with false. change (is_foreign 1) with true. cbn iota.
    unfold xforeign_new. cbn [x_file x_prot x_flags x_size x_addr ok_or os_page].
    change (validate_file (Some 0)) with (@Ok N 0). cbn iota.
    rewrite PGS. cbn [bind ok_or]. unfold mmap_unix. cbn [os_mmap_ok os_ioctl_ok].
    unfold pdiv. change (4096 =? 0) with false. cbn [bind ok_or].
    eexists. eexists. split; [reflexivity|]. cbn [xr_size xr_mapped xr_kind app live_after fold_left live_step length].
    repeat split; try reflexivity. symmetry. exact SP.
  - (* grant, mapped in advance *)
    cbn iota.
    unfold xen_new. cbn [x_mflags]. change (from_bits 2) with (Some 2). cbn iota.
    change (negb (is_valid 2)) with false. change (is_foreign 2) with false. change (is_grant 2) with true. cbn iota.
    unfold xgrant_new. cbn [x_file x_prot x_flags x_size x_addr ok_or os_page].
    change (validate_file (Some 0)) with (@Ok N 0). cbn iota.
    change (mmap_in_advance 2) with true. cbn iota.
    unfold mmap_range. cbn [os_page os_ioctl_ok os_mmap_ok x_addr x_size]. rewrite PGS. cbn [bind].
    unfold grant_ref, pdiv. change (4096 =? 0) with false. cbn [bind].
    assert (NM : num mod 4294967296 = num) by (apply N.mod_small; nia). rewrite NM.
    destruct (N.ltb_spec 0 num) as [_|Z]; [|nia]. cbn [andb].
    unfold mmap_unix. cbn [os_mmap_ok bind ok_or].
    eexists. eexists. split; [reflexivity|]. cbn [xr_size xr_mapped xr_kind live_after fold_left live_step length].
    repeat split; try reflexivity. symmetry. exact SP.
  - (* grant, mapped on demand *)
    cbn iota.
    unfold xen_new. cbn [x_mflags]. change (from_bits 10) with (Some 10). cbn iota.
    change (negb (is_valid 10)) with false. change (is_foreign 10) with false. change (is_grant 10) with true. cbn iota.
    unfold xgrant_new. cbn [x_file x_prot x_flags x_size x_addr ok_or os_page].
    change (validate_file (Some 0)) with (@Ok N 0). cbn iota.
    change (mmap_in_advance 10) with false. cbn [bind ok_or].
    eexists. eexists. split; [reflexivity|]. cbn [xr_size xr_mapped xr_kind live_after fold_left live_step length].
    repeat split; reflexivity.
Qed.

(* the Xen half of the composed model is quiet on EVERY well-formed case: the device log is empty, the device
   holds what it held before the call, the process has mapped what it had mapped before *)
Lemma model_quiet_lemma c : wf18x c = true ->
  exists mo, run_C18x c = Some mo /\ ox_base mo = run_C18 (kx_base c) /\
    ox_evs mo = [] /\ ox_live mo = own_live c /\ ox_mapped mo = own_mapped c.
Proof.
  intros W. destruct (build18_spec c W) as [g [l0 [B [S [L M]]]]].
  unfold run_C18x. rewrite B. eexists. split; [reflexivity|].
  cbn [ox_base ox_evs ox_live ox_mapped]. rewrite (evs18_nil _ _ _ _ (xops18_zlen c W)).
  split; [reflexivity|]. split; [reflexivity|]. split; [exact L|exact M].
Qed.

Lemma model_ok_x_partial_lemma c : wf18x c = true -> covered18 (kx_base c) = true ->
  exists mo, run_C18x c = Some mo /\ ok_C18x c mo = true.
Proof.
  intros W C. destruct (model_quiet_lemma c W) as [mo [R [B [E [L M]]]]]. exists mo. split; [exact R|].
  destruct (wf18x_parts c W) as [WC _].
  unfold ok_C18x. rewrite B, E, L, M, (model_ok_partial_lemma _ WC C), !N.eqb_refl. reflexivity.
Qed.

(* Prop-level reading for the suite's entry points: whatever the C18 model answers for the call itself, on every
   kind of Xen region every guard the entry point takes logs nothing and completes or is refused - no panic *)
Lemma xen_zero_len_noop_lemma : forall m o g op, zlen op = true ->
  fst (run_op m o g op) = [] /\
  (snd (run_op m o g op) = RDone None \/ snd (run_op m o g op) = RErr) /\
  (xr_size g < W64 -> zoff op <= xr_size g -> zcount op <= ISZ_MAX -> snd (run_op m o g op) = RDone None).
Proof.
  intros m o g op Z. destruct (zlen_quiet m o g op Z) as [E R]. split; [exact E|]. split; [exact R|].
  intros B L C. rewrite (zlen_done m o g op Z B L C). reflexivity.
Qed.
