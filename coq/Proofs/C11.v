From VM Require Import Prelude.MachInt Prelude.Tok Impl.Rcu Spec.C11 Suite.C11.

(* ------------------------------------------------------------------ counting references *)
Lemma refs_app g l h : refs g (l ++ [Some h]) = (refs g l + (if N.eqb g (h_map h) then 1 else 0))%nat.
Proof. induction l as [|[x|] l IH]; cbn [refs app]; try rewrite IH; lia. Qed.

Lemma refs_set_none g l i h : nth_error l i = Some (Some h) ->
  refs g l = (refs g (set_nth l i None) + (if N.eqb g (h_map h) then 1 else 0))%nat.
Proof.
  revert i. induction l as [|x l IH]; intros [|i] H; cbn in H; try discriminate.
  - inversion H; subst. cbn [set_nth refs]. lia.
  - cbn [set_nth refs]. destruct x as [x|]; rewrite (IH i H); lia.
Qed.

Lemma refs_set_same g l i h h' : nth_error l i = Some (Some h) -> h_map h' = h_map h ->
  refs g (set_nth l i (Some h')) = refs g l.
Proof.
  revert i. induction l as [|x l IH]; intros [|i] H E; cbn in H; try discriminate.
  - inversion H; subst. cbn [set_nth refs]. rewrite E. reflexivity.
  - cbn [set_nth refs]. destruct x as [x|]; rewrite (IH i H E); reflexivity.
Qed.

Lemma refs_pos_iff g l : (0 < refs g l)%nat <-> exists i h, nth_error l i = Some (Some h) /\ h_map h = g.
Proof.
  induction l as [|x l IH]; cbn [refs].
  - split; [lia|]. intros (i & h & H & _). destruct i; discriminate.
  - split.
    + intros H. destruct x as [x|].
      * destruct (N.eqb_spec g (h_map x)) as [E|E].
        -- exists O, x. split; [reflexivity|congruence].
        -- destruct (proj1 IH ltac:(lia)) as (i & h & Hi & Hh). exists (S i), h. split; assumption.
      * destruct (proj1 IH H) as (i & h & Hi & Hh). exists (S i), h. split; assumption.
    + intros (i & h & Hi & Hh). destruct i as [|i]; cbn in Hi.
      * inversion Hi; subst. rewrite N.eqb_refl. lia.
      * assert (0 < refs g l)%nat by (apply IH; exists i, h; split; assumption).
        destruct x; lia.
Qed.

Lemma get_handle_Some s i h : get_handle s i = Some h -> nth_error (handles s) i = Some (Some h).
Proof. unfold get_handle. destruct (nth_error (handles s) i) as [[x|]|]; intros H; inversion H; reflexivity. Qed.

Lemma nth_error_set_nth {A} (l : list A) i j v :
  nth_error (set_nth l i v) j = if Nat.eqb i j then (match nth_error l i with Some _ => Some v | None => None end) else nth_error l j.
Proof.
  revert i j. induction l as [|x l IH]; intros [|i] [|j]; cbn; try reflexivity.
  - destruct (Nat.eqb i j); reflexivity.
  - apply IH.
Qed.

(* ------------------------------------------------------------------ the invariant *)
Record Inv (s : state) : Prop := {
  I_rc : forall g, rc s g = (refs g (handles s) + (if N.eqb g (cell s) then 1 else 0))%nat;
  I_freed : forall g, g < nmaps s -> (freed s g = true <-> rc s g = O);
  I_fresh : forall g, nmaps s <= g -> rc s g = O /\ freed s g = false;
  I_cell : cell s < nmaps s;
  I_bad : bad s = false;
  I_mutex : mutex s = true <-> exists t, upd s t <> UIdle;
  I_excl : forall t1 t2, upd s t1 <> UIdle -> upd s t2 <> UIdle -> t1 = t2;
  I_derived : forall t b, upd s t = UDerived b -> b = cell s;
  I_chain : chain (log s) (cell s)
}.

Lemma Inv_init : Inv init.
Proof.
  constructor; cbn [init cell mutex rc freed nmaps handles upd gen log bad refs chain]; unfold upd_fun.
  - intros g. destruct (g =? 0); reflexivity.
  - intros g Hg. assert (g = 0) by lia. subst. cbn. split; discriminate.
  - intros g Hg. destruct (N.eqb_spec g 0); [lia|]. split; reflexivity.
  - lia.
  - reflexivity.
  - split; [discriminate|]. intros [t H]. exfalso. apply H. reflexivity.
  - intros t1 t2 H. exfalso. apply H. reflexivity.
  - intros t b H. discriminate.
  - reflexivity.
Qed.

(* a handle's map is a created map with a positive count *)
Lemma handle_rc_pos s i h : Inv s -> nth_error (handles s) i = Some (Some h) -> (0 < rc s (h_map h))%nat.
Proof.
  intros HI H. rewrite (I_rc s HI).
  assert (0 < refs (h_map h) (handles s))%nat by (apply refs_pos_iff; exists i, h; split; [assumption|reflexivity]).
  lia.
Qed.
Lemma handle_lt s i h : Inv s -> nth_error (handles s) i = Some (Some h) -> h_map h < nmaps s.
Proof.
  intros HI H. pose proof (handle_rc_pos s i h HI H) as P.
  destruct (N.lt_ge_cases (h_map h) (nmaps s)) as [L|L]; [exact L|].
  destruct (I_fresh s HI _ L) as [Z _]. lia.
Qed.

(* what dropping one reference does, when there is one to drop *)
Lemma dec_rc_fields g0 s n : rc s g0 = S n ->
  rc (dec_rc g0 s) = upd_fun (rc s) g0 n /\
  freed (dec_rc g0 s) = (match n with O => upd_fun (freed s) g0 true | _ => freed s end) /\
  cell (dec_rc g0 s) = cell s /\ mutex (dec_rc g0 s) = mutex s /\ nmaps (dec_rc g0 s) = nmaps s /\
  handles (dec_rc g0 s) = handles s /\ upd (dec_rc g0 s) = upd s /\ gen (dec_rc g0 s) = gen s /\
  log (dec_rc g0 s) = log s /\ bad (dec_rc g0 s) = bad s.
Proof.
  intros H. unfold dec_rc. rewrite H. destruct n; cbn; repeat split; reflexivity.
Qed.

Ltac eqb_cases :=
  repeat match goal with
  | |- context [?a =? ?b] => destruct (N.eqb_spec a b)
  | H : context [?a =? ?b] |- _ => destruct (N.eqb_spec a b)
  end.

(* generic preservation for "one reference to g0 goes away": handles / cell change so that the
   number of references to g0 drops by one and nothing else changes *)
Lemma Inv_dec s s1 g0 :
  (* s1: the state before the decrement, already without the reference *)
  (forall g, rc s1 g = (refs g (handles s1) + (if N.eqb g (cell s1) then 1 else 0) + (if N.eqb g g0 then 1 else 0))%nat) ->
  (forall g, g < nmaps s1 -> (freed s1 g = true <-> rc s1 g = O)) ->
  (forall g, nmaps s1 <= g -> rc s1 g = O /\ freed s1 g = false) ->
  cell s1 < nmaps s1 -> bad s1 = false ->
  (mutex s1 = true <-> exists t, upd s1 t <> UIdle) ->
  (forall t1 t2, upd s1 t1 <> UIdle -> upd s1 t2 <> UIdle -> t1 = t2) ->
  (forall t b, upd s1 t = UDerived b -> b = cell s1) ->
  chain (log s1) (cell s1) ->
  s = dec_rc g0 s1 -> Inv s.
Proof.
  intros Hrc Hfr Hfresh Hcell Hbad Hmx Hex Hder Hch ->.
  assert (Hpos : exists n, rc s1 g0 = S n).
  { specialize (Hrc g0). rewrite N.eqb_refl in Hrc. destruct (rc s1 g0); [lia|eexists; reflexivity]. }
  destruct Hpos as [n Hn].
  destruct (dec_rc_fields g0 s1 n Hn) as (E1 & E2 & E3 & E4 & E5 & E6 & E7 & E8 & E9 & E10).
  assert (Hlt : g0 < nmaps s1).
  { destruct (N.lt_ge_cases g0 (nmaps s1)) as [L|L]; [exact L|]. destruct (Hfresh _ L). lia. }
  constructor; rewrite ?E1, ?E2, ?E3, ?E4, ?E5, ?E6, ?E7, ?E8, ?E9, ?E10; try assumption.
  - intros g. unfold upd_fun. specialize (Hrc g). destruct (N.eqb_spec g g0); [subst|]; lia.
  - intros g Hg. unfold upd_fun. destruct n.
    + unfold upd_fun. destruct (N.eqb_spec g g0); [subst; split; reflexivity|apply Hfr; exact Hg].
    + destruct (N.eqb_spec g g0).
      * subst. split; [|discriminate]. intros F. apply Hfr in F; [|exact Hg]. lia.
      * apply Hfr; exact Hg.
  - intros g Hg. unfold upd_fun. destruct (N.eqb_spec g g0); [subst; lia|].
    destruct (Hfresh g Hg) as [A B]. split; [exact A|]. destruct n; [unfold upd_fun|]; eqb_cases; try lia; exact B.
Qed.

Lemma exec_Inv st s s' v : Inv s -> exec st s = Some (s', v) -> Inv s'.
Proof.
  intros HI H. destruct st as [t|i|i|i|i|t|t|t|t]; cbn [exec] in H.
  - (* Load *)
    inversion H; subst; clear H.
    constructor; cbn; try apply HI.
    + intros g. rewrite refs_app. cbn [h_map]. unfold upd_fun. rewrite !(I_rc s HI).
      destruct (N.eqb_spec g (cell s)); [subst; rewrite ?N.eqb_refl|]; lia.
    + intros g Hg. unfold upd_fun. destruct (N.eqb_spec g (cell s)).
      * subst. split; [|discriminate]. intros F. apply (I_freed s HI) in F; [|exact Hg].
        rewrite (I_rc s HI), N.eqb_refl in F. lia.
      * apply (I_freed s HI); exact Hg.
    + intros g Hg. unfold upd_fun. pose proof (I_cell s HI). destruct (N.eqb_spec g (cell s)); [lia|].
      apply (I_fresh s HI); exact Hg.
  - (* CloneH *)
    destruct (get_handle s i) as [h|] eqn:G; [|discriminate]. inversion H; subst; clear H.
    apply get_handle_Some in G.
    pose proof (handle_rc_pos s i h HI G) as P. pose proof (handle_lt s i h HI G) as L.
    constructor; cbn; try apply HI.
    + intros g. rewrite refs_app. unfold upd_fun. rewrite !(I_rc s HI).
      destruct (N.eqb_spec g (h_map h)); [subst; rewrite ?N.eqb_refl|]; lia.
    + intros g Hg. unfold upd_fun. destruct (N.eqb_spec g (h_map h)).
      * subst. split; [|discriminate]. intros F. apply (I_freed s HI) in F; [|exact Hg]. lia.
      * apply (I_freed s HI); exact Hg.
    + intros g Hg. unfold upd_fun. destruct (N.eqb_spec g (h_map h)); [lia|]. apply (I_fresh s HI); exact Hg.
  - (* IntoInner *)
    destruct (get_handle s i) as [h|] eqn:G; [|discriminate]. apply get_handle_Some in G.
    destruct (h_kind h); [|discriminate]. inversion H; subst; clear H.
    constructor; cbn; try apply HI.
    intros g. rewrite (refs_set_same g _ i h) by (assumption || reflexivity). apply (I_rc s HI).
  - (* Use *)
    destruct (get_handle s i) as [h|] eqn:G; [|discriminate]. apply get_handle_Some in G.
    inversion H; subst; clear H.
    constructor; cbn; try apply HI.
    rewrite (I_bad s HI). cbn.
    pose proof (handle_rc_pos s i h HI G) as P. pose proof (handle_lt s i h HI G) as L.
    destruct (freed s (h_map h)) eqn:F; [|reflexivity]. apply (I_freed s HI) in F; [lia|exact L].
  - (* DropH *)
    destruct (get_handle s i) as [h|] eqn:G; [|discriminate]. apply get_handle_Some in G.
    inversion H; subst; clear H.
    eapply Inv_dec with (g0 := h_map h); [..|reflexivity]; cbn; try apply HI.
    intros g. rewrite (I_rc s HI). rewrite (refs_set_none g _ i h G). lia.
  - (* Lock *)
    destruct (mutex s) eqn:M; [discriminate|]. destruct (upd s t) eqn:U; try discriminate.
    inversion H; subst; clear H.
    assert (Hidle : forall t', upd s t' = UIdle).
    { intros t'. destruct (upd s t') eqn:U'; try reflexivity;
      (assert (mutex s = true) by (apply (I_mutex s HI); exists t'; rewrite U'; discriminate); congruence). }
    constructor; cbn; try apply HI; unfold upd_fun.
    + split; [intros _; exists t; rewrite N.eqb_refl; discriminate|reflexivity].
    + intros t1 t2. destruct (N.eqb_spec t1 t), (N.eqb_spec t2 t); subst; try reflexivity;
        rewrite ?Hidle; intros A B; exfalso; (apply A; reflexivity) || (apply B; reflexivity).
    + intros t' b. destruct (N.eqb_spec t' t); [discriminate|]. rewrite Hidle. discriminate.
  - (* ReadCur *)
    assert (Hn : upd s t <> UIdle /\ s' = set_lock s (mutex s) (upd_fun (upd s) t (UDerived (cell s)))).
    { destruct (upd s t); try discriminate; inversion H; subst; (split; [discriminate|reflexivity]). }
    destruct Hn as [Hn ->].
    constructor; cbn; try apply HI; unfold upd_fun.
    + rewrite (I_mutex s HI). split; intros [t' Ht'].
      * exists t. rewrite N.eqb_refl. discriminate.
      * exists t. exact Hn.
    + intros t1 t2 A B.
      assert (upd s t1 <> UIdle) by (destruct (N.eqb_spec t1 t); [subst; exact Hn|exact A]).
      assert (upd s t2 <> UIdle) by (destruct (N.eqb_spec t2 t); [subst; exact Hn|exact B]).
      apply (I_excl s HI); assumption.
    + intros t' b. destruct (N.eqb_spec t' t); [intros E; inversion E; reflexivity|apply (I_derived s HI)].
  - (* Store *)
    assert (Hn : upd s t <> UIdle /\ exists p, (forall b, p = Some b -> b = cell s) /\
      Some (s', v) = Some (dec_rc (cell s)
        {| cell := nmaps s; mutex := mutex s; rc := upd_fun (rc s) (nmaps s) 1%nat; freed := freed s;
           nmaps := nmaps s + 1; handles := handles s; upd := upd_fun (upd s) t UStored;
           gen := upd_fun (gen s) (nmaps s) (match p with Some b => gen s b + 1 | None => 0 end);
           log := (cell s, nmaps s, p) :: log s; bad := bad s |}, nmaps s)).
    { destruct (upd s t) eqn:U; try discriminate; (split; [discriminate|]).
      - exists None. split; [discriminate|]. rewrite <- H. reflexivity.
      - exists (Some base). split; [intros b E; inversion E; subst; apply (I_derived s HI t); exact U|].
        rewrite <- H. reflexivity. }
    destruct Hn as [Hn (p & Hp & E)]. inversion E; subst; clear E H.
    pose proof (I_cell s HI) as Hc.
    eapply Inv_dec with (g0 := cell s); [..|reflexivity]; cbn; unfold upd_fun.
    + intros g. destruct (N.eqb_spec g (nmaps s)).
      * subst. destruct (I_fresh s HI (nmaps s) ltac:(lia)) as [Z _]. rewrite (I_rc s HI) in Z.
        destruct (N.eqb_spec (nmaps s) (cell s)); lia.
      * rewrite (I_rc s HI). lia.
    + intros g Hg. destruct (N.eqb_spec g (nmaps s)).
      * subst. destruct (I_fresh s HI (nmaps s) ltac:(lia)) as [_ Z]. rewrite Z. split; discriminate.
      * apply (I_freed s HI). lia.
    + intros g Hg. destruct (N.eqb_spec g (nmaps s)); [lia|]. apply (I_fresh s HI). lia.
    + lia.
    + apply HI.
    + rewrite (I_mutex s HI). split; intros _.
      * exists t. rewrite N.eqb_refl. discriminate.
      * exists t. exact Hn.
    + intros t1 t2 A B.
      assert (upd s t1 <> UIdle) by (destruct (N.eqb_spec t1 t); [subst; exact Hn|exact A]).
      assert (upd s t2 <> UIdle) by (destruct (N.eqb_spec t2 t); [subst; exact Hn|exact B]).
      apply (I_excl s HI); assumption.
    + intros t' b. destruct (N.eqb_spec t' t); [discriminate|]. intros U'.
      exfalso. apply n. apply (I_excl s HI); [rewrite U'; discriminate|exact Hn].
    + split; [reflexivity|]. split; [exact Hp|apply HI].
  - (* Unlock *)
    assert (Hn : upd s t <> UIdle /\ s' = set_lock s false (upd_fun (upd s) t UIdle)).
    { destruct (upd s t); try discriminate; inversion H; subst; (split; [discriminate|reflexivity]). }
    destruct Hn as [Hn ->].
    assert (Hidle : forall t', t' <> t -> upd s t' = UIdle).
    { intros t' Hne. destruct (upd s t') eqn:U'; try reflexivity;
      (exfalso; apply Hne; apply (I_excl s HI); [rewrite U'; discriminate|exact Hn]). }
    constructor; cbn; try apply HI; unfold upd_fun.
    + split; [discriminate|]. intros [t' Ht']. exfalso. destruct (N.eqb_spec t' t); apply Ht'; [reflexivity|apply Hidle; assumption].
    + intros t1 t2 A. exfalso. destruct (N.eqb_spec t1 t); apply A; [reflexivity|apply Hidle; assumption].
    + intros t' b. destruct (N.eqb_spec t' t); [discriminate|]. rewrite Hidle by assumption. discriminate.
Qed.

Lemma step_Inv st s : Inv s -> Inv (step_or_skip st s).
Proof.
  intros HI. unfold step_or_skip. destruct (exec st s) as [[s' v]|] eqn:E; [eapply exec_Inv; eassumption|exact HI].
Qed.
Lemma run_from_Inv l s : Inv s -> Inv (run_from l s).
Proof. revert s. induction l as [|st l IH]; intros s HI; cbn [run_from]; [exact HI|apply IH, step_Inv, HI]. Qed.
Lemma run_Inv l : Inv (run l).
Proof. apply run_from_Inv, Inv_init. Qed.

Lemma run_from_app l1 l2 s : run_from (l1 ++ l2) s = run_from l2 (run_from l1 s).
Proof. revert s. induction l1 as [|st l1 IH]; intros s; cbn [run_from app]; [reflexivity|apply IH]. Qed.

(* ------------------------------------------------------------------ handles under a step *)
Lemma dec_rc_handles g s : handles (dec_rc g s) = handles s.
Proof. unfold dec_rc. destruct (rc s g) as [|[|n]]; reflexivity. Qed.
Lemma dec_rc_cell g s : cell (dec_rc g s) = cell s.
Proof. unfold dec_rc. destruct (rc s g) as [|[|n]]; reflexivity. Qed.

Definition keeps (hs hs' : list (option handle)) (i : nat) (x : option handle) : Prop :=
  nth_error hs' i = Some None \/
  (exists h h', x = Some h /\ nth_error hs' i = Some (Some h') /\ h_map h' = h_map h).

Lemma keeps_same hs i x : nth_error hs i = Some x -> keeps hs hs i x.
Proof. intros H. destruct x as [h|]; [right; exists h, h; repeat split; assumption|left; assumption]. Qed.
Lemma keeps_app hs i x y : nth_error hs i = Some x -> keeps hs (hs ++ [y]) i x.
Proof.
  intros H. assert (L : (i < length hs)%nat) by (apply nth_error_Some; congruence).
  unfold keeps. rewrite nth_error_app1 by exact L. apply keeps_same. exact H.
Qed.

Lemma exec_old st s s' v i x : exec st s = Some (s', v) -> nth_error (handles s) i = Some x ->
  keeps (handles s) (handles s') i x.
Proof.
  intros H Hx. destruct st as [t|j|j|j|j|t|t|t|t]; cbn [exec] in H.
  - inversion H; subst. cbn. apply keeps_app, Hx.
  - destruct (get_handle s j) as [h|]; [|discriminate]. inversion H; subst. cbn. apply keeps_app, Hx.
  - destruct (get_handle s j) as [h|] eqn:G; [|discriminate]. apply get_handle_Some in G.
    destruct (h_kind h); [|discriminate]. inversion H; subst. cbn. unfold keeps.
    rewrite nth_error_set_nth. destruct (Nat.eqb_spec j i).
    + subst. rewrite G. right. rewrite G in Hx. inversion Hx; subst.
      eexists _, _. repeat split; reflexivity.
    + apply keeps_same, Hx.
  - destruct (get_handle s j) as [h|]; [|discriminate]. inversion H; subst. cbn. apply keeps_same, Hx.
  - destruct (get_handle s j) as [h|] eqn:G; [|discriminate]. apply get_handle_Some in G.
    inversion H; subst. rewrite dec_rc_handles. cbn. unfold keeps. rewrite nth_error_set_nth.
    destruct (Nat.eqb_spec j i); [subst; rewrite G; left; reflexivity|apply keeps_same, Hx].
  - destruct (mutex s); [discriminate|]. destruct (upd s t); try discriminate. inversion H; subst. cbn. apply keeps_same, Hx.
  - destruct (upd s t); try discriminate; inversion H; subst; cbn; apply keeps_same, Hx.
  - destruct (upd s t); try discriminate; inversion H; subst; rewrite dec_rc_handles; cbn; apply keeps_same, Hx.
  - destruct (upd s t); try discriminate; inversion H; subst; cbn; apply keeps_same, Hx.
Qed.

Lemma nth_error_snoc_new {A} (l : list A) i y z : nth_error l i = None -> nth_error (l ++ [y]) i = Some z -> z = y.
Proof.
  intros N S. apply nth_error_None in N.
  rewrite nth_error_app2 in S by exact N. destruct (i - length l)%nat as [|k]; cbn in S; [congruence|destruct k; discriminate].
Qed.

Lemma exec_new st s s' v i h : exec st s = Some (s', v) -> nth_error (handles s) i = None ->
  nth_error (handles s') i = Some (Some h) ->
  (h_map h = cell s /\ exists t, st = Load t) \/
  (exists j h0, nth_error (handles s) j = Some (Some h0) /\ h_map h0 = h_map h).
Proof.
  intros H N S. destruct st as [t|j|j|j|j|t|t|t|t]; cbn [exec] in H.
  - inversion H; subst. cbn in S. apply (nth_error_snoc_new _ _ _ _ N) in S. inversion S; subst. left. split; [reflexivity|eauto].
  - destruct (get_handle s j) as [h0|] eqn:G; [|discriminate]. apply get_handle_Some in G. inversion H; subst. cbn in S.
    apply (nth_error_snoc_new _ _ _ _ N) in S. inversion S; subst. right. exists j, h0. split; [exact G|reflexivity].
  - destruct (get_handle s j) as [h0|] eqn:G; [|discriminate]. apply get_handle_Some in G.
    destruct (h_kind h0); [|discriminate]. inversion H; subst. cbn in S. rewrite nth_error_set_nth in S.
    destruct (Nat.eqb_spec j i); [subst; congruence|congruence].
  - destruct (get_handle s j) as [h0|]; [|discriminate]. inversion H; subst. cbn in S. congruence.
  - destruct (get_handle s j) as [h0|] eqn:G; [|discriminate]. apply get_handle_Some in G.
    inversion H; subst. rewrite dec_rc_handles in S. cbn in S. rewrite nth_error_set_nth in S.
    destruct (Nat.eqb_spec j i); [subst; congruence|congruence].
  - destruct (mutex s); [discriminate|]. destruct (upd s t); try discriminate. inversion H; subst. cbn in S. congruence.
  - destruct (upd s t); try discriminate; inversion H; subst; cbn in S; congruence.
  - destruct (upd s t); try discriminate; inversion H; subst; rewrite dec_rc_handles in S; cbn in S; congruence.
  - destruct (upd s t); try discriminate; inversion H; subst; cbn in S; congruence.
Qed.

Lemma exec_cell st s s' v : exec st s = Some (s', v) -> is_store st = false -> cell s' = cell s.
Proof.
  intros H NS. destruct st as [t|j|j|j|j|t|t|t|t]; cbn [exec] in H; try discriminate NS.
  - inversion H; reflexivity.
  - destruct (get_handle s j); [|discriminate]. inversion H; reflexivity.
  - destruct (get_handle s j) as [h0|]; [|discriminate]. destruct (h_kind h0); [|discriminate]. inversion H; reflexivity.
  - destruct (get_handle s j); [|discriminate]. inversion H; reflexivity.
  - destruct (get_handle s j); [|discriminate]. inversion H; subst. rewrite dec_rc_cell. reflexivity.
  - destruct (mutex s); [discriminate|]. destruct (upd s t); try discriminate. inversion H; reflexivity.
  - destruct (upd s t); try discriminate; inversion H; reflexivity.
  - destruct (upd s t); try discriminate; inversion H; reflexivity.
Qed.

Lemma run_snoc l st : run (l ++ [st]) = step_or_skip st (run l).
Proof. unfold run. rewrite run_from_app. reflexivity. Qed.

(* ------------------------------------------------------------------ the property theorems *)
Lemma snapshot_was_current_lemma : forall l i h,
  nth_error (handles (run l)) i = Some (Some h) ->
  exists l1 l2, l = l1 ++ l2 /\ cell (run l1) = h_map h.
Proof.
  intros l. induction l as [|st l IH] using rev_ind; intros i h H.
  - destruct i; discriminate.
  - rewrite run_snoc in H. unfold step_or_skip in H.
    assert (Hold : forall j h0, nth_error (handles (run l)) j = Some (Some h0) ->
              exists l1 l2, l ++ [st] = l1 ++ l2 /\ cell (run l1) = h_map h0).
    { intros j h0 Hj. destruct (IH j h0 Hj) as (l1 & l2 & E & C). exists l1, (l2 ++ [st]).
      split; [rewrite E, app_assoc; reflexivity|exact C]. }
    destruct (exec st (run l)) as [[s' v]|] eqn:E; [|eapply Hold; exact H].
    destruct (nth_error (handles (run l)) i) as [x|] eqn:Hx.
    + destruct (exec_old _ _ _ _ _ _ E Hx) as [K|(h0 & h' & -> & K & M)]; [congruence|].
      rewrite K in H. inversion H; subst. rewrite M. eapply Hold. exact Hx.
    + destruct (exec_new _ _ _ _ _ _ E Hx H) as [[C _]|(j & h0 & Hj & M)].
      * exists l, [st]. split; [reflexivity|symmetry; exact C].
      * rewrite <- M. eapply Hold. exact Hj.
Qed.

Lemma load_shows_cell_lemma : forall l t, exists s',
  exec (Load t) (run l) = Some (s', cell (run l)) /\
  nth_error (handles s') (length (handles (run l))) = Some (Some {| h_kind := KGuard; h_map := cell (run l) |}).
Proof.
  intros l t. eexists. split; [reflexivity|]. cbn. rewrite nth_error_app2 by lia. rewrite Nat.sub_diag. reflexivity.
Qed.

Lemma stable_from l : forall s i x, nth_error (handles s) i = Some x -> keeps (handles s) (handles (run_from l s)) i x.
Proof.
  induction l as [|st l IH]; intros s i x H; cbn [run_from]; [apply keeps_same, H|].
  unfold step_or_skip. destruct (exec st s) as [[s' v]|] eqn:E; [|apply IH, H].
  destruct (exec_old _ _ _ _ _ _ E H) as [K|(h & h' & -> & K & M)].
  - destruct (IH s' i None K) as [K'|(h & h' & A & _)]; [left; exact K'|discriminate].
  - destruct (IH s' i (Some h') K) as [K'|(h1 & h2 & A & K' & M')]; [left; exact K'|].
    inversion A; subst. right. exists h, h2. repeat split; [exact K'|congruence].
Qed.

Lemma snapshot_stable_lemma : forall l1 l2 i h,
  nth_error (handles (run l1)) i = Some (Some h) ->
  nth_error (handles (run (l1 ++ l2))) i = Some None \/
  exists h', nth_error (handles (run (l1 ++ l2))) i = Some (Some h') /\ h_map h' = h_map h.
Proof.
  intros l1 l2 i h H. unfold run. rewrite run_from_app.
  destruct (stable_from l2 _ i _ H) as [K|(h0 & h' & A & K & M)]; [left; exact K|].
  inversion A; subst. right. exists h'. split; assumption.
Qed.

Lemma dropped_stays_dropped_lemma : forall l1 l2 i,
  nth_error (handles (run l1)) i = Some None -> nth_error (handles (run (l1 ++ l2))) i = Some None.
Proof.
  intros l1 l2 i H. unfold run. rewrite run_from_app.
  destruct (stable_from l2 _ i _ H) as [K|(h0 & h' & A & _)]; [exact K|discriminate].
Qed.

Lemma alive_while_referenced_lemma : forall l,
  bad (run l) = false /\ freed (run l) (cell (run l)) = false /\
  forall i h, nth_error (handles (run l)) i = Some (Some h) ->
    freed (run l) (h_map h) = false /\ (0 < rc (run l) (h_map h))%nat.
Proof.
  intros l. pose proof (run_Inv l) as HI. split; [apply HI|]. split.
  - destruct (freed (run l) (cell (run l))) eqn:F; [|reflexivity].
    apply (I_freed _ HI) in F; [|apply HI]. rewrite (I_rc _ HI), N.eqb_refl in F. lia.
  - intros i h H. pose proof (handle_rc_pos _ i h HI H) as P. split; [|exact P].
    destruct (freed (run l) (h_map h)) eqn:F; [|reflexivity].
    apply (I_freed _ HI) in F; [lia|eapply handle_lt; eassumption].
Qed.

Lemma rc_counts_lemma : forall l g,
  rc (run l) g = (refs g (handles (run l)) + (if N.eqb g (cell (run l)) then 1 else 0))%nat.
Proof. intros l g. apply (I_rc _ (run_Inv l)). Qed.

Lemma freed_when_unreferenced_lemma : forall l g,
  g < nmaps (run l) -> g <> cell (run l) ->
  (forall i h, nth_error (handles (run l)) i = Some (Some h) -> h_map h <> g) ->
  freed (run l) g = true.
Proof.
  intros l g Hg Hc Hn. pose proof (run_Inv l) as HI. apply (I_freed _ HI); [exact Hg|].
  rewrite (I_rc _ HI). destruct (N.eqb_spec g (cell (run l))); [contradiction|].
  destruct (refs g (handles (run l))) eqn:R; [reflexivity|exfalso].
  assert (P : (0 < refs g (handles (run l)))%nat) by lia.
  apply refs_pos_iff in P. destruct P as (i & h & Hi & Hh). exact (Hn i h Hi Hh).
Qed.

Lemma freed_iff_unreachable_lemma : forall l g, g < nmaps (run l) ->
  (freed (run l) g = false <->
   g = cell (run l) \/ exists i h, nth_error (handles (run l)) i = Some (Some h) /\ h_map h = g).
Proof.
  intros l g Hg. pose proof (run_Inv l) as HI. split.
  - intros F. destruct (N.eq_dec g (cell (run l))) as [E|E]; [left; exact E|right].
    apply refs_pos_iff. destruct (refs g (handles (run l))) eqn:R; [|lia].
    assert (freed (run l) g = true); [|congruence].
    apply (I_freed _ HI); [exact Hg|]. rewrite (I_rc _ HI), R. destruct (N.eqb_spec g (cell (run l))); [contradiction|reflexivity].
  - intros [E|P].
    + subst. apply (alive_while_referenced_lemma l).
    + destruct P as (i & h & Hi & <-). destruct (alive_while_referenced_lemma l) as (_ & _ & A).
      apply (A i h Hi).
Qed.

Lemma cell_no_store l : forall s, forallb (fun st => negb (is_store st)) l = true -> cell (run_from l s) = cell s.
Proof.
  induction l as [|st l IH]; intros s H; cbn [run_from]; [reflexivity|].
  cbn [forallb] in H. apply andb_true_iff in H. destruct H as [H1 H2]. rewrite IH by exact H2.
  unfold step_or_skip. destruct (exec st s) as [[s' v]|] eqn:E; [|reflexivity].
  eapply exec_cell; [exact E|]. destruct (is_store st); [discriminate|reflexivity].
Qed.

Lemma after_replace_new_lemma : forall l t s1 v, exec (Store t) (run l) = Some (s1, v) ->
  v = nmaps (run l) /\ cell s1 = v /\
  (forall i h, nth_error (handles (run l)) i = Some (Some h) -> h_map h <> v) /\
  forall l2, forallb (fun st => negb (is_store st)) l2 = true ->
    forall t', exists s2, exec (Load t') (run_from l2 s1) = Some (s2, v).
Proof.
  intros l t s1 v H. pose proof (run_Inv l) as HI.
  assert (E : v = nmaps (run l) /\ cell s1 = v).
  { cbn [exec] in H. destruct (upd (run l) t); try discriminate; inversion H; subst; rewrite dec_rc_cell; split; reflexivity. }
  destruct E as [E1 E2]. split; [exact E1|]. split; [exact E2|]. split.
  - intros i h Hi C. pose proof (handle_lt _ i h HI Hi). lia.
  - intros l2 NS t'. eexists. cbn [exec]. rewrite (cell_no_store l2 s1 NS), E2. reflexivity.
Qed.

Lemma no_lost_replace_lemma : forall l, chain (log (run l)) (cell (run l)).
Proof. intros l. apply (I_chain _ (run_Inv l)). Qed.

Lemma mutual_exclusion_lemma : forall l,
  (mutex (run l) = true <-> exists t, upd (run l) t <> UIdle) /\
  (forall t1 t2, upd (run l) t1 <> UIdle -> upd (run l) t2 <> UIdle -> t1 = t2).
Proof. intros l. pose proof (run_Inv l) as HI. split; apply HI. Qed.

(* a Store is only enabled for the thread that holds the mutex, and the map it derived from (if any)
   is still the current one: no update is computed from a stale map *)
Lemma store_under_lock_lemma : forall l t s1 v, exec (Store t) (run l) = Some (s1, v) ->
  mutex (run l) = true /\ mutex s1 = true /\ (forall b, upd (run l) t = UDerived b -> b = cell (run l)) /\
  (forall t', t' <> t -> upd (run l) t' = UIdle).
Proof.
  intros l t s1 v H. pose proof (run_Inv l) as HI.
  assert (Hn : upd (run l) t <> UIdle /\ mutex s1 = mutex (run l)).
  { cbn [exec] in H. destruct (upd (run l) t); try discriminate; inversion H; subst;
      (split; [discriminate|]); unfold dec_rc; cbn; destruct (rc (run l) (cell (run l))) as [|[|n]];
      try reflexivity; unfold upd_fun; cbn;
      destruct (cell (run l) =? nmaps (run l)); try reflexivity;
      destruct (rc (run l) (cell (run l))) as [|[|k]]; reflexivity. }
  destruct Hn as [Hn Hm].
  assert (M : mutex (run l) = true) by (apply (I_mutex _ HI); exists t; exact Hn).
  split; [exact M|]. split; [congruence|]. split; [apply (I_derived _ HI)|].
  intros t' Hne. destruct (upd (run l) t') eqn:U; try reflexivity;
    (exfalso; apply Hne; apply (I_excl _ HI); [rewrite U; discriminate|exact Hn]).
Qed.

(* generation count: if every store was derived (lock; read current; store), the tag of the current map
   is the number of stores - on EVERY schedule *)
Definition G (s : state) : Prop := all_derived (log s) = true -> gen s (cell s) = N.of_nat (length (log s)).
Lemma dec_rc_gen_log g s : gen (dec_rc g s) = gen s /\ log (dec_rc g s) = log s.
Proof. unfold dec_rc. destruct (rc s g) as [|[|n]]; split; reflexivity. Qed.
Lemma exec_G st s s' v : Inv s -> G s -> exec st s = Some (s', v) -> G s'.
Proof.
  intros HI HG H. unfold G in *. destruct st as [t|j|j|j|j|t|t|t|t]; cbn [exec] in H.
  - inversion H; subst. exact HG.
  - destruct (get_handle s j); [|discriminate]. inversion H; subst. exact HG.
  - destruct (get_handle s j) as [h0|]; [|discriminate]. destruct (h_kind h0); [|discriminate]. inversion H; subst. exact HG.
  - destruct (get_handle s j); [|discriminate]. inversion H; subst. exact HG.
  - destruct (get_handle s j); [|discriminate]. inversion H; subst.
    destruct (dec_rc_gen_log (h_map h) (set_handles s (set_nth (handles s) j None))) as [A B].
    rewrite A, B, dec_rc_cell. exact HG.
  - destruct (mutex s); [discriminate|]. destruct (upd s t); try discriminate. inversion H; subst. exact HG.
  - destruct (upd s t); try discriminate; inversion H; subst; exact HG.
  - destruct (upd s t) eqn:U; try discriminate; inversion H; subst;
      match goal with |- context [dec_rc ?g ?x] => destruct (dec_rc_gen_log g x) as [A B]; rewrite A, B, dec_rc_cell end;
      cbn [gen log cell all_derived length]; [discriminate|].
    intros D. unfold upd_fun. rewrite N.eqb_refl.
    rewrite (I_derived s HI t base U). rewrite (HG D). lia.
  - destruct (upd s t); try discriminate; inversion H; subst; exact HG.
Qed.
Lemma run_from_G l : forall s, Inv s -> G s -> G (run_from l s).
Proof.
  induction l as [|st l IH]; intros s HI HG; cbn [run_from]; [exact HG|].
  apply IH; [apply step_Inv, HI|]. unfold step_or_skip.
  destruct (exec st s) as [[s' v]|] eqn:E; [eapply exec_G; eassumption|exact HG].
Qed.
Lemma no_lost_replace_count_lemma : forall l, all_derived (log (run l)) = true ->
  gen (run l) (cell (run l)) = N.of_nat (length (log (run l))).
Proof. intros l. apply run_from_G; [apply Inv_init|]. intros _. reflexivity. Qed.

(* ------------------------------------------------------------------ the model satisfies the checker *)
Definition abs_h (o : option handle) : option (bool * N) :=
  match o with
  | Some h => Some (match h_kind h with KArc => true | KGuard => false end, h_map h)
  | None => None end.

Record Sim (s : state) (a : sstate) : Prop := {
  S_inv : Inv s;
  S_cur : s_cur a = cell s;
  S_n : s_n a = nmaps s;
  S_hs : s_hs a = map abs_h (handles s);
  S_nostored : forall t, upd s t <> UStored;
  S_holder : match s_holder a with Some t => upd s t <> UIdle | None => forall t, upd s t = UIdle end
}.

Lemma mask_upto_ext n p q : (forall g, g < N.of_nat n -> p g = q g) -> mask_upto n p = mask_upto n q.
Proof.
  induction n as [|n IH]; intros H; cbn [mask_upto]; [reflexivity|].
  rewrite IH by (intros g Hg; apply H; lia). rewrite (H (N.of_nat n)) by lia. reflexivity.
Qed.

Lemma shown_refs hs g : shown (map abs_h hs) g = negb (Nat.eqb (refs g hs) 0).
Proof.
  induction hs as [|[h|] hs IH]; cbn [map abs_h shown existsb refs]; [reflexivity| |exact IH].
  fold (shown (map abs_h hs) g). rewrite IH. rewrite (N.eqb_sym (h_map h) g).
  destruct (g =? h_map h); cbn; [reflexivity|reflexivity].
Qed.

Lemma sim_live s a : Sim s a -> mask_live s = expected_live a.
Proof.
  intros HS. unfold mask_live, expected_live. rewrite (S_n s a HS). apply mask_upto_ext.
  intros g Hg. rewrite N2Nat.id in Hg. unfold reachable_map. rewrite (S_cur s a HS), (S_hs s a HS), shown_refs.
  pose proof (S_inv s a HS) as HI. pose proof (I_freed s HI g Hg) as F. rewrite (I_rc s HI) in F.
  destruct (N.eqb_spec g (cell s)); cbn [orb].
  - destruct (freed s g); [|reflexivity]. destruct F as [F _]. specialize (F eq_refl). lia.
  - destruct (Nat.eqb_spec (refs g (handles s)) 0) as [Z|Z]; cbn [negb].
    + destruct (freed s g); [reflexivity|]. destruct F as [_ F]. rewrite Z in F. specialize (F eq_refl). discriminate.
    + destruct (freed s g); [|reflexivity]. destruct F as [F _]. specialize (F eq_refl). lia.
Qed.

Lemma sim_get s a i : Sim s a -> s_get a i = abs_h (get_handle s i).
Proof.
  intros HS. unfold s_get, get_handle. rewrite (S_hs s a HS), nth_error_map.
  destruct (nth_error (handles s) i) as [[h|]|]; reflexivity.
Qed.

Lemma sim_holds s a t : Sim s a -> holds a t = true <-> upd s t <> UIdle.
Proof.
  intros HS. unfold holds. pose proof (S_holder s a HS) as H. destruct (s_holder a) as [t0|].
  - destruct (N.eqb_spec t0 t); [subst; split; [intros _; exact H|reflexivity]|].
    split; [discriminate|]. intros U. exfalso. apply n. apply (I_excl s (S_inv s a HS)); assumption.
  - split; [discriminate|]. intros U. exfalso. apply U, H.
Qed.

Lemma spec_step_live a o b a' s' : spec_op a o b = Some a' -> Sim s' a' -> w_live b = mask_live s' ->
  spec_step a o b = Some a'.
Proof.
  intros H HS L. unfold spec_step. rewrite H, L, (sim_live s' a' HS), N.eqb_refl. reflexivity.
Qed.

Lemma map_set_nth {A B} (f : A -> B) l i v : map f (set_nth l i v) = sset_nth (map f l) i (f v).
Proof. revert i. induction l as [|x l IH]; intros [|i]; cbn; try reflexivity. rewrite IH. reflexivity. Qed.

Definition mstep (o : wop) (s : state) : state * wobs :=
  match wexec o s with
  | Some (s', v) => (s', {| w_st := 1; w_val := v; w_live := mask_live s' |})
  | None => (s, {| w_st := 0; w_val := 0; w_live := mask_live s |})
  end.

Lemma sim_unchanged s a a' : Sim s a -> s_cur a' = s_cur a -> s_n a' = s_n a -> s_hs a' = s_hs a ->
  s_holder a' = s_holder a -> Sim s a'.
Proof. intros HS A B C D. destruct HS. constructor; try congruence. rewrite D. assumption. Qed.

Lemma refused_ok s a o : Sim s a -> wexec o s = None ->
  spec_op a o {| w_st := 0; w_val := 0; w_live := mask_live s |} = Some a ->
  exists a', spec_step a o (snd (mstep o s)) = Some a' /\ Sim (fst (mstep o s)) a'.
Proof.
  intros HS E H. unfold mstep. rewrite E. cbn [fst snd]. exists a. split; [|exact HS].
  eapply spec_step_live; [exact H|exact HS|reflexivity].
Qed.

Ltac sim_fields HS :=
  first [exact (S_cur _ _ HS) | exact (S_n _ _ HS) | exact (S_nostored _ _ HS) | exact (S_holder _ _ HS) | exact (S_hs _ _ HS)].

Lemma step_sim o s a : Sim s a ->
  exists a', spec_step a o (snd (mstep o s)) = Some a' /\ Sim (fst (mstep o s)) a'.
Proof.
  intros HS. pose proof (S_inv s a HS) as HI.
  destruct o as [t|i|i|i|i|t|t|t|t|].
  - (* Load *)
    assert (E : exec (Load t) s = Some (push_handle {| h_kind := KGuard; h_map := cell s |} (inc_rc (cell s) s), cell s)) by reflexivity.
    pose proof (exec_Inv _ _ _ _ HI E) as HI'.
    unfold mstep. cbn [wexec]. rewrite E. cbn [fst snd].
    assert (HS' : Sim (push_handle {| h_kind := KGuard; h_map := cell s |} (inc_rc (cell s) s))
                      (with_hs a (s_hs a ++ [Some (false, s_cur a)]))).
    { constructor; cbn; try (sim_fields HS); try exact HI'. rewrite (S_hs s a HS), map_app, (S_cur s a HS). reflexivity. }
    eexists. split; [|exact HS'].
    eapply spec_step_live; [|exact HS'|reflexivity].
    cbn [spec_op w_st w_val]. rewrite (S_cur s a HS), !N.eqb_refl. reflexivity.
  - (* Clone *)
    destruct (get_handle s i) as [h|] eqn:G.
    + assert (E : exec (CloneH i) s = Some (push_handle h (inc_rc (h_map h) s), h_map h)) by (cbn [exec]; rewrite G; reflexivity).
      pose proof (exec_Inv _ _ _ _ HI E) as HI'.
      unfold mstep. cbn [wexec]. rewrite E. cbn [fst snd].
      assert (HS' : Sim (push_handle h (inc_rc (h_map h) s)) (with_hs a (s_hs a ++ [abs_h (Some h)]))).
      { constructor; cbn; try (sim_fields HS); try exact HI'. rewrite (S_hs s a HS), map_app. reflexivity. }
      eexists. split; [|exact HS'].
      eapply spec_step_live; [|exact HS'|reflexivity].
      cbn [spec_op w_st w_val]. rewrite (sim_get s a i HS), G. cbn [abs_h]. rewrite !N.eqb_refl. reflexivity.
    + apply refused_ok; [exact HS|cbn [wexec exec]; rewrite G; reflexivity|].
      cbn [spec_op w_st]. rewrite (sim_get s a i HS), G. reflexivity.
  - (* IntoInner *)
    destruct (get_handle s i) as [h|] eqn:G.
    + destruct (h_kind h) eqn:K.
      * assert (E : exec (IntoInner i) s = Some (set_handles s (set_nth (handles s) i (Some {| h_kind := KArc; h_map := h_map h |})), h_map h))
          by (cbn [exec]; rewrite G, K; reflexivity).
        pose proof (exec_Inv _ _ _ _ HI E) as HI'.
        unfold mstep. cbn [wexec]. rewrite E. cbn [fst snd].
        assert (HS' : Sim (set_handles s (set_nth (handles s) i (Some {| h_kind := KArc; h_map := h_map h |})))
                          (with_hs a (sset_nth (s_hs a) i (Some (true, h_map h))))).
        { constructor; cbn; try (sim_fields HS); try exact HI'. rewrite (S_hs s a HS), map_set_nth. reflexivity. }
        eexists. split; [|exact HS'].
        eapply spec_step_live; [|exact HS'|reflexivity].
        cbn [spec_op w_st w_val]. rewrite (sim_get s a i HS), G. cbn [abs_h]. rewrite K, !N.eqb_refl. reflexivity.
      * apply refused_ok; [exact HS|cbn [wexec exec]; rewrite G, K; reflexivity|].
        cbn [spec_op w_st]. rewrite (sim_get s a i HS), G. cbn [abs_h]. rewrite K. reflexivity.
    + apply refused_ok; [exact HS|cbn [wexec exec]; rewrite G; reflexivity|].
      cbn [spec_op w_st]. rewrite (sim_get s a i HS), G. reflexivity.
  - (* Use *)
    destruct (get_handle s i) as [h|] eqn:G.
    + assert (E : exec (Use i) s = Some (set_bad s (bad s || freed s (h_map h)), h_map h)) by (cbn [exec]; rewrite G; reflexivity).
      pose proof (exec_Inv _ _ _ _ HI E) as HI'.
      unfold mstep. cbn [wexec]. rewrite E. cbn [fst snd].
      assert (HS' : Sim (set_bad s (bad s || freed s (h_map h))) a).
      { constructor; cbn; try (sim_fields HS); exact HI'. }
      eexists. split; [|exact HS'].
      eapply spec_step_live; [|exact HS'|reflexivity].
      cbn [spec_op w_st w_val]. rewrite (sim_get s a i HS), G. cbn [abs_h]. rewrite !N.eqb_refl. reflexivity.
    + apply refused_ok; [exact HS|cbn [wexec exec]; rewrite G; reflexivity|].
      cbn [spec_op w_st]. rewrite (sim_get s a i HS), G. reflexivity.
  - (* Drop *)
    destruct (get_handle s i) as [h|] eqn:G.
    + assert (E : exec (DropH i) s = Some (dec_rc (h_map h) (set_handles s (set_nth (handles s) i None)), 0)) by (cbn [exec]; rewrite G; reflexivity).
      pose proof (exec_Inv _ _ _ _ HI E) as HI'.
      unfold mstep. cbn [wexec]. rewrite E. cbn [fst snd].
      pose proof (get_handle_Some _ _ _ G) as Gn.
      pose proof (handle_rc_pos s i h HI Gn) as P.
      destruct (rc s (h_map h)) as [|n] eqn:R; [lia|].
      destruct (dec_rc_fields (h_map h) (set_handles s (set_nth (handles s) i None)) n R)
        as (E1 & E2 & E3 & E4 & E5 & E6 & E7 & E8 & E9 & E10).
      assert (HS' : Sim (dec_rc (h_map h) (set_handles s (set_nth (handles s) i None))) (with_hs a (sset_nth (s_hs a) i None))).
      { constructor; rewrite ?E3, ?E5, ?E6, ?E7; cbn; try (sim_fields HS); try exact HI'.
        rewrite (S_hs s a HS), map_set_nth. reflexivity. }
      eexists. split; [|exact HS'].
      eapply spec_step_live; [|exact HS'|reflexivity].
      cbn [spec_op w_st w_val]. rewrite (sim_get s a i HS), G. cbn [abs_h]. rewrite !N.eqb_refl. reflexivity.
    + apply refused_ok; [exact HS|cbn [wexec exec]; rewrite G; reflexivity|].
      cbn [spec_op w_st]. rewrite (sim_get s a i HS), G. reflexivity.
  - (* Lock *)
    pose proof (S_holder s a HS) as Hh. destruct (s_holder a) as [t0|] eqn:Ho.
    + apply refused_ok; [exact HS| |cbn [spec_op w_st]; rewrite Ho; reflexivity].
      cbn [wexec exec]. assert (M : mutex s = true) by (apply (I_mutex s HI); exists t0; exact Hh). rewrite M. reflexivity.
    + assert (M : mutex s = false).
      { destruct (mutex s) eqn:M; [|reflexivity]. apply (I_mutex s HI) in M. destruct M as [t' Ht']. exfalso. apply Ht', Hh. }
      assert (E : exec (Lock t) s = Some (set_lock s true (upd_fun (upd s) t ULocked), 0)) by (cbn [exec]; rewrite M, (Hh t); reflexivity).
      pose proof (exec_Inv _ _ _ _ HI E) as HI'.
      unfold mstep. cbn [wexec]. rewrite E. cbn [fst snd].
      assert (HS' : Sim (set_lock s true (upd_fun (upd s) t ULocked)) (with_holder a (Some t))).
      { constructor; cbn; try (sim_fields HS); try exact HI'; unfold upd_fun.
        - intros t'. destruct (t' =? t); [discriminate|exact (S_nostored _ _ HS t')].
        - rewrite N.eqb_refl. discriminate. }
      eexists. split; [|exact HS'].
      eapply spec_step_live; [|exact HS'|reflexivity].
      cbn [spec_op w_st]. rewrite Ho. reflexivity.
  - (* ReadCur *)
    destruct (holds a t) eqn:Hd.
    + pose proof (proj1 (sim_holds s a t HS) Hd) as U. pose proof (S_nostored s a HS t) as NS.
      assert (E : exec (ReadCur t) s = Some (set_lock s (mutex s) (upd_fun (upd s) t (UDerived (cell s))), cell s))
        by (cbn [exec]; destruct (upd s t); try reflexivity; contradiction).
      pose proof (exec_Inv _ _ _ _ HI E) as HI'.
      unfold mstep. cbn [wexec]. rewrite E. cbn [fst snd].
      assert (HS' : Sim (set_lock s (mutex s) (upd_fun (upd s) t (UDerived (cell s)))) a).
      { constructor; cbn; try (sim_fields HS); try exact HI'; unfold upd_fun.
        - intros t'. destruct (t' =? t); [discriminate|exact (S_nostored _ _ HS t')].
        - pose proof (S_holder s a HS) as Hh. destruct (s_holder a) as [t0|].
          + destruct (t0 =? t); [discriminate|exact Hh].
          + exfalso. apply U, Hh. }
      eexists. split; [|exact HS'].
      eapply spec_step_live; [|exact HS'|reflexivity].
      cbn [spec_op w_st w_val]. rewrite Hd, (S_cur s a HS), !N.eqb_refl. reflexivity.
    + assert (U : upd s t = UIdle).
      { destruct (upd s t) eqn:U; try reflexivity;
        (assert (holds a t = true) by (apply (sim_holds s a t HS); rewrite U; discriminate); congruence). }
      apply refused_ok; [exact HS|cbn [wexec exec]; rewrite U; reflexivity|].
      cbn [spec_op w_st]. rewrite Hd. reflexivity.
  - (* Replace *)
    destruct (holds a t) eqn:Hd.
    + pose proof (proj1 (sim_holds s a t HS) Hd) as U. pose proof (S_nostored s a HS t) as NS.
      assert (E : exists s1, exec (Store t) s = Some (s1, nmaps s)).
      { cbn [exec]. destruct (upd s t); try contradiction; eexists; reflexivity. }
      destruct E as [s1 E].
      pose proof (exec_Inv _ _ _ _ HI E) as HI1.
      assert (F : upd s1 = upd_fun (upd s) t UStored /\ cell s1 = nmaps s /\ nmaps s1 = nmaps s + 1 /\ handles s1 = handles s).
      { cbn [exec] in E. destruct (upd s t); try contradiction; inversion E; subst;
          rewrite dec_rc_cell, dec_rc_handles; unfold dec_rc; cbn;
          match goal with |- context [match ?x with O => _ | S _ => _ end] => destruct x as [|[|k]] end; cbn; repeat split; reflexivity. }
      destruct F as (F1 & F2 & F3 & F4).
      assert (E2 : exec (Unlock t) s1 = Some (set_lock s1 false (upd_fun (upd s1) t UIdle), 0)).
      { cbn [exec]. rewrite F1. unfold upd_fun. rewrite N.eqb_refl. reflexivity. }
      pose proof (exec_Inv _ _ _ _ HI1 E2) as HI2.
      unfold mstep. cbn [wexec]. rewrite E, E2. cbn [fst snd].
      assert (Hidle : forall t', t' <> t -> upd s t' = UIdle).
      { intros t' Hne. destruct (upd s t') eqn:U'; try reflexivity;
        (exfalso; apply Hne; apply (I_excl s HI); [rewrite U'; discriminate|exact U]). }
      assert (HS' : Sim (set_lock s1 false (upd_fun (upd s1) t UIdle))
                        {| s_cur := s_n a; s_n := s_n a + 1; s_hs := s_hs a; s_holder := None |}).
      { constructor; cbn; try exact HI2; rewrite ?F1, ?F2, ?F3, ?F4; try (rewrite (S_n s a HS); reflexivity); try (sim_fields HS); unfold upd_fun.
        - intros t'. destruct (t' =? t); [discriminate|exact (S_nostored _ _ HS t')].
        - intros t'. destruct (N.eqb_spec t' t); [reflexivity|apply Hidle; assumption]. }
      eexists. split; [|exact HS'].
      eapply spec_step_live; [|exact HS'|reflexivity].
      cbn [spec_op w_st w_val]. rewrite Hd, (S_n s a HS), !N.eqb_refl. reflexivity.
    + assert (U : upd s t = UIdle).
      { destruct (upd s t) eqn:U; try reflexivity;
        (assert (holds a t = true) by (apply (sim_holds s a t HS); rewrite U; discriminate); congruence). }
      apply refused_ok; [exact HS|cbn [wexec exec]; rewrite U; reflexivity|].
      cbn [spec_op w_st]. rewrite Hd. reflexivity.
  - (* Unlock *)
    destruct (holds a t) eqn:Hd.
    + pose proof (proj1 (sim_holds s a t HS) Hd) as U.
      assert (E : exec (Unlock t) s = Some (set_lock s false (upd_fun (upd s) t UIdle), 0))
        by (cbn [exec]; destruct (upd s t); try reflexivity; contradiction).
      pose proof (exec_Inv _ _ _ _ HI E) as HI'.
      unfold mstep. cbn [wexec]. rewrite E. cbn [fst snd].
      assert (Hidle : forall t', t' <> t -> upd s t' = UIdle).
      { intros t' Hne. destruct (upd s t') eqn:U'; try reflexivity;
        (exfalso; apply Hne; apply (I_excl s HI); [rewrite U'; discriminate|exact U]). }
      assert (HS' : Sim (set_lock s false (upd_fun (upd s) t UIdle)) (with_holder a None)).
      { constructor; cbn; try (sim_fields HS); try exact HI'; unfold upd_fun.
        - intros t'. destruct (t' =? t); [discriminate|exact (S_nostored _ _ HS t')].
        - intros t'. destruct (N.eqb_spec t' t); [reflexivity|apply Hidle; assumption]. }
      eexists. split; [|exact HS'].
      eapply spec_step_live; [|exact HS'|reflexivity].
      cbn [spec_op w_st]. rewrite Hd. reflexivity.
    + assert (U : upd s t = UIdle).
      { destruct (upd s t) eqn:U; try reflexivity;
        (assert (holds a t = true) by (apply (sim_holds s a t HS); rewrite U; discriminate); congruence). }
      apply refused_ok; [exact HS|cbn [wexec exec]; rewrite U; reflexivity|].
      cbn [spec_op w_st]. rewrite Hd. reflexivity.
  - (* Nop *)
    apply refused_ok; [exact HS|reflexivity|reflexivity].
Qed.

Lemma run_w_mstep s o r : run_w s (o :: r) = snd (mstep o s) :: run_w (fst (mstep o s)) r.
Proof. cbn [run_w]. unfold mstep. destruct (wexec o s) as [[s' v]|]; reflexivity. Qed.

Lemma ok_from_sim ops : forall s a, Sim s a -> ok_from a ops (run_w s ops) = true.
Proof.
  induction ops as [|o r IH]; intros s a HS; [reflexivity|].
  rewrite run_w_mstep. cbn [ok_from].
  destruct (step_sim o s a HS) as (a' & E & HS'). rewrite E. apply IH. exact HS'.
Qed.

Lemma Sim_init : Sim init sinit.
Proof. constructor; cbn; try reflexivity; [apply Inv_init|discriminate]. Qed.

Lemma C11_model_ok_lemma : forall ops, ok_C11 ops (run_C11 ops) = true.
Proof. intros ops. apply ok_from_sim, Sim_init. Qed.
