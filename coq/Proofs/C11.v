From VM Require Import Prelude.MachInt Prelude.Tok Impl.Rcu Spec.C11 Suite.C11.

Lemma load_shows_cell_lemma : forall l t s' v, exec (Load t) (run l) = Some (s', v) -> v = cell (run l).
Proof. intros l t s' v H. cbn [exec] in H. inversion H. reflexivity. Qed.
