From VM Require Import Prelude.MachInt Prelude.Outcome Prelude.Tok Impl.Volatile Spec.C01 Suite.C01.

(* ================================================================== characterisations *)
Lemma compute_end_offset_Ok len base offset e :
  compute_end_offset len base offset = Ok e <-> e = base + offset /\ base + offset <= len /\ base + offset < W64.
Proof.
  unfold compute_end_offset, compute_offset, checked_add.
  destruct (N.ltb_spec (base + offset) W64) as [H|H].
  - destruct (N.ltb_spec len (base + offset)) as [H1|H1]; split.
    + discriminate. + intros (_ & ? & _); lia.
    + intros E; inversion E; lia. + intros (-> & _); reflexivity.
  - split; [discriminate|]. intros (_ & _ & ?); lia.
Qed.
