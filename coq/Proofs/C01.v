From VM Require Import Prelude.MachInt Prelude.Outcome Prelude.Tok Impl.Volatile Spec.C01 Suite.C01.

Ltac dcmp :=
  repeat match goal with
  | |- context [N.ltb ?a ?b] => destruct (N.ltb_spec a b)
  | |- context [N.leb ?a ?b] => destruct (N.leb_spec a b)
  | |- context [N.eqb ?a ?b] => destruct (N.eqb_spec a b)
  end.

Lemma W64_gt_ISZ : ISZ_MAX < W64.
Proof. rewrite W64_val. reflexivity. Qed.

(* ================================================================== characterisations
   closed forms of the model functions (for C04 C05 C17 C18 C07 as well) *)
Lemma compute_end_offset_Ok len base offset e :
  compute_end_offset len base offset = Ok e <-> e = base + offset /\ base + offset <= len /\ base + offset < W64.
Proof.
  unfold compute_end_offset, compute_offset, checked_add.
  destruct (N.ltb_spec (base + offset) W64) as [H|H].
  - destruct (N.ltb_spec len (base + offset)) as [H1|H1]; split.
    + discriminate. + intros (_ & ? & _); lia.
    + intros E; inversion E; lia. + intros (-> & _); reflexivity.
  - split; [discriminate|]. intros (_ & _ & ?); lia.
Qed.

Lemma compute_end_offset_eq len base offset :
  compute_end_offset len base offset =
  if W64 <=? base + offset then Err (EOverflow base offset)
  else if len <? base + offset then Err (EOutOfBounds (base + offset))
  else Ok (base + offset).
Proof. unfold compute_end_offset, compute_offset, checked_add. dcmp; try reflexivity; lia. Qed.

(* the get_slice every implementor has: bounds test, then pointer addition *)
Definition std_gs (A L off cnt : N) : outcome (vresult vslice) :=
  Val (if W64 <=? off + cnt then Err (EOverflow off cnt)
       else if L <? off + cnt then Err (EOutOfBounds (off + cnt))
       else Ok (VS ((A + off) mod W64) cnt)).

Lemma vs_subslice_eq m s off cnt : vs_subslice m s off cnt = std_gs (vs_addr s) (vs_size s) off cnt.
Proof.
  unfold vs_subslice, std_gs, vs_len. rewrite compute_end_offset_eq. unfold ptr_add.
  dcmp; reflexivity.
Qed.
Lemma vs_get_slice_eq m s off cnt : vs_get_slice m s off cnt = std_gs (vs_addr s) (vs_size s) off cnt.
Proof. apply vs_subslice_eq. Qed.
Lemma mr_get_slice_unix_eq m r off cnt : mr_get_slice_unix m r off cnt = std_gs (rg_addr r) (rg_size r) off cnt.
Proof.
  unfold mr_get_slice_unix, std_gs, mr_len. rewrite compute_end_offset_eq. unfold ptr_add.
  dcmp; reflexivity.
Qed.
Lemma mr_get_slice_xen_eq m r off cnt : mr_get_slice_xen m r off cnt = mr_get_slice_unix m r off cnt.
Proof. reflexivity. Qed.
Lemma mr_get_slice_eq m r off cnt : mr_get_slice m r off cnt = std_gs (rg_addr r) (rg_size r) off cnt.
Proof. apply mr_get_slice_unix_eq. Qed.

Lemma vs_offset_eq m s count :
  vs_offset m s count =
  Val (if W64 <=? vs_addr s + count then Err (EOverflow (vs_addr s) count)
       else if vs_size s <? count then Err (EOutOfBounds (vs_addr s + count))
       else Ok (VS (vs_addr s + count) (vs_size s - count))).
Proof.
  unfold vs_offset, checked_add, checked_sub, ptr_add.
  destruct (N.ltb_spec (vs_addr s + count) W64) as [H|H];
    destruct (N.leb_spec W64 (vs_addr s + count)) as [H1|H1]; try lia; try reflexivity.
  destruct (N.leb_spec count (vs_size s)) as [H2|H2];
    destruct (N.ltb_spec (vs_size s) count) as [H3|H3]; try lia; try reflexivity.
  rewrite N.mod_small by lia. reflexivity.
Qed.

Lemma vs_split_at_eq m s mid :
  vs_split_at m s mid =
  Val (if W64 <=? vs_addr s + mid then Err (EOverflow (vs_addr s) mid)
       else if vs_size s <? mid then Err (EOutOfBounds (vs_addr s + mid))
       else Ok (VS (vs_addr s) mid, VS (vs_addr s + mid) (vs_size s - mid))).
Proof. unfold vs_split_at. rewrite vs_offset_eq. cbn [bind]. dcmp; reflexivity. Qed.

Lemma pow2_land_pred k : N.land (2 ^ k) (2 ^ k - 1) = 0.
Proof.
  replace (2 ^ k - 1) with (N.ones k) by (rewrite N.ones_equiv; lia).
  apply N.bits_inj_0. intros n. rewrite N.land_spec, N.pow2_bits_eqb.
  destruct (N.eqb_spec k n) as [->|Hne]; [|reflexivity].
  rewrite N.ones_spec_high by lia. reflexivity.
Qed.
Lemma land_pow2_pred a k : N.land a (2 ^ k - 1) = a mod 2 ^ k.
Proof.
  replace (2 ^ k - 1) with (N.ones k) by (rewrite N.ones_equiv; lia). apply N.land_ones.
Qed.
Lemma pow2_ge1 k : 1 <= 2 ^ k.
Proof. assert (2 ^ k <> 0) by (apply N.pow_nonzero; lia). lia. Qed.

(* check_alignment, for a power of two: Misaligned exactly when the address is no multiple *)
Lemma vs_check_alignment_eq m s k :
  vs_check_alignment m s (2 ^ k) =
  Val (if vs_addr s mod 2 ^ k =? 0 then Ok tt else Err (EMisaligned (vs_addr s) (2 ^ k))).
Proof.
  unfold vs_check_alignment. pose proof (pow2_ge1 k) as H1.
  rewrite !psub_Val by lia.
  assert (E : (match m with
               | Debug => let* am1 := Val (2 ^ k - 1) in passert 670 (N.land (2 ^ k) am1 =? 0)
               | Release => Val tt end) = Val tt).
  { destruct m; [|reflexivity]. cbn [bind]. rewrite pow2_land_pred. reflexivity. }
  rewrite E. cbn [bind]. rewrite land_pow2_pred.
  destruct (N.eqb_spec (vs_addr s mod 2 ^ k) 0); reflexivity.
Qed.

Lemma va_to_slice_eq m a : va_nelem a * va_esz a < W64 ->
  va_to_slice m a = Val (VS (va_addr a) (va_nelem a * va_esz a)).
Proof. intros H. unfold va_to_slice, va_element_size. rewrite pmul_Val by exact H. reflexivity. Qed.
Lemma va_ptr_guard_eq m a : va_nelem a * va_esz a < W64 ->
  va_ptr_guard m a = Val (PG (va_addr a) (va_nelem a * va_esz a)).
Proof. intros H. unfold va_ptr_guard, va_element_size, va_len. rewrite pmul_Val by exact H. reflexivity. Qed.
Lemma ISZ_MAX_val : ISZ_MAX = 9223372036854775807. Proof. reflexivity. Qed.
Lemma va_ref_at_eq m a i : va_addr a + va_nelem a * va_esz a < W64 -> va_nelem a * va_esz a <= ISZ_MAX ->
  va_ref_at m a i =
  if i <? va_nelem a then Val (VR (va_addr a + va_esz a * i) (va_esz a)) else Panic 1135.
Proof.
  intros H HI. unfold va_ref_at, va_element_size, ptr_offset_isize.
  destruct (N.ltb_spec i (va_nelem a)) as [Hi|Hi]; cbn [passert bind]; [|reflexivity].
  assert (va_esz a * i <= va_nelem a * va_esz a) by nia.
  rewrite pmul_Val by lia. cbn [bind].
  destruct (N.leb_spec (va_esz a * i) ISZ_MAX) as [_|?]; [|lia].
  destruct (N.ltb_spec (va_addr a + va_esz a * i) W64) as [_|?]; [|lia].
  cbn [bind]. rewrite N.mod_small by lia. reflexivity.
Qed.

(* from_slice: Some exactly for a slice of size_of::<T>() != 0 bytes at a multiple of the alignment *)
Lemma align_offset_0 addr al : 0 < al -> (align_offset addr al = 0 <-> addr mod al = 0).
Proof.
  intros Hal. unfold align_offset. pose proof (N.mod_lt addr al ltac:(lia)) as Hr.
  remember (addr mod al) as r. clear Heqr. split.
  - intros H. destruct (N.eq_dec r 0) as [->|Hne]; [reflexivity|].
    rewrite N.mod_small in H by lia. lia.
  - intros ->. rewrite N.sub_0_r. apply N.mod_same. lia.
Qed.
Lemma bv_from_slice_eq T addr len : 0 < e_align T ->
  bv_from_slice T addr len =
  if (len =? e_size T) && negb (e_size T =? 0) && (addr mod e_align T =? 0)
  then Some (TR addr (e_size T) (e_align T)) else None.
Proof.
  intros Hal. unfold bv_from_slice, align_to.
  destruct (N.eqb_spec len (e_size T)) as [->|Hne]; cbn [negb andb]; [|reflexivity].
  destruct (N.eqb_spec (e_size T) 0) as [Hz|Hz]; cbn [negb andb].
  { rewrite Hz. reflexivity. }
  pose proof (align_offset_0 addr (e_align T) Hal) as HA.
  destruct (N.eqb_spec (addr mod e_align T) 0) as [Hm|Hm].
  - apply HA in Hm. rewrite Hm.
    destruct (N.ltb_spec (e_size T) 0) as [?|_]; [lia|].
    rewrite N.sub_0_r, N.div_same, N.mod_same by exact Hz. reflexivity.
  - assert (Hoff : align_offset addr (e_align T) <> 0) by (intros E; apply HA in E; contradiction).
    destruct (N.ltb_spec (e_size T) (align_offset addr (e_align T))) as [Hlt|Hge].
    + destruct (e_size T) as [|p]; [contradiction|]. destruct p; reflexivity.
    + destruct (align_offset addr (e_align T)) as [|p]; [contradiction|]. reflexivity.
Qed.

Lemma gr_get_host_address_eq g a :
  gr_get_host_address g a =
  if a <? rg_size (gr_map g) then Ok ((rg_addr (gr_map g) + a) mod W64) else Err GInvalidBackendAddress.
Proof.
  unfold gr_get_host_address, gr_check_address, gr_address_in_range, gr_len, ptr_wrapping_offset.
  destruct (N.ltb_spec a (rg_size (gr_map g))); reflexivity.
Qed.
Lemma gr_to_region_addr_eq g addr :
  gr_to_region_addr g addr =
  if (gr_base g <=? addr) && (addr - gr_base g <? rg_size (gr_map g)) then Some (addr - gr_base g) else None.
Proof.
  unfold gr_to_region_addr, checked_sub, gr_check_address, gr_address_in_range, gr_len.
  destruct (N.leb_spec (gr_base g) addr); cbn [andb]; [|reflexivity].
  destruct (N.ltb_spec (addr - gr_base g) (rg_size (gr_map g))); reflexivity.
Qed.

(* ================================================================== one derivation step *)
Lemma std_gs_cases A L off cnt : A + L < W64 ->
  (off + cnt <= L /\ std_gs A L off cnt = Val (Ok (VS (A + off) cnt))) \/
  (L < off + cnt /\ exists e, std_gs A L off cnt = Val (Err e)).
Proof.
  intros H. unfold std_gs.
  destruct (N.leb_spec W64 (off + cnt)) as [H1|H1]; [right; split; [lia|eexists; reflexivity]|].
  destruct (N.ltb_spec L (off + cnt)) as [H2|H2]; [right; split; [lia|eexists; reflexivity]|].
  left. split; [lia|]. rewrite N.mod_small by lia. reflexivity.
Qed.

Lemma lift_v_Ok {X} (f : X -> accessor) (x : outcome (vresult X)) c :
  lift_v f x = Val (Ok c) <-> exists a, x = Val (Ok a) /\ c = f a.
Proof.
  unfold lift_v. destruct x as [[a|e]| |]; cbn [bind]; split;
    try discriminate; try (intros (a' & E & _); discriminate).
  - intros E; inversion E. eexists; split; reflexivity.
  - intros (a' & E & ->). inversion E. reflexivity.
Qed.
Lemma lift_g_Ok {X} (f : X -> accessor) (x : outcome (gresult X)) c :
  lift_g f x = Val (Ok c) <-> exists a, x = Val (Ok a) /\ c = f a.
Proof.
  unfold lift_g. destruct x as [[a|e]| |]; cbn [bind]; split;
    try discriminate; try (intros (a' & E & _); discriminate).
  - intros E; inversion E. eexists; split; reflexivity.
  - intros (a' & E & ->). inversion E. reflexivity.
Qed.

Section VM.
  Variables (m : mode) (gs : get_slice_fn) (A L : N).
  Hypothesis Hgs : forall off cnt, gs off cnt = std_gs A L off cnt.
  Hypothesis HAL : A + L < W64.

  Lemma vm_aligned_body_iff site T off t k : e_align T = 2 ^ k ->
    (vm_aligned_body site m gs T off = Val (Ok t) <->
     (off + e_size T <= L /\ (A + off) mod e_align T = 0) /\ t = TR (A + off) (e_size T) (e_align T)).
  Proof.
    intros Hk. unfold vm_aligned_body. rewrite Hgs.
    destruct (std_gs_cases A L off (e_size T) HAL) as [[Hf E]|[Hf [e E]]]; rewrite E; cbn [bind].
    - rewrite Hk, vs_check_alignment_eq. cbn [bind vs_addr vs_len vs_size].
      destruct (N.eqb_spec ((A + off) mod 2 ^ k) 0) as [Ha|Ha].
      + rewrite N.eqb_refl. cbn [passert bind]. split.
        * intros X; inversion X; subst. repeat split; assumption.
        * intros [_ ->]. reflexivity.
      + split; [discriminate|]. intros [[_ X] _]. contradiction.
    - split; [discriminate|]. intros [[X _] _]. lia.
  Qed.

  Lemma lift_aligned_iff site (f : tref -> accessor) T off c k : e_align T = 2 ^ k ->
    (lift_v f (vm_aligned_body site m gs T off) = Val (Ok c) <->
     (off + e_size T <= L /\ (A + off) mod e_align T = 0) /\ c = f (TR (A + off) (e_size T) (e_align T))).
  Proof.
    intros Hk. rewrite lift_v_Ok. split.
    - intros (t & E & ->). apply (vm_aligned_body_iff site T off t k Hk) in E. destruct E as [Hf ->].
      split; [assumption|reflexivity].
    - intros [Hf ->]. eexists. split; [|reflexivity].
      apply (vm_aligned_body_iff site T off _ k Hk). split; [assumption|reflexivity].
  Qed.

  Lemma derive_vm_iff op c : op_wf op ->
    (derive_vm m gs L op = Val (Ok c) <-> fits_vm A L op /\ c = child_vm A L op).
  Proof.
    intros Hwf. destruct op; cbn [derive_vm fits_vm child_vm];
      try (split; [discriminate|intros [[] _]]).
    - (* get_slice *)
      unfold lift_v. rewrite Hgs.
      destruct (std_gs_cases A L offset count HAL) as [[Hf E]|[Hf [e E]]]; rewrite E; cbn [bind].
      + split; [intros X; inversion X; split; [assumption|reflexivity]|intros [_ ->]; reflexivity].
      + split; [discriminate|intros [X _]; lia].
    - (* as_volatile_slice *)
      unfold vm_as_volatile_slice. rewrite Hgs.
      destruct (std_gs_cases A L 0 L HAL) as [[Hf E]|[Hf [e E]]]; [|lia]. rewrite E. cbn [bind].
      rewrite N.add_0_r. split; [intros X; inversion X; split; [exact I|reflexivity]|intros [_ ->]; reflexivity].
    - (* get_ref *)
      unfold lift_v, vm_get_ref. rewrite Hgs.
      destruct (std_gs_cases A L offset (e_size T) HAL) as [[Hf E]|[Hf [e E]]]; rewrite E; cbn [bind].
      + cbn [vs_len vs_size vs_addr]. rewrite N.eqb_refl. cbn [passert bind].
        split; [intros X; inversion X; split; [assumption|reflexivity]|intros [_ ->]; reflexivity].
      + split; [discriminate|intros [X _]; lia].
    - (* get_array_ref *)
      unfold lift_v, vm_get_array_ref, checked_mul_isize.
      destruct (N.leb_spec n ISZ_MAX) as [Hn|Hn].
      2:{ cbn [bind]. split; [discriminate|intros [(_ & X & _) _]; lia]. }
      destruct (N.leb_spec (n * e_size T) ISZ_MAX) as [Hb|Hb].
      2:{ cbn [bind]. split; [discriminate|intros [(_ & _ & X) _]; lia]. }
      rewrite Hgs.
      destruct (std_gs_cases A L offset (n * e_size T) HAL) as [[Hf E]|[Hf [e E]]]; rewrite E; cbn [bind].
      + cbn [vs_len vs_size vs_addr]. rewrite N.eqb_refl. cbn [passert bind].
        split; [intros X; inversion X; split; [repeat split; assumption|reflexivity]|intros [_ ->]; reflexivity].
      + split; [discriminate|intros [(X & _) _]; lia].
    - destruct Hwf as [k Hk]. apply lift_aligned_iff with (k := k). exact Hk.
    - destruct Hwf as [k Hk]. apply lift_aligned_iff with (k := k). exact Hk.
    - destruct Hwf as [k Hk]. apply lift_aligned_iff with (k := k). exact Hk.
  Qed.
End VM.

Lemma derive_iff m p op c : acc_valid p -> op_wf op ->
  (derive m p op = Val (Ok c) <-> fits p op /\ c = child p op).
Proof.
  intros [Hv HvI] Hwf.
  destruct p as [s|r|a|t|t|h|r|g]; cbn [acc_base acc_len] in Hv, HvI.
  - (* slice *)
    assert (HVM : derive_vm m (vs_get_slice m s) (vs_len s) op = Val (Ok c) <->
                  fits_vm (vs_addr s) (vs_size s) op /\ c = child_vm (vs_addr s) (vs_size s) op).
    { apply derive_vm_iff; [intros; apply vs_get_slice_eq|exact Hv|exact Hwf]. }
    destruct op; cbn [derive fits child]; try exact HVM.
    + (* offset *)
      rewrite lift_v_Ok, vs_offset_eq. split.
      * intros (x & E & ->). revert E. dcmp; intros E; inversion E; subst. split; [lia|reflexivity].
      * intros [Hf ->]. eexists. split; [|reflexivity]. dcmp; try lia. reflexivity.
    + (* subslice *)
      rewrite lift_v_Ok, vs_subslice_eq.
      destruct (std_gs_cases (vs_addr s) (vs_size s) offset count Hv) as [[Hf E]|[Hf [e E]]]; rewrite E.
      * split; [intros (x & X & ->); inversion X; split; [assumption|reflexivity]|].
        intros [_ ->]. eexists; split; reflexivity.
      * split; [intros (x & X & _); discriminate|intros [X _]; lia].
    + (* split_at, low part *)
      rewrite lift_v_Ok, vs_split_at_eq. split.
      * intros (x & E & ->). revert E. dcmp; intros E; inversion E; subst. split; [lia|reflexivity].
      * intros [Hf ->]. exists (VS (vs_addr s) mid, VS (vs_addr s + mid) (vs_size s - mid)).
        split; [|reflexivity]. dcmp; try lia. reflexivity.
    + (* split_at, high part *)
      rewrite lift_v_Ok, vs_split_at_eq. split.
      * intros (x & E & ->). revert E. dcmp; intros E; inversion E; subst. split; [lia|reflexivity].
      * intros [Hf ->]. exists (VS (vs_addr s) mid, VS (vs_addr s + mid) (vs_size s - mid)).
        split; [|reflexivity]. dcmp; try lia. reflexivity.
    + (* into array *)
      unfold vs_into_array_u8, vs_len. split; [intros E; inversion E; split; [exact I|reflexivity]|intros [_ ->]; reflexivity].
    + (* from_slice *)
      destruct Hwf as [k Hk].
      assert (Hal : 0 < e_align T) by (rewrite Hk; pose proof (pow2_ge1 k); lia).
      destruct (N.leb_spec (offset + count) (vs_size s)) as [Hin|Hin]; cbn [andb].
      2:{ split; [discriminate|intros [((X & _) & _) _]; lia]. }
      destruct (N.leb_spec count ISZ_MAX) as [Hic|Hic].
      2:{ split; [discriminate|intros [((_ & X) & _) _]; lia]. }
      rewrite bv_from_slice_eq by exact Hal.
      destruct (N.eqb_spec count (e_size T)) as [Hc|Hc]; cbn [andb negb].
      2:{ split; [discriminate|intros [(_ & X & _) _]; contradiction]. }
      destruct (N.eqb_spec (e_size T) 0) as [Hz|Hz]; cbn [andb negb].
      { split; [discriminate|intros [(_ & _ & X & _) _]; contradiction]. }
      destruct (N.eqb_spec ((vs_addr s + offset) mod e_align T) 0) as [Ha|Ha].
      * split; [intros E; inversion E; split; [repeat split; assumption|reflexivity]|intros [_ ->]; reflexivity].
      * split; [discriminate|intros [(_ & _ & _ & X) _]; contradiction].
  - (* VolatileRef *)
    destruct op; cbn [derive fits child]; try (split; [discriminate|intros [[] _]]).
    unfold vr_to_slice. split; [intros E; inversion E; split; [exact I|reflexivity]|intros [_ ->]; reflexivity].
  - (* VolatileArrayRef *)
    cbn [va_addr va_nelem va_esz] in Hv, HvI.
    destruct op; cbn [derive fits child]; try (split; [discriminate|intros [[] _]]).
    + rewrite va_ref_at_eq by assumption.
      destruct (N.ltb_spec index (va_nelem a)) as [Hi|Hi]; cbn [bind].
      * split; [intros E; inversion E; split; [assumption|reflexivity]|intros [_ ->]; reflexivity].
      * split; [discriminate|intros [X _]; lia].
    + rewrite va_to_slice_eq by lia. cbn [bind].
      split; [intros E; inversion E; split; [exact I|reflexivity]|intros [_ ->]; reflexivity].
  - split; [discriminate|intros [[] _]].
  - split; [discriminate|intros [[] _]].
  - split; [discriminate|intros [[] _]].
  - (* MmapRegion *)
    cbn [derive fits child].
    apply derive_vm_iff; [intros; apply mr_get_slice_eq|exact Hv|exact Hwf].
  - (* GuestRegionMmap *)
    destruct op; cbn [derive fits child]; try (split; [discriminate|intros [[] _]]).
    + rewrite lift_g_Ok. unfold gr_get_slice. rewrite mr_get_slice_eq.
      destruct (std_gs_cases (rg_addr (gr_map g)) (rg_size (gr_map g)) offset count Hv) as [[Hf E]|[Hf [e E]]];
        rewrite E; cbn [bind].
      * split; [intros (x & X & ->); inversion X; split; [assumption|reflexivity]|].
        intros [_ ->]. eexists; split; reflexivity.
      * split; [intros (x & X & _); discriminate|intros [X _]; lia].
    + rewrite gr_get_host_address_eq.
      destruct (N.ltb_spec addr (rg_size (gr_map g))) as [Hi|Hi].
      * rewrite N.mod_small by lia.
        split; [intros E; inversion E; split; [assumption|reflexivity]|intros [_ ->]; reflexivity].
      * split; [discriminate|intros [X _]; lia].
    + rewrite lift_g_Ok. unfold gr_as_volatile_slice, gr_get_slice, gr_len. rewrite mr_get_slice_eq.
      destruct (std_gs_cases (rg_addr (gr_map g)) (rg_size (gr_map g)) 0 (rg_size (gr_map g)) Hv) as [[Hf E]|[Hf [e E]]];
        [|lia]. rewrite E; cbn [bind]. rewrite N.add_0_r.
      split; [intros (x & X & ->); inversion X; split; [exact I|reflexivity]|].
      intros [_ ->]. eexists; split; reflexivity.
Qed.

(* ================================================================== the property, one step *)
Lemma child_inside p op : acc_valid p -> fits p op -> inside p (child p op) /\ acc_valid (child p op).
Proof.
  unfold acc_valid, inside. intros [Hv HvI] Hf.
  destruct p as [s|r|a|t|t|h|r|g]; cbn [fits] in Hf; try contradiction;
    destruct op; cbn [fits_vm] in Hf; try contradiction;
    cbn [child child_vm acc_base acc_len vs_addr vs_size vr_addr vr_esz va_addr va_nelem va_esz
         tr_addr tr_size rg_addr rg_size gr_map] in *;
    repeat match goal with H : _ /\ _ |- _ => destruct H end;
    try (rewrite ISZ_MAX_val in *; lia); try (rewrite ISZ_MAX_val in *; nia).
Qed.

Lemma child_aligned p op : fits p op -> acc_aligned (child p op).
Proof.
  intros Hf.
  destruct p as [s|r|a|t|t|h|r|g]; cbn [fits] in Hf; try contradiction;
    destruct op; cbn [fits_vm] in Hf; try contradiction;
    cbn [child child_vm acc_aligned tr_addr tr_align]; try exact I;
    try (destruct Hf as (_ & _ & _ & Hf); exact Hf); try (destruct Hf as (_ & Hf); exact Hf).
Qed.

Lemma derive_contained_lemma : forall m p op c, acc_valid p -> op_wf op ->
  derive m p op = Val (Ok c) -> inside p c /\ acc_valid c.
Proof.
  intros m p op c Hv Hwf E. apply derive_iff in E; [|assumption|assumption].
  destruct E as [Hf ->]. apply child_inside; assumption.
Qed.

Lemma derive_aligned_lemma : forall m p op c, acc_valid p -> op_wf op ->
  derive m p op = Val (Ok c) -> acc_aligned c.
Proof.
  intros m p op c Hv Hwf E. apply derive_iff in E; [|assumption|assumption].
  destruct E as [Hf ->]. apply child_aligned; assumption.
Qed.

Lemma derive_exact_lemma : forall m p op, acc_valid p -> op_wf op ->
  (fits p op <-> exists c, derive m p op = Val (Ok c)).
Proof.
  intros m p op Hv Hwf. split.
  - intros Hf. exists (child p op). apply derive_iff; [assumption|assumption|]. split; [assumption|reflexivity].
  - intros [c E]. apply derive_iff in E; [|assumption|assumption]. destruct E as [Hf _]. exact Hf.
Qed.

Lemma derive_child_lemma : forall m p op c, acc_valid p -> op_wf op ->
  (derive m p op = Val (Ok c) <-> fits p op /\ c = child p op).
Proof. intros; apply derive_iff; assumption. Qed.

Lemma inside_refl p : inside p p.
Proof. unfold inside; lia. Qed.
Lemma inside_trans p q r : inside p q -> inside q r -> inside p r.
Proof. unfold inside; lia. Qed.

(* ================================================================== chains of any depth *)
Lemma chain_contained_lemma : forall ops m root c, acc_valid root -> Forall op_wf ops ->
  derive_chain m root ops = Val (Ok c) -> inside root c /\ acc_valid c.
Proof.
  induction ops as [|op ops IH]; intros m root c Hv Hwf E; cbn [derive_chain] in E.
  - inversion E; subst. split; [apply inside_refl|assumption].
  - inversion Hwf as [|? ? Hop Hrest]; subst.
    destruct (derive m root op) as [[x|e]| |] eqn:D; cbn [bind] in E; try discriminate.
    destruct (derive_contained_lemma m root op x Hv Hop D) as [Hi Hvx].
    destruct (IH m x c Hvx Hrest E) as [Hi2 Hvc].
    split; [eapply inside_trans; eassumption|assumption].
Qed.

(* a chain ending in a typed / atomic reference ends aligned *)
Lemma chain_aligned_lemma : forall ops m root c, acc_valid root -> Forall op_wf ops -> ops <> [] ->
  derive_chain m root ops = Val (Ok c) -> acc_aligned c.
Proof.
  induction ops as [|op ops IH]; intros m root c Hv Hwf Hne E; [contradiction|].
  cbn [derive_chain] in E. inversion Hwf as [|? ? Hop Hrest]; subst.
  destruct (derive m root op) as [[x|e]| |] eqn:D; cbn [bind] in E; try discriminate.
  destruct ops as [|op2 ops2].
  - cbn [derive_chain] in E. inversion E; subst. eapply derive_aligned_lemma; eassumption.
  - destruct (derive_contained_lemma m root op x Hv Hop D) as [_ Hvx].
    eapply IH; try eassumption. discriminate.
Qed.

(* ================================================================== GuestMemory, given the region *)
Lemma gm_get_slice_lemma : forall m fr addr count s,
  (forall r, fr = Some r -> acc_valid (AGRegion r)) ->
  gm_get_slice m fr addr count = Val (Ok s) ->
  exists r, fr = Some r /\ gr_base r <= addr /\
            s = VS (rg_addr (gr_map r) + (addr - gr_base r)) count /\
            (addr - gr_base r) + count <= rg_size (gr_map r) /\ inside (AGRegion r) (ASlice s).
Proof.
  intros m fr addr count s Hv E. unfold gm_get_slice, gm_to_region_addr in E.
  destruct fr as [r|]; [|cbn [bind] in E; discriminate].
  specialize (Hv r eq_refl). destruct Hv as [Hv HvI]. cbn [acc_base acc_len] in Hv, HvI.
  rewrite gr_to_region_addr_eq in E.
  destruct (N.leb_spec (gr_base r) addr) as [Hb|Hb]; cbn [andb] in E; [|discriminate].
  destruct (N.ltb_spec (addr - gr_base r) (rg_size (gr_map r))) as [Hl|Hl]; [|discriminate].
  cbn [bind] in E. unfold gr_get_slice in E. rewrite mr_get_slice_eq in E.
  destruct (std_gs_cases (rg_addr (gr_map r)) (rg_size (gr_map r)) (addr - gr_base r) count Hv)
    as [[Hf X]|[Hf [e X]]]; rewrite X in E; cbn [bind] in E; [|discriminate].
  inversion E; subst. exists r. repeat split; try assumption; try reflexivity;
    cbn [acc_base acc_len vs_addr vs_size]; lia.
Qed.
Lemma gm_get_host_address_lemma : forall fr addr p,
  (forall r, fr = Some r -> acc_valid (AGRegion r)) ->
  gm_get_host_address fr addr = Val (Ok p) ->
  exists r, fr = Some r /\ gr_base r <= addr /\ addr - gr_base r < rg_size (gr_map r) /\
            p = rg_addr (gr_map r) + (addr - gr_base r) /\ inside (AGRegion r) (AHost p).
Proof.
  intros fr addr p Hv E. unfold gm_get_host_address, gm_to_region_addr in E.
  destruct fr as [r|]; [|cbn [bind] in E; discriminate].
  specialize (Hv r eq_refl). destruct Hv as [Hv HvI]. cbn [acc_base acc_len] in Hv, HvI.
  rewrite gr_to_region_addr_eq in E.
  destruct (N.leb_spec (gr_base r) addr) as [Hb|Hb]; cbn [andb] in E; [|discriminate].
  destruct (N.ltb_spec (addr - gr_base r) (rg_size (gr_map r))) as [Hl|Hl]; [|discriminate].
  cbn [bind] in E. rewrite gr_get_host_address_eq in E.
  destruct (N.ltb_spec (addr - gr_base r) (rg_size (gr_map r))) as [_|?]; [|lia].
  rewrite N.mod_small in E by lia. inversion E; subst.
  exists r. repeat split; try assumption; try reflexivity; cbn [acc_base acc_len]; lia.
Qed.
Lemma gm_unmapped_lemma : forall m addr count,
  gm_get_slice m None addr count = Val (Err (GInvalidGuestAddress addr)) /\
  gm_get_host_address None addr = Val (Err (GInvalidGuestAddress addr)).
Proof. intros; split; reflexivity. Qed.

(* the same, with [inside] and [acc_valid] spelled out *)
Lemma derive_contained_flat : forall m p op c, acc_valid p -> op_wf op ->
  derive m p op = Val (Ok c) ->
  acc_base p <= acc_base c /\ acc_base c + acc_len c <= acc_base p + acc_len p /\ acc_valid c.
Proof.
  intros m p op c Hv Hwf E. destruct (derive_contained_lemma m p op c Hv Hwf E) as [[H1 H2] H3].
  split; [exact H1|split; [exact H2|exact H3]].
Qed.
Lemma chain_contained_flat : forall ops m root c, acc_valid root -> Forall op_wf ops ->
  derive_chain m root ops = Val (Ok c) ->
  acc_base root <= acc_base c /\ acc_base c + acc_len c <= acc_base root + acc_len root /\ acc_valid c.
Proof.
  intros ops m root c Hv Hwf E. destruct (chain_contained_lemma ops m root c Hv Hwf E) as [[H1 H2] H3].
  split; [exact H1|split; [exact H2|exact H3]].
Qed.

(* ================================================================== the model satisfies the checker *)
Definition kind_of (a : accessor) : kind :=
  match a with
  | ASlice _ => KSlice | ARef _ => KRef | AArr _ => KArr | ATyped _ => KTyped | AAtomic _ => KAtomic
  | AHost _ => KHost | ARegion _ => KRegion | AGRegion _ => KGRegion
  end.

Lemma ty_align_pow2 t : exists k, ty_align t = 2 ^ k.
Proof.
  unfold ty_align.
  repeat match goal with |- context [match ?x with _ => _ end] => destruct x end;
    first [exists 0; reflexivity|exists 1; reflexivity|exists 2; reflexivity|exists 3; reflexivity|exists 4; reflexivity].
Qed.
Lemma aty_align_pow2 t : exists k, aty_align t = 2 ^ k.
Proof.
  unfold aty_align. destruct (t =? 17); [exists 3; reflexivity|].
  destruct (t =? 18); [exists 4; reflexivity|]. apply ty_align_pow2.
Qed.
Lemma dop_of_wf o d : dop_of o = Some d -> op_wf d.
Proof.
  unfold dop_of. destruct (s_rq o); intros E; inversion E; subst;
    cbn [op_wf ety_of atomic_ety aty_of at_align e_align];
    try exact I; first [apply ty_align_pow2|apply aty_align_pow2].
Qed.

(* what the harness-side observation of a valid accessor is, in closed form *)
Definition closed_obs (rb ridx : N) (a : accessor) : sobs :=
  {| o_class := 0; o_off := acc_base a - rb; o_len := acc_len a; o_glen := acc_len a;
     o_nelem := acc_nelem a; o_ridx := ridx |}.
Lemma wrapping_sub_le x y : y <= x -> wrapping_sub x y = x - y.
Proof. intros H. unfold wrapping_sub. destruct (N.leb_spec y x); [reflexivity|lia]. Qed.
Lemma obs_of_closed c ridx a : acc_valid a -> root_base c ridx <= acc_base a ->
  obs_of c ridx a = closed_obs (root_base c ridx) ridx a.
Proof.
  intros [Hv _] Hb. unfold obs_of, closed_obs.
  destruct a as [s|r|x|t|t|h|r|g]; cbn [acc_guard acc_base acc_len acc_nelem] in *;
    try (cbn [vs_ptr_guard vr_ptr_guard pg_addr pg_len vs_len vr_len]; rewrite wrapping_sub_le by assumption; reflexivity).
  rewrite va_ptr_guard_eq by lia. cbn [bind pg_addr pg_len]. rewrite wrapping_sub_le by assumption. reflexivity.
Qed.

(* the checker's knowledge of the current accessor agrees with the model's accessor *)
Definition rel_acc (c : case01) (g : geom) (ridx : N) (a : accessor) : Prop :=
  acc_valid a /\ g_kind g = kind_of a /\ g_ridx g = ridx /\
  root_base c ridx + g_off g = acc_base a /\ g_len g = acc_len a /\ g_nelem g = acc_nelem a.
Definition rel (c : case01) (g : geom) (st : rstate) : Prop :=
  match st with
  | SAcc ridx a => rel_acc c g ridx a
  | SGMem => g_kind g = KGMem /\ is_slice_root (c_rootk c) = false
  end.

Lemma rk_lemma p o d : dop_of o = Some d -> fits p d ->
  result_kind (kind_of p) (s_rq o) = Some (kind_of (child p d)).
Proof.
  unfold dop_of. intros E Hf.
  destruct p as [s|r|x|t|t|h|r|g]; destruct (s_rq o); inversion E; subst;
    cbn [fits fits_vm] in Hf; try contradiction; reflexivity.
Qed.

Lemma aligned_at_true a al : a mod al = 0 -> aligned_at a al = true.
Proof. intros H. unfold aligned_at. rewrite H. reflexivity. Qed.

Lemma fitsb_lemma c g ridx p o d : dop_of o = Some d -> fits p d -> rel_acc c g ridx p ->
  fitsb c g o = true.
Proof.
  unfold dop_of. intros E Hf (Hv & Hk & Hr & Hoff & Hlen & Hn).
  unfold fitsb. rewrite Hr.
  destruct p as [s|r|x|t|t|h|r|gr]; destruct (s_rq o); inversion E; subst;
    cbn [fits fits_vm ety_of atomic_ety aty_of at_size at_align e_size e_align] in Hf; try contradiction;
    cbn [acc_base acc_len acc_nelem va_len ref_align] in Hoff, Hlen, Hn |- *;
    try reflexivity;
    rewrite ?andb_true_iff, ?N.leb_le, ?N.ltb_lt, ?N.eqb_eq;
    repeat match goal with H : _ /\ _ |- _ => destruct H end;
    repeat split; try lia;
    try (apply aligned_at_true; rewrite Hoff; assumption).
  unfold va_len in Hn. lia.
Qed.

Lemma extent_lemma p o d ob : dop_of o = Some d -> fits p d ->
  o_len ob = acc_len (child p d) -> o_nelem ob = acc_nelem (child p d) ->
  obs_extent (kind_of (child p d)) o ob = acc_len (child p d).
Proof.
  unfold dop_of, obs_extent, elem_size. intros E Hf Hl Hn.
  destruct p as [s|r|x|t|t|h|r|g]; destruct (s_rq o); inversion E; subst;
    cbn [fits fits_vm] in Hf; try contradiction;
    cbn [child child_vm kind_of acc_len acc_nelem va_len va_nelem va_esz ety_of atomic_ety aty_of at_size e_size] in *;
    try assumption; rewrite Hn; reflexivity.
Qed.

Lemma aligned_lemma c p o d ob : dop_of o = Some d -> fits p d ->
  root_base c (o_ridx ob) + o_off ob = acc_base (child p d) ->
  alignedb c (kind_of (child p d)) o ob = true.
Proof.
  unfold dop_of, alignedb. intros E Hf Hb.
  destruct p as [s|r|x|t|t|h|r|g]; destruct (s_rq o); inversion E; subst;
    cbn [fits fits_vm] in Hf; try contradiction;
    cbn [child child_vm kind_of kind_eqb orb acc_base tr_addr ety_of atomic_ety aty_of at_size at_align e_size e_align ref_align] in *;
    try reflexivity; apply aligned_at_true; rewrite Hb;
    repeat match goal with H : _ /\ _ |- _ => destruct H end; assumption.
Qed.

Lemma kind_of_not_gmem p : kind_eqb (kind_of p) KGMem = false.
Proof. destruct p; reflexivity. Qed.

Lemma step_acc_ok c g ridx p o d : dop_of o = Some d -> rel_acc c g ridx p -> fits p d ->
  step_ok c g o (closed_obs (root_base c ridx) ridx (child p d)) = true /\
  rel_acc c (step_geom g o (closed_obs (root_base c ridx) ridx (child p d))) ridx (child p d).
Proof.
  intros E HR Hf. pose proof HR as (Hv & Hk & Hr & Hoff & Hlen & Hn).
  destruct (child_inside p d Hv Hf) as [[Hi1 Hi2] Hvc].
  set (a' := child p d) in *. set (rb := root_base c ridx) in *.
  assert (Hrb : rb <= acc_base a') by lia.
  set (ob := closed_obs rb ridx a').
  assert (Hext : obs_extent (kind_of a') o ob = acc_len a').
  { apply extent_lemma with (d := d); try assumption; reflexivity. }
  assert (Hob : root_base c (o_ridx ob) + o_off ob = acc_base a').
  { unfold ob, closed_obs; cbn [o_ridx o_off]. fold rb. lia. }
  unfold step_ok, step_geom. change (o_class ob) with 0. rewrite N.eqb_refl.
  rewrite Hk, (rk_lemma p o d E Hf). fold a'. split.
  - rewrite !andb_true_iff. repeat split.
    + apply fitsb_lemma with (ridx := ridx) (p := p) (d := d); assumption.
    + unfold containedb. rewrite Hk, kind_of_not_gmem.
      unfold obs_reach. rewrite Hext. change (o_glen ob) with (acc_len a'). change (o_ridx ob) with ridx.
      change (o_off ob) with (acc_base a' - rb).
      rewrite Hr, N.eqb_refl. cbn [andb].
      assert (HR2 : (if acc_len a' =? GUARD_PANIC then acc_len a' else N.max (acc_len a') (acc_len a')) = acc_len a').
      { destruct (acc_len a' =? GUARD_PANIC); [reflexivity|apply N.max_id]. }
      rewrite HR2. rewrite andb_true_iff, N.leb_le, N.leb_le. unfold acc_valid in *. lia.
    + apply aligned_lemma with (p := p) (d := d); assumption.
  - unfold rel_acc. cbn [g_kind g_ridx g_off g_len g_nelem]. rewrite Hext.
    change (o_ridx ob) with ridx. change (o_off ob) with (acc_base a' - rb). change (o_nelem ob) with (acc_nelem a').
    fold rb. split; [exact Hvc|]. repeat split; try assumption; try reflexivity; try lia.
Qed.

Lemma class_of_derr_nz e : class_of_derr e <> 0.
Proof. destruct e as [[]|[]| |]; cbn; discriminate. Qed.

Lemma err_step c g o cl : cl <> 0 -> step_ok c g o (err_obs cl) = true /\ step_geom g o (err_obs cl) = g.
Proof.
  intros H. unfold step_ok, step_geom, err_obs; cbn [o_class].
  destruct (N.eqb_spec cl 0); [contradiction|]. split; reflexivity.
Qed.

(* one request on an accessor state *)
Lemma run_step_acc c g ridx p o : rel_acc c g ridx p ->
  let '(ob, st') := run_step c (SAcc ridx p) o in
  step_ok c g o ob = true /\ rel c (step_geom g o ob) st'.
Proof.
  intros HR. cbn [run_step]. destruct (dop_of o) as [d|] eqn:E.
  2:{ destruct (err_step c g o 7 ltac:(discriminate)) as [H1 H2]. rewrite H2. split; [exact H1|exact HR]. }
  pose proof HR as (Hv & _).
  pose proof (derive_iff (c_mode c) p d) as HI.
  unfold finish. destruct (derive (c_mode c) p d) as [[a'|e]|s|] eqn:D.
  - destruct (HI a' Hv (dop_of_wf o d E)) as [HI1 _]. destruct (HI1 eq_refl) as [Hf ->].
    destruct (child_inside p d Hv Hf) as [[Hi1 _] Hvc].
    pose proof HR as (_ & _ & _ & Hoff & _).
    rewrite obs_of_closed by (try assumption; lia).
    apply step_acc_ok; assumption.
  - destruct (err_step c g o (class_of_derr e) (class_of_derr_nz e)) as [H1 H2]. rewrite H2. split; [exact H1|exact HR].
  - destruct (err_step c g o 5 ltac:(discriminate)) as [H1 H2]. rewrite H2. split; [exact H1|exact HR].
  - destruct (err_step c g o 5 ltac:(discriminate)) as [H1 H2]. rewrite H2. split; [exact H1|exact HR].
Qed.

(* ------------------------------------------------------------------ GuestMemory roots *)
Lemma find_region_lin_spec l : forall i0 addr i r,
  find_region_lin i0 (mk_regions i0 l) addr = Some (i, r) ->
  exists gb sz, nth_region l (i - i0) = Some (gb, sz) /\ i0 <= i /\
    r = GR (RG (REG_BASE + i * REG_STRIDE) sz) gb /\ gb <= addr /\ addr - gb < sz.
Proof.
  induction l as [|[gb sz] l IH]; intros i0 addr i r E; cbn [mk_regions find_region_lin] in E; [discriminate|].
  cbn [gr_base gr_len gr_map rg_size] in E.
  assert (REC : find_region_lin (i0 + 1) (mk_regions (i0 + 1) l) addr = Some (i, r) ->
                exists gb' sz', nth_region ((gb, sz) :: l) (i - i0) = Some (gb', sz') /\ i0 <= i /\
                  r = GR (RG (REG_BASE + i * REG_STRIDE) sz') gb' /\ gb' <= addr /\ addr - gb' < sz').
  { intros E'. destruct (IH _ _ _ _ E') as (gb' & sz' & Hn & Hi & Hr & Ha & Hb).
    exists gb', sz'. cbn [nth_region]. destruct (N.eqb_spec (i - i0) 0) as [Hz|_]; [lia|].
    replace (i - i0 - 1) with (i - (i0 + 1)) by lia. repeat split; try assumption; lia. }
  destruct (N.leb_spec gb addr) as [H1|H1]; cbn [andb] in E; [|exact (REC E)].
  destruct (N.ltb_spec (addr - gb) sz) as [H2|H2]; [|exact (REC E)].
  inversion E; subst. exists gb, sz. rewrite N.sub_diag. cbn [nth_region]. rewrite N.eqb_refl.
  repeat split; try reflexivity; try assumption; lia.
Qed.

Lemma nth_region_In l : forall i x, nth_region l i = Some x -> In x l /\ i < N.of_nat (length l).
Proof.
  induction l as [|y l IH]; intros i x E; cbn [nth_region] in E; [discriminate|].
  destruct (N.eqb_spec i 0) as [->|Hi].
  - inversion E; subst. split; [left; reflexivity|cbn [length]; lia].
  - destruct (IH _ _ E) as [H1 H2]. split; [right; exact H1|cbn [length]; lia].
Qed.

Lemma REG_BASE_val : REG_BASE = 70368744177664. Proof. reflexivity. Qed.
Lemma REG_STRIDE_val : REG_STRIDE = 1099511627776. Proof. reflexivity. Qed.

Lemma find_ok l addr i r : wf_regions l ->
  find_region_lin 0 (mk_regions 0 l) addr = Some (i, r) ->
  exists gb sz, nth_region l i = Some (gb, sz) /\ In (gb, sz) l /\
    r = GR (RG (REG_BASE + i * REG_STRIDE) sz) gb /\ gb <= addr /\ addr - gb < sz /\
    REG_BASE + i * REG_STRIDE + sz < W64 /\ sz <= ISZ_MAX.
Proof.
  intros [Hsz Hlen] E. destruct (find_region_lin_spec l 0 addr i r E) as (gb & sz & Hn & _ & Hr & Ha & Hb).
  rewrite N.sub_0_r in Hn. exists gb, sz.
  destruct (nth_region_In _ _ _ Hn) as [Hin Hi].
  assert (Hs : sz < REG_STRIDE). { rewrite Forall_forall in Hsz. apply (Hsz (gb, sz) Hin). }
  repeat split; try assumption.
  - rewrite REG_BASE_val, REG_STRIDE_val in *. rewrite W64_val. lia.
  - rewrite ISZ_MAX_val. rewrite REG_STRIDE_val in Hs. lia.
Qed.

Lemma run_step_gmem c g o : wf_regions (c_regions c) -> is_slice_root (c_rootk c) = false ->
  g_kind g = KGMem ->
  let '(ob, st') := run_step c SGMem o in
  step_ok c g o ob = true /\ rel c (step_geom g o ob) st'.
Proof.
  intros Hwf Hroot Hk. cbn [run_step].
  assert (NA : step_ok c g o (err_obs 7) = true /\ rel c (step_geom g o (err_obs 7)) SGMem).
  { destruct (err_step c g o 7 ltac:(discriminate)) as [H1 H2]. rewrite H2. split; [exact H1|exact (conj Hk Hroot)]. }
  assert (ERR : forall cl, cl <> 0 -> step_ok c g o (err_obs cl) = true /\ rel c (step_geom g o (err_obs cl)) SGMem).
  { intros cl Hcl. destruct (err_step c g o cl Hcl) as [H1 H2]. rewrite H2. split; [exact H1|exact (conj Hk Hroot)]. }
  destruct (find_region_lin 0 (mk_regions 0 (c_regions c)) (s_a o)) as [[i r]|] eqn:F.
  2:{ destruct (s_rq o) eqn:Q; try exact NA; cbn [option_map finish lift_g bind gm_get_slice gm_get_host_address gm_to_region_addr];
      apply ERR; discriminate. }
  destruct (find_ok _ _ _ _ Hwf F) as (gb & sz & Hn & Hin & Hr & Ha & Hb & Hbound & HszI).
  assert (Hrb : root_base c i = REG_BASE + i * REG_STRIDE) by (unfold root_base; rewrite Hroot; reflexivity).
  assert (Hvr : forall r', Some r = Some r' -> acc_valid (AGRegion r')).
  { intros r' X; inversion X; subst r'. unfold acc_valid. rewrite Hr. cbn [acc_base acc_len gr_map rg_addr rg_size]. split; assumption. }
  destruct (s_rq o) eqn:Q; try exact NA; cbn [option_map snd].
  - (* get_slice *)
    unfold finish, lift_g.
    destruct (gm_get_slice (c_mode c) (Some r) (s_a o) (s_b o)) as [[s|e]|x|] eqn:G; cbn [bind];
      try (apply ERR; try apply class_of_derr_nz; discriminate).
    destruct (gm_get_slice_lemma _ _ _ _ _ Hvr G) as (r' & X & _ & Hs & Hfit & _). inversion X; subst r'. clear X.
    rewrite Hr in Hs, Hfit. cbn [gr_map gr_base rg_addr rg_size] in Hs, Hfit.
    rewrite obs_of_closed.
    2:{ unfold acc_valid. rewrite Hs. cbn [acc_base acc_len vs_addr vs_size]. lia. }
    2:{ rewrite Hrb, Hs. cbn [acc_base vs_addr]. lia. }
    rewrite Hrb. unfold closed_obs. rewrite Hs. cbn [acc_base acc_len acc_nelem vs_addr vs_size].
    replace (REG_BASE + i * REG_STRIDE + (s_a o - gb) - (REG_BASE + i * REG_STRIDE)) with (s_a o - gb) by lia.
    unfold step_ok, step_geom. cbn [o_class o_ridx o_off o_len o_glen o_nelem]. rewrite N.eqb_refl.
    rewrite Hk, Q. cbn [result_kind]. split.
    + rewrite !andb_true_iff. repeat split.
      * unfold fitsb. rewrite Q. apply existsb_exists. exists (gb, sz). split; [assumption|].
        cbn [in_region]. rewrite andb_true_iff, !N.leb_le. lia.
      * unfold containedb. rewrite Hk. cbn [kind_eqb o_ridx o_off]. rewrite Hn.
        unfold obs_reach, obs_extent. cbn [o_len o_glen].
        destruct (s_b o =? GUARD_PANIC); [|rewrite N.max_id]; apply N.leb_le; lia.
    + unfold rel, rel_acc, obs_extent, acc_valid. cbn [g_kind g_ridx g_off g_len g_nelem o_len kind_of acc_base acc_len acc_nelem vs_addr vs_size].
      rewrite Hrb. repeat split; try reflexivity; try lia.
  - (* get_host_address *)
    unfold finish, lift_g.
    destruct (gm_get_host_address (Some r) (s_a o)) as [[p|e]|x|] eqn:G; cbn [bind];
      try (apply ERR; try apply class_of_derr_nz; discriminate).
    destruct (gm_get_host_address_lemma _ _ _ Hvr G) as (r' & X & _ & _ & Hp & _). inversion X; subst r'. clear X.
    rewrite Hr in Hp. cbn [gr_map gr_base rg_addr rg_size] in Hp.
    rewrite obs_of_closed.
    2:{ unfold acc_valid. rewrite Hp. cbn [acc_base acc_len]. rewrite ISZ_MAX_val. lia. }
    2:{ rewrite Hrb, Hp. cbn [acc_base]. lia. }
    rewrite Hrb. unfold closed_obs. rewrite Hp. cbn [acc_base acc_len acc_nelem].
    replace (REG_BASE + i * REG_STRIDE + (s_a o - gb) - (REG_BASE + i * REG_STRIDE)) with (s_a o - gb) by lia.
    unfold step_ok, step_geom. cbn [o_class o_ridx o_off o_len o_glen o_nelem]. rewrite N.eqb_refl.
    rewrite Hk, Q. cbn [result_kind]. split.
    + rewrite !andb_true_iff. repeat split.
      * unfold fitsb. rewrite Q. apply existsb_exists. exists (gb, sz). split; [assumption|].
        cbn [in_region]. rewrite andb_true_iff, !N.leb_le. lia.
      * unfold containedb. rewrite Hk. cbn [kind_eqb o_ridx o_off]. rewrite Hn.
        unfold obs_reach, obs_extent. cbn [o_len o_glen].
        destruct (1 =? GUARD_PANIC); [|rewrite N.max_id]; apply N.leb_le; lia.
    + unfold rel, rel_acc, obs_extent, acc_valid. cbn [g_kind g_ridx g_off g_len g_nelem o_len kind_of acc_base acc_len acc_nelem].
      rewrite Hrb. repeat split; try reflexivity; try lia; try (rewrite ISZ_MAX_val; lia).
Qed.

(* ------------------------------------------------------------------ whole cases *)

Lemma chain_ok_run c : (is_slice_root (c_rootk c) = false -> wf_regions (c_regions c)) ->
  forall ops g st, rel c g st -> chain_ok c g ops (run_chain c st ops) = true.
Proof.
  intros Hwf. induction ops as [|o ops IH]; intros g st HR; cbn [run_chain chain_ok]; [reflexivity|].
  destruct st as [ridx p|].
  - pose proof (run_step_acc c g ridx p o HR) as H.
    destruct (run_step c (SAcc ridx p) o) as [ob st']. destruct H as [H1 H2].
    cbn [chain_ok]. rewrite H1. cbn [andb]. apply IH. exact H2.
  - destruct HR as [Hk Hroot].
    pose proof (run_step_gmem c g o (Hwf Hroot) Hroot Hk) as H.
    destruct (run_step c SGMem o) as [ob st']. destruct H as [H1 H2].
    cbn [chain_ok]. rewrite H1. cbn [andb]. apply IH. exact H2.
Qed.

Lemma root_rel c : wf_case c -> rel c (root_geom c) (root_state c).
Proof.
  intros [Hk Hw]. unfold root_geom, root_state.
  destruct (is_slice_root (c_rootk c)) eqn:Hs.
  - unfold rel, rel_acc, acc_valid, root_base. rewrite Hs.
    cbn [g_kind g_ridx g_off g_len g_nelem kind_of acc_base acc_len acc_nelem vs_addr vs_size].
    destruct Hw as [Hw1 Hw2]. repeat split; try reflexivity; try lia.
  - destruct Hw as [Hne [Hsz Hlen]].
    destruct (c_regions c) as [|[gb sz] l] eqn:Hregs; [contradiction|].
    cbn [mk_regions].
    assert (Hs1 : sz < REG_STRIDE) by (inversion Hsz; assumption).
    assert (Hb : REG_BASE + 0 * REG_STRIDE + sz < W64).
    { rewrite REG_BASE_val, REG_STRIDE_val in *. rewrite W64_val. lia. }
    assert (HbI : sz <= ISZ_MAX) by (rewrite ISZ_MAX_val; rewrite REG_STRIDE_val in Hs1; lia).
    destruct (N.eqb_spec (c_rootk c) RK_GMEM) as [Eg|Eg].
    + rewrite Eg. cbn. split; [reflexivity|]. exact Hs.
    + destruct (N.eqb_spec (c_rootk c) RK_REGION) as [Er|Er].
      * unfold rel, rel_acc, acc_valid, root_base. rewrite Hs.
        cbn [g_kind g_ridx g_off g_len g_nelem kind_of acc_base acc_len acc_nelem gr_map rg_addr rg_size].
        repeat split; try reflexivity; try lia.
      * destruct (N.eqb_spec (c_rootk c) RK_GREGION) as [Eq|Eq].
        -- unfold rel, rel_acc, acc_valid, root_base. rewrite Hs.
           cbn [g_kind g_ridx g_off g_len g_nelem kind_of acc_base acc_len acc_nelem gr_map rg_addr rg_size].
           repeat split; try reflexivity; try lia.
        -- exfalso. unfold is_slice_root, RK_REAL, RK_FAKE in Hs. unfold RK_GMEM, RK_REGION, RK_GREGION in *.
           apply orb_false_iff in Hs. destruct Hs as [H0 H1].
           apply N.eqb_neq in H0. apply N.eqb_neq in H1. lia.
Qed.

Lemma C01_model_ok_lemma : forall c, wf_case c -> ok_C01 c (run_C01 c) = true.
Proof.
  intros c Hwf. unfold ok_C01, run_C01. apply chain_ok_run.
  - intros Hs. destruct Hwf as [_ Hw]. rewrite Hs in Hw. exact (proj2 Hw).
  - apply root_rel. exact Hwf.
Qed.

(* the pointer additions on the way to an accessor meet the language precondition of ptr::add *)
Lemma ptr_arith_defined_lemma : forall m p op c, acc_valid p -> op_wf op ->
  derive m p op = Val (Ok c) -> ptr_add_defined (acc_base p) (acc_base c - acc_base p) /\
  acc_base c = acc_base p + (acc_base c - acc_base p).
Proof.
  intros m p op c Hv Hwf E. destruct (derive_contained_lemma m p op c Hv Hwf E) as [[H1 H2] H3].
  unfold ptr_add_defined, acc_valid in *. repeat split; lia.
Qed.

(* ================================================================== what an accepting verdict means
   (about the checker alone: whatever observation ok_C01 accepts, every accessor in it lies in the root) *)
Lemma result_kind_not_gmem k q rk : result_kind k q = Some rk -> kind_eqb rk KGMem = false.
Proof.
  destruct q; cbn [result_kind]; destruct k; cbn [is_vm]; intros E; inversion E; reflexivity.
Qed.

Lemma obs_extent_le_reach rk o ob : obs_extent rk o ob <= obs_reach rk o ob.
Proof. unfold obs_reach. destruct (o_glen ob =? GUARD_PANIC); lia. Qed.

Lemma checker_sound_gen c L : forall ops obs g,
  kind_eqb (g_kind g) KGMem = false -> g_off g + g_len g <= L ->
  chain_ok c g ops obs = true -> all_inside L g ops obs.
Proof.
  induction ops as [|o ops IH]; intros obs g Hk Hb H; destruct obs as [|ob obs]; cbn [chain_ok all_inside] in *;
    try exact I; try discriminate.
  apply andb_true_iff in H. destruct H as [H1 H2].
  unfold step_ok in H1. unfold obs_inside_root. unfold step_geom in *.
  destruct (N.eqb_spec (o_class ob) 0) as [Hc|Hc].
  - destruct (result_kind (g_kind g) (s_rq o)) as [rk|] eqn:RK; [|discriminate].
    apply andb_true_iff in H1. destruct H1 as [H1 _]. apply andb_true_iff in H1. destruct H1 as [_ H1].
    unfold containedb in H1. rewrite Hk in H1.
    apply andb_true_iff in H1. destruct H1 as [H1 H3]. apply andb_true_iff in H1. destruct H1 as [_ H1].
    apply N.leb_le in H1. apply N.leb_le in H3.
    split.
    + intros _. exists rk. split; [reflexivity|lia].
    + apply IH; try assumption; cbn [g_kind g_off g_len].
      * eapply result_kind_not_gmem; eassumption.
      * pose proof (obs_extent_le_reach rk o ob). lia.
  - split; [intros X; contradiction|]. apply IH; assumption.
Qed.

Lemma checker_sound_lemma : forall c obs, is_slice_root (c_rootk c) = true -> ok_C01 c obs = true ->
  all_inside (c_len c) (root_geom c) (c_ops c) obs.
Proof.
  intros c obs Hs H. unfold ok_C01 in H. apply checker_sound_gen with (c := c); try assumption;
    unfold root_geom; rewrite Hs; cbn [g_kind g_off g_len kind_eqb]; [reflexivity|lia].
Qed.
