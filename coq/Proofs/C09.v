(* C09 lemmas: the bitmap model (Impl/Bitmap.v) is a set of page numbers.
   Layout: 1 bit-level facts, 2 list facts, 3 primitives (fetch_or / fetch_and on a page),
   4 the range loop and the page arithmetic, 5 the remaining operations, 6 slices / routes,
   7 simulation of the reference sets (Spec/C09.v) and the checker theorem. *)
From VM Require Import Prelude.MachInt Prelude.Outcome Prelude.Tok Impl.Bitmap Spec.C09 Suite.C09.

(* ------------------------------------------------------------------ 1. bits *)
Lemma word_ix_eq i : word_ix i = N.to_nat (i / 64).
Proof. unfold word_ix. rewrite N.shiftr_div_pow2. change (2 ^ 6) with 64. reflexivity. Qed.

Lemma bit_mask_eq i : bit_mask i = 2 ^ (i mod 64).
Proof.
  unfold bit_mask. rewrite N.shiftl_1_l. change 63 with (N.ones 6). rewrite N.land_ones.
  change (2 ^ 6) with 64. reflexivity.
Qed.

Lemma land_pow2_eqb w k : (N.land w (2 ^ k) =? 0) = negb (N.testbit w k).
Proof.
  destruct (N.testbit w k) eqn:E; cbn [negb].
  - destruct (N.eqb_spec (N.land w (2 ^ k)) 0) as [H|H]; [|reflexivity]. exfalso.
    assert (Ht : N.testbit (N.land w (2 ^ k)) k = true)
      by (rewrite N.land_spec, E, N.pow2_bits_true; reflexivity).
    rewrite H, N.bits_0 in Ht. discriminate.
  - assert (H : N.land w (2 ^ k) = 0).
    { apply N.bits_inj_0. intros n. rewrite N.land_spec, N.pow2_bits_eqb.
      destruct (N.eqb_spec k n) as [->|Hn]; [rewrite E; reflexivity|apply andb_false_r]. }
    rewrite H. reflexivity.
Qed.

Lemma mod64_lt p : p mod 64 < 64.
Proof. apply N.mod_upper_bound. discriminate. Qed.

Lemma not64_pow2 k : k < 64 -> not64 (2 ^ k) = N.ldiff (N.ones 64) (2 ^ k).
Proof.
  intros Hk. unfold not64. rewrite W64_val.
  change (18446744073709551616 - 1) with (N.ones 64).
  apply N.sub_nocarry_ldiff. apply N.bits_inj_0. intros n.
  rewrite N.ldiff_spec, N.pow2_bits_eqb.
  destruct (N.eqb_spec k n) as [->|Hn]; [|reflexivity].
  rewrite N.ones_spec_low by assumption. reflexivity.
Qed.

Lemma not64_pow2_bit k i : k < 64 -> i < 64 -> N.testbit (not64 (2 ^ k)) i = negb (k =? i).
Proof.
  intros Hk Hi. rewrite not64_pow2 by assumption.
  rewrite N.ldiff_spec, N.ones_spec_low, N.pow2_bits_eqb by assumption. reflexivity.
Qed.

Lemma lt_W64_bits w : w < W64 <-> (forall i, 64 <= i -> N.testbit w i = false).
Proof.
  rewrite W64_eq. split.
  - intros Hw i Hi. destruct (N.eq_dec w 0) as [->|Hz]; [apply N.bits_0|].
    apply N.bits_above_log2. apply N.log2_lt_pow2 in Hw; lia.
  - intros H. destruct (N.eq_dec w 0) as [->|Hz]; [reflexivity|].
    apply N.log2_lt_pow2; [lia|].
    destruct (N.lt_ge_cases (N.log2 w) 64) as [Hl|Hl]; [assumption|].
    specialize (H _ Hl). rewrite N.bit_log2 in H by assumption. discriminate.
Qed.

Lemma lor_lt_W64 a b : a < W64 -> b < W64 -> N.lor a b < W64.
Proof.
  rewrite !lt_W64_bits. intros Ha Hb i Hi. rewrite N.lor_spec, Ha, Hb by assumption. reflexivity.
Qed.
Lemma land_lt_W64 a b : a < W64 -> N.land a b < W64.
Proof.
  rewrite !lt_W64_bits. intros Ha i Hi. rewrite N.land_spec, Ha by assumption. reflexivity.
Qed.
Lemma pow2_lt_W64 k : k < 64 -> 2 ^ k < W64.
Proof. intros Hk. rewrite W64_eq. apply N.pow_lt_mono_r; [reflexivity|assumption]. Qed.

(* recomposition of a page number from its word and bit *)
Lemma split64_eq p n : p / 64 = n / 64 -> p mod 64 = n mod 64 -> p = n.
Proof. intros Hq Hm. rewrite (N.div_mod' p 64), (N.div_mod' n 64), Hq, Hm. reflexivity. Qed.

(* ------------------------------------------------------------------ 2. lists *)
Lemma upd_length l i f : length (upd l i f) = length l.
Proof. revert i; induction l as [|x t IH]; intros [|i]; cbn [upd length]; auto. Qed.
Lemma nth_upd l i f j : (i < length l)%nat ->
  nth j (upd l i f) 0 = if Nat.eqb i j then f (nth i l 0) else nth j l 0.
Proof.
  revert i j; induction l as [|x t IH]; intros i j H; [cbn in H; lia|].
  destruct i, j; cbn [upd nth Nat.eqb]; auto. apply IH. cbn in H. lia.
Qed.
Lemma Forall_upd (P : N -> Prop) l i f :
  Forall P l -> (forall x, P x -> P (f x)) -> Forall P (upd l i f).
Proof.
  intros H Hf. revert i. induction H as [|x t Hx Ht IH]; intros [|i]; cbn [upd]; constructor; auto.
Qed.
Lemma nth_repeat0 i k : nth i (repeat 0 k) 0 = 0.
Proof. revert i; induction k as [|k IH]; intros [|i]; cbn [repeat nth]; auto. Qed.
Lemma nth_app_zeros l k i : nth i (l ++ repeat 0 k) 0 = nth i l 0.
Proof.
  destruct (Nat.lt_ge_cases i (length l)) as [H|H].
  - apply app_nth1. assumption.
  - rewrite app_nth2 by lia. rewrite nth_repeat0. symmetry. apply nth_overflow. assumption.
Qed.
Lemma nth_map_zero (l : list N) i : nth i (map (fun _ => 0) l) 0 = 0.
Proof. revert i; induction l as [|x t IH]; intros [|i]; cbn [map nth]; auto. Qed.
Lemma Forall_repeat0 k : Forall (fun w => w < W64) (repeat 0 k).
Proof. apply Forall_forall. intros x Hx. apply repeat_spec in Hx. subst. apply W64_pos. Qed.

Lemma nrange_from_nth k : forall a i, (i < k)%nat -> nth i (nrange_from k a) 0 = a + N.of_nat i.
Proof.
  induction k as [|k IH]; intros a i Hi; [lia|].
  destruct i as [|i]; cbn [nrange_from nth]; [lia|]. rewrite IH by lia. lia.
Qed.
Lemma nrange_from_length k : forall a, length (nrange_from k a) = k.
Proof. induction k as [|k IH]; intros a; cbn [nrange_from length]; auto. Qed.
Lemma nrange_from_In k : forall a x, In x (nrange_from k a) <-> a <= x < a + N.of_nat k.
Proof.
  induction k as [|k IH]; intros a x; cbn [nrange_from In].
  - split; [tauto|lia].
  - rewrite IH. lia.
Qed.
Lemma nrange_In n x : In x (nrange n) <-> x < n.
Proof. unfold nrange. rewrite nrange_from_In. lia. Qed.

Lemma memo_eq n f p : memo n f p = f p.
Proof.
  unfold memo. destruct (N.ltb_spec p n) as [H|H]; [|reflexivity].
  unfold nrange.
  assert (Hl : (N.to_nat p < N.to_nat n)%nat) by lia.
  rewrite (nth_indep _ false (f 0)) by (rewrite map_length, nrange_from_length; assumption).
  rewrite map_nth. rewrite nrange_from_nth by assumption. f_equal. lia.
Qed.

(* ------------------------------------------------------------------ 3. primitives *)
Definition same_geom (b' b : bitmap) : Prop :=
  bm_size b' = bm_size b /\ bm_byte_size b' = bm_byte_size b /\ bm_ps b' = bm_ps b.

Lemma div_ceil_64_range size n : n < size -> (N.to_nat (n / 64) < N.to_nat (div_ceil size 64))%nat.
Proof. unfold div_ceil. intros H. lia. Qed.

Lemma word_in_range b n : bm_inv b -> n < bm_size b -> (N.to_nat (n / 64) < length (bm_words b))%nat.
Proof.
  intros (Hl & _) Hn. apply (div_ceil_64_range _ _) in Hn. lia.
Qed.

Lemma abs_raw b p : bm_inv b -> abs_pages b p = raw_bit b p.
Proof.
  intros (_ & _ & _ & _ & _ & Hhi). unfold abs_pages.
  destruct (N.ltb_spec p (bm_size b)) as [H|H]; [reflexivity|]. cbn [andb]. symmetry. apply Hhi. assumption.
Qed.
Lemma abs_lt_size b p : abs_pages b p = true -> p < bm_size b.
Proof. unfold abs_pages. intros H. apply andb_true_iff in H. destruct H as [H _]. apply N.ltb_lt. assumption. Qed.

(* raw effect of the two read-modify-write steps on every page *)
Lemma raw_fetch_or b n p : (N.to_nat (n / 64) < length (bm_words b))%nat ->
  raw_bit (with_words b (upd (bm_words b) (word_ix n) (fun w => N.lor w (bit_mask n)))) p
  = raw_bit b p || (p =? n).
Proof.
  intros Hr. unfold raw_bit, with_words; cbn [bm_words]. rewrite word_ix_eq, bit_mask_eq.
  rewrite nth_upd by assumption.
  destruct (Nat.eqb_spec (N.to_nat (n / 64)) (N.to_nat (p / 64))) as [E|E].
  - rewrite N.lor_spec, N.pow2_bits_eqb. rewrite E. f_equal.
    assert (Hq : p / 64 = n / 64) by lia.
    destruct (N.eqb_spec (n mod 64) (p mod 64)) as [Hm|Hm]; destruct (N.eqb_spec p n) as [Hpn|Hpn];
      try reflexivity; exfalso.
    + apply Hpn. apply split64_eq; auto.
    + subst. apply Hm. reflexivity.
  - destruct (N.eqb_spec p n) as [->|Hpn]; [exfalso; apply E; reflexivity|]. rewrite orb_false_r. reflexivity.
Qed.
Lemma raw_fetch_andn b n p : (N.to_nat (n / 64) < length (bm_words b))%nat ->
  raw_bit (with_words b (upd (bm_words b) (word_ix n) (fun w => N.land w (not64 (bit_mask n))))) p
  = raw_bit b p && negb (p =? n).
Proof.
  intros Hr. unfold raw_bit, with_words; cbn [bm_words]. rewrite word_ix_eq, bit_mask_eq.
  rewrite nth_upd by assumption.
  destruct (Nat.eqb_spec (N.to_nat (n / 64)) (N.to_nat (p / 64))) as [E|E].
  - rewrite N.land_spec, not64_pow2_bit by apply mod64_lt. rewrite E. f_equal.
    assert (Hq : p / 64 = n / 64) by lia.
    destruct (N.eqb_spec (n mod 64) (p mod 64)) as [Hm|Hm]; destruct (N.eqb_spec p n) as [Hpn|Hpn];
      try reflexivity; exfalso.
    + apply Hpn. apply split64_eq; auto.
    + subst. apply Hm. reflexivity.
  - destruct (N.eqb_spec p n) as [->|Hpn]; [exfalso; apply E; reflexivity|]. rewrite andb_true_r. reflexivity.
Qed.

Lemma inv_with_words b ws :
  bm_inv b -> length ws = length (bm_words b) -> Forall (fun w => w < W64) ws ->
  (forall p, bm_size b <= p -> raw_bit (with_words b ws) p = false) -> bm_inv (with_words b ws).
Proof.
  intros (Hl & Hs & Hps & Hbs & Hw & Hhi) Hlen Hws Hraw.
  unfold bm_inv, with_words; cbn [bm_words bm_size bm_byte_size bm_ps].
  rewrite Hlen. repeat split; auto.
Qed.

Lemma fetch_or_at_spec site b n : bm_inv b -> n < bm_size b ->
  exists b', fetch_or_at site b n = Val b' /\ bm_inv b' /\ same_geom b' b /\
             forall p, abs_pages b' p = abs_pages b p || (p =? n).
Proof.
  intros HI Hn. pose proof (word_in_range _ _ HI Hn) as Hr.
  unfold fetch_or_at.
  destruct (nth_error (bm_words b) (word_ix n)) eqn:E;
    [|apply nth_error_None in E; rewrite word_ix_eq in E; lia].
  eexists; split; [reflexivity|].
  assert (Hraw : forall p, raw_bit (with_words b (upd (bm_words b) (word_ix n) (fun w => N.lor w (bit_mask n)))) p
                           = raw_bit b p || (p =? n)) by (intros p; apply raw_fetch_or; assumption).
  assert (HI' : bm_inv (with_words b (upd (bm_words b) (word_ix n) (fun w => N.lor w (bit_mask n))))).
  { apply inv_with_words; auto.
    - apply upd_length.
    - apply Forall_upd; [apply HI|]. intros x Hx. apply lor_lt_W64; [assumption|].
      rewrite bit_mask_eq. apply pow2_lt_W64, mod64_lt.
    - intros p Hp. rewrite Hraw. destruct HI as (_ & _ & _ & _ & _ & Hhi). rewrite Hhi by assumption.
      destruct (N.eqb_spec p n); [lia|reflexivity]. }
  split; [exact HI'|]. split; [repeat split|].
  intros p. rewrite (abs_raw _ _ HI'), (abs_raw _ _ HI). apply Hraw.
Qed.

Lemma fetch_andn_at_spec site b n : bm_inv b -> n < bm_size b ->
  exists b', fetch_andn_at site b n = Val b' /\ bm_inv b' /\ same_geom b' b /\
             forall p, abs_pages b' p = abs_pages b p && negb (p =? n).
Proof.
  intros HI Hn. pose proof (word_in_range _ _ HI Hn) as Hr.
  unfold fetch_andn_at.
  destruct (nth_error (bm_words b) (word_ix n)) eqn:E;
    [|apply nth_error_None in E; rewrite word_ix_eq in E; lia].
  eexists; split; [reflexivity|].
  assert (Hraw : forall p, raw_bit (with_words b (upd (bm_words b) (word_ix n) (fun w => N.land w (not64 (bit_mask n))))) p
                           = raw_bit b p && negb (p =? n)) by (intros p; apply raw_fetch_andn; assumption).
  assert (HI' : bm_inv (with_words b (upd (bm_words b) (word_ix n) (fun w => N.land w (not64 (bit_mask n)))))).
  { apply inv_with_words; auto.
    - apply upd_length.
    - apply Forall_upd; [apply HI|]. intros x Hx. apply land_lt_W64; assumption.
    - intros p Hp. rewrite Hraw. destruct HI as (_ & _ & _ & _ & _ & Hhi). rewrite Hhi by assumption. reflexivity. }
  split; [exact HI'|]. split; [repeat split|].
  intros p. rewrite (abs_raw _ _ HI'), (abs_raw _ _ HI). apply Hraw.
Qed.

(* ------------------------------------------------------------------ 4. the range loop *)
Definition in_rng (n last size p : N) : bool := (n <=? p) && (p <=? last) && (p <? size).
Definition rng_effect (set : bool) (old hit : bool) : bool := if set then old || hit else old && negb hit.

Lemma same_geom_refl b : same_geom b b.
Proof. unfold same_geom. auto. Qed.
Ltac ex_same b HI := exists b; split; [reflexivity|]; split; [exact HI|]; split; [apply same_geom_refl|].
Lemma same_geom_trans a b c : same_geom a b -> same_geom b c -> same_geom a c.
Proof. unfold same_geom. intros (H1 & H2 & H3) (H4 & H5 & H6). repeat split; congruence. Qed.

Lemma range_loop_spec : forall fuel n last b set, bm_inv b ->
  (N.to_nat (bm_size b - n) < fuel)%nat ->
  exists b', range_loop fuel n last b set = Val b' /\ bm_inv b' /\ same_geom b' b /\
    forall p, abs_pages b' p = rng_effect set (abs_pages b p) (in_rng n last (bm_size b) p).
Proof.
  induction fuel as [|f IH]; intros n last b set HI Hf; [lia|].
  cbn [range_loop].
  destruct (N.ltb_spec last n) as [Hl|Hl].
  { ex_same b HI. intros p. unfold in_rng, rng_effect.
    destruct (N.leb_spec n p); destruct (N.leb_spec p last); cbn [andb]; try lia;
      destruct set; rewrite ?orb_false_r, ?andb_true_r; reflexivity. }
  destruct (N.leb_spec (bm_size b) n) as [Hs|Hs].
  { ex_same b HI. intros p. unfold in_rng, rng_effect.
    destruct (N.leb_spec n p); destruct (N.ltb_spec p (bm_size b)); cbn [andb]; try lia;
      rewrite ?andb_false_r; destruct set; rewrite ?orb_false_r, ?andb_true_r; reflexivity. }
  assert (Hstep : exists b1, (if set then fetch_or_at 96 b n else fetch_andn_at 98 b n) = Val b1 /\
            bm_inv b1 /\ same_geom b1 b /\
            forall p, abs_pages b1 p = rng_effect set (abs_pages b p) (p =? n)).
  { destruct set.
    - destruct (fetch_or_at_spec 96 b n HI Hs) as (b1 & E & HI1 & G & A). exists b1; auto.
    - destruct (fetch_andn_at_spec 98 b n HI Hs) as (b1 & E & HI1 & G & A). exists b1; auto. }
  destruct Hstep as (b1 & E1 & HI1 & G1 & A1). rewrite E1. cbn [bind].
  assert (Hsz : bm_size b1 = bm_size b) by apply G1.
  destruct (IH (n + 1) last b1 set HI1) as (b' & E' & HI' & G' & A'); [rewrite Hsz; lia|].
  exists b'. split; [exact E'|]. split; [exact HI'|]. split; [eapply same_geom_trans; eauto|].
  intros p. rewrite A', A1, Hsz. unfold in_rng, rng_effect.
  destruct (abs_pages b p); destruct set; cbn [orb andb negb];
  destruct (N.eqb_spec p n); destruct (N.leb_spec (n + 1) p); destruct (N.leb_spec n p);
  destruct (N.leb_spec p last); destruct (N.ltb_spec p (bm_size b)); cbn [orb andb negb]; try reflexivity; lia.
Qed.

(* page arithmetic: quotients against products *)
Lemma div_le_iff m d p : 0 < d -> (p <= m / d <-> p * d <= m).
Proof.
  intros Hd. pose proof (N.div_mod' m d) as E. pose proof (N.mod_upper_bound m d ltac:(lia)) as Hr.
  remember (m / d) as q. remember (m mod d) as r. split; intros H; nia.
Qed.
Lemma div_lt_iff a d p : 0 < d -> (a / d <= p <-> a < (p + 1) * d).
Proof.
  intros Hd. pose proof (N.div_mod' a d) as E. pose proof (N.mod_upper_bound a d ltac:(lia)) as Hr.
  remember (a / d) as q. remember (a mod d) as r. split; intros H; nia.
Qed.

(* the byte range [a, a+l) (clipped to usize values) touches page p *)
Definition touches (page a l p : N) : Prop := exists x, a <= x /\ x < a + l /\ x < W64 /\ x / page = p.

Lemma overlaps_iff page a l p : 0 < page -> a < W64 ->
  (overlaps page a l p = true <-> touches page a l p).
Proof.
  intros Hp HaW. unfold overlaps, touches. rewrite !andb_true_iff, !N.ltb_lt, N.leb_le. split.
  - intros [[[Hl Ha] Hb] Hc]. exists (N.max a (p * page)).
    split; [lia|]. split; [lia|]. split; [lia|].
    apply N.le_antisymm.
    + apply div_lt_iff; [assumption|]. lia.
    + apply div_le_iff; [assumption|]. lia.
  - intros (x & H1 & H2 & H3 & H4).
    assert (Hx1 : x / page <= p) by lia. assert (Hx2 : p <= x / page) by lia.
    apply div_lt_iff in Hx1; [|assumption]. apply div_le_iff in Hx2; [|assumption]. lia.
Qed.

Lemma in_rng_overlaps page a l size p : 0 < page -> a < W64 -> 0 < l ->
  in_rng (a / page) (saturating_add a (l - 1) / page) size p = (p <? size) && overlaps page a l p.
Proof.
  intros Hp Ha Hl. unfold in_rng, overlaps, saturating_add.
  apply eq_true_iff_eq. rewrite !andb_true_iff, !N.ltb_lt, !N.leb_le.
  rewrite (div_lt_iff a page p Hp), (div_le_iff _ page p Hp). lia.
Qed.

Lemma set_reset_spec b a l set : bm_inv b -> a < W64 ->
  exists b', set_reset_addr_range_o b a l set = Val b' /\ bm_inv b' /\ same_geom b' b /\
    forall p, abs_pages b' p =
      rng_effect set (abs_pages b p) ((p <? bm_size b) && overlaps (bm_ps b) a l p).
Proof.
  intros HI Ha. unfold set_reset_addr_range_o.
  destruct (N.eqb_spec l 0) as [->|Hl].
  - ex_same b HI. intros p. unfold overlaps. change (0 <? 0) with false. cbn [andb].
    rewrite andb_false_r. unfold rng_effect. destruct set; rewrite ?orb_false_r, ?andb_true_r; reflexivity.
  - assert (Hps : 0 < bm_ps b) by apply HI.
    assert (Hfuel : forall q, (N.to_nat (bm_size b - q) < S (S (N.to_nat (bm_size b))))%nat) by (intros q; lia).
    destruct (range_loop_spec (S (S (N.to_nat (bm_size b)))) (a / bm_ps b)
                (saturating_add a (l - 1) / bm_ps b) b set HI) as (b' & E & HI' & G & A); [apply Hfuel|].
    exists b'. split; [exact E|]. split; [exact HI'|]. split; [exact G|].
    intros p. rewrite A. rewrite in_rng_overlaps by lia. reflexivity.
Qed.

(* ------------------------------------------------------------------ 5. the other operations *)
Lemma is_bit_set_spec b i : bm_inv b -> bm_is_bit_set_o b i = Val (abs_pages b i).
Proof.
  intros HI. unfold bm_is_bit_set_o, abs_pages.
  destruct (N.ltb_spec i (bm_size b)) as [H|H]; [|reflexivity].
  pose proof (word_in_range _ _ HI H) as Hr.
  destruct (nth_error (bm_words b) (word_ix i)) eqn:E;
    [|apply nth_error_None in E; rewrite word_ix_eq in E; lia].
  rewrite bit_mask_eq, land_pow2_eqb, negb_involutive. cbn [andb]. unfold raw_bit.
  rewrite word_ix_eq in E. rewrite (nth_error_nth _ _ 0 E). reflexivity.
Qed.
Lemma is_addr_set_spec b a : bm_inv b -> bm_is_addr_set_o b a = Val (abs_pages b (a / bm_ps b)).
Proof. intros HI. unfold bm_is_addr_set_o. apply is_bit_set_spec. assumption. Qed.

Lemma set_bit_spec b i : bm_inv b ->
  exists b', bm_set_bit_o b i = Val b' /\ bm_inv b' /\ same_geom b' b /\
    forall p, abs_pages b' p = abs_pages b p || ((p =? i) && (i <? bm_size b)).
Proof.
  intros HI. unfold bm_set_bit_o. destruct (N.leb_spec (bm_size b) i) as [H|H].
  - ex_same b HI. intros p. destruct (N.ltb_spec i (bm_size b)); [lia|].
    rewrite andb_false_r, orb_false_r. reflexivity.
  - destruct (fetch_or_at_spec 116 b i HI H) as (b' & E & HI' & G & A).
    exists b'. split; [exact E|]. split; [exact HI'|]. split; [exact G|].
    intros p. rewrite A. destruct (N.ltb_spec i (bm_size b)); [|lia]. rewrite andb_true_r. reflexivity.
Qed.
Lemma reset_bit_spec b i : bm_inv b ->
  exists b', bm_reset_bit_o b i = Val b' /\ bm_inv b' /\ same_geom b' b /\
    forall p, abs_pages b' p = abs_pages b p && negb (p =? i).
Proof.
  intros HI. unfold bm_reset_bit_o. destruct (N.leb_spec (bm_size b) i) as [H|H].
  - ex_same b HI. intros p. destruct (N.eqb_spec p i) as [->|Hn]; [|rewrite andb_true_r; reflexivity].
    cbn [negb]. rewrite andb_false_r. unfold abs_pages. destruct (N.ltb_spec i (bm_size b)); [lia|reflexivity].
  - destruct (fetch_andn_at_spec 125 b i HI H) as (b' & E & HI' & G & A).
    exists b'. split; [exact E|]. split; [exact HI'|]. split; [exact G|]. exact A.
Qed.

Lemma pages_for_div_ceil n page : 0 < page -> pages_for n page = div_ceil n page.
Proof.
  intros Hp. unfold pages_for, div_ceil.
  pose proof (N.div_mod' n page) as E. pose proof (N.mod_upper_bound n page ltac:(lia)) as Hr.
  remember (n / page) as q. remember (n mod page) as r.
  destruct (N.eqb_spec r 0) as [Hz|Hz].
  - apply (N.div_unique _ _ _ (page - 1)); [lia|]. nia.
  - apply (N.div_unique _ _ _ (r - 1)); [lia|]. nia.
Qed.
Lemma div_ceil_mono a b d : 0 < d -> a <= b -> div_ceil a d <= div_ceil b d.
Proof. intros Hd H. unfold div_ceil. apply N.div_le_mono; lia. Qed.

Lemma new_inv bytes ps : 0 < ps -> bytes < W64 -> bm_inv (bm_new bytes ps).
Proof.
  intros Hps Hb. unfold bm_inv, bm_new; cbn [bm_words bm_size bm_byte_size bm_ps].
  rewrite repeat_length, N2Nat.id. repeat split; auto.
  - apply Forall_repeat0.
  - intros p _. unfold raw_bit; cbn [bm_words]. rewrite nth_repeat0. apply N.bits_0.
Qed.
Lemma new_abs bytes ps p : abs_pages (bm_new bytes ps) p = false.
Proof.
  unfold abs_pages, raw_bit, bm_new; cbn [bm_words bm_size]. rewrite nth_repeat0, N.bits_0. apply andb_false_r.
Qed.

Lemma enlarge_spec m b add : bm_inv b -> bm_byte_size b + add < W64 ->
  exists b', bm_enlarge_o m b add = Val b' /\ bm_inv b' /\
    bm_byte_size b' = bm_byte_size b + add /\ bm_ps b' = bm_ps b /\
    bm_size b' = div_ceil (bm_byte_size b + add) (bm_ps b) /\ bm_size b <= bm_size b' /\
    forall p, abs_pages b' p = abs_pages b p.
Proof.
  intros HI Hov. unfold bm_enlarge_o. rewrite padd_Val by assumption. cbn [bind].
  eexists; split; [reflexivity|].
  destruct HI as (Hl & Hs & Hps & Hbs & Hw & Hhi).
  set (size' := div_ceil (bm_byte_size b + add) (bm_ps b)).
  assert (Hmono : bm_size b <= size') by (rewrite Hs; apply div_ceil_mono; lia).
  assert (Hlen : (length (bm_words b) <= N.to_nat (div_ceil size' 64))%nat).
  { assert (div_ceil (bm_size b) 64 <= div_ceil size' 64) by (apply div_ceil_mono; lia). lia. }
  assert (Hres : resize (bm_words b) (N.to_nat (div_ceil size' 64))
                 = bm_words b ++ repeat 0 (N.to_nat (div_ceil size' 64) - length (bm_words b))).
  { unfold resize. rewrite firstn_all2 by assumption. reflexivity. }
  assert (Hraw : forall p, raw_bit {| bm_words := resize (bm_words b) (N.to_nat (div_ceil size' 64));
                    bm_size := size'; bm_byte_size := bm_byte_size b + add; bm_ps := bm_ps b |} p = raw_bit b p).
  { intros p. unfold raw_bit; cbn [bm_words]. rewrite Hres, nth_app_zeros. reflexivity. }
  split; [|repeat split; auto].
  - unfold bm_inv; cbn [bm_words bm_size bm_byte_size bm_ps]. repeat split; auto.
    + rewrite Hres, app_length, repeat_length. lia.
    + rewrite Hres. apply Forall_app. split; [assumption|apply Forall_repeat0].
    + intros p Hp. rewrite Hraw. apply Hhi. lia.
  - intros p. unfold abs_pages at 1. cbn [bm_size]. rewrite Hraw.
    destruct (N.ltb_spec p size') as [H|H]; cbn [andb].
    + symmetry. apply abs_raw. repeat split; auto.
    + unfold abs_pages. destruct (N.ltb_spec p (bm_size b)); [lia|reflexivity].
Qed.

Lemma map_land0 (l : list N) : map (fun w => N.land w 0) l = map (fun _ => 0) l.
Proof. apply map_ext. intros w. apply N.land_0_r. Qed.

Lemma cleared_inv b : bm_inv b -> bm_inv (with_words b (map (fun _ => 0) (bm_words b))).
Proof.
  intros HI. apply inv_with_words; auto.
  - apply map_length.
  - apply Forall_forall. intros x Hx. apply in_map_iff in Hx. destruct Hx as (y & <- & _). apply W64_pos.
  - intros p _. unfold raw_bit, with_words; cbn [bm_words]. rewrite nth_map_zero. apply N.bits_0.
Qed.
Lemma cleared_abs b p : abs_pages (with_words b (map (fun _ => 0) (bm_words b))) p = false.
Proof.
  unfold abs_pages, raw_bit, with_words; cbn [bm_words bm_size]. rewrite nth_map_zero, N.bits_0. apply andb_false_r.
Qed.

Lemma get_and_reset_spec b : bm_inv b ->
  let '(ws, b') := bm_get_and_reset b in
  ws = bm_words b /\ bm_inv b' /\ same_geom b' b /\ (forall p, abs_pages b' p = false).
Proof.
  intros HI. unfold bm_get_and_reset. rewrite map_id, map_land0.
  split; [reflexivity|]. split; [apply cleared_inv; assumption|]. split; [repeat split|]. apply cleared_abs.
Qed.
Lemma reset_spec b : bm_inv b ->
  bm_inv (bm_reset b) /\ same_geom (bm_reset b) b /\ (forall p, abs_pages (bm_reset b) p = false).
Proof.
  intros HI. unfold bm_reset. split; [apply cleared_inv; assumption|]. split; [repeat split|]. apply cleared_abs.
Qed.
Lemma clone_eq b : bm_clone b = b.
Proof. unfold bm_clone. rewrite map_id. destruct b; reflexivity. Qed.

(* the harvested words are exactly the set: bit i of word w is page 64w+i, nothing at or beyond
   the page count, every word a u64 *)
Lemma words_bits b w i : bm_inv b -> i < 64 ->
  N.testbit (nth (N.to_nat w) (bm_words b) 0) i = abs_pages b (64 * w + i).
Proof.
  intros HI Hi. rewrite (abs_raw _ _ HI). unfold raw_bit.
  replace ((64 * w + i) / 64) with w by (apply (N.div_unique _ _ _ i); [assumption|reflexivity]).
  replace ((64 * w + i) mod 64) with i by (apply (N.mod_unique _ _ w); [assumption|reflexivity]).
  reflexivity.
Qed.

(* ------------------------------------------------------------------ 6. slices and routes *)
Lemma W64_nz : W64 <> 0.
Proof. pose proof W64_pos. lia. Qed.

Lemma chain_fold rest : forall acc, acc < W64 ->
  fold_left bs_slice_at rest acc = (acc + fold_right N.add 0 rest) mod W64.
Proof.
  induction rest as [|o rest IH]; intros acc Hacc; cbn [fold_left fold_right].
  - rewrite N.add_0_r, N.mod_small by assumption. reflexivity.
  - rewrite IH by (unfold bs_slice_at, wrapping_add; apply N.mod_upper_bound, W64_nz).
    unfold bs_slice_at, wrapping_add. rewrite N.add_mod_idemp_l by apply W64_nz. f_equal. lia.
Qed.

Lemma slice_compose_lemma : forall base o1 o2,
  bs_slice_at (bs_slice_at base o1) o2 = (base + o1 + o2) mod W64.
Proof.
  intros base o1 o2. unfold bs_slice_at, wrapping_add.
  rewrite N.add_mod_idemp_l by apply W64_nz. reflexivity.
Qed.

Lemma view_target chain off : forallb u64b chain = true -> off < W64 ->
  match chain with
  | [] => off
  | o1 :: rest => wrapping_add (chain_base o1 rest) off
  end = view_addr chain off.
Proof.
  intros Hc Ho. unfold view_addr. destruct chain as [|o1 rest]; cbn [fold_right].
  - rewrite N.add_0_l, N.mod_small by assumption. reflexivity.
  - cbn [forallb] in Hc. apply andb_true_iff in Hc. destruct Hc as [H1 _]. apply N.ltb_lt in H1.
    unfold chain_base, bs_new. rewrite chain_fold by assumption. unfold wrapping_add.
    rewrite N.add_mod_idemp_l by apply W64_nz. reflexivity.
Qed.

Lemma view_mark_live r chain b off len : route_live r = true -> forallb u64b chain = true -> off < W64 ->
  view_mark_o r chain b off len = bm_mark_dirty_o b (view_addr chain off) len.
Proof.
  intros Hr Hc Ho. rewrite <- (view_target chain off Hc Ho).
  destruct r; try discriminate; destruct chain; reflexivity.
Qed.
Lemma view_dirty_live r chain b off : route_live r = true -> forallb u64b chain = true -> off < W64 ->
  view_dirty_at_o r chain b off = bm_dirty_at_o b (view_addr chain off).
Proof.
  intros Hr Hc Ho. rewrite <- (view_target chain off Hc Ho).
  destruct r; try discriminate; destruct chain; reflexivity.
Qed.
Lemma view_mark_dead r chain b off len : route_live r = false -> view_mark_o r chain b off len = Val b.
Proof. destruct r; try discriminate; reflexivity. Qed.
Lemma view_dirty_dead r chain b off : route_live r = false -> view_dirty_at_o r chain b off = Val false.
Proof. destruct r; try discriminate; reflexivity. Qed.

Lemma view_addr_lt chain off : view_addr chain off < W64.
Proof. unfold view_addr. apply N.mod_upper_bound, W64_nz. Qed.

(* ------------------------------------------------------------------ 7. simulation *)
Definition sim (b : bitmap) (s : pset) : Prop :=
  bm_inv b /\ bm_size b = ps_count s /\ bm_byte_size b = ps_bytes s /\ bm_ps b = ps_page s /\
  forall p, abs_pages b p = ps_mem s p.

Ltac sim_split := unfold sim; split; [|split; [|split; [|split]]].
Lemma sim_norm b s : sim b s -> sim b (norm s).
Proof.
  intros (HI & H1 & H2 & H3 & H4). unfold norm, with_mem. sim_split; cbn [ps_count ps_bytes ps_page ps_mem]; auto.
  intros p. rewrite memo_eq. apply H4.
Qed.

Lemma sim_slot_ok b s : sim b s -> slot_ok s (slot_obs_of b) = true.
Proof.
  intros (HI & H1 & H2 & H3 & H4). unfold slot_ok, slot_obs_of, bm_len, bm_get_byte_size;
    cbn [so_len so_bytes so_set so_addr].
  rewrite H1, H2, H3, !N.eqb_refl. cbn [andb]. apply andb_true_iff. split.
  - apply list_eqb_eq. apply filter_ext. intros p. unfold bm_is_bit_set.
    rewrite is_bit_set_spec by assumption. cbn [val_or]. apply H4.
  - apply list_eqb_eq. apply filter_ext. intros a. unfold bm_dirty_at, bm_dirty_at_o.
    rewrite is_addr_set_spec by assumption. cbn [val_or]. rewrite H3. apply H4.
Qed.
Lemma sims_slots_ok st ss : Forall2 sim st ss -> slots_ok ss (map slot_obs_of st) = true.
Proof.
  induction 1 as [|b s st ss Hs _ IH]; cbn [map slots_ok]; [reflexivity|].
  rewrite (sim_slot_ok _ _ Hs), IH. reflexivity.
Qed.

Lemma Forall2_lookup {A B} (R : A -> B -> Prop) l1 l2 i y :
  Forall2 R l1 l2 -> nth_error l2 i = Some y -> exists x, nth_error l1 i = Some x /\ R x y.
Proof.
  intros H. revert i. induction H as [|a b l1 l2 Hab _ IH]; intros [|i] E; cbn [nth_error] in *; try discriminate.
  - inversion E; subst. eauto.
  - apply IH. assumption.
Qed.
Lemma Forall2_set_nth {A B} (R : A -> B -> Prop) l1 l2 i x y :
  Forall2 R l1 l2 -> R x y -> Forall2 R (set_nth l1 i x) (set_nth l2 i y).
Proof.
  intros H Hxy. revert i. induction H as [|a b l1 l2 Hab Ht IH]; intros [|i]; cbn [set_nth]; constructor; auto.
Qed.
Lemma sim_update st ss i b' x' : Forall2 sim st ss -> sim b' x' ->
  Forall2 sim (set_nth st i b') (set_nth ss i (norm x')).
Proof. intros H Hs. apply Forall2_set_nth; [assumption|apply sim_norm; assumption]. Qed.

Lemma harvest_words_ok b x : sim b x -> words_ok x (bm_words b) = true.
Proof.
  intros (HI & H1 & H2 & H3 & H4). unfold words_ok.
  assert (Hlen : N.of_nat (length (bm_words b)) = pages_for (ps_count x) 64).
  { rewrite pages_for_div_ceil by reflexivity. rewrite <- H1. apply HI. }
  rewrite Hlen, N.eqb_refl. cbn [andb]. apply andb_true_iff. split.
  - apply forallb_forall. intros w Hw. apply N.ltb_lt.
    destruct HI as (_ & _ & _ & _ & HF & _). rewrite Forall_forall in HF. apply HF. assumption.
  - apply forallb_forall. intros w _. apply forallb_forall. intros i Hi. apply nrange_In in Hi.
    rewrite (words_bits _ _ _ HI Hi), H4.
    destruct (ps_mem x (64 * w + i)) eqn:E; cbn [andb]; [|reflexivity].
    rewrite <- H4 in E. apply abs_lt_size in E. rewrite H1 in E.
    destruct (N.ltb_spec (64 * w + i) (ps_count x)); [reflexivity|lia].
Qed.

Lemma step_sim m st ss o : Forall2 sim st ss -> wf_op o = true ->
  match spec_step ss o with
  | Outside => True
  | Next ss' e => Forall2 sim (fst (model_step m st o)) ss' /\ res_ok e (snd (model_step m st o)) = true
  end.
Proof.
  intros HF Hwf.
  destruct o as [s a l|s a l|s i|s i|s add|s|s|s|s r chain off len|s r chain off|s a|s i];
    cbn [spec_step model_step]; unfold on_slot, m_on;
    (destruct (nth_error ss (N.to_nat s)) as [x|] eqn:Ex; [|exact I]);
    destruct (Forall2_lookup _ _ _ _ _ HF Ex) as (b & Eb & Hs); rewrite Eb;
    pose proof Hs as (HI & H1 & H2 & H3 & H4); cbn [wf_op] in Hwf; unfold u64b in Hwf;
    rewrite ?andb_true_iff, ?N.ltb_lt in Hwf.
  - (* set_addr_range *)
    destruct Hwf as [Ha Hl]. unfold bm_set_addr_range_o.
    destruct (set_reset_spec b a l true HI Ha) as (b' & E & HI' & (G1 & G2 & G3) & A).
    rewrite E. cbn [m_upd upd_slot fst snd res_ok]. split; [|reflexivity].
    apply sim_update; [assumption|]. unfold ps_add_range, with_mem; sim_split; cbn [ps_count ps_bytes ps_page ps_mem]; try assumption; try congruence.
    all: intros p; rewrite A; cbn [rng_effect]; rewrite H4, H1, H3; reflexivity.
  - (* reset_addr_range *)
    destruct Hwf as [Ha Hl]. unfold bm_reset_addr_range_o.
    destruct (set_reset_spec b a l false HI Ha) as (b' & E & HI' & (G1 & G2 & G3) & A).
    rewrite E. cbn [m_upd upd_slot fst snd res_ok]. split; [|reflexivity].
    apply sim_update; [assumption|]. unfold ps_del_range, with_mem; sim_split; cbn [ps_count ps_bytes ps_page ps_mem]; try assumption; try congruence.
    all: intros p; rewrite A; cbn [rng_effect]; rewrite H4, H3;
      destruct (ps_mem x p) eqn:Em; cbn [andb]; [|reflexivity];
      rewrite <- H4 in Em; apply abs_lt_size in Em; destruct (N.ltb_spec p (bm_size b)); [reflexivity|lia].
  - (* set_bit *)
    destruct (set_bit_spec b i HI) as (b' & E & HI' & (G1 & G2 & G3) & A).
    rewrite E. cbn [m_upd upd_slot fst snd res_ok]. split; [|reflexivity].
    apply sim_update; [assumption|]. unfold ps_add_page, with_mem; sim_split; cbn [ps_count ps_bytes ps_page ps_mem]; try assumption; try congruence.
    all: intros p; rewrite A, H4, H1; reflexivity.
  - (* reset_bit *)
    destruct (reset_bit_spec b i HI) as (b' & E & HI' & (G1 & G2 & G3) & A).
    rewrite E. cbn [m_upd upd_slot fst snd res_ok]. split; [|reflexivity].
    apply sim_update; [assumption|]. unfold ps_del_page, with_mem; sim_split; cbn [ps_count ps_bytes ps_page ps_mem]; try assumption; try congruence.
    all: intros p; rewrite A, H4; reflexivity.
  - (* enlarge *)
    rewrite <- H2. destruct (N.ltb_spec (bm_byte_size b + add) W64) as [Hov|Hov]; [|exact I].
    destruct (enlarge_spec m b add HI Hov) as (b' & E & HI' & G2 & G3 & G1 & _ & A).
    rewrite E. cbn [m_upd upd_slot fst snd res_ok]. split; [|reflexivity].
    apply sim_update; [assumption|]. unfold ps_enlarge; sim_split; cbn [ps_count ps_bytes ps_page ps_mem];
      rewrite <- ?H2, <- ?H3, ?pages_for_div_ceil by apply HI; try assumption; try congruence.
    all: intros p; rewrite A; apply H4.
  - (* clone *)
    cbn [fst snd res_ok]. split; [|reflexivity]. apply Forall2_app; [assumption|].
    constructor; [|constructor]. rewrite clone_eq. assumption.
  - (* get_and_reset *)
    pose proof (get_and_reset_spec b HI) as Hg. destruct (bm_get_and_reset b) as [ws b'].
    destruct Hg as (Ews & HI' & (G1 & G2 & G3) & A). cbn [upd_slot fst snd res_ok]. split.
    + apply sim_update; [assumption|]. unfold ps_clear, with_mem; sim_split; cbn [ps_count ps_bytes ps_page ps_mem]; try assumption; try congruence. 
    + subst ws. apply harvest_words_ok. assumption.
  - (* reset *)
    destruct (reset_spec b HI) as (HI' & (G1 & G2 & G3) & A). cbn [upd_slot fst snd res_ok]. split; [|reflexivity].
    apply sim_update; [assumption|]. unfold ps_clear, with_mem; sim_split; cbn [ps_count ps_bytes ps_page ps_mem]; try assumption; try congruence.
  - (* mark through a view *)
    destruct Hwf as [[Hc Ho] Hl].
    destruct (route_live r) eqn:Er.
    + rewrite view_mark_live by assumption. unfold bm_mark_dirty_o, bm_set_addr_range_o.
      destruct (set_reset_spec b (view_addr chain off) len true HI (view_addr_lt _ _))
        as (b' & E & HI' & (G1 & G2 & G3) & A).
      rewrite E. cbn [m_upd upd_slot fst snd res_ok]. split; [|reflexivity].
      apply sim_update; [assumption|]. unfold ps_add_range, with_mem; sim_split; cbn [ps_count ps_bytes ps_page ps_mem]; try assumption; try congruence.
    all: intros p; rewrite A; cbn [rng_effect]; rewrite H4, H1, H3; reflexivity.
    + rewrite view_mark_dead by assumption. cbn [m_upd fst snd res_ok]. split; [|reflexivity].
      replace (set_nth st (N.to_nat s) b) with st; [assumption|].
      clear -Eb. revert Eb. generalize (N.to_nat s). induction st as [|y t IH]; intros [|k] E; cbn in *; try discriminate.
      * inversion E; reflexivity.
      * f_equal. apply IH. assumption.
  - (* dirty_at through a view *)
    destruct Hwf as [Hc Ho].
    destruct (route_live r) eqn:Er.
    + rewrite view_dirty_live by assumption. unfold bm_dirty_at_o. rewrite is_addr_set_spec by assumption.
      cbn [m_bool fst snd res_ok andb]. split; [assumption|]. rewrite H3, H4.
      destruct (ps_mem x (view_addr chain off / ps_page x)); reflexivity.
    + rewrite view_dirty_dead by assumption. cbn [m_bool fst snd res_ok andb]. split; [assumption|reflexivity].
  - (* is_addr_set *)
    rewrite is_addr_set_spec by assumption. cbn [m_bool fst snd res_ok]. split; [assumption|].
    rewrite H3, H4. destruct (ps_mem x (a / ps_page x)); reflexivity.
  - (* is_bit_set *)
    rewrite is_bit_set_spec by assumption. cbn [m_bool fst snd res_ok]. split; [assumption|].
    rewrite H4. destruct (ps_mem x i); reflexivity.
Qed.

Lemma judge_model m : forall ops st ss, Forall2 sim st ss -> forallb wf_op ops = true ->
  judge ss ops (model_run m st ops) = true.
Proof.
  induction ops as [|o ops IH]; intros st ss HF Hwf; cbn [judge model_run]; [reflexivity|].
  cbn [forallb] in Hwf. apply andb_true_iff in Hwf. destruct Hwf as [Ho Hops].
  pose proof (step_sim m st ss o HF Ho) as Hstep.
  destruct (model_step m st o) as [st' r] eqn:EM. cbn [judge].
  destruct (spec_step ss o) as [|ss' e]; [reflexivity|].
  cbn [fst snd] in Hstep. destruct Hstep as [HF' Hr]. cbn [st_res st_slots].
  rewrite Hr, (sims_slots_ok _ _ HF'), (IH _ _ HF' Hops). reflexivity.
Qed.

Lemma sim_new bytes ps : 0 < ps -> bytes < W64 -> sim (bm_new bytes ps) (ps_new bytes ps).
Proof.
  intros Hps Hb. unfold ps_new. sim_split; cbn [ps_count ps_bytes ps_page ps_mem];
    rewrite ?pages_for_div_ceil by assumption; try reflexivity.
  - apply new_inv; assumption.
  - intros p. apply new_abs.
Qed.

Lemma C09_model_ok_lemma : forall c, wf_case c = true -> ok_C09 c (run_C09 c) = true.
Proof.
  intros c Hwf. unfold wf_case, u64b in Hwf. rewrite !andb_true_iff, !N.ltb_lt in Hwf.
  destruct Hwf as [[[Hps _] Hb] Hops].
  assert (HF : Forall2 sim [bm_new (c_bytes c) (c_ps c)] [ps_new (c_bytes c) (c_ps c)])
    by (constructor; [apply sim_new; assumption|constructor]).
  unfold ok_C09, run_C09. cbn [st_res st_slots].
  rewrite (sims_slots_ok _ _ HF), (judge_model _ _ _ _ HF Hops). reflexivity.
Qed.

(* ------------------------------------------------------------------ 8. Prop-level readings *)
Lemma new_lemma : forall bytes ps, 0 < ps -> bytes < W64 ->
  bm_inv (bm_new bytes ps) /\ bm_len (bm_new bytes ps) = div_ceil bytes ps /\
  bm_get_byte_size (bm_new bytes ps) = bytes /\
  (forall k, k * ps >= bytes <-> bm_len (bm_new bytes ps) <= k) /\
  forall p, abs_pages (bm_new bytes ps) p = false.
Proof.
  intros bytes ps Hps Hb. split; [apply new_inv; assumption|]. split; [reflexivity|]. split; [reflexivity|].
  split; [|apply new_abs].
  intros k. unfold bm_len, bm_new; cbn [bm_size]. unfold div_ceil.
  pose proof (N.div_mod' (bytes + ps - 1) ps) as E.
  pose proof (N.mod_upper_bound (bytes + ps - 1) ps ltac:(lia)) as Hr.
  remember ((bytes + ps - 1) / ps) as q. remember ((bytes + ps - 1) mod ps) as r. split; intros H; nia.
Qed.

(* the constructors with the implicit page size: with_len(len) is the EMPTY set over ceil(len / 4096) pages - the
   least k with k * 4096 >= len, so a trailing partial page is tracked - and satisfies the invariant;
   default() is the empty bitmap of zero pages (which enlarge then grows: C09_enlarge) *)
Lemma with_len_lemma : forall len, len < W64 ->
  bm_with_len len = bm_new len 4096 /\
  bm_inv (bm_with_len len) /\ bm_len (bm_with_len len) = div_ceil len 4096 /\
  bm_get_byte_size (bm_with_len len) = len /\
  (forall k, k * 4096 >= len <-> bm_len (bm_with_len len) <= k) /\
  (forall p, abs_pages (bm_with_len len) p = false) /\
  (forall i, i < len -> i / 4096 < bm_len (bm_with_len len)).
Proof.
  intros len Hl. split; [reflexivity|]. unfold bm_with_len, host_page.
  destruct (new_lemma len 4096 ltac:(lia) Hl) as (A & B & C & D & E).
  split; [exact A|]. split; [exact B|]. split; [exact C|]. split; [exact D|]. split; [exact E|].
  intros i Hi. destruct (N.lt_ge_cases (i / 4096) (bm_len (bm_new len 4096))) as [L|L]; [exact L|exfalso].
  apply D in L. pose proof (N.mul_div_le i 4096 ltac:(lia)). nia.
Qed.

Lemma default_lemma :
  bm_default = bm_new 0 4096 /\ bm_inv bm_default /\ bm_len bm_default = 0 /\ bm_get_byte_size bm_default = 0 /\
  forall p, abs_pages bm_default p = false.
Proof.
  split; [reflexivity|]. unfold bm_default.
  destruct (new_lemma 0 4096 ltac:(lia) ltac:(rewrite W64_val; lia)) as (A & B & C & _ & E).
  split; [exact A|]. split; [rewrite B; reflexivity|]. split; [exact C|exact E].
Qed.

Lemma rng_set_iff (old hit : bool) : rng_effect true old hit = true <-> old = true \/ hit = true.
Proof. cbn [rng_effect]. apply orb_true_iff. Qed.
Lemma rng_reset_iff (old hit : bool) : rng_effect false old hit = true <-> old = true /\ hit <> true.
Proof. cbn [rng_effect]. destruct old, hit; cbn [andb negb]; intuition congruence. Qed.

Lemma set_range_lemma : forall b a l, bm_inv b -> a < W64 ->
  exists b', bm_set_addr_range_o b a l = Val b' /\ bm_inv b' /\
    bm_len b' = bm_len b /\ bm_get_byte_size b' = bm_get_byte_size b /\ bm_ps b' = bm_ps b /\
    forall p, abs_pages b' p = true <-> abs_pages b p = true \/ (p < bm_len b /\ touches (bm_ps b) a l p).
Proof.
  intros b a l HI Ha. destruct (set_reset_spec b a l true HI Ha) as (b' & E & HI' & (G1 & G2 & G3) & A).
  exists b'. split; [exact E|]. split; [exact HI'|]. split; [exact G1|]. split; [exact G2|]. split; [exact G3|].
  intros p. rewrite A, rng_set_iff, andb_true_iff, N.ltb_lt, overlaps_iff by (try apply HI; assumption). reflexivity.
Qed.
Lemma reset_range_lemma : forall b a l, bm_inv b -> a < W64 ->
  exists b', bm_reset_addr_range_o b a l = Val b' /\ bm_inv b' /\
    bm_len b' = bm_len b /\ bm_get_byte_size b' = bm_get_byte_size b /\ bm_ps b' = bm_ps b /\
    forall p, abs_pages b' p = true <-> abs_pages b p = true /\ ~ touches (bm_ps b) a l p.
Proof.
  intros b a l HI Ha. destruct (set_reset_spec b a l false HI Ha) as (b' & E & HI' & (G1 & G2 & G3) & A).
  exists b'. split; [exact E|]. split; [exact HI'|]. split; [exact G1|]. split; [exact G2|]. split; [exact G3|].
  intros p. rewrite A, rng_reset_iff, andb_true_iff, N.ltb_lt, overlaps_iff by (try apply HI; assumption).
  split; intros [H1 H2]; (split; [assumption|]).
  - intros Ht. apply H2. split; [apply abs_lt_size; assumption|assumption].
  - intros [_ Ht]. apply H2. assumption.
Qed.

Lemma single_bit_lemma : forall b i, bm_inv b ->
  (exists b', bm_set_bit_o b i = Val b' /\ bm_inv b' /\ bm_len b' = bm_len b /\
     bm_get_byte_size b' = bm_get_byte_size b /\ bm_ps b' = bm_ps b /\
     forall p, abs_pages b' p = true <-> abs_pages b p = true \/ (p = i /\ i < bm_len b)) /\
  (exists b', bm_reset_bit_o b i = Val b' /\ bm_inv b' /\ bm_len b' = bm_len b /\
     bm_get_byte_size b' = bm_get_byte_size b /\ bm_ps b' = bm_ps b /\
     forall p, abs_pages b' p = true <-> abs_pages b p = true /\ p <> i).
Proof.
  intros b i HI. split.
  - destruct (set_bit_spec b i HI) as (b' & E & HI' & (G1 & G2 & G3) & A).
    exists b'. split; [exact E|]. split; [exact HI'|]. split; [exact G1|]. split; [exact G2|]. split; [exact G3|].
    intros p. rewrite A, orb_true_iff, andb_true_iff, N.eqb_eq, N.ltb_lt. reflexivity.
  - destruct (reset_bit_spec b i HI) as (b' & E & HI' & (G1 & G2 & G3) & A).
    exists b'. split; [exact E|]. split; [exact HI'|]. split; [exact G1|]. split; [exact G2|]. split; [exact G3|].
    intros p. rewrite A, andb_true_iff, negb_true_iff, N.eqb_neq. reflexivity.
Qed.

Lemma reads_lemma : forall b, bm_inv b ->
  (forall i, bm_is_bit_set_o b i = Val (abs_pages b i)) /\
  (forall a, bm_is_addr_set_o b a = Val (abs_pages b (a / bm_ps b))) /\
  (forall a, bm_dirty_at_o b a = Val (abs_pages b (a / bm_ps b))) /\
  (forall p, abs_pages b p = true -> p < bm_len b).
Proof.
  intros b HI. split; [intros; apply is_bit_set_spec; assumption|].
  split; [intros; apply is_addr_set_spec; assumption|].
  split; [intros; apply is_addr_set_spec; assumption|]. intros p. apply abs_lt_size.
Qed.

Lemma harvest_lemma : forall b, bm_inv b ->
  let ws := fst (bm_get_and_reset b) in let b' := snd (bm_get_and_reset b) in
  N.of_nat (length ws) = div_ceil (bm_len b) 64 /\ Forall (fun w => w < W64) ws /\
  (forall w i, i < 64 -> N.testbit (nth (N.to_nat w) ws 0) i = abs_pages b (64 * w + i)) /\
  (forall w i, i < 64 -> N.testbit (nth (N.to_nat w) ws 0) i = true -> 64 * w + i < bm_len b) /\
  bm_inv b' /\ bm_len b' = bm_len b /\ bm_get_byte_size b' = bm_get_byte_size b /\ bm_ps b' = bm_ps b /\
  (forall p, abs_pages b' p = false).
Proof.
  intros b HI. pose proof (get_and_reset_spec b HI) as H. destruct (bm_get_and_reset b) as [ws b'].
  cbn [fst snd]. destruct H as (-> & HI' & (G1 & G2 & G3) & A).
  split; [apply HI|]. split; [apply HI|]. split; [intros; apply words_bits; assumption|].
  split; [|auto 10].
  intros w i Hi Ht. rewrite words_bits in Ht by assumption. apply abs_lt_size. assumption.
Qed.

Lemma reset_lemma : forall b, bm_inv b ->
  bm_inv (bm_reset b) /\ bm_len (bm_reset b) = bm_len b /\
  bm_get_byte_size (bm_reset b) = bm_get_byte_size b /\ forall p, abs_pages (bm_reset b) p = false.
Proof. intros b HI. destruct (reset_spec b HI) as (H1 & (G1 & G2 & G3) & A). auto. Qed.

Lemma enlarge_lemma : forall m b add, bm_inv b -> bm_get_byte_size b + add < W64 ->
  exists b', bm_enlarge_o m b add = Val b' /\ bm_inv b' /\
    bm_get_byte_size b' = bm_get_byte_size b + add /\ bm_ps b' = bm_ps b /\
    bm_len b' = div_ceil (bm_get_byte_size b + add) (bm_ps b) /\ bm_len b <= bm_len b' /\
    forall p, abs_pages b' p = abs_pages b p.
Proof. intros m b add HI Hov. apply enlarge_spec; assumption. Qed.

(* what is outside the property: a sum that does not fit a usize panics with overflow checks and
   wraps without them; after the wrap the bitmap is smaller and may keep a bit at or beyond its
   new page count (visible to get_and_reset) *)
Definition wrap_witness : bitmap :=
  {| bm_words := [1152921504606846976; 0]; bm_size := 100; bm_byte_size := 100; bm_ps := 1 |}.
Lemma wrap_witness_inv : bm_inv wrap_witness.
Proof.
  unfold bm_inv, wrap_witness; cbn [bm_words bm_size bm_byte_size bm_ps].
  split; [reflexivity|]. split; [reflexivity|]. split; [reflexivity|].
  split; [rewrite W64_val; reflexivity|].
  split; [repeat constructor; rewrite W64_val; reflexivity|].
  intros p Hp. unfold raw_bit; cbn [bm_words].
  assert (Hq : 1 <= p / 64) by (apply N.div_le_lower_bound; lia).
  destruct (N.to_nat (p / 64)) as [|[|k]] eqn:E; [lia| |]; cbn [nth].
  - apply N.bits_0.
  - destruct k; apply N.bits_0.
Qed.
Lemma enlarge_overflow_lemma :
  bm_inv wrap_witness /\ W64 <= bm_get_byte_size wrap_witness + (W64 - 50) /\
  (exists s, bm_enlarge_o Debug wrap_witness (W64 - 50) = Panic s) /\
  exists b', bm_enlarge_o Release wrap_witness (W64 - 50) = Val b' /\ bm_len b' = 50 /\
             raw_bit b' 60 = true /\ ~ bm_inv b'.
Proof.
  split; [apply wrap_witness_inv|]. split; [unfold wrap_witness, bm_get_byte_size; cbn [bm_byte_size]; lia|].
  rewrite W64_val. split; [eexists; vm_compute; reflexivity|].
  eexists. split; [vm_compute; reflexivity|]. split; [reflexivity|]. split; [reflexivity|].
  intros (_ & _ & _ & _ & _ & Hhi). specialize (Hhi 60). cbn [bm_size] in Hhi.
  assert (Hf : true = false) by (apply Hhi; discriminate). discriminate.
Qed.

Lemma view_lemma : forall r chain b off len, forallb u64b chain = true -> off < W64 ->
  (route_live r = true ->
     view_mark_o r chain b off len = bm_mark_dirty_o b ((fold_right N.add 0 chain + off) mod W64) len /\
     view_dirty_at_o r chain b off = bm_dirty_at_o b ((fold_right N.add 0 chain + off) mod W64)) /\
  (route_live r = false ->
     view_mark_o r chain b off len = Val b /\ view_dirty_at_o r chain b off = Val false).
Proof.
  intros r chain b off len Hc Ho. split; intros Hr.
  - split; [apply view_mark_live|apply view_dirty_live]; assumption.
  - split; [apply view_mark_dead|apply view_dirty_dead]; assumption.
Qed.

(* whole histories: final states *)
Fixpoint model_final (m : mode) (st : list bitmap) (ops : list op09) {struct ops} : list bitmap :=
  match ops with [] => st | o :: ops' => model_final m (fst (model_step m st o)) ops' end.
Fixpoint spec_final (ss : list pset) (ops : list op09) {struct ops} : option (list pset) :=
  match ops with
  | [] => Some ss
  | o :: ops' => match spec_step ss o with Outside => None | Next ss' _ => spec_final ss' ops' end
  end.

Lemma history_lemma : forall m bytes ps ops ss', 0 < ps -> bytes < W64 -> forallb wf_op ops = true ->
  spec_final [ps_new bytes ps] ops = Some ss' ->
  Forall2 sim (model_final m [bm_new bytes ps] ops) ss'.
Proof.
  intros m bytes ps ops ss' Hps Hb.
  assert (HF : Forall2 sim [bm_new bytes ps] [ps_new bytes ps])
    by (constructor; [apply sim_new; assumption|constructor]).
  revert HF. generalize [bm_new bytes ps] as st, [ps_new bytes ps] as ss.
  induction ops as [|o ops IH]; intros st ss HF Hwf Hfin; cbn [model_final spec_final] in *.
  - inversion Hfin; subst. assumption.
  - cbn [forallb] in Hwf. apply andb_true_iff in Hwf. destruct Hwf as [Ho Hops].
    pose proof (step_sim m st ss o HF Ho) as Hstep.
    destruct (spec_step ss o) as [|ss1 e]; [discriminate|]. destruct Hstep as [HF' _].
    apply (IH _ _ HF' Hops Hfin).
Qed.
