(* C09 lemmas. *)
From VM Require Import Prelude.MachInt Prelude.Outcome Prelude.Tok Impl.Bitmap Spec.C09 Suite.C09.

Lemma slice_compose_lemma : forall base o1 o2, base < W64 ->
  bs_slice_at (bs_slice_at base o1) o2 = (base + o1 + o2) mod W64.
Proof.
  intros base o1 o2 _. unfold bs_slice_at, wrapping_add.
  rewrite N.add_mod_idemp_l by (rewrite W64_val; discriminate). reflexivity.
Qed.
