From VM Require Import Prelude.MachInt Prelude.Tok Impl.Owner Spec.C12 Suite.C12.
From Coq Require Import Sorting.Permutation.

Fixpoint iter {A} (n : nat) (f : A -> A) (x : A) {struct n} : A := match n with O => x | S k => f (iter k f x) end.
Lemma iter_succ_r {A} n (f : A -> A) x : iter (S n) f x = iter n f (f x).
Proof. induction n as [|n IH]; [reflexivity|]. cbn [iter] in *. rewrite IH. reflexivity. Qed.

(* ------------------------------------------------------------------ one region's record *)
Definition K (x : rrec) (n : nat) : Prop :=
  r_strong x = n /\ r_ub x = false /\
  (if r_owned x
   then (r_live x = true /\ r_unmaps x = O /\ (0 < n)%nat) \/ (r_live x = false /\ r_unmaps x = 1%nat /\ n = O)
   else r_live x = true /\ r_unmaps x = O).

Lemma K_clone x n : K x n -> (0 < n)%nat -> K (clone1 x) (S n).
Proof.
  intros (A & B & C) P. unfold clone1, with_strong, K; cbn. split; [congruence|]. split; [exact B|].
  destruct (r_owned x); [|exact C]. destruct C as [(C1 & C2 & _)|(_ & _ & C3)]; [left; repeat split; try assumption; lia|lia].
Qed.
Lemma K_drop x n : K x (S n) -> K (drop1 x) n.
Proof.
  intros (A & B & C). unfold drop1. rewrite A. destruct n as [|n].
  - unfold drop_region, with_strong, K; cbn. destruct (r_owned x) eqn:O; cbn; rewrite ?O.
    + split; [reflexivity|]. split; [exact B|]. right. destruct C as [(_ & C2 & _)|(_ & _ & C3)]; [|lia].
      rewrite C2. repeat split.
    + split; [reflexivity|]. split; [exact B|exact C].
  - unfold with_strong, K; cbn. split; [reflexivity|]. split; [exact B|].
    destruct (r_owned x); [|exact C]. destruct C as [(C1 & C2 & _)|(_ & _ & C3)]; [left; repeat split; try assumption; lia|lia].
Qed.
Lemma K_clone_iter c : forall x n, K x n -> ((0 < c)%nat -> (0 < n)%nat) -> K (iter c clone1 x) (n + c).
Proof.
  induction c as [|c IH]; intros x n HK P; [change (iter 0 clone1 x) with x; rewrite Nat.add_0_r; exact HK|cbn [iter]].
  replace (n + S c)%nat with (S (n + c)) by lia. apply K_clone; [|lia]. apply IH; [exact HK|intros _; apply P; lia].
Qed.
Lemma K_drop_iter c : forall x n, K x (n + c) -> K (iter c drop1 x) n.
Proof.
  induction c as [|c IH]; intros x n HK; [change (iter 0 drop1 x) with x; rewrite Nat.add_0_r in HK; exact HK|cbn [iter]].
  apply K_drop. apply IH. replace (S n + c)%nat with (n + S c)%nat by lia. exact HK.
Qed.

Lemma iter_static f c x : (forall y, r_kind (f y) = r_kind y /\ r_slot (f y) = r_slot y /\ r_owned (f y) = r_owned y) ->
  r_kind (iter c f x) = r_kind x /\ r_slot (iter c f x) = r_slot x /\ r_owned (iter c f x) = r_owned x.
Proof.
  intros H. induction c as [|c IH]; [change (iter 0 f x) with x; repeat split|cbn [iter]].
  destruct (H (iter c f x)) as (A & B & C). destruct IH as (A' & B' & C'). repeat split; congruence.
Qed.
Lemma clone1_static y : r_kind (clone1 y) = r_kind y /\ r_slot (clone1 y) = r_slot y /\ r_owned (clone1 y) = r_owned y.
Proof. repeat split. Qed.
Lemma drop1_static y : r_kind (drop1 y) = r_kind y /\ r_slot (drop1 y) = r_slot y /\ r_owned (drop1 y) = r_owned y.
Proof. unfold drop1, drop_region, with_strong. destruct (r_strong y) as [|[|n]]; cbn; [repeat split| |repeat split].
  destruct (r_owned y); repeat split. Qed.

Lemma clone_arcs_at rs : forall f r, clone_arcs rs f r = iter (count r rs) clone1 (f r).
Proof.
  induction rs as [|x t IH]; intros f r; cbn [clone_arcs count]; [reflexivity|].
  rewrite IH. unfold updf. destruct (N.eqb_spec r x); [subst|reflexivity].
  cbn [Nat.add]. rewrite iter_succ_r. reflexivity.
Qed.
Lemma drop_arcs_at rs : forall f r, drop_arcs rs f r = iter (count r rs) drop1 (f r).
Proof.
  induction rs as [|x t IH]; intros f r; cbn [drop_arcs count]; [reflexivity|].
  rewrite IH. unfold updf. destruct (N.eqb_spec r x); [subst|reflexivity].
  cbn [Nat.add]. rewrite iter_succ_r. reflexivity.
Qed.

Lemma count_app r a b : count r (a ++ b) = (count r a + count r b)%nat.
Proof. induction a as [|x a IH]; cbn [count app]; [reflexivity|rewrite IH; lia]. Qed.
Lemma count_pos_In r l : (0 < count r l)%nat <-> In r l.
Proof.
  induction l as [|x l IH]; cbn [count In]; [split; [lia|tauto]|].
  destruct (N.eqb_spec r x); [subst; split; [tauto|lia]|]. rewrite <- IH. split; [intros H; right; lia|intros [E|H]; [congruence|lia]].
Qed.
Lemma count_insert_sorted f r x l : count r (insert_sorted f x l) = count r (x :: l).
Proof.
  induction l as [|y l IH]; cbn [insert_sorted]; [reflexivity|].
  destruct (start_of f x <? start_of f y); [reflexivity|]. cbn [count] in *. rewrite IH. lia.
Qed.
Lemma count_sort f r l : count r (sort_by_start f l) = count r l.
Proof. induction l as [|x l IH]; cbn [sort_by_start]; [reflexivity|]. rewrite count_insert_sorted. cbn [count]. rewrite IH. reflexivity. Qed.
Lemma count_remove_nth r i : forall l, (i < length l)%nat ->
  count r l = (count r (remove_nth i l) + (if N.eqb r (nth i l 0%N) then 1 else 0))%nat.
Proof.
  induction i as [|i IH]; intros [|x l] L; cbn in L; try lia; cbn [remove_nth nth count]; [lia|].
  rewrite (IH l) by lia. lia.
Qed.
Lemma find_start_lt f base : forall rs i, find_start f base rs = Some i -> (i < length rs)%nat.
Proof.
  induction rs as [|r t IH]; intros i H; cbn [find_start] in H; [discriminate|].
  destruct (start_of f r =? base); [inversion H; cbn; lia|].
  destruct (find_start f base t) as [j|]; [|discriminate]. inversion H; subst. cbn. specialize (IH j eq_refl). lia.
Qed.

(* ------------------------------------------------------------------ counting owners *)
Lemma hrefs_app r a b : hrefs r (a ++ b) = (hrefs r a + hrefs r b)%nat.
Proof. induction a as [|[h|] a IH]; cbn [hrefs app]; try rewrite IH; lia. Qed.
Lemma hrefs_set_none r l i h : nth_error l i = Some (Some h) ->
  hrefs r l = (hrefs r (set_nth l i None) + href r h)%nat.
Proof.
  revert i. induction l as [|x l IH]; intros [|i] H; cbn in H; try discriminate.
  - inversion H; subst. cbn [set_nth hrefs]. lia.
  - cbn [set_nth hrefs]. destruct x as [x|]; rewrite (IH i H); lia.
Qed.
Lemma hrefs_ge r l i h : nth_error l i = Some (Some h) -> (href r h <= hrefs r l)%nat.
Proof. intros H. rewrite (hrefs_set_none r l i h H). lia. Qed.
Lemma srefs_app r a b : srefs r (a ++ b) = (srefs r a + srefs r b)%nat.
Proof. induction a as [|x a IH]; cbn [srefs app]; try rewrite IH; lia. Qed.
Lemma srefs_set r l a sn sn' : nth_error l a = Some sn ->
  (srefs r (set_nth l a sn') + count r (s_regions sn) = srefs r l + count r (s_regions sn'))%nat.
Proof.
  revert a. induction l as [|x l IH]; intros [|a] H; cbn in H; try discriminate.
  - inversion H; subst. cbn [set_nth srefs]. lia.
  - cbn [set_nth srefs]. specialize (IH a H). lia.
Qed.
Lemma srefs_ge r l a sn : nth_error l a = Some sn -> (count r (s_regions sn) <= srefs r l)%nat.
Proof.
  revert a. induction l as [|x l IH]; intros [|a] H; cbn in H; try discriminate; cbn [srefs].
  - inversion H; subst. lia.
  - specialize (IH a H). lia.
Qed.
Lemma snap_handles_app a x y : snap_handles a (x ++ y) = (snap_handles a x + snap_handles a y)%nat.
Proof. induction x as [|[[r|rs|a']|] x IH]; cbn [snap_handles app]; try rewrite IH; lia. Qed.
Definition is_snap (a : nat) (h : handle) : nat := match h with HSnap a' => if Nat.eqb a a' then 1%nat else O | _ => O end.
Lemma snap_handles_set_none a l i h : nth_error l i = Some (Some h) ->
  snap_handles a l = (snap_handles a (set_nth l i None) + is_snap a h)%nat.
Proof.
  revert i. induction l as [|x l IH]; intros [|i] H; cbn in H; try discriminate.
  - inversion H; subst. cbn [set_nth snap_handles]. destruct h; cbn [is_snap snap_handles]; lia.
  - cbn [set_nth]. specialize (IH i H). destruct x as [[r|rs|a']|]; cbn [snap_handles]; lia.
Qed.
Lemma snap_handles_no_snap a l : (forall h, In h l -> forall a', h <> HSnap a') -> snap_handles a (map Some l) = O.
Proof.
  induction l as [|h l IH]; intros H; cbn [map snap_handles]; [reflexivity|].
  destruct h as [r|rs|a']; try (apply IH; intros h' Hin; apply H; right; exact Hin).
  exfalso. apply (H (HSnap a') (or_introl eq_refl) a'). reflexivity.
Qed.

Lemma get_handle_Some s i h : get_handle s i = Some h -> nth_error (handles s) i = Some (Some h).
Proof. unfold get_handle. destruct (nth_error (handles s) i) as [[x|]|]; intros H; inversion H; reflexivity. Qed.
Lemma nth_error_set_nth {A} (l : list A) i j v :
  nth_error (set_nth l i v) j = if Nat.eqb i j then (match nth_error l i with Some _ => Some v | None => None end) else nth_error l j.
Proof.
  revert i j. induction l as [|x l IH]; intros [|i] [|j]; cbn; try reflexivity.
  - destruct (Nat.eqb i j); reflexivity.
  - apply IH.
Qed.
Lemma set_nth_length {A} (l : list A) i v : length (set_nth l i v) = length l.
Proof. revert i. induction l as [|x l IH]; intros [|i]; cbn; try reflexivity. rewrite IH. reflexivity. Qed.

(* ------------------------------------------------------------------ the invariant *)
Record Inv (s : state) : Prop := {
  J_reg : forall r, r < nreg s -> K (reg s r) (owners r s);
  J_fresh : forall r, nreg s <= r -> owners r s = O;
  J_kind : forall r, r < nreg s -> r_owned (reg s r) = negb (r_kind (reg s r) =? 2);
  J_snap : forall a sn, nth_error (snaps s) a = Some sn ->
             s_strong sn = snap_handles a (handles s) /\ (s_strong sn = O -> s_regions sn = []);
  J_snapfresh : forall a, (length (snaps s) <= a)%nat -> snap_handles a (handles s) = O
}.

Lemma Inv_init : Inv init.
Proof.
  constructor; cbn; intros.
  - lia.
  - reflexivity.
  - lia.
  - destruct a; discriminate.
  - reflexivity.
Qed.

(* cloning the Arcs of L (all owned by someone) and handing them to new non-snapshot handles *)
Lemma inv_push s L new : Inv s ->
  (forall r, In r L -> (0 < owners r s)%nat) ->
  (forall r, hrefs r (map Some new) = count r L) ->
  (forall h, In h new -> forall a', h <> HSnap a') ->
  Inv (push s (clone_arcs L (reg s)) new).
Proof.
  intros HI Hown Hcnt Hns.
  assert (Ow : forall r, owners r (push s (clone_arcs L (reg s)) new) = (owners r s + count r L)%nat).
  { intros r. unfold owners, push; cbn [handles snaps]. rewrite hrefs_app, Hcnt. lia. }
  constructor; cbn [push reg nreg snaps handles]; fold (push s (clone_arcs L (reg s)) new).
  - intros r Hr. rewrite Ow, clone_arcs_at. apply K_clone_iter; [apply (J_reg s HI); exact Hr|].
    intros P. apply Hown, count_pos_In, P.
  - intros r Hr. rewrite Ow. rewrite (J_fresh s HI r Hr).
    destruct (count r L) eqn:C; [reflexivity|exfalso].
    assert (In r L) by (apply count_pos_In; lia). specialize (Hown r H). rewrite (J_fresh s HI r Hr) in Hown. lia.
  - intros r Hr. rewrite clone_arcs_at.
    destruct (iter_static clone1 (count r L) (reg s r) clone1_static) as (A & _ & C). rewrite A, C. apply (J_kind s HI); exact Hr.
  - intros a sn H. rewrite snap_handles_app, (snap_handles_no_snap a new Hns), Nat.add_0_r. apply (J_snap s HI); exact H.
  - intros a H. rewrite snap_handles_app, (snap_handles_no_snap a new Hns), Nat.add_0_r. apply (J_snapfresh s HI); exact H.
Qed.

(* the library cloned the Arcs of L and then dropped them all again (an Err path) *)
Lemma inv_fail s L L' : Inv s ->
  (forall r, In r L -> (0 < owners r s)%nat) ->
  (forall r, count r L' = count r L) ->
  Inv (with_reg s (drop_arcs L' (clone_arcs L (reg s)))).
Proof.
  intros HI Hown Hcnt.
  constructor; cbn [with_reg reg nreg snaps handles]; try apply HI.
  - intros r Hr. change (owners r (with_reg s (drop_arcs L' (clone_arcs L (reg s))))) with (owners r s).
    rewrite drop_arcs_at, clone_arcs_at, Hcnt. apply K_drop_iter. apply K_clone_iter; [apply (J_reg s HI); exact Hr|].
    intros P. apply Hown, count_pos_In, P.
  - intros r Hr. rewrite drop_arcs_at, clone_arcs_at.
    destruct (iter_static drop1 (count r L') (iter (count r L) clone1 (reg s r)) drop1_static) as (A & _ & C).
    destruct (iter_static clone1 (count r L) (reg s r) clone1_static) as (A' & _ & C').
    rewrite A, C, A', C'. apply (J_kind s HI); exact Hr.
Qed.

Lemma handle_owned s i h r : nth_error (handles s) i = Some (Some h) -> (0 < href r h)%nat -> (0 < owners r s)%nat.
Proof. intros H P. unfold owners. pose proof (hrefs_ge r _ i h H). lia. Qed.

Lemma region_handles_owned s : forall hs rs, region_handles s hs = Some rs ->
  forall r, In r rs -> (0 < owners r s)%nat.
Proof.
  induction hs as [|h t IH]; intros rs H r Hin; cbn [region_handles] in H.
  - inversion H; subst. destruct Hin.
  - destruct (get_handle s h) as [[r0|?|?]|] eqn:G; try discriminate.
    destruct (region_handles s t) as [l|]; [|discriminate]. inversion H; subst.
    destruct Hin as [->|Hin]; [|eapply IH; [reflexivity|exact Hin]].
    apply get_handle_Some in G. eapply handle_owned; [exact G|]. cbn. rewrite N.eqb_refl. lia.
Qed.

(* dropping a region handle or a map handle *)
Lemma inv_drop s i h L : Inv s -> nth_error (handles s) i = Some (Some h) ->
  (forall r, href r h = count r L) -> (forall a, is_snap a h = O) ->
  Inv {| reg := drop_arcs L (reg s); nreg := nreg s; snaps := snaps s; handles := set_nth (handles s) i None |}.
Proof.
  intros HI H Hc Hs.
  set (s' := {| reg := drop_arcs L (reg s); nreg := nreg s; snaps := snaps s; handles := set_nth (handles s) i None |}).
  assert (Ow : forall r, owners r s = (owners r s' + count r L)%nat).
  { intros r. unfold owners, s'; cbn [handles snaps]. rewrite (hrefs_set_none r _ i h H), Hc. lia. }
  constructor; cbn [s' reg nreg snaps handles]; fold s'.
  - intros r Hr. rewrite drop_arcs_at. apply K_drop_iter. rewrite <- Ow. apply (J_reg s HI); exact Hr.
  - intros r Hr. pose proof (J_fresh s HI r Hr). rewrite Ow in H0. lia.
  - intros r Hr. rewrite drop_arcs_at.
    destruct (iter_static drop1 (count r L) (reg s r) drop1_static) as (A & _ & C). rewrite A, C. apply (J_kind s HI); exact Hr.
  - intros a sn Hn. destruct (J_snap s HI a sn Hn) as [A B]. split; [|exact B].
    rewrite A, (snap_handles_set_none a _ i h H), Hs. lia.
  - intros a Ha. pose proof (J_snapfresh s HI a Ha) as Z. rewrite (snap_handles_set_none a _ i h H), Hs in Z. lia.
Qed.

Lemma exec_Inv o s : Inv s -> Inv (fst (exec o s)).
Proof.
  intros HI. destruct o as [kind slot|hs|hm hr|hm base size|h|hm|h]; cbn [exec].
  - (* Create *)
    cbn [fst].
    set (x := {| r_kind := kind; r_slot := slot; r_owned := negb (kind =? 2); r_strong := 1; r_live := true; r_unmaps := 0; r_ub := false |}).
    assert (Ow : forall r, owners r {| reg := updf (reg s) (nreg s) x; nreg := nreg s + 1; snaps := snaps s;
                                      handles := handles s ++ [Some (HRegion (nreg s))] |}
                          = (owners r s + (if N.eqb r (nreg s) then 1 else 0))%nat).
    { intros r. unfold owners; cbn [handles snaps]. rewrite hrefs_app. cbn [hrefs href]. lia. }
    constructor; cbn [reg nreg snaps handles].
    + intros r Hr. rewrite Ow. unfold updf. destruct (N.eqb_spec r (nreg s)).
      * subst. rewrite (J_fresh s HI (nreg s)) by lia. unfold K, x; cbn.
        split; [reflexivity|]. split; [reflexivity|]. destruct (negb (kind =? 2)); [left; repeat split; lia|split; reflexivity].
      * rewrite Nat.add_0_r. apply (J_reg s HI). lia.
    + intros r Hr. rewrite Ow. destruct (N.eqb_spec r (nreg s)); [lia|]. rewrite (J_fresh s HI r) by lia. reflexivity.
    + intros r Hr. unfold updf. destruct (N.eqb_spec r (nreg s)); [reflexivity|apply (J_kind s HI); lia].
    + intros a sn H. rewrite snap_handles_app. cbn [snap_handles]. rewrite Nat.add_0_r. apply (J_snap s HI); exact H.
    + intros a H. rewrite snap_handles_app. cbn [snap_handles]. rewrite Nat.add_0_r. apply (J_snapfresh s HI); exact H.
  - (* Build *)
    destruct (region_handles s hs) as [rs|] eqn:RH; [|exact HI].
    pose proof (region_handles_owned s hs rs RH) as Own.
    destruct (from_arc_regions_ok (clone_arcs rs (reg s)) rs); cbn [fst].
    + apply inv_push; [exact HI|exact Own| |].
      * intros r. cbn [map hrefs href]. lia.
      * intros h [<-|[]] a'. discriminate.
    + apply inv_fail; [exact HI|exact Own|reflexivity].
  - (* Insert *)
    destruct (get_handle s hm) as [[?|rs|?]|] eqn:G1; try exact HI.
    destruct (get_handle s hr) as [[r0|?|?]|] eqn:G2; try exact HI.
    apply get_handle_Some in G1. apply get_handle_Some in G2.
    assert (E : updf (clone_arcs rs (reg s)) r0 (clone1 (clone_arcs rs (reg s) r0)) = clone_arcs [r0] (clone_arcs rs (reg s))) by reflexivity.
    assert (E2 : forall f, clone_arcs [r0] (clone_arcs rs f) = clone_arcs (rs ++ [r0]) f).
    { clear. induction rs as [|x t IH]; intros f; cbn [clone_arcs app]; [reflexivity|apply IH]. }
    rewrite E, E2.
    assert (Own : forall r, In r (rs ++ [r0]) -> (0 < owners r s)%nat).
    { intros r Hin. apply in_app_or in Hin. destruct Hin as [Hin|[<-|[]]].
      - eapply handle_owned; [exact G1|]. cbn [href]. apply count_pos_In, Hin.
      - eapply handle_owned; [exact G2|]. cbn [href]. rewrite N.eqb_refl. lia. }
    destruct (from_arc_regions_ok _ _); cbn [fst].
    + apply inv_push; [exact HI|exact Own| |].
      * intros r. cbn [map hrefs href]. rewrite count_sort. lia.
      * intros h [<-|[]] a'. discriminate.
    + apply inv_fail; [exact HI|exact Own|]. intros r. apply count_sort.
  - (* Remove *)
    destruct (get_handle s hm) as [[?|rs|?]|] eqn:G1; try exact HI. apply get_handle_Some in G1.
    destruct (find_start (reg s) base rs) as [i|] eqn:F; [|exact HI].
    destruct (size =? PAGE); [|exact HI]. cbn [fst].
    pose proof (find_start_lt _ _ _ _ F) as Li.
    apply inv_push; [exact HI| | |].
    + intros r Hin. eapply handle_owned; [exact G1|]. cbn [href]. apply count_pos_In, Hin.
    + intros r. cbn [map hrefs href]. rewrite (count_remove_nth r i rs Li). lia.
    + intros h [<-|[<-|[]]] a'; discriminate.
  - (* CloneH *)
    destruct (get_handle s h) as [[r0|rs|a]|] eqn:G; try exact HI; apply get_handle_Some in G.
    + cbn [fst]. change (updf (reg s) r0 (clone1 (reg s r0))) with (clone_arcs [r0] (reg s)).
      apply inv_push; [exact HI| | |].
      * intros r [<-|[]]. eapply handle_owned; [exact G|]. cbn [href]. rewrite N.eqb_refl. lia.
      * intros r. cbn [map hrefs href count]. lia.
      * intros h' [<-|[]] a'. discriminate.
    + cbn [fst]. apply inv_push; [exact HI| | |].
      * intros r Hin. eapply handle_owned; [exact G|]. cbn [href]. apply count_pos_In, Hin.
      * intros r. cbn [map hrefs href]. lia.
      * intros h' [<-|[]] a'. discriminate.
    + destruct (nth_error (snaps s) a) as [sn|] eqn:Sa; [|exact HI]. cbn [fst].
      constructor; cbn [reg nreg snaps handles].
      * intros r Hr.
        assert (Ow : owners r {| reg := reg s; nreg := nreg s;
                     snaps := set_nth (snaps s) a {| s_strong := S (s_strong sn); s_regions := s_regions sn |};
                     handles := handles s ++ [Some (HSnap a)] |} = owners r s).
        { unfold owners; cbn [handles snaps]. rewrite hrefs_app. cbn [hrefs href].
          pose proof (srefs_set r _ a sn {| s_strong := S (s_strong sn); s_regions := s_regions sn |} Sa) as Q. cbn [s_regions] in Q. lia. }
        rewrite Ow. apply (J_reg s HI); exact Hr.
      * intros r Hr. unfold owners; cbn [handles snaps]. rewrite hrefs_app. cbn [hrefs href].
        pose proof (srefs_set r _ a sn {| s_strong := S (s_strong sn); s_regions := s_regions sn |} Sa) as Q. cbn [s_regions] in Q.
        pose proof (J_fresh s HI r Hr) as Z. unfold owners in Z. lia.
      * apply (J_kind s HI).
      * intros a0 sn0 H0. rewrite nth_error_set_nth in H0. rewrite snap_handles_app. cbn [snap_handles].
        destruct (Nat.eqb_spec a a0).
        -- subst. rewrite Sa in H0. inversion H0; subst. cbn [s_strong s_regions]. rewrite Nat.eqb_refl.
           destruct (J_snap s HI a0 sn Sa) as [A B]. split; [lia|discriminate].
        -- destruct (Nat.eqb_spec a0 a); [congruence|]. rewrite Nat.add_0_r. apply (J_snap s HI); exact H0.
      * intros a0 H0. rewrite set_nth_length in H0. rewrite snap_handles_app. cbn [snap_handles].
        assert (a < length (snaps s))%nat by (apply nth_error_Some; congruence).
        destruct (Nat.eqb_spec a0 a); [lia|]. rewrite Nat.add_0_r. apply (J_snapfresh s HI); exact H0.
  - (* Snap *)
    destruct (get_handle s hm) as [[?|rs|?]|] eqn:G; try exact HI. apply get_handle_Some in G. cbn [fst].
    set (s' := {| reg := clone_arcs rs (reg s); nreg := nreg s; snaps := snaps s ++ [{| s_strong := 1; s_regions := rs |}];
                  handles := handles s ++ [Some (HSnap (length (snaps s)))] |}).
    assert (Ow : forall r, owners r s' = (owners r s + count r rs)%nat).
    { intros r. unfold owners, s'; cbn [handles snaps]. rewrite hrefs_app, srefs_app. cbn [hrefs href srefs s_regions]. lia. }
    constructor; cbn [s' reg nreg snaps handles]; fold s'.
    + intros r Hr. rewrite Ow, clone_arcs_at. apply K_clone_iter; [apply (J_reg s HI); exact Hr|].
      intros P. eapply handle_owned; [exact G|]. exact P.
    + intros r Hr. rewrite Ow, (J_fresh s HI r Hr). destruct (count r rs) eqn:C; [reflexivity|exfalso].
      assert (0 < owners r s)%nat by (eapply handle_owned; [exact G|cbn [href]; lia]). rewrite (J_fresh s HI r Hr) in H. lia.
    + intros r Hr. rewrite clone_arcs_at.
      destruct (iter_static clone1 (count r rs) (reg s r) clone1_static) as (A & _ & C). rewrite A, C. apply (J_kind s HI); exact Hr.
    + intros a sn H. rewrite snap_handles_app. cbn [snap_handles].
      destruct (Nat.lt_ge_cases a (length (snaps s))) as [L|L].
      * rewrite nth_error_app1 in H by exact L. destruct (Nat.eqb_spec a (length (snaps s))); [lia|].
        rewrite Nat.add_0_r. apply (J_snap s HI); exact H.
      * rewrite nth_error_app2 in H by exact L. rewrite (J_snapfresh s HI a L).
        destruct (a - length (snaps s))%nat as [|k] eqn:D; cbn in H; [|destruct k; discriminate].
        inversion H; subst. cbn [s_strong s_regions]. assert (a = length (snaps s)) by lia. subst. rewrite Nat.eqb_refl.
        split; [reflexivity|discriminate].
    + intros a H. rewrite app_length in H. cbn [length] in H. rewrite snap_handles_app. cbn [snap_handles].
      destruct (Nat.eqb_spec a (length (snaps s))); [lia|]. rewrite Nat.add_0_r. apply (J_snapfresh s HI). lia.
  - (* DropH *)
    destruct (get_handle s h) as [[r0|rs|a]|] eqn:G; try exact HI; apply get_handle_Some in G.
    + cbn [fst]. change (updf (reg s) r0 (drop1 (reg s r0))) with (drop_arcs [r0] (reg s)).
      eapply inv_drop; [exact HI|exact G| |reflexivity]. intros r. cbn [href count]. lia.
    + cbn [fst]. eapply inv_drop; [exact HI|exact G| |reflexivity]. intros r. reflexivity.
    + destruct (nth_error (snaps s) a) as [sn|] eqn:Sa; [|exact HI].
      destruct (J_snap s HI a sn Sa) as [A B].
      assert (P : (1 <= s_strong sn)%nat).
      { rewrite A, (snap_handles_set_none a _ h _ G). cbn [is_snap]. rewrite Nat.eqb_refl. lia. }
      assert (HR : forall r, hrefs r (handles s) = hrefs r (set_nth (handles s) h None)).
      { intros r. rewrite (hrefs_set_none r _ h _ G). cbn [href]. lia. }
      destruct (s_strong sn) as [|[|n]] eqn:St; [lia| |]; cbn [fst].
      * (* last reference: the map dies *)
        set (s' := {| reg := drop_arcs (s_regions sn) (reg s); nreg := nreg s;
                      snaps := set_nth (snaps s) a {| s_strong := 0; s_regions := [] |};
                      handles := set_nth (handles s) h None |}).
        assert (Ow : forall r, owners r s = (owners r s' + count r (s_regions sn))%nat).
        { intros r. unfold owners, s'; cbn [handles snaps]. rewrite <- HR.
          pose proof (srefs_set r _ a sn {| s_strong := 0; s_regions := [] |} Sa) as Q. cbn [s_regions count] in Q. lia. }
        constructor; cbn [s' reg nreg snaps handles]; fold s'.
        -- intros r Hr. rewrite drop_arcs_at. apply K_drop_iter. rewrite <- Ow. apply (J_reg s HI); exact Hr.
        -- intros r Hr. pose proof (J_fresh s HI r Hr) as Z. rewrite Ow in Z. lia.
        -- intros r Hr. rewrite drop_arcs_at.
           destruct (iter_static drop1 (count r (s_regions sn)) (reg s r) drop1_static) as (A1 & _ & C1). rewrite A1, C1. apply (J_kind s HI); exact Hr.
        -- intros a0 sn0 H0. rewrite nth_error_set_nth in H0.
           pose proof (snap_handles_set_none a0 _ h _ G) as Q. cbn [is_snap] in Q.
           destruct (Nat.eqb_spec a a0).
           ++ subst. rewrite Sa in H0. inversion H0; subst. cbn [s_strong s_regions]. rewrite Nat.eqb_refl in Q.
              split; [lia|reflexivity].
           ++ destruct (Nat.eqb_spec a0 a); [congruence|]. destruct (J_snap s HI a0 sn0 H0) as [A0 B0]. split; [lia|exact B0].
        -- intros a0 H0. rewrite set_nth_length in H0. pose proof (J_snapfresh s HI a0 H0) as Z.
           rewrite (snap_handles_set_none a0 _ h _ G) in Z. lia.
      * (* other Arc<map>s remain *)
        set (s' := {| reg := reg s; nreg := nreg s;
                      snaps := set_nth (snaps s) a {| s_strong := Init.Nat.pred (S (S n)); s_regions := s_regions sn |};
                      handles := set_nth (handles s) h None |}).
        assert (Ow : forall r, owners r s' = owners r s).
        { intros r. unfold owners, s'; cbn [handles snaps]. rewrite <- HR.
          pose proof (srefs_set r _ a sn {| s_strong := Init.Nat.pred (S (S n)); s_regions := s_regions sn |} Sa) as Q. cbn [s_regions] in Q. lia. }
        constructor; cbn [s' reg nreg snaps handles]; fold s'.
        -- intros r Hr. rewrite Ow. apply (J_reg s HI); exact Hr.
        -- intros r Hr. rewrite Ow. apply (J_fresh s HI); exact Hr.
        -- apply (J_kind s HI).
        -- intros a0 sn0 H0. rewrite nth_error_set_nth in H0.
           pose proof (snap_handles_set_none a0 _ h _ G) as Q. cbn [is_snap] in Q.
           destruct (Nat.eqb_spec a a0).
           ++ subst. rewrite Sa in H0. inversion H0; subst. cbn [s_strong s_regions Init.Nat.pred]. rewrite Nat.eqb_refl in Q.
              split; [lia|discriminate].
           ++ destruct (Nat.eqb_spec a0 a); [congruence|]. destruct (J_snap s HI a0 sn0 H0) as [A0 B0]. split; [lia|exact B0].
        -- intros a0 H0. rewrite set_nth_length in H0. pose proof (J_snapfresh s HI a0 H0) as Z.
           rewrite (snap_handles_set_none a0 _ h _ G) in Z. lia.
Qed.

Lemma run_from_Inv l : forall s, Inv s -> Inv (run_from l s).
Proof. induction l as [|o l IH]; intros s HI; cbn [run_from]; [exact HI|apply IH, exec_Inv, HI]. Qed.
Lemma run_Inv l : Inv (run l).
Proof. apply run_from_Inv, Inv_init. Qed.

(* ------------------------------------------------------------------ owners = who can reach *)
Lemma hrefs_pos_ex r l : (0 < hrefs r l)%nat -> exists i h, nth_error l i = Some (Some h) /\ (0 < href r h)%nat.
Proof.
  induction l as [|[h|] l IH]; cbn [hrefs]; intros P; [lia| |].
  - destruct (href r h) eqn:E.
    + destruct (IH ltac:(lia)) as (i & h' & A & B). exists (S i), h'. split; assumption.
    + exists O, h. split; [reflexivity|lia].
  - destruct (IH P) as (i & h' & A & B). exists (S i), h'. split; assumption.
Qed.
Lemma srefs_pos_ex r l : (0 < srefs r l)%nat -> exists a sn, nth_error l a = Some sn /\ (0 < count r (s_regions sn))%nat.
Proof.
  induction l as [|x l IH]; cbn [srefs]; intros P; [lia|].
  destruct (count r (s_regions x)) eqn:E.
  - destruct (IH ltac:(lia)) as (a & sn & A & B). exists (S a), sn. split; assumption.
  - exists O, x. split; [reflexivity|lia].
Qed.
Lemma snap_handles_pos_ex a l : (0 < snap_handles a l)%nat -> exists i, nth_error l i = Some (Some (HSnap a)).
Proof.
  induction l as [|x l IH]; cbn [snap_handles]; intros P; [lia|].
  destruct x as [[r|rs|a']|]; try (destruct (IH P) as [i Hi]; exists (S i); exact Hi).
  destruct (Nat.eqb_spec a a'); [subst; exists O; reflexivity|]. destruct (IH ltac:(lia)) as [i Hi]. exists (S i); exact Hi.
Qed.

Lemma owners_pos_iff_reaches_gen s r : Inv s -> ((0 < owners r s)%nat <-> reaches s r).
Proof.
  intros HI. unfold owners, reaches. split.
  - intros P. destruct (hrefs r (handles s)) eqn:Hh.
    + destruct (srefs_pos_ex r (snaps s) ltac:(lia)) as (a & sn & A & B).
      destruct (J_snap s HI a sn A) as [S1 S2].
      assert (s_strong sn <> O) by (intros Z; rewrite (S2 Z) in B; cbn in B; lia).
      destruct (snap_handles_pos_ex a (handles s) ltac:(lia)) as [i Hi].
      exists i, (HSnap a). split; [exact Hi|]. cbn [reach_list]. rewrite A. apply count_pos_In, B.
    + destruct (hrefs_pos_ex r (handles s) ltac:(lia)) as (i & h & A & B). exists i, h. split; [exact A|].
      destruct h as [r'|rs|a]; cbn [href reach_list] in *.
      * destruct (N.eqb_spec r r'); [subst; left; reflexivity|lia].
      * apply count_pos_In, B.
      * lia.
  - intros (i & h & A & B). destruct h as [r'|rs|a]; cbn [reach_list] in B.
    + destruct B as [<-|[]]. pose proof (hrefs_ge r' _ i _ A) as Q. cbn [href] in Q. rewrite N.eqb_refl in Q. lia.
    + pose proof (hrefs_ge r _ i _ A) as Q. cbn [href] in Q. apply count_pos_In in B. lia.
    + destruct (nth_error (snaps s) a) as [sn|] eqn:Sa; [|destruct B].
      pose proof (srefs_ge r _ a sn Sa) as Q. apply count_pos_In in B. lia.
Qed.

Lemma K_of l r : r < nreg (run l) -> K (reg (run l) r) (owners r (run l)).
Proof. intros H. apply (J_reg _ (run_Inv l)), H. Qed.

Lemma strong_counts_lemma : forall l r, r < nreg (run l) ->
  r_strong (reg (run l) r) = owners r (run l) /\ r_ub (reg (run l) r) = false.
Proof. intros l r H. destruct (K_of l r H) as (A & B & _). split; assumption. Qed.

Lemma owners_pos_iff_reaches_lemma : forall l r, (0 < owners r (run l))%nat <-> reaches (run l) r.
Proof. intros l r. apply owners_pos_iff_reaches_gen, run_Inv. Qed.

Lemma live_iff_owner_lemma : forall l r, r < nreg (run l) -> r_kind (reg (run l) r) <> 2 ->
  (r_live (reg (run l) r) = true <-> reaches (run l) r).
Proof.
  intros l r H Hk. rewrite <- owners_pos_iff_reaches_lemma. destruct (K_of l r H) as (_ & _ & C).
  rewrite (J_kind _ (run_Inv l) r H) in C. destruct (N.eqb_spec (r_kind (reg (run l) r)) 2); [contradiction|]. cbn [negb] in C.
  destruct C as [(C1 & _ & C3)|(C1 & _ & C3)]; rewrite C1; split; intros; try lia; try reflexivity; try discriminate.
Qed.

Lemma no_dangling_lemma : forall l i h r,
  nth_error (handles (run l)) i = Some (Some h) -> In r (reach_list (run l) h) ->
  r < nreg (run l) /\ r_live (reg (run l) r) = true /\ (0 < r_strong (reg (run l) r))%nat.
Proof.
  intros l i h r A B. pose proof (run_Inv l) as HI.
  assert (P : (0 < owners r (run l))%nat) by (apply owners_pos_iff_reaches_lemma; exists i, h; split; assumption).
  assert (L : r < nreg (run l)).
  { destruct (N.lt_ge_cases r (nreg (run l))) as [L|L]; [exact L|]. rewrite (J_fresh _ HI r L) in P. lia. }
  split; [exact L|]. destruct (K_of l r L) as (K1 & _ & K3). split; [|lia].
  destruct (r_owned (reg (run l) r)); [|apply K3]. destruct K3 as [(C1 & _)|(_ & _ & C3)]; [exact C1|lia].
Qed.

Lemma unmapped_once_lemma : forall l r, r < nreg (run l) ->
  (r_unmaps (reg (run l) r) <= 1)%nat /\
  (r_kind (reg (run l) r) <> 2 ->
     (r_unmaps (reg (run l) r) = 1%nat <-> ~ reaches (run l) r) /\
     (r_unmaps (reg (run l) r) = 1%nat <-> r_live (reg (run l) r) = false)).
Proof.
  intros l r H. destruct (K_of l r H) as (_ & _ & C). split.
  - destruct (r_owned (reg (run l) r)); [destruct C as [(_ & C2 & _)|(_ & C2 & _)]|destruct C as [_ C2]]; lia.
  - intros Hk. rewrite <- owners_pos_iff_reaches_lemma.
    rewrite (J_kind _ (run_Inv l) r H) in C. destruct (N.eqb_spec (r_kind (reg (run l) r)) 2); [contradiction|]. cbn [negb] in C.
    destruct C as [(C1 & C2 & C3)|(C1 & C2 & C3)]; rewrite C1, C2; split; split; intros; try lia; try reflexivity; try discriminate.
Qed.

Lemma raw_never_unmapped_lemma : forall l r, r < nreg (run l) -> r_kind (reg (run l) r) = 2 ->
  r_owned (reg (run l) r) = false /\ r_unmaps (reg (run l) r) = O /\ r_live (reg (run l) r) = true.
Proof.
  intros l r H Hk. destruct (K_of l r H) as (_ & _ & C).
  rewrite (J_kind _ (run_Inv l) r H) in *. rewrite Hk in *. cbn in C. destruct C as [C1 C2]. repeat split; assumption.
Qed.

Lemma no_leak_lemma : forall l, quiescent (run l) -> forall r, r < nreg (run l) ->
  r_kind (reg (run l) r) <> 2 -> r_live (reg (run l) r) = false /\ r_unmaps (reg (run l) r) = 1%nat.
Proof.
  intros l Q r H Hk.
  assert (NR : ~ reaches (run l) r) by (intros (i & h & A & _); exact (Q i h A)).
  destruct (unmapped_once_lemma l r H) as [_ U]. destruct (U Hk) as [U1 U2].
  assert (E : r_unmaps (reg (run l) r) = 1%nat) by (apply U1; exact NR). split; [apply U2; exact E|exact E].
Qed.

(* the live component of the checker, for all histories: the regions still mapped are exactly the raw
   ones and those somebody owns *)
Lemma mask_upto_ext n p q : (forall g, g < N.of_nat n -> p g = q g) -> mask_upto n p = mask_upto n q.
Proof.
  induction n as [|n IH]; intros H; cbn [mask_upto]; [reflexivity|].
  rewrite IH by (intros g Hg; apply H; lia). rewrite (H (N.of_nat n)) by lia. reflexivity.
Qed.
Lemma model_live_lemma : forall l,
  mask_live (run l) = mask_upto (N.to_nat (nreg (run l)))
     (fun r => (r_kind (reg (run l) r) =? 2) || negb (Nat.eqb (owners r (run l)) 0)).
Proof.
  intros l. unfold mask_live. apply mask_upto_ext. intros r Hr. rewrite N2Nat.id in Hr.
  destruct (K_of l r Hr) as (_ & _ & C). rewrite (J_kind _ (run_Inv l) r Hr) in C.
  destruct (r_kind (reg (run l) r) =? 2); cbn [negb orb] in *.
  - apply C.
  - destruct C as [(C1 & _ & C3)|(C1 & _ & C3)]; rewrite C1.
    + destruct (Nat.eqb_spec (owners r (run l)) 0); [lia|reflexivity].
    + rewrite C3. reflexivity.
Qed.
