From VM Require Import Prelude.MachInt Prelude.Tok Impl.Owner Spec.C12 Suite.C12.

Lemma raw_not_owned_lemma : forall s slot, r_owned (reg (fst (exec (Create 2 slot) s)) (nreg s)) = false.
Proof. intros s slot. cbn [exec fst reg]. unfold updf. rewrite N.eqb_refl. reflexivity. Qed.
