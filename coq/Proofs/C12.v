From VM Require Import Prelude.MachInt Prelude.Tok Impl.Owner Spec.C12 Suite.C12.
From Coq Require Import Sorting.Permutation.

Fixpoint iter {A} (n : nat) (f : A -> A) (x : A) {struct n} : A := match n with O => x | S k => f (iter k f x) end.
Lemma iter_succ_r {A} n (f : A -> A) x : iter (S n) f x = iter n f (f x).
Proof. induction n as [|n IH]; [reflexivity|]. cbn [iter] in *. rewrite IH. reflexivity. Qed.

(* ------------------------------------------------------------------ one region's record *)
Definition K (x : rrec) (n : nat) : Prop :=
  r_strong x = n /\ r_ub x = false /\
  (if r_owned x
   then (r_live x = true /\ r_unmaps x = O /\ (0 < n)%nat) \/ (r_live x = false /\ r_unmaps x = 1%nat /\ n = O)
   else r_live x = true /\ r_unmaps x = O).

Lemma K_clone x n : K x n -> (0 < n)%nat -> K (clone1 x) (S n).
Proof.
  intros (A & B & C) P. unfold clone1, with_strong, K; cbn. split; [congruence|]. split; [exact B|].
  destruct (r_owned x); [|exact C]. destruct C as [(C1 & C2 & _)|(_ & _ & C3)]; [left; repeat split; try assumption; lia|lia].
Qed.
Lemma K_drop x n : K x (S n) -> K (drop1 x) n.
Proof.
  intros (A & B & C). unfold drop1. rewrite A. destruct n as [|n].
  - unfold drop_region, with_strong, K; cbn. destruct (r_owned x) eqn:O; cbn; rewrite ?O.
    + split; [reflexivity|]. split; [exact B|]. right. destruct C as [(_ & C2 & _)|(_ & _ & C3)]; [|lia].
      rewrite C2. repeat split.
    + split; [reflexivity|]. split; [exact B|exact C].
  - unfold with_strong, K; cbn. split; [reflexivity|]. split; [exact B|].
    destruct (r_owned x); [|exact C]. destruct C as [(C1 & C2 & _)|(_ & _ & C3)]; [left; repeat split; try assumption; lia|lia].
Qed.
Lemma K_clone_iter c : forall x n, K x n -> ((0 < c)%nat -> (0 < n)%nat) -> K (iter c clone1 x) (n + c).
Proof.
  induction c as [|c IH]; intros x n HK P; [change (iter 0 clone1 x) with x; rewrite Nat.add_0_r; exact HK|cbn [iter]].
  replace (n + S c)%nat with (S (n + c)) by lia. apply K_clone; [|lia]. apply IH; [exact HK|intros _; apply P; lia].
Qed.
Lemma K_drop_iter c : forall x n, K x (n + c) -> K (iter c drop1 x) n.
Proof.
  induction c as [|c IH]; intros x n HK; [change (iter 0 drop1 x) with x; rewrite Nat.add_0_r in HK; exact HK|cbn [iter]].
  apply K_drop. apply IH. replace (S n + c)%nat with (n + S c)%nat by lia. exact HK.
Qed.

Lemma iter_static f c x : (forall y, r_kind (f y) = r_kind y /\ r_slot (f y) = r_slot y /\ r_owned (f y) = r_owned y) ->
  r_kind (iter c f x) = r_kind x /\ r_slot (iter c f x) = r_slot x /\ r_owned (iter c f x) = r_owned x.
Proof.
  intros H. induction c as [|c IH]; [change (iter 0 f x) with x; repeat split|cbn [iter]].
  destruct (H (iter c f x)) as (A & B & C). destruct IH as (A' & B' & C'). repeat split; congruence.
Qed.
Lemma clone1_static y : r_kind (clone1 y) = r_kind y /\ r_slot (clone1 y) = r_slot y /\ r_owned (clone1 y) = r_owned y.
Proof. repeat split. Qed.
Lemma drop1_static y : r_kind (drop1 y) = r_kind y /\ r_slot (drop1 y) = r_slot y /\ r_owned (drop1 y) = r_owned y.
Proof. unfold drop1, drop_region, with_strong. destruct (r_strong y) as [|[|n]]; cbn; [repeat split| |repeat split].
  destruct (r_owned y); repeat split. Qed.

Lemma clone_arcs_at rs : forall f r, clone_arcs rs f r = iter (count r rs) clone1 (f r).
Proof.
  induction rs as [|x t IH]; intros f r; cbn [clone_arcs count]; [reflexivity|].
  rewrite IH. unfold updf. destruct (N.eqb_spec r x); [subst|reflexivity].
  cbn [Nat.add]. rewrite iter_succ_r. reflexivity.
Qed.
Lemma drop_arcs_at rs : forall f r, drop_arcs rs f r = iter (count r rs) drop1 (f r).
Proof.
  induction rs as [|x t IH]; intros f r; cbn [drop_arcs count]; [reflexivity|].
  rewrite IH. unfold updf. destruct (N.eqb_spec r x); [subst|reflexivity].
  cbn [Nat.add]. rewrite iter_succ_r. reflexivity.
Qed.

Lemma count_app r a b : count r (a ++ b) = (count r a + count r b)%nat.
Proof. induction a as [|x a IH]; cbn [count app]; [reflexivity|rewrite IH; lia]. Qed.
Lemma count_pos_In r l : (0 < count r l)%nat <-> In r l.
Proof.
  induction l as [|x l IH]; cbn [count In]; [split; [lia|tauto]|].
  destruct (N.eqb_spec r x); [subst; split; [tauto|lia]|]. rewrite <- IH. split; [intros H; right; lia|intros [E|H]; [congruence|lia]].
Qed.
Lemma count_insert_sorted f r x l : count r (insert_sorted f x l) = count r (x :: l).
Proof.
  induction l as [|y l IH]; cbn [insert_sorted]; [reflexivity|].
  destruct (start_of f x <? start_of f y); [reflexivity|]. cbn [count] in *. rewrite IH. lia.
Qed.
Lemma count_sort f r l : count r (sort_by_start f l) = count r l.
Proof. induction l as [|x l IH]; cbn [sort_by_start]; [reflexivity|]. rewrite count_insert_sorted. cbn [count]. rewrite IH. reflexivity. Qed.
Lemma count_remove_nth r i : forall l, (i < length l)%nat ->
  count r l = (count r (remove_nth i l) + (if N.eqb r (nth i l 0%N) then 1 else 0))%nat.
Proof.
  induction i as [|i IH]; intros [|x l] L; cbn in L; try lia; cbn [remove_nth nth count]; [lia|].
  rewrite (IH l) by lia. lia.
Qed.
Lemma find_start_lt f base : forall rs i, find_start f base rs = Some i -> (i < length rs)%nat.
Proof.
  induction rs as [|r t IH]; intros i H; cbn [find_start] in H; [discriminate|].
  destruct (start_of f r =? base); [inversion H; cbn; lia|].
  destruct (find_start f base t) as [j|]; [|discriminate]. inversion H; subst. cbn. specialize (IH j eq_refl). lia.
Qed.

(* ------------------------------------------------------------------ counting owners *)
Lemma hrefs_app r a b : hrefs r (a ++ b) = (hrefs r a + hrefs r b)%nat.
Proof. induction a as [|[h|] a IH]; cbn [hrefs app]; try rewrite IH; lia. Qed.
Lemma hrefs_set_none r l i h : nth_error l i = Some (Some h) ->
  hrefs r l = (hrefs r (set_nth l i None) + href r h)%nat.
Proof.
  revert i. induction l as [|x l IH]; intros [|i] H; cbn in H; try discriminate.
  - inversion H; subst. cbn [set_nth hrefs]. lia.
  - cbn [set_nth hrefs]. destruct x as [x|]; rewrite (IH i H); lia.
Qed.
Lemma hrefs_ge r l i h : nth_error l i = Some (Some h) -> (href r h <= hrefs r l)%nat.
Proof. intros H. rewrite (hrefs_set_none r l i h H). lia. Qed.
Lemma srefs_app r a b : srefs r (a ++ b) = (srefs r a + srefs r b)%nat.
Proof. induction a as [|x a IH]; cbn [srefs app]; try rewrite IH; lia. Qed.
Lemma srefs_set r l a sn sn' : nth_error l a = Some sn ->
  (srefs r (set_nth l a sn') + count r (s_regions sn) = srefs r l + count r (s_regions sn'))%nat.
Proof.
  revert a. induction l as [|x l IH]; intros [|a] H; cbn in H; try discriminate.
  - inversion H; subst. cbn [set_nth srefs]. lia.
  - cbn [set_nth srefs]. specialize (IH a H). lia.
Qed.
Lemma srefs_ge r l a sn : nth_error l a = Some sn -> (count r (s_regions sn) <= srefs r l)%nat.
Proof.
  revert a. induction l as [|x l IH]; intros [|a] H; cbn in H; try discriminate; cbn [srefs].
  - inversion H; subst. lia.
  - specialize (IH a H). lia.
Qed.
Lemma snap_handles_app a x y : snap_handles a (x ++ y) = (snap_handles a x + snap_handles a y)%nat.
Proof. induction x as [|[[r|rs|a']|] x IH]; cbn [snap_handles app]; try rewrite IH; lia. Qed.
Definition is_snap (a : nat) (h : handle) : nat := match h with HSnap a' => if Nat.eqb a a' then 1%nat else O | _ => O end.
Lemma snap_handles_set_none a l i h : nth_error l i = Some (Some h) ->
  snap_handles a l = (snap_handles a (set_nth l i None) + is_snap a h)%nat.
Proof.
  revert i. induction l as [|x l IH]; intros [|i] H; cbn in H; try discriminate.
  - inversion H; subst. cbn [set_nth snap_handles]. destruct h; cbn [is_snap snap_handles]; lia.
  - cbn [set_nth]. specialize (IH i H). destruct x as [[r|rs|a']|]; cbn [snap_handles]; lia.
Qed.
Lemma snap_handles_no_snap a l : (forall h, In h l -> forall a', h <> HSnap a') -> snap_handles a (map Some l) = O.
Proof.
  induction l as [|h l IH]; intros H; cbn [map snap_handles]; [reflexivity|].
  destruct h as [r|rs|a']; try (apply IH; intros h' Hin; apply H; right; exact Hin).
  exfalso. apply (H (HSnap a') (or_introl eq_refl) a'). reflexivity.
Qed.

Lemma get_handle_Some s i h : get_handle s i = Some h -> nth_error (handles s) i = Some (Some h).
Proof. unfold get_handle. destruct (nth_error (handles s) i) as [[x|]|]; intros H; inversion H; reflexivity. Qed.
Lemma nth_error_set_nth {A} (l : list A) i j v :
  nth_error (set_nth l i v) j = if Nat.eqb i j then (match nth_error l i with Some _ => Some v | None => None end) else nth_error l j.
Proof.
  revert i j. induction l as [|x l IH]; intros [|i] [|j]; cbn; try reflexivity.
  - destruct (Nat.eqb i j); reflexivity.
  - apply IH.
Qed.
Lemma set_nth_length {A} (l : list A) i v : length (set_nth l i v) = length l.
Proof. revert i. induction l as [|x l IH]; intros [|i]; cbn; try reflexivity. rewrite IH. reflexivity. Qed.

(* ------------------------------------------------------------------ the invariant *)
Record Inv (s : state) : Prop := {
  J_reg : forall r, r < nreg s -> K (reg s r) (owners r s);
  J_fresh : forall r, nreg s <= r -> owners r s = O;
  J_kind : forall r, r < nreg s -> r_owned (reg s r) = negb (r_kind (reg s r) =? 2);
  J_snap : forall a sn, nth_error (snaps s) a = Some sn ->
             s_strong sn = snap_handles a (handles s) /\ (s_strong sn = O -> s_regions sn = []);
  J_snapfresh : forall a, (length (snaps s) <= a)%nat -> snap_handles a (handles s) = O
}.

Lemma Inv_init : Inv init.
Proof.
  constructor; cbn; intros.
  - lia.
  - reflexivity.
  - lia.
  - destruct a; discriminate.
  - reflexivity.
Qed.

(* cloning the Arcs of L (all owned by someone) and handing them to new non-snapshot handles *)
Lemma inv_push s L new : Inv s ->
  (forall r, In r L -> (0 < owners r s)%nat) ->
  (forall r, hrefs r (map Some new) = count r L) ->
  (forall h, In h new -> forall a', h <> HSnap a') ->
  Inv (push s (clone_arcs L (reg s)) new).
Proof.
  intros HI Hown Hcnt Hns.
  assert (Ow : forall r, owners r (push s (clone_arcs L (reg s)) new) = (owners r s + count r L)%nat).
  { intros r. unfold owners, push; cbn [handles snaps]. rewrite hrefs_app, Hcnt. lia. }
  constructor; cbn [push reg nreg snaps handles]; fold (push s (clone_arcs L (reg s)) new).
  - intros r Hr. rewrite Ow, clone_arcs_at. apply K_clone_iter; [apply (J_reg s HI); exact Hr|].
    intros P. apply Hown, count_pos_In, P.
  - intros r Hr. rewrite Ow. rewrite (J_fresh s HI r Hr).
    destruct (count r L) eqn:C; [reflexivity|exfalso].
    assert (In r L) by (apply count_pos_In; lia). specialize (Hown r H). rewrite (J_fresh s HI r Hr) in Hown. lia.
  - intros r Hr. rewrite clone_arcs_at.
    destruct (iter_static clone1 (count r L) (reg s r) clone1_static) as (A & _ & C). rewrite A, C. apply (J_kind s HI); exact Hr.
  - intros a sn H. rewrite snap_handles_app, (snap_handles_no_snap a new Hns), Nat.add_0_r. apply (J_snap s HI); exact H.
  - intros a H. rewrite snap_handles_app, (snap_handles_no_snap a new Hns), Nat.add_0_r. apply (J_snapfresh s HI); exact H.
Qed.

(* the library cloned the Arcs of L and then dropped them all again (an Err path) *)
Lemma inv_fail s L L' : Inv s ->
  (forall r, In r L -> (0 < owners r s)%nat) ->
  (forall r, count r L' = count r L) ->
  Inv (with_reg s (drop_arcs L' (clone_arcs L (reg s)))).
Proof.
  intros HI Hown Hcnt.
  constructor; cbn [with_reg reg nreg snaps handles]; try apply HI.
  - intros r Hr. change (owners r (with_reg s (drop_arcs L' (clone_arcs L (reg s))))) with (owners r s).
    rewrite drop_arcs_at, clone_arcs_at, Hcnt. apply K_drop_iter. apply K_clone_iter; [apply (J_reg s HI); exact Hr|].
    intros P. apply Hown, count_pos_In, P.
  - intros r Hr. rewrite drop_arcs_at, clone_arcs_at.
    destruct (iter_static drop1 (count r L') (iter (count r L) clone1 (reg s r)) drop1_static) as (A & _ & C).
    destruct (iter_static clone1 (count r L) (reg s r) clone1_static) as (A' & _ & C').
    rewrite A, C, A', C'. apply (J_kind s HI); exact Hr.
Qed.

Lemma handle_owned s i h r : nth_error (handles s) i = Some (Some h) -> (0 < href r h)%nat -> (0 < owners r s)%nat.
Proof. intros H P. unfold owners. pose proof (hrefs_ge r _ i h H). lia. Qed.

Lemma region_handles_owned s : forall hs rs, region_handles s hs = Some rs ->
  forall r, In r rs -> (0 < owners r s)%nat.
Proof.
  induction hs as [|h t IH]; intros rs H r Hin; cbn [region_handles] in H.
  - inversion H; subst. destruct Hin.
  - destruct (get_handle s h) as [[r0|?|?]|] eqn:G; try discriminate.
    destruct (region_handles s t) as [l|]; [|discriminate]. inversion H; subst.
    destruct Hin as [->|Hin]; [|eapply IH; [reflexivity|exact Hin]].
    apply get_handle_Some in G. eapply handle_owned; [exact G|]. cbn. rewrite N.eqb_refl. lia.
Qed.

(* dropping a region handle or a map handle *)
Lemma inv_drop s i h L : Inv s -> nth_error (handles s) i = Some (Some h) ->
  (forall r, href r h = count r L) -> (forall a, is_snap a h = O) ->
  Inv {| reg := drop_arcs L (reg s); nreg := nreg s; snaps := snaps s; handles := set_nth (handles s) i None |}.
Proof.
  intros HI H Hc Hs.
  set (s' := {| reg := drop_arcs L (reg s); nreg := nreg s; snaps := snaps s; handles := set_nth (handles s) i None |}).
  assert (Ow : forall r, owners r s = (owners r s' + count r L)%nat).
  { intros r. unfold owners, s'; cbn [handles snaps]. rewrite (hrefs_set_none r _ i h H), Hc. lia. }
  constructor; cbn [s' reg nreg snaps handles]; fold s'.
  - intros r Hr. rewrite drop_arcs_at. apply K_drop_iter. rewrite <- Ow. apply (J_reg s HI); exact Hr.
  - intros r Hr. pose proof (J_fresh s HI r Hr). rewrite Ow in H0. lia.
  - intros r Hr. rewrite drop_arcs_at.
    destruct (iter_static drop1 (count r L) (reg s r) drop1_static) as (A & _ & C). rewrite A, C. apply (J_kind s HI); exact Hr.
  - intros a sn Hn. destruct (J_snap s HI a sn Hn) as [A B]. split; [|exact B].
    rewrite A, (snap_handles_set_none a _ i h H), Hs. lia.
  - intros a Ha. pose proof (J_snapfresh s HI a Ha) as Z. rewrite (snap_handles_set_none a _ i h H), Hs in Z. lia.
Qed.

(* ---- operations that move handles into the call (BuildMove, InsertMove) *)
Fixpoint rh_l (l : list (option handle)) (hs : list nat) {struct hs} : option (list N) :=
  match hs with
  | [] => Some []
  | h :: t => match nth_error l h, rh_l l t with
              | Some (Some (HRegion r)), Some rs => Some (r :: rs)
              | _, _ => None end
  end.
Lemma region_handles_rh s : forall hs, region_handles s hs = rh_l (handles s) hs.
Proof.
  induction hs as [|h t IH]; cbn [region_handles rh_l]; [reflexivity|]. unfold get_handle. rewrite IH.
  destruct (nth_error (handles s) h) as [[[r|rs|a]|]|]; reflexivity.
Qed.
Lemma existsb_eqb_false x t : existsb (Nat.eqb x) t = false -> ~ In x t.
Proof.
  intros H Hin. assert (E : existsb (Nat.eqb x) t = true) by (apply existsb_exists; exists x; split; [exact Hin|apply Nat.eqb_refl]).
  congruence.
Qed.
Lemma rh_l_set l h v : forall t, ~ In h t -> rh_l (set_nth l h v) t = rh_l l t.
Proof.
  induction t as [|j t IH]; intros Hn; cbn [rh_l]; [reflexivity|].
  rewrite IH by (intros Hc; apply Hn; right; exact Hc). rewrite nth_error_set_nth.
  destruct (Nat.eqb_spec h j) as [->|_]; [exfalso; apply Hn; left; reflexivity|reflexivity].
Qed.
Lemma kill_length : forall hs l, length (kill hs l) = length l.
Proof. induction hs as [|h t IH]; intros l; cbn [kill]; [reflexivity|]. rewrite IH. apply set_nth_length. Qed.
Lemma kill_facts r : forall hs l rs, nodupb hs = true -> rh_l l hs = Some rs ->
  hrefs r l = (hrefs r (kill hs l) + count r rs)%nat /\ (forall a, snap_handles a (kill hs l) = snap_handles a l).
Proof.
  induction hs as [|h t IH]; intros l rs Hd Hr; cbn [kill rh_l nodupb] in *.
  - inversion Hr; subst. cbn [count]. split; [lia|reflexivity].
  - apply andb_true_iff in Hd. destruct Hd as [Hn Hd]. apply negb_true_iff in Hn. apply existsb_eqb_false in Hn.
    destruct (nth_error l h) as [[[r0|?|?]|]|] eqn:En; try discriminate.
    destruct (rh_l l t) as [rs'|] eqn:Et; [|discriminate]. inversion Hr; subst rs. clear Hr.
    destruct (IH (set_nth l h None) rs' Hd ltac:(rewrite rh_l_set by exact Hn; exact Et)) as [A B].
    split.
    + rewrite (hrefs_set_none r l h _ En), A. cbn [href count]. lia.
    + intros a. rewrite B. pose proof (snap_handles_set_none a l h _ En) as Q. cbn [is_snap] in Q. lia.
Qed.
Lemma rh_l_lookup l : forall hs rs h, rh_l l hs = Some rs -> In h hs -> exists r, nth_error l h = Some (Some (HRegion r)) /\ In r rs.
Proof.
  induction hs as [|j t IH]; intros rs h Hr Hin; [destruct Hin|]. cbn [rh_l] in Hr.
  destruct (nth_error l j) as [[[r0|?|?]|]|] eqn:En; try discriminate.
  destruct (rh_l l t) as [rs'|] eqn:Et; [|discriminate]. inversion Hr; subst rs.
  destruct Hin as [->|Hin]; [exists r0; split; [exact En|left; reflexivity]|].
  destruct (IH rs' h eq_refl Hin) as (r & A & B). exists r. split; [exact A|right; exact B].
Qed.
Lemma rh_l_In l : forall hs rs r, rh_l l hs = Some rs -> In r rs -> exists h, In h hs /\ nth_error l h = Some (Some (HRegion r)).
Proof.
  induction hs as [|j t IH]; intros rs r Hr Hin; cbn [rh_l] in Hr; [inversion Hr; subst; destruct Hin|].
  destruct (nth_error l j) as [[[r0|?|?]|]|] eqn:En; try discriminate.
  destruct (rh_l l t) as [rs'|] eqn:Et; [|discriminate]. inversion Hr; subst rs.
  destruct Hin as [<-|Hin]; [exists j; split; [left; reflexivity|exact En]|].
  destruct (IH rs' r eq_refl Hin) as (h & A & B). exists h. split; [right; exact A|exact B].
Qed.

(* the general step: every region gains c r clones and then loses d r references, the handle table becomes hl *)
Lemma inv_gen s reg' hl (c d : N -> nat) : Inv s ->
  (forall r, reg' r = iter (d r) drop1 (iter (c r) clone1 (reg s r))) ->
  (forall r, (0 < c r)%nat -> (0 < owners r s)%nat) ->
  (forall r, (hrefs r hl + d r = hrefs r (handles s) + c r)%nat) ->
  (forall a, snap_handles a hl = snap_handles a (handles s)) ->
  Inv {| reg := reg'; nreg := nreg s; snaps := snaps s; handles := hl |}.
Proof.
  intros HI Hreg Hpos Hcnt Hsn.
  set (s' := {| reg := reg'; nreg := nreg s; snaps := snaps s; handles := hl |}).
  assert (Ow : forall r, (owners r s' + d r = owners r s + c r)%nat).
  { intros r. unfold owners, s'; cbn [handles snaps]. specialize (Hcnt r). lia. }
  constructor; cbn [s' reg nreg snaps handles]; fold s'.
  - intros r Hr. rewrite Hreg. apply K_drop_iter. rewrite Ow. apply K_clone_iter; [apply (J_reg s HI); exact Hr|apply Hpos].
  - intros r Hr. pose proof (J_fresh s HI r Hr) as Z. specialize (Ow r).
    destruct (c r) eqn:C; [lia|]. specialize (Hpos r ltac:(lia)). lia.
  - intros r Hr. rewrite Hreg.
    destruct (iter_static drop1 (d r) (iter (c r) clone1 (reg s r)) drop1_static) as (A & _ & C).
    destruct (iter_static clone1 (c r) (reg s r) clone1_static) as (A' & _ & C').
    rewrite A, C, A', C'. apply (J_kind s HI); exact Hr.
  - intros a sn H. rewrite Hsn. apply (J_snap s HI); exact H.
  - intros a H. rewrite Hsn. apply (J_snapfresh s HI); exact H.
Qed.
Lemma snap_handles_snoc_map a l rs : snap_handles a (l ++ [Some (HMap rs)]) = snap_handles a l.
Proof. rewrite snap_handles_app. cbn [snap_handles]. lia. Qed.
Lemma drop_region_static x : r_kind (drop_region x) = r_kind x /\ r_slot (drop_region x) = r_slot x /\ r_owned (drop_region x) = r_owned x.
Proof. unfold drop_region. destruct (r_owned x) eqn:E; cbn; rewrite ?E; repeat split. Qed.

Lemma exec_Inv o s : Inv s -> Inv (fst (exec o s)).
Proof.
  intros HI. destruct o as [kind slot|hs|hm hr|hm base size|h|hm|h|v slot|unwrap hs|hm hr]; cbn [exec].
  - (* Create *)
    cbn [fst].
    set (x := {| r_kind := kind; r_slot := slot; r_owned := negb (kind =? 2); r_strong := 1; r_live := true; r_unmaps := 0; r_ub := false |}).
    assert (Ow : forall r, owners r {| reg := updf (reg s) (nreg s) x; nreg := nreg s + 1; snaps := snaps s;
                                      handles := handles s ++ [Some (HRegion (nreg s))] |}
                          = (owners r s + (if N.eqb r (nreg s) then 1 else 0))%nat).
    { intros r. unfold owners; cbn [handles snaps]. rewrite hrefs_app. cbn [hrefs href]. lia. }
    constructor; cbn [reg nreg snaps handles].
    + intros r Hr. rewrite Ow. unfold updf. destruct (N.eqb_spec r (nreg s)).
      * subst. rewrite (J_fresh s HI (nreg s)) by lia. unfold K, x; cbn.
        split; [reflexivity|]. split; [reflexivity|]. destruct (negb (kind =? 2)); [left; repeat split; lia|split; reflexivity].
      * rewrite Nat.add_0_r. apply (J_reg s HI). lia.
    + intros r Hr. rewrite Ow. destruct (N.eqb_spec r (nreg s)); [lia|]. rewrite (J_fresh s HI r) by lia. reflexivity.
    + intros r Hr. unfold updf. destruct (N.eqb_spec r (nreg s)); [reflexivity|apply (J_kind s HI); lia].
    + intros a sn H. rewrite snap_handles_app. cbn [snap_handles]. rewrite Nat.add_0_r. apply (J_snap s HI); exact H.
    + intros a H. rewrite snap_handles_app. cbn [snap_handles]. rewrite Nat.add_0_r. apply (J_snapfresh s HI); exact H.
  - (* Build *)
    destruct (region_handles s hs) as [rs|] eqn:RH; [|exact HI].
    pose proof (region_handles_owned s hs rs RH) as Own.
    destruct (from_arc_regions_ok (clone_arcs rs (reg s)) rs); cbn [fst].
    + apply inv_push; [exact HI|exact Own| |].
      * intros r. cbn [map hrefs href]. lia.
      * intros h [<-|[]] a'. discriminate.
    + apply inv_fail; [exact HI|exact Own|reflexivity].
  - (* Insert *)
    destruct (get_handle s hm) as [[?|rs|?]|] eqn:G1; try exact HI.
    destruct (get_handle s hr) as [[r0|?|?]|] eqn:G2; try exact HI.
    apply get_handle_Some in G1. apply get_handle_Some in G2.
    assert (E : updf (clone_arcs rs (reg s)) r0 (clone1 (clone_arcs rs (reg s) r0)) = clone_arcs [r0] (clone_arcs rs (reg s))) by reflexivity.
    assert (E2 : forall f, clone_arcs [r0] (clone_arcs rs f) = clone_arcs (rs ++ [r0]) f).
    { clear. induction rs as [|x t IH]; intros f; cbn [clone_arcs app]; [reflexivity|apply IH]. }
    rewrite E, E2.
    assert (Own : forall r, In r (rs ++ [r0]) -> (0 < owners r s)%nat).
    { intros r Hin. apply in_app_or in Hin. destruct Hin as [Hin|[<-|[]]].
      - eapply handle_owned; [exact G1|]. cbn [href]. apply count_pos_In, Hin.
      - eapply handle_owned; [exact G2|]. cbn [href]. rewrite N.eqb_refl. lia. }
    destruct (from_arc_regions_ok _ _); cbn [fst].
    + apply inv_push; [exact HI|exact Own| |].
      * intros r. cbn [map hrefs href]. rewrite count_sort. lia.
      * intros h [<-|[]] a'. discriminate.
    + apply inv_fail; [exact HI|exact Own|]. intros r. apply count_sort.
  - (* Remove *)
    destruct (get_handle s hm) as [[?|rs|?]|] eqn:G1; try exact HI. apply get_handle_Some in G1.
    destruct (find_start (reg s) base rs) as [i|] eqn:F; [|exact HI].
    destruct (size =? PAGE); [|exact HI]. cbn [fst].
    pose proof (find_start_lt _ _ _ _ F) as Li.
    apply inv_push; [exact HI| | |].
    + intros r Hin. eapply handle_owned; [exact G1|]. cbn [href]. apply count_pos_In, Hin.
    + intros r. cbn [map hrefs href]. rewrite (count_remove_nth r i rs Li). lia.
    + intros h [<-|[<-|[]]] a'; discriminate.
  - (* CloneH *)
    destruct (get_handle s h) as [[r0|rs|a]|] eqn:G; try exact HI; apply get_handle_Some in G.
    + cbn [fst]. change (updf (reg s) r0 (clone1 (reg s r0))) with (clone_arcs [r0] (reg s)).
      apply inv_push; [exact HI| | |].
      * intros r [<-|[]]. eapply handle_owned; [exact G|]. cbn [href]. rewrite N.eqb_refl. lia.
      * intros r. cbn [map hrefs href count]. lia.
      * intros h' [<-|[]] a'. discriminate.
    + cbn [fst]. apply inv_push; [exact HI| | |].
      * intros r Hin. eapply handle_owned; [exact G|]. cbn [href]. apply count_pos_In, Hin.
      * intros r. cbn [map hrefs href]. lia.
      * intros h' [<-|[]] a'. discriminate.
    + destruct (nth_error (snaps s) a) as [sn|] eqn:Sa; [|exact HI]. cbn [fst].
      constructor; cbn [reg nreg snaps handles].
      * intros r Hr.
        assert (Ow : owners r {| reg := reg s; nreg := nreg s;
                     snaps := set_nth (snaps s) a {| s_strong := S (s_strong sn); s_regions := s_regions sn |};
                     handles := handles s ++ [Some (HSnap a)] |} = owners r s).
        { unfold owners; cbn [handles snaps]. rewrite hrefs_app. cbn [hrefs href].
          pose proof (srefs_set r _ a sn {| s_strong := S (s_strong sn); s_regions := s_regions sn |} Sa) as Q. cbn [s_regions] in Q. lia. }
        rewrite Ow. apply (J_reg s HI); exact Hr.
      * intros r Hr. unfold owners; cbn [handles snaps]. rewrite hrefs_app. cbn [hrefs href].
        pose proof (srefs_set r _ a sn {| s_strong := S (s_strong sn); s_regions := s_regions sn |} Sa) as Q. cbn [s_regions] in Q.
        pose proof (J_fresh s HI r Hr) as Z. unfold owners in Z. lia.
      * apply (J_kind s HI).
      * intros a0 sn0 H0. rewrite nth_error_set_nth in H0. rewrite snap_handles_app. cbn [snap_handles].
        destruct (Nat.eqb_spec a a0).
        -- subst. rewrite Sa in H0. inversion H0; subst. cbn [s_strong s_regions]. rewrite Nat.eqb_refl.
           destruct (J_snap s HI a0 sn Sa) as [A B]. split; [lia|discriminate].
        -- destruct (Nat.eqb_spec a0 a); [congruence|]. rewrite Nat.add_0_r. apply (J_snap s HI); exact H0.
      * intros a0 H0. rewrite set_nth_length in H0. rewrite snap_handles_app. cbn [snap_handles].
        assert (a < length (snaps s))%nat by (apply nth_error_Some; congruence).
        destruct (Nat.eqb_spec a0 a); [lia|]. rewrite Nat.add_0_r. apply (J_snapfresh s HI); exact H0.
  - (* Snap *)
    destruct (get_handle s hm) as [[?|rs|?]|] eqn:G; try exact HI. apply get_handle_Some in G. cbn [fst].
    set (s' := {| reg := clone_arcs rs (reg s); nreg := nreg s; snaps := snaps s ++ [{| s_strong := 1; s_regions := rs |}];
                  handles := handles s ++ [Some (HSnap (length (snaps s)))] |}).
    assert (Ow : forall r, owners r s' = (owners r s + count r rs)%nat).
    { intros r. unfold owners, s'; cbn [handles snaps]. rewrite hrefs_app, srefs_app. cbn [hrefs href srefs s_regions]. lia. }
    constructor; cbn [s' reg nreg snaps handles]; fold s'.
    + intros r Hr. rewrite Ow, clone_arcs_at. apply K_clone_iter; [apply (J_reg s HI); exact Hr|].
      intros P. eapply handle_owned; [exact G|]. exact P.
    + intros r Hr. rewrite Ow, (J_fresh s HI r Hr). destruct (count r rs) eqn:C; [reflexivity|exfalso].
      assert (0 < owners r s)%nat by (eapply handle_owned; [exact G|cbn [href]; lia]). rewrite (J_fresh s HI r Hr) in H. lia.
    + intros r Hr. rewrite clone_arcs_at.
      destruct (iter_static clone1 (count r rs) (reg s r) clone1_static) as (A & _ & C). rewrite A, C. apply (J_kind s HI); exact Hr.
    + intros a sn H. rewrite snap_handles_app. cbn [snap_handles].
      destruct (Nat.lt_ge_cases a (length (snaps s))) as [L|L].
      * rewrite nth_error_app1 in H by exact L. destruct (Nat.eqb_spec a (length (snaps s))); [lia|].
        rewrite Nat.add_0_r. apply (J_snap s HI); exact H.
      * rewrite nth_error_app2 in H by exact L. rewrite (J_snapfresh s HI a L).
        destruct (a - length (snaps s))%nat as [|k] eqn:D; cbn in H; [|destruct k; discriminate].
        inversion H; subst. cbn [s_strong s_regions]. assert (a = length (snaps s)) by lia. subst. rewrite Nat.eqb_refl.
        split; [reflexivity|discriminate].
    + intros a H. rewrite app_length in H. cbn [length] in H. rewrite snap_handles_app. cbn [snap_handles].
      destruct (Nat.eqb_spec a (length (snaps s))); [lia|]. rewrite Nat.add_0_r. apply (J_snapfresh s HI). lia.
  - (* DropH *)
    destruct (get_handle s h) as [[r0|rs|a]|] eqn:G; try exact HI; apply get_handle_Some in G.
    + cbn [fst]. change (updf (reg s) r0 (drop1 (reg s r0))) with (drop_arcs [r0] (reg s)).
      eapply inv_drop; [exact HI|exact G| |reflexivity]. intros r. cbn [href count]. lia.
    + cbn [fst]. eapply inv_drop; [exact HI|exact G| |reflexivity]. intros r. reflexivity.
    + destruct (nth_error (snaps s) a) as [sn|] eqn:Sa; [|exact HI].
      destruct (J_snap s HI a sn Sa) as [A B].
      assert (P : (1 <= s_strong sn)%nat).
      { rewrite A, (snap_handles_set_none a _ h _ G). cbn [is_snap]. rewrite Nat.eqb_refl. lia. }
      assert (HR : forall r, hrefs r (handles s) = hrefs r (set_nth (handles s) h None)).
      { intros r. rewrite (hrefs_set_none r _ h _ G). cbn [href]. lia. }
      destruct (s_strong sn) as [|[|n]] eqn:St; [lia| |]; cbn [fst].
      * (* last reference: the map dies *)
        set (s' := {| reg := drop_arcs (s_regions sn) (reg s); nreg := nreg s;
                      snaps := set_nth (snaps s) a {| s_strong := 0; s_regions := [] |};
                      handles := set_nth (handles s) h None |}).
        assert (Ow : forall r, owners r s = (owners r s' + count r (s_regions sn))%nat).
        { intros r. unfold owners, s'; cbn [handles snaps]. rewrite <- HR.
          pose proof (srefs_set r _ a sn {| s_strong := 0; s_regions := [] |} Sa) as Q. cbn [s_regions count] in Q. lia. }
        constructor; cbn [s' reg nreg snaps handles]; fold s'.
        -- intros r Hr. rewrite drop_arcs_at. apply K_drop_iter. rewrite <- Ow. apply (J_reg s HI); exact Hr.
        -- intros r Hr. pose proof (J_fresh s HI r Hr) as Z. rewrite Ow in Z. lia.
        -- intros r Hr. rewrite drop_arcs_at.
           destruct (iter_static drop1 (count r (s_regions sn)) (reg s r) drop1_static) as (A1 & _ & C1). rewrite A1, C1. apply (J_kind s HI); exact Hr.
        -- intros a0 sn0 H0. rewrite nth_error_set_nth in H0.
           pose proof (snap_handles_set_none a0 _ h _ G) as Q. cbn [is_snap] in Q.
           destruct (Nat.eqb_spec a a0).
           ++ subst. rewrite Sa in H0. inversion H0; subst. cbn [s_strong s_regions]. rewrite Nat.eqb_refl in Q.
              split; [lia|reflexivity].
           ++ destruct (Nat.eqb_spec a0 a); [congruence|]. destruct (J_snap s HI a0 sn0 H0) as [A0 B0]. split; [lia|exact B0].
        -- intros a0 H0. rewrite set_nth_length in H0. pose proof (J_snapfresh s HI a0 H0) as Z.
           rewrite (snap_handles_set_none a0 _ h _ G) in Z. lia.
      * (* other Arc<map>s remain *)
        set (s' := {| reg := reg s; nreg := nreg s;
                      snaps := set_nth (snaps s) a {| s_strong := Init.Nat.pred (S (S n)); s_regions := s_regions sn |};
                      handles := set_nth (handles s) h None |}).
        assert (Ow : forall r, owners r s' = owners r s).
        { intros r. unfold owners, s'; cbn [handles snaps]. rewrite <- HR.
          pose proof (srefs_set r _ a sn {| s_strong := Init.Nat.pred (S (S n)); s_regions := s_regions sn |} Sa) as Q. cbn [s_regions] in Q. lia. }
        constructor; cbn [s' reg nreg snaps handles]; fold s'.
        -- intros r Hr. rewrite Ow. apply (J_reg s HI); exact Hr.
        -- intros r Hr. rewrite Ow. apply (J_fresh s HI); exact Hr.
        -- apply (J_kind s HI).
        -- intros a0 sn0 H0. rewrite nth_error_set_nth in H0.
           pose proof (snap_handles_set_none a0 _ h _ G) as Q. cbn [is_snap] in Q.
           destruct (Nat.eqb_spec a a0).
           ++ subst. rewrite Sa in H0. inversion H0; subst. cbn [s_strong s_regions Init.Nat.pred]. rewrite Nat.eqb_refl in Q.
              split; [lia|discriminate].
           ++ destruct (Nat.eqb_spec a0 a); [congruence|]. destruct (J_snap s HI a0 sn0 H0) as [A0 B0]. split; [lia|exact B0].
        -- intros a0 H0. rewrite set_nth_length in H0. pose proof (J_snapfresh s HI a0 H0) as Z.
           rewrite (snap_handles_set_none a0 _ h _ G) in Z. lia.
  - (* CreateRefused *)
    destruct (v <? 6); [exact HI|]. cbn [fst].
    set (kind := (v - 6) mod 3).
    set (built := {| r_kind := kind; r_slot := slot; r_owned := negb (kind =? 2); r_strong := 0; r_live := true; r_unmaps := 0; r_ub := false |}).
    set (s' := {| reg := updf (reg s) (nreg s) (drop_region built); nreg := nreg s + 1; snaps := snaps s; handles := handles s |}).
    assert (Ow : forall r, owners r s' = owners r s) by reflexivity.
    constructor; cbn [s' reg nreg snaps handles]; fold s'.
    + intros r Hr. rewrite Ow. unfold updf. destruct (N.eqb_spec r (nreg s)) as [->|Hn]; [|apply (J_reg s HI); lia].
      rewrite (J_fresh s HI (nreg s)) by lia. unfold K, drop_region, built. cbn [r_owned].
      destruct (negb (kind =? 2)) eqn:Eo; cbn; rewrite ?Eo; (split; [reflexivity|]); (split; [reflexivity|]).
      * right. repeat split.
      * split; reflexivity.
    + intros r Hr. rewrite Ow. apply (J_fresh s HI). lia.
    + intros r Hr. unfold updf. destruct (N.eqb_spec r (nreg s)) as [->|Hn]; [|apply (J_kind s HI); lia].
      destruct (drop_region_static built) as (A & _ & C). rewrite A, C. reflexivity.
    + apply (J_snap s HI).
    + apply (J_snapfresh s HI).
  - (* BuildMove *)
    destruct (region_handles s hs) as [rs|] eqn:RH; [|exact HI].
    destruct (nodupb hs && (if unwrap then all_sole (reg s) rs else true)) eqn:G; [|exact HI].
    apply andb_true_iff in G. destruct G as [Hd _].
    pose proof (region_handles_owned s hs rs RH) as Own. rewrite region_handles_rh in RH.
    destruct (from_arc_regions_ok (reg s) rs); cbn [fst].
    + apply (inv_gen s (reg s) _ (fun _ => O) (fun _ => O) HI); [reflexivity|intros r P; lia| |].
      * intros r. destruct (kill_facts r hs (handles s) rs Hd RH) as [A _]. rewrite hrefs_app. cbn [hrefs href]. lia.
      * intros a. rewrite snap_handles_snoc_map. apply (kill_facts 0 hs (handles s) rs Hd RH).
    + apply (inv_gen s _ _ (fun _ => O) (fun r => count r rs) HI); [intros r; apply drop_arcs_at|intros r P; lia| |].
      * intros r. destruct (kill_facts r hs (handles s) rs Hd RH) as [A _]. lia.
      * intros a. apply (kill_facts 0 hs (handles s) rs Hd RH).
  - (* InsertMove *)
    destruct (get_handle s hm) as [[?|rs|?]|] eqn:G1; try exact HI.
    destruct (get_handle s hr) as [[r0|?|?]|] eqn:G2; try exact HI.
    apply get_handle_Some in G1. apply get_handle_Some in G2.
    assert (Own : forall r, (0 < count r rs)%nat -> (0 < owners r s)%nat).
    { intros r P. eapply handle_owned; [exact G1|]. exact P. }
    assert (Cnt : forall r, count r (sort_by_start (clone_arcs rs (reg s)) (rs ++ [r0])) = (count r rs + (if N.eqb r r0 then 1 else 0))%nat).
    { intros r. rewrite count_sort, count_app. cbn [count]. lia. }
    assert (Hh : forall r, hrefs r (handles s) = (hrefs r (set_nth (handles s) hr None) + (if N.eqb r r0 then 1 else 0))%nat).
    { intros r. rewrite (hrefs_set_none r _ hr _ G2). reflexivity. }
    assert (Hs : forall a, snap_handles a (set_nth (handles s) hr None) = snap_handles a (handles s)).
    { intros a. pose proof (snap_handles_set_none a _ hr _ G2) as Q. cbn [is_snap] in Q. lia. }
    destruct (from_arc_regions_ok _ _); cbn [fst].
    + apply (inv_gen s _ _ (fun r => count r rs) (fun _ => O) HI); [intros r; apply clone_arcs_at|exact Own| |].
      * intros r. rewrite hrefs_app. cbn [hrefs href]. rewrite Cnt, (Hh r). lia.
      * intros a. rewrite snap_handles_snoc_map. apply Hs.
    + apply (inv_gen s _ _ (fun r => count r rs) (fun r => count r (sort_by_start (clone_arcs rs (reg s)) (rs ++ [r0]))) HI);
        [intros r; rewrite drop_arcs_at, clone_arcs_at; reflexivity|exact Own| |exact Hs].
      intros r. rewrite Cnt, (Hh r). lia.
Qed.

Lemma run_from_Inv l : forall s, Inv s -> Inv (run_from l s).
Proof. induction l as [|o l IH]; intros s HI; cbn [run_from]; [exact HI|apply IH, exec_Inv, HI]. Qed.
Lemma run_Inv l : Inv (run l).
Proof. apply run_from_Inv, Inv_init. Qed.

(* ------------------------------------------------------------------ owners = who can reach *)
Lemma hrefs_pos_ex r l : (0 < hrefs r l)%nat -> exists i h, nth_error l i = Some (Some h) /\ (0 < href r h)%nat.
Proof.
  induction l as [|[h|] l IH]; cbn [hrefs]; intros P; [lia| |].
  - destruct (href r h) eqn:E.
    + destruct (IH ltac:(lia)) as (i & h' & A & B). exists (S i), h'. split; assumption.
    + exists O, h. split; [reflexivity|lia].
  - destruct (IH P) as (i & h' & A & B). exists (S i), h'. split; assumption.
Qed.
Lemma srefs_pos_ex r l : (0 < srefs r l)%nat -> exists a sn, nth_error l a = Some sn /\ (0 < count r (s_regions sn))%nat.
Proof.
  induction l as [|x l IH]; cbn [srefs]; intros P; [lia|].
  destruct (count r (s_regions x)) eqn:E.
  - destruct (IH ltac:(lia)) as (a & sn & A & B). exists (S a), sn. split; assumption.
  - exists O, x. split; [reflexivity|lia].
Qed.
Lemma snap_handles_pos_ex a l : (0 < snap_handles a l)%nat -> exists i, nth_error l i = Some (Some (HSnap a)).
Proof.
  induction l as [|x l IH]; cbn [snap_handles]; intros P; [lia|].
  destruct x as [[r|rs|a']|]; try (destruct (IH P) as [i Hi]; exists (S i); exact Hi).
  destruct (Nat.eqb_spec a a'); [subst; exists O; reflexivity|]. destruct (IH ltac:(lia)) as [i Hi]. exists (S i); exact Hi.
Qed.

Lemma owners_pos_iff_reaches_gen s r : Inv s -> ((0 < owners r s)%nat <-> reaches s r).
Proof.
  intros HI. unfold owners, reaches. split.
  - intros P. destruct (hrefs r (handles s)) eqn:Hh.
    + destruct (srefs_pos_ex r (snaps s) ltac:(lia)) as (a & sn & A & B).
      destruct (J_snap s HI a sn A) as [S1 S2].
      assert (s_strong sn <> O) by (intros Z; rewrite (S2 Z) in B; cbn in B; lia).
      destruct (snap_handles_pos_ex a (handles s) ltac:(lia)) as [i Hi].
      exists i, (HSnap a). split; [exact Hi|]. cbn [reach_list]. rewrite A. apply count_pos_In, B.
    + destruct (hrefs_pos_ex r (handles s) ltac:(lia)) as (i & h & A & B). exists i, h. split; [exact A|].
      destruct h as [r'|rs|a]; cbn [href reach_list] in *.
      * destruct (N.eqb_spec r r'); [subst; left; reflexivity|lia].
      * apply count_pos_In, B.
      * lia.
  - intros (i & h & A & B). destruct h as [r'|rs|a]; cbn [reach_list] in B.
    + destruct B as [<-|[]]. pose proof (hrefs_ge r' _ i _ A) as Q. cbn [href] in Q. rewrite N.eqb_refl in Q. lia.
    + pose proof (hrefs_ge r _ i _ A) as Q. cbn [href] in Q. apply count_pos_In in B. lia.
    + destruct (nth_error (snaps s) a) as [sn|] eqn:Sa; [|destruct B].
      pose proof (srefs_ge r _ a sn Sa) as Q. apply count_pos_In in B. lia.
Qed.

Lemma K_of l r : r < nreg (run l) -> K (reg (run l) r) (owners r (run l)).
Proof. intros H. apply (J_reg _ (run_Inv l)), H. Qed.

Lemma strong_counts_lemma : forall l r, r < nreg (run l) ->
  r_strong (reg (run l) r) = owners r (run l) /\ r_ub (reg (run l) r) = false.
Proof. intros l r H. destruct (K_of l r H) as (A & B & _). split; assumption. Qed.

Lemma owners_pos_iff_reaches_lemma : forall l r, (0 < owners r (run l))%nat <-> reaches (run l) r.
Proof. intros l r. apply owners_pos_iff_reaches_gen, run_Inv. Qed.

Lemma live_iff_owner_lemma : forall l r, r < nreg (run l) -> r_kind (reg (run l) r) <> 2 ->
  (r_live (reg (run l) r) = true <-> reaches (run l) r).
Proof.
  intros l r H Hk. rewrite <- owners_pos_iff_reaches_lemma. destruct (K_of l r H) as (_ & _ & C).
  rewrite (J_kind _ (run_Inv l) r H) in C. destruct (N.eqb_spec (r_kind (reg (run l) r)) 2); [contradiction|]. cbn [negb] in C.
  destruct C as [(C1 & _ & C3)|(C1 & _ & C3)]; rewrite C1; split; intros; try lia; try reflexivity; try discriminate.
Qed.

Lemma no_dangling_lemma : forall l i h r,
  nth_error (handles (run l)) i = Some (Some h) -> In r (reach_list (run l) h) ->
  r < nreg (run l) /\ r_live (reg (run l) r) = true /\ (0 < r_strong (reg (run l) r))%nat.
Proof.
  intros l i h r A B. pose proof (run_Inv l) as HI.
  assert (P : (0 < owners r (run l))%nat) by (apply owners_pos_iff_reaches_lemma; exists i, h; split; assumption).
  assert (L : r < nreg (run l)).
  { destruct (N.lt_ge_cases r (nreg (run l))) as [L|L]; [exact L|]. rewrite (J_fresh _ HI r L) in P. lia. }
  split; [exact L|]. destruct (K_of l r L) as (K1 & _ & K3). split; [|lia].
  destruct (r_owned (reg (run l) r)); [|apply K3]. destruct K3 as [(C1 & _)|(_ & _ & C3)]; [exact C1|lia].
Qed.

Lemma unmapped_once_lemma : forall l r, r < nreg (run l) ->
  (r_unmaps (reg (run l) r) <= 1)%nat /\
  (r_kind (reg (run l) r) <> 2 ->
     (r_unmaps (reg (run l) r) = 1%nat <-> ~ reaches (run l) r) /\
     (r_unmaps (reg (run l) r) = 1%nat <-> r_live (reg (run l) r) = false)).
Proof.
  intros l r H. destruct (K_of l r H) as (_ & _ & C). split.
  - destruct (r_owned (reg (run l) r)); [destruct C as [(_ & C2 & _)|(_ & C2 & _)]|destruct C as [_ C2]]; lia.
  - intros Hk. rewrite <- owners_pos_iff_reaches_lemma.
    rewrite (J_kind _ (run_Inv l) r H) in C. destruct (N.eqb_spec (r_kind (reg (run l) r)) 2); [contradiction|]. cbn [negb] in C.
    destruct C as [(C1 & C2 & C3)|(C1 & C2 & C3)]; rewrite C1, C2; split; split; intros; try lia; try reflexivity; try discriminate.
Qed.

Lemma raw_never_unmapped_lemma : forall l r, r < nreg (run l) -> r_kind (reg (run l) r) = 2 ->
  r_owned (reg (run l) r) = false /\ r_unmaps (reg (run l) r) = O /\ r_live (reg (run l) r) = true.
Proof.
  intros l r H Hk. destruct (K_of l r H) as (_ & _ & C).
  rewrite (J_kind _ (run_Inv l) r H) in *. rewrite Hk in *. cbn in C. destruct C as [C1 C2]. repeat split; assumption.
Qed.

Lemma no_leak_lemma : forall l, quiescent (run l) -> forall r, r < nreg (run l) ->
  r_kind (reg (run l) r) <> 2 -> r_live (reg (run l) r) = false /\ r_unmaps (reg (run l) r) = 1%nat.
Proof.
  intros l Q r H Hk.
  assert (NR : ~ reaches (run l) r) by (intros (i & h & A & _); exact (Q i h A)).
  destruct (unmapped_once_lemma l r H) as [_ U]. destruct (U Hk) as [U1 U2].
  assert (E : r_unmaps (reg (run l) r) = 1%nat) by (apply U1; exact NR). split; [apply U2; exact E|exact E].
Qed.

(* the live component of the checker, for all histories: the regions still mapped are exactly the raw
   ones and those somebody owns *)
Lemma mask_upto_ext n p q : (forall g, g < N.of_nat n -> p g = q g) -> mask_upto n p = mask_upto n q.
Proof.
  induction n as [|n IH]; intros H; cbn [mask_upto]; [reflexivity|].
  rewrite IH by (intros g Hg; apply H; lia). rewrite (H (N.of_nat n)) by lia. reflexivity.
Qed.
Lemma model_live_lemma : forall l,
  mask_live (run l) = mask_upto (N.to_nat (nreg (run l)))
     (fun r => (r_kind (reg (run l) r) =? 2) || negb (Nat.eqb (owners r (run l)) 0)).
Proof.
  intros l. unfold mask_live. apply mask_upto_ext. intros r Hr. rewrite N2Nat.id in Hr.
  destruct (K_of l r Hr) as (_ & _ & C). rewrite (J_kind _ (run_Inv l) r Hr) in C.
  destruct (r_kind (reg (run l) r) =? 2); cbn [negb orb] in *.
  - apply C.
  - destruct C as [(C1 & _ & C3)|(C1 & _ & C3)]; rewrite C1.
    + destruct (Nat.eqb_spec (owners r (run l)) 0); [lia|reflexivity].
    + rewrite C3. reflexivity.
Qed.

(* ================================================================== the machine satisfies the checker
   Simulation between the machine (Impl/Owner.v) and the checker's reference state (Spec/C12.v): the
   same region table, and handle by handle the same regions UP TO PERMUTATION (insert_region sorts
   its vector, the checker keeps insertion order; remove_region takes an index, the checker removes
   the first occurrence). *)
Ltac lits :=
  change (1 =? 1) with true; change (2 =? 1) with false; change (0 =? 1) with false;
  change (2 =? 2) with true; change (0 =? 0) with true; change (0 =? 2) with false;
  change (1 =? 2) with false; change (1 =? 0) with false; change (2 =? 0) with false; cbn [andb].

Lemma mask_of_perm a b : Permutation a b -> mask_of a = mask_of b.
Proof.
  induction 1 as [|x a b _ IH|x y a|a b c _ IH1 _ IH2]; cbn [mask_of].
  - reflexivity.
  - rewrite IH. reflexivity.
  - rewrite !N.lor_assoc, (N.lor_comm (2 ^ y) (2 ^ x)). reflexivity.
  - congruence.
Qed.
Lemma mask_of_one r : mask_of [r] = 2 ^ r.
Proof. cbn [mask_of]. apply N.lor_0_r. Qed.
Lemma existsb_eqb_In r l : existsb (N.eqb r) l = true <-> In r l.
Proof.
  rewrite existsb_exists. split.
  - intros (x & Hx & E). apply N.eqb_eq in E. subst. exact Hx.
  - intros H. exists r. split; [exact H|apply N.eqb_refl].
Qed.

Lemma insert_sorted_perm f x l : Permutation (insert_sorted f x l) (x :: l).
Proof.
  induction l as [|y l IH]; cbn [insert_sorted]; [apply Permutation_refl|].
  destruct (start_of f x <? start_of f y); [apply Permutation_refl|].
  eapply perm_trans; [apply perm_skip, IH|apply perm_swap].
Qed.
Lemma sort_perm f l : Permutation (sort_by_start f l) l.
Proof.
  induction l as [|x l IH]; cbn [sort_by_start]; [constructor|].
  eapply perm_trans; [apply insert_sorted_perm|apply perm_skip, IH].
Qed.
Lemma remove_nth_perm i : forall l, (i < length l)%nat -> Permutation l (nth i l 0 :: remove_nth i l).
Proof.
  induction i as [|i IH]; intros [|x l] L; cbn [length] in L; try lia; cbn [nth remove_nth]; [apply Permutation_refl|].
  eapply perm_trans; [apply perm_skip, (IH l); lia|apply perm_swap].
Qed.
Lemma remove_one_perm r : forall l, In r l -> Permutation l (r :: remove_one r l).
Proof.
  induction l as [|x l IH]; intros H; [destruct H|]. cbn [remove_one].
  destruct (N.eqb_spec x r) as [->|Hn]; [apply Permutation_refl|].
  destruct H as [H|H]; [congruence|]. eapply perm_trans; [apply perm_skip, IH, H|apply perm_swap].
Qed.
Lemma find_start_nth f base : forall rs i, find_start f base rs = Some i -> start_of f (nth i rs 0) = base.
Proof.
  induction rs as [|r t IH]; intros i H; cbn [find_start] in H; [discriminate|].
  destruct (N.eqb_spec (start_of f r) base) as [E|E]; [inversion H; subst i; cbn [nth]; exact E|].
  destruct (find_start f base t) as [j|]; [|discriminate]. inversion H; subst. cbn [nth]. apply IH. reflexivity.
Qed.

(* ---- static fields *)
Definition same_static (f g : N -> rrec) : Prop := forall r, r_kind (f r) = r_kind (g r) /\ r_slot (f r) = r_slot (g r).
Lemma clone_arcs_static rs f : same_static (clone_arcs rs f) f.
Proof.
  intros r. rewrite clone_arcs_at. destruct (iter_static clone1 (count r rs) (f r) clone1_static) as (A & B & _). split; assumption.
Qed.
Lemma drop_arcs_static rs f : same_static (drop_arcs rs f) f.
Proof.
  intros r. rewrite drop_arcs_at. destruct (iter_static drop1 (count r rs) (f r) drop1_static) as (A & B & _). split; assumption.
Qed.
Lemma same_static_trans f g h : same_static f g -> same_static g h -> same_static f h.
Proof. intros A B r. destruct (A r), (B r). split; congruence. Qed.
Lemma same_static_refl f : same_static f f.
Proof. intros r. split; reflexivity. Qed.

(* ---- the simulation *)
Definition hsim (SN : list snap) (h : option handle) (k : option shandle) : Prop :=
  match h, k with
  | None, None => True
  | Some (HRegion r), Some (SRegion r') => r = r'
  | Some (HMap rs), Some (SMap rs') => Permutation rs rs'
  | Some (HSnap a), Some (SSnap rs') => exists sn, nth_error SN a = Some sn /\ Permutation (s_regions sn) rs'
  | _, _ => False
  end.
Record Sim (s : state) (k : sstate) : Prop := {
  M_n : N.of_nat (length (k_kinds k)) = nreg s;
  M_kind : forall r, r < nreg s -> kind_of k r = r_kind (reg s r) /\ slot_of k r = r_slot (reg s r);
  M_hs : Forall2 (hsim (snaps s)) (handles s) (k_hs k)
}.

Lemma Sim_init : Sim init sinit.
Proof. constructor; cbn; [reflexivity|intros r H; lia|constructor]. Qed.

Lemma lookup_F2 SN hs ks : Forall2 (hsim SN) hs ks -> forall i,
  hsim SN (match nth_error hs i with Some (Some h) => Some h | _ => None end)
         (match nth_error ks i with Some (Some h) => Some h | _ => None end).
Proof.
  induction 1 as [|h k hs ks Hh _ IH]; intros [|i]; cbn [nth_error]; try exact I; [|apply IH].
  destruct h as [h|], k as [k|]; cbn [hsim] in *; try contradiction; exact Hh.
Qed.
Lemma lookup_sim s k i : Sim s k -> hsim (snaps s) (get_handle s i) (k_get k i).
Proof. intros HS. exact (lookup_F2 _ _ _ (M_hs s k HS) i). Qed.

Lemma F2_set_none SN hs ks : Forall2 (hsim SN) hs ks -> forall i, Forall2 (hsim SN) (set_nth hs i None) (sset_nth ks i None).
Proof.
  induction 1 as [|h k hs ks Hh Ht IH]; intros [|i]; cbn [set_nth sset_nth]; constructor; try assumption.
  - exact I.
  - apply IH.
Qed.
Lemma F2_snaps SN SN' hs ks : Forall2 (hsim SN) hs ks ->
  (forall i a, nth_error hs i = Some (Some (HSnap a)) -> forall sn, nth_error SN a = Some sn ->
     exists sn', nth_error SN' a = Some sn' /\ s_regions sn' = s_regions sn) ->
  Forall2 (hsim SN') hs ks.
Proof.
  induction 1 as [|h k hs ks Hh Ht IH]; intros H; constructor.
  - destruct h as [[r|rs|a]|], k as [[r'|rs'|rs']|]; cbn [hsim] in *; try contradiction; try exact Hh.
    destruct Hh as (sn & A & B). destruct (H O a eq_refl sn A) as (sn' & A' & B'). exists sn'. split; [exact A'|rewrite B'; exact B].
  - apply IH. intros i a Hi. apply (H (S i) a Hi).
Qed.

Lemma sim_push s k f new knew : Sim s k -> same_static f (reg s) ->
  Forall2 (hsim (snaps s)) (map Some new) (map Some knew) -> Sim (push s f new) (spush k knew).
Proof.
  intros HS St Hn. constructor; cbn [push spush nreg reg snaps handles k_kinds k_hs].
  - apply (M_n s k HS).
  - intros r Hr. destruct (St r) as [A B]. rewrite A, B. apply (M_kind s k HS r Hr).
  - apply Forall2_app; [apply (M_hs s k HS)|exact Hn].
Qed.
Lemma sim_with_reg s k f : Sim s k -> same_static f (reg s) -> Sim (with_reg s f) k.
Proof.
  intros HS St. constructor; cbn [with_reg nreg reg snaps handles].
  - apply (M_n s k HS).
  - intros r Hr. destruct (St r) as [A B]. rewrite A, B. apply (M_kind s k HS r Hr).
  - apply (M_hs s k HS).
Qed.

Lemma region_handles_sim s k : Sim s k -> forall hs, sregion_handles k hs = region_handles s hs.
Proof.
  intros HS. induction hs as [|h t IH]; cbn [sregion_handles region_handles]; [reflexivity|].
  pose proof (lookup_sim s k h HS) as L.
  destruct (get_handle s h) as [[r|rs|a]|], (k_get k h) as [[r'|rs'|rs']|]; cbn [hsim] in L; try contradiction;
    try reflexivity.
  subst. rewrite IH. reflexivity.
Qed.

Lemma handle_reg_lt s i h r : Inv s -> nth_error (handles s) i = Some (Some h) -> (0 < href r h)%nat -> r < nreg s.
Proof.
  intros HI H P. pose proof (handle_owned s i h r H P) as Q.
  destruct (N.lt_ge_cases r (nreg s)) as [L|L]; [exact L|]. rewrite (J_fresh s HI r L) in Q. lia.
Qed.
Lemma snap_handles_none a l i : snap_handles a l = O -> nth_error l i <> Some (Some (HSnap a)).
Proof.
  intros Z H. rewrite (snap_handles_set_none a l i _ H) in Z. cbn [is_snap] in Z. rewrite Nat.eqb_refl in Z. lia.
Qed.

(* ---- reachability and the live mask *)
Lemma hsim_reach s h sh r : hsim (snaps s) (Some h) (Some sh) -> (In r (reach_list s h) <-> In r (regs_of sh)).
Proof.
  destruct h as [r0|rs|a], sh as [r'|rs'|rs']; cbn [hsim reach_list regs_of]; try contradiction.
  - intros ->. reflexivity.
  - intros P. split; apply Permutation_in; [exact P|apply Permutation_sym; exact P].
  - intros (sn & A & P). rewrite A. split; apply Permutation_in; [exact P|apply Permutation_sym; exact P].
Qed.
Lemma reach_F2 s hs ks r : Forall2 (hsim (snaps s)) hs ks ->
  (reach ks r = true <-> exists i h, nth_error hs i = Some (Some h) /\ In r (reach_list s h)).
Proof.
  induction 1 as [|h k hs ks Hh _ IH]; unfold reach in *; cbn [existsb].
  - split; [discriminate|]. intros (i & h & A & _). destruct i; discriminate.
  - rewrite orb_true_iff, IH. split.
    + intros [H|(i & h0 & A & B)].
      * destruct k as [sh|]; [|discriminate]. destruct h as [h0|]; [|exfalso; exact Hh].
        exists O, h0. split; [reflexivity|]. apply (hsim_reach s h0 sh r Hh). apply existsb_eqb_In. exact H.
      * exists (S i), h0. split; assumption.
    + intros (i & h0 & A & B). destruct i as [|i].
      * cbn [nth_error] in A. inversion A; subst. left. destruct k as [sh|]; [|exfalso; destruct h0; exact Hh].
        apply existsb_eqb_In. apply (hsim_reach s h0 sh r Hh). exact B.
      * right. exists i, h0. split; assumption.
Qed.

Lemma live_sim s k : Inv s -> Sim s k -> mask_live s = expected_live k.
Proof.
  intros HI HS. unfold mask_live, expected_live.
  replace (length (k_kinds k)) with (N.to_nat (nreg s)) by (rewrite <- (M_n s k HS); apply Nat2N.id).
  apply mask_upto_ext. intros r Hr. rewrite N2Nat.id in Hr.
  destruct (M_kind s k HS r Hr) as [Ek _]. rewrite Ek.
  pose proof (J_reg s HI r Hr) as (_ & _ & C). rewrite (J_kind s HI r Hr) in C.
  destruct (r_kind (reg s r) =? 2); cbn [negb] in C; [apply C|].
  pose proof (owners_pos_iff_reaches_gen s r HI) as OR. pose proof (reach_F2 s _ _ r (M_hs s k HS)) as RF.
  fold (reaches s r) in RF.
  destruct C as [(C1 & _ & C3)|(C1 & _ & C3)]; rewrite C1.
  - symmetry. apply RF, OR. exact C3.
  - destruct (reach (k_hs k) r) eqn:E; [|reflexivity]. exfalso.
    assert (0 < owners r s)%nat by (apply OR, RF; reflexivity). lia.
Qed.

(* ---- one operation: the checker accepts the st / val the machine reports and the states stay related *)
Definition op_goal (o : wop) (s : state) (k : sstate) : Prop :=
  exists k', spec_op k o (obs_of_result (snd (wexec o s)) (fst (wexec o s))) = Some k' /\ Sim (fst (wexec o s)) k'.

Ltac quiet HS := cbn [fst snd obs_of_result w_st w_val]; lits; eexists; split; [reflexivity|exact HS].

Lemma op_create kind slot s k : Inv s -> Sim s k -> op_goal (WCreate kind slot) s k.
Proof.
  intros HI HS. unfold op_goal, wexec. cbn [op_of exec spec_op fst snd obs_of_result w_st w_val].
  rewrite mask_of_one, (M_n s k HS). lits. rewrite N.eqb_refl. eexists. split; [reflexivity|].
  constructor; cbn [nreg reg snaps handles k_kinds k_hs].
  - rewrite app_length. cbn [length]. rewrite <- (M_n s k HS). lia.
  - intros r Hr. unfold kind_of, slot_of, updf. cbn [k_kinds].
    destruct (N.eqb_spec r (nreg s)) as [->|Hn].
    + rewrite <- (M_n s k HS), Nat2N.id, app_nth2, Nat.sub_diag by lia. split; reflexivity.
    + assert (Hlt : r < nreg s) by lia. rewrite app_nth1 by (rewrite <- (M_n s k HS) in Hlt; lia).
      apply (M_kind s k HS r Hlt).
  - apply Forall2_app; [apply (M_hs s k HS)|]. constructor; [|constructor]. cbn [hsim]. reflexivity.
Qed.

Lemma op_build hs s k : Inv s -> Sim s k -> op_goal (WBuild hs) s k.
Proof.
  intros HI HS. unfold op_goal, wexec. cbn [op_of exec spec_op]. rewrite (region_handles_sim s k HS).
  destruct (region_handles s hs) as [rs|]; [|quiet HS].
  destruct (from_arc_regions_ok (clone_arcs rs (reg s)) rs); cbn [fst snd obs_of_result w_st w_val]; lits.
  - rewrite N.eqb_refl. eexists. split; [reflexivity|]. apply sim_push; [exact HS|apply clone_arcs_static|].
    constructor; [|constructor]. cbn [hsim]. apply Permutation_refl.
  - eexists. split; [reflexivity|]. apply sim_with_reg; [exact HS|].
    eapply same_static_trans; [apply drop_arcs_static|apply clone_arcs_static].
Qed.

Lemma op_insert hm hr s k : Inv s -> Sim s k -> op_goal (WInsert hm hr) s k.
Proof.
  intros HI HS. unfold op_goal, wexec. cbn [op_of exec spec_op].
  pose proof (lookup_sim s k hm HS) as L1. pose proof (lookup_sim s k hr HS) as L2.
  destruct (get_handle s hm) as [[r1|rs|a1]|], (k_get k hm) as [[r1'|rs'|rs1']|]; cbn [hsim] in L1; try contradiction;
    try (quiet HS).
  destruct (get_handle s hr) as [[r|rs2|a2]|], (k_get k hr) as [[r'|rs2'|rs2']|]; cbn [hsim] in L2; try contradiction;
    try (quiet HS).
  subst r'. cbv zeta.
  set (f2 := updf (clone_arcs rs (reg s)) r (clone1 (clone_arcs rs (reg s) r))).
  assert (St : same_static f2 (reg s)).
  { change f2 with (clone_arcs [r] (clone_arcs rs (reg s))).
    eapply same_static_trans; apply clone_arcs_static. }
  assert (P : Permutation (sort_by_start f2 (rs ++ [r])) (r :: rs')).
  { eapply perm_trans; [apply sort_perm|]. eapply perm_trans; [apply Permutation_sym, Permutation_cons_append|].
    apply perm_skip. exact L1. }
  destruct (from_arc_regions_ok f2 (sort_by_start f2 (rs ++ [r]))); cbn [fst snd obs_of_result w_st w_val]; lits.
  - rewrite (mask_of_perm _ _ P), N.eqb_refl. eexists. split; [reflexivity|].
    apply sim_push; [exact HS|exact St|]. constructor; [|constructor]. exact P.
  - eexists. split; [reflexivity|]. apply sim_with_reg; [exact HS|].
    eapply same_static_trans; [apply drop_arcs_static|exact St].
Qed.

Lemma op_remove hm base size s k : Inv s -> Sim s k -> op_goal (WRemove hm base size) s k.
Proof.
  intros HI HS. unfold op_goal, wexec. cbn [op_of exec spec_op].
  pose proof (lookup_sim s k hm HS) as L1.
  destruct (get_handle s hm) as [[r1|rs|a1]|] eqn:G, (k_get k hm) as [[r1'|rs'|rs1']|]; cbn [hsim] in L1; try contradiction;
    try (quiet HS).
  apply get_handle_Some in G.
  destruct (find_start (reg s) base rs) as [i|] eqn:F; [|quiet HS].
  destruct (size =? PAGE); [|quiet HS].
  cbv zeta. cbn [fst snd obs_of_result w_st w_val]. lits. rewrite mask_of_one.
  pose proof (find_start_lt _ _ _ _ F) as Li. pose proof (find_start_nth _ _ _ _ F) as Eb.
  set (r := nth i rs 0) in *.
  assert (Hin : In r rs) by (apply nth_In; exact Li).
  assert (Hin' : In r rs') by (eapply Permutation_in; [exact L1|exact Hin]).
  assert (Hlt : r < nreg s).
  { apply (handle_reg_lt s hm (HMap rs) r HI G). cbn [href]. apply count_pos_In. exact Hin. }
  set (pred := fun r0 => (2 ^ r0 =? 2 ^ r) && (slot_of k r0 * 65536 =? base)).
  assert (Hp : pred r = true).
  { unfold pred. rewrite N.eqb_refl. cbn [andb]. destruct (M_kind s k HS r Hlt) as [_ Es]. rewrite Es.
    apply N.eqb_eq. exact Eb. }
  destruct (find pred rs') as [r2|] eqn:Fd.
  - apply find_some in Fd. destruct Fd as [_ Fp]. unfold pred in Fp. apply andb_true_iff in Fp. destruct Fp as [Fp _].
    apply N.eqb_eq in Fp. apply N.pow_inj_r in Fp; [|lia]. subst r2.
    eexists. split; [reflexivity|]. apply sim_push; [exact HS|apply clone_arcs_static|].
    constructor; [|constructor; [reflexivity|constructor]]. cbn [hsim].
    apply (Permutation_cons_inv (a := r)).
    eapply perm_trans; [apply Permutation_sym, remove_nth_perm; exact Li|].
    eapply perm_trans; [exact L1|]. apply remove_one_perm. exact Hin'.
  - exfalso. pose proof (find_none _ _ Fd r Hin') as X. congruence.
Qed.

Lemma op_clone h s k : Inv s -> Sim s k -> op_goal (WCloneH h) s k.
Proof.
  intros HI HS. unfold op_goal, wexec. cbn [op_of exec spec_op].
  pose proof (lookup_sim s k h HS) as L1.
  destruct (get_handle s h) as [[r|rs|a]|] eqn:G, (k_get k h) as [[r'|rs'|rs']|]; cbn [hsim] in L1; try contradiction;
    try (quiet HS).
  - subst r'. cbn [fst snd obs_of_result w_st w_val regs_of]. lits. rewrite N.eqb_refl.
    eexists. split; [reflexivity|]. apply sim_push; [exact HS| |].
    + change (updf (reg s) r (clone1 (reg s r))) with (clone_arcs [r] (reg s)). apply clone_arcs_static.
    + constructor; [reflexivity|constructor].
  - cbn [fst snd obs_of_result w_st w_val regs_of]. lits. rewrite (mask_of_perm _ _ L1), N.eqb_refl.
    eexists. split; [reflexivity|]. apply sim_push; [exact HS|apply clone_arcs_static|].
    constructor; [exact L1|constructor].
  - destruct L1 as (sn & Sa & P). rewrite Sa.
    cbn [fst snd obs_of_result w_st w_val regs_of]. lits. rewrite (mask_of_perm _ _ P), N.eqb_refl.
    eexists. split; [reflexivity|].
    assert (Keep : forall a0 sn0, nth_error (snaps s) a0 = Some sn0 ->
              exists sn', nth_error (set_nth (snaps s) a {| s_strong := S (s_strong sn); s_regions := s_regions sn |}) a0 = Some sn' /\
                          s_regions sn' = s_regions sn0).
    { intros a0 sn0 H0. rewrite nth_error_set_nth. destruct (Nat.eqb_spec a a0) as [->|Hn].
      - rewrite Sa. eexists. split; [reflexivity|]. cbn [s_regions]. congruence.
      - exists sn0. split; [exact H0|reflexivity]. }
    constructor; cbn [nreg reg snaps handles spush k_kinds k_hs map].
    + apply (M_n s k HS).
    + apply (M_kind s k HS).
    + apply Forall2_app.
      * eapply F2_snaps; [apply (M_hs s k HS)|]. intros i a0 _ sn0 H0. apply Keep. exact H0.
      * constructor; [|constructor]. cbn [hsim]. destruct (Keep a sn Sa) as (sn' & A & B).
        exists sn'. split; [exact A|rewrite B; exact P].
Qed.

Lemma op_snap hm s k : Inv s -> Sim s k -> op_goal (WSnap hm) s k.
Proof.
  intros HI HS. unfold op_goal, wexec. cbn [op_of exec spec_op].
  pose proof (lookup_sim s k hm HS) as L1.
  destruct (get_handle s hm) as [[r|rs|a]|] eqn:G, (k_get k hm) as [[r'|rs'|rs']|]; cbn [hsim] in L1; try contradiction;
    try (quiet HS).
  cbn [fst snd obs_of_result w_st w_val]. lits. rewrite (mask_of_perm _ _ L1), N.eqb_refl.
  eexists. split; [reflexivity|].
  constructor; cbn [nreg reg snaps handles spush k_kinds k_hs map].
  - apply (M_n s k HS).
  - intros r Hr. destruct (clone_arcs_static rs (reg s) r) as [A B]. rewrite A, B. apply (M_kind s k HS r Hr).
  - apply Forall2_app.
    + eapply F2_snaps; [apply (M_hs s k HS)|]. intros i a0 _ sn0 H0. exists sn0. split; [|reflexivity].
      rewrite nth_error_app1; [exact H0|]. apply nth_error_Some. congruence.
    + constructor; [|constructor]. cbn [hsim]. eexists. split.
      * rewrite nth_error_app2, Nat.sub_diag by lia. reflexivity.
      * exact L1.
Qed.

Lemma op_drop h s k : Inv s -> Sim s k -> op_goal (WDropH h) s k.
Proof.
  intros HI HS. unfold op_goal, wexec. cbn [op_of exec spec_op].
  pose proof (lookup_sim s k h HS) as L1.
  destruct (get_handle s h) as [[r|rs|a]|] eqn:G, (k_get k h) as [[r'|rs'|rs']|]; cbn [hsim] in L1; try contradiction;
    try (quiet HS).
  - cbn [fst snd obs_of_result w_st w_val mask_of]. lits. eexists. split; [reflexivity|].
    constructor; cbn [nreg reg snaps handles k_kinds k_hs].
    + apply (M_n s k HS).
    + intros r0 Hr. change (updf (reg s) r (drop1 (reg s r))) with (drop_arcs [r] (reg s)).
      destruct (drop_arcs_static [r] (reg s) r0) as [A B]. rewrite A, B. apply (M_kind s k HS r0 Hr).
    + apply F2_set_none, (M_hs s k HS).
  - cbn [fst snd obs_of_result w_st w_val mask_of]. lits. eexists. split; [reflexivity|].
    constructor; cbn [nreg reg snaps handles k_kinds k_hs].
    + apply (M_n s k HS).
    + intros r0 Hr. destruct (drop_arcs_static rs (reg s) r0) as [A B]. rewrite A, B. apply (M_kind s k HS r0 Hr).
    + apply F2_set_none, (M_hs s k HS).
  - destruct L1 as (sn & Sa & P). rewrite Sa. apply get_handle_Some in G.
    destruct (J_snap s HI a sn Sa) as [Jc _].
    assert (Same : forall n, Forall2 (hsim (set_nth (snaps s) a {| s_strong := n; s_regions := s_regions sn |}))
                               (set_nth (handles s) h None) (sset_nth (k_hs k) h None)).
    { intros n. eapply F2_snaps; [apply F2_set_none, (M_hs s k HS)|]. intros i a0 _ sn0 H0.
      rewrite nth_error_set_nth. destruct (Nat.eqb_spec a a0) as [->|Hn].
      - rewrite Sa. eexists. split; [reflexivity|]. cbn [s_regions]. congruence.
      - exists sn0. split; [exact H0|reflexivity]. }
    destruct (s_strong sn) as [|[|n]] eqn:St; cbn [fst snd obs_of_result w_st w_val mask_of]; lits;
      (eexists; split; [reflexivity|]); constructor; cbn [nreg reg snaps handles k_kinds k_hs];
      try apply (M_n s k HS); try apply (M_kind s k HS); try apply Same.
    + intros r0 Hr. destruct (drop_arcs_static (s_regions sn) (reg s) r0) as [A B]. rewrite A, B. apply (M_kind s k HS r0 Hr).
    + (* the last Arc<map>: no other handle names this snapshot *)
      assert (Z : snap_handles a (set_nth (handles s) h None) = O).
      { pose proof (snap_handles_set_none a _ h _ G) as Q. cbn [is_snap] in Q. rewrite Nat.eqb_refl in Q. lia. }
      eapply F2_snaps; [apply F2_set_none, (M_hs s k HS)|]. intros i a0 Hi sn0 H0.
      rewrite nth_error_set_nth. destruct (Nat.eqb_spec a a0) as [->|Hn].
      * exfalso. exact (snap_handles_none a0 _ i Z Hi).
      * exists sn0. split; [exact H0|reflexivity].
Qed.

Lemma op_sim o s k : Inv s -> Sim s k -> op_goal o s k.
Proof.
  intros HI HS. destruct o as [kind slot|hs|hm hr|hm base size|h|hm|h|].
  - apply op_create; assumption.
  - apply op_build; assumption.
  - apply op_insert; assumption.
  - apply op_remove; assumption.
  - apply op_clone; assumption.
  - apply op_snap; assumption.
  - apply op_drop; assumption.
  - unfold op_goal, wexec. cbn [op_of spec_op]. quiet HS.
Qed.

Lemma wexec_Inv o s : Inv s -> Inv (fst (wexec o s)).
Proof. intros HI. unfold wexec. destruct (op_of o) as [o'|]; [apply exec_Inv; exact HI|exact HI]. Qed.

Lemma ok_from_sim : forall ops s k, Inv s -> Sim s k -> ok_from k ops (run_w s ops) = true.
Proof.
  induction ops as [|o ops IH]; intros s k HI HS; cbn [run_w ok_from]; [reflexivity|].
  destruct (op_sim o s k HI HS) as (k' & E & HS'). pose proof (wexec_Inv o s HI) as HI'.
  destruct (wexec o s) as [s' r]. cbn [fst snd] in *. cbn [ok_from]. unfold spec_step. rewrite E.
  replace (w_live (obs_of_result r s')) with (mask_live s') by (destruct r; reflexivity).
  rewrite (live_sim s' k' HI' HS'), N.eqb_refl. apply IH; assumption.
Qed.

Lemma C12_model_ok_lemma : forall ops, ok_C12 ops (run_C12 ops) = true.
Proof. intros ops. apply ok_from_sim; [apply Inv_init|apply Sim_init]. Qed.

(* ================================================================== refusals and consumed arguments
   (operations WCreateRefused / WBuildMove / WInsertMove of the extended checker) *)
Lemma snodup_nodupb l : snodup l = nodupb l.
Proof. induction l as [|x t IH]; cbn [snodup nodupb]; [reflexivity|rewrite IH; reflexivity]. Qed.
Lemma F2_kill SN : forall l hs ks, Forall2 (hsim SN) hs ks -> Forall2 (hsim SN) (kill l hs) (skill l ks).
Proof. induction l as [|h t IH]; intros hs ks H; cbn [kill skill]; [exact H|]. apply IH, F2_set_none, H. Qed.

Definition op_goalr (o : wopr) (s : state) (k : sstate) : Prop :=
  exists k', spec_opr k o (obs_of_result (snd (wexecr o s)) (fst (wexecr o s))) = Some k' /\ Sim (fst (wexecr o s)) k'.

Ltac quietr HS := cbn [fst snd obs_of_result w_st w_val]; lits; eexists; split; [reflexivity|exact HS].

Lemma op_createrefused v slot s k : Inv s -> Sim s k -> op_goalr (WCreateRefused v slot) s k.
Proof.
  intros HI HS. unfold op_goalr, wexecr. cbn [opr_of exec spec_opr].
  destruct (v <? 6) eqn:Ev; cbn [fst snd obs_of_result w_st w_val]; lits; cbn [orb andb].
  - eexists. split; [reflexivity|exact HS].
  - eexists. split; [reflexivity|].
    set (kind := (v - 6) mod 3).
    set (built := {| r_kind := kind; r_slot := slot; r_owned := negb (kind =? 2); r_strong := 0; r_live := true; r_unmaps := 0; r_ub := false |}).
    constructor; cbn [nreg reg snaps handles k_kinds k_hs].
    + rewrite app_length. cbn [length]. rewrite <- (M_n s k HS). lia.
    + intros r Hr. unfold kind_of, slot_of, updf. cbn [k_kinds].
      destruct (N.eqb_spec r (nreg s)) as [->|Hn].
      * rewrite <- (M_n s k HS), Nat2N.id, app_nth2, Nat.sub_diag by lia. cbn [nth fst snd].
        destruct (drop_region_static built) as (A & B & _). rewrite A, B. split; reflexivity.
      * assert (Hlt : r < nreg s) by lia. rewrite app_nth1 by (rewrite <- (M_n s k HS) in Hlt; lia).
        apply (M_kind s k HS r Hlt).
    + apply (M_hs s k HS).
Qed.

Lemma op_buildmove unwrap hs s k : Inv s -> Sim s k -> op_goalr (WBuildMove unwrap hs) s k.
Proof.
  intros HI HS. unfold op_goalr, wexecr. cbn [opr_of exec spec_opr]. rewrite (region_handles_sim s k HS), snodup_nodupb.
  destruct (region_handles s hs) as [rs|]; [|quietr HS].
  destruct (nodupb hs) eqn:Hd; cbn [andb]; [|quietr HS].
  destruct (if unwrap then all_sole (reg s) rs else true) eqn:Hu.
  2:{ destruct unwrap; [|discriminate]. cbn [fst snd obs_of_result w_st w_val]. lits. cbn [andb]. eexists. split; [reflexivity|exact HS]. }
  destruct (from_arc_regions_ok (reg s) rs); cbn [fst snd obs_of_result w_st w_val]; lits.
  - rewrite N.eqb_refl. eexists. split; [reflexivity|].
    constructor; cbn [nreg reg snaps handles k_kinds k_hs].
    + apply (M_n s k HS).
    + apply (M_kind s k HS).
    + apply Forall2_app; [apply F2_kill, (M_hs s k HS)|]. constructor; [|constructor]. cbn [hsim]. apply Permutation_refl.
  - eexists. split; [reflexivity|].
    constructor; cbn [nreg reg snaps handles k_kinds k_hs].
    + apply (M_n s k HS).
    + intros r Hr. destruct (drop_arcs_static rs (reg s) r) as [A B]. rewrite A, B. apply (M_kind s k HS r Hr).
    + apply F2_kill, (M_hs s k HS).
Qed.

Lemma op_insertmove hm hr s k : Inv s -> Sim s k -> op_goalr (WInsertMove hm hr) s k.
Proof.
  intros HI HS. unfold op_goalr, wexecr. cbn [opr_of exec spec_opr].
  pose proof (lookup_sim s k hm HS) as L1. pose proof (lookup_sim s k hr HS) as L2.
  destruct (get_handle s hm) as [[r1|rs|a1]|], (k_get k hm) as [[r1'|rs'|rs1']|]; cbn [hsim] in L1; try contradiction;
    try (quietr HS).
  destruct (get_handle s hr) as [[r|rs2|a2]|], (k_get k hr) as [[r'|rs2'|rs2']|]; cbn [hsim] in L2; try contradiction;
    try (quietr HS).
  subst r'. cbv zeta.
  set (f1 := clone_arcs rs (reg s)).
  assert (St : same_static f1 (reg s)) by apply clone_arcs_static.
  assert (P : Permutation (sort_by_start f1 (rs ++ [r])) (r :: rs')).
  { eapply perm_trans; [apply sort_perm|]. eapply perm_trans; [apply Permutation_sym, Permutation_cons_append|].
    apply perm_skip. exact L1. }
  destruct (from_arc_regions_ok f1 (sort_by_start f1 (rs ++ [r]))); cbn [fst snd obs_of_result w_st w_val]; lits.
  - rewrite (mask_of_perm _ _ P), N.eqb_refl. eexists. split; [reflexivity|].
    constructor; cbn [nreg reg snaps handles k_kinds k_hs].
    + apply (M_n s k HS).
    + intros r0 Hr. destruct (St r0) as [A B]. rewrite A, B. apply (M_kind s k HS r0 Hr).
    + apply Forall2_app; [apply F2_set_none, (M_hs s k HS)|]. constructor; [|constructor]. exact P.
  - eexists. split; [reflexivity|].
    constructor; cbn [nreg reg snaps handles k_kinds k_hs].
    + apply (M_n s k HS).
    + intros r0 Hr. destruct (drop_arcs_static (sort_by_start f1 (rs ++ [r])) f1 r0) as [A B]. destruct (St r0) as [A' B'].
      rewrite A, B, A', B'. apply (M_kind s k HS r0 Hr).
    + apply F2_set_none, (M_hs s k HS).
Qed.

Lemma op_simr o s k : Inv s -> Sim s k -> op_goalr o s k.
Proof.
  intros HI HS. destruct o as [w|v slot|unwrap hs|hm hr].
  - exact (op_sim w s k HI HS).
  - apply op_createrefused; assumption.
  - apply op_buildmove; assumption.
  - apply op_insertmove; assumption.
Qed.
Lemma wexecr_Inv o s : Inv s -> Inv (fst (wexecr o s)).
Proof. intros HI. unfold wexecr. destruct (opr_of o) as [o'|]; [apply exec_Inv; exact HI|exact HI]. Qed.

Lemma ok_fromr_sim : forall ops s k, Inv s -> Sim s k -> ok_fromr k ops (run_wr s ops) = true.
Proof.
  induction ops as [|o ops IH]; intros s k HI HS; cbn [run_wr ok_fromr]; [reflexivity|].
  destruct (op_simr o s k HI HS) as (k' & E & HS'). pose proof (wexecr_Inv o s HI) as HI'.
  destruct (wexecr o s) as [s' r]. cbn [fst snd] in *. cbn [ok_fromr]. unfold spec_stepr. rewrite E.
  replace (w_live (obs_of_result r s')) with (mask_live s') by (destruct r; reflexivity).
  rewrite (live_sim s' k' HI' HS'), N.eqb_refl. apply IH; assumption.
Qed.

Lemma C12r_model_ok_lemma : forall ops, ok_C12r ops (run_C12r ops) = true.
Proof. intros ops. apply ok_fromr_sim; [apply Inv_init|apply Sim_init]. Qed.

(* ================================================================== what a refused operation leaves behind *)
Lemma drop_clone1 x : (0 < r_strong x)%nat -> drop1 (clone1 x) = x.
Proof.
  intros H. destruct x as [k sl ow st lv um ub]. cbn [r_strong] in H. unfold clone1, drop1, with_strong. cbn.
  destruct st as [|n]; [lia|reflexivity].
Qed.
Lemma drop_clone_cancel c : forall x, ((0 < c)%nat -> (0 < r_strong x)%nat) -> iter c drop1 (iter c clone1 x) = x.
Proof.
  induction c as [|c IH]; intros x H; [reflexivity|].
  rewrite (iter_succ_r c clone1 x). cbn [iter]. rewrite IH by (intros _; cbn; lia). apply drop_clone1. apply H. lia.
Qed.
Lemma nth_error_kill : forall hs l i, ~ In i hs -> nth_error (kill hs l) i = nth_error l i.
Proof.
  induction hs as [|h t IH]; intros l i Hn; cbn [kill]; [reflexivity|].
  rewrite IH by (intros Hc; apply Hn; right; exact Hc). rewrite nth_error_set_nth.
  destruct (Nat.eqb_spec h i) as [->|_]; [exfalso; apply Hn; left; reflexivity|reflexivity].
Qed.
Lemma nth_error_kill_in : forall hs l i, In i hs -> (i < length l)%nat -> nth_error (kill hs l) i = Some None.
Proof.
  induction hs as [|h t IH]; intros l i Hin Hl; [destruct Hin|]. cbn [kill].
  destruct (in_dec Nat.eq_dec i t) as [Ht|Ht]; [apply IH; [exact Ht|rewrite set_nth_length; exact Hl]|].
  destruct Hin as [->|Hin]; [|contradiction]. rewrite nth_error_kill by exact Ht. rewrite nth_error_set_nth, Nat.eqb_refl.
  destruct (nth_error l i) eqn:E; [reflexivity|]. apply nth_error_None in E. lia.
Qed.

(* the regions a consumed argument of [o] reaches in state s *)
Definition consumed_reaches (s : state) (o : op) (r : N) : Prop :=
  exists h hd, In h (consumed o) /\ get_handle s h = Some hd /\ In r (reach_list s hd).

Lemma strong_pos_of_count s r c : Inv s -> r < nreg s \/ True -> ((0 < c)%nat -> (0 < owners r s)%nat) ->
  (0 < c)%nat -> (0 < r_strong (reg s r))%nat.
Proof.
  intros HI _ Hp Hc. specialize (Hp Hc).
  destruct (N.lt_ge_cases r (nreg s)) as [L|L]; [|rewrite (J_fresh s HI r L) in Hp; lia].
  destruct (J_reg s HI r L) as (A & _). lia.
Qed.

Lemma refused_unchanged_gen s o : Inv s -> snd (exec o s) = Failed ->
  snaps (fst (exec o s)) = snaps s /\
  (forall i, ~ In i (consumed o) -> nth_error (handles (fst (exec o s))) i = nth_error (handles s) i) /\
  (forall i, In i (consumed o) -> get_handle (fst (exec o s)) i = None) /\
  (forall r, r < nreg s -> ~ consumed_reaches s o r -> reg (fst (exec o s)) r = reg s r).
Proof.
  intros HI. destruct o as [kind slot|hs|hm hr|hm base size|h|hm|h|v slot|unwrap hs|hm hr]; cbn [exec consumed].
  - discriminate.
  - (* Build: the clones are dropped again *)
    destruct (region_handles s hs) as [rs|] eqn:RH; [|discriminate].
    destruct (from_arc_regions_ok (clone_arcs rs (reg s)) rs); [discriminate|]. intros _. cbn [fst with_reg snaps handles reg].
    split; [reflexivity|]. split; [reflexivity|]. split; [intros i []|]. intros r Hr _.
    rewrite drop_arcs_at, clone_arcs_at. apply drop_clone_cancel.
    apply (strong_pos_of_count s r _ HI (or_intror I)). intros P. apply (region_handles_owned s hs rs RH). apply count_pos_In, P.
  - (* Insert *)
    destruct (get_handle s hm) as [[?|rs|?]|] eqn:G1; try discriminate.
    destruct (get_handle s hr) as [[r0|?|?]|] eqn:G2; try discriminate.
    apply get_handle_Some in G1. apply get_handle_Some in G2.
    destruct (from_arc_regions_ok _ _); [discriminate|]. intros _. cbn [fst with_reg snaps handles reg].
    split; [reflexivity|]. split; [reflexivity|]. split; [intros i []|]. intros r Hr _.
    change (updf (clone_arcs rs (reg s)) r0 (clone1 (clone_arcs rs (reg s) r0))) with (clone_arcs [r0] (clone_arcs rs (reg s))).
    rewrite drop_arcs_at, !clone_arcs_at, count_sort, count_app.
    set (x := reg s r). cbn [count]. rewrite Nat.add_0_r.
    assert (E : iter (if N.eqb r r0 then 1 else 0)%nat clone1 (iter (count r rs) clone1 x) = iter (count r rs + (if N.eqb r r0 then 1 else 0)) clone1 x).
    { destruct (N.eqb r r0); [rewrite Nat.add_1_r; reflexivity|rewrite Nat.add_0_r; reflexivity]. }
    rewrite E. apply drop_clone_cancel.
    apply (strong_pos_of_count s r _ HI (or_intror I)). intros P.
    destruct (count r rs) eqn:C.
    + destruct (N.eqb_spec r r0) as [->|]; [|cbn in P; lia]. eapply handle_owned; [exact G2|]. cbn [href]. rewrite N.eqb_refl. lia.
    + eapply handle_owned; [exact G1|]. cbn [href]. lia.
  - (* Remove *)
    destruct (get_handle s hm) as [[?|rs|?]|]; try discriminate.
    destruct (find_start (reg s) base rs) as [i|].
    + destruct (size =? PAGE); [discriminate|]. intros _. cbn [fst]. repeat split; try reflexivity. intros i0 [].
    + intros _. cbn [fst]. repeat split; try reflexivity. intros i0 [].
  - destruct (get_handle s h) as [[r0|rs|a]|]; try discriminate. destruct (nth_error (snaps s) a); discriminate.
  - destruct (get_handle s hm) as [[?|rs|?]|]; discriminate.
  - destruct (get_handle s h) as [[r0|rs|a]|]; try discriminate.
    destruct (nth_error (snaps s) a) as [sn|]; [|discriminate]. destruct (s_strong sn) as [|[|n]]; discriminate.
  - (* CreateRefused *)
    destruct (v <? 6); intros _; cbn [fst snaps handles reg].
    + repeat split; try reflexivity. intros i [].
    + split; [reflexivity|]. split; [reflexivity|]. split; [intros i []|]. intros r Hr _.
      unfold updf. destruct (N.eqb_spec r (nreg s)); [lia|reflexivity].
  - (* BuildMove: the moved handles are gone, their references dropped *)
    destruct (region_handles s hs) as [rs|] eqn:RH; [|discriminate].
    destruct (nodupb hs && (if unwrap then all_sole (reg s) rs else true)); [|discriminate].
    destruct (from_arc_regions_ok (reg s) rs); [discriminate|]. intros _. cbn [fst snaps handles reg].
    rewrite region_handles_rh in RH.
    split; [reflexivity|]. split; [intros i Hn; apply nth_error_kill; exact Hn|]. split.
    + intros i Hin. unfold get_handle. cbn [handles].
      destruct (rh_l_lookup _ _ _ i RH Hin) as (r & En & _).
      rewrite nth_error_kill_in; [reflexivity|exact Hin|]. apply nth_error_Some. congruence.
    + intros r Hr Hn. rewrite drop_arcs_at.
      destruct (count r rs) eqn:C; [reflexivity|exfalso]. apply Hn.
      assert (Hin : In r rs) by (apply count_pos_In; lia).
      destruct (rh_l_In _ _ _ r RH Hin) as (h & Hh & En).
      exists h, (HRegion r). split; [exact Hh|]. split; [unfold get_handle; rewrite En; reflexivity|left; reflexivity].
  - (* InsertMove *)
    destruct (get_handle s hm) as [[?|rs|?]|] eqn:G1; try discriminate.
    destruct (get_handle s hr) as [[r0|?|?]|] eqn:G2; try discriminate.
    destruct (from_arc_regions_ok _ _); [discriminate|]. intros _. cbn [fst snaps handles reg].
    split; [reflexivity|]. split; [|split].
    + intros i Hn. rewrite nth_error_set_nth. destruct (Nat.eqb_spec hr i) as [->|_]; [exfalso; apply Hn; left; reflexivity|reflexivity].
    + intros i [<-|[]]. unfold get_handle. cbn [handles]. rewrite nth_error_set_nth, Nat.eqb_refl.
      apply get_handle_Some in G2. rewrite G2. reflexivity.
    + intros r Hr Hn.
      assert (Hne : r <> r0).
      { intros ->. apply Hn. exists hr, (HRegion r0). split; [left; reflexivity|]. split; [exact G2|left; reflexivity]. }
      apply get_handle_Some in G1.
      rewrite drop_arcs_at, clone_arcs_at, count_sort, count_app. cbn [count].
      destruct (N.eqb_spec r r0) as [|_]; [contradiction|]. rewrite !Nat.add_0_r. apply drop_clone_cancel.
      apply (strong_pos_of_count s r _ HI (or_intror I)). intros P. eapply handle_owned; [exact G1|exact P].
Qed.

Lemma refused_unchanged_lemma : forall l o, snd (exec o (run l)) = Failed ->
  snaps (fst (exec o (run l))) = snaps (run l) /\
  (forall i, ~ In i (consumed o) -> nth_error (handles (fst (exec o (run l)))) i = nth_error (handles (run l)) i) /\
  (forall i, In i (consumed o) -> get_handle (fst (exec o (run l))) i = None) /\
  (forall r, r < nreg (run l) -> ~ consumed_reaches (run l) o r -> reg (fst (exec o (run l))) r = reg (run l) r).
Proof. intros l o. apply refused_unchanged_gen, run_Inv. Qed.

Lemma run_snoc l o : run (l ++ [o]) = fst (exec o (run l)).
Proof.
  unfold run. generalize init. induction l as [|x l IH]; intros s; cbn [app run_from]; [reflexivity|apply IH].
Qed.

(* a refused creation: no handle, nothing else touched; what GuestRegionMmap::new consumed is unmapped exactly once
   (or, if external, left alone) *)
Lemma refused_create_lemma : forall l v slot,
  let s := run l in let s' := fst (exec (CreateRefused v slot) s) in
  snd (exec (CreateRefused v slot) s) = Failed /\ handles s' = handles s /\ snaps s' = snaps s /\
  (forall r, r < nreg s -> reg s' r = reg s r) /\
  (v < 6 -> s' = s) /\
  (6 <= v -> nreg s' = nreg s + 1 /\ ~ reaches s' (nreg s) /\
     let x := reg s' (nreg s) in
     r_kind x = (v - 6) mod 3 /\ r_strong x = O /\
     (r_kind x <> 2 -> r_live x = false /\ r_unmaps x = 1%nat) /\
     (r_kind x = 2 -> r_live x = true /\ r_unmaps x = O)).
Proof.
  intros l v slot s s'. unfold s'. cbn [exec]. destruct (N.ltb_spec v 6) as [Hlt|Hge]; cbn [fst snd].
  - repeat split; try reflexivity; exfalso; lia.
  - split; [reflexivity|]. split; [reflexivity|]. split; [reflexivity|]. split.
    { intros r Hr. cbn [reg]. unfold updf. destruct (N.eqb_spec r (nreg s)); [lia|reflexivity]. }
    split; [intros Hx; lia|]. intros _. cbn [nreg reg]. split; [reflexivity|]. split.
    + (* nothing reaches the new id: it is fresh in s, and the handles / snapshots are those of s *)
      intros (i & h & A & B). cbn [handles] in A.
      assert (R : reaches s (nreg s)).
      { exists i, h. split; [exact A|]. destruct h as [r'|rs|a]; cbn [reach_list snaps] in *; exact B. }
      apply (owners_pos_iff_reaches_gen s (nreg s) (run_Inv l)) in R.
      rewrite (J_fresh s (run_Inv l) (nreg s)) in R by lia. lia.
    + unfold updf. rewrite N.eqb_refl. unfold drop_region. cbn [r_owned].
      destruct (N.eqb_spec ((v - 6) mod 3) 2) as [E|E]; cbn [negb r_kind r_strong r_live r_unmaps].
      * repeat split; try reflexivity; try (intros; congruence).
      * repeat split; try reflexivity; try (intros; congruence).
Qed.

Lemma refused_consumed_lemma : forall l o r, r < nreg (run (l ++ [o])) -> r_kind (reg (run (l ++ [o])) r) <> 2 ->
  (r_live (reg (run (l ++ [o])) r) = true <-> reaches (run (l ++ [o])) r) /\
  (r_unmaps (reg (run (l ++ [o])) r) <= 1)%nat /\
  (r_unmaps (reg (run (l ++ [o])) r) = 1%nat <-> ~ reaches (run (l ++ [o])) r).
Proof.
  intros l o r Hr Hk. split; [apply live_iff_owner_lemma; assumption|].
  destruct (unmapped_once_lemma (l ++ [o]) r Hr) as [A B]. split; [exact A|]. apply (B Hk).
Qed.

(* ================================================================== locality: an operation touches only the records
   of the regions its argument handles reach.  In particular the munmap of a Drop hits the dropped handle's own
   regions and NO other mapping ("unmapped exactly once, nothing else touched"). *)
Definition args_reach (s : state) (o : op) (r : N) : Prop :=
  exists h hd, In h (args o) /\ get_handle s h = Some hd /\ In r (reach_list s hd).

Lemma count_zero_notin r l : ~ In r l -> count r l = O.
Proof. intros H. destruct (count r l) eqn:C; [reflexivity|]. exfalso. apply H, count_pos_In. lia. Qed.
Lemma clone_arcs_notin rs f r : ~ In r rs -> clone_arcs rs f r = f r.
Proof. intros H. rewrite clone_arcs_at, (count_zero_notin r rs H). reflexivity. Qed.
Lemma drop_arcs_notin rs f r : ~ In r rs -> drop_arcs rs f r = f r.
Proof. intros H. rewrite drop_arcs_at, (count_zero_notin r rs H). reflexivity. Qed.
Lemma region_handles_reach s hs rs r : region_handles s hs = Some rs -> In r rs ->
  exists h, In h hs /\ get_handle s h = Some (HRegion r).
Proof.
  intros RH Hin. rewrite region_handles_rh in RH. destruct (rh_l_In _ _ _ r RH Hin) as (h & A & B).
  exists h. split; [exact A|]. unfold get_handle. rewrite B. reflexivity.
Qed.
Lemma sort_In f r l : In r (sort_by_start f l) <-> In r l.
Proof. split; apply Permutation_in; [apply sort_perm|apply Permutation_sym, sort_perm]. Qed.

Lemma op_local_gen s o r : r < nreg s -> ~ args_reach s o r -> reg (fst (exec o s)) r = reg s r.
Proof.
  intros Hr Hn.
  assert (Via : forall h hd, In h (args o) -> get_handle s h = Some hd -> ~ In r (reach_list s hd)).
  { intros h hd A B C. apply Hn. exists h, hd. repeat split; assumption. }
  destruct o as [kind slot|hs|hm hr|hm base size|h|hm|h|v slot|unwrap hs|hm hr]; cbn [exec args] in *.
  - cbn [fst reg]. unfold updf. destruct (N.eqb_spec r (nreg s)); [lia|reflexivity].
  - destruct (region_handles s hs) as [rs|] eqn:RH; [|reflexivity].
    assert (Nin : ~ In r rs).
    { intros Hin. destruct (region_handles_reach s hs rs r RH Hin) as (h & A & B). apply (Via h _ A B). left. reflexivity. }
    destruct (from_arc_regions_ok _ _); cbn [fst push with_reg reg].
    + apply clone_arcs_notin, Nin.
    + rewrite drop_arcs_notin by exact Nin. apply clone_arcs_notin, Nin.
  - destruct (get_handle s hm) as [[?|rs|?]|] eqn:G1; try reflexivity.
    destruct (get_handle s hr) as [[r0|?|?]|] eqn:G2; try reflexivity.
    assert (N1 : ~ In r rs) by (apply (Via hm _ (or_introl eq_refl) G1)).
    assert (N2 : r <> r0) by (intros ->; apply (Via hr _ (or_intror (or_introl eq_refl)) G2); left; reflexivity).
    assert (E : updf (clone_arcs rs (reg s)) r0 (clone1 (clone_arcs rs (reg s) r0)) r = reg s r).
    { unfold updf. destruct (N.eqb_spec r r0); [contradiction|]. apply clone_arcs_notin, N1. }
    destruct (from_arc_regions_ok _ _); cbn [fst push with_reg reg]; [exact E|].
    rewrite drop_arcs_notin; [exact E|]. rewrite sort_In. intros Hin. apply in_app_or in Hin. destruct Hin as [Hin|[<-|[]]]; [contradiction|congruence].
  - destruct (get_handle s hm) as [[?|rs|?]|] eqn:G1; try reflexivity.
    destruct (find_start (reg s) base rs) as [i|]; [|reflexivity]. destruct (size =? PAGE); [|reflexivity].
    cbn [fst push reg]. apply clone_arcs_notin. apply (Via hm _ (or_introl eq_refl) G1).
  - destruct (get_handle s h) as [[r0|rs|a]|] eqn:G; try reflexivity.
    + cbn [fst push reg]. unfold updf. destruct (N.eqb_spec r r0) as [->|]; [|reflexivity].
      exfalso. apply (Via h _ (or_introl eq_refl) G). left. reflexivity.
    + cbn [fst push reg]. apply clone_arcs_notin. apply (Via h _ (or_introl eq_refl) G).
    + destruct (nth_error (snaps s) a); reflexivity.
  - destruct (get_handle s hm) as [[?|rs|?]|] eqn:G; try reflexivity.
    cbn [fst reg]. apply clone_arcs_notin. apply (Via hm _ (or_introl eq_refl) G).
  - destruct (get_handle s h) as [[r0|rs|a]|] eqn:G; try reflexivity.
    + cbn [fst reg]. unfold updf. destruct (N.eqb_spec r r0) as [->|]; [|reflexivity].
      exfalso. apply (Via h _ (or_introl eq_refl) G). left. reflexivity.
    + cbn [fst reg]. apply drop_arcs_notin. apply (Via h _ (or_introl eq_refl) G).
    + pose proof (Via h _ (or_introl eq_refl) G) as Nin. cbn [reach_list] in Nin.
      destruct (nth_error (snaps s) a) as [sn|]; [|reflexivity].
      destruct (s_strong sn) as [|[|n]]; cbn [fst reg]; try reflexivity. apply drop_arcs_notin, Nin.
  - destruct (v <? 6); [reflexivity|]. cbn [fst reg]. unfold updf. destruct (N.eqb_spec r (nreg s)); [lia|reflexivity].
  - destruct (region_handles s hs) as [rs|] eqn:RH; [|reflexivity].
    assert (Nin : ~ In r rs).
    { intros Hin. destruct (region_handles_reach s hs rs r RH Hin) as (h & A & B). apply (Via h _ A B). left. reflexivity. }
    destruct (nodupb hs && _); [|reflexivity].
    destruct (from_arc_regions_ok _ _); cbn [fst reg]; [reflexivity|]. apply drop_arcs_notin, Nin.
  - destruct (get_handle s hm) as [[?|rs|?]|] eqn:G1; try reflexivity.
    destruct (get_handle s hr) as [[r0|?|?]|] eqn:G2; try reflexivity.
    assert (N1 : ~ In r rs) by (apply (Via hm _ (or_introl eq_refl) G1)).
    assert (N2 : r <> r0) by (intros ->; apply (Via hr _ (or_intror (or_introl eq_refl)) G2); left; reflexivity).
    destruct (from_arc_regions_ok _ _); cbn [fst reg]; [apply clone_arcs_notin, N1|].
    rewrite drop_arcs_notin; [apply clone_arcs_notin, N1|]. rewrite sort_In. intros Hin. apply in_app_or in Hin.
    destruct Hin as [Hin|[<-|[]]]; [contradiction|congruence].
Qed.

Lemma op_local_lemma : forall l o r, r < nreg (run l) -> ~ args_reach (run l) o r ->
  reg (run (l ++ [o])) r = reg (run l) r.
Proof. intros l o r Hr Hn. rewrite run_snoc. apply op_local_gen; assumption. Qed.

(* the drop of a handle, spelled out: every region the handle does not reach keeps its record - mapping state,
   munmap count, strong count *)
Lemma drop_local_lemma : forall l h r, r < nreg (run l) ->
  (forall hd, get_handle (run l) h = Some hd -> ~ In r (reach_list (run l) hd)) ->
  reg (run (l ++ [DropH h])) r = reg (run l) r.
Proof.
  intros l h r Hr Hn. apply op_local_lemma; [exact Hr|]. intros (h' & hd & A & B & C). cbn [args] in A.
  destruct A as [<-|[]]. exact (Hn hd B C).
Qed.
